(* C07 composition, part 2: the live hub as seen by a subscriber.
   For a hub-configured Forkable past its LIB discovery (invariant Post of Proofs/Hub/HubInv.v) the reference
   stack V = (the consumer that applied every event since the discovery) with the discovered LIB block
   underneath: one ProcessBlock call acts on V as the strict stack machine `vfold` of C07_ComposeStack.v
   (Undo events pop the top of the pending chain, New events push a run that links to what is left, the
   bottom block - the discovered LIB - is never popped), and V's top is the head. *)
From Coq Require Import Sorted.
From BV Require Import Base.Prelude Model.Block Model.ForkDB Model.Forkable Model.ForkableLookups Model.Burst Model.Hub
  Spec.Consumer Spec.Universe Check.Fk_Check Check.Burst_Check Spec.C09_Spec
  Proofs.Fk.StoreFacts Proofs.Fk.WalkFacts Proofs.Fk.LoopFacts Proofs.Fk.StoreChange Proofs.Fk.SwitchFacts
  Proofs.Fk.FixedLib Proofs.Fk.MovingLibStore Proofs.Fk.MovingLibWalk Proofs.Fk.MovingLibLoops
  Proofs.Fk.MovingLibInv Proofs.Fk.MovingLibFin Proofs.Fk.MovingLibDisc
  Proofs.Hub.StepFields Proofs.Hub.ConsFacts Proofs.Hub.StepStore Proofs.Hub.Retention Proofs.Hub.StepIrr
  Proofs.Hub.HubInv Proofs.Hub.HubRun Proofs.Hub.HubFed Proofs.Hub.LinkedRuns Proofs.Hub.CursorLife
  Proofs.C09_Store Proofs.C09_Segment Proofs.C09_Proofs Spec.C05_Spec Proofs.C05_Fast Proofs.C05_Forked Proofs.Hub.C09_History
  Proofs.C07_ComposeStack.
Local Open Scope N_scope.

Section HubV.
  Variable U : list block.
  Variables first kept : N.

  Hypothesis U_id : forall b, In b U -> bid b <> 0 /\ bid b <> bparent b.
  Hypothesis U_uniq : forall x y, In x U -> In y U -> bid x = bid y -> x = y.
  Hypothesis U_up : forall x y, In x U -> In y U -> bparent x = bid y -> bnum y < bnum x.
  Hypothesis D_decl : forall b, In b U -> decl_none U b.

  Let cfg := hub_config first kept.
  Let Hnofail : c_fail_at cfg = None := eq_refl.
  Let Hnew : f_new (c_filter cfg) = true := eq_refl.
  Let Hundo : f_undo (c_filter cfg) = true := eq_refl.
  Let Hirr : f_irr (c_filter cfg) = true := eq_refl.
  Let Hhold : c_hold cfg = true := eq_refl.
  Let Hincl : c_incl cfg = false := eq_refl.

  Notation Post := (Post U cfg).
  Notation IInv a := (Inv U (R a) cfg).

  (* ------------------------------------------------------------------ one call, as lists of blocks *)

  (* post_step of HubInv.v with the shape of the pending chain before and after made explicit:
     pend = the pending chain before, Q0 what the Undo events leave of it, Fnew ++ pend' = Q0 ++ the New blocks *)
  Lemma post_step_chain a s Fin S c b : Post a s Fin S c -> In b U ->
    exists s' evU evN evQ Fnew S' c' pend Q0 pend',
      fk_step cfg s b = (s', (evU ++ evN) ++ evQ, ROk) /\ Post a s' (Fin ++ Fnew) S' c' /\
      Forall (fun e => estep e = SUndo) evU /\ Forall (fun e => estep e = SNew) evN /\ Forall quiet evQ /\
      S = rev (Fin ++ pend) /\ pend = Q0 ++ rev (map eblk evU) /\
      S' = rev ((Fin ++ Fnew) ++ pend') /\ Q0 ++ map eblk evN = Fnew ++ pend' /\
      lnk (bid (libblk a Fin)) Fnew /\
      lnk (bid (libblk a Fin)) (Fnew ++ pend') /\
      Forall (fun x => In x U /\ bnum (libblk a Fin) < bnum x) (Fnew ++ pend').
  Proof.
    intros [Ha HI Hc Hcl Hne Hx] Hb.
    destruct (inv_lib U cfg a s Fin S Ha HI) as (HLU & Hlib).
    pose proof (libblk_tip0 a Fin) as Htip.
    set (L := libblk a Fin) in *.
    assert (HrnL : rn (libref (db s)) = bnum L) by (rewrite Hlib; reflexivity).
    assert (HriL : ri (libref (db s)) = bid L) by (rewrite Hlib; reflexivity).
    destruct (step_inv U (R a) cfg Hnofail Hnew Hundo U_id U_uniq U_up (R_id U U_id a Ha) (R_num U U_uniq a Ha)
                (R_up U U_up a Ha) (R_decl U U_uniq D_decl a Ha) s Fin S b HI Hb)
      as (s' & evA & evI & evS & Fnew & S' & Hstep & Happ & HI' & HsA & HuA & HsI & HsS & HmI & Hmono & HFnew & _ & _ & _ & HSS & _).
    pose proof HI as [Hd Hfin Hflast Hh]. pose proof HI' as [Hd' Hfin' Hflast' Hh'].
    assert (Hhd : exists hd, last_sent s = Some hd).
    { destruct (last_sent s) as [hd|]; [eauto|]. destruct Hh as (HS0 & _). contradiction. }
    destruct Hhd as [hd Els]. rewrite Els in Hh. destruct Hh as (HhU & p & Hcp & HS & Hsp).
    destruct HFnew as [[HFn HFl]|(Hls0 & _)]; [|congruence].
    assert (HS'ne : S' <> []) by (destruct HSS as [HSS|HSS]; [contradiction | exact HSS]).
    assert (Hhd' : exists hd', last_sent s' = Some hd').
    { destruct (last_sent s') as [hd'|]; [eauto|]. destruct Hh' as (HS0 & _). contradiction. }
    destruct Hhd' as [hd' Els']. rewrite Els' in Hh'. destruct Hh' as (HhU' & p' & Hcp' & HS' & Hsp').
    assert (Hhl : has_lib (db s) = true) by (apply (di_has_lib U (R a)); exact Hd).
    destruct (fk_step_fields cfg Hnofail Hincl s b Hhl Hcl (proj1 (U_id b Hb)))
      as (s2 & evU & evN & evL & r & Hrun & HsU & HsN & HsL & HF & Hc2 & Hx2).
    rewrite Hstep in Hrun. injection Hrun as <- Hevs <-.
    assert (HnuA : Forall nu evA).
    { eapply Forall_impl; [|exact HsA]. cbn beta. unfold nu. tauto. }
    assert (HnuUN : Forall nu (evU ++ evN)).
    { apply Forall_app. split; [eapply Forall_impl; [|exact HsU] | eapply Forall_impl; [|exact HsN]]; cbn beta; unfold nu; auto. }
    assert (HqIS : Forall quiet (evI ++ evS)).
    { apply Forall_app. split; [eapply Forall_impl; [|exact HsI] | eapply Forall_impl; [|exact HsS]]; cbn beta; unfold quiet; auto. }
    rewrite (app_assoc evU evN evL) in Hevs.
    destruct (nu_split _ _ _ _ Hevs HnuA HnuUN HqIS HsL) as [-> <-].
    assert (HQp : Forall (fun x => In x U /\ bnum L < bnum x) (map eb p)).
    { apply Forall_forall. intros x Hxin. apply in_map_iff in Hxin as (e & <- & He). split.
      - apply (di_inU U _ _ Hd). eapply chain_in; eassumption.
      - rewrite <- HrnL. apply (di_above U (R a) U_id U_up _ Hd _ _ Hcp e He). }
    rewrite HS in Happ.
    destruct (apply_all_split _ evU evN _ _ Happ) as (S1 & HappU & HappN).
    assert (HundoU : forall e, In e evU -> In (eblk e) U /\ rn (libref (db s)) < bnum (eblk e)).
    { intros e He. apply HuA; [apply in_or_app; left; exact He|]. rewrite Forall_forall in HsU. apply HsU. exact He. }
    assert (Hnodig : forall e, In e evU -> In (eblk e) U /\ ~ In (bid (eblk e)) (map bid Fin)).
    { intros e He. destruct (HundoU e He) as [HeU Hlt]. split; [exact HeU|]. intros Hin.
      apply in_map_iff in Hin as (x & Ex & Hxin). rewrite Forall_forall in Hfin. destruct (Hfin x Hxin) as [HxU Hxn].
      assert (x = eblk e) by (apply U_uniq; assumption). subst x. lia. }
    assert (HpU : Forall (fun x => In x U) (map eb p)).
    { eapply Forall_impl; [|exact HQp]. cbn beta. tauto. }
    destruct (undo_phase U U_uniq (ri (R a)) Fin true evU (map eb p) S1 HsU Hnodig HpU HappU) as (Q0 & HQ0 & HS1 & HcU).
    destruct (new_phase (ri (R a)) (length Fin) true evN S1 S' HsN HappN) as [HS'2 HcN].
    assert (HQn : Q0 ++ map eblk evN = Fnew ++ map eb p').
    { apply (app_inv_head Fin). apply rev_inj. rewrite !app_assoc, <- HS', HS'2, HS1.
      rewrite (rev_app_distr (Fin ++ Q0)). reflexivity. }
    assert (HFnU : Forall (fun x => In x U /\ bnum L < bnum x) Fnew).
    { apply Forall_forall. intros x Hxin. rewrite Forall_forall in HFn, Hfin'. destruct (HFn x Hxin) as [H1 _].
      split; [apply Hfin'; apply in_or_app; right; exact Hxin | lia]. }
    assert (HQp' : Forall (fun x => In x U /\ bnum L < bnum x) (map eb p')).
    { apply Forall_forall. intros x Hxin. apply in_map_iff in Hxin as (e & <- & He). split.
      - apply (di_inU U _ _ Hd'). eapply chain_in; eassumption.
      - pose proof (di_above U (R a) U_id U_up _ Hd' _ _ Hcp' e He). lia. }
    assert (HlF : lnk (bid L) Fnew) by (rewrite <- HriL; exact HFl).
    assert (Hlall : lnk (bid L) (Fnew ++ map eb p')).
    { apply linked_app_iff. split; [exact HlF|].
      pose proof (inv_linked U (R a) cfg s' (Fin ++ Fnew) S' _ _ HI' Hcp') as H.
      rewrite tipid_tip, <- libblk_tip0, libblk_tip in H. exact H. }
    exists s', evU, evN, (evI ++ evS), Fnew, S', (mkCons S' (length (Fin ++ Fnew)) true), (map eb p), Q0, (map eb p').
    split; [exact Hstep|]. split.
    { constructor; try assumption; try reflexivity.
      - destruct (Hc2 eq_refl) as [H|(f & Hf & _)]; [exact H | discriminate].
      - apply Hx2. exact Hx. }
    split; [exact HsU|]. split; [exact HsN|]. split; [exact HqIS|]. split; [exact HS|]. split; [exact HQ0|].
    split; [exact HS'|]. split; [exact HQn|]. split; [exact HlF|]. split; [exact Hlall|].
    apply Forall_app. split; assumption.
  Qed.

  (* ------------------------------------------------------------------ the reference stack *)

  (* A: what has to be put under the consumer's stack to root it at the discovered LIB block a *)
  Definition Rooted (a : block) (Fin A : list block) : Prop :=
    (A = [a] /\ lnk (bid a) Fin) \/ (A = [] /\ exists F', Fin = a :: F' /\ lnk (bid a) F').

  Lemma rooted_of_fin a Fin : FinRooted a Fin -> exists A, Rooted a Fin A.
  Proof. intros [H|H]; [exists [a]; left; auto | exists []; right; auto]. Qed.

  Lemma rooted_tip a Fin A x : Rooted a Fin A -> tip x (A ++ Fin) = bid (libblk a Fin).
  Proof.
    intros [[-> _]|(-> & F' & -> & _)]; rewrite libblk_tip0.
    - rewrite tip_app. reflexivity.
    - cbn [app]. change (a :: F') with ([a] ++ F'). rewrite !tip_app. reflexivity.
  Qed.

  Lemma rooted_app a Fin A F2 : Rooted a Fin A -> lnk (bid (libblk a Fin)) F2 -> Rooted a (Fin ++ F2) A.
  Proof.
    intros [[-> H]|(-> & F' & -> & H)] H2.
    - left. split; [reflexivity|]. apply linked_app_iff. split; [exact H|]. rewrite <- libblk_tip0. exact H2.
    - right. split; [reflexivity|]. exists (F' ++ F2). split; [reflexivity|]. apply linked_app_iff. split; [exact H|].
      replace (tip (bid a) F') with (bid (libblk a (a :: F'))); [exact H2|].
      change (a :: F') with ([a] ++ F'). rewrite libblk_tip. reflexivity.
  Qed.

  Lemma rooted_ne a Fin A : Rooted a Fin A -> A ++ Fin <> [].
  Proof. intros [[-> _]|(-> & F' & -> & _)]; discriminate. Qed.

  Lemma rooted_lnk a Fin A : Rooted a Fin A -> lnk (bparent a) (A ++ Fin).
  Proof.
    intros [[-> H]|(-> & F' & -> & H)]; cbn [app lnk]; auto.
  Qed.

  Definition VState (s : fstate) (V : list block) : Prop :=
    exists a Fin S c A, Post a s Fin S c /\ Rooted a Fin A /\ V = S ++ rev A.

  Lemma vstate_facts s V : VState s V ->
    V <> [] /\ chainU U V /\ wf_state s /\ exists hd, last_sent s = Some hd /\ hd_error V = Some hd.
  Proof.
    intros (a & Fin & S & c & A & HP & HR & ->).
    pose proof (po_a U cfg a s Fin S c HP) as Ha. pose proof (po_inv U cfg a s Fin S c HP) as HI.
    destruct (post_head U cfg U_id U_uniq U_up a s Fin S c HP) as (hd & p & Hls & HhU & Hcp & HS & HpU & Hlp & Htp & HFin).
    assert (HrV : rev (S ++ rev A) = (A ++ Fin) ++ map eb p).
    { rewrite HS, rev_app_distr, !rev_involutive, app_assoc. reflexivity. }
    assert (HAU : Forall (fun x => In x U) A).
    { destruct HR as [[-> _]|[-> _]]; [constructor; [exact Ha | constructor] | constructor]. }
    assert (HallU : forall x, In x (S ++ rev A) -> In x U).
    { intros x Hx. apply in_rev in Hx. rewrite HrV in Hx. rewrite Forall_forall in HAU, HpU, HFin.
      apply in_app_or in Hx as [Hx|Hx]; [apply in_app_or in Hx as [Hx|Hx]|].
      - apply HAU. exact Hx.
      - apply HFin. exact Hx.
      - apply HpU. exact Hx. }
    assert (HVne : S ++ rev A <> []).
    { intros E. apply (f_equal (@rev block)) in E. rewrite HrV in E. cbn [rev] in E.
      apply app_eq_nil in E as [E _]. exact (rooted_ne a Fin A HR E). }
    split; [exact HVne|].
    split.
    { split.
      - apply Forall_forall. exact HallU.
      - exists (bparent a). rewrite HrV. apply linked_app_iff. split; [apply rooted_lnk; exact HR|].
        rewrite (rooted_tip a Fin A _ HR). exact Hlp. }
    split; [exact (inv_wf_state U cfg U_id U_uniq U_up a s Fin S Ha HI)|].
    exists hd. split; [exact Hls|].
    (* the top of V is the head *)
    assert (Htop : tip 0 (rev (S ++ rev A)) = bid hd).
    { rewrite HrV, tip_app, (rooted_tip a Fin A _ HR). exact Htp. }
    unfold tip in Htop. rewrite rev_involutive in Htop.
    destruct (S ++ rev A) as [|t V0]; [contradiction|].
    cbn [hd_error]. f_equal. apply U_uniq; [|exact HhU|exact Htop].
    apply HallU. left. reflexivity.
  Qed.

  (* the head's complete segment: blocks of the universe, parent-linked, ending with the head *)
  Lemma vstate_segment s V hd sg reach : VState s V -> last_sent s = Some hd ->
    complete_segment (db s) (bref hd) = Some (sg, reach) ->
    good_seg sg /\ Forall (fun x => In (seg_blk x) U) sg /\ exists pre z, sg = pre ++ [z] /\ sid z = bid hd.
  Proof.
    intros (a & Fin & S & c & A & HP & _ & _) Hls E.
    destruct (post_segment U cfg U_id U_uniq U_up a s Fin S c HP hd sg reach Hls E) as (H1 & _ & H3 & H4).
    auto.
  Qed.

  (* the store: blocks of the universe; the head's segment is stored *)
  Lemma vstate_store s V : VState s V ->
    (forall e, In e (store (db s)) -> In (eb e) U) /\
    (forall hd sg reach, last_sent s = Some hd -> complete_segment (db s) (bref hd) = Some (sg, reach) -> seg_stored (db s) sg).
  Proof.
    intros (a & Fin & S & c & A & HP & _ & _). split.
    - pose proof (po_inv U cfg a s Fin S c HP) as HI. exact (di_inU U _ _ (i_db U _ _ _ _ _ HI)).
    - intros hd sg reach Hls E.
      destruct (post_segment U cfg U_id U_uniq U_up a s Fin S c HP hd sg reach Hls E) as (_ & H2 & _). exact H2.
  Qed.

  (* one ProcessBlock call of a hub past the discovery *)
  Lemma vstate_step s V b : VState s V -> In b U ->
    exists s' evs V', fk_step cfg s b = (s', evs, ROk) /\ VState s' V' /\ vfold V evs = Some V' /\
      Forall (fun e => matches_new (estep e) = true -> In (eblk e) U) evs.
  Proof.
    intros (a & Fin & S & c & A & HP & HR & ->) Hb.
    destruct (post_step_chain a s Fin S c b HP Hb)
      as (s' & evU & evN & evQ & Fnew & S' & c' & pend & Q0 & pend' & Hstep & HP' & HsU & HsN & HsQ & HS & HQ0 & HS' & HQn & HlF & Hlall & HallU).
    set (L := libblk a Fin) in *.
    exists s', ((evU ++ evN) ++ evQ), (S' ++ rev A).
    split; [exact Hstep|]. split.
    { exists a, (Fin ++ Fnew), S', c', A. split; [exact HP'|]. split; [apply rooted_app; assumption | reflexivity]. }
    split.
    - (* the events on V *)
      assert (HV : S ++ rev A = map eblk evU ++ rev ((A ++ Fin) ++ Q0)).
      { rewrite HS, HQ0, <- rev_app_distr. rewrite !app_assoc, rev_app_distr, rev_involutive. reflexivity. }
      assert (Hne : rev ((A ++ Fin) ++ Q0) <> []).
      { intros E. apply (f_equal (@rev block)) in E. rewrite rev_involutive in E. cbn [rev] in E.
        apply app_eq_nil in E as [E _]. exact (rooted_ne a Fin A HR E). }
      replace ((evU ++ evN) ++ evQ) with (evU ++ evN ++ evQ) by (rewrite app_assoc; reflexivity).
      rewrite HV, vfold_app, (vfold_undos evU _ HsU Hne), vfold_app.
      destruct (rev ((A ++ Fin) ++ Q0)) as [|top rest] eqn:Er; [contradiction|].
      assert (Htop : bid top = tip (bid L) Q0).
      { assert (H : tip 0 ((A ++ Fin) ++ Q0) = bid top) by (unfold tip; rewrite Er; reflexivity).
        rewrite tip_app, (rooted_tip a Fin A _ HR) in H. symmetry. exact H. }
      assert (HlN : lnk (bid top) (map eblk evN)).
      { rewrite <- HQn in Hlall. apply linked_app_iff in Hlall as [_ H]. rewrite Htop. exact H. }
      rewrite (vfold_news evN top rest HsN HlN).
      assert (HqQ : Forall (fun e => nu_ev e = false) evQ).
      { eapply Forall_impl; [|exact HsQ]. cbn beta. intros e [He|He]; unfold nu_ev; rewrite He; reflexivity. }
      rewrite (vfold_quiet evQ _ HqQ). f_equal.
      rewrite <- Er, <- rev_app_distr, HS'. rewrite <- rev_app_distr. f_equal.
      rewrite <- !app_assoc. f_equal. f_equal. rewrite HQn. reflexivity.
    - (* New blocks are blocks of the universe *)
      apply Forall_app. split; [apply Forall_app; split|].
      + eapply Forall_impl; [|exact HsU]. cbn beta. intros e He Hm. rewrite He in Hm. discriminate.
      + apply Forall_forall. intros e He _. rewrite Forall_forall in HallU.
        apply HallU. rewrite <- HQn. apply in_or_app. right. apply in_map. exact He.
      + eapply Forall_impl; [|exact HsQ]. cbn beta. intros e [He|He] Hm; rewrite He in Hm; discriminate.
  Qed.

  (* ------------------------------------------------------------------ the same with the final part explicit *)

  Definition VStateX (a : block) (Fin A : list block) (s : fstate) (V : list block) : Prop :=
    exists S c, Post a s Fin S c /\ Rooted a Fin A /\ V = S ++ rev A.

  Lemma vstatex_vstate a Fin A s V : VStateX a Fin A s V -> VState s V.
  Proof. intros (S & c & H). exists a, Fin, S, c, A. exact H. Qed.

  Lemma vstate_x s V : VState s V -> exists a Fin A, VStateX a Fin A s V.
  Proof. intros (a & Fin & S & c & A & H). exists a, Fin, A, S, c. exact H. Qed.

  (* the final part only grows *)
  Lemma vstatex_step a Fin A s V b : VStateX a Fin A s V -> In b U ->
    exists s' evs Fnew V', fk_step cfg s b = (s', evs, ROk) /\ VStateX a (Fin ++ Fnew) A s' V'.
  Proof.
    intros (S & c & HP & HR & ->) Hb.
    destruct (post_step_chain a s Fin S c b HP Hb)
      as (s' & evU & evN & evQ & Fnew & S' & c' & pend & Q0 & pend' & Hstep & HP' & _ & _ & _ & _ & _ & _ & _ & HlF & _ & _).
    exists s', ((evU ++ evN) ++ evQ), Fnew, (S' ++ rev A). split; [exact Hstep|].
    exists S', c'. split; [exact HP'|]. split; [apply rooted_app; assumption | reflexivity].
  Qed.

  (* the LIB block is the last block of A ++ Fin, a beginning of rev V *)
  Lemma vstatex_rev a Fin A s V : VStateX a Fin A s V ->
    exists pre pend, A ++ Fin = pre ++ [libblk a Fin] /\ rev V = (A ++ Fin) ++ pend /\
      In (libblk a Fin) U /\ libref (db s) = bref (libblk a Fin).
  Proof.
    intros (S & c & HP & HR & ->).
    pose proof (po_a U cfg a s Fin S c HP) as Ha. pose proof (po_inv U cfg a s Fin S c HP) as HI.
    destruct (inv_lib U cfg a s Fin S Ha HI) as (HLU & Hlib).
    destruct (post_head U cfg U_id U_uniq U_up a s Fin S c HP) as (hd & p & _ & _ & _ & HS & _).
    assert (Hlast : exists pre, A ++ Fin = pre ++ [libblk a Fin]).
    { unfold libblk. destruct (rev Fin) as [|t r] eqn:E.
      - assert (Fin = []) by (rewrite <- (rev_involutive Fin), E; reflexivity). subst Fin.
        destruct HR as [[-> _]|(_ & F' & HF & _)]; [exists []; reflexivity | discriminate].
      - assert (EF : Fin = rev r ++ [t]) by (rewrite <- (rev_involutive Fin), E; reflexivity).
        exists (A ++ rev r). rewrite EF, app_assoc. reflexivity. }
    destruct Hlast as [pre Hpre]. exists pre, (map eb p). split; [exact Hpre|]. split; [|split; [exact HLU | exact Hlib]].
    rewrite HS, rev_app_distr, !rev_involutive, app_assoc. reflexivity.
  Qed.

  (* the head's complete segment around the LIB block *)
  Lemma vstatex_segment a Fin A s V hd sg : VStateX a Fin A s V -> last_sent s = Some hd ->
    complete_segment (db s) (bref hd) = Some (sg, true) ->
    exists lo xL hi, sg = lo ++ xL :: hi /\ seg_blk xL = libblk a Fin /\
      (forall y, In y hi -> bnum (libblk a Fin) < snum y) /\
      good_seg sg /\ Forall (fun x => In (seg_blk x) U) sg.
  Proof.
    intros (S & c & HP & HR & ->) Hls E.
    pose proof (po_a U cfg a s Fin S c HP) as Ha. pose proof (po_inv U cfg a s Fin S c HP) as HI.
    destruct (inv_lib U cfg a s Fin S Ha HI) as (HLU & Hlib).
    destruct (post_head U cfg U_id U_uniq U_up a s Fin S c HP) as (hd' & p & Hls' & HhU & Hcp & HS & _).
    rewrite Hls in Hls'. injection Hls' as <-.
    pose proof (complete_segment_segment_of _ _ _ _ E) as Hso.
    pose proof (segment_of_chain_to _ _ _ _ Hso) as Hct. cbn [bref ri rn] in Hct.
    pose proof (i_db U _ _ _ _ _ HI) as Hd.
    assert (Hlst : exists el, find (ri (libref (db s))) (store (db s)) = Some el).
    { pose proof (di_num U _ _ Hd) as Hnum. unfold num_of in Hnum.
      destruct (find (ri (libref (db s))) (store (db s))) as [el|]; [eauto|].
      rewrite (po_extra U cfg a s Fin S c HP) in Hnum. discriminate. }
    destruct Hlst as [el Hel].
    assert (Hin : block_in (bid (libblk a Fin)) sg = true).
    { apply block_in_spec. pose proof (chain_on_segment (db s) _ _ _ Hcp _ _ Hct el Hel) as H.
      apply in_map_iff in H as (x & Hx & Hxin). exists x. split; [exact Hxin|]. rewrite Hx, Hlib. reflexivity. }
    destruct (above_lib_part U cfg U_id U_uniq U_up a s Fin S c HP hd sg true Fin [] Hls E (eq_sym (app_nil_r Fin)) HLU I (Forall_nil _) Hin)
      as (lo & xL & hi & p' & Hsplit & HbL & _ & _ & _ & _ & _ & _ & Hhi & _).
    destruct (post_segment U cfg U_id U_uniq U_up a s Fin S c HP hd sg true Hls E) as (Hgood & _ & HsU & _).
    exists lo, xL, hi. split; [exact Hsplit|]. split; [exact HbL|]. split; [exact Hhi|]. split; [exact Hgood | exact HsU].
  Qed.

  (* a hub of a run that is ready *)
  Lemma vstate_of_hub h : hub_ok U first kept h -> h_ready h = true -> exists V, VState (h_f h) V.
  Proof.
    intros [[hist Hf] Hhead] Hrd. specialize (Hhead Hrd).
    destruct (fed_post U first kept U_id U_uniq U_up D_decl _ _ Hf Hhead) as (a & Fin & S & c & HP & _ & _ & HFR & _).
    destruct (rooted_of_fin a Fin HFR) as [A HA].
    exists (S ++ rev A), a, Fin, S, c, A. auto.
  Qed.
End HubV.
