(* C12 — MultiplexedSource: Run returns and Terminated is reached after Shutdown, under weak
   fairness, for every number of inner sources and every failure pattern. *)
From BV Require Import Base.Prelude Model.Lifecycle Proofs.C12_Sched Proofs.C12_MuxBase Proofs.C12_MuxShut.
Import Mx.

Definition active (x : option sdstage) : bool :=
  match x with Some SClose | Some SCb | Some STerm => true | _ => false end.
Definition busy_ex (s : state) : Prop := exists k i, nth_error (inners s) k = Some i /\ i_pc i = ISdBusy.
(* while the effective Shutdown() is in progress, the thread that performs it exists *)
Definition L1 (s : state) : Prop := active (sdst s) = true -> pcx s = XBusy \/ busy_ex s.

Definition irk (p : ipc) (n : nat) : nat :=
  match p with
  | INew => 0 | IRet => 0
  | IIdle => 6 * n + 1 | IFailRet => 6 * n + 2 | ISdBusy => 6 * n + 3 | IUnl _ _ => 6 * n + 3
  | IInH _ _ => 6 * n + 4 | ILocked _ _ => 6 * n + 5 | IWant _ _ => 6 * n + 6
  end.
Definition irank (i : inner) : nat := irk (i_pc i) (length (i_script i)).
Definition isum (s : state) : nat := list_sum (map irank (inners s)).
Definition rank_run (s : state) : nat :=
  let n := length (sources s) in
  match pcr s with
  | PCheck => 1 | PLock => 3 | PSleep => 2 | PRet => 0
  | PLoop idx => 2 * (n - idx) + 3
  | PInit idx _ => 2 * (n - idx) + 2
  end.
Definition rank_x (s : state) : nat := match pcx s with XIdle => 2 | XBusy => 1 | XDone => 0 end.
Definition rank_sd (s : state) : nat := match sdst s with None => 4 | Some g => sd_rank g end.
Definition rank (s : state) : nat := rank_run s + rank_x s + rank_sd s + isum s.

Definition Ph (s : state) : Prop := Sinv s /\ L1 s /\ terminating s = true.

(* ---- sums *)
Lemma list_sum_upd : forall (l : list nat) k f x,
  nth_error l k = Some x -> list_sum (upd l k f) + x = list_sum l + f x.
Proof.
  induction l as [|y r IH]; intros [|k] f x H; simpl in *; try discriminate.
  - inversion H; subst. lia.
  - specialize (IH k f x H). lia.
Qed.

Lemma isum_set_inner : forall s k f i, nth_error (inners s) k = Some i ->
  isum (set_inner s k f) + irank i = isum s + irank (f i).
Proof.
  intros s k f i H. unfold isum, set_inner. simpl.
  assert (E : map irank (upd (inners s) k f) = upd (map irank (inners s)) k (fun _ => irank (f i))).
  { clear -H. revert k H. induction (inners s) as [|y r IH]; intros [|k] H; simpl in *; try discriminate.
    - inversion H; subst. reflexivity.
    - f_equal. apply IH. exact H. }
  rewrite E. apply (list_sum_upd (map irank (inners s)) k (fun _ => irank (f i)) (irank i)).
  rewrite nth_error_map, H. reflexivity.
Qed.

Lemma irank_lists : forall l l' : list inner,
  map i_pc l' = map i_pc l -> map i_script l' = map i_script l -> map irank l' = map irank l.
Proof.
  induction l as [|x r IH]; intros [|y r'] H1 H2; simpl in *; try discriminate; auto.
  inversion H1. inversion H2. unfold irank at 1 3. rewrite H0, H4. f_equal. apply IH; assumption.
Qed.

Lemma isum_sbt : forall s s', same_but_terms s s' -> isum s' = isum s.
Proof.
  intros s s' B. unfold isum. f_equal. apply irank_lists; [apply (sb_pcs _ _ B) | apply (sb_scripts _ _ B)].
Qed.

Lemma isum_sd_advance : forall s, isum (sd_advance s) = isum s.
Proof.
  intros s. unfold sd_advance. destruct (sdst s) as [[]|]; auto. destruct (holds_slock s); auto.
  change (isum (shut_all (sources s) s) = isum s). apply isum_sbt, shut_all_sbt.
Qed.

Lemma sd_advance_frame : forall s,
  pcr (sd_advance s) = pcr s /\ pcx (sd_advance s) = pcx s /\ sources (sd_advance s) = sources s /\
  hholder (sd_advance s) = hholder s /\ pcs (sd_advance s) = pcs s.
Proof.
  intros s. unfold sd_advance. destruct (sdst s) as [[]|] eqn:Eg; simpl; auto.
  destruct (holds_slock s); simpl; auto.
  destruct (shut_all_sbt (sources s) s). auto.
Qed.

Lemma sd_advance_rank : forall s, sd_advance s = s \/ rank_sd (sd_advance s) < rank_sd s.
Proof.
  intros s. unfold sd_advance, rank_sd. destruct (sdst s) as [[]|] eqn:Eg; simpl; auto.
  destruct (holds_slock s); simpl; auto.
Qed.

Lemma sd_advance_inner : forall s j i, nth_error (inners s) j = Some i ->
  exists i1, nth_error (inners (sd_advance s)) j = Some i1 /\ i_pc i1 = i_pc i /\ i_script i1 = i_script i.
Proof.
  intros s j i H. unfold sd_advance. destruct (sdst s) as [[]|]; simpl; eauto.
  destruct (holds_slock s); simpl; eauto.
  pose proof (shut_all_sbt (sources s) s) as B.
  pose proof (f_equal (fun l => nth_error l j) (sb_pcs _ _ B)) as E1. simpl in E1. rewrite !nth_pcs, H in E1.
  pose proof (f_equal (fun l => nth_error l j) (sb_scripts _ _ B)) as E2. simpl in E2. rewrite !nth_error_map, H in E2.
  destruct (nth_error (inners (shut_all (sources s) s)) j) as [i1|]; simpl in *; [|discriminate].
  exists i1. inversion E1. inversion E2. auto.
Qed.

Lemma rank_sbt : forall a b, same_but_terms a b -> rank b = rank a.
Proof.
  intros a b B. unfold rank, rank_run, rank_x, rank_sd.
  rewrite (sb_pcr _ _ B), (sb_pcx _ _ B), (sb_sdst _ _ B), (sb_src _ _ B), (isum_sbt _ _ B). reflexivity.
Qed.

Lemma rank_set_inner : forall s j f i s', nth_error (inners s) j = Some i -> irank (f i) < irank i ->
  pcr s' = pcr s -> sources s' = sources s -> pcx s' = pcx s -> sdst s' = sdst s ->
  inners s' = inners (set_inner s j f) -> rank s' < rank s.
Proof.
  intros s j f i s' En Hlt E1 E2 E3 E4 E5. unfold rank, rank_run, rank_x, rank_sd. rewrite E1, E2, E3, E4.
  assert (isum s' = isum (set_inner s j f)) by (unfold isum; rewrite E5; reflexivity).
  pose proof (isum_set_inner s j f i En). lia.
Qed.

Lemma term_sd_advance : forall s, terminating s = true -> terminating (sd_advance s) = true.
Proof.
  intros s H. unfold terminating, sd_advance in *. destruct (sdst s) as [[]|] eqn:Eg; simpl; try rewrite Eg; try discriminate; auto.
  destruct (holds_slock s); simpl; try rewrite Eg; auto.
Qed.

Lemma sdst_shut_inner : forall k s, sdst (shut_inner k s) = sdst s.
Proof. intros. apply (sb_sdst _ _ (shut_inner_sbt k s)). Qed.

Section Fx.
Variable fx : bool.
Local Notation step := (Mx.step fx).

Lemma term_step : forall s t, terminating s = true -> terminating (step s t) = true.
Proof.
  intros s t H. destruct t as [| |j]; simpl.
  - unfold step_run. destruct (pcr s); try rewrite H; simpl; auto.
    destruct (nth_error (sources s) idx) as [cur|]; simpl; auto.
    destruct (match cur with Some k => inner_term s k | None => true end); simpl; auto.
  - unfold step_x. destruct (pcx s); auto.
    + unfold terminating in *. destruct (sdst s) eqn:Eg; simpl; [rewrite Eg; exact H | discriminate].
    + pose proof (term_sd_advance s H). destruct (terminated (sd_advance s)); auto.
  - unfold step_inner. destruct (nth_error (inners s) j) as [i|]; auto.
    destruct (i_pc i); auto.
    + destruct (i_term i); auto. destruct (i_script i) as [|[b ok|] r]; auto.
      unfold terminating. rewrite sdst_shut_inner. exact H.
    + destruct (hholder s); auto.
    + destruct (fx && terminating s); auto.
    + destruct ok; auto. unfold terminating in *. destruct (sdst s) eqn:Eg; simpl; [rewrite Eg; exact H | discriminate].
    + pose proof (term_sd_advance s H). destruct (terminated (sd_advance s)); auto.
    + unfold terminating. rewrite sdst_shut_inner. exact H.
Qed.

Lemma busy_ex_sbt : forall a b, same_but_terms a b -> busy_ex a -> busy_ex b.
Proof.
  intros a b B (k & i & Hk & Hp).
  pose proof (f_equal (fun l => nth_error l k) (sb_pcs _ _ B)) as E1. simpl in E1. rewrite !nth_pcs, Hk in E1.
  destruct (nth_error (inners b) k) as [i1|] eqn:E; simpl in *; [|discriminate].
  exists k, i1. split; auto. inversion E1. congruence.
Qed.

Lemma busy_ex_set_inner : forall s j f,
  (forall i, nth_error (inners s) j = Some i -> i_pc i = ISdBusy -> i_pc (f i) = ISdBusy) ->
  busy_ex s -> busy_ex (set_inner s j f).
Proof.
  intros s j f Hf (k & i & Hk & Hp). unfold busy_ex, set_inner. simpl.
  destruct (Nat.eq_dec k j) as [->|Hne].
  - exists j, (f i). rewrite nth_upd_eq, Hk. simpl. auto.
  - exists k, i. rewrite nth_upd_ne by exact Hne. auto.
Qed.

Lemma busy_ex_ext : forall a b, inners b = inners a -> busy_ex a -> busy_ex b.
Proof. intros a b E (k & i & Hk & Hp). exists k, i. rewrite E. auto. Qed.

Lemma L1_init : forall n sup, L1 (init n sup).
Proof. intros n sup H. discriminate. Qed.

Lemma L1_sd_advance : forall s, L1 s -> L1 (sd_advance s).
Proof.
  intros s H. unfold sd_advance. destruct (sdst s) as [[]|] eqn:Eg; try exact H.
  - intros _. simpl. unfold L1 in H. rewrite Eg in H. destruct (H eq_refl) as [A|A]; auto.
  - destruct (holds_slock s); [exact H|].
    intros _. unfold L1 in H. rewrite Eg in H. destruct (H eq_refl) as [A|A]; [left|right].
    + simpl. rewrite (sb_pcx _ _ (shut_all_sbt (sources s) s)). exact A.
    + apply (busy_ex_ext (shut_all (sources s) s)); [reflexivity|].
      apply (busy_ex_sbt s); [apply shut_all_sbt | exact A].
  - intros Ha. discriminate.
Qed.

Lemma L1_step : forall s t, L1 s -> L1 (step s t).
Proof.
  intros s t H. destruct t as [| |j]; simpl.
  - (* Run thread: sdst and pcx untouched; existing inner sources keep a pc that is not INew *)
    unfold step_run. destruct (pcr s).
    + destruct (terminating s); exact H.
    + destruct (terminating s); exact H.
    + destruct (nth_error (sources s) idx) as [cur|]; [|exact H].
      destruct (match cur with Some k => inner_term s k | None => true end); [|exact H].
      intros Ha. destruct (H Ha) as [A|(k & i & Hk & Hp)]; [left; exact A | right].
      exists k, i. simpl. split; auto. rewrite nth_error_app1; auto. apply nth_error_Some. congruence.
    + destruct (terminating s); [exact H|].
      intros Ha. destruct (H Ha) as [A|(k0 & i & Hk & Hp)]; [left; exact A | right].
      unfold busy_ex. simpl. destruct (Nat.eq_dec k0 k) as [->|Hne].
      * exists k, (start_inner i). rewrite nth_upd_eq, Hk. simpl. split; auto.
        unfold start_inner. rewrite Hp. exact Hp.
      * exists k0, i. rewrite nth_upd_ne by exact Hne. auto.
    + exact H.
    + exact H.
  - unfold step_x. destruct (pcx s) eqn:Ex.
    + destruct (sdst s) eqn:Eg.
      * intros Ha. simpl in Ha. rewrite Eg in Ha. unfold L1 in H. rewrite Eg in H.
        destruct (H Ha) as [A|A]; [congruence | right; exact A].
      * intros _. left. reflexivity.
    + pose proof (L1_sd_advance s H) as H1.
      destruct (terminated (sd_advance s)) eqn:Et; [|exact H1].
      intros Ha. simpl in Ha. unfold terminated in Et. destruct (sdst (sd_advance s)) as [[]|]; discriminate.
    + exact H.
  - unfold step_inner. destruct (nth_error (inners s) j) as [i|] eqn:En; [|exact H].
    destruct (i_pc i) eqn:Epc; try exact H.
    + destruct (i_term i).
      * intros Ha. destruct (H Ha) as [A|A]; [left; exact A | right].
        apply busy_ex_set_inner; auto. intros i0 H0 X. congruence.
      * destruct (i_script i) as [|[b ok|] r]; [exact H | |].
        -- intros Ha. destruct (H Ha) as [A|A]; [left; exact A | right].
           apply busy_ex_set_inner; auto. intros i0 H0 X. congruence.
        -- intros Ha. rewrite sdst_shut_inner in Ha. destruct (H Ha) as [A|A]; [left|right].
           ++ rewrite (sb_pcx _ _ (shut_inner_sbt j _)). exact A.
           ++ apply (busy_ex_sbt (set_inner s j (set_i_script r))); [apply shut_inner_sbt|].
              apply busy_ex_set_inner; auto.
    + destruct (hholder s); [exact H|].
      intros Ha. destruct (H Ha) as [A|A]; [left; exact A | right].
      apply (busy_ex_ext (set_inner s j (set_i_pc (ILocked b ok)))); [reflexivity|].
      apply busy_ex_set_inner; auto. intros i0 H0 X. congruence.
    + destruct (fx && terminating s).
      * intros Ha. destruct (H Ha) as [A|A]; [left; exact A | right].
        apply (busy_ex_ext (set_inner s j (set_i_pc IFailRet))); [reflexivity|].
        apply busy_ex_set_inner; auto. intros i0 H0 X. congruence.
      * intros Ha. destruct (H Ha) as [A|A]; [left; exact A | right].
        apply (busy_ex_ext (set_inner s j (set_i_pc (IInH b ok)))); [reflexivity|].
        apply busy_ex_set_inner; auto. intros i0 H0 X. congruence.
    + intros Ha. destruct (H Ha) as [A|A]; [left; exact A | right].
      apply (busy_ex_ext (set_inner s j (set_i_pc (IUnl b ok)))); [reflexivity|].
      apply busy_ex_set_inner; auto. intros i0 H0 X. congruence.
    + destruct ok.
      * intros Ha. destruct (H Ha) as [A|A]; [left; exact A | right].
        apply busy_ex_set_inner; auto. intros i0 H0 X. congruence.
      * destruct (sdst s) eqn:Eg.
        -- intros Ha. simpl in Ha. rewrite Eg in Ha. unfold L1 in H. rewrite Eg in H.
           destruct (H Ha) as [A|A]; [left; exact A | right].
           apply busy_ex_set_inner; auto. intros i0 H0 X. congruence.
        -- intros _. right. exists j, (set_i_pc ISdBusy i). simpl. rewrite nth_upd_eq, En. auto.
    + pose proof (L1_sd_advance s H) as H1.
      destruct (terminated (sd_advance s)) eqn:Et; [|exact H1].
      intros Ha. simpl in Ha. unfold terminated in Et. destruct (sdst (sd_advance s)) as [[]|]; discriminate.
    + intros Ha. rewrite sdst_shut_inner in Ha. destruct (H Ha) as [A|A]; [left|right].
      * rewrite (sb_pcx _ _ (shut_inner_sbt j _)). exact A.
      * apply (busy_ex_sbt (set_inner s j (set_i_pc IIdle))); [apply shut_inner_sbt|].
        apply busy_ex_set_inner; auto. intros i0 H0 X. congruence.
Qed.

Lemma ph_step : forall s t, Ph s -> Ph (step s t).
Proof.
  intros s t (A & B & C). split; [apply S_step; exact A | split; [apply L1_step; exact B | apply term_step; exact C]].
Qed.

Lemma isum_app_new : forall s x, i_pc x = INew ->
  list_sum (map irank (inners s ++ [x])) = isum s.
Proof.
  intros s x H. unfold isum. rewrite map_app, list_sum_app. simpl. unfold irank at 2. rewrite H. simpl. lia.
Qed.

Lemma rank_step : forall s t, Ph s -> step s t = s \/ rank (step s t) < rank s.
Proof.
  intros s t (S & L & Ht). destruct t as [| |j]; simpl.
  - (* Run thread *)
    unfold step_run. destruct (pcr s) eqn:Ep.
    + rewrite Ht. right. unfold rank, rank_run, rank_x, rank_sd, isum. simpl. rewrite Ep. lia.
    + rewrite Ht. right. unfold rank, rank_run, rank_x, rank_sd, isum. simpl. rewrite Ep. lia.
    + destruct (nth_error (sources s) idx) as [cur|] eqn:Ec.
      * assert (Hidx : idx < length (sources s)) by (apply nth_error_Some; congruence).
        destruct (match cur with Some k => inner_term s k | None => true end).
        -- right. unfold rank, rank_run, rank_x, rank_sd, isum. simpl. rewrite Ep.
           rewrite map_app, list_sum_app. simpl. lia.
        -- right. unfold rank, rank_run, rank_x, rank_sd, isum. simpl. rewrite Ep. lia.
      * right. unfold rank, rank_run, rank_x, rank_sd, isum. simpl. rewrite Ep. lia.
    + rewrite Ht. right. destruct (s3 _ S idx k Ep) as (i & _ & _ & _ & Hidx).
      unfold rank, rank_run, rank_x, rank_sd, isum. simpl. rewrite Ep. lia.
    + right. unfold rank, rank_run, rank_x, rank_sd, isum. simpl. rewrite Ep. lia.
    + left. reflexivity.
  - (* external Shutdown thread *)
    unfold step_x. destruct (pcx s) eqn:Ex.
    + unfold terminating in Ht. destruct (sdst s) eqn:Eg; [|discriminate].
      right. unfold rank, rank_run, rank_x, rank_sd, isum. simpl. rewrite Ex, Eg. lia.
    + destruct (sd_advance_frame s) as (F1 & F2 & F3 & F4 & F5).
      pose proof (isum_sd_advance s) as F6. pose proof (sd_advance_rank s) as F7.
      destruct (terminated (sd_advance s)).
      * right. unfold rank, rank_run, rank_x. simpl. change (isum (set_pcx (sd_advance s) XDone)) with (isum (sd_advance s)).
        change (rank_sd (set_pcx (sd_advance s) XDone)) with (rank_sd (sd_advance s)).
        rewrite F1, F3, F6, Ex. destruct F7 as [F7|F7]; [rewrite F7|]; lia.
      * destruct F7 as [F7|F7]; [left; exact F7 | right].
        unfold rank, rank_run, rank_x. rewrite F1, F2, F3, F6. lia.
    + left. reflexivity.
  - (* inner source j *)
    unfold step_inner. destruct (nth_error (inners s) j) as [i|] eqn:En; [|left; reflexivity].
    destruct (i_pc i) eqn:Epc.
    + left. reflexivity.
    + destruct (i_term i).
      * right. eapply rank_set_inner; [exact En | | reflexivity..]. unfold irank. rewrite Epc. simpl. lia.
      * destruct (i_script i) as [|[b ok|] r] eqn:Esc; [left; reflexivity | |].
        -- right. eapply rank_set_inner; [exact En | | reflexivity..]. unfold irank. rewrite Epc, Esc. simpl. lia.
        -- right. rewrite (rank_sbt _ _ (shut_inner_sbt j (set_inner s j (set_i_script r)))).
           eapply rank_set_inner; [exact En | | reflexivity..]. unfold irank. simpl. rewrite Epc, Esc. simpl. lia.
    + destruct (hholder s); [left; reflexivity|].
      right. eapply (rank_set_inner s j (set_i_pc (ILocked b ok))); [exact En | | reflexivity..].
      unfold irank. rewrite Epc. simpl. lia.
    + destruct (fx && terminating s).
      * right. eapply (rank_set_inner s j (set_i_pc IFailRet)); [exact En | | reflexivity..].
        unfold irank. rewrite Epc. simpl. lia.
      * right. eapply (rank_set_inner s j (set_i_pc (IInH b ok))); [exact En | | reflexivity..].
        unfold irank. rewrite Epc. simpl. lia.
    + right. eapply (rank_set_inner s j (set_i_pc (IUnl b ok))); [exact En | | reflexivity..].
      unfold irank. rewrite Epc. simpl. lia.
    + destruct ok.
      * right. eapply rank_set_inner; [exact En | | reflexivity..]. unfold irank. rewrite Epc. simpl. lia.
      * unfold terminating in Ht. destruct (sdst s) eqn:Eg; [|discriminate].
        right. eapply rank_set_inner; [exact En | | reflexivity..]. unfold irank. rewrite Epc. simpl. lia.
    + destruct (sd_advance_frame s) as (F1 & F2 & F3 & F4 & F5).
      pose proof (isum_sd_advance s) as F6. pose proof (sd_advance_rank s) as F7.
      assert (Hle : rank (sd_advance s) <= rank s).
      { unfold rank, rank_run, rank_x. rewrite F1, F2, F3, F6. destruct F7 as [F7|F7]; [rewrite F7|]; lia. }
      destruct (terminated (sd_advance s)).
      * right. destruct (sd_advance_inner s j i En) as (i1 & E1 & P1 & Sc1).
        assert (rank (set_inner (sd_advance s) j (set_i_pc IFailRet)) < rank (sd_advance s)).
        { eapply rank_set_inner; [exact E1 | | reflexivity..]. unfold irank. simpl. rewrite P1, Epc. simpl. lia. }
        lia.
      * destruct F7 as [F7|F7]; [left; exact F7 | right].
        unfold rank, rank_run, rank_x. rewrite F1, F2, F3, F6. lia.
    + right. rewrite (rank_sbt _ _ (shut_inner_sbt j (set_inner s j (set_i_pc IIdle)))).
      eapply rank_set_inner; [exact En | | reflexivity..]. unfold irank. rewrite Epc. simpl. lia.
    + left. reflexivity.
Qed.

Lemma neq_by_pcr : forall s s', pcr s' <> pcr s -> s' <> s.
Proof. intros s s' H E. apply H. rewrite E. reflexivity. Qed.
Lemma neq_by_sdst : forall s s', sdst s' <> sdst s -> s' <> s.
Proof. intros s s' H E. apply H. rewrite E. reflexivity. Qed.

(* the Run thread of a multiplexed source is never blocked (nobody else holds sourcesLock across steps) *)
Lemma run_enabled : forall s, terminating s = true -> returned s = false -> pcr (step s TRun) <> pcr s.
Proof.
  intros s Ht Hr. simpl. unfold step_run, returned in *. destruct (pcr s) eqn:Ep; try discriminate;
    try rewrite Ht; simpl; try discriminate.
  destruct (nth_error (sources s) idx) as [cur|]; simpl; [|discriminate].
  destruct (match cur with Some k => inner_term s k | None => true end); simpl; [discriminate|].
  intros X. inversion X. lia.
Qed.

Lemma sd_advance_moves : forall s, active (sdst s) = true -> holds_slock s = false ->
  sdst (sd_advance s) <> sdst s.
Proof.
  intros s Ha Hl. unfold sd_advance. destruct (sdst s) as [[]|] eqn:Eg; try discriminate; simpl; try rewrite Eg; try discriminate.
  rewrite Hl. simpl. discriminate.
Qed.

Lemma progress : forall s, Ph s -> done s = false -> exists t, step s t <> s.
Proof.
  intros s (S & L & Ht) Hd. unfold done in Hd.
  destruct (active (sdst s)) eqn:Ea.
  - destruct (holds_slock s) eqn:Hl.
    + (* the callback waits for sourcesLock: its holder, the Run thread, is enabled *)
      exists TRun. apply neq_by_pcr. apply run_enabled; auto.
      unfold holds_slock, returned in *. destruct (pcr s); try discriminate; reflexivity.
    + destruct (L Ea) as [A|(k & i & Hk & Hp)].
      * exists TX. apply neq_by_sdst. simpl. unfold step_x. rewrite A.
        pose proof (sd_advance_moves s Ea Hl). destruct (terminated (sd_advance s)); exact H.
      * exists (TIn k). apply neq_by_sdst. simpl. unfold step_inner. rewrite Hk, Hp.
        pose proof (sd_advance_moves s Ea Hl). destruct (terminated (sd_advance s)); exact H.
  - exists TRun. apply neq_by_pcr. apply run_enabled; auto.
    unfold terminating, terminated, active in *. destruct (sdst s) as [[]|]; try discriminate.
    rewrite andb_true_r in Hd. exact Hd.
Qed.

Lemma sdst_step_run : forall s, sdst (step_run s) = sdst s.
Proof.
  intros s. unfold step_run. destruct (pcr s); try destruct (terminating s); simpl; auto.
  all: destruct (nth_error (sources s) idx) as [cur|]; simpl; auto.
  all: destruct (match cur with Some k => inner_term s k | None => true end); simpl; auto.
Qed.

Lemma sd_advance_done : forall s, sdst s = Some SDone -> sd_advance s = s.
Proof. intros s H. unfold sd_advance. rewrite H. reflexivity. Qed.

Lemma terminated_step : forall s t, terminated s = true -> terminated (step s t) = true.
Proof.
  intros s t H. unfold terminated in *. destruct (sdst s) as [[]|] eqn:Eg; try discriminate.
  assert (G : sdst (step s t) = Some SDone); [|rewrite G; reflexivity].
  destruct t as [| |j]; simpl.
  - rewrite sdst_step_run. exact Eg.
  - unfold step_x. rewrite (sd_advance_done s Eg). destruct (pcx s); simpl; try rewrite Eg; auto.
    destruct (terminated s); simpl; exact Eg.
  - unfold step_inner. rewrite (sd_advance_done s Eg). destruct (nth_error (inners s) j) as [i|]; [|exact Eg].
    destruct (i_pc i); simpl; try rewrite Eg; auto.
    + destruct (i_term i); simpl; auto.
      destruct (i_script i) as [|[b ok|] r]; simpl; auto.
      rewrite sdst_shut_inner. exact Eg.
    + destruct (hholder s); simpl; auto.
    + destruct (fx && terminating s); simpl; auto.
    + destruct ok; simpl; auto.
    + destruct (terminated s); simpl; exact Eg.
    + rewrite sdst_shut_inner. exact Eg.
Qed.

Lemma done_step : forall s t, done s = true -> done (step s t) = true.
Proof.
  intros s t Hd. unfold done in *. apply andb_prop in Hd. destruct Hd as [Hr Htd].
  rewrite (terminated_step s t Htd), andb_true_r.
  unfold returned in *. destruct (pcr s) eqn:Ep; try discriminate.
  destruct t as [| |j]; simpl.
  - unfold step_run. rewrite Ep. rewrite Ep. reflexivity.
  - rewrite (q_pcr _ _ (quiet_x s)), Ep. reflexivity.
  - rewrite (q_pcr _ _ (quiet_inner fx j s)), Ep. reflexivity.
Qed.

Lemma ph_run : forall n sup sched, Sinv (run step sched (init n sup)) /\ L1 (run step sched (init n sup)).
Proof.
  intros. split; [apply S_run|]. apply (run_inv step L1 L1_step). apply L1_init.
Qed.

Theorem mx_fair_termination : forall n sup sched0 sched,
  let s := run step sched0 (init n sup) in
  terminating s = true ->
  fair_rounds step (rank s) s sched ->
  done (run step sched s) = true.
Proof.
  intros n sup sched0 sched s Ht Hf.
  apply (fair_termination step Ph rank done ph_step rank_step progress
           (fun s t _ => done_step s t) (rank s) s sched);
    [destruct (ph_run n sup sched0) as [A B]; split; [exact A | split; [exact B | exact Ht]] | apply le_n | exact Hf].
Qed.

(* the once is won and the channel not closed yet: the winner is enabled and its step closes it *)
Theorem mx_closing : forall n sup sched,
  let s := run step sched (init n sup) in
  sdst s = Some SClose -> exists t, terminating (step s t) = true.
Proof.
  intros n sup sched s Hg. destruct (ph_run n sup sched) as [_ L]. fold s in L.
  unfold L1 in L. rewrite Hg in L. destruct (L eq_refl) as [A|(k & i & Hk & Hp)].
  - exists TX. simpl. unfold step_x, sd_advance, terminating, terminated. rewrite A, Hg. simpl. reflexivity.
  - exists (TIn k). simpl. unfold step_inner, sd_advance, terminating, terminated. rewrite Hk, Hp, Hg. simpl. reflexivity.
Qed.

Theorem mx_no_deadlock : forall n sup sched,
  let s := run step sched (init n sup) in
  terminated s = true -> returned s = false -> step s TRun <> s.
Proof.
  intros n sup sched s Ht Hr. apply neq_by_pcr. apply run_enabled; auto.
  unfold terminated, terminating in *. destruct (sdst s) as [[]|]; try discriminate; reflexivity.
Qed.

(* a handler error is followed by the multiplexed source's Shutdown: the goroutine that got the error
   is enabled, and its next step wins the once or finds it already won *)
Theorem mx_fail_requests_shutdown : forall s k i b,
  nth_error (inners s) k = Some i -> i_pc i = IUnl b false -> sdst (step s (TIn k)) <> None.
Proof.
  intros s k i b Hk Hp. simpl. unfold step_inner. rewrite Hk, Hp.
  destruct (sdst s) eqn:Eg; simpl; [rewrite Eg|]; discriminate.
Qed.

(* ------------------------------------------------------------ no handler call once everything returned *)
Definition all_returned (s : state) : Prop :=
  forall k i, nth_error (inners s) k = Some i -> i_returned i = true.

Lemma quiet_state_step : forall s t,
  returned s = true -> terminated s = true -> all_returned s ->
  returned (step s t) = true /\ terminated (step s t) = true /\ all_returned (step s t) /\
  hbegun (step s t) = hbegun s.
Proof.
  intros s t Hr Htd Ha. split; [|split; [apply terminated_step; exact Htd|]].
  - pose proof (done_step s t) as D. unfold done in D. rewrite Hr, Htd in D. specialize (D eq_refl).
    apply andb_prop in D. tauto.
  - unfold returned in Hr. destruct (pcr s) eqn:Ep; try discriminate.
    destruct t as [| |j]; simpl.
    + unfold step_run. rewrite Ep. split; [exact Ha | reflexivity].
    + unfold step_x. unfold terminated in Htd. destruct (sdst s) as [[]|] eqn:Eg; try discriminate.
      rewrite (sd_advance_done s Eg). unfold terminated. rewrite Eg.
      destruct (pcx s); simpl; split; try exact Ha; reflexivity.
    + unfold step_inner. destruct (nth_error (inners s) j) as [i|] eqn:En; [|split; [exact Ha | reflexivity]].
      pose proof (Ha j i En) as Hi. unfold i_returned in Hi.
      destruct (i_pc i); try discriminate; split; try exact Ha; reflexivity.
Qed.

Theorem mx_no_call_after : forall sched s,
  returned s = true -> terminated s = true -> all_returned s ->
  hbegun (run step sched s) = hbegun s.
Proof.
  induction sched as [|t sched IH]; intros s Hr Htd Ha; [reflexivity|].
  rewrite run_cons. destruct (quiet_state_step s t Hr Htd Ha) as (A & B & C & D).
  rewrite (IH _ A B C). exact D.
Qed.
End Fx.

(* ------------------------------------------------------------ repaired wrapper: no handler call begins once the
   terminating channel is closed — for EVERY state and EVERY schedule (the test of the channel and the call are one
   atomic step under handlerLock, and the channel is never re-opened) *)
Lemma hbegun_step_run : forall s, hbegun (step_run s) = hbegun s.
Proof.
  intros s. unfold step_run. destruct (pcr s); try destruct (terminating s); simpl; auto.
  all: destruct (nth_error (sources s) idx) as [cur|]; simpl; auto.
  all: destruct (match cur with Some k => inner_term s k | None => true end); simpl; auto.
Qed.

Lemma hbegun_sd_advance : forall s, hbegun (sd_advance s) = hbegun s.
Proof.
  intros s. unfold sd_advance. destruct (sdst s) as [[]|]; simpl; auto.
  destruct (holds_slock s); simpl; auto. apply (sb_hb _ _ (shut_all_sbt (sources s) s)).
Qed.

Lemma hbegun_shut_inner : forall k s, hbegun (shut_inner k s) = hbegun s.
Proof. intros. apply (sb_hb _ _ (shut_inner_sbt k s)). Qed.

Lemma hbegun_step_terminating : forall s t, terminating s = true -> hbegun (Mx.step true s t) = hbegun s.
Proof.
  intros s t Ht. destruct t as [| |j]; simpl.
  - apply hbegun_step_run.
  - unfold step_x. destruct (pcx s); auto.
    + destruct (sdst s); reflexivity.
    + pose proof (hbegun_sd_advance s). destruct (terminated (sd_advance s)); simpl; auto.
  - unfold step_inner. destruct (nth_error (inners s) j) as [i|]; auto.
    destruct (i_pc i); auto.
    + destruct (i_term i); auto. destruct (i_script i) as [|[b ok|] r]; auto.
      rewrite hbegun_shut_inner. reflexivity.
    + destruct (hholder s); auto.
    + rewrite Ht. reflexivity.
    + destruct ok; auto. destruct (sdst s); reflexivity.
    + pose proof (hbegun_sd_advance s). destruct (terminated (sd_advance s)); simpl; auto.
    + rewrite hbegun_shut_inner. reflexivity.
Qed.

Theorem mx_no_call_when_terminating : forall sched s,
  terminating s = true -> hbegun (run (Mx.step true) sched s) = hbegun s.
Proof.
  induction sched as [|t sched IH]; intros s Ht; [reflexivity|].
  rewrite run_cons. rewrite (IH _ (term_step true s t Ht)). apply hbegun_step_terminating. exact Ht.
Qed.

Lemma terminated_terminating : forall s, terminated s = true -> terminating s = true.
Proof. intros s. unfold terminated, terminating. destruct (sdst s) as [[]|]; auto; discriminate. Qed.

(* ------------------------------------------------------------ the wrapper before the repair: a reachable state with
   Run returned, Terminated reached and every inner source shut down, after which a handler call begins
   (source 0 inside the handler, source 1 waiting for handlerLock, complete Shutdown, Run returns) *)
Definition late_sched : list tid :=
  repeat TRun 8 ++ [TIn 0; TIn 0; TIn 0; TIn 1] ++ repeat TX 4 ++ [TRun; TRun].
Definition late_sup : list (list iev) := [[IBlock 1 true]; [IBlock 2 true]].
Definition late_cont : list tid := [TIn 0; TIn 1; TIn 1].

Lemma mx_unfixed_late_call :
  let s := run (Mx.step false) late_sched (init 2 late_sup) in
  returned s = true /\ terminated s = true /\ map i_term (inners s) = [true; true] /\
  hbegun (run (Mx.step false) late_cont s) = S (hbegun s) /\
  log (run (Mx.step false) late_cont s) = EHBegin 1 2 :: EPoint 25 :: EPoint 26 :: EHEnd 0 1 true :: log s /\
  hd (EPoint 0) (log s) = ERet.
Proof. vm_compute. repeat split; reflexivity. Qed.

(* the same schedule on the repaired wrapper: the waiting source gives up, no call begins *)
Lemma mx_fixed_same_schedule :
  let s := run (Mx.step true) late_sched (init 2 late_sup) in
  returned s = true /\ terminated s = true /\
  hbegun (run (Mx.step true) late_cont s) = hbegun s /\
  log (run (Mx.step true) late_cont s) = EPoint 25 :: EPoint 26 :: EHEnd 0 1 true :: log s /\
  map i_pc (inners (run (Mx.step true) (late_cont ++ [TIn 1; TIn 1; TIn 0; TIn 0]) s)) = [IRet; IRet].
Proof. vm_compute. repeat split; reflexivity. Qed.

(* the late call after a handler FAILURE: source 0's call returns an error, its goroutine performs the whole Shutdown,
   Run returns; source 1, which was waiting for handlerLock, then calls the handler *)
Definition late_sched_fail : list tid :=
  repeat TRun 8 ++ [TIn 0; TIn 0; TIn 0; TIn 1] ++ repeat (TIn 0) 5 ++ [TRun; TRun].
Definition late_sup_fail : list (list iev) := [[IBlock 1 false]; [IBlock 2 true]].

Lemma mx_unfixed_late_call_fail :
  let s := run (Mx.step false) late_sched_fail (init 2 late_sup_fail) in
  failed s = true /\ returned s = true /\ terminated s = true /\ map i_term (inners s) = [true; true] /\
  hbegun (run (Mx.step false) [TIn 1; TIn 1] s) = S (hbegun s) /\
  hd ERet (log (run (Mx.step false) [TIn 1; TIn 1] s)) = EHBegin 1 2.
Proof. vm_compute. repeat split; reflexivity. Qed.

Lemma mx_fixed_same_schedule_fail :
  let s := run (Mx.step true) late_sched_fail (init 2 late_sup_fail) in
  failed s = true /\ returned s = true /\ terminated s = true /\
  hbegun (run (Mx.step true) [TIn 1; TIn 1; TIn 1; TIn 1] s) = hbegun s /\
  map i_pc (inners (run (Mx.step true) [TIn 1; TIn 1; TIn 1; TIn 1; TIn 0; TIn 0] s)) = [IRet; IRet].
Proof. vm_compute. repeat split; reflexivity. Qed.

Lemma all_term_of_map : forall s n, map i_term (inners s) = repeat true n ->
  forall k i, nth_error (inners s) k = Some i -> i_term i = true.
Proof.
  intros s n E k i H. apply (map_nth_error i_term) in H. rewrite E in H.
  apply nth_error_In in H. apply repeat_spec in H. exact H.
Qed.
