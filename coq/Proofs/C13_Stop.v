(* C13, the stop clause at stream level: the stream with stop block S delivers what the handler chain with
   stop S lets through of the output of the SAME stream without stop block (simulation of the two runs of
   Model/Joining.stream_run: identical until the first event that reaches S). *)
From Coq Require Import Sorted.
From BV Require Import Base.Prelude Model.Block Model.ForkDB Model.Forkable Model.ForkableLookups Model.Burst Model.Hub
  Model.CursorResolver Model.Joining
  Spec.Consumer Spec.Universe Check.Burst_Check Check.C07_Check
  Spec.C09_Spec Spec.C06_Spec Spec.C07_Spec Spec.C13_Spec Spec.C07_Compose_Spec
  Proofs.C07_File Proofs.C07_Live Proofs.C13_Proofs.
Local Open Scope N_scope.

Notation fev := (file_event SNewIrr).

(* ------------------------------------------------------------------ with_stop changes the handler chain only *)

Lemma push_one_ws c s w : push_one (with_stop c s) w = push_one c w.
Proof. reflexivity. Qed.

Lemma push_n_ws c s : forall n w, push_n (with_stop c s) n w = push_n c n w.
Proof.
  induction n as [|n IH]; intros w; [reflexivity|].
  cbn [push_n]. rewrite push_one_ws. destruct (push_one c w) as [w1 e1]. rewrite IH. reflexivity.
Qed.

Lemma apply_pauses_ws c s count : forall ps w, apply_pauses (with_stop c s) count ps w = apply_pauses c count ps w.
Proof.
  induction ps as [|[after n] ps IH]; intros w; [reflexivity|].
  cbn [apply_pauses]. destruct (after <=? count); [|reflexivity].
  rewrite push_n_ws. destruct (push_n c (N.to_nat n) w) as [w1 e1]. rewrite IH. reflexivity.
Qed.

Lemma join_try_ws c s w lowest e : join_try (with_stop c s) w lowest e = join_try c w lowest e.
Proof. reflexivity. Qed.

Lemma chain_ws0 c e : Joining.chain (with_stop c 0) e = (passes c e, false).
Proof.
  unfold Joining.chain, passes, filter_pass. cbn [j_filter j_custom j_stop with_stop N.eqb negb andb].
  destruct (if j_filter c =? 0 then matches_new (estep e) || matches_undo (estep e)
            else if j_filter c =? 1 then matches_irr (estep e) else negb (N.land (step_bits (estep e)) (j_custom c) =? 0));
    reflexivity.
Qed.

Section Stop.
  Variable c : jcfg.
  Hypothesis HS : j_stop c <> 0.
  Let c0 := with_stop c 0.

  (* r0: the run without stop block, r: the run with it, both having delivered `out` so far *)
  Definition sim (out : list event) (r0 r : list event * jerr) : Prop :=
    exists tail0, fst r0 = out ++ tail0 /\ fst r = out ++ fst (chain_run c tail0) /\
                  (snd (chain_run c tail0) = true -> snd r = JStop).

  Lemma sim_skip out e r0 r : Joining.chain c e = (false, false) -> sim out r0 r -> sim out r0 r.
  Proof. auto. Qed.

  (* the run with stop ends at e, the other one delivers e and goes on *)
  Lemma sim_stop_above out e t x : Joining.chain c e = (false, true) ->
    sim out ((out ++ [e]) ++ t, x) (out, JStop).
  Proof.
    intros Hc. exists (e :: t). cbn [fst snd]. rewrite chain_run_cons, Hc. cbn [fst snd].
    split; [rewrite <- app_assoc; reflexivity|]. split; [rewrite app_nil_r; reflexivity | reflexivity].
  Qed.

  Lemma sim_stop_at out e t x : Joining.chain c e = (true, true) ->
    sim out ((out ++ [e]) ++ t, x) (out ++ [e], JStop).
  Proof.
    intros Hc. exists (e :: t). cbn [fst snd]. rewrite chain_run_cons, Hc. cbn [fst snd].
    split; [rewrite <- app_assoc; reflexivity|]. split; reflexivity.
  Qed.

  Lemma sim_deliver out e r0 r : Joining.chain c e = (true, false) -> sim (out ++ [e]) r0 r -> sim out r0 r.
  Proof.
    intros Hc (t & H0 & H1 & H2). exists (e :: t). rewrite chain_run_cons, Hc. cbn [fst snd].
    split; [rewrite H0, <- app_assoc; reflexivity|]. split; [rewrite H1, <- app_assoc; reflexivity | exact H2].
  Qed.

  (* only fst and the JStop flag matter *)
  Lemma sim_res out r0 r0' r : fst r0 = fst r0' -> sim out r0' r -> sim out r0 r.
  Proof. intros E (t & H0 & H). exists t. rewrite E. auto. Qed.

  Lemma live_sim : forall fuel w q count ps out,
    sim out (live_phase fuel c0 w q count ps out) (live_phase fuel c w q count ps out).
  Proof.
    induction fuel as [|f IH]; intros w q count ps out.
    - exists []. cbn [live_phase fst snd chain_run]. rewrite app_nil_r. split; [reflexivity|]. split; [reflexivity | discriminate].
    - cbn [live_phase]. destruct q as [|e q].
      + destruct (w_rest w) as [|b r] eqn:Er.
        * exists []. cbn [fst snd chain_run]. rewrite app_nil_r. split; [reflexivity|]. split; [reflexivity | discriminate].
        * unfold c0. rewrite push_one_ws. destruct (push_one c w) as [w' evs]. apply IH.
      + unfold c0 at 1. rewrite chain_ws0. fold c0.
        destruct (chain_cases c e) as [[Hp Hc]|[[Hp [H0 [Hlt Hc]]]|[[Hp [H0 [Hex Hc]]]|[Hp [Hs Hc]]]]]; rewrite Hc, Hp.
        * apply IH.
        * unfold c0 at 1. rewrite apply_pauses_ws. fold c0.
          destruct (apply_pauses c (count + 1) ps w) as [[ps' w'] evs].
          rewrite (live_phase_out f c0 w' (q ++ evs) (count + 1) ps' (out ++ [e])).
          apply sim_stop_above. exact Hc.
        * unfold c0 at 1. rewrite apply_pauses_ws. fold c0.
          destruct (apply_pauses c (count + 1) ps w) as [[ps' w'] evs].
          rewrite (live_phase_out f c0 w' (q ++ evs) (count + 1) ps' (out ++ [e])).
          apply sim_stop_at. exact Hc.
        * unfold c0 at 1. rewrite apply_pauses_ws. fold c0.
          destruct (apply_pauses c (count + 1) ps w) as [[ps' w'] evs].
          apply (sim_deliver out e _ _ Hc). apply IH.
  Qed.

  (* ---------------------------------------------------------------- the file phase *)

  (* P: an invariant of the worlds the run goes through; `above`: the file events beyond the bundle of S *)
  Variable P : world -> Prop.
  Hypothesis P_push : forall w, P w -> P (fst (push_one c w)).

  Lemma P_push_n : forall n w, P w -> P (fst (push_n c n w)).
  Proof.
    induction n as [|n IH]; intros w H; [exact H|].
    cbn [push_n]. pose proof (P_push w H) as H1. destruct (push_one c w) as [w1 e1]. cbn [fst] in H1.
    specialize (IH w1 H1). destruct (push_n c n w1) as [w2 e2]. exact IH.
  Qed.

  Lemma P_pauses count ps w : P w -> P (snd (fst (apply_pauses c count ps w))).
  Proof.
    intros H. destruct (apply_pauses_push c count ps w) as (m & E & _). rewrite <- E. apply P_push_n. exact H.
  Qed.

  Definition above (e : event) : Prop := passes c e = true /\ j_stop c < enum e.

  Variable fevs2 : list event.
  Hypothesis H2 : Forall above fevs2.
  (* a join on such an event starts with an event that passes the filter, above S *)
  Hypothesis Hburst : forall w lowest e burst, P w -> In e fevs2 -> join_try c w lowest e = Some burst ->
    exists e1 rest, burst = e1 :: rest /\ above e1.

  Lemma above_chain e : above e -> Joining.chain c e = (false, true).
  Proof.
    intros [Hp Hlt]. destruct (chain_cases c e) as [[Hp' Hc]|[[_ [_ [_ Hc]]]|[[_ [_ [Hex Hc]]]|[_ [Hs Hc]]]]];
      [congruence | exact Hc | lia | destruct Hs; [contradiction | lia]].
  Qed.

  (* what the run without stop delivers beyond the bundle of S is cut by the chain at once *)
  Lemma chain_run_above e t : above e -> chain_run c (e :: t) = ([], true).
  Proof. intros H. rewrite chain_run_cons, (above_chain e H). reflexivity. Qed.

  Lemma live_first_above fuel w e1 rest count ps out : above e1 ->
    exists t, fst (live_phase fuel c0 w (e1 :: rest) count ps out) = out ++ t /\ fst (chain_run c t) = [].
  Proof.
    intros Ha. destruct fuel as [|f].
    - exists []. cbn [live_phase fst]. rewrite app_nil_r. split; reflexivity.
    - cbn [live_phase]. unfold c0 at 1. rewrite chain_ws0. fold c0. destruct Ha as [Hp Hlt]. rewrite Hp.
      destruct (apply_pauses c0 (count + 1) ps w) as [[ps' w'] evs].
      rewrite (live_phase_out f c0 w' (rest ++ evs) (count + 1) ps' (out ++ [e1])). cbn [fst].
      eexists (e1 :: _). split; [rewrite <- app_assoc; reflexivity|].
      rewrite (chain_run_above e1 _ (conj Hp Hlt)). reflexivity.
  Qed.

  Lemma file_above fuel : forall l w lowest fend0 count ps out, P w -> (forall e, In e l -> In e fevs2) ->
    exists t, fst (file_phase fuel c0 w lowest l fend0 count ps out) = out ++ t /\ fst (chain_run c t) = [].
  Proof.
    intros [|e l] w lowest fend0 count ps out HP Hin.
    - exists []. cbn [file_phase fst]. rewrite app_nil_r. split; reflexivity.
    - assert (Ha : above e).
      { rewrite Forall_forall in H2. apply H2. apply Hin. left. reflexivity. }
      rewrite file_phase_cons. unfold c0 at 1. rewrite join_try_ws. fold c0.
      destruct (join_try c w lowest e) as [burst|] eqn:Ej.
      + destruct (Hburst w lowest e burst HP (Hin e (or_introl eq_refl)) Ej) as (e1 & rest & -> & Ha1).
        apply live_first_above. exact Ha1.
      + unfold c0 at 1. rewrite chain_ws0. fold c0. destruct Ha as [Hp Hlt]. rewrite Hp.
        destruct (apply_pauses c0 (count + 1) ps w) as [[ps' w'] evs].
        rewrite file_phase_out. cbn [fst].
        eexists (e :: _). split; [rewrite <- app_assoc; reflexivity|].
        rewrite (chain_run_above e _ (conj Hp Hlt)). reflexivity.
  Qed.

  Lemma file_sim fuel fend fend0 : (fevs2 <> [] -> fend = JStop) ->
    forall fevs1 w lowest count ps out, P w ->
    sim out (file_phase fuel c0 w lowest (fevs1 ++ fevs2) fend0 count ps out)
            (file_phase fuel c w lowest fevs1 fend count ps out).
  Proof.
    intros Hfend. induction fevs1 as [|e fevs1 IH]; intros w lowest count ps out HP.
    - cbn [app]. destruct (file_above fuel fevs2 w lowest fend0 count ps out HP (fun e H => H)) as (t & Ht & Hc).
      exists t. cbn [file_phase fst snd]. split; [exact Ht|]. split; [rewrite Hc, app_nil_r; reflexivity|].
      intros Hst. apply Hfend. intros E2. rewrite E2 in Ht. cbn [file_phase fst] in Ht.
      rewrite <- (app_nil_r out) in Ht at 1. apply app_inv_head in Ht. subst t. discriminate.
    - cbn [app]. rewrite !file_phase_cons. unfold c0 at 1. rewrite join_try_ws. fold c0.
      destruct (join_try c w lowest e) as [burst|] eqn:Ej; [apply live_sim|].
      unfold c0 at 1. rewrite chain_ws0. fold c0.
      destruct (chain_cases c e) as [[Hp Hc]|[[Hp [H0 [Hlt Hc]]]|[[Hp [H0 [Hex Hc]]]|[Hp [Hs Hc]]]]]; rewrite Hc, Hp.
      + apply IH. exact HP.
      + unfold c0 at 1. rewrite apply_pauses_ws. fold c0.
        destruct (apply_pauses c (count + 1) ps w) as [[ps' w'] evs].
        rewrite file_phase_out.
        apply sim_stop_above. exact Hc.
      + unfold c0 at 1. rewrite apply_pauses_ws. fold c0.
        destruct (apply_pauses c (count + 1) ps w) as [[ps' w'] evs].
        rewrite file_phase_out.
        apply sim_stop_at. exact Hc.
      + unfold c0 at 1. rewrite apply_pauses_ws. fold c0.
        pose proof (P_pauses (count + 1) ps w HP) as HP'.
        destruct (apply_pauses c (count + 1) ps w) as [[ps' w'] evs]. cbn [fst snd] in HP'.
        apply (sim_deliver out e _ _ Hc). apply IH. exact HP'.
  Qed.
End Stop.
