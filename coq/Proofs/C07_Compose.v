(* C07 composition, part 4: the theorems of Spec/C07_Compose_Spec.v from the section lemmas of
   C07_ComposeRun.v, with the universe hypotheses bridged from the boolean scopes wf_b / lib_ok_b. *)
From Coq Require Import Sorted.
From BV Require Import Base.Prelude Model.Block Model.ForkDB Model.Forkable Model.ForkableLookups Model.Burst Model.Hub
  Model.CursorResolver Model.Joining
  Spec.Consumer Spec.Universe Check.Fk_Check Check.Burst_Check Check.C07_Check
  Spec.C09_Spec Spec.C05_Spec Spec.C06_Spec Spec.C07_Spec Spec.C13_Spec Spec.C07_Compose_Spec
  Spec.C01_Spec Spec.C01_Moving_Spec Spec.C01_Roots_Spec
  Proofs.C06_Lists Proofs.C06_Proofs Proofs.C13_Proofs
  Proofs.Fk.LoopFacts Proofs.Fk.MovingLibDisc Proofs.C02_Proofs Proofs.C01_Roots_Proofs
  Proofs.Hub.HubFed Proofs.Hub.C09_History
  Proofs.C07_ComposeStack Proofs.C07_ComposeHub Proofs.C07_ComposeRun.
Local Open Scope N_scope.

(* ------------------------------------------------------------------ merged files *)

(* the blocks of a chain below a height are a beginning of it *)
Lemma merged_prefix canon merged_end : chain_ok canon ->
  exists post, canon = filter (fun b => bnum b <? merged_end) canon ++ post /\
               Forall (fun b => merged_end <= bnum b) post.
Proof.
  intros Hc. destruct (asc_split canon merged_end (chain_ok_asc canon Hc)) as (pre & post & E & Hpre & Hpost).
  exists post. split; [|exact Hpost]. rewrite E at 2. rewrite filter_app.
  rewrite (filter_all _ _ pre), (filter_none _ _ post), app_nil_r; [exact E| |].
  - eapply Forall_impl; [|exact Hpost]. cbn beta. intros b Hb. apply N.ltb_ge. exact Hb.
  - eapply Forall_impl; [|exact Hpre]. cbn beta. intros b Hb. apply N.ltb_lt. exact Hb.
Qed.

Lemma merged_chain_ok canon merged_end : chain_ok canon -> chain_ok (filter (fun b => bnum b <? merged_end) canon).
Proof.
  intros Hc. destruct (merged_prefix canon merged_end Hc) as (post & E & _).
  apply (chain_ok_segment [] _ post). cbn [app]. rewrite <- E. exact Hc.
Qed.

(* without stop block the model reads every merged block from start on *)
Lemma delivery_all merged start bundle : 0 < bundle -> Forall (fun b => bnum b < file_bound) merged ->
  file_delivery merged start file_bound bundle = from_num start merged.
Proof.
  intros Hb Hall. unfold file_delivery, from_num. apply filter_ext_in. intros b Hin.
  rewrite Forall_forall in Hall. specialize (Hall b Hin).
  replace (bnum b <? (file_bound / bundle + 1) * bundle) with true; [apply andb_true_r|].
  symmetry. apply N.ltb_lt.
  pose proof (N.mul_succ_div_gt file_bound bundle) as H. rewrite <- N.add_1_r in H. nia.
Qed.

Lemma passes_nu c e : j_filter c = 0 -> passes c e = nu_ev e.
Proof. intros H. unfold passes, filter_pass, nu_ev. rewrite H. reflexivity. Qed.

(* ------------------------------------------------------------------ from a block number *)

Lemma c07_seamless_num_proof : C07_seamless_num.
Proof.
  intros U c w ps merged_end canon forked Hwfb Hlok [[l [Hl Hhub]] Hrest] Hchain Hincl merged Htip
         Hmode Hfilter Hstop Hbundle Hbound res start Hstartblk.
  assert (Hscope : disc_scope2_b U = true) by (unfold disc_scope2_b; rewrite Hwfb, Hlok; reflexivity).
  pose proof (bridge_id U Hwfb) as Hid. pose proof (bridge_uniq U Hwfb) as Huniq. pose proof (bridge_up U Hwfb) as Hup.
  pose proof (bridge2_decl_none U Hscope) as Hdecl.
  assert (HW : WOK U c w).
  { split; [|exact Hrest]. rewrite Hhub. apply (hub_ok_run U (j_first c) (j_kept c) Hwfb Hlok l Hl). }
  assert (HcU : Forall (fun x => In x U) canon) by (apply Forall_forall; exact Hincl).
  pose proof (lnk_of_chain_ok canon Hchain) as Hcl.
  pose proof (merged_chain_ok canon merged_end Hchain) as Hmok. fold merged in Hmok.
  assert (HmU : forall b, In b merged -> In b U).
  { intros b Hb. apply Hincl. unfold merged in Hb. apply filter_In in Hb as [Hb _]. exact Hb. }
  set (D := file_delivery merged start file_bound (j_bundle c)).
  assert (HD : D = from_num start merged) by (apply delivery_all; assumption).
  destruct (c06_delivery_segment_proof merged start file_bound (j_bundle c) Hmok) as [_ HDok]. fold D in HDok.
  assert (HbotD : forall z r, D = z :: r -> bnum z <= start).
  { intros z r Ez. destruct Hstartblk as (b0 & Hb0 & Hnb0).
    assert (Hzin : In z merged).
    { assert (H : In z D) by (rewrite Ez; left; reflexivity). unfold D, file_delivery in H. apply filter_In in H as [H _]. exact H. }
    destruct (N.ltb_spec (bnum b0) merged_end) as [Hlt|Hge].
    - assert (Hb0D : In b0 D).
      { rewrite HD. unfold from_num. apply filter_In. split.
        - unfold merged. apply filter_In. split; [exact Hb0 | apply N.ltb_lt; exact Hlt].
        - apply N.leb_le. lia. }
      pose proof (chain_ok_asc D HDok) as Hasc. rewrite Ez in Hasc, Hb0D. cbn [asc] in Hasc. destruct Hasc as [Hall _].
      destruct Hb0D as [<-|Hb0r]; [lia|]. rewrite Forall_forall in Hall. specialize (Hall b0 Hb0r). lia.
    - unfold merged in Hzin. apply filter_In in Hzin as [_ Hz]. apply N.ltb_lt in Hz. lia. }
  assert (Hstartle : exists b, In b canon /\ bnum b <= start) by (destruct Hstartblk as (b0 & H1 & H2); exists b0; split; [exact H1 | lia]).
  destruct (stream_num U c canon start Hid Huniq Hup Hdecl Hfilter Hstop HcU Hcl Hstartle merged HmU
              w ps merged_end forked Hmode eq_refl HW Htip (lnk_of_chain_ok D HDok) HbotD) as (st & Hst & Hfin).
  fold res in Hst, Hfin.
  assert (Hnu : Forall (fun e => nu_ev e = true) (fst res)).
  { destruct (c13_stream_output_proof c w ps merged_end merged forked (fst res) (snd res)) as [Hp _].
    - unfold res. destruct (stream_run c w ps merged_end merged forked); reflexivity.
    - eapply Forall_impl; [|exact Hp]. cbn beta. intros e He. rewrite <- (passes_nu c e Hfilter). exact He. }
  exists (mkCons st 0 false). split.
  - unfold cons0. rewrite (sfold_cons_aside false (fst res) [] Hnu), Hst. reflexivity.
  - cbn [cs_stack]. intros Hn. destruct (Hfin Hn) as [H|H]; [left; rewrite H; exact HD | right; exact H].
Qed.
