(* C07, final blocks only, target-cursor mode (C07_seamless_target_final of Spec/C07_Final_Spec.v): the filter's memory
   starts empty; the join is not made on identity, but a final-blocks-only handler only sees the new+irreversible part of
   the hub's answer - segment blocks at or below the hub's LIB, which are canonical (seg_on_canon) - so neither
   files_on_hub nor target_on_chain is needed.  tail_none: final_tail of C07_FinalCursor.v for the empty memory. *)
From Coq Require Import Sorted.
From BV Require Import Base.Prelude Model.Block Model.ForkDB Model.Forkable Model.ForkableLookups Model.Burst Model.Hub
  Model.CursorResolver Model.Joining
  Spec.Consumer Spec.Universe Check.Fk_Check Check.Burst_Check Check.C07_Check
  Spec.C09_Spec Spec.C05_Spec Spec.C06_Spec Spec.C07_Spec Spec.C13_Spec Spec.C07_Compose_Spec Spec.C07_Shapes_Spec Spec.C07_More_Spec
  Spec.C07_Final_Spec Spec.C13_More_Spec
  Spec.C01_Spec Spec.C01_Moving_Spec Spec.C01_Roots_Spec
  Proofs.C06_Lists Proofs.C06_Proofs Proofs.C13_Proofs
  Proofs.C09_Store Proofs.C09_Segment Proofs.C09_Proofs Proofs.C05_Fast Proofs.C05_Forked
  Proofs.Fk.LoopFacts Proofs.Fk.MovingLibDisc Proofs.C02_Proofs Proofs.C01_Roots_Proofs
  Proofs.Hub.ConsFacts Proofs.Hub.HubInv Proofs.Hub.HubFed Proofs.Hub.LinkedRuns Proofs.Hub.C09_History
  Proofs.C07_File Proofs.C07_Live
  Proofs.C07_ComposeStack Proofs.C07_ComposeHub Proofs.C07_ComposeRun Proofs.C07_Compose Proofs.C07_ComposeCheck
  Proofs.C07_ComposeCursor Proofs.C07_ComposeCursorLive Proofs.C07_ComposeTarget
  Proofs.C07_Raw Proofs.C07_Shapes Proofs.C07_Filters Proofs.C07_ChainFacts Proofs.C07_Delivery Proofs.C07_FiltersTarget
  Proofs.C07_FinalHub Proofs.C07_Final Proofs.C07_FinalMem Proofs.C07_FinalCursor Proofs.C07_FiltersNum.
Local Open Scope N_scope.

(* ------------------------------------------------------------------ the blocks the hub finalises, empty memory *)

Section FinalNone.
  Variable U : list block.
  Variable c : jcfg.
  Variable canon : list block.
  Variable w : world.
  Variable start : N.

  Hypothesis U_id : forall b, In b U -> bid b <> 0 /\ bid b <> bparent b.
  Hypothesis U_uniq : forall x y, In x U -> In y U -> bid x = bid y -> x = y.
  Hypothesis U_up : forall x y, In x U -> In y U -> bparent x = bid y -> bnum y < bnum x.
  Hypothesis D_decl : forall b, In b U -> decl_none U b.

  Hypothesis HcU : Forall (fun x => In x U) canon.
  Hypothesis Hcl : exists x, lnk x canon.
  Hypothesis Hsl : exists b, In b canon /\ bnum b <= start.
  Hypothesis Htip : eventual_tip c w canon.

  Let first := j_first c.
  Let kept := j_kept c.

  Let lsorted : forall x y, lnk y x -> Forall (fun z => In z U) x -> StronglySorted blt x :=
    fun x y => lnk_sorted U U_id U_uniq U_up x y.

  (* the hub after the last arrival; Bq ++ [Lend] a run that starts at or below start and ends with its LIB block *)
  Lemma n_end_complete wk a Fin' A mm Bq :
    wk = world_after c mm w -> LOKX U c a Fin' A wk -> w_rest wk = [] ->
    let Lend := libblk a Fin' in
    (exists x, lnk x (Bq ++ [Lend])) -> Forall (fun y => In y U) (Bq ++ [Lend]) ->
    (forall z r, Bq ++ [Lend] = z :: r -> bnum z <= start) ->
    from_num start (Bq ++ [Lend]) = seg_num start (final_lib c w) canon.
  Proof.
    intros Ewk HLX Hdone Lend HlB HBU Hbot.
    rewrite (g_final_lib_at U c w U_id U_uniq U_up wk a Fin' A mm Ewk HLX Hdone). fold Lend.
    destruct HLX as (Hrd & [Vend HXe] & _).
    pose proof (vstatex_vstate U first kept a Fin' A _ Vend HXe) as HVe.
    destruct (vstate_facts U first kept U_id U_uniq U_up _ Vend HVe) as (HVne & [HVU [xv Hlv]] & _ & hdF & Hls & Hhd).
    destruct (vstatex_rev U first kept U_id U_uniq U_up a Fin' A _ Vend HXe) as (pre' & pend & EAF & Erev & _ & _).
    assert (Ecan : exists cpre, canon = cpre ++ [hdF]).
    { rewrite Ewk in Hdone, Hls. exact (Htip mm hdF Hdone Hls). }
    destruct Ecan as [cpre Ecan].
    destruct Vend as [|v0 V0]; [contradiction|]. cbn [hd_error] in Hhd. injection Hhd as ->.
    apply (final_complete U c canon start U_id U_uniq U_up D_decl HcU Hcl Hsl Bq Lend (rev (hdF :: V0)) hdF cpre (rev V0) HlB HBU Hbot).
    - exists xv. exact Hlv.
    - apply Forall_forall. intros y Hy. apply in_rev in Hy. rewrite Forall_forall in HVU. apply HVU. exact Hy.
    - rewrite Erev. apply in_or_app. left. fold Lend in EAF. rewrite EAF. apply in_or_app. right. left. reflexivity.
    - reflexivity.
    - exact Ecan.
  Qed.

  (* what a shape lemma delivers: the run Bd the handler receives in the end *)
  Definition none_shape (raw : list block) (complete : Prop) : Prop :=
    exists Bd, records None raw = Bd /\ (exists x, lnk x Bd) /\
      (complete -> exists hi, final_lib c w <= hi /\ from_num start Bd = seg_num start hi canon).

  (* one run C of the universe holds canon and, for a ready world of the run, the hub's final chain then and later *)
  Lemma chain_of_run wk a Fin' A mm :
    wk = world_after c mm w -> LOKX U c a Fin' A wk ->
    exists C, (exists x, lnk x C) /\ Forall (fun y => In y U) C /\ incl canon C /\ incl (A ++ Fin') C.
  Proof.
    intros Ewk HLX.
    destruct (g_end_world U c canon w U_id U_uniq U_up D_decl Htip wk a Fin' A mm Ewk HLX) as (F' & Vend & hdF & cpre & HXe & Hhde & Ecan).
    pose proof (vstatex_vstate U first kept a (Fin' ++ F') A _ Vend HXe) as HVe.
    destruct (vstate_facts U first kept U_id U_uniq U_up _ Vend HVe) as (HVne & [HVU [xv Hlv]] & _).
    destruct (vstatex_rev U first kept U_id U_uniq U_up a (Fin' ++ F') A _ Vend HXe) as (_ & pende & _ & Ereve & _ & _).
    destruct Vend as [|v0 V0]; [contradiction|]. cbn [hd_error] in Hhde. injection Hhde as ->.
    assert (HWU : Forall (fun y => In y U) (rev (hdF :: V0))).
    { apply Forall_forall. intros y Hy. apply in_rev in Hy. rewrite Forall_forall in HVU. apply HVU. exact Hy. }
    destruct (common_chain U canon U_uniq HcU Hcl (rev (hdF :: V0)) (rev V0) hdF cpre (ex_intro _ xv Hlv) HWU eq_refl Ecan)
      as (C & HlC & HCU & HWC & HcC).
    exists C. split; [exact HlC|]. split; [exact HCU|]. split; [exact HcC|].
    intros y Hy. apply HWC. rewrite Ereve. apply in_or_app. left. rewrite !app_assoc. apply in_or_app. left. exact Hy.
  Qed.

  Lemma tail_none wj mm a Fin A P0 k :
    wj = world_after c mm w -> LOKX U c a Fin A wj ->
    (exists x, lnk x P0) -> Forall (fun z => In z U) P0 ->
    let Lj := libblk a Fin in
    match P0 with
    | [] => bnum Lj < start
    | z :: _ => bnum z <= start /\ (let p := last P0 Lj in p = Lj \/ (In p canon /\ bnum Lj <= bnum p))
    end ->
    none_shape (P0 ++ map eblk (filter irr_ev (pushed c k wj))) (w_rest (world_after c k wj) = []).
  Proof.
    intros Ewj HLX [x0 HlP] HPU Lj HP0.
    destruct (lokx_push_n U c U_id U_uniq U_up D_decl k a Fin A wj HLX) as (F & HLXe & EF & HlF & HFU). rewrite EF.
    fold Lj in HlF, HFU.
    assert (HFU' : Forall (fun y => In y U) F) by (eapply Forall_impl; [|exact HFU]; cbn beta; tauto).
    pose proof (lsorted F _ HlF HFU') as HSF.
    assert (Ewk : world_after c k wj = world_after c (mm + k) w) by (rewrite Ewj; apply wafter_add).
    assert (EL : last F Lj = libblk a (Fin ++ F)) by (symmetry; apply libblk_last).
    assert (HLjU : In Lj U).
    { destruct HLX as (_ & [Vj HXj] & _). destruct (vstatex_rev U first kept U_id U_uniq U_up a Fin A _ Vj HXj) as (_ & _ & _ & _ & H & _). exact H. }
    destruct P0 as [|b0 P0' _] using rev_ind.
    - (* nothing delivered before: everything the hub finalises is delivered *)
      cbn [app]. exists F. split; [apply records_none; exact HSF|]. split; [exists (bid Lj); exact HlF|].
      intros Hdone. exists (final_lib c w). split; [lia|].
      destruct (x_cons_last Lj F) as [l' El']. rewrite EL in El'.
      assert (H : from_num start (l' ++ [libblk a (Fin ++ F)]) = seg_num start (final_lib c w) canon).
      { apply (n_end_complete (world_after c k wj) a (Fin ++ F) A (mm + k)%nat l' Ewk HLXe Hdone).
        - exists (bparent Lj). rewrite <- El'. cbn [lnk]. auto.
        - rewrite <- El'. constructor; [exact HLjU | exact HFU'].
        - rewrite <- El'. intros z r Ez. injection Ez as <- _. lia. }
      rewrite <- El' in H. rewrite <- H. unfold from_num. cbn [filter].
      replace (start <=? bnum Lj) with false by (symmetry; apply N.leb_gt; exact HP0). reflexivity.
    - (* P0' ++ [b0] delivered, b0 the last block *)
      assert (HP0' : (forall z r, P0' ++ [b0] = z :: r -> bnum z <= start) /\
                     (b0 = Lj \/ (In b0 canon /\ bnum Lj <= bnum b0))).
      { destruct (P0' ++ [b0]) as [|z r] eqn:E; [destruct P0'; discriminate|]. destruct HP0 as [H1 H2].
        split; [intros z' r' E'; injection E' as <- _; exact H1|]. rewrite <- E, last_last in H2. exact H2. }
      clear HP0. destruct HP0' as [Hbot Hp]. set (p := b0) in *.
      assert (HpU : In p U) by (rewrite Forall_forall in HPU; apply HPU; apply in_or_app; right; left; reflexivity).
      pose proof (lsorted _ _ HlP HPU) as HSP.
      destruct (sorted_split_above (bnum p) F HSF) as (F1 & F2 & EF12 & HF1 & HF2 & Hfil).
      assert (Erec : records None ((P0' ++ [p]) ++ F) = (P0' ++ [p]) ++ F2).
      { rewrite (records_app_kept P0' p None F HSP I), (records_filter (bnum p) F HSF), Hfil. reflexivity. }
      (* the first block the hub finalises above p is its child *)
      assert (Hchild : forall f F2', F2 = f :: F2' -> bparent f = bid p /\ lnk (bid f) F2').
      { intros f F2' E2. rewrite E2 in HF2, EF12. clear Hfil Erec.
        assert (Hfgt : bnum p < bnum f) by exact (Forall_inv HF2).
        assert (Hlf : lnk (bid Lj) (F1 ++ f :: F2')) by (rewrite <- EF12; exact HlF).
        assert (Hfpar : bparent f = tip (bid Lj) F1) by exact (linked_mid _ _ _ _ Hlf).
        split; [|apply linked_app_iff in Hlf as [_ H]; cbn [lnk] in H; tauto].
        destruct Hp as [EpL|[Hpc HLp]].
        - destruct F1 as [|q1 F1']; [rewrite Hfpar, EpL; reflexivity|]. exfalso.
          pose proof (Forall_inv HF1) as H1. cbn beta in H1.
          assert (H2 : bnum Lj < bnum q1).
          { rewrite Forall_forall in HFU. apply HFU. rewrite EF12. left. reflexivity. }
          rewrite EpL in H1. lia.
        - destruct (chain_of_run (world_after c k wj) a (Fin ++ F) A (mm + k)%nat Ewk HLXe) as (C & HlC & HCU & HcC & HFC).
          destruct HLX as (_ & [Vj HXj] & _).
          destruct (vstatex_rev U first kept U_id U_uniq U_up a Fin A _ Vj HXj) as (prej & _ & EAFj & _ & _ & _). fold Lj in EAFj.
          assert (HinW : forall y, In y (Lj :: F) -> In y C).
          { intros y Hy. apply HFC. rewrite app_assoc. destruct Hy as [<-|Hy].
            - apply in_or_app. left. rewrite EAFj. apply in_or_app. right. left. reflexivity.
            - apply in_or_app. right. exact Hy. }
          assert (HfC : In f C) by (apply HinW; right; rewrite EF12; apply in_or_app; right; left; reflexivity).
          assert (HpC : In p C) by (apply HcC; exact Hpc).
          destruct F1 as [|q1 F1' _] using rev_ind.
          + assert (E : Lj = p).
            { apply (child_on_chain U c U_id U_uniq U_up D_decl C p Lj f HlC HCU HpC (HinW Lj (or_introl eq_refl)) HfC Hfpar HLp Hfgt). }
            rewrite Hfpar. cbn. rewrite E. reflexivity.
          + rewrite tip_snoc in Hfpar.
            assert (Hq1 : bnum q1 <= bnum p).
            { rewrite Forall_forall in HF1. apply HF1. apply in_or_app. right. left. reflexivity. }
            assert (Hq1C : In q1 C).
            { apply HinW. right. rewrite EF12. apply in_or_app. left. apply in_or_app. right. left. reflexivity. }
            assert (E : q1 = p) by (apply (child_on_chain U c U_id U_uniq U_up D_decl C p q1 f HlC HCU HpC Hq1C HfC Hfpar Hq1 Hfgt)).
            rewrite Hfpar, E. reflexivity. }
      assert (HlBd : lnk x0 ((P0' ++ [p]) ++ F2)).
      { apply linked_app_iff. split; [exact HlP|]. rewrite tip_snoc. destruct F2 as [|f F2']; [exact I|].
        destruct (Hchild f F2' eq_refl) as [H1 H2]. cbn [lnk]. auto. }
      assert (HF2U : Forall (fun y => In y U) F2) by (rewrite EF12 in HFU'; apply Forall_app in HFU' as [_ H]; exact H).
      assert (HBdU : Forall (fun y => In y U) ((P0' ++ [p]) ++ F2)) by (apply Forall_app; split; assumption).
      exists ((P0' ++ [p]) ++ F2). split; [exact Erec|]. split; [exists x0; exact HlBd|].
      intros Hdone.
      pose proof (g_final_lib_at U c w U_id U_uniq U_up (world_after c k wj) a (Fin ++ F) A (mm + k)%nat Ewk HLXe Hdone) as Eflib.
      rewrite <- EL in Eflib.
      assert (HbotBd : forall z r, (P0' ++ [p]) ++ F2 = z :: r -> bnum z <= start).
      { intros z r Ez. destruct (P0' ++ [p]) as [|z0 r0] eqn:E0; [destruct P0'; discriminate|].
        cbn [app] in Ez. injection Ez as <- _. exact (Hbot z0 r0 eq_refl). }
      destruct F2 as [|f F2'].
      + (* nothing above p was finalised *)
        rewrite app_nil_r in *.
        assert (Hflp : final_lib c w <= bnum p).
        { rewrite Eflib, EF12. destruct F1 as [|q1 F1' _] using rev_ind.
          - cbn [last]. destruct Hp as [E|[_ H]]; [rewrite E; lia | exact H].
          - rewrite last_last. rewrite Forall_forall in HF1. apply HF1. apply in_or_app. right. left. reflexivity. }
        exists (bnum p). split; [exact Hflp|].
        destruct Hp as [E|[Hpc _]].
        * assert (EF0 : F = []).
          { rewrite EF12. destruct F1 as [|q1 F1']; [reflexivity|]. exfalso.
            pose proof (Forall_inv HF1) as H1. cbn beta in H1.
            assert (H2 : bnum Lj < bnum q1) by (rewrite Forall_forall in HFU; apply HFU; rewrite EF12; left; reflexivity).
            rewrite E in H1. lia. }
          rewrite EF0, app_nil_r in HLXe.
          pose proof (n_end_complete (world_after c k wj) a Fin A (mm + k)%nat P0' Ewk HLXe Hdone) as H. cbv zeta in H.
          fold Lj in H. rewrite <- E in H.
          rewrite (g_final_lib_at U c w U_id U_uniq U_up (world_after c k wj) a Fin A (mm + k)%nat Ewk HLXe Hdone) in H. fold Lj in H. rewrite <- E in H.
          apply H; [exists x0; exact HlP | exact HPU | exact Hbot].
        * apply (top_on_canon U canon start U_id U_uniq U_up HcU Hcl Hsl P0' p (ex_intro _ x0 HlP) HPU Hbot Hpc).
      + (* the run ends with the hub's last LIB block *)
        exists (final_lib c w). split; [lia|].
        destruct (x_cons_last f F2') as [l' El'].
        assert (ELk : last F2' f = libblk a (Fin ++ F)).
        { rewrite <- EL, EF12, last_app_ne' by discriminate. symmetry. apply last_shift. }
        rewrite ELk in El'.
        assert (Eall : (P0' ++ [p]) ++ f :: F2' = ((P0' ++ [p]) ++ l') ++ [libblk a (Fin ++ F)]).
        { rewrite El'. apply app_assoc. }
        rewrite Eall.
        apply (n_end_complete (world_after c k wj) a (Fin ++ F) A (mm + k)%nat ((P0' ++ [p]) ++ l') Ewk HLXe Hdone).
        * exists x0. rewrite <- Eall. exact HlBd.
        * rewrite <- Eall. exact HBdU.
        * rewrite <- Eall. exact HbotBd.
  Qed.
End FinalNone.

(* ------------------------------------------------------------------ the hub's answer "through a final cursor" *)

Section ThroughFinal.
  Variable U : list block.
  Variables first kept : N.
  Hypothesis U_id : forall b, In b U -> bid b <> 0 /\ bid b <> bparent b.
  Hypothesis U_uniq : forall x y, In x U -> In y U -> bid x = bid y -> x = y.
  Hypothesis U_up : forall x y, In x U -> In y U -> bparent x = bid y -> bnum y < bnum x.

  (* cursor LIB = cursor block (a final cursor): the answer is never the "cursor block stored off the chain" branch (it
     needs blocks_from_cursor, hence the cursor LIB on the head's segment); it is the part of the segment numbered >= n *)
  Lemma through_final_shape s V n cu burst :
    VState U first kept s V -> cu_lib cu = cu_blk cu ->
    hub_through_cursor s n cu = BOk burst ->
    exists hd sg pre post,
      last_sent s = Some hd /\ complete_segment (db s) (bref hd) = Some (sg, true) /\ good_seg sg /\
      sg = pre ++ post /\ (forall y, In y pre -> snum y < n) /\ (forall y, In y post -> n <= snum y) /\
      burst = map (snap_event s hd) post /\
      (pre = [] -> post <> [] -> exists x0 r, post = x0 :: r /\ snum x0 = n).
  Proof.
    intros HV Hfc Hb.
    destruct (vstate_facts U first kept U_id U_uniq U_up s V HV) as (_ & _ & W & hd & Hls & _).
    (* the cursor block is on the head's segment whenever the segment is asked *)
    assert (Hon : rn (cu_blk cu) <? n = false ->
              forall hd' sg', last_sent s = Some hd' -> complete_segment (db s) (bref hd') = Some (sg', true) ->
                find (ri (cu_blk cu)) (store (db s)) <> None -> block_in (ri (cu_blk cu)) sg' = true).
    { intros En hd' sg' Hls' Eseg' _. rewrite Hls in Hls'. injection Hls' as <-.
      destruct (block_in (ri (cu_blk cu)) sg') eqn:Eblk; [reflexivity|]. exfalso.
      unfold hub_through_cursor in Hb. rewrite En in Hb. unfold blocks_through_cursor in Hb.
      destruct (has_lib (db s)); [|discriminate]. cbn [negb] in Hb. rewrite Hls, Eseg' in Hb.
      destruct sg' as [|s0 sg0]; [discriminate|].
      destruct (n <? snum s0); [discriminate|]. rewrite Eblk in Hb.
      destruct (complete_segment (db s) (cu_blk cu)) as [[csg [|]]|]; try discriminate.
      2:{ destruct csg; discriminate. }
      destruct csg as [|c0 csg0]; [discriminate|].
      destruct (n <? snum c0); [discriminate|].
      destruct (through_branch (c0 :: csg0) n cu hd []); [|discriminate].
      destruct (blocks_from_cursor s cu) as [evs| | |] eqn:Ebc; try discriminate.
      destruct (c05_no_lib_no_source_proof s cu) as (_ & _ & _ & _ & H5).
      exact (H5 hd (s0 :: sg0) Hls Eseg' (eq_ind_r (fun r => block_in (ri r) (s0 :: sg0) = false) Eblk Hfc) evs Ebc). }
    destruct (rn (cu_blk cu) <? n) eqn:En.
    - (* the cursor block lies below n: as from a block number *)
      unfold hub_through_cursor in Hb. rewrite En in Hb.
      pose proof (c09_from_num_proof s n W) as Hspec. unfold from_num_spec in Hspec. rewrite Hb in Hspec.
      destruct Hspec as (hd' & sg & pre & x & suf & (_ & Hls' & Eseg & Hsg & Hnx & Hpre & Hsuf) & Hevs & _).
      rewrite Hls in Hls'. injection Hls' as <-.
      destruct (vstate_segment U first kept U_id U_uniq U_up s V hd sg true HV Hls Eseg) as (Hgood & _ & _).
      pose proof Hgood as [Hstd _ _ _].
      assert (Hn : forall y, In y sg -> snum y = bnum (seg_blk y)).
      { intros y Hy. rewrite Forall_forall in Hstd. exact (proj2 (Hstd y Hy)). }
      exists hd, sg, pre, (x :: suf). split; [exact Hls|]. split; [exact Eseg|]. split; [exact Hgood|]. split; [exact Hsg|].
      split; [|split; [|split; [exact Hevs|]]].
      + intros y Hy. rewrite (Hn y); [apply Hpre; exact Hy | rewrite Hsg; apply in_or_app; left; exact Hy].
      + intros y [<-|Hy].
        * rewrite (Hn x); [lia | rewrite Hsg; apply in_or_app; right; left; reflexivity].
        * rewrite (Hn y); [specialize (Hsuf y Hy); lia | rewrite Hsg; apply in_or_app; right; right; exact Hy].
      + intros _ _. exists x, suf. split; [reflexivity|]. rewrite (Hn x); [exact Hnx | rewrite Hsg; apply in_or_app; right; left; reflexivity].
    - destruct (hub_through_shape U first kept U_id U_uniq U_up s V n cu burst HV (Hon eq_refl) Hb)
        as (hd' & sg & pre & post & H1 & H2 & H3 & H4 & H5 & H6 & H7 & H8 & _).
      exists hd', sg, pre, post. repeat (split; [assumption|]). exact H8.
  Qed.
End ThroughFinal.

(* ------------------------------------------------------------------ canonical blocks up to the hub's LIB are on its segment *)

Section SegCanon.
  Variable U : list block.
  Variable c : jcfg.
  Variable canon : list block.
  Variable w : world.

  Hypothesis U_id : forall b, In b U -> bid b <> 0 /\ bid b <> bparent b.
  Hypothesis U_uniq : forall x y, In x U -> In y U -> bid x = bid y -> x = y.
  Hypothesis U_up : forall x y, In x U -> In y U -> bparent x = bid y -> bnum y < bnum x.
  Hypothesis D_decl : forall b, In b U -> decl_none U b.
  Hypothesis HcU : Forall (fun x => In x U) canon.
  Hypothesis Hcl : exists x, lnk x canon.
  Hypothesis Htip : eventual_tip c w canon.

  Let first := j_first c.
  Let kept := j_kept c.

  Lemma seg_on_canon wk mm a Fin A V hd sg s0 r b :
    wk = world_after c mm w -> LOKX U c a Fin A wk ->
    VStateX U first kept a Fin A (h_f (w_hub wk)) V ->
    last_sent (h_f (w_hub wk)) = Some hd -> complete_segment (db (h_f (w_hub wk))) (bref hd) = Some (sg, true) ->
    sg = s0 :: r -> In b canon -> snum s0 <= bnum b -> bnum b <= bnum (libblk a Fin) ->
    exists x, In x sg /\ seg_blk x = b.
  Proof.
    intros Ewk HLX HX Hls Eseg Esg Hbc Hlo Hhi. set (Lj := libblk a Fin) in *.
    destruct (vstatex_segment U first kept U_id U_uniq U_up a Fin A _ V hd sg HX Hls Eseg) as (lo & xLj & hi & Hsplit & HbLj & _ & Hgood & HsU). fold Lj in HbLj.
    destruct Hgood as [Hstd Hlk Hinc Hnd].
    destruct (seg_linked_all sg Hlk Hstd) as [y Hly].
    assert (HS : lnk y (map seg_blk lo ++ [Lj])).
    { rewrite Hsplit, map_app in Hly. cbn [map] in Hly. rewrite HbLj in Hly.
      change (Lj :: map seg_blk hi) with ([Lj] ++ map seg_blk hi) in Hly. rewrite app_assoc in Hly. eapply linked_prefix. exact Hly. }
    assert (HSU : Forall (fun z => In z U) (map seg_blk lo ++ [Lj])).
    { apply Forall_forall. intros z Hz. rewrite Forall_forall in HsU. apply in_app_or in Hz as [Hz|[<-|[]]].
      - apply in_map_iff in Hz as (q & <- & Hq). apply HsU. rewrite Hsplit. apply in_or_app. left. exact Hq.
      - rewrite <- HbLj. apply HsU. rewrite Hsplit. apply in_or_app. right. left. reflexivity. }
    destruct (chain_of_run U c canon w U_id U_uniq U_up D_decl HcU Hcl Htip wk a Fin A mm Ewk HLX) as (C & [xc HlC] & HCU & HcC & HFC).
    destruct (vstatex_rev U first kept U_id U_uniq U_up a Fin A _ V HX) as (prej & _ & EAF & _ & _ & _). fold Lj in EAF.
    assert (HLjC : In Lj C) by (apply HFC; rewrite EAF; apply in_or_app; right; left; reflexivity).
    pose proof (lnk_sorted U U_id U_uniq U_up C xc HlC HCU) as HSC.
    apply in_split in HLjC as (c1 & c2 & EC).
    destruct (StronglySorted_split blt c1 Lj c2 (eq_ind _ _ HSC _ EC)) as [Hc1 Hc2].
    assert (Hl1 : lnk xc (c1 ++ [Lj])).
    { rewrite EC in HlC. change (Lj :: c2) with ([Lj] ++ c2) in HlC. rewrite app_assoc in HlC. eapply linked_prefix. exact HlC. }
    assert (H1U : Forall (fun z => In z U) (c1 ++ [Lj])).
    { rewrite EC in HCU. change (Lj :: c2) with ([Lj] ++ c2) in HCU. rewrite app_assoc in HCU. apply Forall_app in HCU as [H _]. exact H. }
    (* b lies at or before Lj on C *)
    assert (Hb1 : In b (c1 ++ [Lj])).
    { pose proof (HcC b Hbc) as HbC. rewrite EC in HbC. apply in_app_or in HbC as [H|[H|H]].
      - apply in_or_app. left. exact H.
      - apply in_or_app. right. left. exact H.
      - specialize (Hc2 b H). unfold blt in Hc2. lia. }
    (* the first block of the segment *)
    assert (Es0 : exists t, map seg_blk lo ++ [Lj] = seg_blk s0 :: t).
    { rewrite Hsplit in Esg. destruct lo as [|l0 lo']; cbn [app map] in *; injection Esg as E _; [rewrite <- E, HbLj | rewrite <- E]; eauto. }
    destruct Es0 as [t Es0].
    assert (Hs0n : snum s0 = bnum (seg_blk s0)).
    { rewrite Forall_forall in Hstd. apply Hstd. rewrite Esg. left. reflexivity. }
    assert (HbS : In b (map seg_blk lo ++ [Lj])).
    { destruct (linked_same_end U U_uniq (map seg_blk lo) c1 y xc Lj HS Hl1 HSU H1U) as [[d Hd]|[d Hd]].
      - rewrite Hd, <- app_assoc. apply in_or_app. right. exact Hb1.
      - rewrite Hd, <- app_assoc in Hb1. apply in_app_or in Hb1 as [Hbd|Hb1]; [|exact Hb1]. exfalso.
        (* d lies below the segment's first block *)
        assert (HSC' : StronglySorted blt (d ++ (seg_blk s0 :: t) ++ c2)).
        { rewrite <- Es0. replace (d ++ (map seg_blk lo ++ [Lj]) ++ c2) with C; [exact HSC|]. rewrite EC, Hd, <- !app_assoc. reflexivity. }
        clear HSC. rename HSC' into HSC.
        apply in_split in Hbd as (d1 & d2 & Ed). rewrite Ed, <- app_assoc in HSC. cbn [app] in HSC.
        destruct (StronglySorted_split blt d1 b (d2 ++ (seg_blk s0 :: t) ++ c2) HSC) as [_ HB].
        specialize (HB (seg_blk s0)). unfold blt in HB.
        assert (Hin : In (seg_blk s0) (d2 ++ (seg_blk s0 :: t) ++ c2)) by (apply in_or_app; right; left; reflexivity).
        specialize (HB Hin). lia. }
    apply in_app_or in HbS as [H|[H|[]]].
    - apply in_map_iff in H as (x & Ex & Hx). exists x. split; [rewrite Hsplit; apply in_or_app; left; exact Hx | exact Ex].
    - exists xLj. split; [rewrite Hsplit; apply in_or_app; right; left; reflexivity | rewrite HbLj; exact H].
  Qed.

  (* the new+irreversible part of an answer "through a final cursor" for the number n of a canonical block b *)
  Lemma through_irr wk mm a Fin A V n cu burst :
    wk = world_after c mm w -> LOKX U c a Fin A wk ->
    VStateX U first kept a Fin A (h_f (w_hub wk)) V -> cu_lib cu = cu_blk cu ->
    hub_through_cursor (h_f (w_hub wk)) n cu = BOk burst ->
    let Lj := libblk a Fin in
    (bnum Lj < n -> filter irr_ev burst = []) /\
    (forall b, In b canon -> bnum b = n -> n <= bnum Lj ->
       exists q1 t, map eblk (filter irr_ev burst) = q1 ++ [Lj] /\ q1 ++ [Lj] = b :: t /\
                    lnk (bparent b) (q1 ++ [Lj]) /\ Forall (fun z => In z U) (q1 ++ [Lj])).
  Proof.
    intros Ewk HLX HX Hfc Hb Lj. set (s := h_f (w_hub wk)) in *.
    pose proof (vstatex_vstate U first kept a Fin A s V HX) as HV.
    destruct (through_final_shape U first kept U_id U_uniq U_up s V n cu burst HV Hfc Hb)
      as (hd & sg & pre & post & Hls & Eseg & Hgood & Hsg & Hpre & Hpost & Hevs & Hfirst).
    destruct (vstatex_rev U first kept U_id U_uniq U_up a Fin A s V HX) as (_ & _ & _ & _ & _ & Hlib).
    assert (Hm : rn (libref (db s)) = bnum Lj) by (rewrite Hlib; reflexivity).
    pose proof Hgood as [Hstd _ Hinc _].
    assert (Hn : forall y, In y sg -> snum y = bnum (seg_blk y)).
    { intros y Hy. rewrite Forall_forall in Hstd. exact (proj2 (Hstd y Hy)). }
    assert (Hirr : map eblk (filter irr_ev burst) = filter (fun z => bnum z <=? bnum Lj) (map seg_blk post)).
    { rewrite Hevs, filter_irr_snap, Hm. reflexivity. }
    split.
    - intros Hlt. assert (H : map eblk (filter irr_ev burst) = []).
      { rewrite Hirr. apply C06_Lists.filter_none. apply Forall_forall. intros z Hz.
        apply in_map_iff in Hz as (q & <- & Hq). apply N.leb_gt.
        rewrite <- (Hn q); [specialize (Hpost q Hq); lia | rewrite Hsg; apply in_or_app; right; exact Hq]. }
      destruct (filter irr_ev burst); [reflexivity | discriminate].
    - intros b Hbc Hbn Hle.
      destruct (vstate_segment U first kept U_id U_uniq U_up s V hd sg true HV Hls Eseg) as (_ & HsU & pz & z & Hsgz & _).
      destruct sg as [|s0 r] eqn:Esg0; [destruct pz; discriminate|]. rewrite <- Esg0 in *.
      (* the segment starts at or below n *)
      assert (Hs0 : snum s0 <= n).
      { destruct pre as [|p0 pre0].
        - cbn [app] in Hsg. destruct post as [|x0 post0]; [rewrite Esg0 in Hsg; discriminate|].
          destruct (Hfirst eq_refl ltac:(discriminate)) as (x0' & r' & E & Hx0). injection E as <- <-.
          rewrite Esg0 in Hsg. injection Hsg as -> _. lia.
        - rewrite Esg0 in Hsg. cbn [app] in Hsg. injection Hsg as -> _. specialize (Hpre p0 (or_introl eq_refl)). lia. }
      destruct (seg_on_canon wk mm a Fin A V hd sg s0 r b Ewk HLX HX Hls Eseg Esg0 Hbc ltac:(lia) ltac:(fold Lj; lia)) as (x & Hx & Exb).
      assert (Hxn : snum x = n) by (rewrite (Hn x Hx), Exb; exact Hbn).
      (* x is the first element of the answer *)
      assert (Hxpost : exists suf, post = x :: suf).
      { rewrite Hsg in Hx. apply in_app_or in Hx as [Hx|Hx]; [specialize (Hpre x Hx); lia|].
        apply in_split in Hx as (p1 & p2 & Ep). destruct p1 as [|y p1']; [exists p2; exact Ep|]. exfalso.
        assert (Hy : n <= snum y) by (apply Hpost; rewrite Ep; left; reflexivity).
        assert (Hyin : In y sg) by (rewrite Hsg, Ep; apply in_or_app; right; left; reflexivity).
        pose proof (Hn y Hyin) as Hyn.
        rewrite Hsg, Ep in Hinc. apply StronglySorted_app_r in Hinc. cbn [app] in Hinc. inversion Hinc as [|? ? _ Hall]; subst.
        rewrite Forall_forall in Hall. assert (Hin : In x (p1' ++ x :: p2)) by (apply in_or_app; right; left; reflexivity).
        specialize (Hall x Hin). unfold seg_lt in Hall. lia. }
      destruct Hxpost as [suf Epost]. rewrite Epost in Hsg, Hirr.
      destruct (good_seg_split sg pre x suf Hgood Hsg) as (_ & _ & Hstdx & Hlkx).
      assert (HpU : Forall (fun z => In z U) (map seg_blk (x :: suf))).
      { apply Forall_forall. intros z0 Hz. apply in_map_iff in Hz as (q & <- & Hq). rewrite Forall_forall in HsU. apply HsU.
        rewrite Hsg. apply in_or_app. right. exact Hq. }
      assert (Hlsuf : lnk (bid b) (map seg_blk suf)).
      { pose proof (Forall_inv Hstdx) as [Hx1 _]. rewrite <- Exb, <- Hx1. apply seg_linked; assumption. }
      cbn [map] in Hirr, HpU. rewrite Exb in Hirr, HpU.
      assert (Hlall : lnk (bparent b) (b :: map seg_blk suf)) by (cbn [lnk]; auto).
      pose proof (lnk_sorted U U_id U_uniq U_up _ _ Hlall HpU) as HSB.
      (* the LIB block is in the answer *)
      destruct (vstatex_segment U first kept U_id U_uniq U_up a Fin A s V hd sg HX Hls Eseg) as (lo & xLj & hi & Hsplit & HbLj & _).
      assert (HLjin : In Lj (b :: map seg_blk suf)).
      { assert (HxLj : In xLj sg) by (rewrite Hsplit; apply in_or_app; right; left; reflexivity).
        assert (HxLjn : snum xLj = bnum Lj) by (rewrite (Hn xLj HxLj), HbLj; reflexivity).
        rewrite Hsg in HxLj. apply in_app_or in HxLj as [H|H]; [specialize (Hpre xLj H); lia|].
        fold Lj in HbLj. rewrite <- HbLj, <- Exb. change (seg_blk x :: map seg_blk suf) with (map seg_blk (x :: suf)). apply in_map. exact H. }
      apply in_split in HLjin as (q1 & q2 & Eq).
      exists q1. rewrite Eq in Hirr, HSB, Hlall, HpU.
      assert (Et : exists t, q1 ++ [Lj] = b :: t).
      { destruct q1 as [|q0 q1']; cbn [app] in Eq |- *; injection Eq as E _; rewrite <- E; eauto. }
      destruct Et as [t Et]. exists t.
      split; [rewrite Hirr; apply sorted_filter_le; exact HSB|]. split; [exact Et|].
      change (Lj :: q2) with ([Lj] ++ q2) in Hlall, HpU. rewrite app_assoc in Hlall, HpU.
      split; [eapply linked_prefix; exact Hlall | apply Forall_app in HpU as [H _]; exact H].
  Qed.
End SegCanon.

(* ------------------------------------------------------------------ target-cursor mode *)

Section FinalTgt.
  Variable U : list block.
  Variable c : jcfg.
  Variable w : world.
  Variable ps : list (N * N).
  Variable merged_end : N.
  Variables canon forked : list block.
  Variable cu : cursor.
  Variable B : block.
  Variable start : N.

  Hypothesis U_id : forall b, In b U -> bid b <> 0 /\ bid b <> bparent b.
  Hypothesis U_uniq : forall x y, In x U -> In y U -> bid x = bid y -> x = y.
  Hypothesis U_up : forall x y, In x U -> In y U -> bparent x = bid y -> bnum y < bnum x.
  Hypothesis D_decl : forall b, In b U -> decl_none U b.

  Hypothesis Hchain : chain_ok canon.
  Hypothesis Hincl : incl canon U.
  Hypothesis Hstartblk : exists b, In b canon /\ bnum b = start.
  Hypothesis Hstart : run_start c w = start.
  Hypothesis HW : WOK U c w.
  Hypothesis Htip : eventual_tip c w canon.
  Hypothesis Hmode : j_mode c = 2.
  Hypothesis Hcur : j_cursor c = Some cu.
  Hypothesis Hfilter : j_filter c = 1.
  Hypothesis Hbundle : 0 < j_bundle c.
  Hypothesis HBc : In B canon.
  Hypothesis HB : bref B = cu_blk cu.
  Hypothesis Hfc : cu_lib cu = cu_blk cu.

  Let merged := filter (fun b => bnum b <? merged_end) canon.
  Hypothesis Hbound : Forall (fun b => bnum b < file_bound) merged.

  Let res := stream_run c w ps merged_end merged forked.
  Let stopf := if j_stop c =? 0 then file_bound else j_stop c.
  Let D := file_delivery merged start stopf (j_bundle c).
  Let fend0 := if negb (j_stop c =? 0) && ((j_stop c / j_bundle c + 1) * j_bundle c <=? merged_end) then JStop else JNil.
  Let first := j_first c.
  Let kept := j_kept c.

  Let HcU : Forall (fun x => In x U) canon.
  Proof. apply Forall_forall. exact Hincl. Qed.
  Let Hcl : exists x, lnk x canon := lnk_of_chain_ok canon Hchain.
  Let HmU : forall b, In b merged -> In b U.
  Proof. intros b Hb. apply Hincl. unfold merged in Hb. apply filter_In in Hb as [Hb _]. exact Hb. Qed.
  Let Hsl : exists b, In b canon /\ bnum b <= start.
  Proof. destruct Hstartblk as (b0 & H1 & H2). exists b0. split; [exact H1 | lia]. Qed.

  Let D_ok' : chain_ok D := dlv_ok c canon start merged_end Hchain.
  Let D_bot' : forall z r, D = z :: r -> bnum z <= start := dlv_bot c canon start merged_end Hchain Hstartblk.

  Notation nshape := (none_shape c canon w start).

  Lemma ft_D_in b : In b D -> In b merged /\ In b canon /\ start <= bnum b.
  Proof.
    intros H. apply (dlv_in c canon start merged_end b) in H. destruct H as [Hm [Hs _]]. split; [exact Hm|]. split; [|exact Hs].
    unfold merged in Hm. apply filter_In in Hm as [Hm _]. exact Hm.
  Qed.

  Lemma ft_mem : start_mem c = None.
  Proof. unfold start_mem. rewrite Hmode. reflexivity. Qed.

  (* the hub's LIB block lies at or below the parent of a canonical block above it *)
  Lemma lib_le_parent wk mm a Fin A bn p :
    wk = world_after c mm w -> LOKX U c a Fin A wk ->
    In bn canon -> In p canon -> bparent bn = bid p -> bnum (libblk a Fin) < bnum bn ->
    bnum (libblk a Fin) <= bnum p.
  Proof.
    intros Ewk HLX Hbn Hp Hpar Hlt. set (Lj := libblk a Fin) in *.
    destruct (chain_of_run U c canon w U_id U_uniq U_up D_decl HcU Hcl Htip wk a Fin A mm Ewk HLX) as (C & [xc HlC] & HCU & HcC & HFC).
    destruct HLX as (_ & [V HX] & _).
    destruct (vstatex_rev U first kept U_id U_uniq U_up a Fin A _ V HX) as (prej & _ & EAF & _ & _ & _). fold Lj in EAF.
    assert (HLjC : In Lj C) by (apply HFC; rewrite EAF; apply in_or_app; right; left; reflexivity).
    pose proof (lnk_sorted U U_id U_uniq U_up C xc HlC HCU) as HSC.
    pose proof (HcC bn Hbn) as HbnC. apply in_split in HbnC as (Ca & Cb & EC).
    rewrite EC in HSC, HlC, HLjC, HCU.
    destruct (StronglySorted_split blt Ca bn Cb HSC) as [HA HB'].
    assert (HLjCa : In Lj Ca).
    { apply in_app_or in HLjC as [H|[H|H]]; [exact H | subst bn; lia | specialize (HB' Lj H); unfold blt in HB'; lia]. }
    destruct Ca as [|r Ca' _] using rev_ind; [destruct HLjCa|].
    pose proof (linked_mid _ _ _ _ HlC) as Hm. rewrite tip_snoc in Hm.
    assert (Er : r = p).
    { apply U_uniq; [rewrite Forall_forall in HCU; apply HCU; apply in_or_app; left; apply in_or_app; right; left; reflexivity
                    | apply Hincl; exact Hp | congruence]. }
    subst r. apply in_app_or in HLjCa as [H|[H|[]]]; [|rewrite <- H; lia].
    rewrite <- app_assoc in HSC. cbn [app] in HSC.
    destruct (StronglySorted_split blt Ca' p (bn :: Cb) HSC) as [HA' _]. specialize (HA' Lj H). unfold blt in HA'. lia.
  Qed.

  (* ---------------------------------------------------------------- the shapes *)

  Lemma ft_live burst k :
    h_ready (w_hub w) = true -> hub_through_cursor (h_f (w_hub w)) start cu = BOk burst ->
    nshape (map eblk (filter irr_ev (burst ++ pushed c k w))) (w_rest (world_after c k w) = []).
  Proof.
    intros Hrd Hb.
    destruct (g_lokx_of_world U c U_id U_uniq U_up D_decl w HW Hrd) as (a & Fin & A & V & HLX & HX).
    assert (Ew0 : w = world_after c 0 w) by reflexivity.
    destruct (through_irr U c canon w U_id U_uniq U_up D_decl HcU Hcl Htip w 0%nat a Fin A V start cu burst Ew0 HLX HX Hfc Hb) as [Hirr2 Hirr1].
    set (Lj := libblk a Fin) in *.
    rewrite filter_irr_app, map_app.
    destruct (N.le_gt_cases start (bnum Lj)) as [Hle|Hgt].
    - destruct Hstartblk as (b0 & Hb0 & Hnb0).
      destruct (Hirr1 b0 Hb0 Hnb0 Hle) as (q1 & t & Ebi & Et & Hl & HU'). rewrite Ebi.
      apply (tail_none U c canon w start U_id U_uniq U_up D_decl HcU Hcl Hsl Htip w 0%nat a Fin A (q1 ++ [Lj]) k Ew0 HLX (ex_intro (fun x => lnk x (q1 ++ [Lj])) _ Hl) HU').
      fold Lj. rewrite Et. split; [lia|]. rewrite <- Et, last_last. left. reflexivity.
    - rewrite (Hirr2 Hgt). cbn [map app].
      apply (tail_none U c canon w start U_id U_uniq U_up D_decl HcU Hcl Hsl Htip w 0%nat a Fin A [] k Ew0 HLX (ex_intro (fun x => lnk x []) 0 I) (Forall_nil _)).
      exact Hgt.
  Qed.

  Lemma ft_join m Dpre bn D'' lowest burst k :
    (exists x, lnk x (Dpre ++ bn :: D'')) -> (forall b, In b (Dpre ++ bn :: D'') -> In b D) ->
    (forall z r, Dpre ++ bn :: D'' = z :: r -> bnum z <= start) ->
    join_try c (world_after c m w) lowest (fev bn) = Some burst ->
    nshape (map eblk (filter irr_ev (map fev Dpre ++ burst ++ pushed c k (world_after c m w))))
           (w_rest (world_after c k (world_after c m w)) = []).
  Proof.
    intros [x0 HlD] HinD Hbot Ej. set (wj := world_after c m w) in *.
    pose proof (wok_after U c U_id U_uniq U_up D_decl m w HW) as HWj. fold wj in HWj.
    destruct (join_try_some c wj lowest (fev bn) burst Ej) as (_ & _ & Hrd).
    assert (Hb : hub_through_cursor (h_f (w_hub wj)) (bnum bn) cu = BOk burst)
      by exact (proj1 (join_try_target c wj lowest (fev bn) cu burst Hmode Hcur Ej)).
    destruct (g_lokx_of_world U c U_id U_uniq U_up D_decl wj HWj Hrd) as (a & Fin & A & V & HLX & HX).
    destruct (through_irr U c canon w U_id U_uniq U_up D_decl HcU Hcl Htip wj m a Fin A V (bnum bn) cu burst eq_refl HLX HX Hfc Hb) as [Hirr2 Hirr1].
    set (Lj := libblk a Fin) in *.
    assert (HbnD : In bn D) by (apply HinD; apply in_or_app; right; left; reflexivity).
    destruct (ft_D_in bn HbnD) as (_ & Hbnc & Hbns).
    assert (HDpU : Forall (fun y => In y U) Dpre).
    { apply Forall_forall. intros y Hy. apply HmU. apply ft_D_in. apply HinD. apply in_or_app. left. exact Hy. }
    assert (HlDbn : lnk x0 (Dpre ++ [bn])).
    { change (bn :: D'') with ([bn] ++ D'') in HlD. rewrite app_assoc in HlD. eapply linked_prefix. exact HlD. }
    assert (HlDpre : lnk x0 Dpre) by (eapply linked_prefix; exact HlDbn).
    assert (Hpbn : bparent bn = tip x0 Dpre) by exact (linked_mid _ _ _ _ HlDbn).
    rewrite !filter_irr_app, !map_app.
    assert (Ef : map eblk (filter irr_ev (map fev Dpre)) = Dpre).
    { rewrite (C06_Lists.filter_all _ _ (map fev Dpre)); [apply map_eblk_fev|].
      apply Forall_forall. intros e He. apply in_map_iff in He as (b & <- & _). reflexivity. }
    rewrite Ef.
    destruct (N.le_gt_cases (bnum bn) (bnum Lj)) as [Hle|Hgt].
    - (* the join is at or below the hub's LIB: the answer's final part starts with the file block itself *)
      destruct (Hirr1 bn Hbnc eq_refl Hle) as (q1 & t & Ebi & Et & Hl & HU'). rewrite Ebi.
      assert (Hlall : lnk x0 (Dpre ++ q1 ++ [Lj])).
      { apply linked_app_iff. split; [exact HlDpre|]. rewrite Et in Hl |- *. cbn [lnk] in Hl |- *. destruct Hl as [_ Hl]. auto. }
      replace (Dpre ++ (q1 ++ [Lj]) ++ map eblk (filter irr_ev (pushed c k wj)))
        with ((Dpre ++ q1 ++ [Lj]) ++ map eblk (filter irr_ev (pushed c k wj))) by (rewrite <- !app_assoc; reflexivity).
      apply (tail_none U c canon w start U_id U_uniq U_up D_decl HcU Hcl Hsl Htip wj m a Fin A (Dpre ++ q1 ++ [Lj]) k eq_refl HLX (ex_intro (fun x => lnk x (Dpre ++ q1 ++ [Lj])) _ Hlall)).
      + apply Forall_app. split; assumption.
      + fold Lj. destruct (Dpre ++ q1 ++ [Lj]) as [|z r] eqn:Ez; [destruct Dpre; [destruct q1|]; discriminate|].
        split.
        * destruct Dpre as [|d Dp]; cbn [app] in Ez.
          -- rewrite Et in Ez. injection Ez as <- _. apply (Hbot bn D''). reflexivity.
          -- injection Ez as <- _. apply (Hbot d (Dp ++ bn :: D'')). reflexivity.
        * rewrite <- Ez, !app_assoc, last_last. left. reflexivity.
    - (* the join is above the hub's LIB: nothing of the answer is final *)
      rewrite (Hirr2 Hgt). cbn [map app].
      destruct Dpre as [|p Dp _] using rev_ind.
      + apply (tail_none U c canon w start U_id U_uniq U_up D_decl HcU Hcl Hsl Htip wj m a Fin A [] k eq_refl HLX (ex_intro (fun x => lnk x []) 0 I) (Forall_nil _)).
        fold Lj. cbn [app] in Hbot. specialize (Hbot bn D'' eq_refl). lia.
      + assert (Hpc : In p canon).
        { apply (ft_D_in p). apply HinD. apply in_or_app. left. apply in_or_app. right. left. reflexivity. }
        rewrite tip_snoc in Hpbn.
        pose proof (lib_le_parent wj m a Fin A bn p eq_refl HLX Hbnc Hpc Hpbn Hgt) as HLp. fold Lj in HLp.
        assert (Hbot' : forall z r, Dp ++ [p] = z :: r -> bnum z <= start).
        { intros z r Ez. apply (Hbot z (r ++ bn :: D'')). change (z :: r ++ bn :: D'') with ((z :: r) ++ bn :: D''). rewrite <- Ez. reflexivity. }
        apply (tail_none U c canon w start U_id U_uniq U_up D_decl HcU Hcl Hsl Htip wj m a Fin A (Dp ++ [p]) k eq_refl HLX (ex_intro (fun x => lnk x (Dp ++ [p])) _ HlDpre) HDpU).
        fold Lj. assert (Elast : last (Dp ++ [p]) Lj = p) by apply last_last.
        destruct (Dp ++ [p]) as [|z r] eqn:Ez; [destruct Dp; discriminate|].
        split; [exact (Hbot' z r eq_refl)|]. rewrite Elast. right. split; [exact Hpc | exact HLp].
  Qed.

  (* ---------------------------------------------------------------- the theorem *)

  Lemma tgt_final :
    final_fold None (fst res) = true /\
    (snd res = JNil ->
       (exists D1 D2, from_num start merged = D1 ++ D2 /\ map eblk (fst res) = D1) \/
       exists hi, final_lib c w <= hi /\ from_num start (map eblk (fst res)) = seg_num start hi canon).
  Proof.
    pose proof (c07_run_shapes_proof c w ps merged_end merged forked) as Hsh. cbv zeta in Hsh.
    destruct (tgt_files c w ps merged_end canon forked cu B start Hchain Hstart Hmode Hcur HBc HB) as (D1 & D2 & fend & ED & Erf & Hfend & _).
    fold merged stopf D in ED, Erf. rewrite Erf in Hsh. cbn [fst snd] in Hsh. fold res in Hsh. rewrite Hstart in Hsh.
    assert (Hseen : forall X, seen c X = undup c None X) by (intros X; rewrite (seen_final c X Hfilter), ft_mem; reflexivity).
    assert (Hraw : forall X P, raw_out c (undup c None X) res P -> nshape (map eblk (filter irr_ev X)) P ->
              final_fold None (fst res) = true /\
              (snd res = JNil ->
                 (exists D1 D2, from_num start merged = D1 ++ D2 /\ map eblk (fst res) = D1) \/
                 exists hi, final_lib c w <= hi /\ from_num start (map eblk (fst res)) = seg_num start hi canon)).
    { intros X P Hro (Bd & EBd & HlB & Hcompl).
      destruct (undup_sorted c X None) as (Hp & _ & _).
      split.
      - apply (prefix_fold c Hfilter X); [exact (raw_out_prefix_of c _ res P Hp Hro) | rewrite EBd; exact HlB].
      - intros Hn. right. unfold raw_out in Hro. rewrite Hn in Hro. destruct Hro as (HP & Hns & Hf).
        destruct (Hcompl HP) as (hi & Hhi & E). exists hi. split; [exact Hhi|].
        rewrite Hf, (pass_delivered c _ Hp Hns), (undup_blocks c Hfilter X None), EBd. exact E. }
    destruct (lnk_of_chain_ok D D_ok') as [x0 HlD].
    destruct Hsh as [[_ Hr]|[Hrej [(burst & k & Hlt & Hro)|[[_ Hr]|[Hlt [(pre & e & rest0 & m & lowest & burst & k & Ef & Hns & Hj & Hro)|Hfo]]]]]].
    - rewrite Hr. split; [reflexivity | discriminate].
    - unfold live_try in Hlt. rewrite Hmode, Hcur in Hlt. cbn [N.eqb Pos.eqb] in Hlt.
      destruct (h_ready (w_hub w)) eqn:Hrd; cbn [negb] in Hlt; [|discriminate].
      rewrite Hseen in Hro. apply (Hraw _ _ Hro). exact (ft_live burst k Hrd Hlt).
    - rewrite Hr. split; [reflexivity | discriminate].
    - apply map_eq_app in Ef as (Dpre & D3 & ED1 & Epre & E3). apply map_eq_cons in E3 as (bn & D'' & ED3 & Ebn & _).
      subst pre e D3. rewrite Hseen in Hro. apply (Hraw _ _ Hro).
      assert (EDD : D = (Dpre ++ bn :: D'') ++ D2) by (rewrite ED, ED1; reflexivity).
      apply (ft_join m Dpre bn D'' lowest burst k).
      + exists x0. rewrite EDD in HlD. eapply linked_prefix. exact HlD.
      + intros b Hb. rewrite EDD. apply in_or_app. left. exact Hb.
      + intros z r Ez. apply (D_bot' z (r ++ D2)). rewrite EDD, Ez. reflexivity.
      + exact Hj.
    - (* files only *)
      rewrite Hseen in Hfo.
      assert (HD1U : Forall (fun y => In y U) D1).
      { apply Forall_forall. intros y Hy. apply HmU. apply ft_D_in. rewrite ED. apply in_or_app. left. exact Hy. }
      assert (HlD1 : lnk x0 D1) by (rewrite ED in HlD; eapply linked_prefix; exact HlD).
      assert (Erec : records None (map eblk (filter irr_ev (map fev D1))) = D1).
      { rewrite (C06_Lists.filter_all _ _ (map fev D1)), map_eblk_fev; [apply records_none; exact (lnk_sorted U U_id U_uniq U_up D1 x0 HlD1 HD1U)|].
        apply Forall_forall. intros e He. apply in_map_iff in He as (b & <- & _). reflexivity. }
      destruct (undup_sorted c (map fev D1) None) as (Hp & _ & _).
      split.
      + apply (prefix_fold c Hfilter (map fev D1)); [exact (files_out_prefix_of c _ fend res Hp Hfo) | rewrite Erec; exists x0; exact HlD1].
      + intros Hn. left. exists D1, D2. destruct Hfo as [[Hns Hr]|[Hs Hr]]; rewrite Hr in Hn |- *; cbn [fst snd] in *; [|discriminate].
        split.
        * destruct Hfend as [E|E]; [|rewrite E in Hn; discriminate]. rewrite E in Hn.
          rewrite <- ED. symmetry. exact (dlv_all c canon start merged_end Hbundle Hbound Hn).
        * rewrite (pass_delivered c _ Hp Hns), (undup_blocks c Hfilter _ None), Erec. reflexivity.
  Qed.
  (* ---------------------------------------------------------------- with a stop block: the run that ends with stop-block-reached *)

  Lemma tgt_final_stop bS :
    In bS canon -> bnum bS = j_stop c -> rn (cu_blk cu) <= j_stop c -> snd res = JStop ->
    exists pre e, fst res = pre ++ [e] /\ eblk e = bS /\
      from_num start (map eblk (fst res)) = seg_num start (j_stop c) canon.
  Proof.
    intros HbS HnS Hsc Hstop.
    pose proof (c07_run_shapes_proof c w ps merged_end merged forked) as Hsh. cbv zeta in Hsh.
    destruct (tgt_files c w ps merged_end canon forked cu B start Hchain Hstart Hmode Hcur HBc HB) as (D1 & D2 & fend & ED & Erf & Hfend & Hall2).
    fold merged stopf D in ED, Erf, Hall2. rewrite Erf in Hsh. cbn [fst snd] in Hsh. fold res in Hsh. rewrite Hstart in Hsh.
    assert (Hseen : forall X, seen c X = undup c None X) by (intros X; rewrite (seen_final c X Hfilter), ft_mem; reflexivity).
    assert (Hle0 : run_rejected c w = false -> j_stop c <> 0 -> start <= j_stop c) by (intros Hrej; exact (not_rejected_start c start w Hstart Hrej)).
    assert (Hraw : forall X X' (P : Prop), run_rejected c w = false -> (exists Xt, X' = X ++ Xt) -> raw_out c (undup c None X) res P ->
              nshape (map eblk (filter irr_ev X')) True ->
              exists pre e, fst res = pre ++ [e] /\ eblk e = bS /\ from_num start (map eblk (fst res)) = seg_num start (j_stop c) canon).
    { intros X X' P Hrej HX' Hro (Bd & EBd & _ & Hcompl).
      unfold raw_out in Hro. rewrite Hstop in Hro. destruct Hro as (Hs & Hf).
      destruct (Hcompl I) as (hi & _ & Hfrom).
      apply (final_cut c canon start None X X' Bd hi (fst res) bS Hfilter HX' EBd); try assumption.
      - rewrite <- EBd. apply records_sorted.
      - exact (Hle0 Hrej). }
    assert (Hweak : forall raw (P : Prop), P -> nshape raw P -> nshape raw True).
    { intros raw P HP (Bd & E & Hl & Hfn). exists Bd. split; [exact E|]. split; [exact Hl | intros _; exact (Hfn HP)]. }
    assert (Hdone : forall w0 k, w_rest (world_after c (k + length (w_rest (world_after c k w0))) w0) = []).
    { intros w0 k. rewrite <- world_after_add. apply length_zero_iff_nil. rewrite world_after_rest. lia. }
    assert (Hpadd : forall a b w0, pushed c (a + b) w0 = pushed c a w0 ++ pushed c b (world_after c a w0)).
    { intros a b w0. unfold pushed, world_after. rewrite push_n_add. reflexivity. }
    destruct (lnk_of_chain_ok D D_ok') as [x0 HlD].
    destruct Hsh as [[_ Hr]|[Hrej [(burst & k & Hlt & Hro)|[[_ Hr]|[Hlt [(pre & e & rest0 & m & lowest & burst & k & Ef & Hns & Hj & Hro)|Hfo]]]]]].
    - rewrite Hr in Hstop. discriminate.
    - unfold live_try in Hlt. rewrite Hmode, Hcur in Hlt. cbn [N.eqb Pos.eqb] in Hlt.
      destruct (h_ready (w_hub w)) eqn:Hrd; cbn [negb] in Hlt; [|discriminate].
      rewrite Hseen in Hro. set (r := length (w_rest (world_after c k w))).
      apply (Hraw (burst ++ pushed c k w) (burst ++ pushed c (k + r) w) (w_rest (world_after c k w) = []) Hrej); [| exact Hro|].
      + exists (pushed c r (world_after c k w)). rewrite Hpadd, app_assoc. reflexivity.
      + exact (Hweak _ _ (Hdone w k) (ft_live burst (k + r) Hrd Hlt)).
    - rewrite Hr in Hstop. discriminate.
    - apply map_eq_app in Ef as (Dpre & D3 & ED1 & Epre & E3). apply map_eq_cons in E3 as (bn & D'' & ED3 & Ebn & _).
      subst pre e D3. rewrite Hseen in Hro.
      assert (EDD : D = (Dpre ++ bn :: D'') ++ D2) by (rewrite ED, ED1; reflexivity).
      set (wm := world_after c m w) in *. set (r := length (w_rest (world_after c k wm))).
      apply (Hraw (map fev Dpre ++ burst ++ pushed c k wm) (map fev Dpre ++ burst ++ pushed c (k + r) wm) (w_rest (world_after c k wm) = []) Hrej); [| exact Hro|].
      + exists (pushed c r (world_after c k wm)). rewrite Hpadd, <- !app_assoc. reflexivity.
      + apply (Hweak _ _ (Hdone wm k)). apply (ft_join m Dpre bn D'' lowest burst (k + r)).
        * exists x0. rewrite EDD in HlD. eapply linked_prefix. exact HlD.
        * intros b Hb. rewrite EDD. apply in_or_app. left. exact Hb.
        * intros z r0 Ez. apply (D_bot' z (r0 ++ D2)). rewrite EDD, Ez. reflexivity.
        * exact Hj.
    - (* files only *)
      rewrite Hseen in Hfo.
      assert (HDU : Forall (fun y => In y U) D).
      { apply Forall_forall. intros y Hy. apply HmU. apply ft_D_in. exact Hy. }
      assert (HSD : StronglySorted blt D) by exact (lnk_sorted U U_id U_uniq U_up D x0 HlD HDU).
      assert (ErecD : records None (map eblk (filter irr_ev (map fev D))) = D).
      { rewrite (C06_Lists.filter_all _ _ (map fev D)), map_eblk_fev; [apply records_none; exact HSD|].
        apply Forall_forall. intros e He. apply in_map_iff in He as (b & <- & _). reflexivity. }
      assert (HD1U : Forall (fun y => In y U) D1) by (rewrite ED in HDU; apply Forall_app in HDU; exact (proj1 HDU)).
      assert (HlD1 : lnk x0 D1) by (rewrite ED in HlD; eapply linked_prefix; exact HlD).
      assert (Erec1 : records None (map eblk (filter irr_ev (map fev D1))) = D1).
      { rewrite (C06_Lists.filter_all _ _ (map fev D1)), map_eblk_fev; [apply records_none; exact (lnk_sorted U U_id U_uniq U_up D1 x0 HlD1 HD1U)|].
        apply Forall_forall. intros e He. apply in_map_iff in He as (b & <- & _). reflexivity. }
      assert (EYb : map eblk (undup c None (map fev D1)) = D1) by (rewrite (undup_blocks c Hfilter _ None); exact Erec1).
      destruct (undup_sorted c (map fev D1) None) as (Hp & _ & _).
      set (lim := N.min ((stopf / j_bundle c + 1) * j_bundle c) merged_end).
      assert (HDin : forall b, In b D <-> In b merged /\ start <= bnum b < (stopf / j_bundle c + 1) * j_bundle c) by (intros b; apply (dlv_in c canon start merged_end b)).
      destruct Hfo as [[Hns Hr]|[Hs Hr]]; fold res in Hr.
      + (* the marker: impossible, block S is among the blocks handed over *)
        exfalso. rewrite Hr in Hstop. cbn [snd] in Hstop.
        assert (Ef0 : fend = fend0) by (destruct Hfend as [E|E]; [exact E | rewrite E in Hstop; discriminate]).
        rewrite Ef0 in Hstop.
        assert (E0 : j_stop c <> 0) by (intros E; unfold fend0 in Hstop; rewrite E in Hstop; discriminate).
        assert (Hble : (j_stop c / j_bundle c + 1) * j_bundle c <= merged_end).
        { unfold fend0 in Hstop. apply N.leb_le. case_eq ((j_stop c / j_bundle c + 1) * j_bundle c <=? merged_end); [reflexivity|].
          intros E. rewrite E, andb_false_r in Hstop. discriminate. }
        assert (Estopf : stopf = j_stop c) by (unfold stopf; apply N.eqb_neq in E0; rewrite E0; reflexivity).
        pose proof (N.mul_succ_div_gt (j_stop c) (j_bundle c)) as Hdiv. rewrite <- N.add_1_r in Hdiv.
        pose proof (Hle0 Hrej E0) as Hle.
        destruct (bref_eq _ _ HB) as [_ EBn].
        assert (HD2 : D2 = []).
        { apply Hall2; [|exact Ef0]. destruct (N.lt_ge_cases (rn (cu_blk cu)) start) as [Hl|Hg]; [left; exact Hl|]. right.
          apply HDin. rewrite Estopf. split; [unfold merged; apply filter_In; split; [exact HBc | apply N.ltb_lt; nia] | nia]. }
        assert (HbSD : In bS D1).
        { rewrite HD2, app_nil_r in ED. rewrite <- ED. apply HDin. rewrite Estopf.
          split; [unfold merged; apply filter_In; split; [exact HbS | apply N.ltb_lt; nia] | nia]. }
        rewrite <- EYb in HbSD. apply in_map_iff in HbSD as (x & Ex & Hx).
        pose proof (upto_stop_nostop c _ Hns) as Hall. rewrite Forall_forall in Hall, Hp.
        pose proof (stops_false_pass c x (Hall _ Hx) (Hp x Hx) E0) as Hlt'. unfold enum in Hlt'. rewrite Ex in Hlt'. lia.
      + assert (Hf : fst res = fst (upto_stop c (undup c None (map fev D1)))) by (rewrite Hr; reflexivity).
        destruct (upto_stop_split c _ Hs) as (Y1 & e & Y2 & EYs & _ & _ & _).
        assert (HeD : In (eblk e) D).
        { rewrite ED. apply in_or_app. left. rewrite <- EYb, EYs. apply in_map. apply in_or_app. right. left. reflexivity. }
        assert (Hlim : bnum (eblk e) < lim).
        { apply HDin in HeD as (Hm & _ & H2). unfold merged in Hm. apply filter_In in Hm as [_ Hm]. apply N.ltb_lt in Hm. unfold lim. lia. }
        apply (final_cut c canon start None (map fev D1) (map fev D) D (lim - 1) (fst res) bS Hfilter); try assumption.
        * exists (map fev D2). rewrite ED, map_app. reflexivity.
        * assert (EDfrom : from_num start D = D).
          { unfold from_num. apply C06_Lists.filter_all. apply Forall_forall. intros b Hb. apply HDin in Hb. apply N.leb_le. lia. }
          rewrite EDfrom. unfold D at 1, file_delivery, merged, seg_num. rewrite filter_filter2. apply filter_ext_in. intros b _.
          fold stopf. unfold lim in *.
          destruct (N.ltb_spec (bnum b) merged_end), (N.leb_spec start (bnum b)), (N.ltb_spec (bnum b) ((stopf / j_bundle c + 1) * j_bundle c)),
            (N.leb_spec (bnum b) (N.min ((stopf / j_bundle c + 1) * j_bundle c) merged_end - 1)); cbn [andb]; try reflexivity; lia.
        * exact (Hle0 Hrej).
  Qed.
End FinalTgt.

Lemma c07_seamless_target_final_proof : C07_seamless_target_final_full.
Proof.
  intros U c w ps merged_end canon forked cu B Hwfb Hlok [[l [Hl Hhub]] Hrest] Hchain Hincl merged Htip
         Hmode Hcur Hfilter Hbundle Hbound HBc HB Hfc res start Hstartblk.
  assert (Hscope : disc_scope2_b U = true) by (unfold disc_scope2_b; rewrite Hwfb, Hlok; reflexivity).
  pose proof (bridge_id U Hwfb) as Hid. pose proof (bridge_uniq U Hwfb) as Huniq. pose proof (bridge_up U Hwfb) as Hup.
  pose proof (bridge2_decl_none U Hscope) as Hdecl.
  assert (HW : WOK U c w).
  { split; [|exact Hrest]. rewrite Hhub. apply (hub_ok_run U (j_first c) (j_kept c) Hwfb Hlok l Hl). }
  exact (tgt_final U c w ps merged_end canon forked cu B start Hid Huniq Hup Hdecl Hchain Hincl Hstartblk eq_refl HW Htip Hmode Hcur Hfilter
           Hbundle HBc HB Hfc Hbound).
Qed.

(* the stop clause for final blocks only, target-cursor mode (Spec/C13_More_Spec.v) *)
Lemma c13_stop_final_target_proof : C13_stop_final_target.
Proof.
  intros U c w ps merged_end canon forked cu B Hwfb Hlok [[l [Hl Hhub]] Hrest] Hchain Hincl merged Htip
         Hmode Hcur Hfilter Hbundle Hbound HBc HB Hfc res start Hstartblk bS HbS HnS Hsc Hstop.
  assert (Hscope : disc_scope2_b U = true) by (unfold disc_scope2_b; rewrite Hwfb, Hlok; reflexivity).
  pose proof (bridge_id U Hwfb) as Hid. pose proof (bridge_uniq U Hwfb) as Huniq. pose proof (bridge_up U Hwfb) as Hup.
  pose proof (bridge2_decl_none U Hscope) as Hdecl.
  assert (HW : WOK U c w).
  { split; [|exact Hrest]. rewrite Hhub. apply (hub_ok_run U (j_first c) (j_kept c) Hwfb Hlok l Hl). }
  exact (tgt_final_stop U c w ps merged_end canon forked cu B start Hid Huniq Hup Hdecl Hchain Hincl Hstartblk eq_refl HW Htip Hmode Hcur Hfilter
           Hbundle HBc HB Hfc bS HbS HnS Hsc Hstop).
Qed.
