(* C07, final blocks only, target-cursor mode (C07_seamless_target_final of Spec/C07_Final_Spec.v): the filter's memory
   starts empty; the join is not made on identity, but a final-blocks-only handler only sees the new+irreversible part of
   the hub's answer - segment blocks at or below the hub's LIB, which are canonical (seg_on_canon) - so neither
   files_on_hub nor target_on_chain is needed.  tail_none: final_tail of C07_FinalCursor.v for the empty memory. *)
From Coq Require Import Sorted.
From BV Require Import Base.Prelude Model.Block Model.ForkDB Model.Forkable Model.ForkableLookups Model.Burst Model.Hub
  Model.CursorResolver Model.Joining
  Spec.Consumer Spec.Universe Check.Fk_Check Check.Burst_Check Check.C07_Check
  Spec.C09_Spec Spec.C05_Spec Spec.C06_Spec Spec.C07_Spec Spec.C13_Spec Spec.C07_Compose_Spec Spec.C07_Shapes_Spec Spec.C07_More_Spec
  Spec.C07_Final_Spec
  Spec.C01_Spec Spec.C01_Moving_Spec Spec.C01_Roots_Spec
  Proofs.C06_Lists Proofs.C06_Proofs Proofs.C13_Proofs
  Proofs.C09_Store Proofs.C09_Segment Proofs.C09_Proofs Proofs.C05_Fast Proofs.C05_Forked
  Proofs.Fk.LoopFacts Proofs.Fk.MovingLibDisc Proofs.C02_Proofs Proofs.C01_Roots_Proofs
  Proofs.Hub.ConsFacts Proofs.Hub.HubInv Proofs.Hub.HubFed Proofs.Hub.LinkedRuns Proofs.Hub.C09_History
  Proofs.C07_File Proofs.C07_Live
  Proofs.C07_ComposeStack Proofs.C07_ComposeHub Proofs.C07_ComposeRun Proofs.C07_Compose Proofs.C07_ComposeCheck
  Proofs.C07_ComposeCursor Proofs.C07_ComposeCursorLive Proofs.C07_ComposeTarget
  Proofs.C07_Raw Proofs.C07_Shapes Proofs.C07_Filters Proofs.C07_ChainFacts Proofs.C07_Delivery Proofs.C07_FiltersTarget
  Proofs.C07_FinalHub Proofs.C07_Final Proofs.C07_FinalMem Proofs.C07_FinalCursor.
Local Open Scope N_scope.

(* ------------------------------------------------------------------ the blocks the hub finalises, empty memory *)

Section FinalNone.
  Variable U : list block.
  Variable c : jcfg.
  Variable canon : list block.
  Variable w : world.
  Variable start : N.

  Hypothesis U_id : forall b, In b U -> bid b <> 0 /\ bid b <> bparent b.
  Hypothesis U_uniq : forall x y, In x U -> In y U -> bid x = bid y -> x = y.
  Hypothesis U_up : forall x y, In x U -> In y U -> bparent x = bid y -> bnum y < bnum x.
  Hypothesis D_decl : forall b, In b U -> decl_none U b.

  Hypothesis HcU : Forall (fun x => In x U) canon.
  Hypothesis Hcl : exists x, lnk x canon.
  Hypothesis Hsl : exists b, In b canon /\ bnum b <= start.
  Hypothesis Htip : eventual_tip c w canon.

  Let first := j_first c.
  Let kept := j_kept c.

  Let lsorted : forall x y, lnk y x -> Forall (fun z => In z U) x -> StronglySorted blt x :=
    fun x y => lnk_sorted U U_id U_uniq U_up x y.

  (* the hub after the last arrival; Bq ++ [Lend] a run that starts at or below start and ends with its LIB block *)
  Lemma n_end_complete wk a Fin' A mm Bq :
    wk = world_after c mm w -> LOKX U c a Fin' A wk -> w_rest wk = [] ->
    let Lend := libblk a Fin' in
    (exists x, lnk x (Bq ++ [Lend])) -> Forall (fun y => In y U) (Bq ++ [Lend]) ->
    (forall z r, Bq ++ [Lend] = z :: r -> bnum z <= start) ->
    from_num start (Bq ++ [Lend]) = seg_num start (final_lib c w) canon.
  Proof.
    intros Ewk HLX Hdone Lend HlB HBU Hbot.
    rewrite (g_final_lib_at U c w U_id U_uniq U_up wk a Fin' A mm Ewk HLX Hdone). fold Lend.
    destruct HLX as (Hrd & [Vend HXe] & _).
    pose proof (vstatex_vstate U first kept a Fin' A _ Vend HXe) as HVe.
    destruct (vstate_facts U first kept U_id U_uniq U_up _ Vend HVe) as (HVne & [HVU [xv Hlv]] & _ & hdF & Hls & Hhd).
    destruct (vstatex_rev U first kept U_id U_uniq U_up a Fin' A _ Vend HXe) as (pre' & pend & EAF & Erev & _ & _).
    assert (Ecan : exists cpre, canon = cpre ++ [hdF]).
    { rewrite Ewk in Hdone, Hls. exact (Htip mm hdF Hdone Hls). }
    destruct Ecan as [cpre Ecan].
    destruct Vend as [|v0 V0]; [contradiction|]. cbn [hd_error] in Hhd. injection Hhd as ->.
    apply (final_complete U c canon start U_id U_uniq U_up D_decl HcU Hcl Hsl Bq Lend (rev (hdF :: V0)) hdF cpre (rev V0) HlB HBU Hbot).
    - exists xv. exact Hlv.
    - apply Forall_forall. intros y Hy. apply in_rev in Hy. rewrite Forall_forall in HVU. apply HVU. exact Hy.
    - rewrite Erev. apply in_or_app. left. fold Lend in EAF. rewrite EAF. apply in_or_app. right. left. reflexivity.
    - reflexivity.
    - exact Ecan.
  Qed.

  (* what a shape lemma delivers: the run Bd the handler receives in the end *)
  Definition none_shape (raw : list block) (complete : Prop) : Prop :=
    exists Bd, records None raw = Bd /\ (exists x, lnk x Bd) /\
      (complete -> exists hi, final_lib c w <= hi /\ from_num start Bd = seg_num start hi canon).

  (* one run C of the universe holds canon and, for a ready world of the run, the hub's final chain then and later *)
  Lemma chain_of_run wk a Fin' A mm :
    wk = world_after c mm w -> LOKX U c a Fin' A wk ->
    exists C, (exists x, lnk x C) /\ Forall (fun y => In y U) C /\ incl canon C /\ incl (A ++ Fin') C.
  Proof.
    intros Ewk HLX.
    destruct (g_end_world U c canon w U_id U_uniq U_up D_decl Htip wk a Fin' A mm Ewk HLX) as (F' & Vend & hdF & cpre & HXe & Hhde & Ecan).
    pose proof (vstatex_vstate U first kept a (Fin' ++ F') A _ Vend HXe) as HVe.
    destruct (vstate_facts U first kept U_id U_uniq U_up _ Vend HVe) as (HVne & [HVU [xv Hlv]] & _).
    destruct (vstatex_rev U first kept U_id U_uniq U_up a (Fin' ++ F') A _ Vend HXe) as (_ & pende & _ & Ereve & _ & _).
    destruct Vend as [|v0 V0]; [contradiction|]. cbn [hd_error] in Hhde. injection Hhde as ->.
    assert (HWU : Forall (fun y => In y U) (rev (hdF :: V0))).
    { apply Forall_forall. intros y Hy. apply in_rev in Hy. rewrite Forall_forall in HVU. apply HVU. exact Hy. }
    destruct (common_chain U canon U_uniq HcU Hcl (rev (hdF :: V0)) (rev V0) hdF cpre (ex_intro _ xv Hlv) HWU eq_refl Ecan)
      as (C & HlC & HCU & HWC & HcC).
    exists C. split; [exact HlC|]. split; [exact HCU|]. split; [exact HcC|].
    intros y Hy. apply HWC. rewrite Ereve. apply in_or_app. left. rewrite !app_assoc. apply in_or_app. left. exact Hy.
  Qed.

  Lemma tail_none wj mm a Fin A P0 k :
    wj = world_after c mm w -> LOKX U c a Fin A wj ->
    (exists x, lnk x P0) -> Forall (fun z => In z U) P0 ->
    let Lj := libblk a Fin in
    match P0 with
    | [] => bnum Lj < start
    | z :: _ => bnum z <= start /\ (let p := last P0 Lj in p = Lj \/ (In p canon /\ bnum Lj <= bnum p))
    end ->
    none_shape (P0 ++ map eblk (filter irr_ev (pushed c k wj))) (w_rest (world_after c k wj) = []).
  Proof.
    intros Ewj HLX [x0 HlP] HPU Lj HP0.
    destruct (lokx_push_n U c U_id U_uniq U_up D_decl k a Fin A wj HLX) as (F & HLXe & EF & HlF & HFU). rewrite EF.
    fold Lj in HlF, HFU.
    assert (HFU' : Forall (fun y => In y U) F) by (eapply Forall_impl; [|exact HFU]; cbn beta; tauto).
    pose proof (lsorted F _ HlF HFU') as HSF.
    assert (Ewk : world_after c k wj = world_after c (mm + k) w) by (rewrite Ewj; apply wafter_add).
    assert (EL : last F Lj = libblk a (Fin ++ F)) by (symmetry; apply libblk_last).
    assert (HLjU : In Lj U).
    { destruct HLX as (_ & [Vj HXj] & _). destruct (vstatex_rev U first kept U_id U_uniq U_up a Fin A _ Vj HXj) as (_ & _ & _ & _ & H & _). exact H. }
    destruct P0 as [|b0 P0' _] using rev_ind.
    - (* nothing delivered before: everything the hub finalises is delivered *)
      cbn [app]. exists F. split; [apply records_none; exact HSF|]. split; [exists (bid Lj); exact HlF|].
      intros Hdone. exists (final_lib c w). split; [lia|].
      destruct (x_cons_last Lj F) as [l' El']. rewrite EL in El'.
      assert (H : from_num start (l' ++ [libblk a (Fin ++ F)]) = seg_num start (final_lib c w) canon).
      { apply (n_end_complete (world_after c k wj) a (Fin ++ F) A (mm + k)%nat l' Ewk HLXe Hdone).
        - exists (bparent Lj). rewrite <- El'. cbn [lnk]. auto.
        - rewrite <- El'. constructor; [exact HLjU | exact HFU'].
        - rewrite <- El'. intros z r Ez. injection Ez as <- _. lia. }
      rewrite <- El' in H. rewrite <- H. unfold from_num. cbn [filter].
      replace (start <=? bnum Lj) with false by (symmetry; apply N.leb_gt; exact HP0). reflexivity.
    - (* P0' ++ [b0] delivered, b0 the last block *)
      assert (HP0' : (forall z r, P0' ++ [b0] = z :: r -> bnum z <= start) /\
                     (b0 = Lj \/ (In b0 canon /\ bnum Lj <= bnum b0))).
      { destruct (P0' ++ [b0]) as [|z r] eqn:E; [destruct P0'; discriminate|]. destruct HP0 as [H1 H2].
        split; [intros z' r' E'; injection E' as <- _; exact H1|]. rewrite <- E, last_last in H2. exact H2. }
      clear HP0. destruct HP0' as [Hbot Hp]. set (p := b0) in *.
      assert (HpU : In p U) by (rewrite Forall_forall in HPU; apply HPU; apply in_or_app; right; left; reflexivity).
      pose proof (lsorted _ _ HlP HPU) as HSP.
      destruct (sorted_split_above (bnum p) F HSF) as (F1 & F2 & EF12 & HF1 & HF2 & Hfil).
      assert (Erec : records None ((P0' ++ [p]) ++ F) = (P0' ++ [p]) ++ F2).
      { rewrite (records_app_kept P0' p None F HSP I), (records_filter (bnum p) F HSF), Hfil. reflexivity. }
      (* the first block the hub finalises above p is its child *)
      assert (Hchild : forall f F2', F2 = f :: F2' -> bparent f = bid p /\ lnk (bid f) F2').
      { intros f F2' E2. rewrite E2 in HF2, EF12. clear Hfil Erec.
        assert (Hfgt : bnum p < bnum f) by exact (Forall_inv HF2).
        assert (Hlf : lnk (bid Lj) (F1 ++ f :: F2')) by (rewrite <- EF12; exact HlF).
        assert (Hfpar : bparent f = tip (bid Lj) F1) by exact (linked_mid _ _ _ _ Hlf).
        split; [|apply linked_app_iff in Hlf as [_ H]; cbn [lnk] in H; tauto].
        destruct Hp as [EpL|[Hpc HLp]].
        - destruct F1 as [|q1 F1']; [rewrite Hfpar, EpL; reflexivity|]. exfalso.
          pose proof (Forall_inv HF1) as H1. cbn beta in H1.
          assert (H2 : bnum Lj < bnum q1).
          { rewrite Forall_forall in HFU. apply HFU. rewrite EF12. left. reflexivity. }
          rewrite EpL in H1. lia.
        - destruct (chain_of_run (world_after c k wj) a (Fin ++ F) A (mm + k)%nat Ewk HLXe) as (C & HlC & HCU & HcC & HFC).
          destruct HLX as (_ & [Vj HXj] & _).
          destruct (vstatex_rev U first kept U_id U_uniq U_up a Fin A _ Vj HXj) as (prej & _ & EAFj & _ & _ & _). fold Lj in EAFj.
          assert (HinW : forall y, In y (Lj :: F) -> In y C).
          { intros y Hy. apply HFC. rewrite app_assoc. destruct Hy as [<-|Hy].
            - apply in_or_app. left. rewrite EAFj. apply in_or_app. right. left. reflexivity.
            - apply in_or_app. right. exact Hy. }
          assert (HfC : In f C) by (apply HinW; right; rewrite EF12; apply in_or_app; right; left; reflexivity).
          assert (HpC : In p C) by (apply HcC; exact Hpc).
          destruct F1 as [|q1 F1' _] using rev_ind.
          + assert (E : Lj = p).
            { apply (child_on_chain U c U_id U_uniq U_up D_decl C p Lj f HlC HCU HpC (HinW Lj (or_introl eq_refl)) HfC Hfpar HLp Hfgt). }
            rewrite Hfpar. cbn. rewrite E. reflexivity.
          + rewrite tip_snoc in Hfpar.
            assert (Hq1 : bnum q1 <= bnum p).
            { rewrite Forall_forall in HF1. apply HF1. apply in_or_app. right. left. reflexivity. }
            assert (Hq1C : In q1 C).
            { apply HinW. right. rewrite EF12. apply in_or_app. left. apply in_or_app. right. left. reflexivity. }
            assert (E : q1 = p) by (apply (child_on_chain U c U_id U_uniq U_up D_decl C p q1 f HlC HCU HpC Hq1C HfC Hfpar Hq1 Hfgt)).
            rewrite Hfpar, E. reflexivity. }
      assert (HlBd : lnk x0 ((P0' ++ [p]) ++ F2)).
      { apply linked_app_iff. split; [exact HlP|]. rewrite tip_snoc. destruct F2 as [|f F2']; [exact I|].
        destruct (Hchild f F2' eq_refl) as [H1 H2]. cbn [lnk]. auto. }
      assert (HF2U : Forall (fun y => In y U) F2) by (rewrite EF12 in HFU'; apply Forall_app in HFU' as [_ H]; exact H).
      assert (HBdU : Forall (fun y => In y U) ((P0' ++ [p]) ++ F2)) by (apply Forall_app; split; assumption).
      exists ((P0' ++ [p]) ++ F2). split; [exact Erec|]. split; [exists x0; exact HlBd|].
      intros Hdone.
      pose proof (g_final_lib_at U c w U_id U_uniq U_up (world_after c k wj) a (Fin ++ F) A (mm + k)%nat Ewk HLXe Hdone) as Eflib.
      rewrite <- EL in Eflib.
      assert (HbotBd : forall z r, (P0' ++ [p]) ++ F2 = z :: r -> bnum z <= start).
      { intros z r Ez. destruct (P0' ++ [p]) as [|z0 r0] eqn:E0; [destruct P0'; discriminate|].
        cbn [app] in Ez. injection Ez as <- _. exact (Hbot z0 r0 eq_refl). }
      destruct F2 as [|f F2'].
      + (* nothing above p was finalised *)
        rewrite app_nil_r in *.
        assert (Hflp : final_lib c w <= bnum p).
        { rewrite Eflib, EF12. destruct F1 as [|q1 F1' _] using rev_ind.
          - cbn [last]. destruct Hp as [E|[_ H]]; [rewrite E; lia | exact H].
          - rewrite last_last. rewrite Forall_forall in HF1. apply HF1. apply in_or_app. right. left. reflexivity. }
        exists (bnum p). split; [exact Hflp|].
        destruct Hp as [E|[Hpc _]].
        * assert (EF0 : F = []).
          { rewrite EF12. destruct F1 as [|q1 F1']; [reflexivity|]. exfalso.
            pose proof (Forall_inv HF1) as H1. cbn beta in H1.
            assert (H2 : bnum Lj < bnum q1) by (rewrite Forall_forall in HFU; apply HFU; rewrite EF12; left; reflexivity).
            rewrite E in H1. lia. }
          rewrite EF0, app_nil_r in HLXe.
          pose proof (n_end_complete (world_after c k wj) a Fin A (mm + k)%nat P0' Ewk HLXe Hdone) as H. cbv zeta in H.
          fold Lj in H. rewrite <- E in H.
          rewrite (g_final_lib_at U c w U_id U_uniq U_up (world_after c k wj) a Fin A (mm + k)%nat Ewk HLXe Hdone) in H. fold Lj in H. rewrite <- E in H.
          apply H; [exists x0; exact HlP | exact HPU | exact Hbot].
        * apply (top_on_canon U canon start U_id U_uniq U_up HcU Hcl Hsl P0' p (ex_intro _ x0 HlP) HPU Hbot Hpc).
      + (* the run ends with the hub's last LIB block *)
        exists (final_lib c w). split; [lia|].
        destruct (x_cons_last f F2') as [l' El'].
        assert (ELk : last F2' f = libblk a (Fin ++ F)).
        { rewrite <- EL, EF12, last_app_ne' by discriminate. symmetry. apply last_shift. }
        rewrite ELk in El'.
        assert (Eall : (P0' ++ [p]) ++ f :: F2' = ((P0' ++ [p]) ++ l') ++ [libblk a (Fin ++ F)]).
        { rewrite El'. apply app_assoc. }
        rewrite Eall.
        apply (n_end_complete (world_after c k wj) a (Fin ++ F) A (mm + k)%nat ((P0' ++ [p]) ++ l') Ewk HLXe Hdone).
        * exists x0. rewrite <- Eall. exact HlBd.
        * rewrite <- Eall. exact HBdU.
        * rewrite <- Eall. exact HbotBd.
  Qed.
End FinalNone.

(* ------------------------------------------------------------------ the hub's answer "through a final cursor" *)

Section ThroughFinal.
  Variable U : list block.
  Variables first kept : N.
  Hypothesis U_id : forall b, In b U -> bid b <> 0 /\ bid b <> bparent b.
  Hypothesis U_uniq : forall x y, In x U -> In y U -> bid x = bid y -> x = y.
  Hypothesis U_up : forall x y, In x U -> In y U -> bparent x = bid y -> bnum y < bnum x.

  (* cursor LIB = cursor block (a final cursor): the answer is never the "cursor block stored off the chain" branch (it
     needs blocks_from_cursor, hence the cursor LIB on the head's segment); it is the part of the segment numbered >= n *)
  Lemma through_final_shape s V n cu burst :
    VState U first kept s V -> cu_lib cu = cu_blk cu ->
    hub_through_cursor s n cu = BOk burst ->
    exists hd sg pre post,
      last_sent s = Some hd /\ complete_segment (db s) (bref hd) = Some (sg, true) /\ good_seg sg /\
      sg = pre ++ post /\ (forall y, In y pre -> snum y < n) /\ (forall y, In y post -> n <= snum y) /\
      burst = map (snap_event s hd) post /\
      (pre = [] -> post <> [] -> exists x0 r, post = x0 :: r /\ snum x0 = n).
  Proof.
    intros HV Hfc Hb.
    destruct (vstate_facts U first kept U_id U_uniq U_up s V HV) as (_ & _ & W & hd & Hls & _).
    (* the cursor block is on the head's segment whenever the segment is asked *)
    assert (Hon : rn (cu_blk cu) <? n = false ->
              forall hd' sg', last_sent s = Some hd' -> complete_segment (db s) (bref hd') = Some (sg', true) ->
                find (ri (cu_blk cu)) (store (db s)) <> None -> block_in (ri (cu_blk cu)) sg' = true).
    { intros En hd' sg' Hls' Eseg' _. rewrite Hls in Hls'. injection Hls' as <-.
      destruct (block_in (ri (cu_blk cu)) sg') eqn:Eblk; [reflexivity|]. exfalso.
      unfold hub_through_cursor in Hb. rewrite En in Hb. unfold blocks_through_cursor in Hb.
      destruct (has_lib (db s)); [|discriminate]. cbn [negb] in Hb. rewrite Hls, Eseg' in Hb.
      destruct sg' as [|s0 sg0]; [discriminate|].
      destruct (n <? snum s0); [discriminate|]. rewrite Eblk in Hb.
      destruct (complete_segment (db s) (cu_blk cu)) as [[csg [|]]|]; try discriminate.
      2:{ destruct csg; discriminate. }
      destruct csg as [|c0 csg0]; [discriminate|].
      destruct (n <? snum c0); [discriminate|].
      destruct (through_branch (c0 :: csg0) n cu hd []); [|discriminate].
      destruct (blocks_from_cursor s cu) as [evs| | |] eqn:Ebc; try discriminate.
      destruct (c05_no_lib_no_source_proof s cu) as (_ & _ & _ & _ & H5).
      exact (H5 hd (s0 :: sg0) Hls Eseg' (eq_ind_r (fun r => block_in (ri r) (s0 :: sg0) = false) Eblk Hfc) evs Ebc). }
    destruct (rn (cu_blk cu) <? n) eqn:En.
    - (* the cursor block lies below n: as from a block number *)
      unfold hub_through_cursor in Hb. rewrite En in Hb.
      pose proof (c09_from_num_proof s n W) as Hspec. unfold from_num_spec in Hspec. rewrite Hb in Hspec.
      destruct Hspec as (hd' & sg & pre & x & suf & (_ & Hls' & Eseg & Hsg & Hnx & Hpre & Hsuf) & Hevs & _).
      rewrite Hls in Hls'. injection Hls' as <-.
      destruct (vstate_segment U first kept U_id U_uniq U_up s V hd sg true HV Hls Eseg) as (Hgood & _ & _).
      pose proof Hgood as [Hstd _ _ _].
      assert (Hn : forall y, In y sg -> snum y = bnum (seg_blk y)).
      { intros y Hy. rewrite Forall_forall in Hstd. exact (proj2 (Hstd y Hy)). }
      exists hd, sg, pre, (x :: suf). split; [exact Hls|]. split; [exact Eseg|]. split; [exact Hgood|]. split; [exact Hsg|].
      split; [|split; [|split; [exact Hevs|]]].
      + intros y Hy. rewrite (Hn y); [apply Hpre; exact Hy | rewrite Hsg; apply in_or_app; left; exact Hy].
      + intros y [<-|Hy].
        * rewrite (Hn x); [lia | rewrite Hsg; apply in_or_app; right; left; reflexivity].
        * rewrite (Hn y); [specialize (Hsuf y Hy); lia | rewrite Hsg; apply in_or_app; right; right; exact Hy].
      + intros _ _. exists x, suf. split; [reflexivity|]. rewrite (Hn x); [exact Hnx | rewrite Hsg; apply in_or_app; right; left; reflexivity].
    - destruct (hub_through_shape U first kept U_id U_uniq U_up s V n cu burst HV (Hon eq_refl) Hb)
        as (hd' & sg & pre & post & H1 & H2 & H3 & H4 & H5 & H6 & H7 & H8 & _).
      exists hd', sg, pre, post. repeat (split; [assumption|]). exact H8.
  Qed.
End ThroughFinal.

(* ------------------------------------------------------------------ canonical blocks up to the hub's LIB are on its segment *)

Section SegCanon.
  Variable U : list block.
  Variable c : jcfg.
  Variable canon : list block.
  Variable w : world.

  Hypothesis U_id : forall b, In b U -> bid b <> 0 /\ bid b <> bparent b.
  Hypothesis U_uniq : forall x y, In x U -> In y U -> bid x = bid y -> x = y.
  Hypothesis U_up : forall x y, In x U -> In y U -> bparent x = bid y -> bnum y < bnum x.
  Hypothesis D_decl : forall b, In b U -> decl_none U b.
  Hypothesis HcU : Forall (fun x => In x U) canon.
  Hypothesis Hcl : exists x, lnk x canon.
  Hypothesis Htip : eventual_tip c w canon.

  Let first := j_first c.
  Let kept := j_kept c.

  Lemma seg_on_canon wk mm a Fin A V hd sg s0 r b :
    wk = world_after c mm w -> LOKX U c a Fin A wk ->
    VStateX U first kept a Fin A (h_f (w_hub wk)) V ->
    last_sent (h_f (w_hub wk)) = Some hd -> complete_segment (db (h_f (w_hub wk))) (bref hd) = Some (sg, true) ->
    sg = s0 :: r -> In b canon -> snum s0 <= bnum b -> bnum b <= bnum (libblk a Fin) ->
    exists x, In x sg /\ seg_blk x = b.
  Proof.
    intros Ewk HLX HX Hls Eseg Esg Hbc Hlo Hhi. set (Lj := libblk a Fin) in *.
    destruct (vstatex_segment U first kept U_id U_uniq U_up a Fin A _ V hd sg HX Hls Eseg) as (lo & xLj & hi & Hsplit & HbLj & _ & Hgood & HsU). fold Lj in HbLj.
    destruct Hgood as [Hstd Hlk Hinc Hnd].
    destruct (seg_linked_all sg Hlk Hstd) as [y Hly].
    assert (HS : lnk y (map seg_blk lo ++ [Lj])).
    { rewrite Hsplit, map_app in Hly. cbn [map] in Hly. rewrite HbLj in Hly.
      change (Lj :: map seg_blk hi) with ([Lj] ++ map seg_blk hi) in Hly. rewrite app_assoc in Hly. eapply linked_prefix. exact Hly. }
    assert (HSU : Forall (fun z => In z U) (map seg_blk lo ++ [Lj])).
    { apply Forall_forall. intros z Hz. rewrite Forall_forall in HsU. apply in_app_or in Hz as [Hz|[<-|[]]].
      - apply in_map_iff in Hz as (q & <- & Hq). apply HsU. rewrite Hsplit. apply in_or_app. left. exact Hq.
      - rewrite <- HbLj. apply HsU. rewrite Hsplit. apply in_or_app. right. left. reflexivity. }
    destruct (chain_of_run U c canon w U_id U_uniq U_up D_decl HcU Hcl Htip wk a Fin A mm Ewk HLX) as (C & [xc HlC] & HCU & HcC & HFC).
    destruct (vstatex_rev U first kept U_id U_uniq U_up a Fin A _ V HX) as (prej & _ & EAF & _ & _ & _). fold Lj in EAF.
    assert (HLjC : In Lj C) by (apply HFC; rewrite EAF; apply in_or_app; right; left; reflexivity).
    pose proof (lnk_sorted U U_id U_uniq U_up C xc HlC HCU) as HSC.
    apply in_split in HLjC as (c1 & c2 & EC).
    destruct (StronglySorted_split blt c1 Lj c2 (eq_ind _ _ HSC _ EC)) as [Hc1 Hc2].
    assert (Hl1 : lnk xc (c1 ++ [Lj])).
    { rewrite EC in HlC. change (Lj :: c2) with ([Lj] ++ c2) in HlC. rewrite app_assoc in HlC. eapply linked_prefix. exact HlC. }
    assert (H1U : Forall (fun z => In z U) (c1 ++ [Lj])).
    { rewrite EC in HCU. change (Lj :: c2) with ([Lj] ++ c2) in HCU. rewrite app_assoc in HCU. apply Forall_app in HCU as [H _]. exact H. }
    (* b lies at or before Lj on C *)
    assert (Hb1 : In b (c1 ++ [Lj])).
    { pose proof (HcC b Hbc) as HbC. rewrite EC in HbC. apply in_app_or in HbC as [H|[H|H]].
      - apply in_or_app. left. exact H.
      - apply in_or_app. right. left. exact H.
      - specialize (Hc2 b H). unfold blt in Hc2. lia. }
    (* the first block of the segment *)
    assert (Es0 : exists t, map seg_blk lo ++ [Lj] = seg_blk s0 :: t).
    { rewrite Hsplit in Esg. destruct lo as [|l0 lo']; cbn [app map] in *; injection Esg as E _; [rewrite <- E, HbLj | rewrite <- E]; eauto. }
    destruct Es0 as [t Es0].
    assert (Hs0n : snum s0 = bnum (seg_blk s0)).
    { rewrite Forall_forall in Hstd. apply Hstd. rewrite Esg. left. reflexivity. }
    assert (HbS : In b (map seg_blk lo ++ [Lj])).
    { destruct (linked_same_end U U_uniq (map seg_blk lo) c1 y xc Lj HS Hl1 HSU H1U) as [[d Hd]|[d Hd]].
      - rewrite Hd, <- app_assoc. apply in_or_app. right. exact Hb1.
      - rewrite Hd, <- app_assoc in Hb1. apply in_app_or in Hb1 as [Hbd|Hb1]; [|exact Hb1]. exfalso.
        (* d lies below the segment's first block *)
        assert (HSC' : StronglySorted blt (d ++ (seg_blk s0 :: t) ++ c2)).
        { rewrite <- Es0. replace (d ++ (map seg_blk lo ++ [Lj]) ++ c2) with C; [exact HSC|]. rewrite EC, Hd, <- !app_assoc. reflexivity. }
        clear HSC. rename HSC' into HSC.
        apply in_split in Hbd as (d1 & d2 & Ed). rewrite Ed, <- app_assoc in HSC. cbn [app] in HSC.
        destruct (StronglySorted_split blt d1 b (d2 ++ (seg_blk s0 :: t) ++ c2) HSC) as [_ HB].
        specialize (HB (seg_blk s0)). unfold blt in HB.
        assert (Hin : In (seg_blk s0) (d2 ++ (seg_blk s0 :: t) ++ c2)) by (apply in_or_app; right; left; reflexivity).
        specialize (HB Hin). lia. }
    apply in_app_or in HbS as [H|[H|[]]].
    - apply in_map_iff in H as (x & Ex & Hx). exists x. split; [rewrite Hsplit; apply in_or_app; left; exact Hx | exact Ex].
    - exists xLj. split; [rewrite Hsplit; apply in_or_app; right; left; reflexivity | rewrite HbLj; exact H].
  Qed.

  (* the new+irreversible part of an answer "through a final cursor" for the number n of a canonical block b *)
  Lemma through_irr wk mm a Fin A V n cu burst :
    wk = world_after c mm w -> LOKX U c a Fin A wk ->
    VStateX U first kept a Fin A (h_f (w_hub wk)) V -> cu_lib cu = cu_blk cu ->
    hub_through_cursor (h_f (w_hub wk)) n cu = BOk burst ->
    let Lj := libblk a Fin in
    (bnum Lj < n -> filter irr_ev burst = []) /\
    (forall b, In b canon -> bnum b = n -> n <= bnum Lj ->
       exists q1 t, map eblk (filter irr_ev burst) = q1 ++ [Lj] /\ q1 ++ [Lj] = b :: t /\
                    lnk (bparent b) (q1 ++ [Lj]) /\ Forall (fun z => In z U) (q1 ++ [Lj])).
  Proof.
    intros Ewk HLX HX Hfc Hb Lj. set (s := h_f (w_hub wk)) in *.
    pose proof (vstatex_vstate U first kept a Fin A s V HX) as HV.
    destruct (through_final_shape U first kept U_id U_uniq U_up s V n cu burst HV Hfc Hb)
      as (hd & sg & pre & post & Hls & Eseg & Hgood & Hsg & Hpre & Hpost & Hevs & Hfirst).
    destruct (vstatex_rev U first kept U_id U_uniq U_up a Fin A s V HX) as (_ & _ & _ & _ & _ & Hlib).
    assert (Hm : rn (libref (db s)) = bnum Lj) by (rewrite Hlib; reflexivity).
    pose proof Hgood as [Hstd _ Hinc _].
    assert (Hn : forall y, In y sg -> snum y = bnum (seg_blk y)).
    { intros y Hy. rewrite Forall_forall in Hstd. exact (proj2 (Hstd y Hy)). }
    assert (Hirr : map eblk (filter irr_ev burst) = filter (fun z => bnum z <=? bnum Lj) (map seg_blk post)).
    { rewrite Hevs, filter_irr_snap, Hm. reflexivity. }
    split.
    - intros Hlt. assert (H : map eblk (filter irr_ev burst) = []).
      { rewrite Hirr. apply C06_Lists.filter_none. apply Forall_forall. intros z Hz.
        apply in_map_iff in Hz as (q & <- & Hq). apply N.leb_gt.
        rewrite <- (Hn q); [specialize (Hpost q Hq); lia | rewrite Hsg; apply in_or_app; right; exact Hq]. }
      destruct (filter irr_ev burst); [reflexivity | discriminate].
    - intros b Hbc Hbn Hle.
      destruct (vstate_segment U first kept U_id U_uniq U_up s V hd sg true HV Hls Eseg) as (_ & HsU & pz & z & Hsgz & _).
      destruct sg as [|s0 r] eqn:Esg0; [destruct pz; discriminate|]. rewrite <- Esg0 in *.
      (* the segment starts at or below n *)
      assert (Hs0 : snum s0 <= n).
      { destruct pre as [|p0 pre0].
        - cbn [app] in Hsg. destruct post as [|x0 post0]; [rewrite Esg0 in Hsg; discriminate|].
          destruct (Hfirst eq_refl ltac:(discriminate)) as (x0' & r' & E & Hx0). injection E as <- <-.
          rewrite Esg0 in Hsg. injection Hsg as -> _. lia.
        - rewrite Esg0 in Hsg. cbn [app] in Hsg. injection Hsg as -> _. specialize (Hpre p0 (or_introl eq_refl)). lia. }
      destruct (seg_on_canon wk mm a Fin A V hd sg s0 r b Ewk HLX HX Hls Eseg Esg0 Hbc ltac:(lia) ltac:(fold Lj; lia)) as (x & Hx & Exb).
      assert (Hxn : snum x = n) by (rewrite (Hn x Hx), Exb; exact Hbn).
      (* x is the first element of the answer *)
      assert (Hxpost : exists suf, post = x :: suf).
      { rewrite Hsg in Hx. apply in_app_or in Hx as [Hx|Hx]; [specialize (Hpre x Hx); lia|].
        apply in_split in Hx as (p1 & p2 & Ep). destruct p1 as [|y p1']; [exists p2; exact Ep|]. exfalso.
        assert (Hy : n <= snum y) by (apply Hpost; rewrite Ep; left; reflexivity).
        assert (Hyin : In y sg) by (rewrite Hsg, Ep; apply in_or_app; right; left; reflexivity).
        pose proof (Hn y Hyin) as Hyn.
        rewrite Hsg, Ep in Hinc. apply StronglySorted_app_r in Hinc. cbn [app] in Hinc. inversion Hinc as [|? ? _ Hall]; subst.
        rewrite Forall_forall in Hall. assert (Hin : In x (p1' ++ x :: p2)) by (apply in_or_app; right; left; reflexivity).
        specialize (Hall x Hin). unfold seg_lt in Hall. lia. }
      destruct Hxpost as [suf Epost]. rewrite Epost in Hsg, Hirr.
      destruct (good_seg_split sg pre x suf Hgood Hsg) as (_ & _ & Hstdx & Hlkx).
      assert (HpU : Forall (fun z => In z U) (map seg_blk (x :: suf))).
      { apply Forall_forall. intros z0 Hz. apply in_map_iff in Hz as (q & <- & Hq). rewrite Forall_forall in HsU. apply HsU.
        rewrite Hsg. apply in_or_app. right. exact Hq. }
      assert (Hlsuf : lnk (bid b) (map seg_blk suf)).
      { pose proof (Forall_inv Hstdx) as [Hx1 _]. rewrite <- Exb, <- Hx1. apply seg_linked; assumption. }
      cbn [map] in Hirr, HpU. rewrite Exb in Hirr, HpU.
      assert (Hlall : lnk (bparent b) (b :: map seg_blk suf)) by (cbn [lnk]; auto).
      pose proof (lnk_sorted U U_id U_uniq U_up _ _ Hlall HpU) as HSB.
      (* the LIB block is in the answer *)
      destruct (vstatex_segment U first kept U_id U_uniq U_up a Fin A s V hd sg HX Hls Eseg) as (lo & xLj & hi & Hsplit & HbLj & _).
      assert (HLjin : In Lj (b :: map seg_blk suf)).
      { assert (HxLj : In xLj sg) by (rewrite Hsplit; apply in_or_app; right; left; reflexivity).
        assert (HxLjn : snum xLj = bnum Lj) by (rewrite (Hn xLj HxLj), HbLj; reflexivity).
        rewrite Hsg in HxLj. apply in_app_or in HxLj as [H|H]; [specialize (Hpre xLj H); lia|].
        fold Lj in HbLj. rewrite <- HbLj, <- Exb. change (seg_blk x :: map seg_blk suf) with (map seg_blk (x :: suf)). apply in_map. exact H. }
      apply in_split in HLjin as (q1 & q2 & Eq).
      exists q1. rewrite Eq in Hirr, HSB, Hlall, HpU.
      assert (Et : exists t, q1 ++ [Lj] = b :: t).
      { destruct q1 as [|q0 q1']; cbn [app] in Eq |- *; injection Eq as E _; rewrite <- E; eauto. }
      destruct Et as [t Et]. exists t.
      split; [rewrite Hirr; apply sorted_filter_le; exact HSB|]. split; [exact Et|].
      change (Lj :: q2) with ([Lj] ++ q2) in Hlall, HpU. rewrite app_assoc in Hlall, HpU.
      split; [eapply linked_prefix; exact Hlall | apply Forall_app in HpU as [H _]; exact H].
  Qed.
End SegCanon.
