(* C13 over whole runs from the run shapes (Proofs/C07_Shapes.v). *)
From BV Require Import Base.Prelude Model.Block Model.ForkDB Model.Forkable Model.ForkableLookups
  Model.Burst Model.Hub Model.CursorResolver Model.Joining
  Spec.Consumer Check.Burst_Check Check.C07_Check Spec.C06_Spec Spec.C07_Spec Spec.C13_Spec
  Spec.C07_Compose_Spec Spec.C07_Shapes_Spec Spec.C07_More_Spec Spec.C13_More_Spec
  Proofs.C07_File Proofs.C07_Live Proofs.C13_Proofs Proofs.C07_ComposeStack Proofs.C07_Shapes Proofs.C07_ChainFacts.
Local Open Scope N_scope.

Lemma seen_nil c : seen c [] = [].
Proof. unfold seen. destruct (j_filter c =? 1); reflexivity. Qed.

Lemma c13_run_over_raw_proof : C13_run_over_raw.
Proof.
  intros c w ps merged_end merged forked res _.
  pose proof (c07_run_shapes_proof c w ps merged_end merged forked) as Hsh. cbv zeta in Hsh. fold res in Hsh.
  destruct Hsh as [[_ Hr]|[_ [(burst & k & _ & Hro)|[[_ Hr]|[_ [(pre & e & rest & m & lowest & burst & k & _ & _ & _ & Hro)|Hfo]]]]]].
  - exists []. right. right. auto.
  - eexists. left. left. eexists. exact Hro.
  - exists []. right. left. auto.
  - eexists. left. left. eexists. exact Hro.
  - eexists. left. right. eexists. exact Hfo.
Qed.

Lemma stop_split c X (res : list event * jerr) : snd (upto_stop c X) = true -> fst res = fst (upto_stop c X) ->
  exists X1 e X2, X = X1 ++ e :: X2 /\ passes c e = true /\ j_stop c <= enum e /\
    Forall (fun x => passes c x = true -> enum x < j_stop c) X1 /\
    fst res = filter (passes c) X1 ++ (if enum e =? j_stop c then [e] else []).
Proof.
  intros Hs Hf. destruct (upto_stop_split c X Hs) as (X1 & e & X2 & EX & Hns & Hse & Hfu).
  destruct (stops_true c e Hse) as (Hp & H0 & Hge & Hd).
  exists X1, e, X2. split; [exact EX|]. split; [exact Hp|]. split; [exact Hge|]. split.
  - pose proof (upto_stop_nostop c X1 Hns) as Hall. eapply Forall_impl; [|exact Hall]. cbn beta.
    intros x Hx Hpx. exact (stops_false_pass c x Hx Hpx H0).
  - rewrite Hf, Hfu, (delivered_nostop c X1 Hns), Hd. reflexivity.
Qed.

Lemma run_files_stop c start me merged forked : snd (run_files c start me merged forked) = JStop ->
  j_stop c <> 0 /\ (j_stop c / j_bundle c + 1) * j_bundle c <= me.
Proof.
  unfold run_files. match goal with |- snd (let '(_, _) := ?X in _) = _ -> _ => destruct X as [fevs r] end. cbn [snd].
  destruct r; try discriminate. apply file_end_stop.
Qed.

Lemma c13_stop_over_raw_proof : C13_stop_over_raw.
Proof.
  intros c w ps merged_end merged forked Hne res Hr.
  pose proof (c07_run_shapes_proof c w ps merged_end merged forked) as Hsh. cbv zeta in Hsh. fold res in Hsh.
  assert (Hseen : forall X, seen c X = X) by (intros X; apply seen_stateless; exact Hne).
  assert (Hraw : forall X P, raw_out c X res P ->
            exists X1 e X2, passes c e = true /\ j_stop c <= enum e /\
              Forall (fun x => passes c x = true -> enum x < j_stop c) X1 /\
              fst res = filter (passes c) X1 ++ (if enum e =? j_stop c then [e] else []) /\
              chain_over c (X1 ++ e :: X2) res).
  { intros X P Hro. pose proof Hro as Hro'. unfold raw_out in Hro'. rewrite Hr in Hro'. destruct Hro' as (Hs & Hf).
    destruct (stop_split c X res Hs Hf) as (X1 & e & X2 & EX & H1 & H2 & H3 & H4).
    exists X1, e, X2. split; [exact H1|]. split; [exact H2|]. split; [exact H3|]. split; [exact H4|].
    left. exists P. rewrite <- EX. exact Hro. }
  destruct Hsh as [[_ Hr']|[_ [(burst & k & _ & Hro)|[[_ Hr']|[_ [(pre & e & rest & m & lowest & burst & k & _ & _ & _ & Hro)|Hfo]]]]]].
  - rewrite Hr' in Hr. discriminate.
  - rewrite Hseen in Hro. left. exact (Hraw _ _ Hro).
  - rewrite Hr' in Hr. discriminate.
  - rewrite Hseen in Hro. left. exact (Hraw _ _ Hro).
  - rewrite Hseen in Hfo. destruct Hfo as [[Hns Hr']|[Hs Hr']].
    + right. rewrite Hr' in Hr. cbn [snd] in Hr. exact (run_files_stop c _ merged_end merged forked Hr).
    + left. set (X := fst (run_files c (run_start c w) merged_end merged forked)) in *.
      assert (Hf : fst res = fst (upto_stop c X)) by (rewrite Hr'; reflexivity).
      destruct (stop_split c X res Hs Hf) as (X1 & e & X2 & EX & H1 & H2 & H3 & H4).
      exists X1, e, X2. split; [exact H1|]. split; [exact H2|]. split; [exact H3|]. split; [exact H4|].
      right. exists JNil. rewrite <- EX. right. split; [exact Hs | exact Hr'].
Qed.
