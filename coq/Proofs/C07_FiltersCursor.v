(* C07, cursor mode, filters with New and Undo and any stop block (C07_seamless_cursor_nu of Spec/C07_More_Spec.v):
   the run shapes (C07_Shapes.v) with C06's output (cursor_events of C07_ComposeCursor.v, for the files read up to the
   bundle of the stop block), the raw-sequence lemmas of C07_Filters.v, and C05's burst when the hub serves the cursor
   (cursor_burst, cursor_live_rel). *)
From Coq Require Import Sorted.
From BV Require Import Base.Prelude Model.Block Model.ForkDB Model.Forkable Model.ForkableLookups Model.Burst Model.Hub
  Model.CursorResolver Model.Joining
  Spec.Consumer Spec.Universe Check.Fk_Check Check.Burst_Check Check.C07_Check
  Spec.C09_Spec Spec.C05_Spec Spec.C06_Spec Spec.C07_Spec Spec.C13_Spec Spec.C07_Compose_Spec Spec.C07_Shapes_Spec Spec.C07_More_Spec Spec.C13_More_Spec
  Spec.C01_Spec Spec.C01_Moving_Spec Spec.C01_Roots_Spec
  Proofs.C06_Lists Proofs.C06_Proofs Proofs.C06_Forked Proofs.C06_Consumer Proofs.C13_Proofs
  Proofs.Fk.LoopFacts Proofs.Fk.MovingLibDisc Proofs.C02_Proofs Proofs.C01_Roots_Proofs
  Proofs.Hub.ConsFacts Proofs.Hub.HubFed Proofs.Hub.LinkedRuns Proofs.Hub.C09_History
  Proofs.C07_File Proofs.C07_Live
  Proofs.C07_ComposeStack Proofs.C07_ComposeHub Proofs.C07_ComposeRun Proofs.C07_Compose
  Proofs.C07_ComposeCursor Proofs.C07_ComposeCursorLive Proofs.C07_ComposeCursorAll
  Proofs.C07_Raw Proofs.C07_Shapes Proofs.C07_Filters Proofs.C07_ChainFacts Proofs.C07_Disc Proofs.C07_FiltersNum.
Local Open Scope N_scope.

Lemma filter_filter {A} (p q : A -> bool) : forall l, filter p (filter q l) = filter (fun x => q x && p x) l.
Proof.
  induction l as [|x l IH]; [reflexivity|]. cbn [filter]. destruct (q x); cbn [filter andb]; [destruct (p x)|]; rewrite ?IH; reflexivity.
Qed.

(* an event that matches New in  P ++ map fev later = pre ++ e :: rest, P without such events, lies in the file blocks *)
Lemma new_in_files P later pre e rest :
  Forall (fun x => matches_new (estep x) = false) P -> matches_new (estep e) = true ->
  P ++ map fev later = pre ++ e :: rest ->
  exists Dpre bn D', later = Dpre ++ bn :: D' /\ pre = P ++ map fev Dpre /\ e = fev bn.
Proof.
  intros HP He E. apply app_eq_app in E as [l [[E1 E2]|[E1 E2]]].
  - (* P = pre ++ l *)
    destruct l as [|x l].
    + cbn [app] in E2. rewrite app_nil_r in E1. subst pre. symmetry in E2. apply map_eq_cons in E2 as (bn & D' & -> & <- & _).
      exists [], bn, D'. cbn [map app]. rewrite app_nil_r. auto.
    + cbn [app] in E2. injection E2 as <- _. exfalso. rewrite E1 in HP. apply Forall_app in HP as [_ HP].
      rewrite (Forall_inv HP) in He. discriminate.
  - apply map_eq_app in E2 as (Dpre & D2 & -> & <- & E3). apply map_eq_cons in E3 as (bn & D' & -> & <- & _).
    exists Dpre, bn, D'. auto.
Qed.

Section CurRun.
  Variable U : list block.
  Variable c : jcfg.
  Variable w : world.
  Variable ps : list (N * N).
  Variable merged_end : N.
  Variables canon forked : list block.
  Variable cu : cursor.
  Variable L : block.
  Variables rest hc hf : list block.

  Hypothesis U_id : forall b, In b U -> bid b <> 0 /\ bid b <> bparent b.
  Hypothesis U_uniq : forall x y, In x U -> In y U -> bid x = bid y -> x = y.
  Hypothesis U_up : forall x y, In x U -> In y U -> bparent x = bid y -> bnum y < bnum x.
  Hypothesis D_decl : forall b, In b U -> decl_none U b.

  Hypothesis Hchain : chain_ok canon.
  Hypothesis Hincl : incl canon U.
  Hypothesis HW : WOK U c w.
  Hypothesis Htip : eventual_tip c w canon.
  Hypothesis Hmode : j_mode c = 1.
  Hypothesis Hcur : j_cursor c = Some cu.
  Hypothesis Hnu : has_nu (j_filter c) (j_custom c) = true.
  Hypothesis Hbundle : 0 < j_bundle c.

  Let merged := filter (fun b => bnum b <? merged_end) canon.
  Hypothesis Hbound : Forall (fun b => bnum b < file_bound) merged.

  Let lib := rn (cu_lib cu).
  Hypothesis Hfrom : from_num lib canon = L :: rest.
  Hypothesis HL : bref L = cu_lib cu.
  Hypothesis Hstate : cursor_state canon forked cu L hc hf.
  Hypothesis HhfU : Forall (fun x => In x U) hf.
  Hypothesis HXU : cu_step cu = SUndo -> exists X, In X U /\ bref X = cu_blk cu /\ branch_from L (hc ++ hf ++ [X]).

  Let res := stream_run c w ps merged_end merged forked.
  Let stopf := if j_stop c =? 0 then file_bound else j_stop c.
  Let bound := (stopf / j_bundle c + 1) * j_bundle c.
  Let mend := N.min merged_end bound.
  Let fend0 := file_end c merged_end.
  Let J0 := rev (hc ++ hf).
  (* the start block of the section lemmas: the first block after L *)
  Let start := match rest with r1 :: _ => bnum r1 | [] => bnum L end.

  Let HcU : Forall (fun x => In x U) canon.
  Proof. apply Forall_forall. exact Hincl. Qed.
  Let Hcl : exists x, lnk x canon := lnk_of_chain_ok canon Hchain.
  Let Hasc : asc canon := chain_ok_asc canon Hchain.
  Let HmU : forall b, In b merged -> In b U.
  Proof. intros b Hb. apply Hincl. unfold merged in Hb. apply filter_In in Hb as [Hb _]. exact Hb. Qed.
  Let ELn : bnum L = lib.
  Proof. destruct (bref_eq _ _ HL) as [_ E]. exact E. Qed.

  Lemma HLc : In L canon.
  Proof.
    assert (H : In L (from_num lib canon)) by (rewrite Hfrom; left; reflexivity).
    unfold from_num in H. apply filter_In in H as [H _]. exact H.
  Qed.

  Lemma Hrestc : forall x, In x rest -> In x canon.
  Proof.
    intros x Hx. assert (H : In x (from_num lib canon)) by (rewrite Hfrom; right; exact Hx).
    unfold from_num in H. apply filter_In in H as [H _]. exact H.
  Qed.

  Lemma Hstartblk : exists b, In b canon /\ bnum b <= start.
  Proof.
    pose proof HLc as H1. pose proof Hrestc as H2. unfold start. clear - H1 H2.
    destruct rest as [|r1 rest1]; [exists L; split; [exact H1 | lia]|].
    exists r1. split; [apply H2; left; reflexivity | lia].
  Qed.

  Lemma Hne1 : j_filter c <> 1.
  Proof. exact (has_nu_not_final c Hnu). Qed.

  (* the start point of the consumer: the first canonical block above L (one above L when there is none) *)
  Definition start' : N := match rest with r1 :: _ => bnum r1 | [] => bnum L + 1 end.

  Lemma HLs' : bnum L < start'.
  Proof.
    unfold start'. pose proof (asc_filter (fun b => lib <=? bnum b) canon Hasc) as Ha. fold (from_num lib canon) in Ha. rewrite Hfrom in Ha.
    clear - Ha. destruct rest as [|r1 rest1]; [lia|]. destruct Ha as [Hall _]. exact (Forall_inv Hall).
  Qed.

  Lemma start_eq : rest <> [] -> start' = start.
  Proof. unfold start', start. clear. destruct rest; [intros H; contradiction | reflexivity]. Qed.

  Lemma Hstartle' : exists b, In b canon /\ bnum b <= start'.
  Proof. exists L. split; [exact HLc | pose proof HLs'; lia]. Qed.

  (* the consumer at the cursor, its canonical part: good stacks *)
  Lemma J0_good : Good U start' J0.
  Proof.
    destruct Hstate as (Hbr & Hon & _).
    assert (HLU : In L U) by (apply Hincl; exact HLc).
    assert (HKU : Forall (fun x => In x U) (hc ++ hf)).
    { apply Forall_app. split; [|exact HhfU]. eapply Forall_impl; [|exact Hon]. cbn beta. intros x Hx. apply Hincl. exact Hx. }
    destruct (list_eq_nil_or_cons (hc ++ hf)) as [E|(k0 & K0 & E)]; [left; unfold J0; rewrite E; reflexivity|]. right.
    exists (J0 ++ [L]). split; [unfold J0; destruct (rev (hc ++ hf)); discriminate|]. split.
    - split.
      + apply Forall_app. split; [|constructor; [exact HLU | constructor]].
        apply Forall_forall. intros y Hy. unfold J0 in Hy. apply in_rev in Hy. rewrite Forall_forall in HKU. exact (HKU y Hy).
      + exists (bparent L). unfold J0. rewrite rev_app_distr, rev_involutive. cbn [rev app lnk]. split; [reflexivity | apply branch_lnk; exact Hbr].
    - right. exists [L]. split; [reflexivity|]. split; [discriminate | constructor; [exact HLs' | constructor]].
  Qed.

  Lemma hc_good : Good U start' (rev hc).
  Proof. apply (good_lower U start' (rev hf) (rev hc)). rewrite <- rev_app_distr. exact J0_good. Qed.

  (* what the consumer holds is numbered at or below the cursor block *)
  Lemma held_le : forall x, In x (hc ++ hf) -> bnum x <= rn (cu_blk cu).
  Proof.
    destruct Hstate as (Hbr & Hon & Hoff & Hnu' & Hu & Hfiles).
    assert (Hle : forall top, branch_from L ((hc ++ hf) ++ top) -> bnum (last ((hc ++ hf) ++ top) L) = rn (cu_blk cu) ->
                  forall x, In x (hc ++ hf) -> bnum x <= rn (cu_blk cu)).
    { intros top Hb Hlast x Hx. pose proof (branch_asc _ _ Hb) as Ha. pose proof (asc_last_max _ _ Ha) as Hmax.
      rewrite Forall_forall in Hmax. rewrite <- Hlast. apply Hmax. right. apply in_or_app. left. exact Hx. }
    destruct (step_eqb (cu_step cu) SUndo) eqn:Es.
    - assert (Est : cu_step cu = SUndo) by (destruct (cu_step cu); try discriminate; reflexivity).
      destruct (Hu Est) as (X & HX & HbrX & _). destruct (bref_eq _ _ HX) as [_ EX].
      apply (Hle [X]); [rewrite <- app_assoc; exact HbrX|]. rewrite last_app_one. exact EX.
    - assert (Est : cu_step cu <> SUndo) by (intros E; rewrite E in Es; discriminate).
      destruct (bref_eq _ _ (Hnu' Est)) as [_ EX].
      apply (Hle []); rewrite app_nil_r; [exact Hbr | exact EX].
  Qed.

  (* the files read: the chain from L below mend *)
  Lemma HD : file_delivery merged lib stopf (j_bundle c) = filter (fun b => bnum b <? mend) (L :: rest).
  Proof.
    unfold file_delivery, merged. fold bound. rewrite <- Hfrom. unfold from_num. rewrite !filter_filter.
    apply filter_ext. intros b. unfold mend.
    destruct (N.ltb_spec (bnum b) merged_end), (N.leb_spec lib (bnum b)), (N.ltb_spec (bnum b) bound),
             (N.ltb_spec (bnum b) (N.min merged_end bound)); cbn [andb]; try reflexivity; lia.
  Qed.

  Lemma mend_le : forall x, bnum x < mend -> bnum x < merged_end.
  Proof. intros x H. unfold mend in H. lia. Qed.

  (* the first bundle of the file source (that of the cursor LIB) exists as soon as L is in the merged files *)
  Lemma fend0_old : bnum L < merged_end -> fend0 = (if negb (j_stop c =? 0) && ((j_stop c / j_bundle c + 1) * j_bundle c <=? merged_end) then JStop else JNil).
  Proof.
    intros HLm. unfold fend0, file_end, first_bundle_ok. rewrite Hmode, Hcur. cbn [N.eqb Pos.eqb]. fold lib.
    assert (Hb0 : j_bundle c <> 0) by lia.
    pose proof (N.mul_div_le lib (j_bundle c) Hb0) as Hdiv.
    replace (lib / j_bundle c * j_bundle c <? merged_end) with true; [rewrite andb_true_r; reflexivity|].
    symmetry. apply N.ltb_lt. rewrite <- ELn in Hdiv. nia.
  Qed.

  (* when the file source ends waiting for the next file it has read every merged block *)
  Lemma mend_all : bnum L < merged_end -> fend0 = JNil -> forall b, In b canon -> (bnum b <? mend) = (bnum b <? merged_end).
  Proof.
    intros HLm Hf b Hb. rewrite (fend0_old HLm) in Hf. unfold mend, bound, stopf.
    destruct (N.ltb_spec (bnum b) merged_end) as [Hlt|Hge].
    - apply N.ltb_lt. apply N.min_glb_lt; [exact Hlt|].
      case_eq (j_stop c =? 0); intros E0; rewrite E0 in Hf; cbn [negb andb] in Hf.
      + assert (Hbm : In b merged) by (unfold merged; apply filter_In; split; [exact Hb | apply N.ltb_lt; exact Hlt]).
        rewrite Forall_forall in Hbound. specialize (Hbound b Hbm).
        pose proof (N.mul_succ_div_gt file_bound (j_bundle c)) as H. rewrite <- N.add_1_r in H. nia.
      + destruct (N.leb_spec ((j_stop c / j_bundle c + 1) * j_bundle c) merged_end) as [Hle|Hgt]; [discriminate|]. lia.
    - apply N.ltb_ge. lia.
  Qed.

  Lemma run_files_cur :
    run_files c (run_start c w) merged_end merged forked =
    (fst (from_cursor_run merged forked cu stopf (j_bundle c)),
     match snd (from_cursor_run merged forked cu stopf (j_bundle c)) with
     | RsOk => fend0 | RsResolveErr => JInvalidArg | RsNotImplemented => JOther | RsFuel => JFuel end).
  Proof.
    unfold run_files. fold fend0. rewrite Hmode, Hcur. cbn [N.eqb Pos.eqb].
    change (if j_stop c =? 0 then 1000000000000 else j_stop c) with stopf.
    destruct (from_cursor_run merged forked cu stopf (j_bundle c)) as [fevs r]. reflexivity.
  Qed.

  (* ---------------------------------------------------------------- C06's output for these files *)

  Definition und := map (C06_Spec.undo_event cu (last hc L)) (rev hf).

  Lemma cur_files :
    (from_cursor_run merged forked cu stopf (j_bundle c) = ([], RsOk) /\
     ~ reached (file_delivery merged lib stopf (j_bundle c)) cu) \/
    exists I later,
      from_cursor_run merged forked cu stopf (j_bundle c) = (und ++ map (file_event SIrr) I ++ map fev later, RsOk) /\
      filter (fun b => bnum b <? mend) rest = hc ++ later /\
      (exists x, lnk x (hc ++ later)) /\ (forall b, In b (hc ++ later) -> In b merged) /\
      (forall z r, hc ++ later = z :: r -> bnum z <= start) /\ bnum L < merged_end.
  Proof.
    destruct Hstate as (Hbr & Hon & Hoff & Hnu' & Hu & Hfiles).
    pose proof (merged_chain_ok canon merged_end Hchain) as Hmok. fold merged in Hmok.
    set (D := file_delivery merged lib stopf (j_bundle c)).
    destruct (bnum L <? mend) eqn:ELm.
    2:{ left.
      assert (ED0 : D = []).
      { unfold D. rewrite HD. cbn [filter]. rewrite ELm.
        rewrite (C06_Lists.filter_none _ _ rest); [reflexivity|].
        pose proof (asc_filter (fun b => lib <=? bnum b) canon Hasc) as Ha. fold (from_num lib canon) in Ha. rewrite Hfrom in Ha.
        destruct Ha as [Hall _]. apply N.ltb_ge in ELm. eapply Forall_impl; [|exact Hall]. cbn beta. intros y Hy. apply N.ltb_ge. lia. }
      split; [unfold from_cursor_run; fold lib; fold D; rewrite ED0; reflexivity|].
      fold D. rewrite ED0. intros (b & [] & _). }
    set (rest' := filter (fun b => bnum b <? mend) rest).
    assert (HD' : D = L :: rest') by (unfold D; rewrite HD; cbn [filter]; rewrite ELm; reflexivity).
    assert (Hset : setting merged cu stopf (j_bundle c) L rest').
    { split; [exact Hmok|]. split; [exact HD' | exact HL]. }
    assert (HDc : forall x, In x (L :: rest') -> In x canon /\ bnum x < mend).
    { intros x Hx. rewrite <- HD' in Hx. unfold D in Hx. rewrite HD in Hx. apply filter_In in Hx as [Hx Hlt]. apply N.ltb_lt in Hlt. split; [|exact Hlt].
      destruct Hx as [<-|Hx]; [exact HLc | apply Hrestc; exact Hx]. }
    assert (HinD : forall x, In x canon -> lib <= bnum x -> bnum x < mend -> In x (L :: rest')).
    { intros x Hx H1 H2. rewrite <- HD'. unfold D. rewrite HD. apply filter_In. split; [|apply N.ltb_lt; exact H2].
      rewrite <- Hfrom. unfold from_num. apply filter_In. split; [exact Hx | apply N.leb_le; exact H1]. }
    destruct (existsb (fun b => rn (cu_blk cu) <=? bnum b) (L :: rest')) eqn:Ereach.
    2:{ left.
      assert (Hnr : ~ reached (L :: rest') cu).
      { intros (b & Hb & Hge). assert (H : existsb (fun b => rn (cu_blk cu) <=? bnum b) (L :: rest') = true).
        { apply existsb_exists. exists b. split; [exact Hb | apply N.leb_le; exact Hge]. }
        rewrite H in Ereach. discriminate. }
      split; [exact (c06_not_reached_proof merged forked cu stopf (j_bundle c) L rest' Hset Hnr) | fold D; rewrite HD'; exact Hnr]. }
    right. apply existsb_exists in Ereach as (br & Hbr_in & Hbr_ge). apply N.leb_le in Hbr_ge.
    assert (Hreach : reached (L :: rest') cu) by (exists br; auto).
    destruct (HDc br Hbr_in) as [_ Hbr_lt].
    assert (Hoff' : forall x, off_canon canon x -> off_canon (L :: rest') x).
    { intros x Hx Hin. apply Hx. unfold ids in *. apply in_map_iff in Hin as (y & Ey & Hy). apply in_map_iff.
      exists y. split; [exact Ey | apply HDc; exact Hy]. }
    assert (Hle : forall top, branch_from L ((hc ++ hf) ++ top) -> bnum (last ((hc ++ hf) ++ top) L) = rn (cu_blk cu) ->
                  forall x, In x (hc ++ hf) -> lib < bnum x /\ bnum x <= rn (cu_blk cu)).
    { intros top Hb Hlast x Hx. pose proof (branch_asc _ _ Hb) as Ha. pose proof (asc_last_max _ _ Ha) as Hmax.
      rewrite Forall_forall in Hmax. rewrite <- Hlast. split.
      - destruct Ha as [Hall _]. rewrite Forall_forall in Hall. rewrite <- ELn. apply Hall. apply in_or_app. left. exact Hx.
      - apply Hmax. right. apply in_or_app. left. exact Hx. }
    assert (Hheld : forall x, In x (hc ++ hf) -> lib < bnum x /\ bnum x <= rn (cu_blk cu)).
    { destruct (step_eqb (cu_step cu) SUndo) eqn:Es.
      - assert (Est : cu_step cu = SUndo) by (destruct (cu_step cu); try discriminate; reflexivity).
        destruct (Hu Est) as (X & HX & HbrX & _). destruct (bref_eq _ _ HX) as [_ EX].
        apply (Hle [X]); [rewrite <- app_assoc; exact HbrX|]. rewrite last_app_one. exact EX.
      - assert (Est : cu_step cu <> SUndo) by (intros E; rewrite E in Es; discriminate).
        destruct (bref_eq _ _ (Hnu' Est)) as [_ EX].
        apply (Hle []); rewrite app_nil_r; [exact Hbr | exact EX]. }
    assert (Hon' : Forall (on_canon (L :: rest')) hc).
    { apply Forall_forall. intros x Hx. rewrite Forall_forall in Hon. destruct (Hheld x (in_or_app _ _ _ (or_introl Hx))) as [H1 H2].
      apply HinD; [apply Hon; exact Hx | lia | lia]. }
    assert (Hoffhf : Forall (off_canon (L :: rest')) hf).
    { eapply Forall_impl; [|exact Hoff]. exact Hoff'. }
    assert (Hu' : cu_step cu = SUndo -> exists X, bref X = cu_blk cu /\ branch_from L (hc ++ hf ++ [X]) /\
              ((on_canon (L :: rest') X /\ hf = []) \/ (off_canon (L :: rest') X /\ file_of forked cu (bid X) = Some X))).
    { intros Est. destruct (Hu Est) as (X & HX & HbrX & HXc). exists X. split; [exact HX|]. split; [exact HbrX|].
      destruct HXc as [[HXon Hhf]|[HXoff HXf]]; [left | right; split; [apply Hoff'; exact HXoff | exact HXf]].
      split; [|exact Hhf]. destruct (bref_eq _ _ HX) as [_ EX].
      pose proof (branch_lt _ _ HbrX) as Hlt. rewrite Forall_forall in Hlt.
      assert (HLX : bnum L < bnum X) by (apply Hlt; apply in_or_app; right; apply in_or_app; right; left; reflexivity).
      apply HinD; [exact HXon | lia | lia]. }
    destruct (cursor_events merged forked cu stopf (j_bundle c) L rest' hc hf Hset Hbr Hon' Hoffhf Hnu' Hu' Hfiles Hreach)
      as (I & later & Erun & Erest' & Hc').
    exists I, later. split; [exact Erun|]. split; [exact Erest'|].
    split.
    { destruct (lnk_of_chain_ok _ Hc') as [x Hx]. cbn [lnk] in Hx. exists (bid L). apply Hx. }
    split.
    { intros b Hb. rewrite <- Erest' in Hb. destruct (HDc b (or_intror Hb)) as [H1 H2].
      unfold merged. apply filter_In. split; [exact H1 | apply N.ltb_lt; apply mend_le; exact H2]. }
    split; [|apply mend_le; apply N.ltb_lt; exact ELm].
    intros z r Ez. rewrite <- Erest' in Ez. unfold rest', start in *. destruct rest as [|r1 rest1]; [discriminate|].
    cbn [filter] in Ez. destruct (bnum r1 <? mend) eqn:E1; [injection Ez as <- _; lia|].
    exfalso. pose proof (asc_filter (fun b => lib <=? bnum b) canon Hasc) as Ha. fold (from_num lib canon) in Ha. rewrite Hfrom in Ha.
    destruct Ha as [_ [Hall _]]. apply N.ltb_ge in E1.
    assert (Hz : In z (filter (fun b => bnum b <? mend) rest1)) by (rewrite Ez; left; reflexivity).
    apply filter_In in Hz as [Hz1 Hz2]. apply N.ltb_lt in Hz2. rewrite Forall_forall in Hall. specialize (Hall z Hz1). lia.
  Qed.

  (* the resolver's Undo and Irreversible events bring the consumer to hc *)
  Lemma und_irr_fold I : sfold J0 (und ++ map (file_event SIrr) I) = Some (rev hc).
  Proof.
    unfold J0, und. rewrite rev_app_distr, sfold_app, sfold_pops. apply sfold_quiet.
    apply Forall_forall. intros e He. apply in_map_iff in He as (x & <- & _). reflexivity.
  Qed.

  Lemma und_irr_not_new I : Forall (fun x => matches_new (estep x) = false) (und ++ map (file_event SIrr) I).
  Proof.
    apply Forall_app. split; apply Forall_forall; intros e He; apply in_map_iff in He as (x & <- & _); reflexivity.
  Qed.

  Lemma pre0_disc I : disc U start' J0 (und ++ map (file_event SIrr) I).
  Proof.
    apply (disc_undo_push U start' J0 und (map (file_event SIrr) I) (rev hc) J0_good hc_good).
    - apply Forall_forall. intros e He. apply in_map_iff in He as (x & <- & _). reflexivity.
    - apply Forall_forall. intros e He. apply in_map_iff in He as (x & <- & _). reflexivity.
    - exact (und_irr_fold I).
  Qed.

  (* ---------------------------------------------------------------- the raw sequence of the run *)

  (* the four outcomes of a stream that ends waiting, for the stack J of the consumer *)
  Definition cur_done (J : list block) : Prop :=
    rev J = above lib merged \/
    (exists r1 rest1, rest = r1 :: rest1 /\ from_num (bnum r1) (rev J) = rest) \/
    above lib (rev J) = rest.

  Lemma cur_core :
    exists X J, sfold J0 X = Some J /\ disc U start' J0 X /\
      ((run_rejected c w = false /\ exists P, raw_out c X res P /\ (P -> cur_done J)) \/
       (run_rejected c w = false /\ files_out c X fend0 res /\ (fend0 = JNil -> X = [] \/ cur_done J) /\
        ((X = [] /\ ~ reached (file_delivery merged lib stopf (j_bundle c)) cu) \/
         exists I later, X = (und ++ map (file_event SIrr) I) ++ map fev later /\
                         filter (fun b => bnum b <? mend) rest = hc ++ later)) \/
       (X = [] /\ fst res = [] /\ snd res <> JNil /\ snd res <> JStop)).
  Proof.
    pose proof (c07_run_shapes_proof c w ps merged_end merged forked) as Hsh. cbv zeta in Hsh.
    rewrite run_files_cur in Hsh. cbn [fst snd] in Hsh. fold res in Hsh.
    assert (Hseen : forall X, seen c X = X) by (intros X; apply seen_stateless; exact Hne1).
    pose proof Hstartblk as Hsb.
    assert (Hmode2 : (j_mode c =? 2) = false) by (rewrite Hmode; reflexivity).
    destruct Hsh as [[_ Hr]|[Hrej [(burst & k & Hlt & Hro)|[[_ Hr]|[Hlt [(pre & e & rest0 & m & lowest & burst & k & Ef & Hns & Hj & Hro)|Hfo]]]]]].
    - exists [], J0. split; [reflexivity|]. split; [apply disc_nil; exact J0_good|]. right. right. rewrite Hr. split; [reflexivity|]. split; [reflexivity|]. split; discriminate.
    - (* the hub serves the cursor *)
      rewrite Hseen in Hro.
      unfold live_try in Hlt. rewrite Hmode, Hcur in Hlt. cbn [N.eqb Pos.eqb] in Hlt.
      destruct (h_ready (w_hub w)) eqn:Hrd; cbn [negb] in Hlt; [|discriminate].
      destruct HW as [Hok Hrest].
      destruct (vstate_of_hub U (j_first c) (j_kept c) U_id U_uniq U_up D_decl (w_hub w) Hok Hrd) as [V HV].
      assert (HLU : In L U) by (apply Hincl; exact HLc).
      destruct Hstate as (Hbr & Hon & Hoff & Hnu' & Hu & _).
      assert (HKU : Forall (fun x => In x U) (hc ++ hf)).
      { apply Forall_app. split; [|exact HhfU]. eapply Forall_impl; [|exact Hon]. cbn beta. intros x Hx. apply Hincl. exact Hx. }
      set (K := hc ++ hf) in *.
      assert (Hrun : exists T Kf, bref T = cu_blk cu /\ In T U /\ Kf = (if is_undo cu then K ++ [T] else K) /\
                       lnk (bid L) Kf /\ Forall (fun x => In x U) Kf /\ tip (bid L) Kf = bid T).
      { destruct (step_eqb (cu_step cu) SUndo) eqn:Es.
        - assert (Est : cu_step cu = SUndo) by (destruct (cu_step cu); try discriminate; reflexivity).
          destruct (HXU Est) as (X & HXinU & HX & HbrX). rewrite app_assoc in HbrX. fold K in HbrX.
          exists X, (K ++ [X]). split; [exact HX|]. split; [exact HXinU|].
          split; [unfold is_undo; rewrite Est; reflexivity|].
          split; [apply branch_lnk; exact HbrX|]. split; [apply Forall_app; split; [exact HKU | constructor; [exact HXinU | constructor]]|].
          apply tip_snoc.
        - assert (Est : cu_step cu <> SUndo) by (intros E; rewrite E in Es; discriminate).
          exists (last K L), K. split; [exact (Hnu' Est)|]. split.
          { destruct (last_in _ K L) as [E|E]; [rewrite <- E; exact HLU | rewrite Forall_forall in HKU; apply HKU; exact E]. }
          split; [unfold is_undo; rewrite (not_undo_matches _ Est); reflexivity|].
          split; [apply branch_lnk; exact Hbr|]. split; [exact HKU|].
          rewrite (tip_last (bid L) K L). destruct K; reflexivity. }
      destruct Hrun as (T & Kf & HT & HTU & HKf & HlKf & HKfU & HtipKf).
      destruct (cursor_burst U (j_first c) (j_kept c) U_id U_uniq U_up (h_f (w_hub w)) V cu L T K Kf burst HV HL HLU HT HTU HKf HlKf HKfU HtipKf Hlt)
        as (hd & sg & lo & xL & hi & Hls & Eseg & Hgood & Hsplit & HbL & Hlhi & HhiU & Hfold).
      set (start1 := bnum L + 1).
      assert (Hlt1 : bnum L < start1) by (unfold start1; lia).
      destruct (cursor_live_rel U (j_first c) (j_kept c) U_id U_uniq U_up (h_f (w_hub w)) V hd sg lo xL hi L start1 HV Hls Eseg Hgood Hsplit HbL HLU Hlhi HhiU Hlt1)
        as [E HR].
      assert (Hstartle1 : exists b, In b canon /\ bnum b <= start1) by (exists L; split; [exact HLc | unfold start1; lia]).
      destruct (cursor_live_raw U c canon start1 U_id U_uniq U_up D_decl HcU Hcl Hstartle1 w V E (rev K) burst
                  (rev (map seg_blk hi)) k (conj Hrd (conj HV Hrest)) Htip Hfold HR) as (J & HJ & Hfin).
      assert (Hdisc : disc U start' J0 (burst ++ pushed c k w)).
      { destruct (cursor_live_rel U (j_first c) (j_kept c) U_id U_uniq U_up (h_f (w_hub w)) V hd sg lo xL hi L start' HV Hls Eseg Hgood Hsplit HbL HLU Hlhi HhiU HLs')
          as [E' HR'].
        destruct (from_cursor_split _ cu burst Hlt) as (us & ns & Eb & Hus & Hns).
        destruct (live_raw U c canon start' U_id U_uniq U_up D_decl HcU Hcl Hstartle' w V E' (rev (map seg_blk hi)) k (conj Hrd (conj HV Hrest)) Htip HR')
          as (Hdl' & _).
        apply (disc_app U start' J0 (rev (map seg_blk hi)) burst _); [|exact Hfold | exact Hdl'].
        rewrite Eb. apply (disc_undo_push U start' J0 us ns (rev (map seg_blk hi)) J0_good); [right; exists (V ++ E'); exact HR' | exact Hus | exact Hns|].
        rewrite <- Eb. exact Hfold. }
      exists (burst ++ pushed c k w), J. split; [exact HJ|]. split; [exact Hdisc|]. left. split; [exact Hrej|].
      exists (w_rest (world_after c k w) = []). split; [exact Hro|]. intros HP. right. right.
      rewrite above_from_num. replace (lib + 1) with start1 by (unfold start1; rewrite ELn; reflexivity). rewrite (Hfin HP).
      unfold start1. rewrite ELn, <- above_from_num. exact (above_of_from_num canon lib L rest Hasc Hfrom ELn).
    - exists [], J0. split; [reflexivity|]. split; [apply disc_nil; exact J0_good|]. right. right. rewrite Hr. split; [reflexivity|]. split; [reflexivity|]. split; discriminate.
    - (* files, then the join *)
      rewrite !Hseen in *.
      destruct cur_files as [[Enone _]|(I & later & Erun & Erest' & Hlk & Hinm & Hbot & HLm)].
      { rewrite Enone in Ef. cbn [fst] in Ef. destruct pre; discriminate. }
      rewrite Erun in Ef. cbn [fst] in Ef. rewrite app_assoc in Ef.
      destruct (join_try_some c _ lowest e burst Hj) as (Hen & _ & _).
      destruct (new_in_files _ later pre e rest0 (und_irr_not_new I) Hen Ef) as (Dpre & bn & D' & Elater & Epre & Ee).
      subst e later.
      assert (Hl1 : exists x, lnk x ((hc ++ Dpre) ++ [bn])).
      { destruct Hlk as [x Hx]. exists x. replace (hc ++ Dpre ++ bn :: D') with (((hc ++ Dpre) ++ [bn]) ++ D') in Hx
          by (rewrite <- !app_assoc; reflexivity). eapply linked_prefix. exact Hx. }
      assert (Hin1 : forall b, In b ((hc ++ Dpre) ++ [bn]) -> In b merged).
      { intros b Hb. apply Hinm. rewrite <- app_assoc in Hb. apply in_app_or in Hb as [Hb|Hb]; apply in_or_app; [left; exact Hb | right].
        apply in_app_or in Hb as [Hb|[<-|[]]]; apply in_or_app; [left; exact Hb | right; left; reflexivity]. }
      assert (Hbot1 : forall z r, (hc ++ Dpre) ++ [bn] = z :: r -> bnum z <= start).
      { intros z r Ez. apply (Hbot z (r ++ D')). change (z :: r ++ D') with ((z :: r) ++ D'). rewrite <- Ez, <- !app_assoc. reflexivity. }
      pose proof (id_joins U c U_id U_uniq U_up merged HmU w Hmode2 m) as Hjg.
      destruct (cursor_join_raw U c canon start U_id U_uniq U_up D_decl HcU Hcl Hsb merged HmU (world_after c m w) J0
                  (und ++ map (file_event SIrr) I) hc Dpre bn lowest burst k (und_irr_fold I)
                  (wok_after U c U_id U_uniq U_up D_decl m w HW) (tip_after c canon w m Htip) Hjg Hl1 Hin1 Hbot1 Hj) as (J & HJ & Hfin).
      assert (Hrne : rest <> []).
      { intros E. rewrite E in Erest'. cbn [filter] in Erest'. symmetry in Erest'. apply app_eq_nil in Erest' as [_ E2]. destruct Dpre; discriminate. }
      assert (Hdisc : disc U start' J0 ((und ++ map (file_event SIrr) I) ++ map fev Dpre ++ burst ++ pushed c k (world_after c m w))).
      { rewrite (start_eq Hrne).
        destruct (join_raw U c canon start U_id U_uniq U_up D_decl HcU Hcl Hsb merged HmU (world_after c m w) (hc ++ Dpre) bn lowest burst k
                    (wok_after U c U_id U_uniq U_up D_decl m w HW) (tip_after c canon w m Htip) Hjg Hl1 Hin1 Hbot1 Hj) as (Hdj & _).
        rewrite map_app, <- app_assoc in Hdj.
        destruct Hl1 as [x1 Hl1].
        destruct (files_raw U start merged HmU hc) as (Hfh & _ & _).
        { exists x1. rewrite <- app_assoc in Hl1. eapply linked_prefix. exact Hl1. }
        { intros b Hb. apply Hin1. apply in_or_app. left. apply in_or_app. left. exact Hb. }
        { intros z r Ez. apply (Hbot1 z (r ++ Dpre ++ [bn])). rewrite <- app_assoc, Ez. reflexivity. }
        apply (disc_app U start J0 (rev hc) _ _); [rewrite <- (start_eq Hrne); exact (pre0_disc I) | exact (und_irr_fold I)|].
        exact (disc_suffix U start [] (map fev hc) _ (rev hc) Hdj Hfh). }
      exists ((und ++ map (file_event SIrr) I) ++ map fev Dpre ++ burst ++ pushed c k (world_after c m w)), J.
      split; [exact HJ|]. split; [exact Hdisc|]. left. split; [exact Hrej|]. exists (w_rest (world_after c k (world_after c m w)) = []).
      split; [rewrite Epre, <- app_assoc in Hro; exact Hro|].
      intros HP. right. left.
      destruct rest as [|r1 rest1] eqn:Er.
      + exfalso. cbn [filter] in Erest'. symmetry in Erest'. apply app_eq_nil in Erest' as [_ E]. destruct Dpre; discriminate.
      + exists r1, rest1. split; [reflexivity|]. unfold start in Hfin. rewrite (Hfin HP).
        exact (from_num_first canon lib L r1 rest1 Hasc Hfrom).
    - (* files only *)
      rewrite Hseen in Hfo.
      destruct cur_files as [[Enone Hnr]|(I & later & Erun & Erest' & Hlk & Hinm & Hbot & HLm)].
      + rewrite Enone in Hfo. cbn [fst snd] in Hfo. exists [], J0. split; [reflexivity|]. split; [apply disc_nil; exact J0_good|]. right. left.
        split; [exact Hrej|]. split; [exact Hfo|]. split; [intros _; left; reflexivity|]. left. split; [reflexivity | exact Hnr].
      + rewrite Erun in Hfo. cbn [fst snd] in Hfo. rewrite app_assoc in Hfo.
        exists ((und ++ map (file_event SIrr) I) ++ map fev later), (rev (hc ++ later)).
        split; [exact (cursor_files_raw U start merged HmU J0 _ hc later (und_irr_fold I) Hlk Hinm Hbot)|].
        split.
        { destruct (list_eq_nil_or_cons later) as [El|(l0 & lr & El)].
          - rewrite El. cbn [map]. rewrite app_nil_r. exact (pre0_disc I).
          - assert (Hrne : rest <> []).
            { intros E. rewrite E in Erest'. cbn [filter] in Erest'. symmetry in Erest'. apply app_eq_nil in Erest' as [_ E2]. rewrite El in E2. discriminate. }
            rewrite (start_eq Hrne).
            destruct (files_raw U start merged HmU (hc ++ later) Hlk Hinm Hbot) as (_ & Hdall & _). rewrite map_app in Hdall.
            destruct Hlk as [x1 Hlk].
            destruct (files_raw U start merged HmU hc) as (Hfh & _ & _).
            { exists x1. eapply linked_prefix. exact Hlk. }
            { intros b Hb. apply Hinm. apply in_or_app. left. exact Hb. }
            { intros z r Ez. apply (Hbot z (r ++ later)). rewrite Ez. reflexivity. }
            apply (disc_app U start J0 (rev hc) _ _); [rewrite <- (start_eq Hrne); exact (pre0_disc I) | exact (und_irr_fold I)|].
            exact (disc_suffix U start [] (map fev hc) _ (rev hc) Hdall Hfh). }
        right. left. split; [exact Hrej|]. split; [exact Hfo|]. split; [|right; exists I, later; split; [reflexivity | exact Erest']]. intros Hf. right. left.
        rewrite rev_involutive, <- Erest'. rewrite <- (above_of_from_num canon lib L rest Hasc Hfrom ELn).
        unfold above, merged. rewrite !filter_filter. apply filter_ext_in. intros b Hb.
        rewrite (mend_all HLm Hf b Hb). apply andb_comm.
  Qed.

  (* ---------------------------------------------------------------- the theorem *)

  Lemma lib_le_blk : lib <= rn (cu_blk cu).
  Proof.
    destruct Hstate as (Hbr & _ & _ & Hnu' & Hu & _).
    assert (Hle : forall top, branch_from L ((hc ++ hf) ++ top) -> bnum (last ((hc ++ hf) ++ top) L) = rn (cu_blk cu) -> lib <= rn (cu_blk cu)).
    { intros top Hb Hlast. pose proof (branch_asc _ _ Hb) as Ha. pose proof (asc_last_max _ _ Ha) as Hmax.
      rewrite <- Hlast, <- ELn. exact (Forall_inv Hmax). }
    destruct (step_eqb (cu_step cu) SUndo) eqn:Es.
    - assert (Est : cu_step cu = SUndo) by (destruct (cu_step cu); try discriminate; reflexivity).
      destruct (Hu Est) as (X & HX & HbrX & _). destruct (bref_eq _ _ HX) as [_ EX].
      apply (Hle [X]); [rewrite <- app_assoc; exact HbrX|]. rewrite last_app_one. exact EX.
    - assert (Est : cu_step cu <> SUndo) by (intros E; rewrite E in Es; discriminate).
      destruct (bref_eq _ _ (Hnu' Est)) as [_ EX].
      apply (Hle []); rewrite app_nil_r; [exact Hbr | exact EX].
  Qed.

  Lemma cur_nu :
    exists c', cons_fold_aside (mkCons J0 0 false) (map as_new (filter is_nu (fst res))) = Some c' /\
      (snd res = JNil ->
         fst res = [] \/
         rev (cs_stack c') = above lib merged \/
         (exists r1 rest1, rest = r1 :: rest1 /\ from_num (bnum r1) (rev (cs_stack c')) = rest) \/
         above lib (rev (cs_stack c')) = rest) /\
      (rn (cu_blk cu) < j_stop c -> (exists bS, In bS canon /\ bnum bS = j_stop c) -> snd res = JStop ->
         stop_reached c canon merged start' (fst res) (cs_stack c')).
  Proof.
    destruct cur_core as (X & J & HJ & Hd & Hcase).
    (* the stop block is a block of rest, at or above the start point *)
    assert (HbSrest : rn (cu_blk cu) < j_stop c -> forall bS, In bS canon -> bnum bS = j_stop c -> In bS rest /\ start' <= j_stop c).
    { intros Hsc bS HbS HnS. pose proof lib_le_blk as Hlb.
      assert (Hin : In bS rest).
      { rewrite <- (above_of_from_num canon lib L rest Hasc Hfrom ELn). unfold above. apply filter_In. split; [exact HbS | apply N.ltb_lt; lia]. }
      split; [exact Hin|]. unfold start'.
      pose proof (asc_filter (fun b => lib <=? bnum b) canon Hasc) as Ha. fold (from_num lib canon) in Ha. rewrite Hfrom in Ha.
      clear - Ha Hin HnS. destruct rest as [|r1 rest1]; [destruct Hin|]. destruct Ha as [_ [Hall _]].
      destruct Hin as [<-|Hin]; [lia|]. rewrite Forall_forall in Hall. specialize (Hall bS Hin). lia. }
    assert (HJ0lt : rn (cu_blk cu) < j_stop c -> forall b, In b J0 -> bnum b < j_stop c).
    { intros Hsc b Hb. unfold J0 in Hb. apply in_rev in Hb. pose proof (held_le b Hb). lia. }
    (* the run stopped by the chain on an event of X *)
    assert (Hstopped : rn (cu_blk cu) < j_stop c -> (exists bS, In bS canon /\ bnum bS = j_stop c) ->
              snd (upto_stop c X) = true -> fst res = fst (upto_stop c X) ->
              exists J', sfold J0 (filter is_nu (fst res)) = Some J' /\ stop_reached c canon merged start' (fst res) J').
    { intros Hsc (bS & HbS & HnS) Hs Hf. destruct (upto_stop_split c X Hs) as (X1 & e & X2 & EX & Hns & Hse & Hfu).
      destruct (HbSrest Hsc bS HbS HnS) as [_ Hle].
      destruct (stop_event_from U c canon start' merged_end U_id U_uniq U_up Hchain Hincl Hstartle' Hnu J0 X X1 e X2 (HJ0lt Hsc) Hd EX Hns Hse Hle)
        as (J' & HJ' & Hsr).
      rewrite Hf, Hfu. exists J'. split; [exact HJ' | exact Hsr]. }
    destruct Hcase as [(Hrej & P & Hro & HP)|[(Hrej & Hfo & HP & Hinfo)|(EX & Ef & Hne & Hns')]].
    - unfold raw_out in Hro. destruct (snd res) eqn:Er; try contradiction.
      + destruct Hro as (Hc & Hns & Hf).
        exists (mkCons J 0 false). split.
        * apply cons_of_sfold_nu. rewrite Hf, (nu_delivered c X Hnu Hns), sfold_nu_filter. exact HJ.
        * split; [intros _; right; exact (HP Hc) | intros _ _; discriminate].
      + destruct Hro as (Hs & Hf).
        destruct (list_eq_nil_or_cons (filter is_nu (fst res))) as [_|_].
        all: assert (Hex : exists J', sfold J0 (filter is_nu (fst res)) = Some J').
        all: try (destruct (upto_stop_split c X Hs) as (X1 & e & X2 & EX & Hns & Hse & Hfu);
                  destruct (Hd X1 (e :: X2) EX) as (Ja & HJa & _);
                  destruct (Hd (X1 ++ [e]) X2) as (Jb & HJb & _); [rewrite EX, <- app_assoc; reflexivity|];
                  destruct (stops_true c e Hse) as (_ & _ & _ & Hfst);
                  rewrite Hf, Hfu, Hfst, filter_is_nu_app, (nu_delivered c X1 Hnu Hns);
                  change (filter is_nu X1) with (filter nu_ev X1); rewrite sfold_app, sfold_filter, HJa;
                  destruct (enum e =? j_stop c); [|eexists; reflexivity];
                  change (filter is_nu [e]) with (filter nu_ev [e]); rewrite sfold_filter; cbn [sfold];
                  rewrite sfold_app, HJa in HJb; cbn [sfold] in HJb; destruct (sapply Ja e); [eexists; reflexivity | discriminate]).
        all: destruct Hex as [J' HJ']; exists (mkCons J' 0 false); (split; [apply cons_of_sfold_nu; exact HJ'|]); (split; [discriminate|]);
             intros Hsc HbS _; destruct (Hstopped Hsc HbS Hs Hf) as (J'' & HJ'' & Hsr); rewrite HJ' in HJ''; injection HJ'' as <-; exact Hsr.
      + destruct Hro as (X1 & X2 & EX & Hns & Hf). destruct (Hd X1 X2 EX) as (J' & HJ' & _).
        exists (mkCons J' 0 false). split; [|split; [discriminate | intros _ _; discriminate]].
        apply cons_of_sfold_nu. rewrite Hf, (nu_delivered c X1 Hnu Hns), sfold_nu_filter. exact HJ'.
    - destruct Hfo as [[Hns Hr]|[Hs Hr]].
      + exists (mkCons J 0 false). fold res in Hr. rewrite Hr. cbn [fst snd cs_stack]. split.
        * apply cons_of_sfold_nu. rewrite (nu_delivered c X Hnu Hns), sfold_nu_filter. exact HJ.
        * split.
          -- intros Hfe. destruct (HP Hfe) as [E|Hdn]; [left; subst X; reflexivity | right; exact Hdn].
          -- (* the file source reported the end of the bundle of S: impossible, block S is in the files read *)
             intros Hsc (bS & HbS & HnS) Hfe. exfalso.
             destruct (file_end_stop c merged_end Hfe) as [E0 Hble].
             assert (Estopf : stopf = j_stop c) by (unfold stopf; apply N.eqb_neq in E0; rewrite E0; reflexivity).
             pose proof (N.mul_succ_div_gt (j_stop c) (j_bundle c)) as Hdiv. rewrite <- N.add_1_r in Hdiv.
             assert (HSb : j_stop c < bound) by (unfold bound; rewrite Estopf; nia).
             assert (Hbm : bound <= merged_end) by (unfold bound; rewrite Estopf; exact Hble).
             destruct (HbSrest Hsc bS HbS HnS) as [HbSr _]. pose proof lib_le_blk as Hlb.
             destruct Hinfo as [[_ Hnr]|(I & later & EX & Erest')].
             ++ apply Hnr. exists bS. split; [|lia]. unfold file_delivery. apply filter_In. split.
                ** unfold merged. apply filter_In. split; [exact HbS | apply N.ltb_lt; lia].
                ** fold bound. apply andb_true_iff. split; [apply N.leb_le; lia | apply N.ltb_lt; lia].
             ++ assert (Hin : In bS (hc ++ later)).
                { rewrite <- Erest'. apply filter_In. split; [exact HbSr | apply N.ltb_lt; unfold mend; lia]. }
                apply in_app_or in Hin as [Hin|Hin].
                ** pose proof (held_le bS (in_or_app _ _ _ (or_introl Hin))). lia.
                ** pose proof (upto_stop_nostop c X Hns) as Hall. rewrite Forall_forall in Hall.
                   assert (HinX : In (fev bS) X) by (rewrite EX; apply in_or_app; right; apply in_map; exact Hin).
                   pose proof (stops_false_pass c (fev bS) (Hall _ HinX) (has_nu_pass c (fev bS) Hnu eq_refl) E0) as Hlt.
                   unfold enum in Hlt. cbn [eblk file_event] in Hlt. lia.
      + fold res in Hr.
        assert (Hf : fst res = fst (upto_stop c X)) by (rewrite Hr; reflexivity).
        assert (Hex : exists J', sfold J0 (filter is_nu (fst res)) = Some J').
        { destruct (upto_stop_split c X Hs) as (X1 & e & X2 & EX & Hns & Hse & Hfu).
          destruct (Hd X1 (e :: X2) EX) as (Ja & HJa & _).
          destruct (Hd (X1 ++ [e]) X2) as (Jb & HJb & _); [rewrite EX, <- app_assoc; reflexivity|].
          destruct (stops_true c e Hse) as (_ & _ & _ & Hfst).
          rewrite Hf, Hfu, Hfst, filter_is_nu_app, (nu_delivered c X1 Hnu Hns).
          change (filter is_nu X1) with (filter nu_ev X1). rewrite sfold_app, sfold_filter, HJa.
          destruct (enum e =? j_stop c); [|eexists; reflexivity].
          change (filter is_nu [e]) with (filter nu_ev [e]). rewrite sfold_filter. cbn [sfold].
          rewrite sfold_app, HJa in HJb. cbn [sfold] in HJb. destruct (sapply Ja e); [eexists; reflexivity | discriminate]. }
        destruct Hex as [J' HJ']. exists (mkCons J' 0 false). split; [apply cons_of_sfold_nu; exact HJ'|].
        split; [rewrite Hr; discriminate|].
        intros Hsc HbS _. destruct (Hstopped Hsc HbS Hs Hf) as (J'' & HJ'' & Hsr). rewrite HJ' in HJ''. injection HJ'' as <-. exact Hsr.
    - exists (mkCons J0 0 false). rewrite Ef. split; [reflexivity|]. split; [intros Hn; contradiction | intros _ _ Hn; contradiction].
  Qed.
End CurRun.

Lemma c07_seamless_cursor_nu_proof : C07_seamless_cursor_nu.
Proof.
  intros U c w ps merged_end canon forked cu L rest hc hf Hwfb Hlok [[l [Hl Hhub]] Hrest] Hchain Hincl merged Htip
         Hmode Hcur Hnu Hbundle Hbound Hfrom HL Hstate HhfU HXU res.
  assert (Hscope : disc_scope2_b U = true) by (unfold disc_scope2_b; rewrite Hwfb, Hlok; reflexivity).
  pose proof (bridge_id U Hwfb) as Hid. pose proof (bridge_uniq U Hwfb) as Huniq. pose proof (bridge_up U Hwfb) as Hup.
  pose proof (bridge2_decl_none U Hscope) as Hdecl.
  assert (HW : WOK U c w).
  { split; [|exact Hrest]. rewrite Hhub. apply (hub_ok_run U (j_first c) (j_kept c) Hwfb Hlok l Hl). }
  destruct (cur_nu U c w ps merged_end canon forked cu L rest hc hf Hid Huniq Hup Hdecl Hchain Hincl HW Htip Hmode Hcur Hnu Hbundle Hbound
           Hfrom HL Hstate HhfU HXU) as (c' & H1 & H2 & _).
  exists c'. split; [exact H1 | exact H2].
Qed.

(* the stop clause at stream level (Spec/C13_More_Spec.v) *)
Lemma c13_stop_cursor_holds_proof : C13_stop_cursor_holds.
Proof.
  intros U c w ps merged_end canon forked cu L rest hc hf Hwfb Hlok [[l [Hl Hhub]] Hrest] Hchain Hincl merged Htip
         Hmode Hcur Hnu Hbundle Hbound Hfrom HL Hstate HhfU HXU Hsc HbS res start.
  assert (Hscope : disc_scope2_b U = true) by (unfold disc_scope2_b; rewrite Hwfb, Hlok; reflexivity).
  pose proof (bridge_id U Hwfb) as Hid. pose proof (bridge_uniq U Hwfb) as Huniq. pose proof (bridge_up U Hwfb) as Hup.
  pose proof (bridge2_decl_none U Hscope) as Hdecl.
  assert (HW : WOK U c w).
  { split; [|exact Hrest]. rewrite Hhub. apply (hub_ok_run U (j_first c) (j_kept c) Hwfb Hlok l Hl). }
  destruct (cur_nu U c w ps merged_end canon forked cu L rest hc hf Hid Huniq Hup Hdecl Hchain Hincl HW Htip Hmode Hcur Hnu Hbundle Hbound
           Hfrom HL Hstate HhfU HXU) as (c' & H1 & _ & H3).
  exists c'. split; [exact H1 | exact (H3 Hsc HbS)].
Qed.
