(* C15 — facts about the bitmap / kv-map layer of the model. *)
From Coq Require Import Sorted.
From BV Require Import Base.Prelude Model.BlockIndex Spec.C15_Spec Proofs.PreludeFacts.
Local Open Scope N_scope.

Lemma asc_cons x l : asc (x :: l) <-> asc l /\ Forall (N.lt x) l.
Proof.
  split.
  - intros H. inversion H; subst. split; assumption.
  - intros [H1 H2]. constructor; assumption.
Qed.

Lemma asc_nil : asc [].
Proof. constructor. Qed.

Lemma asc_app a b : asc a -> asc b -> (forall x y, In x a -> In y b -> x < y) -> asc (a ++ b).
Proof.
  induction a as [|x a IH]; intros Ha Hb Hab; simpl; [exact Hb|].
  apply asc_cons in Ha as [Ha1 Ha2]. apply asc_cons. split.
  - apply IH; [exact Ha1 | exact Hb |]. intros u v Hu Hv. apply Hab; [right; exact Hu | exact Hv].
  - apply Forall_forall. intros y Hy. apply in_app_or in Hy as [Hy|Hy].
    + rewrite Forall_forall in Ha2. apply Ha2. exact Hy.
    + apply Hab; [left; reflexivity | exact Hy].
Qed.

(* two strictly ascending lists with the same elements are equal *)
Lemma asc_ext a b : asc a -> asc b -> (forall n, In n a <-> In n b) -> a = b.
Proof.
  revert b. induction a as [|x a IH]; intros b Ha Hb Hab.
  - destruct b as [|y b]; [reflexivity|]. exfalso. apply (Hab y). left; reflexivity.
  - destruct b as [|y b]; [exfalso; apply (Hab x); left; reflexivity|].
    apply asc_cons in Ha as [Ha1 Ha2]. apply asc_cons in Hb as [Hb1 Hb2].
    rewrite Forall_forall in Ha2, Hb2.
    assert (x = y).
    { pose proof (proj1 (Hab x) (or_introl eq_refl)) as Hx.
      pose proof (proj2 (Hab y) (or_introl eq_refl)) as Hy.
      destruct Hx as [Hx|Hx]; [congruence|]. destruct Hy as [Hy|Hy]; [congruence|].
      apply Hb2 in Hx. apply Ha2 in Hy. lia. }
    subst y. f_equal. apply IH; [exact Ha1 | exact Hb1 |].
    intros n. split; intros Hn.
    + pose proof (proj1 (Hab n) (or_intror Hn)) as [H|H]; [|exact H].
      apply Ha2 in Hn. lia.
    + pose proof (proj2 (Hab n) (or_intror Hn)) as [H|H]; [|exact H].
      apply Hb2 in Hn. lia.
Qed.

(* ---------------- set_insert / set_union ---------------- *)
Lemma set_insert_In x l n : In n (set_insert x l) <-> n = x \/ In n l.
Proof.
  induction l as [|y l IH]; simpl.
  - intuition.
  - destruct (x <? y) eqn:E1; [simpl; intuition|].
    destruct (x =? y) eqn:E2.
    + apply N.eqb_eq in E2. subst. simpl. intuition.
    + simpl. rewrite IH. intuition.
Qed.

Lemma set_insert_asc x l : asc l -> asc (set_insert x l).
Proof.
  induction l as [|y l IH]; intros H; simpl.
  - apply asc_cons. split; [apply asc_nil | constructor].
  - apply asc_cons in H as [H1 H2].
    destruct (x <? y) eqn:E1.
    + apply N.ltb_lt in E1. apply asc_cons. split.
      * apply asc_cons. split; assumption.
      * constructor; [exact E1|]. eapply Forall_impl; [|exact H2]. intros a Ha. simpl in Ha. lia.
    + destruct (x =? y) eqn:E2.
      * apply asc_cons. split; assumption.
      * apply N.ltb_ge in E1. apply N.eqb_neq in E2.
        apply asc_cons. split; [apply IH; exact H1|].
        apply Forall_forall. intros n Hn. apply set_insert_In in Hn as [Hn|Hn].
        -- subst. lia.
        -- rewrite Forall_forall in H2. apply H2. exact Hn.
Qed.

Lemma set_union_In a b n : In n (set_union a b) <-> In n a \/ In n b.
Proof.
  unfold set_union. induction a as [|x a IH]; simpl.
  - intuition.
  - rewrite set_insert_In, IH. intuition.
Qed.

Lemma set_union_asc a b : asc b -> asc (set_union a b).
Proof.
  unfold set_union. intros Hb. induction a as [|x a IH]; simpl; [exact Hb|].
  apply set_insert_asc. exact IH.
Qed.

Lemma sort_In l n : In n (fold_right set_insert [] l) <-> In n l.
Proof. pose proof (set_union_In l [] n) as H. unfold set_union in H. rewrite H. simpl. intuition. Qed.

Lemma sort_asc l : asc (fold_right set_insert [] l).
Proof. apply (set_union_asc l []). apply asc_nil. Qed.

(* ---------------- kv maps ---------------- *)
Definition kv_mem (kv : kvmap) (k : str) (n : N) : Prop := exists s, kv_get k kv = Some s /\ In n s.
Definition kv_asc (kv : kvmap) : Prop := forall k s, kv_get k kv = Some s -> asc s.

Lemma eqb_list_neq a b : eqb_list a b = false <-> a <> b.
Proof.
  split.
  - intros H E. apply eqb_list_eq in E. congruence.
  - intros H. destruct (eqb_list a b) eqn:E; [|reflexivity]. apply eqb_list_eq in E. contradiction.
Qed.

Lemma kv_get_keys k kv s : kv_get k kv = Some s -> In k (map fst kv).
Proof.
  induction kv as [|[k0 s0] kv IH]; simpl; [discriminate|].
  destruct (eqb_list k k0) eqn:E.
  - apply eqb_list_eq in E. intros _. left. congruence.
  - intros H. right. apply IH. exact H.
Qed.

Lemma kv_get_In k kv s : NoDup (map fst kv) -> (kv_get k kv = Some s <-> In (k, s) kv).
Proof.
  induction kv as [|[k0 s0] kv IH]; simpl; intros Hnd.
  - split; [discriminate | tauto].
  - inversion Hnd as [|? ? Hnot Hnd']; subst.
    destruct (eqb_list k k0) eqn:E.
    + apply eqb_list_eq in E. subst k0. split.
      * intros H. left. congruence.
      * intros [H|H]; [congruence|]. exfalso. apply Hnot.
        change k with (fst (k, s)). apply in_map. exact H.
    + apply eqb_list_neq in E. rewrite (IH Hnd'). split.
      * intros H. right. exact H.
      * intros [H|H]; [congruence | exact H].
Qed.

Lemma kv_add_get k n kv k' :
  kv_get k' (kv_add k n kv) =
  if eqb_list k' k then Some (set_insert n (match kv_get k kv with Some s => s | None => [] end))
  else kv_get k' kv.
Proof.
  induction kv as [|[k0 s0] kv IH]; simpl.
  - destruct (eqb_list k' k); reflexivity.
  - destruct (eqb_list k k0) eqn:E.
    + apply eqb_list_eq in E. subst k0. simpl. destruct (eqb_list k' k); reflexivity.
    + simpl. destruct (eqb_list k' k0) eqn:E0.
      * apply eqb_list_eq in E0. subst k0.
        assert (eqb_list k' k = false) as ->; [|reflexivity].
        apply eqb_list_neq. apply eqb_list_neq in E. congruence.
      * exact IH.
Qed.

Lemma kv_add_keys_In k n kv x : In x (map fst (kv_add k n kv)) <-> x = k \/ In x (map fst kv).
Proof.
  induction kv as [|[k0 s0] kv IH]; simpl.
  - intuition.
  - destruct (eqb_list k k0) eqn:E; simpl.
    + apply eqb_list_eq in E. subst. intuition.
    + rewrite IH. intuition.
Qed.

Lemma kv_add_nodup k n kv : NoDup (map fst kv) -> NoDup (map fst (kv_add k n kv)).
Proof.
  induction kv as [|[k0 s0] kv IH]; simpl; intros H.
  - constructor; [simpl; tauto | constructor].
  - inversion H as [|? ? Hnot Hnd]; subst.
    destruct (eqb_list k k0) eqn:E; simpl.
    + constructor; assumption.
    + constructor; [|apply IH; exact Hnd].
      intros Hin. apply kv_add_keys_In in Hin as [Hin|Hin]; [|contradiction].
      apply eqb_list_neq in E. congruence.
Qed.

Lemma kv_add_asc k n kv : kv_asc kv -> kv_asc (kv_add k n kv).
Proof.
  intros H k' s. rewrite kv_add_get. destruct (eqb_list k' k) eqn:E.
  - intros Hs. inversion Hs; subst. apply set_insert_asc.
    destruct (kv_get k kv) eqn:G; [eapply H; exact G | apply asc_nil].
  - apply H.
Qed.

Lemma kv_add_mem k n kv k' n' : kv_mem (kv_add k n kv) k' n' <-> kv_mem kv k' n' \/ (k' = k /\ n' = n).
Proof.
  unfold kv_mem. rewrite kv_add_get. destruct (eqb_list k' k) eqn:E.
  - apply eqb_list_eq in E. subst k'. split.
    + intros [s [Hs Hin]]. inversion Hs; subst. apply set_insert_In in Hin as [Hin|Hin].
      * right. split; [reflexivity | exact Hin].
      * left. destruct (kv_get k kv) eqn:G; [|contradiction]. exists l. split; [reflexivity | exact Hin].
    + intros [[s [Hs Hin]]|[_ Hn]].
      * rewrite Hs. eexists. split; [reflexivity|]. apply set_insert_In. right. exact Hin.
      * subst. eexists. split; [reflexivity|]. apply set_insert_In. left. reflexivity.
  - apply eqb_list_neq in E. split.
    + intros H. left. exact H.
    + intros [H|[H _]]; [exact H | contradiction].
Qed.

Lemma kv_add_keys_nodup keys n kv : NoDup (map fst kv) -> NoDup (map fst (kv_add_keys keys n kv)).
Proof.
  unfold kv_add_keys. revert kv. induction keys as [|k keys IH]; intros kv H; simpl; [exact H|].
  apply IH. apply kv_add_nodup. exact H.
Qed.

Lemma kv_add_keys_asc keys n kv : kv_asc kv -> kv_asc (kv_add_keys keys n kv).
Proof.
  unfold kv_add_keys. revert kv. induction keys as [|k keys IH]; intros kv H; simpl; [exact H|].
  apply IH. apply kv_add_asc. exact H.
Qed.

Lemma kv_add_keys_mem keys n kv k' n' :
  kv_mem (kv_add_keys keys n kv) k' n' <-> kv_mem kv k' n' \/ (In k' keys /\ n' = n).
Proof.
  unfold kv_add_keys. revert kv. induction keys as [|k keys IH]; intros kv; simpl.
  - intuition.
  - rewrite IH, kv_add_mem. intuition.
Qed.

Lemma kv_mem_nil k n : ~ kv_mem [] k n.
Proof. intros [s [H _]]. discriminate. Qed.

(* ---------------- filter_blocks and scan ---------------- *)
Lemma filter_blocks_asc m kv : asc (filter_blocks m kv).
Proof.
  induction kv as [|e kv IH]; simpl; [apply asc_nil|].
  destruct (m (fst e)); [apply set_union_asc; exact IH | exact IH].
Qed.

Lemma filter_blocks_In m kv n :
  In n (filter_blocks m kv) <-> exists k s, In (k, s) kv /\ m k = true /\ In n s.
Proof.
  induction kv as [|[k0 s0] kv IH]; simpl.
  - split; [tauto | intros [k [s [H _]]]; exact H].
  - destruct (m k0) eqn:E.
    + rewrite set_union_In, IH. split.
      * intros [H|[k [s [H1 H2]]]].
        -- exists k0, s0. auto.
        -- exists k, s. auto.
      * intros [k [s [[H1|H1] [H2 H3]]]].
        -- inversion H1; subst. left. exact H3.
        -- right. exists k, s. auto.
    + rewrite IH. split.
      * intros [k [s [H1 H2]]]. exists k, s. auto.
      * intros [k [s [[H1|H1] [H2 H3]]]].
        -- inversion H1; subst. congruence.
        -- exists k, s. auto.
Qed.

Lemma filter_blocks_mem m kv n :
  NoDup (map fst kv) ->
  (In n (filter_blocks m kv) <-> exists k, m k = true /\ kv_mem kv k n).
Proof.
  intros Hnd. rewrite filter_blocks_In. unfold kv_mem. split.
  - intros [k [s [H1 [H2 H3]]]]. exists k. split; [exact H2|]. exists s. split; [|exact H3].
    apply kv_get_In; assumption.
  - intros [k [H2 [s [H1 H3]]]]. exists k, s. split; [|split; assumption].
    apply kv_get_In; assumption.
Qed.

Lemma scan_spec lo hi l :
  asc l -> asc (scan lo hi l) /\ forall n, In n (scan lo hi l) <-> (In n l /\ lo <= n < hi).
Proof.
  induction l as [|b l IH]; intros H; simpl.
  - split; [apply asc_nil | intros n; tauto].
  - apply asc_cons in H as [H1 H2]. destruct (IH H1) as [IHa IHi]. rewrite Forall_forall in H2.
    destruct (b <? lo) eqn:E1.
    + apply N.ltb_lt in E1. split; [exact IHa|]. intros n. rewrite IHi. split.
      * intros [Hn Hr]. split; [right; exact Hn | exact Hr].
      * intros [[Hn|Hn] Hr]; [subst; lia | split; assumption].
    + apply N.ltb_ge in E1. destruct (hi <=? b) eqn:E2.
      * apply N.leb_le in E2. split; [apply asc_nil|]. intros n. simpl. split; [tauto|].
        intros [[Hn|Hn] Hr]; [subst; lia | apply H2 in Hn; lia].
      * apply N.leb_gt in E2. split.
        -- apply asc_cons. split; [exact IHa|]. apply Forall_forall. intros n Hn.
           apply IHi in Hn as [Hn _]. apply H2. exact Hn.
        -- intros n. simpl. rewrite IHi. split.
           ++ intros [Hn|[Hn Hr]]; [subst; split; [left; reflexivity | lia] | split; [right; exact Hn | exact Hr]].
           ++ intros [[Hn|Hn] Hr]; [left; exact Hn | right; split; assumption].
Qed.
