(* C07, target-cursor mode: the answer of hub.SourceThroughCursor for a target cursor whose block the hub stores OFF its
   current chain (the branch of blocksThroughCursor that target_on_chain excluded): the cursor's own branch from the
   requested number up to the cursor block, then the answer of blocksFromCursor (Undo down to the junction, New up to the
   head).  For a cursor minted on the chain (cursor block T and cursor LIB block L canonical, L at or below T) a consumer
   that holds a run Q of canonical blocks ending under the requested block ends on the hub's chain (off_rel): the cursor's
   branch from the requested block bn on is canonical (anc_on_run), so after it the consumer holds the canonical run up to
   T - which is what a consumer of cursor mode holds above L (cursor_burst, generalised to a consumer that also holds
   blocks at and below L: cursor_burst_P), or an upper part of it (sfold_trunc). *)
From Coq Require Import Sorted.
From BV Require Import Base.Prelude Model.Block Model.ForkDB Model.Forkable Model.ForkableLookups Model.Burst Model.Hub
  Model.CursorResolver Model.Joining
  Spec.Consumer Spec.Universe Check.Fk_Check Check.Burst_Check Check.C07_Check
  Spec.C09_Spec Spec.C05_Spec Spec.C05_Through_Spec Spec.C06_Spec Spec.C07_Spec Spec.C13_Spec Spec.C07_Compose_Spec Spec.C07_Shapes_Spec Spec.C07_More_Spec
  Proofs.C06_Lists Proofs.C09_Store Proofs.C09_Segment Proofs.C09_Proofs Proofs.C05_Fast Proofs.C05_Forked Proofs.C05_Through
  Proofs.Fk.LoopFacts Proofs.Hub.ConsFacts Proofs.Hub.HubFed Proofs.Hub.LinkedRuns Proofs.Hub.C09_History
  Proofs.C07_ComposeStack Proofs.C07_ComposeHub Proofs.C07_ComposeRun Proofs.C07_Compose
  Proofs.C07_ComposeCursor Proofs.C07_ComposeCursorLive Proofs.C07_ComposeCursorAll Proofs.C07_ComposeTarget
  Proofs.C07_Raw Proofs.C07_Disc.
Local Open Scope N_scope.

(* the stack machine on the upper part st of a stack st ++ R: as long as the full machine succeeds so does the truncated
   one (an Undo on the empty stack is set aside, the first push on the empty stack is accepted), and the full result is
   the truncated result over what is left of R *)
Lemma sfold_trunc : forall l st R F, sfold (st ++ R) l = Some F ->
  exists st' R0 R', sfold st l = Some st' /\ F = st' ++ R' /\ R = R0 ++ R'.
Proof.
  induction l as [|e l IH]; intros st R F H.
  - cbn [sfold] in H. injection H as <-. exists st, [], R. auto.
  - cbn [sfold] in H |- *. destruct (sapply (st ++ R) e) as [F1|] eqn:E1; [|discriminate].
    assert (Hstep : exists st1 R0 R1, sapply st e = Some st1 /\ F1 = st1 ++ R1 /\ R = R0 ++ R1).
    { unfold sapply in E1 |- *. destruct (estep e).
      - destruct st as [|top st0]; cbn [app] in E1.
        + destruct R as [|r0 R0'].
          * injection E1 as <-. exists [eblk e], [], []. repeat split.
          * destruct (bparent (eblk e) =? bid r0); [|discriminate]. injection E1 as <-. exists [eblk e], [], (r0 :: R0'). repeat split.
        + destruct (bparent (eblk e) =? bid top); [|discriminate]. injection E1 as <-. exists (eblk e :: top :: st0), [], R. repeat split.
      - destruct st as [|top st0]; cbn [app] in E1.
        + destruct R as [|r0 R0'].
          * injection E1 as <-. exists [], [], []. repeat split.
          * destruct (bid (eblk e) =? bid r0); [|discriminate]. injection E1 as <-. exists [], [r0], R0'. repeat split.
        + destruct (bid (eblk e) =? bid top); [|discriminate]. injection E1 as <-. exists st0, [], R. repeat split.
      - injection E1 as <-. exists st, [], R. repeat split.
      - injection E1 as <-. exists st, [], R. repeat split.
      - destruct st as [|top st0]; cbn [app] in E1.
        + destruct R as [|r0 R0'].
          * injection E1 as <-. exists [eblk e], [], []. repeat split.
          * destruct (bparent (eblk e) =? bid r0); [|discriminate]. injection E1 as <-. exists [eblk e], [], (r0 :: R0'). repeat split.
        + destruct (bparent (eblk e) =? bid top); [|discriminate]. injection E1 as <-. exists (eblk e :: top :: st0), [], R. repeat split. }
    destruct Hstep as (st1 & R0 & R1 & Hs & -> & ->). rewrite Hs.
    destruct (IH st1 R1 F H) as (st' & R0' & R' & Hf & -> & ->).
    exists st', (R0 ++ R0'), R'. split; [exact Hf|]. split; [reflexivity | rewrite app_assoc; reflexivity].
Qed.

Section BurstP.
  Variable U : list block.
  Variables first kept : N.
  Hypothesis U_id : forall b, In b U -> bid b <> 0 /\ bid b <> bparent b.
  Hypothesis U_uniq : forall x y, In x U -> In y U -> bid x = bid y -> x = y.
  Hypothesis U_up : forall x y, In x U -> In y U -> bparent x = bid y -> bnum y < bnum x.

  (* cursor_burst (Proofs/C07_ComposeCursorLive.v) for a consumer that also holds P below the cursor LIB block L (P ends
     with L) *)
  Lemma cursor_burst_P s V cu L T K Kf P burst :
    VState U first kept s V ->
    bref L = cu_lib cu -> In L U -> bref T = cu_blk cu -> In T U ->
    Kf = (if is_undo cu then K ++ [T] else K) -> lnk (bid L) Kf -> Forall (fun x => In x U) Kf ->
    tip (bid L) Kf = bid T ->
    (P = [] \/ exists P0, P = P0 ++ [L]) ->
    blocks_from_cursor s cu = BOk burst ->
    exists hd sg lo xL hi,
      last_sent s = Some hd /\ complete_segment (db s) (bref hd) = Some (sg, true) /\ good_seg sg /\
      sg = lo ++ xL :: hi /\ seg_blk xL = L /\
      lnk (bid L) (map seg_blk hi) /\ Forall (fun y => In y U) (map seg_blk hi) /\
      sfold (rev (P ++ K)) burst = Some (rev (P ++ map seg_blk hi)).
  Proof.
    intros HV HL HLU HT HTU HKf HlKf HKfU Htip HP Hb.
    destruct (vstate_facts U first kept U_id U_uniq U_up s V HV) as (_ & _ & W & hd & Hls & _).
    destruct (vstate_store U first kept U_id U_uniq U_up s V HV) as (HstoreU & Hst).
    pose proof W as [[Wst _] _].
    pose proof Hb as Hb0. unfold blocks_from_cursor in Hb0.
    destruct (has_lib (db s)) eqn:Ehl; [|discriminate]. cbn [negb] in Hb0. rewrite Hls in Hb0.
    destruct (complete_segment (db s) (bref hd)) as [[sg [|]]|] eqn:Eseg; try discriminate.
    2:{ destruct sg; discriminate. }
    destruct sg as [|s0 sg0]; [discriminate|]. set (sg := s0 :: sg0) in *.
    destruct (rn (cu_lib cu) <? snum s0); [discriminate|].
    destruct (vstate_segment U first kept U_id U_uniq U_up s V hd sg true HV Hls Eseg) as (Hgood & HsU & _).
    pose proof (Hst hd sg true Hls Eseg) as Hstored.
    destruct (block_in (ri (cu_lib cu)) sg) eqn:Elib.
    2:{ exfalso. destruct (c05_no_lib_no_source_proof s cu) as (_ & _ & _ & _ & H5). exact (H5 hd sg Hls Eseg Elib burst Hb). }
    destruct (seg_at_L U U_id U_uniq U_up sg Hgood HsU cu L T Kf HL HLU HT HTU Htip Elib)
      as (lo & xL & hi & Hsplit & HbL & _ & Habove & _ & _ & _ & _ & Hlhi & HhiU).
    assert (Hlinks0 : stack_links P hi).
    { unfold stack_links. destruct HP as [->|[P0 ->]]; [exact I|].
      rewrite rev_app_distr. cbn [rev app]. destruct hi as [|x hi']; [exact I|]. cbn [map lnk] in Hlhi. exact (proj1 Hlhi). }
    assert (Hlinks : forall cj, cu_lib cj = cu_lib cu -> stack_links P (above_seg cj sg)).
    { intros cj Ecj. assert (E : above_seg cj sg = above_seg cu sg) by (unfold above_seg, above_clib; rewrite Ecj; reflexivity).
      rewrite E, Habove. exact Hlinks0. }
    exists hd, sg, lo, xL, hi. split; [exact Hls|]. split; [exact Eseg|]. split; [exact Hgood|]. split; [exact Hsplit|].
    split; [exact HbL|]. split; [exact Hlhi|]. split; [exact HhiU|].
    destruct (block_in (ri (cu_blk cu)) sg) eqn:Eblk.
    - destruct (c05_fast_path_shape_proof s hd sg cu Hgood) as (_ & _ & Hloop).
      unfold fuel_of in Hb0. rewrite (Hloop _ Eblk Elib) in Hb0. injection Hb0 as <-.
      pose proof (c05_fast_path_consumer_proof s hd sg cu P false Hgood) as Hc. cbv zeta in Hc.
      rewrite (fast_match U U_id U_uniq U_up sg Hgood HsU cu L T K Kf HL HLU HT HTU HKf HlKf HKfU Htip Elib Eblk), Habove in Hc.
      apply (cons_fold_sfold _ _ _ (Hc ltac:(intros _; exact Hlinks0))).
    - destruct (c05_forked_path_proof s hd sg cu Wst Hstored) as (Hex & _ & _ & _ & Hburst).
      destruct (Hburst Elib Eblk) as [Hserved Hbroken].
      destruct Hex as [(path & j & B)|Hbr]; [|rewrite (Hbroken Hbr) in Hb0; discriminate].
      destruct (Hserved path j B) as (je & Hje & _).
      pose proof (c05_resume_partial_proof s hd sg cu path j je P false Wst Hstored Hgood Elib Eblk B Hje) as Hc. cbv zeta in Hc.
      destruct (Hc ltac:(intros _; apply Hlinks; reflexivity)) as (evs & Hevs & Hfold).
      rewrite Hevs in Hb0. injection Hb0 as <-.
      rewrite <- (forked_match U U_id U_uniq U_up s sg Hgood Hstored HsU HstoreU Wst cu L T K Kf HL HLU HT HTU HKf HlKf HKfU Htip Elib hd path j je Eblk B Hje), Habove in Hfold.
      exact (cons_fold_sfold _ _ _ Hfold).
  Qed.
End BurstP.

(* the canonical run from L (excluded) to T *)
Lemma canon_run U canon (L T : block) :
  (forall b, In b U -> bid b <> 0 /\ bid b <> bparent b) ->
  (forall x y, In x U -> In y U -> bid x = bid y -> x = y) ->
  (forall x y, In x U -> In y U -> bparent x = bid y -> bnum y < bnum x) ->
  Forall (fun x => In x U) canon -> (exists x, lnk x canon) ->
  In L canon -> In T canon -> bnum L <= bnum T ->
  exists Kf, lnk (bid L) Kf /\ Forall (fun x => In x U) Kf /\ tip (bid L) Kf = bid T /\
             ((T = L /\ Kf = []) \/ exists K', Kf = K' ++ [T]).
Proof.
  intros U_id U_uniq U_up HcU [x Hl] HL HT Hle.
  pose proof (linked_sorted U U_id U_uniq U_up canon x Hl HcU) as HS.
  destruct (in_split _ _ HL) as (c1 & r & Ec). rewrite Ec in HT.
  assert (Hlr : lnk (bid L) r).
  { rewrite Ec in Hl. apply linked_app_iff in Hl as [_ Hl]. cbn [lnk] in Hl. exact (proj2 Hl). }
  assert (HrU : Forall (fun y => In y U) r).
  { rewrite Ec in HcU. apply Forall_app in HcU as [_ H]. exact (Forall_inv_tail H). }
  apply in_app_or in HT as [HT|[HT|HT]].
  - exfalso. rewrite Ec in HS. destruct (Proofs.C09_Proofs.StronglySorted_split blt c1 L r HS) as [H _].
    specialize (H T HT). unfold blt in H. lia.
  - exists []. split; [exact I|]. split; [constructor|]. split; [unfold tip; cbn; rewrite HT; reflexivity|]. left. split; [symmetry; exact HT | reflexivity].
  - destruct (in_split _ _ HT) as (r1 & r2 & Er). exists (r1 ++ [T]).
    split; [apply (linked_prefix (bid L) (r1 ++ [T]) r2); rewrite <- app_assoc; cbn [app]; rewrite <- Er; exact Hlr|].
    split.
    { rewrite Er in HrU. apply Forall_app in HrU as [H1 H2]. apply Forall_app. split; [exact H1 | constructor; [exact (Forall_inv H2) | constructor]]. }
    split; [apply tip_snoc|]. right. exists r1. reflexivity.
Qed.

(* what the consumer holds (H) against what a consumer at the cursor holds above the cursor LIB block L (K) *)
Lemma hold_cases U (L T : block) (Qall Kf : list block) (x0 : N) (u : bool) :
  (forall x y, In x U -> In y U -> bid x = bid y -> x = y) ->
  In L U ->
  lnk x0 (Qall ++ [T]) -> Forall (fun y => In y U) (Qall ++ [T]) ->
  lnk (bid L) Kf -> Forall (fun y => In y U) Kf ->
  ((T = L /\ Kf = []) \/ exists K', Kf = K' ++ [T]) ->
  (u = true -> Kf <> []) ->
  let H := if u then Qall else Qall ++ [T] in
  let K := if u then removelast Kf else Kf in
  Kf = (if u then K ++ [T] else K) /\
  ((exists d, H = (d ++ [L]) ++ K) \/ (exists d, K = d ++ H /\ Kf = d ++ Qall ++ [T])).
Proof.
  intros U_uniq HLU HlQ HQU HlK HKU Hshape Hu H K.
  assert (HlLK : lnk (bparent L) (L :: Kf)) by (cbn [lnk]; auto).
  assert (HLKU : Forall (fun y => In y U) (L :: Kf)) by (constructor; assumption).
  destruct Hshape as [[ETL ->]|[K' EK]].
  - (* T = L, nothing above L *)
    assert (Eu : u = false) by (destruct u; [exfalso; apply Hu; reflexivity | reflexivity]).
    subst u. subst H K. cbn beta iota. split; [reflexivity|]. left. exists Qall. rewrite ETL, app_nil_r. reflexivity.
  - assert (EKf : Kf = (if u then K ++ [T] else K)).
    { subst K. destruct u; [rewrite EK, removelast_last; reflexivity | reflexivity]. }
    split; [exact EKf|].
    assert (HlLK' : lnk (bparent L) ((L :: K') ++ [T])) by (cbn [app]; rewrite <- EK; exact HlLK).
    assert (HLKU' : Forall (fun y => In y U) ((L :: K') ++ [T])) by (cbn [app]; rewrite <- EK; exact HLKU).
    destruct (linked_same_end U U_uniq Qall (L :: K') x0 (bparent L) T HlQ HlLK' HQU HLKU') as [[d Ed]|[d Ed]].
    + left. exists d. subst H K. destruct u.
      * rewrite EK, removelast_last, Ed, <- app_assoc. reflexivity.
      * rewrite EK, Ed, <- !app_assoc. reflexivity.
    + destruct d as [|d0 d'].
      * left. exists []. cbn [app] in Ed. subst H K. destruct u.
        -- rewrite EK, removelast_last, <- Ed. reflexivity.
        -- rewrite EK, <- Ed. reflexivity.
      * right. cbn [app] in Ed. injection Ed as _ Ed. exists d'. subst H K. destruct u.
        -- rewrite EK, removelast_last, Ed, <- app_assoc. split; reflexivity.
        -- rewrite EK, Ed, <- !app_assoc. split; reflexivity.
Qed.

Section Off.
  Variable U : list block.
  Variables first kept : N.
  Hypothesis U_id : forall b, In b U -> bid b <> 0 /\ bid b <> bparent b.
  Hypothesis U_uniq : forall x y, In x U -> In y U -> bid x = bid y -> x = y.
  Hypothesis U_up : forall x y, In x U -> In y U -> bparent x = bid y -> bnum y < bnum x.
  Variable canon : list block.
  Hypothesis Hcanon_U : Forall (fun x => In x U) canon.
  Hypothesis Hcanon_l : exists x, lnk x canon.
  Variable start : N.
  Variable cu : cursor.
  Variables T L : block.
  Hypothesis HT : bref T = cu_blk cu.
  Hypothesis HTc : In T canon.
  Hypothesis HL : bref L = cu_lib cu.
  Hypothesis HLc : In L canon.
  Hypothesis HLT : bnum L <= bnum T.
  Hypothesis Hundo : is_undo cu = true -> bnum L < bnum T.

  Let HTU : In T U. Proof. rewrite Forall_forall in Hcanon_U. exact (Hcanon_U T HTc). Qed.
  Let HLU : In L U. Proof. rewrite Forall_forall in Hcanon_U. exact (Hcanon_U L HLc). Qed.

  (* the answer "through the cursor" for a cursor block stored off the head's segment: the cursor's own branch from n on
     (the canonical blocks from bn to the cursor block), then blocks_from_cursor *)
  Lemma off_shape s V hd sg n burst bn :
    VState U first kept s V -> last_sent s = Some hd -> complete_segment (db s) (bref hd) = Some (sg, true) ->
    block_in (ri (cu_blk cu)) sg = false -> n <= rn (cu_blk cu) -> blocks_through_cursor s n cu = BOk burst ->
    In bn canon -> bnum bn = n ->
    exists pre evs M',
      burst = pre ++ evs /\ blocks_from_cursor s cu = BOk evs /\
      Forall (fun e => matches_new (estep e) = true) pre /\
      lnk (bid bn) M' /\ Forall (fun y => In y U) (bn :: M') /\
      (exists q, bn :: M' = q ++ [T]) /\
      map eblk pre = (if is_undo cu then removelast (bn :: M') else bn :: M').
  Proof.
    intros HV Hls Eseg Hoff Hn Hb Hbnc Hbnn.
    destruct (vstate_facts U first kept U_id U_uniq U_up s V HV) as (_ & _ & W & _).
    destruct (vstate_store U first kept U_id U_uniq U_up s V HV) as (HstoreU & _).
    destruct (vstate_segment U first kept U_id U_uniq U_up s V hd sg true HV Hls Eseg) as (Hgood & _ & _).
    assert (Hhl : has_lib (db s) = true).
    { unfold blocks_through_cursor in Hb. destruct (has_lib (db s)); [reflexivity | discriminate]. }
    assert (Hsw : starts_within sg n).
    { unfold blocks_through_cursor in Hb. rewrite Hhl, Hls, Eseg in Hb. cbn [negb] in Hb.
      destruct sg as [|s0 sg0]; [discriminate|]. cbn [starts_within].
      destruct (n <? snum s0) eqn:E; [discriminate|]. apply N.ltb_ge in E.
      destruct Hgood as [Hstd _ _ _]. destruct (Forall_inv Hstd) as [_ H]. rewrite <- H. exact E. }
    assert (Hcn : cursor_numbered (db s) cu).
    { intros e He. assert (E : eb e = T).
      { apply U_uniq; [apply HstoreU; eapply find_In; exact He | exact HTU|].
        pose proof (find_key _ _ _ He) as Hk. transitivity (ri (cu_blk cu)); [exact Hk | rewrite <- HT; reflexivity]. }
      rewrite E, <- HT. reflexivity. }
    destruct (c05_through_forked_proof s hd sg n cu W (conj Hhl (conj Hls Eseg)) Hsw Hoff Hcn)
      as (csg & reach & Ecs & Gc & Hcst & _ & Htop & _ & Hnil & Hnr & Hbelow & _ & Hmain).
    destruct csg as [|c0 rest]; [rewrite (Hnil eq_refl) in Hb; discriminate|].
    destruct reach; [|rewrite (Hnr eq_refl) in Hb; discriminate].
    destruct (N.lt_ge_cases n (bnum (seg_blk c0))) as [Hlt|Hc0]; [rewrite (Hbelow c0 rest eq_refl Hlt) in Hb; discriminate|].
    destruct (Hmain eq_refl c0 rest eq_refl Hc0 Hn) as (Heq & (lo & mid & top & Ecsg & Htopid & Hlo & Hmid & Eown) & _).
    cbv zeta in Heq. rewrite Hb in Heq.
    destruct (blocks_from_cursor s cu) as [evs| | |] eqn:Ebc; try discriminate. injection Heq as Eburst.
    set (csg := c0 :: rest) in *.
    (* the branch: blocks of the universe, parent-linked, ending with T *)
    pose proof Gc as [Hstd Hlk Hinc _].
    assert (HcsU : Forall (fun y => In y U) (map seg_blk csg)).
    { apply Forall_forall. intros y Hy. apply in_map_iff in Hy as (x & <- & Hx). apply HstoreU. eapply find_In. exact (Hcst x Hx). }
    destruct (seg_linked_all csg Hlk Hstd) as [xc Hlc].
    assert (Etop : seg_blk top = T).
    { apply U_uniq; [rewrite Forall_forall in HcsU; apply HcsU; apply in_map; rewrite Ecsg; apply in_or_app; right; apply in_or_app; right; left; reflexivity | exact HTU|].
      rewrite Forall_forall in Hstd. destruct (Hstd top) as [H1 _]; [rewrite Ecsg; apply in_or_app; right; apply in_or_app; right; left; reflexivity|].
      rewrite <- H1, Htopid, <- HT. reflexivity. }
    set (MT := map seg_blk (mid ++ [top])).
    assert (Ecb : map seg_blk csg = map seg_blk lo ++ MT) by (rewrite Ecsg, map_app; reflexivity).
    assert (HMT : MT = map seg_blk mid ++ [T]) by (unfold MT; rewrite map_app; cbn [map]; rewrite Etop; reflexivity).
    (* bn is on the branch: the first block of MT *)
    assert (Hbn_in : In bn (map seg_blk csg)).
    { apply (anc_on_run U U_id U_uniq U_up (map seg_blk csg) canon (seg_blk c0) (map seg_blk rest) T bn eq_refl
               (ex_intro _ xc Hlc) Hcanon_l HcsU Hcanon_U).
      - rewrite Ecb, HMT. apply in_or_app. right. apply in_or_app. right. left. reflexivity.
      - exact HTc.
      - exact Hbnc.
      - rewrite Hbnn. rewrite <- HT in Hn. exact Hn.
      - rewrite Hbnn. exact Hc0. }
    pose proof (linked_sorted U U_id U_uniq U_up _ xc Hlc HcsU) as HS.
    assert (HMTl : lnk (tip xc (map seg_blk lo)) MT) by (rewrite Ecb in Hlc; apply linked_app_iff in Hlc; exact (proj2 Hlc)).
    assert (HMTU : Forall (fun y => In y U) MT) by (rewrite Ecb in HcsU; apply Forall_app in HcsU; exact (proj2 HcsU)).
    assert (HMTge : forall y, In y MT -> n <= bnum y).
    { intros y Hy. unfold MT in Hy. apply in_map_iff in Hy as (x & <- & Hx). exact (Hmid x Hx). }
    assert (EMT : exists M', MT = bn :: M').
    { rewrite Ecb in Hbn_in. apply in_app_or in Hbn_in as [Hin|Hin].
      - exfalso. apply in_map_iff in Hin as (x & Ex & Hx). specialize (Hlo x Hx). rewrite Ex in Hlo. lia.
      - destruct MT as [|m0 M'] eqn:EM; [destruct Hin|]. exists M'. f_equal. destruct Hin as [E|Hin]; [exact E|]. exfalso.
        pose proof (linked_sorted U U_id U_uniq U_up _ _ HMTl HMTU) as HS2. inversion HS2 as [|? ? _ Hall]; subst.
        rewrite Forall_forall in Hall. specialize (Hall bn Hin). unfold blt in Hall.
        specialize (HMTge m0 (or_introl eq_refl)). lia. }
    destruct EMT as [M' EMT].
    exists (map (through_event hd cu) (filter (through_keep n cu) csg)), evs, M'.
    split; [exact Eburst|]. split; [reflexivity|].
    split.
    { apply Forall_forall. intros e He. apply in_map_iff in He as (x & <- & _). unfold through_event. cbn [estep].
      destruct (bnum (seg_blk x) <=? rn (cu_lib cu)); reflexivity. }
    split; [rewrite EMT in HMTl; cbn [lnk] in HMTl; exact (proj2 HMTl)|].
    split; [rewrite <- EMT; exact HMTU|].
    split; [exists (map seg_blk mid); rewrite <- EMT; exact HMT|].
    rewrite map_map. cbn [through_event eblk]. fold csg in Eown. rewrite Eown, <- EMT, HMT.
    destruct (is_undo cu); [rewrite removelast_last; reflexivity | rewrite <- HMT; reflexivity].
  Qed.

  (* the consumer that holds the run Q (files) and is handed that answer ends, like a consumer of cursor mode, on the hub's
     chain - against the reference consumer V *)
  Lemma off_rel s V hd sg n burst Q bn :
    VState U first kept s V -> last_sent s = Some hd -> complete_segment (db s) (bref hd) = Some (sg, true) ->
    block_in (ri (cu_blk cu)) sg = false -> n <= rn (cu_blk cu) -> blocks_through_cursor s n cu = BOk burst ->
    In bn canon -> bnum bn = n ->
    (exists x, lnk x (Q ++ [bn])) -> Forall (fun y => In y U) Q ->
    (forall z r, Q ++ [bn] = z :: r -> bnum z <= start) ->
    exists J1 E, sfold (rev Q) burst = Some J1 /\ Rel U start (V ++ E) J1 /\ disc U start (rev Q) burst.
  Proof.
    intros HV Hls Eseg Hoff Hn Hb Hbnc Hbnn [x0 HlQ] HQU Hbot.
    destruct (off_shape s V hd sg n burst bn HV Hls Eseg Hoff Hn Hb Hbnc Hbnn)
      as (pre & evs & M' & -> & Hbc & Hprenew & HlM & HMU & [q Eq] & Hpremap).
    (* the whole run the consumer holds or has just been told to undo: Qall ++ [T] *)
    set (Qall := Q ++ q).
    assert (EQall : Q ++ bn :: M' = Qall ++ [T]) by (unfold Qall; rewrite Eq, app_assoc; reflexivity).
    assert (HlAll : lnk x0 (Qall ++ [T])).
    { rewrite <- EQall. change (bn :: M') with ([bn] ++ M'). rewrite app_assoc. apply linked_app_iff. split; [exact HlQ|].
      rewrite tip_snoc. exact HlM. }
    assert (HAllU : Forall (fun y => In y U) (Qall ++ [T])) by (rewrite <- EQall; apply Forall_app; split; assumption).
    destruct (canon_run U canon L T U_id U_uniq U_up Hcanon_U Hcanon_l HLc HTc HLT) as (Kf & HlKf & HKfU & HtipKf & Hshape).
    assert (Hu : is_undo cu = true -> Kf <> []).
    { intros Hud E. destruct Hshape as [[ETL _]|[K' EK]]; [specialize (Hundo Hud); rewrite ETL in Hundo; lia | rewrite EK in E; destruct K'; discriminate]. }
    destruct (hold_cases U L T Qall Kf x0 (is_undo cu) U_uniq HLU HlAll HAllU HlKf HKfU Hshape Hu) as (EKf & Hcases).
    set (H := if is_undo cu then Qall else Qall ++ [T]) in *.
    set (K := if is_undo cu then removelast Kf else Kf) in *.
    (* the own branch: pushes *)
    assert (EH : H = Q ++ map eblk pre).
    { unfold H, Qall. rewrite Hpremap, Eq. destruct (is_undo cu); [rewrite removelast_last; reflexivity | rewrite app_assoc; reflexivity]. }
    assert (HlH : lnk x0 H).
    { unfold H. destruct (is_undo cu); [eapply linked_prefix; exact HlAll | exact HlAll]. }
    assert (HHU : Forall (fun y => In y U) H).
    { unfold H. destruct (is_undo cu); [apply Forall_app in HAllU; exact (proj1 HAllU) | exact HAllU]. }
    assert (Hpre : sfold (rev Q) pre = Some (rev H)).
    { rewrite EH, rev_app_distr. apply sfold_pushes; [exact Hprenew|].
      rewrite EH in HlH. apply linked_app_iff in HlH as [_ HlO].
      destruct (rev Q) as [|top rq] eqn:ErQ.
      - exists (tip x0 Q). exact HlO.
      - assert (EQ : Q = rev rq ++ [top]) by (rewrite <- (rev_involutive Q), ErQ; reflexivity).
        rewrite EQ, tip_snoc in HlO. exact HlO. }
    (* the first block the consumer holds / is told about *)
    assert (Hfirst : exists z r, Qall ++ [T] = z :: r /\ bnum z <= start).
    { rewrite <- EQall. destruct Q as [|z0 Q0]; cbn [app].
      - exists bn, M'. split; [reflexivity | apply (Hbot bn []); reflexivity].
      - exists z0, (Q0 ++ bn :: M'). split; [reflexivity | apply (Hbot z0 (Q0 ++ [bn])); reflexivity]. }
    destruct Hfirst as (z & rz & Ez & Hz).
    (* every beginning of the own branch leaves a good stack; so does every beginning of the cursor-mode answer, given
       its end state *)
    assert (HQst : rev Q = [] \/ Stand U start (rev Q)).
    { destruct (list_eq_nil_or_cons Q) as [EQ|(q0 & Q0 & EQ)]; [left; rewrite EQ; reflexivity|]. right.
      split; [rewrite EQ; cbn [rev]; destruct (rev Q0); discriminate|]. split.
      - split; [apply Forall_forall; intros y Hy; apply in_rev in Hy; rewrite Forall_forall in HQU; exact (HQU y Hy)|].
        exists x0. rewrite rev_involutive. eapply linked_prefix. exact HlQ.
      - exists (rev Q0), q0. split; [rewrite EQ; reflexivity | apply (Hbot q0 (Q0 ++ [bn])); rewrite EQ; reflexivity]. }
    assert (Hprefix : exists t, Qall ++ [T] = H ++ t).
    { unfold H. destruct (is_undo cu); [exists [T]; reflexivity | exists []; rewrite app_nil_r; reflexivity]. }
    assert (Hhead : forall h0 H0, H = h0 :: H0 -> h0 = z).
    { intros h0 H0 EHH. destruct Hprefix as [t Et]. rewrite EHH, Ez in Et. cbn [app] in Et. injection Et as E _. symmetry. exact E. }
    assert (HHst : rev H = [] \/ Stand U start (rev H)).
    { destruct (list_eq_nil_or_cons H) as [EHH|(h0 & H0 & EHH)]; [left; rewrite EHH; reflexivity|]. right.
      split; [rewrite EHH; cbn [rev]; destruct (rev H0); discriminate|]. split.
      - split; [apply Forall_forall; intros y Hy; apply in_rev in Hy; rewrite Forall_forall in HHU; exact (HHU y Hy)|].
        exists x0. rewrite rev_involutive. exact HlH.
      - exists (rev H0), h0. split; [rewrite EHH; reflexivity|]. rewrite (Hhead h0 H0 EHH). exact Hz. }
    assert (Hdpre : disc U start (rev Q) pre).
    { assert (HpU : Forall (fun y => In y U) (map eblk pre)) by (rewrite EH in HHU; apply Forall_app in HHU; exact (proj2 HHU)).
      assert (Hpl : match rev Q with
                    | top :: _ => lnk (bid top) (map eblk pre)
                    | [] => (exists x, lnk x (map eblk pre)) /\ (forall z r, map eblk pre = z :: r -> bnum z <= start)
                    end).
      { pose proof HlH as HlH'. rewrite EH in HlH'. apply linked_app_iff in HlH' as [_ HlO].
        destruct (rev Q) as [|top rq] eqn:ErQ.
        + split; [exists (tip x0 Q); exact HlO|].
          assert (EQ : Q = []) by (rewrite <- (rev_involutive Q), ErQ; reflexivity).
          intros z1 r1 Ez1. rewrite (Hhead z1 r1); [exact Hz|]. rewrite EH, EQ, Ez1. reflexivity.
        + assert (EQ : Q = rev rq ++ [top]) by (rewrite <- (rev_involutive Q), ErQ; reflexivity).
          rewrite EQ, tip_snoc in HlO. exact HlO. }
      exact (proj1 (proj2 (pushes_disc U start pre (rev Q) HQst Hprenew HpU Hpl))). }
    assert (Hdall : forall J1 E, sfold (rev H) evs = Some J1 -> Rel U start (V ++ E) J1 -> disc U start (rev Q) (pre ++ evs)).
    { intros J1 E HJ1 HR1. apply (disc_app U start (rev Q) (rev H) pre evs Hdpre Hpre).
      destruct (from_cursor_split s cu evs Hbc) as (us & ns & -> & Hus & Hns).
      apply (disc_undo_push U start (rev H) us ns J1); [apply stand_good; exact HHst | right; exists (V ++ E); exact HR1 | exact Hus | exact Hns | exact HJ1]. }
    destruct Hcases as [[d EHd]|[d [EKd EKfd]]].
    - (* the consumer holds the cursor LIB block: P = d ++ [L] *)
      destruct (cursor_burst_P U first kept U_id U_uniq U_up s V cu L T K Kf (d ++ [L]) evs HV HL HLU HT HTU EKf HlKf HKfU HtipKf
                  (or_intror (ex_intro _ d eq_refl)) Hbc)
        as (hd' & sg' & lo & xL & hi & Hls' & Eseg' & Hgood & Hsplit & HbL & Hlhi & HhiU & Hfold).
      rewrite <- EHd in Hfold.
      exists (rev ((d ++ [L]) ++ map seg_blk hi)), [].
      assert (HRB : Rel U start (V ++ []) (rev ((d ++ [L]) ++ map seg_blk hi))); [|split; [rewrite sfold_app, Hpre; exact Hfold|]; split; [exact HRB | exact (Hdall _ [] Hfold HRB)]].
      rewrite app_nil_r.
      destruct (vstate_facts U first kept U_id U_uniq U_up s V HV) as (HVne & HcV & _ & hd0 & Hls0 & Hhd0).
      rewrite Hls' in Hls0. injection Hls0 as <-.
      destruct (seg_post_facts U first kept U_id U_uniq U_up s V hd' sg' lo xL hi HV Hls' Eseg' Hsplit) as (_ & _ & _ & [l Hl] & _).
      rewrite HbL in Hl.
      assert (EP : (d ++ [L]) ++ map seg_blk hi = (d ++ l) ++ [hd']) by (rewrite <- !app_assoc; cbn [app]; rewrite Hl; reflexivity).
      assert (HlP : lnk x0 ((d ++ [L]) ++ map seg_blk hi)).
      { apply linked_app_iff. split; [rewrite EHd in HlH; eapply linked_prefix; exact HlH | rewrite tip_snoc; exact Hlhi]. }
      assert (HPU : Forall (fun y => In y U) ((d ++ [L]) ++ map seg_blk hi)).
      { apply Forall_app. split; [rewrite EHd in HHU; apply Forall_app in HHU; exact (proj1 HHU) | exact HhiU]. }
      split; [exact HVne|]. split; [exact HcV|]. left.
      split; [rewrite EP, rev_app_distr; discriminate|].
      split; [rewrite EP, rev_app_distr; cbn [rev app hd_error]; symmetry; exact Hhd0|].
      split.
      { split; [apply Forall_forall; intros y Hy; apply in_rev in Hy; rewrite Forall_forall in HPU; exact (HPU y Hy)|].
        exists x0. rewrite rev_involutive. exact HlP. }
      (* the bottom: the first block of the run *)
      assert (Ez' : exists r', (d ++ [L]) ++ map seg_blk hi = z :: r').
      { assert (Epre : exists t, Qall ++ [T] = (d ++ [L]) ++ t).
        { unfold H in EHd. destruct (is_undo cu); [exists (K ++ [T]); rewrite EHd, <- app_assoc; reflexivity | exists K; exact EHd]. }
        destruct Epre as [t Et]. rewrite Et in Ez. destruct d as [|d0 d1]; cbn [app] in Ez |- *; injection Ez as -> _; eexists; reflexivity. }
      destruct Ez' as [r' Er']. exists (rev r'), z. split; [rewrite Er'; reflexivity | exact Hz].
    - (* the consumer holds only an upper part of what is above the cursor LIB block *)
      destruct (cursor_burst U first kept U_id U_uniq U_up s V cu L T K Kf evs HV HL HLU HT HTU EKf HlKf HKfU HtipKf Hbc)
        as (hd' & sg' & lo & xL & hi & Hls' & Eseg' & Hgood & Hsplit & HbL & Hlhi & HhiU & Hfold).
      rewrite EKd, rev_app_distr in Hfold.
      destruct (sfold_trunc evs (rev H) (rev d) _ Hfold) as (st' & R0 & R' & Hst & EF & ER).
      (* numbers: L and the blocks of d are below the first block z, which is at or below start *)
      assert (HzKf : In z Kf) by (rewrite EKfd; apply in_or_app; right; rewrite Ez; left; reflexivity).
      pose proof (linked_sorted U U_id U_uniq U_up (L :: Kf) (bparent L) (conj eq_refl HlKf) (Forall_cons L HLU HKfU)) as HSK.
      assert (HLz : bnum L < bnum z).
      { destruct (StronglySorted_inv HSK) as [_ Hall]. rewrite Forall_forall in Hall. exact (Hall z HzKf). }
      assert (Hdz : forall y, In y d -> bnum y < bnum z).
      { intros y Hy. rewrite EKfd, Ez in HSK. apply StronglySorted_app_r with (l1 := [L]) in HSK.
        destruct (Proofs.C09_Proofs.StronglySorted_split blt d z rz HSK) as [Hlt _]. exact (Hlt y Hy). }
      (* split the segment above L at what is left of d *)
      assert (Ehi : map seg_blk hi = rev R' ++ rev st').
      { rewrite <- (rev_involutive (map seg_blk hi)), EF, rev_app_distr. reflexivity. }
      apply map_eq_app in Ehi as (hiA & hiB & Ehi & EA & EB).
      assert (Est : st' = rev (map seg_blk hiB)) by (rewrite EB, rev_involutive; reflexivity).
      exists st'.
      destruct hiA as [|xa hiA0 _] using rev_ind.
      + cbn [app] in Ehi. subst hi.
        destruct (cursor_live_rel U first kept U_id U_uniq U_up s V hd' sg' lo xL hiB L start HV Hls' Eseg' Hgood Hsplit HbL HLU Hlhi HhiU ltac:(lia))
          as [E HR].
        exists E. rewrite <- Est in HR. split; [rewrite sfold_app, Hpre; exact Hst|]. split; [exact HR | exact (Hdall _ E Hst HR)].
      + rewrite map_app in EA. cbn [map] in EA.
        assert (HLa : In (seg_blk xa) d).
        { apply in_rev. rewrite ER. apply in_or_app. right. apply in_rev. rewrite <- EA. apply in_or_app. right. left. reflexivity. }
        rewrite Ehi, <- app_assoc in Hsplit. cbn [app] in Hsplit.
        assert (Hsplit' : sg' = (lo ++ xL :: hiA0) ++ xa :: hiB) by (rewrite Hsplit, <- app_assoc; reflexivity).
        rewrite Ehi, !map_app in Hlhi, HhiU. cbn [map] in Hlhi, HhiU. rewrite <- app_assoc in Hlhi, HhiU.
        assert (Hlb : lnk (bid (seg_blk xa)) (map seg_blk hiB)).
        { rewrite app_assoc in Hlhi. apply linked_app_iff in Hlhi as [_ Hl2]. rewrite tip_snoc in Hl2. exact Hl2. }
        assert (HbU : Forall (fun y => In y U) (map seg_blk hiB)).
        { apply Forall_app in HhiU as [_ H2]. apply Forall_app in H2 as [_ H3]. exact H3. }
        assert (HaU : In (seg_blk xa) U).
        { apply Forall_app in HhiU as [_ H2]. apply Forall_app in H2 as [H3 _]. exact (Forall_inv H3). }
        destruct (cursor_live_rel U first kept U_id U_uniq U_up s V hd' sg' (lo ++ xL :: hiA0) xa hiB (seg_blk xa) start HV Hls' Eseg' Hgood Hsplit' eq_refl HaU Hlb HbU
                    ltac:(specialize (Hdz _ HLa); lia)) as [E HR].
        exists E. rewrite <- Est in HR. split; [rewrite sfold_app, Hpre; exact Hst|]. split; [exact HR | exact (Hdall _ E Hst HR)].
  Qed.
End Off.
