(* C07: the handoff in number mode without pauses; where the hub's from-number burst starts. *)
From BV Require Import Base.Prelude Model.Block Model.ForkDB Model.Forkable Model.ForkableLookups
  Model.Burst Model.Hub Model.CursorResolver Model.Joining Check.Burst_Check
  Spec.C06_Spec Proofs.C06_Lists Proofs.C06_Proofs Spec.C07_Spec Proofs.C07_File.
Local Open Scope N_scope.

Lemma apply_pauses_nil : forall c count w, apply_pauses c count [] w = ([], w, []).
Proof. reflexivity. Qed.

(* the chain lets a new+irreversible file block below the stop block through *)
Lemma chain_file_block : forall c b,
  filter_pass c SNewIrr = true -> (j_stop c = 0 \/ bnum b < j_stop c) ->
  chain c (file_event SNewIrr b) = (true, false).
Proof.
  intros c b Hf Hs. unfold chain, file_event. cbn [estep eblk]. rewrite Hf.
  destruct Hs as [Hs|Hs].
  - rewrite Hs. reflexivity.
  - replace (j_stop c <? bnum b) with false by (symmetry; apply N.ltb_ge; lia).
    replace (bnum b =? j_stop c) with false by (symmetry; apply N.eqb_neq; lia).
    rewrite !andb_false_r. reflexivity.
Qed.

Lemma file_blocks_below : forall fuel c w lowest pre rest fend count out,
  filter_pass c SNewIrr = true ->
  Forall (fun b => bnum b < lowest) pre ->
  Forall (fun b => j_stop c = 0 \/ bnum b < j_stop c) pre ->
  file_phase fuel c w lowest (map (file_event SNewIrr) (pre ++ rest)) fend count [] out =
  file_phase fuel c w lowest (map (file_event SNewIrr) rest) fend (count + N.of_nat (length pre)) []
             (out ++ map (file_event SNewIrr) pre).
Proof.
  intros fuel c w lowest pre. induction pre as [|b pre IH]; intros rest fend count out Hf Hlow Hstop.
  - cbn [app length map N.of_nat]. rewrite N.add_0_r, app_nil_r. reflexivity.
  - inversion Hlow as [|? ? Hb Hlow']; subst. inversion Hstop as [|? ? Hsb Hstop']; subst.
    cbn [app map]. rewrite file_phase_cons.
    rewrite join_try_none_of by (right; exact Hb).
    cbv zeta. rewrite (chain_file_block c b Hf Hsb). rewrite apply_pauses_nil.
    replace ((lowest <=? bnum (eblk (file_event SNewIrr b))) && matches_new (estep (file_event SNewIrr b)))
      with false by (symmetry; apply andb_false_iff; left; apply N.leb_gt; exact Hb).
    rewrite (IH rest fend (count + 1) (out ++ [file_event SNewIrr b]) Hf Hlow' Hstop').
    rewrite <- app_assoc. cbn [app].
    replace (count + N.of_nat (length (b :: pre))) with (count + 1 + N.of_nat (length pre))
      by (cbn [length]; lia).
    reflexivity.
Qed.

Lemma filter_filter' : forall (A : Type) (p q : A -> bool) l,
  filter q (filter p l) = filter (fun x => p x && q x) l.
Proof.
  intros A p q l. induction l as [|x l IH]; [reflexivity|].
  cbn [filter]. destruct (p x); cbn [filter andb]; [destruct (q x)|]; rewrite IH; reflexivity.
Qed.

Lemma c07_num_handoff_partial_proof : C07_num_handoff_partial.
Proof.
  intros fuel c w lowest merged start stopf pre bn post fend count out burst
         Hmode Hf Hc HD Hlow Hbn Hstop Hready Hburst (b0 & tl & Eb0 & Hb0).
  assert (Hasc : asc (pre ++ bn :: post)).
  { rewrite <- HD. apply chain_ok_asc. apply c06_delivery_segment_proof. exact Hc. }
  destruct (asc_app_inv _ _ Hasc) as (_ & [Hbnpost _] & H12).
  assert (Hprebn : Forall (fun b => bnum b < bnum bn) pre).
  { eapply Forall_impl; [|exact H12]. cbn beta. intros x Hx. exact (Forall_inv Hx). }
  split.
  - rewrite file_blocks_below; [|exact Hf|exact Hlow|].
    + cbn [map]. rewrite file_phase_cons.
      assert (Hj : join_try c w lowest (file_event SNewIrr bn) = Some burst).
      { unfold join_try, file_event. cbn [estep eblk matches_new].
        replace (lowest <=? bnum bn) with true by (symmetry; apply N.leb_le; exact Hbn).
        rewrite Hmode. cbn [N.eqb andb orb]. rewrite Hburst, Hready, Eb0, Hb0, N.eqb_refl. reflexivity. }
      rewrite Hj. reflexivity.
    + eapply Forall_impl; [|exact Hprebn]. cbn beta. intros x Hx. destruct Hstop as [Hs|Hs]; [left; exact Hs|right; lia].
  - (* pre = the chain blocks in [start, number of bn) *)
    assert (Hbnin : In bn (file_delivery merged start stopf (j_bundle c))) by (rewrite HD; apply in_or_app; right; left; reflexivity).
    apply c06_delivery_members_proof in Hbnin. destruct Hbnin as (_ & _ & Hbnend).
    assert (E : filter (fun b => bnum b <? bnum bn) (file_delivery merged start stopf (j_bundle c)) = pre).
    { rewrite HD, filter_app. cbn [filter]. rewrite N.ltb_irrefl.
      rewrite (filter_all _ _ pre), (filter_none _ _ post), app_nil_r; [reflexivity| |].
      - eapply Forall_impl; [|exact Hbnpost]. cbn beta. intros x Hx. apply N.ltb_ge. lia.
      - eapply Forall_impl; [|exact Hprebn]. cbn beta. intros x Hx. apply N.ltb_lt. exact Hx. }
    rewrite <- E. unfold file_delivery. rewrite filter_filter'. apply filter_ext. intros b.
    destruct (start <=? bnum b); cbn [andb]; [|reflexivity].
    destruct (N.ltb_spec (bnum b) (bnum bn)) as [H1|H1].
    + rewrite andb_true_r. apply N.ltb_lt. lia.
    + apply andb_false_r.
Qed.

(* ------------------------------------------------------------------ blocks_from_num starts at n *)

Lemma c07_burst_starts_at_proof : C07_burst_starts_at.
Proof.
  intros s n burst H. unfold blocks_from_num in H.
  destruct (negb (has_lib (db s))); [discriminate|].
  destruct (last_sent s) as [hd|]; [|discriminate].
  destruct (complete_segment (db s) (bref hd)) as [[sg reach]|]; [|discriminate].
  destruct reach; [|discriminate].
  match type of H with context [?f sg false] => set (go := f) in H end.
  assert (G : forall l, go l false = [] \/
              exists x e tl, go l false = e :: tl /\ snum x = n /\ eblk e = eb (sent x) /\ ecblk e = bref (eb (sent x))).
  { induction l as [|x l IH]; [left; reflexivity|].
    assert (Estep : go (x :: l) false =
                    if snum x =? n then
                      wrap x (if snum x <=? rn (libref (db s)) then SNewIrr else SNew) (bref hd)
                           (if snum x <? rn (libref (db s)) then seg_ref x else libref (db s)) None
                        :: go l (snum x =? n)
                    else go l (snum x =? n)) by reflexivity.
    rewrite Estep. destruct (N.eqb_spec (snum x) n) as [E|E]; [|exact IH].
    right. eexists x, _, _. split; [reflexivity|]. split; [exact E|]. split; reflexivity. }
  destruct (G sg) as [E|(x & e & tl & E & Hx & He1 & He2)]; rewrite E in H; [discriminate|].
  injection H as <-. exists x, e, tl. repeat split; assumption.
Qed.
