(* Facts about the Range model: 64-bit arithmetic helpers and the per-method statements. *)
From BV Require Import Base.Prelude Base.Decimal Model.Range Spec.C19_Spec.
Local Open Scope N_scope.

Lemma add64_small a b : a + b < two64 -> add64 a b = a + b.
Proof. intros H. unfold add64. apply N.mod_small. exact H. Qed.

Lemma sub64_le a b : b <= a -> a < two64 -> sub64 a b = a - b.
Proof. intros H1 H2. unfold sub64, two64 in *. lia. Qed.

Lemma add64_lt a b : add64 a b < two64.
Proof. unfold add64. apply N.mod_upper_bound. unfold two64. lia. Qed.

Lemma sub64_lt a b : sub64 a b < two64.
Proof. unfold sub64. apply N.mod_upper_bound. unfold two64. lia. Qed.

Lemma range_eta r : mkRange (rstart r) (rend r) (rexs r) (rexe r) = r.
Proof. destruct r; reflexivity. Qed.

Lemma bool_eqb_eq a b : Bool.eqb a b = true <-> a = b.
Proof. destruct a, b; simpl; split; congruence. Qed.

Lemma opt_eqb_N_eq a b : opt_eqb N.eqb a b = true <-> a = b.
Proof.
  destruct a as [x|], b as [y|]; simpl; split; intros H; try congruence; try discriminate.
  - apply N.eqb_eq in H. congruence.
  - inversion H. apply N.eqb_refl.
Qed.

Lemma range_eqb_eq a b : range_eqb a b = true <-> a = b.
Proof.
  unfold range_eqb. rewrite !andb_true_iff, N.eqb_eq, opt_eqb_N_eq, !bool_eqb_eq.
  destruct a, b; simpl. split.
  - intros [[[-> ->] ->] ->]. reflexivity.
  - intros H; inversion H; auto.
Qed.

(* ---- Contains ---- *)
Lemma c19_contains_proof : C19_contains.
Proof.
  intros r n. unfold contains, in_range, lower_ok, upper_ok.
  destruct r as [s e xs xe]; simpl.
  destruct (n <? s) eqn:E1.
  { apply N.ltb_lt in E1. split; [discriminate|]. intros [H _]. destruct xs; lia. }
  apply N.ltb_ge in E1.
  destruct xs; simpl.
  - destruct (n =? s) eqn:E2.
    { apply N.eqb_eq in E2. split; [discriminate|]. intros [H _]. lia. }
    apply N.eqb_neq in E2.
    destruct e as [ev|]; [|split; intros; [split; [lia|exact I]|reflexivity]].
    destruct (ev <? n) eqn:E3.
    { apply N.ltb_lt in E3. split; [discriminate|]. intros [_ H]. destruct xe; lia. }
    apply N.ltb_ge in E3. destruct xe; simpl.
    + destruct (n =? ev) eqn:E4.
      * apply N.eqb_eq in E4. split; [discriminate|]. intros [_ H]. lia.
      * apply N.eqb_neq in E4. split; intros; [split; lia|reflexivity].
    + split; intros; [split; lia|reflexivity].
  - destruct e as [ev|]; [|split; intros; [split; [lia|exact I]|reflexivity]].
    destruct (ev <? n) eqn:E3.
    { apply N.ltb_lt in E3. split; [discriminate|]. intros [_ H]. destruct xe; lia. }
    apply N.ltb_ge in E3. destruct xe; simpl.
    + destruct (n =? ev) eqn:E4.
      * apply N.eqb_eq in E4. split; [discriminate|]. intros [_ H]. lia.
      * apply N.eqb_neq in E4. split; intros; [split; lia|reflexivity].
    + split; intros; [split; lia|reflexivity].
Qed.

(* ---- ReachedEndBlock ---- *)
Lemma reached_arith r n : range_ok r -> u64 n ->
  (reached r n = true <-> exists e, rend r = Some e /\ e <= n + b2n (rexe r)).
Proof.
  intros [Hs He] Hn. unfold reached. destruct r as [s e xs xe]; simpl in *.
  destruct e as [ev|].
  2:{ split; [discriminate|]. intros (e & H & _). discriminate. }
  destruct He as [Hev Hlt]. unfold u64 in *.
  destruct (ev <=? n) eqn:E1.
  { apply N.leb_le in E1. split; [|reflexivity]. intros _. exists ev. split; [reflexivity|lia]. }
  apply N.leb_gt in E1.
  rewrite (sub64_le ev 1) by lia.
  destruct xe; simpl.
  - destruct (n =? ev - 1) eqn:E2.
    + apply N.eqb_eq in E2. split; [|reflexivity]. intros _. exists ev. split; [reflexivity|lia].
    + apply N.eqb_neq in E2. split; [discriminate|]. intros (e & H & H2). inversion H; subst. lia.
  - split; [discriminate|]. intros (e & H & H2). inversion H; subst. lia.
Qed.

Lemma c19_reached_proof : C19_reached.
Proof.
  intros r n Hok Hn. split; [apply reached_arith; assumption|].
  intros (m0 & Hm0). rewrite (reached_arith r n Hok Hn).
  destruct Hok as [Hs He]. destruct r as [s e xs xe]; simpl in *.
  unfold in_range, lower_ok, upper_ok in *; simpl in *.
  destruct e as [ev|].
  2:{ split; [intros (e & H & _); discriminate | intros [H _]; congruence]. }
  destruct He as [Hev Hlt]. split.
  - intros (e & H & Hle). inversion H; subst e. split; [discriminate|].
    intros m Hm [_ Hu]. destruct xe; simpl in *; lia.
  - intros [_ Hall]. exists ev. split; [reflexivity|].
    destruct xe; simpl in *.
    + destruct (N.le_gt_cases ev (n + 1)) as [|Hgt]; [assumption|].
      exfalso. apply (Hall (ev - 1)); [lia|]. split; [destruct xs; lia | lia].
    + destruct (N.le_gt_cases ev (n + 0)) as [|Hgt]; [assumption|].
      exfalso. apply (Hall ev); [lia|]. split; [destruct xs; lia | lia].
Qed.

(* ---- Size ---- *)
Lemma c19_size_proof : C19_size.
Proof.
  intros r [Hs He]. destruct r as [s e xs xe]; simpl in *. unfold size; simpl.
  destruct e as [ev|]; [|reflexivity].
  destruct He as [Hev Hlt]. unfold u64 in *.
  rewrite sub64_le by lia. split; [reflexivity|]. split; [lia|].
  intros n. unfold in_range, lower_ok, upper_ok, b2n; simpl.
  destruct xs, xe; lia.
Qed.

(* ---- Next ---- *)
Lemma c19_next_proof : C19_next.
Proof.
  intros r sz [Hs He]. destruct r as [s e xs xe]; simpl in *. unfold u64 in *.
  destruct e as [ev|].
  - destruct He as [Hev Hlt]. intros Hg. unfold next; cbn [rstart rend rexs rexe].
    rewrite add64_small by exact Hg.
    split; [reflexivity|]. split.
    { unfold size; cbn [rstart rend rexs rexe]. rewrite sub64_le by lia. f_equal. lia. }
    split.
    { intros Hp. unfold range_ok, u64; cbn [rstart rend rexs rexe]. lia. }
    unfold previous; cbn [rstart rend rexs rexe]. rewrite sub64_le by lia. f_equal. lia.
  - intros Hg. unfold next; cbn [rstart rend rexs rexe]. rewrite add64_small by exact Hg.
    split; [reflexivity|]. split; [unfold range_ok, u64; cbn [rstart rend rexs rexe]; lia|].
    unfold previous; cbn [rstart rend rexs rexe]. rewrite sub64_le by lia. f_equal. lia.
Qed.

(* ---- Previous ---- *)
Lemma c19_previous_proof : C19_previous.
Proof.
  intros r sz [Hs He] Hle. destruct r as [s e xs xe]; simpl in *. unfold u64 in *.
  destruct e as [ev|].
  - destruct He as [Hev Hlt]. unfold previous; cbn [rstart rend rexs rexe]. rewrite sub64_le by lia.
    split; [reflexivity|]. split.
    { unfold size; cbn [rstart rend rexs rexe]. rewrite sub64_le by lia. f_equal. lia. }
    split.
    { intros Hp. unfold range_ok, u64; cbn [rstart rend rexs rexe]. lia. }
    unfold next; cbn [rstart rend rexs rexe]. rewrite add64_small by lia. do 2 f_equal. lia.
  - unfold previous; cbn [rstart rend rexs rexe]. rewrite sub64_le by lia.
    split; [reflexivity|]. split; [unfold range_ok, u64; cbn [rstart rend rexs rexe]; lia|].
    unfold next; cbn [rstart rend rexs rexe]. rewrite add64_small by lia. f_equal. lia.
Qed.

(* ---- IsNext ---- *)
Lemma c19_isnext_proof : C19_isnext.
Proof.
  intros r nx sz [Hs He]. unfold is_next.
  destruct r as [s e xs xe]; cbn [rstart rend rexs rexe] in *.
  destruct e as [ev|]; intros Hg; rewrite range_eqb_eq; unfold next; cbn [rstart rend rexs rexe];
    rewrite add64_small by exact Hg; split; intros H; congruence.
Qed.
