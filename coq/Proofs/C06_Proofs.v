(* C06: proofs of the statements of Spec/C06_Spec.v about Model/CursorResolver.v. *)
From BV Require Import Base.Prelude Model.Block Model.Burst Model.CursorResolver Check.Burst_Check
  Spec.C06_Spec Proofs.C06_Lists Proofs.C06_Resolver.
Local Open Scope N_scope.

(* ------------------------------------------------------------------ file_delivery *)

Lemma c06_delivery_members_proof : C06_delivery_members.
Proof.
  intros merged start stop bundle b. unfold file_delivery. rewrite filter_In.
  rewrite andb_true_iff, N.leb_le, N.ltb_lt. tauto.
Qed.

Lemma interval_segment : forall l s e, asc l ->
  exists pre post, l = pre ++ filter (fun b => (s <=? bnum b) && (bnum b <? e)) l ++ post.
Proof.
  intros l s e H.
  destruct (asc_split l s H) as (p1 & q1 & -> & Hp1 & Hq1).
  apply asc_app_inv in H. destruct H as (_ & Hq1asc & _).
  destruct (asc_split q1 e Hq1asc) as (p2 & q2 & -> & Hp2 & Hq2).
  apply Forall_app in Hq1. destruct Hq1 as [Hp2s Hq2s].
  exists p1, q2. rewrite !filter_app.
  rewrite (filter_none _ _ p1), (filter_all _ _ p2), (filter_none _ _ q2), app_nil_r; [reflexivity| | |].
  - eapply Forall_impl; [|exact Hq2]. cbn beta. intros b Hb.
    apply andb_false_iff. right. apply N.ltb_ge. exact Hb.
  - rewrite Forall_forall in *. intros b Hb. apply andb_true_iff.
    split; [apply N.leb_le; apply Hp2s|apply N.ltb_lt; apply Hp2]; exact Hb.
  - eapply Forall_impl; [|exact Hp1]. cbn beta. intros b Hb.
    apply andb_false_iff. left. apply N.leb_gt. exact Hb.
Qed.

Lemma c06_delivery_segment_proof : C06_delivery_segment.
Proof.
  intros merged start stop bundle H.
  destruct (interval_segment merged start ((stop / bundle + 1) * bundle) (chain_ok_asc _ H)) as (pre & post & E).
  fold (file_delivery merged start stop bundle) in E.
  split; [exists pre, post; exact E|].
  rewrite E in H. eapply chain_ok_segment. exact H.
Qed.

Lemma setting_chain : forall merged c stop bundle L rest,
  setting merged c stop bundle L rest -> chain_ok (L :: rest).
Proof.
  intros merged c stop bundle L rest (Hc & Hd & _).
  rewrite <- Hd. apply c06_delivery_segment_proof. exact Hc.
Qed.

Lemma setting_run : forall merged forked c stop bundle L rest,
  setting merged c stop bundle L rest ->
  from_cursor_run merged forked c stop bundle = resolver_run c false forked rs_init (L :: rest).
Proof. intros merged forked c stop bundle L rest (_ & Hd & _). unfold from_cursor_run. rewrite Hd. reflexivity. Qed.

(* ------------------------------------------------------------------ consumer branches *)

Lemma c06_held_canon_segment_proof : C06_held_canon_segment.
Proof.
  intros L rest hc more Hc Hbr Hon.
  apply branch_from_app in Hbr. destruct Hbr as [Hhc _].
  destruct Hc as [Hl Hn].
  destruct (held_canon_prefix hc L rest Hl Hn Hhc Hon) as (later & ->).
  assert (Hasc : asc (L :: hc ++ later)) by (apply linked_asc; exact Hl).
  destruct (seg_filters _ _ _ Hasc) as [E1 E2]. rewrite E1, E2. split; reflexivity.
Qed.

Lemma above_off_is_off : forall L rest, chain_ok (L :: rest) ->
  forall held h, off_canon (L :: rest) h -> bnum L <= bnum h -> branch_from h held ->
    Forall (fun b => on_canon (L :: rest) b \/ off_canon (L :: rest) b) held ->
    Forall (off_canon (L :: rest)) (h :: held).
Proof.
  intros L rest Hc. induction held as [|x held IH]; intros h Hh Hp Hbr Hdec.
  - constructor; [exact Hh|constructor].
  - destruct Hbr as (Hxp & Hxlt & Hbr). inversion Hdec as [|? ? Hx Hdec']; subst.
    constructor; [exact Hh|].
    assert (Hxoff : off_canon (L :: rest) x).
    { destruct Hx as [Hx|Hx]; [|exact Hx]. exfalso.
      eapply (child_of_off_is_off L rest h x Hc Hh Hxp); [lia|exact Hx]. }
    apply (IH x Hxoff); [lia|exact Hbr|exact Hdec'].
Qed.

Lemma held_split_gen : forall L rest, chain_ok (L :: rest) ->
  forall held p, bnum L <= bnum p -> branch_from p held ->
    Forall (fun b => on_canon (L :: rest) b \/ off_canon (L :: rest) b) held ->
    exists hc hf, held = hc ++ hf /\ Forall (on_canon (L :: rest)) hc /\ Forall (off_canon (L :: rest)) hf.
Proof.
  intros L rest Hc. induction held as [|h held IH]; intros p Hp Hbr Hdec.
  - exists [], []. repeat split; constructor.
  - destruct Hbr as (Hpar & Hlt & Hbr). inversion Hdec as [|? ? Hh Hdec']; subst.
    destruct Hh as [Hh|Hh].
    + destruct (IH h ltac:(lia) Hbr Hdec') as (hc & hf & -> & H1 & H2).
      exists (h :: hc), hf. repeat split; [constructor; assumption|assumption].
    + exists [], (h :: held). split; [reflexivity|]. split; [constructor|].
      apply (above_off_is_off L rest Hc held h Hh); [lia|exact Hbr|exact Hdec'].
Qed.

Lemma c06_held_split_proof : C06_held_split.
Proof.
  intros L rest held Hc Hbr Hdec.
  apply (held_split_gen L rest Hc held L); [lia|exact Hbr|exact Hdec].
Qed.

(* ------------------------------------------------------------------ cursor block on the chain *)

Lemma bref_eq : forall B r, bref B = r -> bid B = ri r /\ bnum B = rn r.
Proof. intros B r <-. split; reflexivity. Qed.

Lemma on_chain_split : forall canon B,
  asc canon -> In B canon ->
  exists pre post, canon = pre ++ B :: post /\
    Forall (fun b => bnum b < bnum B) pre /\ Forall (fun b => bnum B < bnum b) post.
Proof.
  intros canon B Hasc Hin. destruct (in_split _ _ Hin) as (pre & post & ->).
  exists pre, post. split; [reflexivity|].
  apply asc_app_inv in Hasc. destruct Hasc as (_ & HB & H12). split.
  - eapply Forall_impl; [|exact H12]. cbn beta. intros a Ha. inversion Ha; subst. assumption.
  - apply HB.
Qed.

Lemma on_chain_core : forall c forked canon B,
  asc canon -> In B canon -> bref B = cu_blk c -> matches_undo (cu_step c) = false ->
  resolver_run c false forked rs_init canon =
    (map (file_event SIrr) (between (rn (cu_lib c)) (rn (cu_blk c)) canon) ++
     map (file_event SNewIrr) (above (rn (cu_blk c)) canon), RsOk).
Proof.
  intros c forked canon B Hasc Hin HB Hst.
  destruct (bref_eq _ _ HB) as [Hid Hnum].
  destruct (on_chain_split _ _ Hasc Hin) as (pre & post & -> & Hpre & Hpost).
  rewrite Hnum in Hpre, Hpost.
  unfold rs_init. rewrite run_buffer by exact Hpre. cbn [app].
  rewrite run_hit by (try assumption; lia).
  rewrite sb_between. f_equal. f_equal.
  - f_equal. unfold between.
    replace (pre ++ B :: post) with ((pre ++ [B]) ++ post) by (rewrite <- app_assoc; reflexivity).
    rewrite (filter_app _ (pre ++ [B]) post). rewrite (filter_none _ _ post), app_nil_r; [reflexivity|].
    eapply Forall_impl; [|exact Hpost]. cbn beta. intros b Hb.
    apply andb_false_iff. right. apply N.leb_gt. exact Hb.
  - f_equal. unfold above. rewrite filter_app. cbn [filter].
    replace (rn (cu_blk c) <? bnum B) with false by (symmetry; apply N.ltb_ge; lia).
    rewrite filter_none, filter_all; [reflexivity| |].
    + eapply Forall_impl; [|exact Hpost]. cbn beta. intros b Hb. apply N.ltb_lt. exact Hb.
    + eapply Forall_impl; [|exact Hpre]. cbn beta. intros b Hb. apply N.ltb_ge. lia.
Qed.

Lemma c06_resume_on_chain_proof : C06_resume_on_chain.
Proof.
  intros merged forked c stop bundle L rest B Hset Hst Hin HB.
  rewrite (setting_run _ forked _ _ _ _ _ Hset).
  apply (on_chain_core c forked (L :: rest) B); try assumption.
  apply chain_ok_asc. eapply setting_chain. exact Hset.
Qed.

Lemma undo_on_chain_core : forall c forked canon B,
  asc canon -> In B canon -> bref B = cu_blk c -> cu_step c = SUndo ->
  resolver_run c false forked rs_init canon =
    (map (file_event SIrr) (inside (rn (cu_lib c)) (rn (cu_blk c)) canon) ++
     map (file_event SNewIrr) (from_num (rn (cu_blk c)) canon), RsOk).
Proof.
  intros c forked canon B Hasc Hin HB Hst.
  destruct (bref_eq _ _ HB) as [Hid Hnum].
  destruct (on_chain_split _ _ Hasc Hin) as (pre & post & -> & Hpre & Hpost).
  rewrite Hnum in Hpre, Hpost.
  unfold rs_init. rewrite run_buffer by exact Hpre. cbn [app].
  rewrite run_hit_undo by (try assumption; try lia; rewrite Hst; reflexivity).
  f_equal. f_equal.
  - (* the Irreversible part *)
    unfold inside. rewrite filter_app. cbn [filter].
    replace (bnum B <? rn (cu_blk c)) with false by (symmetry; apply N.ltb_ge; lia).
    rewrite andb_false_r.
    rewrite (filter_none _ _ post), app_nil_r.
    2:{ eapply Forall_impl; [|exact Hpost]. cbn beta. intros b Hb.
        apply andb_false_iff. right. apply N.ltb_ge. lia. }
    destruct (N.ltb_spec 0 (rn (cu_blk c))) as [Hpos|Hzero].
    + unfold send_between. f_equal. rewrite filter_app. cbn [filter].
      replace (bnum B <=? rn (cu_blk c) - 1) with false by (symmetry; apply N.leb_gt; lia).
      rewrite andb_false_r, app_nil_r.
      apply filter_ext. intros b. f_equal.
      destruct (N.leb_spec (bnum b) (rn (cu_blk c) - 1)), (N.ltb_spec (bnum b) (rn (cu_blk c))); try reflexivity; lia.
    + destruct pre as [|x pre]; [reflexivity|]. inversion Hpre; subst. lia.
  - (* the cursor block and everything after it *)
    unfold from_num. rewrite filter_app. cbn [filter].
    replace (rn (cu_blk c) <=? bnum B) with true by (symmetry; apply N.leb_le; lia).
    rewrite filter_none, filter_all; [reflexivity| |].
    + eapply Forall_impl; [|exact Hpost]. cbn beta. intros b Hb. apply N.leb_le. lia.
    + eapply Forall_impl; [|exact Hpre]. cbn beta. intros b Hb. apply N.leb_gt. exact Hb.
Qed.

Lemma c06_resume_undo_on_chain_proof : C06_resume_undo_on_chain.
Proof.
  intros merged forked c stop bundle L rest B Hset Hst Hin HB.
  rewrite (setting_run _ forked _ _ _ _ _ Hset).
  apply (undo_on_chain_core c forked (L :: rest) B); try assumption.
  apply chain_ok_asc. eapply setting_chain. exact Hset.
Qed.

Lemma c06_final_cursor_proof : C06_final_cursor.
Proof.
  intros merged forked c stop bundle L rest Hset Hst Hblk.
  pose proof (setting_chain _ _ _ _ _ _ Hset) as Hc. pose proof (chain_ok_asc _ Hc) as Hasc.
  pose proof Hset as (Hm & Hd & HL).
  rewrite (c06_resume_on_chain_proof merged forked c stop bundle L rest L Hset).
  - rewrite Hblk. destruct (bref_eq _ _ HL) as [_ HLn]. rewrite <- HLn.
    change (L :: rest) with (L :: [] ++ rest) in *.
    destruct (seg_filters L [] rest Hasc) as [E1 E2]. cbn [last] in E1, E2.
    rewrite E1, E2. reflexivity.
  - destruct (cu_step c); cbn in Hst |- *; congruence.
  - left. reflexivity.
  - rewrite Hblk. exact HL.
Qed.

Lemma c06_not_reached_proof : C06_not_reached.
Proof.
  intros merged forked c stop bundle L rest Hset Hnr.
  rewrite (setting_run _ forked _ _ _ _ _ Hset). unfold rs_init.
  apply run_all_buffered. rewrite Forall_forall. intros b Hb.
  destruct (N.ltb_spec (bnum b) (rn (cu_blk c))) as [H|H]; [exact H|].
  exfalso. apply Hnr. exists b. split; assumption.
Qed.
