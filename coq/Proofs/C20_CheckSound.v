(* C20: the boolean property checker of Check/C20_Check.v is sound for the Prop statements it
   stands for (on an observation of the implementation). *)
From BV Require Import Base.Prelude Proofs.PreludeFacts Model.BlockServer Spec.C20_Spec
  Proofs.C20_Window Check.C20_Check.
Local Open Scope Z_scope.

(* ------------------------------------------------------------------ window *)

(* every observed PushBlock shows the reference window of all pushes so far *)
Definition windows_ok (buffered : bool) (size : Z) (ops : list op) (obs : list oobs) : Prop :=
  forall n x w r,
    nth_error ops n = Some (OPush x) -> nth_error obs n = Some (ObPush w r) ->
    w = (if buffered then spec_window size (pushes_of (firstn (S n) ops)) else []).

Lemma win_check_sound_gen buffered size ops : forall obs P0 seen,
  shape_ok ops obs = true ->
  win_check buffered size (if buffered then spec_window size P0 else []) seen ops obs = true ->
  forall n x w r,
    nth_error ops n = Some (OPush x) -> nth_error obs n = Some (ObPush w r) ->
    w = (if buffered then spec_window size (P0 ++ pushes_of (firstn (S n) ops)) else []).
Proof.
  induction ops as [|o ops IH]; intros obs P0 seen Hsh Hc n x w r Hop Hob.
  - destruct n; discriminate.
  - destruct obs as [|ob obs]; [destruct n; discriminate|].
    simpl in Hsh. apply andb_true_iff in Hsh. destruct Hsh as [Hsh0 Hsh].
    destruct n as [|n].
    + simpl in Hop, Hob. inversion Hop; subst o. inversion Hob; subst ob.
      simpl in Hc. apply andb_true_iff in Hc. destruct Hc as [Hc _].
      apply andb_true_iff in Hc. destruct Hc as [Hc _]. apply eqb_list_eq in Hc. subst w.
      simpl. destruct buffered; auto. now rewrite spec_window_snoc.
    + simpl in Hop, Hob.
      assert (Hnext : forall P1 seen1,
                 win_check buffered size (if buffered then spec_window size P1 else []) seen1 ops obs = true ->
                 w = (if buffered then spec_window size (P1 ++ pushes_of (firstn (S n) ops)) else []))
        by (intros P1 seen1 H1; eapply IH; eauto).
      destruct o as [y|b|c|k|k]; try (simpl in Hc; destruct ob; apply (Hnext P0 seen Hc)).
      destruct ob as [w' r'| | | | |]; try discriminate.
      simpl in Hc. apply andb_true_iff in Hc. destruct Hc as [_ Hc].
      change (pushes_of (firstn (S (S n)) (OPush y :: ops))) with (y :: pushes_of (firstn (S n) ops)).
      replace (P0 ++ y :: pushes_of (firstn (S n) ops)) with ((P0 ++ [y]) ++ pushes_of (firstn (S n) ops))
        by (rewrite <- app_assoc; reflexivity).
      eapply Hnext. destruct buffered; [rewrite spec_window_snoc|]; exact Hc.
Qed.

Theorem win_check_sound buffered size ops obs :
  shape_ok ops obs = true ->
  win_check buffered size [] [] ops obs = true -> windows_ok buffered size ops obs.
Proof.
  intros Hsh Hc n x w r Hop Hob.
  apply (win_check_sound_gen buffered size ops obs [] [] Hsh) with (x := x) (r := r); auto.
  destruct buffered; exact Hc.
Qed.

Theorem seq_property_sound buffered size ops obs fin :
  seq_property buffered size ops obs fin = true -> windows_ok buffered size ops obs.
Proof.
  intros H. unfold seq_property in H.
  apply andb_true_iff in H. destruct H as [H _]. apply andb_true_iff in H. destruct H as [H1 H2].
  exact (win_check_sound buffered size ops obs H1 H2).
Qed.

(* ------------------------------------------------------------------ delivery *)

(* the observed subscriber (received sequence, final queue, closed flag, capacity) is the
   reference behaviour of Spec.C20_Spec on its own projection of the operations *)
Theorem sub_check_sound k cap B post obs fin :
  sub_check k cap B post obs fin = true ->
  exists q cl, nth_error fin k = Some (SObs q cl cap) /\
    mkView (recv_of k post obs) q cl = ref_sub cap (mkView [] B false) (proj k true post).
Proof.
  unfold sub_check. intros H. apply andb_true_iff in H. destruct H as [H1 H2].
  destruct (nth_error fin k) as [[q cl c]|]; [|discriminate].
  apply andb_true_iff in H2. destruct H2 as [H2 H3].
  apply andb_true_iff in H2. destruct H2 as [H2 H4].
  apply eqb_list_eq in H1, H2. apply N.eqb_eq in H3. apply eqb_prop in H4. subst c.
  exists q, cl. split; auto.
  destruct (ref_sub cap (mkView [] B false) (proj k true post)) as [vr vq vc]. simpl in *. congruence.
Qed.

(* ------------------------------------------------------------------ concurrent runs *)

Lemma is_prefix_app a b : is_prefix a b = true -> exists t, b = a ++ t.
Proof.
  revert b. induction a as [|x a IH]; intros b H; simpl in *.
  - now exists b.
  - destruct b as [|y b]; [discriminate|]. apply andb_true_iff in H. destruct H as [H1 H2].
    apply N.eqb_eq in H1. subst y. destruct (IH b H2) as (t & ->). now exists t.
Qed.

(* a subscriber accepted by the checker: at some instant (after the pushes `pre`) it got the last
   min(burst, buffered) blocks of the window of that instant, then a contiguous run C of the
   following pushes: all of them unless it was closed (strictly fewer, and at least its capacity
   200 + |burst| blocks were sent to it) or it unsubscribed *)
Definition conc_sub_spec (size : Z) (P : list N) (s : concsub) : Prop :=
  match s with
  | CSub b R closed unsub =>
      exists pre C tail,
        P = pre ++ C ++ tail /\
        R = burst_of b (spec_window size pre) ++ C /\
        (closed = false -> unsub = false -> tail = []) /\
        (closed = true -> tail <> [] /\ chan_base + zlen (burst_of b (spec_window size pre)) <= zlen R)
  end.

Lemma conc_here_sound size b R closed unsub pre rest :
  conc_here b R closed unsub (spec_window size pre) rest = true ->
  conc_sub_spec size (pre ++ rest) (CSub b R closed unsub).
Proof.
  intros H. unfold conc_here in H.
  apply andb_true_iff in H. destruct H as [H1 H]. apply andb_true_iff in H. destruct H as [H2 H3].
  destruct (is_prefix_app _ _ H1) as (C & HR).
  rewrite HR, skipn_app, Nat.sub_diag, skipn_all in H2, H3.
  cbn [skipn app] in H2, H3. destruct (is_prefix_app _ _ H2) as (tail & Ht).
  exists pre, C, tail. rewrite Ht in *. split; [reflexivity|]. split; [exact HR|].
  rewrite app_length in H3. split.
  - intros -> ->. apply Nat.eqb_eq in H3. destruct tail; auto. simpl in H3. lia.
  - intros ->. apply andb_true_iff in H3. destruct H3 as [H3 H4]. apply Nat.ltb_lt in H3. split.
    + intros ->. simpl in H3. lia.
    + rewrite HR. lia.
Qed.

Lemma conc_scan_sound size b R closed unsub : forall rest pre0,
  conc_scan size b R closed unsub (spec_window size pre0) rest = true ->
  conc_sub_spec size (pre0 ++ rest) (CSub b R closed unsub).
Proof.
  induction rest as [|p rest IH]; intros pre0 H.
  - simpl in H. rewrite orb_false_r in H. now apply conc_here_sound.
  - simpl in H. apply orb_true_iff in H. destruct H as [H|H].
    + now apply conc_here_sound.
    + rewrite <- spec_window_snoc in H. specialize (IH (pre0 ++ [p]) H).
      rewrite <- app_assoc in IH. exact IH.
Qed.

Theorem conc_sub_ok_sound size P s : conc_sub_ok size P s = true -> conc_sub_spec size P s.
Proof.
  destruct s as [b R closed unsub]. intros H.
  apply (conc_scan_sound size b R closed unsub P [] H).
Qed.
