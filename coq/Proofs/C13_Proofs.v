(* C13: filters, the handler chain over arbitrary event sequences, Stream.Run's output for every
   input (induction over the fuel of the live phase and the event list of the file phase), start
   block resolution and argument checks. *)
From BV Require Import Base.Prelude Model.Block Model.ForkDB Model.Forkable Model.ForkableLookups
  Model.Burst Model.Hub Model.CursorResolver Model.Joining Spec.C13_Spec.
Local Open Scope N_scope.

(* ---------------------------------------------------------------- how the file source ends (Model/Joining.file_end) *)

Lemma file_end_not1 c me : (j_mode c =? 1) = false ->
  file_end c me = if negb (j_stop c =? 0) && ((j_stop c / j_bundle c + 1) * j_bundle c <=? me) then JStop else JNil.
Proof. intros H. unfold file_end, first_bundle_ok. rewrite H, andb_true_r. reflexivity. Qed.

Lemma file_end_stop c me : file_end c me = JStop -> j_stop c <> 0 /\ (j_stop c / j_bundle c + 1) * j_bundle c <= me.
Proof.
  unfold file_end. destruct (j_stop c =? 0) eqn:E0; cbn [negb andb]; [discriminate|].
  destruct ((j_stop c / j_bundle c + 1) * j_bundle c <=? me) eqn:E1; cbn [andb]; [|discriminate].
  intros _. split; [apply N.eqb_neq; exact E0 | apply N.leb_le; exact E1].
Qed.

Lemma file_end_cases c me : file_end c me = JStop \/ file_end c me = JNil.
Proof. unfold file_end. destruct (negb (j_stop c =? 0) && ((j_stop c / j_bundle c + 1) * j_bundle c <=? me) && first_bundle_ok c me); auto. Qed.

Lemma file_end_nostop c me : j_stop c = 0 -> file_end c me = JNil.
Proof. intros H. unfold file_end. rewrite H. reflexivity. Qed.

(* ---------------------------------------------------------------- filters *)

Theorem c13_filter_exact_proof : C13_filter_exact.
Proof.
  intros c s. unfold filter_pass. split; [|split].
  - intros H. rewrite H. cbn [N.eqb]. destruct s; cbn; split; intros K; try discriminate; auto;
      destruct K as [K|[K|K]]; discriminate.
  - intros H. rewrite H. cbn. destruct s; cbn; split; intros K; try discriminate; auto;
      destruct K as [K|K]; discriminate.
  - intros H0 H1. apply N.eqb_neq in H0. apply N.eqb_neq in H1. rewrite H0, H1.
    rewrite negb_true_iff, N.eqb_neq. tauto.
Qed.

(* ---------------------------------------------------------------- chain on one event *)

Lemma chain_cases c e :
  (passes c e = false /\ chain c e = (false, false)) \/
  (passes c e = true /\ j_stop c <> 0 /\ j_stop c < enum e /\ chain c e = (false, true)) \/
  (passes c e = true /\ j_stop c <> 0 /\ enum e = j_stop c /\ chain c e = (true, true)) \/
  (passes c e = true /\ (j_stop c = 0 \/ enum e < j_stop c) /\ chain c e = (true, false)).
Proof.
  unfold chain, passes, enum. destruct (filter_pass c (estep e)); [|left; auto]. right.
  destruct (j_stop c =? 0) eqn:H0; cbn [negb andb].
  - apply N.eqb_eq in H0. right. right. auto.
  - apply N.eqb_neq in H0. destruct (j_stop c <? bnum (eblk e)) eqn:Hlt.
    + apply N.ltb_lt in Hlt. left. auto.
    + apply N.ltb_ge in Hlt. destruct (bnum (eblk e) =? j_stop c) eqn:He.
      * apply N.eqb_eq in He. right. left. auto.
      * apply N.eqb_neq in He. right. right. split; [reflexivity|]. split; [right; lia | reflexivity].
Qed.

Lemma chain_run_cons c e l :
  chain_run c (e :: l) =
  if snd (chain c e) then ((if fst (chain c e) then [e] else []), true)
  else ((if fst (chain c e) then e :: fst (chain_run c l) else fst (chain_run c l)), snd (chain_run c l)).
Proof. reflexivity. Qed.

(* ---------------------------------------------------------------- the handler chain over a sequence *)

Lemma chain_run_nostop c : forall l,
  (j_stop c = 0 \/ forall e, In e (filter (passes c) l) -> enum e < j_stop c) ->
  chain_run c l = (filter (passes c) l, false).
Proof.
  induction l as [|x l IH]; intros H; [reflexivity|].
  rewrite chain_run_cons. cbn [filter].
  assert (Hx : passes c x = true -> j_stop c = 0 \/ enum x < j_stop c).
  { intros Hp. destruct H as [H|H]; [left; exact H|]. right. apply H. cbn [filter]. rewrite Hp. left. reflexivity. }
  assert (Hl : j_stop c = 0 \/ forall e, In e (filter (passes c) l) -> enum e < j_stop c).
  { destruct H as [H|H]; [left; exact H|]. right. intros e He. apply H. cbn [filter].
    destruct (passes c x); [right|]; exact He. }
  rewrite (IH Hl). cbn [fst snd].
  destruct (chain_cases c x) as [[Hp Hc]|[[Hp [H0 [Hlt Hc]]]|[[Hp [H0 [He Hc]]]|[Hp [Hs Hc]]]]];
    rewrite Hc, Hp; cbn [fst snd]; try reflexivity; destruct (Hx Hp); lia.
Qed.

Lemma chain_run_stop c : forall l p1 e p2,
  j_stop c <> 0 ->
  filter (passes c) l = p1 ++ e :: p2 -> (forall x, In x p1 -> enum x < j_stop c) -> j_stop c <= enum e ->
  chain_run c l = (p1 ++ (if enum e =? j_stop c then [e] else []), true).
Proof.
  induction l as [|x l IH]; intros p1 e p2 HS Hf Hp1 He.
  - destruct p1; discriminate.
  - rewrite chain_run_cons. cbn [filter] in Hf.
    destruct (chain_cases c x) as [[Hp Hc]|[[Hp [H0 [Hlt Hc]]]|[[Hp [H0 [Hex Hc]]]|[Hp [Hs Hc]]]]];
      rewrite Hc; rewrite Hp in Hf; cbn [fst snd].
    + rewrite (IH _ _ _ HS Hf Hp1 He). reflexivity.
    + destruct p1 as [|y p1]; cbn [app] in Hf; inversion Hf; subst.
      * assert (Hne : enum e =? j_stop c = false) by (apply N.eqb_neq; lia). rewrite Hne. reflexivity.
      * exfalso. assert (enum y < j_stop c) by (apply Hp1; left; reflexivity). lia.
    + destruct p1 as [|y p1]; cbn [app] in Hf; inversion Hf; subst.
      * rewrite Hex, N.eqb_refl. reflexivity.
      * exfalso. assert (enum y < j_stop c) by (apply Hp1; left; reflexivity). lia.
    + destruct p1 as [|y p1]; cbn [app] in Hf; inversion Hf; subst.
      * exfalso. destruct Hs; lia.
      * rewrite (IH p1 e p2 HS H1); [reflexivity | | exact He]. intros z Hz. apply Hp1. right. exact Hz.
Qed.

Theorem c13_handler_chain_proof : C13_handler_chain.
Proof.
  intros c l pass. subst pass. split; [|split].
  - intros H. apply chain_run_nostop. left. exact H.
  - intros Hall. apply chain_run_nostop. right. exact Hall.
  - intros p1 e p2 Hf Hp1 He. eapply chain_run_stop; eauto.
Qed.

(* facts about every output of chain_run, used for Stream.Run *)
Lemma chain_run_passes c : forall l, Forall (fun e => passes c e = true) (fst (chain_run c l)).
Proof.
  induction l as [|x l IH]; [constructor|]. rewrite chain_run_cons.
  destruct (chain_cases c x) as [[Hp Hc]|[[Hp [H0 [Hlt Hc]]]|[[Hp [H0 [Hex Hc]]]|[Hp [Hs Hc]]]]];
    rewrite Hc; cbn [fst snd]; auto.
Qed.

Lemma chain_run_stop_nonzero c : forall l, snd (chain_run c l) = true -> j_stop c <> 0.
Proof.
  induction l as [|x l IH]; [discriminate|]. rewrite chain_run_cons.
  destruct (chain_cases c x) as [[Hp Hc]|[[Hp [H0 [Hlt Hc]]]|[[Hp [H0 [Hex Hc]]]|[Hp [Hs Hc]]]]];
    rewrite Hc; cbn [fst snd]; auto.
Qed.

Lemma chain_run_bound c : forall l, j_stop c <> 0 ->
  Forall (fun e => enum e <= j_stop c) (fst (chain_run c l)) /\
  (forall o1 e o2, fst (chain_run c l) = o1 ++ e :: o2 -> j_stop c <= enum e ->
     o2 = [] /\ enum e = j_stop c /\ snd (chain_run c l) = true).
Proof.
  induction l as [|x l IH]; intros HS.
  - split; [constructor|]. intros o1 e o2 H. destruct o1; discriminate.
  - destruct (IH HS) as [IH1 IH2]. rewrite chain_run_cons.
    destruct (chain_cases c x) as [[Hp Hc]|[[Hp [H0 [Hlt Hc]]]|[[Hp [H0 [Hex Hc]]]|[Hp [Hs Hc]]]]];
      rewrite Hc; cbn [fst snd].
    + split; [exact IH1 | exact IH2].
    + split; [constructor|]. intros o1 e o2 H. destruct o1; discriminate.
    + split; [constructor; [lia | constructor]|]. intros o1 e o2 H He.
      destruct o1 as [|y o1]; cbn [app] in H; inversion H; subst; [auto | destruct o1; discriminate].
    + split; [constructor; [destruct Hs; lia | exact IH1]|]. intros o1 e o2 H He.
      destruct o1 as [|y o1]; cbn [app] in H; inversion H; subst.
      * exfalso. destruct Hs; lia.
      * eapply IH2; eauto.
Qed.

(* ---------------------------------------------------------------- the two phases *)

(* what a phase returns: the output so far extended by the chain run over some fed sequence *)
Definition phase_ok (c : jcfg) (out : list event) (res : list event * jerr) (extra_stop : Prop) : Prop :=
  exists fed,
    fst res = out ++ fst (chain_run c fed) /\
    (snd (chain_run c fed) = true -> snd res = JStop) /\
    (snd res = JStop -> snd (chain_run c fed) = true \/ extra_stop).

Lemma phase_ok_nil c out r (P : Prop) : (r = JStop -> P) -> phase_ok c out (out, r) P.
Proof.
  intros H. exists []. cbn [chain_run fst snd]. rewrite app_nil_r. split; [reflexivity|].
  split; [discriminate | intros Hr; right; auto].
Qed.

(* one event handled, then the rest of the phase *)
Lemma phase_ok_step c e out res (P : Prop) :
  snd (chain c e) = false ->
  phase_ok c (if fst (chain c e) then out ++ [e] else out) res P ->
  phase_ok c out res P.
Proof.
  intros Hs [fed [H1 [H2 H3]]]. exists (e :: fed). rewrite chain_run_cons, Hs. cbn [fst snd].
  split; [|split; assumption]. rewrite H1. destruct (fst (chain c e)); [rewrite <- app_assoc|]; reflexivity.
Qed.

Lemma phase_ok_stop c e out (P : Prop) :
  snd (chain c e) = true ->
  phase_ok c out ((if fst (chain c e) then out ++ [e] else out), JStop) P.
Proof.
  intros Hs. exists [e]. rewrite chain_run_cons, Hs. cbn [fst snd].
  split; [destruct (fst (chain c e)); [reflexivity | rewrite app_nil_r; reflexivity]|]. split; auto.
Qed.

Lemma live_phase_ok c : forall fuel w queue count ps out,
  phase_ok c out (live_phase fuel c w queue count ps out) False.
Proof.
  induction fuel as [|f IH]; intros w queue count ps out; cbn [live_phase].
  - apply phase_ok_nil. discriminate.
  - destruct queue as [|e q].
    + destruct (w_rest w) eqn:Hr; [apply phase_ok_nil; discriminate|].
      destruct (push_one c w) as [w' evs]. apply IH.
    + destruct (chain c e) as [deliver stop] eqn:Hc.
      destruct deliver.
      * destruct (apply_pauses c (count + 1) ps w) as [[ps' w'] evs].
        destruct stop.
        -- pose proof (phase_ok_stop c e out False) as H. rewrite Hc in H. apply H. reflexivity.
        -- apply (phase_ok_step c e); rewrite Hc; [reflexivity|]. cbn [fst]. apply IH.
      * destruct stop.
        -- pose proof (phase_ok_stop c e out False) as H. rewrite Hc in H. apply H. reflexivity.
        -- apply (phase_ok_step c e); rewrite Hc; [reflexivity|]. cbn [fst]. apply IH.
Qed.

Lemma phase_ok_weaken c out res (P Q : Prop) : (P -> Q) -> phase_ok c out res P -> phase_ok c out res Q.
Proof. intros HPQ [fed [H1 [H2 H3]]]. exists fed. split; [exact H1|]. split; [exact H2|]. intros Hr. destruct (H3 Hr); auto. Qed.

Lemma file_phase_ok c fuel fend : forall fevs w lowest count ps out,
  phase_ok c out (file_phase fuel c w lowest fevs fend count ps out) (fend = JStop).
Proof.
  induction fevs as [|e rest IH]; intros w lowest count ps out; cbn [file_phase].
  - apply phase_ok_nil. auto.
  - cbv zeta.
    match goal with |- phase_ok _ _ (match ?X with Some _ => _ | None => _ end) _ => destruct X as [burst|] end.
    + eapply phase_ok_weaken; [|apply live_phase_ok]. intros [].
    + destruct (chain c e) as [deliver stop] eqn:Hc.
      destruct deliver.
      * destruct (apply_pauses c (count + 1) ps w) as [[ps' w'] evs].
        destruct stop.
        -- pose proof (phase_ok_stop c e out (fend = JStop)) as H. rewrite Hc in H. apply H. reflexivity.
        -- apply (phase_ok_step c e); rewrite Hc; [reflexivity|]. cbn [fst]. apply IH.
      * destruct stop.
        -- pose proof (phase_ok_stop c e out (fend = JStop)) as H. rewrite Hc in H. apply H. reflexivity.
        -- apply (phase_ok_step c e); rewrite Hc; [reflexivity|]. cbn [fst]. apply IH.
Qed.

(* the stateful phases of final-blocks-only (Model/Joining.chain_fin): the fed sequence is what the filter hands to the
   rest of the chain or refuses; the repeats it drops are left out *)
Lemma live_phase_fin_ok c : forall fuel w lf queue count ps out,
  phase_ok c out (live_phase_fin fuel c w lf queue count ps out) False.
Proof.
  induction fuel as [|f IH]; intros w lf queue count ps out; cbn [live_phase_fin].
  - apply phase_ok_nil. discriminate.
  - destruct queue as [|e q].
    + destruct (w_rest w) eqn:Hr; [apply phase_ok_nil; discriminate|].
      destruct (push_one c w) as [w' evs]. apply IH.
    + unfold chain_fin. destruct (filter_pass c (estep e)); [|apply IH].
      destruct (match lf with Some n => bnum (eblk e) <=? n | None => false end); [apply IH|].
      destruct (chain c e) as [deliver stop] eqn:Hc.
      destruct deliver.
      * destruct (apply_pauses c (count + 1) ps w) as [[ps' w'] evs].
        destruct stop.
        -- pose proof (phase_ok_stop c e out False) as H. rewrite Hc in H. apply H. reflexivity.
        -- apply (phase_ok_step c e); rewrite Hc; [reflexivity|]. cbn [fst]. apply IH.
      * destruct stop.
        -- pose proof (phase_ok_stop c e out False) as H. rewrite Hc in H. apply H. reflexivity.
        -- apply (phase_ok_step c e); rewrite Hc; [reflexivity|]. cbn [fst]. apply IH.
Qed.

Lemma file_phase_fin_ok c fuel fend : forall fevs w lf lowest count ps out,
  phase_ok c out (file_phase_fin fuel c w lf lowest fevs fend count ps out) (fend = JStop).
Proof.
  induction fevs as [|e rest IH]; intros w lf lowest count ps out; cbn [file_phase_fin].
  - apply phase_ok_nil. auto.
  - cbv zeta.
    match goal with |- phase_ok _ _ (match ?X with Some _ => _ | None => _ end) _ => destruct X as [burst|] end.
    + eapply phase_ok_weaken; [|apply live_phase_fin_ok]. intros [].
    + unfold chain_fin. destruct (filter_pass c (estep e)); [|apply IH].
      destruct (match lf with Some n => bnum (eblk e) <=? n | None => false end); [apply IH|].
      destruct (chain c e) as [deliver stop] eqn:Hc.
      destruct deliver.
      * destruct (apply_pauses c (count + 1) ps w) as [[ps' w'] evs].
        destruct stop.
        -- pose proof (phase_ok_stop c e out (fend = JStop)) as H. rewrite Hc in H. apply H. reflexivity.
        -- apply (phase_ok_step c e); rewrite Hc; [reflexivity|]. cbn [fst]. apply IH.
      * destruct stop.
        -- pose proof (phase_ok_stop c e out (fend = JStop)) as H. rewrite Hc in H. apply H. reflexivity.
        -- apply (phase_ok_step c e); rewrite Hc; [reflexivity|]. cbn [fst]. apply IH.
Qed.

(* ---------------------------------------------------------------- Stream.Run *)

Definition marker (c : jcfg) (merged_end : N) : Prop :=
  j_stop c <> 0 /\ (j_stop c / j_bundle c + 1) * j_bundle c <= merged_end.

Lemma stream_run_ok c w ps merged_end merged forked :
  phase_ok c [] (stream_run c w ps merged_end merged forked) (marker c merged_end).
Proof.
  unfold stream_run. cbv zeta.
  match goal with |- phase_ok _ _ (if ?X then _ else _) _ => destruct X end;
    [apply phase_ok_nil; discriminate|].
  match goal with |- phase_ok _ _ (if ?X then _ else _) _ => destruct X end;
    [apply phase_ok_nil; discriminate|].
  destruct (live_try c (w_hub w) _) as [burst| | |].
  - destruct (j_filter c =? 1); (eapply phase_ok_weaken; [|first [apply live_phase_fin_ok | apply live_phase_ok]]); intros [].
  - match goal with |- phase_ok _ _ (let '(_, _) := ?X in _) _ => destruct X as [fevs rr] end.
    assert (Hw : forall r0, phase_ok c [] r0 (match rr with
                | RsOk => file_end c merged_end
                | RsResolveErr => JInvalidArg | RsNotImplemented => JOther | RsFuel => JFuel end = JStop) ->
              phase_ok c [] r0 (marker c merged_end)); [|destruct (j_filter c =? 1); apply Hw; [apply file_phase_fin_ok | apply file_phase_ok]].
    intros r0. apply phase_ok_weaken.
    intros H. destruct rr; try discriminate.
    exact (file_end_stop c merged_end H).
  - apply phase_ok_nil. discriminate.
  - apply phase_ok_nil. discriminate.
Qed.

Theorem c13_stream_output_proof : C13_stream_output.
Proof.
  intros c w ps merged_end merged forked out r Hrun.
  destruct (stream_run_ok c w ps merged_end merged forked) as [fed [H1 [H2 H3]]].
  rewrite Hrun in H1, H2, H3. cbn [fst snd app] in H1, H2, H3. subst out.
  split; [apply chain_run_passes|]. split; [|split].
  - intros HS. destruct (chain_run_bound c fed HS) as [B1 B2]. split; [exact B1|].
    intros o1 e o2 Ho He. destruct (B2 _ _ _ Ho He) as [E1 [E2 E3]]. auto.
  - intros Hr. destruct (H3 Hr) as [Hc|[Hm _]]; [eapply chain_run_stop_nonzero; eauto | exact Hm].
  - exists fed. split; [reflexivity|]. split; [exact H2|]. intros Hr. destruct (H3 Hr) as [Hc|[_ Hm]]; auto.
Qed.

(* ---------------------------------------------------------------- start and argument checks *)

Theorem c13_start_proof : C13_start.
Proof.
  split; [|split; [|split; [|]]].
  - intros first start head. unfold abs_start. cbv zeta.
    destruct (start <? 0)%Z eqn:Hneg.
    + apply Z.ltb_lt in Hneg.
      destruct (head <? Z.to_N (- start)) eqn:Hh;
        match goal with |- context [if ?a <? first then _ else _] => destruct (a <? first) eqn:Hf end;
        try apply N.ltb_lt in Hh; try apply N.ltb_ge in Hh; try apply N.ltb_lt in Hf; try apply N.ltb_ge in Hf;
        (split; [lia|]); (split; [intros; lia|]); intros _; lia.
    + apply Z.ltb_ge in Hneg.
      destruct (Z.to_N start <? first) eqn:Hf; try apply N.ltb_lt in Hf; try apply N.ltb_ge in Hf;
        (split; [lia|]); (split; [intros _; lia|]); intros; lia.
  - intros c w ps merged_end merged forked HS Hlt. unfold stream_run, stream_head in *. cbv zeta.
    apply N.eqb_neq in HS. apply N.ltb_lt in Hlt. rewrite HS, Hlt. reflexivity.
  - intros c w ps merged_end merged forked cu Hf Hm Hc Hfin. unfold stream_run. cbv zeta.
    match goal with |- (if ?X then _ else _) = _ => destruct X end; [reflexivity|].
    apply N.eqb_neq in Hm. rewrite Hf, Hm, Hc, Hfin. reflexivity.
  - intros cu. unfold on_final_block. rewrite andb_true_iff, N.eqb_eq.
    destruct (cu_step cu); cbn; split; intros [H1 H2]; split; auto; try discriminate;
      destruct H2; discriminate.
Qed.

(* ---------------------------------------------------------------- invalid argument delivers nothing *)

Lemma live_phase_not_invalid c : forall fuel w queue count ps out,
  snd (live_phase fuel c w queue count ps out) <> JInvalidArg.
Proof.
  induction fuel as [|f IH]; intros w queue count ps out; cbn [live_phase]; [discriminate|].
  destruct queue as [|e q].
  - destruct (w_rest w); [discriminate|]. destruct (push_one c w) as [w' evs]. apply IH.
  - destruct (chain c e) as [deliver stop]. destruct deliver.
    + destruct (apply_pauses c (count + 1) ps w) as [[ps' w'] evs]. destruct stop; [discriminate | apply IH].
    + destruct stop; [discriminate | apply IH].
Qed.

Lemma file_phase_invalid c fuel fend : forall fevs w lowest count ps out,
  snd (file_phase fuel c w lowest fevs fend count ps out) = JInvalidArg -> fend = JInvalidArg.
Proof.
  induction fevs as [|e rest IH]; intros w lowest count ps out; cbn [file_phase]; [auto|].
  cbv zeta.
  match goal with |- snd (match ?X with Some _ => _ | None => _ end) = _ -> _ => destruct X as [burst|] end.
  - intros H. destruct (live_phase_not_invalid _ _ _ _ _ _ _ H).
  - destruct (chain c e) as [deliver stop]. destruct deliver.
    + destruct (apply_pauses c (count + 1) ps w) as [[ps' w'] evs]. destruct stop; [discriminate | apply IH].
    + destruct stop; [discriminate | apply IH].
Qed.

Lemma live_phase_fin_not_invalid c : forall fuel w lf queue count ps out,
  snd (live_phase_fin fuel c w lf queue count ps out) <> JInvalidArg.
Proof.
  induction fuel as [|f IH]; intros w lf queue count ps out; cbn [live_phase_fin]; [discriminate|].
  destruct queue as [|e q].
  - destruct (w_rest w); [discriminate|]. destruct (push_one c w) as [w' evs]. apply IH.
  - destruct (chain_fin c lf e) as [[deliver stop] lf']. destruct deliver.
    + destruct (apply_pauses c (count + 1) ps w) as [[ps' w'] evs]. destruct stop; [discriminate | apply IH].
    + destruct stop; [discriminate | apply IH].
Qed.

Lemma file_phase_fin_invalid c fuel fend : forall fevs w lf lowest count ps out,
  snd (file_phase_fin fuel c w lf lowest fevs fend count ps out) = JInvalidArg -> fend = JInvalidArg.
Proof.
  induction fevs as [|e rest IH]; intros w lf lowest count ps out; cbn [file_phase_fin]; [auto|].
  cbv zeta.
  match goal with |- snd (match ?X with Some _ => _ | None => _ end) = _ -> _ => destruct X as [burst|] end.
  - intros H. destruct (live_phase_fin_not_invalid _ _ _ _ _ _ _ _ H).
  - destruct (chain_fin c lf e) as [[deliver stop] lf']. destruct deliver.
    + destruct (apply_pauses c (count + 1) ps w) as [[ps' w'] evs]. destruct stop; [discriminate | apply IH].
    + destruct stop; [discriminate | apply IH].
Qed.

(* the cursor resolver: a resolution error comes before any event (from-cursor mode) and never in
   through-cursor mode; once resolved there is no error at all *)
Lemma resolver_run_resolved c pass forked : forall l s evs r,
  r_resolved s = true -> resolver_run c pass forked s l = (evs, r) -> r = RsOk.
Proof.
  induction l as [|b l IH]; intros s evs r Hs H; cbn [resolver_run] in H; [inversion H; reflexivity|].
  unfold resolver_step in H. rewrite Hs in H.
  destruct (resolver_run c pass forked s l) as [evs' r'] eqn:Hr. inversion H; subst. eapply IH; eauto.
Qed.

Lemma resolver_run_error c forked : forall l pass s evs,
  r_resolved s = false -> resolver_run c pass forked s l = (evs, RsResolveErr) -> pass = false /\ evs = [].
Proof.
  induction l as [|b l IH]; intros pass s evs Hs H; cbn [resolver_run] in H; [inversion H|].
  destruct (resolver_step c pass forked s b) as [[s1 e1] r1] eqn:Hstep.
  assert (Hcases : (r1 = RsOk /\ r_resolved s1 = true) \/ (r1 = RsOk /\ r_resolved s1 = false /\ (pass = false -> e1 = [])) \/
                   (r1 = RsNotImplemented) \/ (r1 = RsFuel) \/ (r1 = RsResolveErr /\ pass = false /\ e1 = [])).
  { unfold resolver_step in Hstep. rewrite Hs in Hstep. cbv zeta in Hstep.
    destruct (pass && (bnum b <=? rn (cu_lib c))) eqn:Hp.
    { inversion Hstep; subst. cbn [r_resolved]. destruct (bid b =? ri (cu_blk c)); [left; auto|].
      right. left. split; [reflexivity|]. split; [reflexivity|].
      intros ->. discriminate. }
    destruct (bnum b <? rn (cu_blk c)).
    { inversion Hstep; subst. right. left. auto. }
    destruct (bid b =? ri (cu_blk c)).
    { destruct pass; [inversion Hstep; subst; left; auto|].
      destruct (matches_undo (cu_step c)); inversion Hstep; subst; left; auto. }
    destruct pass; [inversion Hstep; subst; right; right; left; reflexivity|].
    match type of Hstep with context [resolve_walk ?a ?b ?c ?d ?e ?f] => destruct (resolve_walk a b c d e f) as [[[u j]|]|] end;
      inversion Hstep; subst; auto 10. }
  destruct Hcases as [[-> Hr1]|[[-> [Hr1 He1]]|[->|[->|[-> [Hp He1]]]]]].
  - destruct (resolver_run c pass forked s1 l) as [evs' r'] eqn:Hr. inversion H; subst.
    pose proof (resolver_run_resolved _ _ _ _ _ _ _ Hr1 Hr). discriminate.
  - destruct (resolver_run c pass forked s1 l) as [evs' r'] eqn:Hr. inversion H; subst.
    destruct (IH _ _ _ Hr1 Hr) as [Hp ->]. split; [exact Hp|]. rewrite (He1 Hp). reflexivity.
  - inversion H.
  - inversion H.
  - inversion H; subst. auto.
Qed.

Theorem c13_invalid_arg_empty_proof : C13_invalid_arg_empty.
Proof.
  intros c w ps merged_end merged forked out. unfold stream_run. cbv zeta.
  match goal with |- (if ?X then _ else _) = _ -> _ => destruct X end; [intros H; inversion H; reflexivity|].
  match goal with |- (if ?X then _ else _) = _ -> _ => destruct X end; [intros H; inversion H; reflexivity|].
  destruct (live_try c (w_hub w) _) as [burst| | |].
  - destruct (j_filter c =? 1); intros H; exfalso; [eapply live_phase_fin_not_invalid | eapply live_phase_not_invalid]; rewrite H; reflexivity.
  - match goal with |- (let '(_, _) := ?X in _) = _ -> _ => destruct X as [fevs rr] eqn:Hf end.
    intros H.
    set (fe := match rr with
                | RsOk => file_end c merged_end
                | RsResolveErr => JInvalidArg | RsNotImplemented => JOther | RsFuel => JFuel end) in *.
    assert (Hfe : fe = JInvalidArg).
    { destruct (j_filter c =? 1).
      - eapply file_phase_fin_invalid. rewrite H. reflexivity.
      - eapply file_phase_invalid. rewrite H. reflexivity. }
    unfold fe in Hfe.
    destruct rr; try discriminate; [destruct (file_end_cases c merged_end) as [E|E]; rewrite E in Hfe; discriminate|].
    (* a resolution error: from-cursor mode, before any event *)
    assert (fevs = []).
    { destruct (j_mode c =? 0); [inversion Hf|]. destruct (j_cursor c) as [cu|]; [|inversion Hf].
      destruct (j_mode c =? 1).
      - unfold from_cursor_run in Hf. apply resolver_run_error in Hf; [tauto | reflexivity].
      - unfold through_cursor_run, through_resolver_run in Hf.
        match type of Hf with (if ?X then _ else _) = _ => destruct X end; [inversion Hf|].
        apply resolver_run_error in Hf; [destruct Hf; discriminate | reflexivity]. }
    subst fevs. destruct (j_filter c =? 1); cbn [file_phase file_phase_fin] in H; inversion H; reflexivity.
  - intros H; inversion H.
  - intros H; inversion H.
Qed.
