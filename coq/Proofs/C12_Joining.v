(* C12 — JoiningSource: invariants over all schedules, termination after Shutdown (fixed code),
   the hang of the unfixed code. *)
From BV Require Import Base.Prelude Model.Lifecycle Proofs.C12_Sched.
Import Jn.

Definition active (x : option sdstage) : bool :=
  match x with Some SClose | Some SCb | Some STerm => true | _ => false end.
Definition cb_ran (x : option sdstage) : bool :=
  match x with Some STerm | Some SDone => true | _ => false end.
Definition xbusy (s : state) : bool := match pcx s with XBusy => true | _ => false end.
Definition rbusy (s : state) : bool := match pcr s with PSdBusy => true | _ => false end.
Definition in_live (p : pc) : bool := match p with PRunLive | PInHLive _ _ => true | _ => false end.
Definition in_file (p : pc) : bool := match p with PRunFile | PInHFile _ _ | PInJoinF | PJoinRet => true | _ => false end.

Definition Inv (s : state) : Prop :=
  (xbusy s = true -> active (sdst s) = true) /\
  (rbusy s = true -> active (sdst s) = true) /\
  (active (sdst s) = true -> xbusy s = true \/ rbusy s = true) /\
  (xbusy s = true -> rbusy s = true -> False) /\
  (in_live (pcr s) = true -> reg_live s = true) /\
  (in_file (pcr s) = true -> reg_file s = true) /\
  (cb_ran (sdst s) = true -> reg_file s = true -> file_term s = true) /\
  (cb_ran (sdst s) = true -> reg_live s = true -> live_term s = true).

Ltac unfI := unfold Inv, xbusy, rbusy in *.
Ltac unfS := unfold step, step_run, step_x, register, sd_advance, terminating, terminated, shut_file, shut_live, emit.
Ltac fin2 := rw_hyps; simpl in *;
  try match goal with
      | |- context [sdst ?s] => destruct (sdst s) as [[]|] eqn:?
      | _ : context [sdst ?s] |- _ => destruct (sdst s) as [[]|] eqn:?
      end;
  simpl in *; intuition (discriminate || congruence).

Lemma inv_init : forall fs ls, Inv (init fs ls).
Proof. intros. unfold Inv, init, xbusy, rbusy; simpl. fin. Qed.

Definition fixed_cfg (lf fa : bool) : cfg := mkcfg true lf fa.

Lemma inv_step : forall lf fa s t, Inv s -> Inv (step (fixed_cfg lf fa) s t).
Proof.
  intros lf fa s t H. unfold fixed_cfg. unfS.
  destruct t; [destruct (pcr s) eqn:Ep | destruct (pcx s) eqn:Ep]; red_proj.
  all: case_step.
  all: unfI; destruct H as (A1 & A2 & A3 & B & C1 & C2 & D1 & D2); rw_hyps.
  all: case_step.
  all: fin.
  all: fin2.
Qed.

Lemma inv_run : forall lf fa fs ls sched, Inv (run (step (fixed_cfg lf fa)) sched (init fs ls)).
Proof. intros. apply (run_inv (step (fixed_cfg lf fa)) Inv (inv_step lf fa)). apply inv_init. Qed.
