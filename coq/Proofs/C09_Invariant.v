(* C09/C05: the well-formedness hypotheses of the snapshot and resume theorems hold in every state a
   Forkable reaches from blocks of a well-formed universe (any configuration, any arrival order,
   duplicates allowed), and in every state of a hub fed from such a universe. *)
From Coq Require Import Sorted Permutation.
From BV Require Import Base.Prelude Model.Block Model.ForkDB Model.Forkable Model.ForkableLookups
  Model.Burst Model.Hub Spec.Universe Spec.C09_Spec Proofs.C09_Store Proofs.C09_Segment Proofs.C09_Proofs.
Local Open Scope N_scope.

Section Inv.
Variable U : list block.
Hypothesis WU : wf_universe U.

(* the invariant, on the components of a state *)
Definition J (d : forkdb) (ls : option block) : Prop :=
  NoDup (map key (store d)) /\ extra_ok d /\
  (forall e, In e (store d) -> In (eb e) U) /\ (forall hd, ls = Some hd -> In hd U).
Definition Js (s : fstate) : Prop := J (db s) (last_sent s).

Lemma J_wf_state : forall s, Js s -> wf_state s.
Proof.
  intros s [ND [X [HU HH]]]. destruct WU as [Wid Wnz Wpa]. constructor.
  - split; [|exact X]. constructor; [exact ND| |].
    + intros e He. apply Wnz. auto.
    + intros e p He Hp Hk. apply Wpa; auto.
  - intros hd e Hl Hf. rewrite (Wid (eb e) hd); auto.
    + apply HU. eapply find_In; eauto.
    + eapply find_key; eauto.
Qed.

Lemma J_store_in : forall s, Js s -> store_in U s.
Proof. intros s [_ [_ [HU HH]]]. split; auto. Qed.

Lemma J_init : Js (fs_init LNone).
Proof.
  unfold Js, J. cbn. split; [constructor|]. split; [intros r Hr; discriminate|].
  split; [intros e []|intros hd Hd; discriminate].
Qed.

Lemma J_add_link : forall d ls b, J d ls -> In b U -> J (fst (add_link d b)) ls.
Proof.
  intros d ls b [ND [X [HU HH]]] Hb. unfold add_link.
  destruct ((bid b =? bparent b) || (bid b =? 0)); [repeat split; auto|].
  destruct (exists_link d (bid b)); [repeat split; auto|]. cbn [fst].
  split; [cbn; apply put_NoDup; exact ND|]. split; [exact X|]. split; [|exact HH].
  cbn. intros e He. destruct (put_In_weak _ _ _ He) as [->|He']; auto.
Qed.

Lemma J_add_link' : forall d ls b d1 ex, add_link d b = (d1, ex) -> J d ls -> In b U -> J d1 ls.
Proof. intros d ls b d1 ex E HJ Hb. pose proof (J_add_link d ls b HJ Hb) as H. rewrite E in H. exact H. Qed.

Lemma J_libref : forall d ls r, J d ls -> J (move_lib d r) ls.
Proof. intros d ls r H. exact H. Qed.

Lemma J_set_lib : forall d ls f h n d2, set_lib d f h n = Some d2 -> J d ls -> J d2 ls.
Proof.
  intros d ls f h n d2 E HJ. unfold set_lib in E.
  destruct (rn h =? f); [inversion E; subst; exact HJ|].
  destruct (block_in_chain d h n) as [r|]; [|discriminate].
  destruct (ri r =? 0); inversion E; subst; exact HJ.
Qed.

Lemma J_purge : forall d ls k, J d ls -> J (purge_before_lib d k) ls.
Proof.
  intros d ls k [ND [X [HU HH]]]. unfold purge_before_lib. split; [cbn; apply NoDup_map_filter; exact ND|].
  split; [intros r Hr; discriminate|]. split; [|exact HH].
  cbn. intros e He. apply filter_In in He. apply HU. tauto.
Qed.

Lemma J_set_sent : forall d ls id blk, J d ls -> In blk U ->
  J (mkDB (set_sent id (store d)) (extra d) (libref d)) (Some blk).
Proof.
  intros d ls id blk [ND [X [HU HH]]] Hb. split; [cbn; rewrite set_sent_keys; exact ND|].
  split; [exact X|]. split.
  - cbn. intros e He. destruct (set_sent_In _ _ _ He) as [y [Hy Hy']]. rewrite <- Hy'. auto.
  - intros hd Hd. inversion Hd; subst. exact Hb.
Qed.

Lemma J_head : forall d ls b, J d ls -> In b U -> J d (Some b).
Proof. intros d ls b [ND [X [HU HH]]] Hb. repeat split; auto. intros hd Hd. inversion Hd; subst. exact Hb. Qed.

(* ---- handler-call loops do not touch db / last_sent *)
Definition same_core (s s' : fstate) : Prop := db s' = db s /\ last_sent s' = last_sent s.

Lemma same_core_refl : forall s, same_core s s. Proof. split; reflexivity. Qed.
Lemma same_core_trans : forall a b c, same_core a b -> same_core b c -> same_core a c.
Proof. intros a b c [H1 H2] [H3 H4]. split; congruence. Qed.
Lemma same_core_Js : forall s s', same_core s s' -> Js s -> Js s'.
Proof. intros s s' [H1 H2] H. unfold Js. rewrite H1, H2. exact H. Qed.

Lemma call_core : forall cfg s s' ok, call cfg s = (s', ok) -> same_core s s'.
Proof. intros cfg s s' ok H. unfold call in H. inversion H; subst. split; reflexivity. Qed.

Lemma process_blocks_loop_core : forall cfg cur st junc count blocks idx s acc s' evs ok,
  process_blocks_loop cfg cur st junc count idx blocks s acc = (s', evs, ok) -> same_core s s'.
Proof.
  intros cfg cur st junc count blocks. induction blocks as [|e rest IH]; intros idx s acc s' evs ok H; cbn [process_blocks_loop] in H.
  - inversion H; subst. apply same_core_refl.
  - destruct (call cfg s) as [s1 ok1] eqn:Ec. pose proof (call_core _ _ _ _ Ec) as C.
    destruct ok1; [eapply same_core_trans; [exact C|eapply IH; eauto]|inversion H; subst; exact C].
Qed.

Lemma process_irr_loop_core : forall cfg head count l idx s acc s' evs ok,
  process_irr_loop cfg head count idx l s acc = (s', evs, ok) -> same_core s s'.
Proof.
  intros cfg head count l. induction l as [|e rest IH]; intros idx s acc s' evs ok H; cbn [process_irr_loop] in H.
  - inversion H; subst. apply same_core_refl.
  - destruct (call cfg s) as [s1 ok1] eqn:Ec. pose proof (call_core _ _ _ _ Ec) as C.
    destruct ok1; [eapply same_core_trans; [exact C|eapply IH; eauto]|inversion H; subst; exact C].
Qed.

Lemma process_stalled_loop_core : forall cfg head count l idx s acc s' evs ok,
  process_stalled_loop cfg head count idx l s acc = (s', evs, ok) -> same_core s s'.
Proof.
  intros cfg head count l. induction l as [|e rest IH]; intros idx s acc s' evs ok H; cbn [process_stalled_loop] in H.
  - inversion H; subst. apply same_core_refl.
  - destruct (call cfg s) as [s1 ok1] eqn:Ec. pose proof (call_core _ _ _ _ Ec) as C.
    destruct ok1; [eapply same_core_trans; [exact C|eapply IH; eauto]|inversion H; subst; exact C].
Qed.

Lemma process_irr_segment_core : forall cfg irr head s s' evs ok,
  process_irr_segment cfg irr head s = (s', evs, ok) -> same_core s s'.
Proof.
  intros cfg irr head s s' evs ok H. unfold process_irr_segment in H.
  destruct (f_irr (c_filter cfg)).
  - destruct (process_irr_loop cfg head (N.of_nat (length irr)) 0 irr s []) as [[s1 e1] ok1] eqn:E.
    pose proof (process_irr_loop_core _ _ _ _ _ _ _ _ _ _ E) as C.
    destruct ok1; [|inversion H; subst; exact C].
    destruct irr; inversion H; subst; [exact C|]. destruct C as [C1 C2]. split; cbn; assumption.
  - destruct irr; inversion H; subst; [apply same_core_refl|split; reflexivity].
Qed.

Lemma process_stalled_segment_core : forall cfg l head s s' evs ok,
  process_stalled_segment cfg l head s = (s', evs, ok) -> same_core s s'.
Proof.
  intros cfg l head s s' evs ok H. unfold process_stalled_segment in H.
  destruct (f_stalled (c_filter cfg)); [eapply process_stalled_loop_core; eauto|inversion H; subst; apply same_core_refl].
Qed.

Lemma process_blocks_core : forall cfg cur blocks st junc s s' evs ok,
  process_blocks cfg cur blocks st junc s = (s', evs, ok) -> same_core s s'.
Proof. intros. eapply process_blocks_loop_core; eauto. Qed.

(* ---- the loops that change the state *)

Lemma process_new_loop_J : forall cfg head chain s acc s' evs ok,
  (forall x, In x chain -> In (eb (sent x)) U) ->
  process_new_loop cfg head chain s acc = (s', evs, ok) -> Js s -> Js s'.
Proof.
  intros cfg head chain. induction chain as [|b rest IH]; intros s acc s' evs ok Hc H HJ; cbn [process_new_loop] in H.
  - inversion H; subst. exact HJ.
  - assert (Hrest : forall x, In x rest -> In (eb (sent x)) U) by (intros x Hx; apply Hc; right; exact Hx).
    assert (Hb : In (eb (sent b)) U) by (apply Hc; left; reflexivity).
    destruct (esent (sent b)); [eapply IH; eauto|].
    destruct (f_new (c_filter cfg)).
    + destruct (call cfg s) as [s1 ok1] eqn:Ec. pose proof (call_core _ _ _ _ Ec) as C.
      pose proof (same_core_Js _ _ C HJ) as HJ1.
      destruct ok1; [|inversion H; subst; exact HJ1].
      eapply IH; [exact Hrest|exact H|]. unfold Js. cbn. eapply J_set_sent; eauto.
    + eapply IH; [exact Hrest|exact H|]. unfold Js. cbn. eapply J_set_sent; eauto.
Qed.

Lemma process_new_blocks_J : forall cfg chain s s' evs ok,
  (forall x, In x chain -> In (eb (sent x)) U) ->
  process_new_blocks cfg chain s = (s', evs, ok) -> Js s -> Js s'.
Proof.
  intros cfg chain s s' evs ok Hc H HJ. unfold process_new_blocks in H.
  destruct chain as [|b0 rest]; [inversion H; subst; exact HJ|]. eapply process_new_loop_J; eauto.
Qed.

Lemma process_initial_inclusive_J : forall cfg b s s' evs ok,
  process_initial_inclusive cfg b s = (s', evs, ok) -> Js s -> In b U -> Js s'.
Proof.
  intros cfg b s s' evs ok H HJ Hb. unfold process_initial_inclusive in H.
  destruct (f_new (c_filter cfg)).
  - destruct (call cfg s) as [s1 ok1] eqn:Ec. pose proof (call_core _ _ _ _ Ec) as C.
    pose proof (same_core_Js _ _ C HJ) as HJ1.
    destruct ok1; [|inversion H; subst; exact HJ1].
    match type of H with (match ?x with _ => _ end) = _ => destruct x as [[s2 e2] ok2] eqn:E2 end.
    inversion H; subst. eapply same_core_Js; [eapply process_irr_segment_core; eauto|].
    unfold Js. cbn. eapply J_head; eauto.
  - match type of H with (match ?x with _ => _ end) = _ => destruct x as [[s2 e2] ok2] eqn:E2 end.
    inversion H; subst. eapply same_core_Js; [eapply process_irr_segment_core; eauto|].
    unfold Js. cbn. eapply J_head; eauto.
Qed.

Lemma rs_loop_in : forall d first fuel cur n acc l r,
  rs_loop fuel d first cur n acc = Some (l, r) ->
  (forall x, In x acc -> In (eb (sent x)) U) -> (forall e, In e (store d) -> In (eb e) U) ->
  forall x, In x l -> In (eb (sent x)) U.
Proof.
  intros d first fuel. induction fuel as [|f IH]; intros cur n acc l r H Hacc Hst; cbn [rs_loop] in H; [discriminate|].
  destruct ((first <? n) && (n <? rn (libref d))); [inversion H; subst; intros x []|].
  destruct (cur =? ri (libref d)); [inversion H; subst; exact Hacc|].
  destruct (find cur (store d)) as [e|] eqn:Ef.
  - eapply IH; [exact H| |exact Hst]. intros x [<-|Hx]; [cbn; apply Hst; eapply find_In; eauto|auto].
  - destruct (has_lib d); inversion H; subst; [intros x []|exact Hacc].
Qed.

Lemma reversible_segment_in : forall d first start l r,
  reversible_segment d first start = Some (l, r) -> (forall e, In e (store d) -> In (eb e) U) ->
  forall x, In x l -> In (eb (sent x)) U.
Proof. intros d first start l r H Hst. eapply rs_loop_in; eauto. intros x []. Qed.

Ltac head_destruct H :=
  match type of H with
  | (match ?x with _ => _ end) = _ => destruct x eqn:?
  end.

Lemma process_tail_J : forall cfg s b undos redos junc longest first_irr s' evs r,
  process_tail cfg s b undos redos junc longest first_irr = (s', evs, r) ->
  (forall x, In x longest -> In (eb (sent x)) U) -> Js s -> Js s'.
Proof.
  intros cfg s b undos redos junc longest first_irr s' evs r H Hl HJ. unfold process_tail in H.
  match type of H with (match ?x with _ => _ end) = _ => destruct x as [[s1 ev1] ok1] eqn:E1 end.
  assert (HJ1 : Js s1).
  { destruct (f_undo (c_filter cfg)); [eapply same_core_Js; [eapply process_blocks_core; eauto|exact HJ]|inversion E1; subst; exact HJ]. }
  destruct ok1; cbn [negb] in H; [|inversion H; subst; exact HJ1].
  match type of H with (match ?x with _ => _ end) = _ => destruct x as [[s2 ev2] ok2] eqn:E2 end.
  assert (HJ2 : Js s2).
  { destruct (f_new (c_filter cfg)); [eapply same_core_Js; [eapply process_blocks_core; eauto|exact HJ1]|inversion E2; subst; exact HJ1]. }
  destruct ok2; cbn [negb] in H; [|inversion H; subst; exact HJ2].
  destruct (process_new_blocks cfg longest s2) as [[s3 ev3] ok3] eqn:E3.
  pose proof (process_new_blocks_J _ _ _ _ _ _ Hl E3 HJ2) as HJ3.
  destruct ok3; cbn [negb] in H; [|inversion H; subst; exact HJ3].
  destruct (last_sent s3) as [ls|] eqn:Els; [|inversion H; subst; exact HJ3].
  destruct (negb (has_lib (db s3))); [inversion H; subst; exact HJ3|].
  destruct (block_in_chain (db s3) (bref ls) (blib ls)) as [libr|]; [|inversion H; subst; exact HJ3].
  destruct (ri libr =? 0); [inversion H; subst; exact HJ3|].
  destruct (has_new_irr_segment (db s3) (c_first cfg) libr) as [[[has_new irr0] stalled]|]; [|inversion H; subst; exact HJ3].
  match type of H with (if ?c then _ else _) = _ => destruct c end; [inversion H; subst; exact HJ3|].
  match type of H with (match ?x with _ => _ end) = _ => destruct x as [[s5 ev5] ok5] eqn:E5 end.
  assert (HJ5 : Js s5).
  { eapply same_core_Js; [eapply process_irr_segment_core; eauto|].
    unfold Js, with_db. cbn. apply J_purge. apply J_libref. exact HJ3. }
  destruct ok5; cbn [negb] in H; [|inversion H; subst; exact HJ5].
  match type of H with (match ?x with _ => _ end) = _ => destruct x as [[s6 ev6] ok6] eqn:E6 end.
  inversion H; subst. eapply same_core_Js; [eapply process_stalled_segment_core; eauto|exact HJ5].
Qed.

Lemma fk_step_J : forall cfg s b s' evs r,
  fk_step cfg s b = (s', evs, r) -> Js s -> In b U -> Js s'.
Proof.
  intros cfg s b s' evs r H HJ Hb. unfold fk_step in H.
  destruct (bid b =? bparent b); [inversion H; subst; exact HJ|].
  match type of H with (if ?c then _ else _) = _ => destruct c end; [inversion H; subst; exact HJ|].
  match type of H with (if ?c then _ else _) = _ => destruct c end.
  { match type of H with (match ?x with _ => _ end) = _ => destruct x as [[s1 e1] ok1] eqn:E1 end.
    inversion H; subst. eapply process_initial_inclusive_J; [exact E1| |exact Hb].
    unfold Js, with_db. cbn. apply J_add_link; assumption. }
  match type of H with (match ?sw with ScssOk _ _ _ => _ | ScssPanic => _ | ScssFuel => _ end) = _ =>
    destruct sw as [undos redos junc| |] end; try (inversion H; subst; exact HJ).
  destruct (add_link (db s) b) as [d1 existed] eqn:Ea.
  destruct existed; [inversion H; subst; exact HJ|].
  assert (HJ1 : Js (with_db s d1)) by (unfold Js, with_db; cbn; eapply J_add_link'; eauto).
  destruct (has_lib d1) eqn:Ehl.
  - destruct (reversible_segment (db (with_db s d1)) (c_first cfg) (bref b)) as [[longest rl]|] eqn:Er;
      [|inversion H; subst; exact HJ1].
    match type of H with (if ?c then _ else _) = _ => destruct c end; [inversion H; subst; exact HJ1|].
    eapply process_tail_J; [exact H| |exact HJ1].
    eapply reversible_segment_in; [exact Er|]. apply HJ1.
  - destruct (set_lib d1 (c_first cfg) (bref b) (blib b)) as [d2|] eqn:Es; [|inversion H; subst; exact HJ1].
    assert (HJ2 : Js (with_db (with_db s d1) d2)).
    { unfold Js, with_db. cbn. eapply J_set_lib; [exact Es|]. apply HJ1. }
    destruct (has_lib d2).
    + destruct (rn (libref d2) =? bnum b).
      * match type of H with (match ?x with _ => _ end) = _ => destruct x as [[s3 e3] ok3] eqn:E3 end.
        inversion H; subst. eapply process_initial_inclusive_J; eauto.
      * destruct (reversible_segment (db (with_db (with_db s d1) d2)) (c_first cfg) (bref b)) as [[longest rl]|] eqn:Er;
          [|inversion H; subst; exact HJ2].
        match type of H with (if ?c then _ else _) = _ => destruct c end; [inversion H; subst; exact HJ2|].
        eapply process_tail_J; [exact H| |exact HJ2].
        eapply reversible_segment_in; [exact Er|]. apply HJ2.
    + destruct (c_hold cfg); [inversion H; subst; exact HJ2|].
      destruct (reversible_segment (db (with_db (with_db s d1) d2)) (c_first cfg) (bref b)) as [[longest rl]|] eqn:Er;
        [|inversion H; subst; exact HJ2].
      match type of H with (if ?c then _ else _) = _ => destruct c end; [inversion H; subst; exact HJ2|].
      eapply process_tail_J; [exact H| |exact HJ2].
      eapply reversible_segment_in; [exact Er|]. apply HJ2.
Qed.

Lemma feed_J : forall cfg l s, Js s -> (forall b, In b l -> In b U) -> Js (feed cfg s l).
Proof.
  intros cfg l. induction l as [|b l IH]; intros s HJ Hl; [exact HJ|]. cbn [feed].
  destruct (fk_step cfg s b) as [[s1 e1] r1] eqn:E.
  assert (HJ1 : Js s1) by (eapply fk_step_J; eauto; apply Hl; left; reflexivity).
  destruct r1; try exact HJ1. apply IH; [exact HJ1|]. intros x Hx. apply Hl. right. exact Hx.
Qed.

Lemma hub_live_J : forall first kept h p b h' evs r,
  hub_live first kept h p b = (h', evs, r) -> Js (h_f h) -> In b U -> pass_in U p -> Js (h_f h').
Proof.
  intros first kept h p b h' evs r H HJ Hb Hp. unfold hub_live in H.
  destruct (h_ready h).
  - destruct (fk_step (hub_config first kept) (h_f h) b) as [[s1 e1] r1] eqn:E.
    inversion H; subst. cbn. eapply fk_step_J; eauto.
  - destruct (bnum b <? head_num (h_f h)).
    + destruct (fk_step (hub_config first kept) (h_f h) b) as [[s1 e1] r1] eqn:E.
      inversion H; subst. cbn. eapply fk_step_J; eauto.
    + destruct (linkable (h_f h) b) as [l0|]; [|inversion H; subst; exact HJ].
      match type of H with (match ?boot with Some _ => _ | None => _ end) = _ => destruct boot as [s1|] eqn:Eb end;
        [|inversion H; subst; exact HJ].
      assert (HJ1 : Js s1).
      { destruct l0; [inversion Eb; subst; exact HJ|]. destruct p as [|bl]; [discriminate|].
        inversion Eb; subst. apply feed_J; [exact HJ|]. intros x Hx. apply filter_In in Hx. apply Hp. tauto. }
      destruct (fk_step (hub_config first kept) s1 b) as [[s2 e2] r2] eqn:E.
      assert (HJ2 : Js s2) by (eapply fk_step_J; eauto).
      destruct r2; try (inversion H; subst; exact HJ2).
      destruct (linkable s2 b) as [[|]|]; inversion H; subst; exact HJ2.
Qed.

Lemma Js_of_wf : forall s, wf_state s -> store_in U s -> Js s.
Proof.
  intros s [[Wst X] _] [H1 H2]. split; [apply Wst|]. split; [exact X|]. split; assumption.
Qed.

End Inv.

Lemma block_eqb_eq : forall a b, block_eqb a b = true -> a = b.
Proof.
  intros [a1 a2 a3 a4] [b1 b2 b3 b4] H. unfold block_eqb in H. cbn in H.
  repeat (apply andb_true_iff in H; destruct H as [H ?]).
  repeat match goal with E : (_ =? _) = true |- _ => apply N.eqb_eq in E end. subst. reflexivity.
Qed.

Lemma c09_wf_universe_b : forall U, Spec.Universe.wf_b U = true -> wf_universe U.
Proof.
  intros U H. unfold Spec.Universe.wf_b in H. rewrite forallb_forall in H.
  assert (Hself : forall b, In b U -> Spec.Universe.lookup (bid b) U = Some b).
  { intros b Hb. specialize (H b Hb). unfold Spec.Universe.wf_block in H.
    apply andb_true_iff in H. destruct H as [_ H].
    destruct (Spec.Universe.lookup (bid b) U) as [b'|]; [|discriminate]. apply block_eqb_eq in H. subst. reflexivity. }
  constructor.
  - intros a b Ha Hb E. pose proof (Hself a Ha) as H1. pose proof (Hself b Hb) as H2.
    rewrite E in H1. rewrite H1 in H2. inversion H2. reflexivity.
  - intros b Hb. specialize (H b Hb). unfold Spec.Universe.wf_block in H.
    repeat (apply andb_true_iff in H; destruct H as [H ?]).
    apply negb_true_iff in H. apply N.eqb_neq in H. exact H.
  - intros a p Ha Hp E. pose proof (Hself p Hp) as H1. rewrite E in H1.
    specialize (H a Ha). unfold Spec.Universe.wf_block in H.
    repeat (apply andb_true_iff in H; destruct H as [H ?]).
    rewrite H1 in *. match goal with E' : (bnum p <? bnum a) = true |- _ => apply N.ltb_lt in E'; exact E' end.
Qed.

Lemma c09_wf_reachable_proof : C09_wf_reachable.
Proof.
  intros U WU. split; [|split].
  - intros cfg s b s' evs r W Hin Hb E.
    pose proof (fk_step_J U cfg s b s' evs r E (Js_of_wf U s W Hin) Hb) as HJ.
    split; [apply (J_wf_state U WU); exact HJ|apply J_store_in; exact HJ].
  - intros cfg h Hh.
    pose proof (feed_J U cfg h (fs_init LNone) (J_init U) (fun b Hb => Hh b Hb)) as HJ.
    split; [apply (J_wf_state U WU); exact HJ|apply J_store_in; exact HJ].
  - intros first kept l Hl.
    assert (HJ : forall h, Js U (h_f h) -> Js U (h_f (hub_run first kept h l))).
    { induction l as [|[b p] l IH]; intros h Hh; [exact Hh|]. cbn [hub_run].
      destruct (hub_live first kept h p b) as [[h' evs] r] eqn:E.
      destruct (Hl b p (or_introl eq_refl)) as [Hb Hp].
      pose proof (hub_live_J U first kept h p b h' evs r E Hh Hb Hp) as Hh'.
      destruct r; try exact Hh'. apply IH; [|exact Hh'].
      intros b' p' Hin. apply Hl. right. exact Hin. }
    specialize (HJ hub_init (J_init U)).
    split; [apply (J_wf_state U WU); exact HJ|apply J_store_in; exact HJ].
Qed.


(* ---------------------------------------------------------------- a head implies a LIB (hold-until-LIB) *)

(* in the hub's configuration (holdBlocksUntilLIB, no inclusive initial LIB) nothing is sent, hence
   no head exists, before a LIB is set; and a LIB, once set, stays set *)
Definition head_has_lib (s : fstate) : Prop := last_sent s = None \/ has_lib (db s) = true.

Lemma same_core_K : forall s s', same_core s s' -> head_has_lib s -> head_has_lib s'.
Proof. intros s s' [H1 H2] H. unfold head_has_lib. rewrite H1, H2. exact H. Qed.

Lemma same_core_lib : forall s s', same_core s s' -> has_lib (db s') = has_lib (db s).
Proof. intros s s' [H1 _]. rewrite H1. reflexivity. Qed.

Lemma add_link_libref : forall d b d1 ex, add_link d b = (d1, ex) -> libref d1 = libref d.
Proof.
  intros d b d1 ex H. unfold add_link in H.
  destruct ((bid b =? bparent b) || (bid b =? 0)); [inversion H; reflexivity|].
  destruct (exists_link d (bid b)); inversion H; reflexivity.
Qed.

Lemma process_new_loop_lib : forall cfg head chain s acc s' evs ok,
  process_new_loop cfg head chain s acc = (s', evs, ok) -> has_lib (db s') = has_lib (db s).
Proof.
  intros cfg head chain. induction chain as [|b rest IH]; intros s acc s' evs ok H; cbn [process_new_loop] in H.
  - inversion H; subst. reflexivity.
  - destruct (esent (sent b)); [eapply IH; eauto|].
    destruct (f_new (c_filter cfg)).
    + destruct (call cfg s) as [s1 ok1] eqn:Ec. pose proof (call_core _ _ _ _ Ec) as C.
      destruct ok1; [|inversion H; subst; apply same_core_lib; exact C].
      apply IH in H. rewrite H. unfold has_lib. cbn. destruct C as [C1 _]. rewrite C1. reflexivity.
    + apply IH in H. rewrite H. reflexivity.
Qed.

Lemma process_initial_inclusive_db : forall cfg b s s' evs ok,
  process_initial_inclusive cfg b s = (s', evs, ok) -> db s' = db s.
Proof.
  intros cfg b s s' evs ok H. unfold process_initial_inclusive in H.
  destruct (f_new (c_filter cfg)).
  - destruct (call cfg s) as [s1 ok1] eqn:Ec. destruct (call_core _ _ _ _ Ec) as [C1 _].
    destruct ok1; [|inversion H; subst; exact C1].
    match type of H with (match ?x with _ => _ end) = _ => destruct x as [[s2 e2] ok2] eqn:E2 end.
    inversion H; subst. destruct (process_irr_segment_core _ _ _ _ _ _ _ E2) as [D1 _]. rewrite D1. exact C1.
  - match type of H with (match ?x with _ => _ end) = _ => destruct x as [[s2 e2] ok2] eqn:E2 end.
    inversion H; subst. destruct (process_irr_segment_core _ _ _ _ _ _ _ E2) as [D1 _]. rewrite D1. reflexivity.
Qed.

Lemma process_tail_lib : forall cfg s b undos redos junc longest first_irr s' evs r,
  process_tail cfg s b undos redos junc longest first_irr = (s', evs, r) ->
  has_lib (db s) = true -> has_lib (db s') = true.
Proof.
  intros cfg s b undos redos junc longest first_irr s' evs r H HL. unfold process_tail in H.
  match type of H with (match ?x with _ => _ end) = _ => destruct x as [[s1 ev1] ok1] eqn:E1 end.
  assert (H1 : has_lib (db s1) = true).
  { destruct (f_undo (c_filter cfg)); [rewrite (same_core_lib _ _ (process_blocks_core _ _ _ _ _ _ _ _ _ E1)); exact HL|inversion E1; subst; exact HL]. }
  destruct ok1; cbn [negb] in H; [|inversion H; subst; exact H1].
  match type of H with (match ?x with _ => _ end) = _ => destruct x as [[s2 ev2] ok2] eqn:E2 end.
  assert (H2 : has_lib (db s2) = true).
  { destruct (f_new (c_filter cfg)); [rewrite (same_core_lib _ _ (process_blocks_core _ _ _ _ _ _ _ _ _ E2)); exact H1|inversion E2; subst; exact H1]. }
  destruct ok2; cbn [negb] in H; [|inversion H; subst; exact H2].
  destruct (process_new_blocks cfg longest s2) as [[s3 ev3] ok3] eqn:E3.
  assert (H3 : has_lib (db s3) = true).
  { unfold process_new_blocks in E3. destruct longest; [inversion E3; subst; exact H2|].
    rewrite (process_new_loop_lib _ _ _ _ _ _ _ _ E3). exact H2. }
  destruct ok3; cbn [negb] in H; [|inversion H; subst; exact H3].
  destruct (last_sent s3) as [ls|] eqn:Els; [|inversion H; subst; exact H3].
  destruct (negb (has_lib (db s3))); [inversion H; subst; exact H3|].
  destruct (block_in_chain (db s3) (bref ls) (blib ls)) as [libr|]; [|inversion H; subst; exact H3].
  destruct (ri libr =? 0) eqn:Ez; [inversion H; subst; exact H3|].
  destruct (has_new_irr_segment (db s3) (c_first cfg) libr) as [[[has_new irr0] stalled]|]; [|inversion H; subst; exact H3].
  match type of H with (if ?c then _ else _) = _ => destruct c end; [inversion H; subst; exact H3|].
  match type of H with (match ?x with _ => _ end) = _ => destruct x as [[s5 ev5] ok5] eqn:E5 end.
  assert (H5 : has_lib (db s5) = true).
  { rewrite (same_core_lib _ _ (process_irr_segment_core _ _ _ _ _ _ _ E5)).
    unfold has_lib, with_db, ref_eqb. cbn. rewrite Ez. reflexivity. }
  destruct ok5; cbn [negb] in H; [|inversion H; subst; exact H5].
  match type of H with (match ?x with _ => _ end) = _ => destruct x as [[s6 ev6] ok6] eqn:E6 end.
  inversion H; subst. rewrite (same_core_lib _ _ (process_stalled_segment_core _ _ _ _ _ _ _ E6)). exact H5.
Qed.

Lemma fk_step_K : forall cfg s b s' evs r, c_hold cfg = true -> c_incl cfg = false ->
  fk_step cfg s b = (s', evs, r) -> head_has_lib s -> head_has_lib s'.
Proof.
  intros cfg s b s' evs r Hhold Hincl H HK. unfold fk_step in H. rewrite Hincl in H. cbn [andb] in H.
  destruct (bid b =? bparent b); [inversion H; subst; exact HK|].
  match type of H with (if ?c then _ else _) = _ => destruct c end; [inversion H; subst; exact HK|].
  match type of H with (match ?sw with ScssOk _ _ _ => _ | ScssPanic => _ | ScssFuel => _ end) = _ =>
    destruct sw as [undos redos junc| |] end; try (inversion H; subst; exact HK).
  destruct (add_link (db s) b) as [d1 existed] eqn:Ea.
  destruct existed; [inversion H; subst; exact HK|].
  pose proof (add_link_libref _ _ _ _ Ea) as Hlr.
  destruct (has_lib d1) eqn:Ehl.
  - assert (K1 : head_has_lib (with_db s d1)) by (right; exact Ehl).
    destruct (reversible_segment (db (with_db s d1)) (c_first cfg) (bref b)) as [[longest rl]|] eqn:Er;
      [|inversion H; subst; exact K1].
    match type of H with (if ?c then _ else _) = _ => destruct c end; [inversion H; subst; exact K1|].
    right. eapply process_tail_lib; [exact H|exact Ehl].
  - assert (Hnone : last_sent s = None).
    { destruct HK as [HK|HK]; [exact HK|]. unfold has_lib in *. rewrite Hlr in Ehl. rewrite Ehl in HK. discriminate. }
    destruct (set_lib d1 (c_first cfg) (bref b) (blib b)) as [d2|] eqn:Es; [|inversion H; subst; left; exact Hnone].
    destruct (has_lib d2) eqn:Ehl2.
    + destruct (rn (libref d2) =? bnum b).
      * match type of H with (match ?x with _ => _ end) = _ => destruct x as [[s3 e3] ok3] eqn:E3 end.
        inversion H; subst. right. rewrite (process_initial_inclusive_db _ _ _ _ _ _ E3). exact Ehl2.
      * destruct (reversible_segment (db (with_db (with_db s d1) d2)) (c_first cfg) (bref b)) as [[longest rl]|] eqn:Er;
          [|inversion H; subst; right; exact Ehl2].
        match type of H with (if ?c then _ else _) = _ => destruct c end; [inversion H; subst; right; exact Ehl2|].
        right. eapply process_tail_lib; [exact H|exact Ehl2].
    + rewrite Hhold in H. inversion H; subst. left. exact Hnone.
Qed.

Lemma feed_K : forall cfg l s, c_hold cfg = true -> c_incl cfg = false -> head_has_lib s -> head_has_lib (feed cfg s l).
Proof.
  intros cfg l. induction l as [|b l IH]; intros s Hh Hi HK; [exact HK|]. cbn [feed].
  destruct (fk_step cfg s b) as [[s1 e1] r1] eqn:E.
  assert (K1 : head_has_lib s1) by (eapply fk_step_K; eauto).
  destruct r1; try exact K1. apply IH; auto.
Qed.

Lemma hub_live_K : forall first kept h p b h' evs r,
  hub_live first kept h p b = (h', evs, r) -> head_has_lib (h_f h) -> head_has_lib (h_f h').
Proof.
  intros first kept h p b h' evs r H HK. unfold hub_live in H.
  assert (Hh : c_hold (hub_config first kept) = true) by reflexivity.
  assert (Hi : c_incl (hub_config first kept) = false) by reflexivity.
  destruct (h_ready h).
  - destruct (fk_step (hub_config first kept) (h_f h) b) as [[s1 e1] r1] eqn:E.
    inversion H; subst. cbn. eapply fk_step_K; eauto.
  - destruct (bnum b <? head_num (h_f h)).
    + destruct (fk_step (hub_config first kept) (h_f h) b) as [[s1 e1] r1] eqn:E.
      inversion H; subst. cbn. eapply fk_step_K; eauto.
    + destruct (linkable (h_f h) b) as [l0|]; [|inversion H; subst; exact HK].
      match type of H with (match ?boot with Some _ => _ | None => _ end) = _ => destruct boot as [s1|] eqn:Eb end;
        [|inversion H; subst; exact HK].
      assert (K1 : head_has_lib s1).
      { destruct l0; [inversion Eb; subst; exact HK|]. destruct p as [|bl]; [discriminate|].
        inversion Eb; subst. apply feed_K; auto. }
      destruct (fk_step (hub_config first kept) s1 b) as [[s2 e2] r2] eqn:E.
      assert (K2 : head_has_lib s2) by (eapply fk_step_K; eauto).
      destruct r2; try (inversion H; subst; exact K2).
      destruct (linkable s2 b) as [[|]|]; inversion H; subst; exact K2.
Qed.

Lemma hub_run_K : forall first kept l h, head_has_lib (h_f h) -> head_has_lib (h_f (hub_run first kept h l)).
Proof.
  intros first kept l. induction l as [|[b p] l IH]; intros h HK; [exact HK|]. cbn [hub_run].
  destruct (hub_live first kept h p b) as [[h' evs] r] eqn:E.
  pose proof (hub_live_K _ _ _ _ _ _ _ _ E HK) as K'. destruct r; auto.
Qed.

Lemma c09_hub_head_has_lib_proof : C09_hub_head_has_lib.
Proof.
  intros first kept l hd Hh.
  destruct (hub_run_K first kept l hub_init (or_introl eq_refl)) as [K|K]; [rewrite K in Hh; discriminate|exact K].
Qed.

Lemma c09_hub_snapshots_proof : C09_hub_snapshots.
Proof.
  intros U first kept l WU Hl h.
  destruct (c09_wf_reachable_proof U WU) as [_ [_ Hhub]]. destruct (Hhub first kept l Hl) as [W _].
  split; [exact W|]. split; [intros n; apply c09_from_num_proof; exact W|].
  intros hd x0 sg Hr Hh E. apply (c09_lowest_proof h hd x0 sg W Hr); auto.
  exact (c09_hub_head_has_lib_proof first kept l hd Hh).
Qed.
