(* C20: the invariant of the interleaving model, preserved by every step of every thread *)
From BV Require Import Base.Prelude Proofs.PreludeFacts Model.BlockServer Model.BlockServerSched
  Spec.C20_Spec Spec.C20_SchedSpec Proofs.C20_Window Proofs.C20_Seq.
Local Open Scope Z_scope.
Arguments chan_base : simpl never.

(* ------------------------------------------------------------------ small facts *)

Lemma existsb_eqb_In i l : existsb (Nat.eqb i) l = true <-> In i l.
Proof.
  rewrite existsb_exists. split.
  - intros (x & Hin & He). apply Nat.eqb_eq in He. now subst.
  - intros H. exists i. split; auto. apply Nat.eqb_refl.
Qed.

Lemma existsb_eqb_false i l : existsb (Nat.eqb i) l = false <-> ~ In i l.
Proof.
  split; intros H.
  - intros Hin. apply existsb_eqb_In in Hin. congruence.
  - destruct (existsb (Nat.eqb i) l) eqn:E; auto. apply existsb_eqb_In in E. contradiction.
Qed.

Lemma skipn_snoc_le {A} n (l : list A) x : (n <= length l)%nat -> skipn n (l ++ [x]) = skipn n l ++ [x].
Proof.
  intros H. rewrite skipn_app. replace (n - length l)%nat with 0%nat by lia. reflexivity.
Qed.

Lemma firstn_snoc_le {A} n (l : list A) x : (n <= length l)%nat -> firstn n (l ++ [x]) = firstn n l.
Proof.
  intros H. rewrite firstn_app. replace (n - length l)%nat with 0%nat by lia.
  simpl. apply app_nil_r.
Qed.

(* the plan + burst loop of subscribe always produce the subscription of the spec *)
Lemma plan_push_ok ob b :
  let w := match ob with Some bf => buf_all bf | None => [] end in
  let B := burst_of b w in
  let cap := Z.to_N (chan_base + zlen B) in
  burst_plan ob b = Some (B, chan_base + zlen B) /\
  mk_sub (chan_base + zlen B) = Some (new_sub cap) /\
  burst_push (new_sub cap) B = BuOk (created_sub B cap) /\
  sub_ok (created_sub B cap).
Proof.
  intros w B cap. split; [apply burst_plan_spec|].
  assert (E : chan_base + zlen B <? 0 = false) by (unfold chan_base, zlen; lia).
  split; [unfold mk_sub; now rewrite E|].
  split.
  - rewrite burst_push_ok.
    + reflexivity.
    + apply new_sub_ok.
    + reflexivity.
    + unfold qlen, new_sub, cap, chan_base, zlen. cbn [s_q s_cap length]. lia.
  - constructor; cbn [s_q s_cap s_closed s_once s_chclosed s_ncloses created_sub]; auto.
    unfold qlen, created_sub, cap, chan_base, zlen. cbn [s_q]. lia.
Qed.

Lemma buf_append_head_ok x b : buf_ok b -> buf_ok (buf_append_head x b).
Proof.
  intros Hok. unfold buf_append_head. rewrite (memN_set b x Hok).
  destruct (memN x (blist b)) eqn:E; auto.
  constructor; simpl.
  - apply NoDup_snoc; [apply Hok|]. now apply memN_false.
  - intros z. rewrite in_app_iff. simpl. rewrite (bo_set b Hok). tauto.
Qed.

Lemma buf_append_head_len x b : buf_len b <= buf_len (buf_append_head x b).
Proof.
  unfold buf_append_head, buf_len, zlen. destruct (memN x (bset b)); simpl; [lia|].
  rewrite app_length. simpl. lia.
Qed.

Lemma buf_delete_tail_len b :
  buf_ok b -> buf_len b > 0 ->
  exists b', buf_delete (buf_tail b) b = Some b' /\ buf_len b' = buf_len b - 1.
Proof.
  intros Hok Hl. unfold buf_tail, buf_delete, buf_len, zlen in *.
  destruct (blist b) as [|y w] eqn:Eb.
  - simpl in Hl. lia.
  - assert (Hy : memN y (bset b) = true).
    { apply memN_In. apply (bo_set b Hok). rewrite Eb. now left. }
    cbn [hd_error]. rewrite Hy. eexists. split; [reflexivity|].
    cbn [blist remove_first]. rewrite N.eqb_refl. cbn [length]. lia.
Qed.

(* ------------------------------------------------------------------ the invariant *)

Definition holds (c : client) : bool :=
  match c_pc c with CSubLocked | CUnsubLocked => true | _ => false end.

Definition in_push (pc : ppc) : bool := match pc with PIdle => false | _ => true end.

Definition cur_block (pc : ppc) : option N :=
  match pc with
  | PAppended x | PLoop x _ | PClose x _ _ | PSend x _ _ => Some x
  | _ => None
  end.

Definition todo_of (pc : ppc) : list nat :=
  match pc with
  | PLoop _ t => t
  | PClose _ k t | PSend _ k t => k :: t
  | _ => []
  end.

Definition pend_list (st : cstate) : list nat :=
  match g_ppc st with PAppended _ => g_order st | pc => todo_of pc end.

Lemma pending_pend_list st i : pending st i = existsb (Nat.eqb i) (pend_list st).
Proof. unfold pending, pend_list. destruct (g_ppc st); reflexivity. Qed.

Section Inv.
Variables (buffered : bool) (size : Z) (script : list N) (bursts : list Z).

Definition later_of (P : list N) (c : client) : list N :=
  firstn ((match c_stop c with Some n => n | None => length P end) - c_start c) (skipn (c_start c) P).

Definition burst_at (P : list N) (c : client) : list N :=
  burst_of (c_burst c) (if buffered then spec_window size (firstn (c_start c) P) else []).

Record sub_inv (st : cstate) (i : nat) (c : client) (s : sub) : Prop := {
  u_ok : sub_ok s;
  u_listed : s_listed s = true <-> (c_pc c = CSubscribed \/ c_pc c = CUnsubLocked);
  u_order : s_listed s = true <-> In i (g_order st);
  u_start : (c_start c <= length (g_pushed st))%nat;
  u_stop : match c_stop c with
           | None => s_listed s = true
           | Some m => s_listed s = false /\ (c_start c <= m <= length (g_pushed st))%nat
           end;
  u_cap : s_cap s = Z.to_N (chan_base + zlen (burst_at (g_pushed st) c));
  u_deliv : exists n,
      s_recv s ++ s_q s = burst_at (g_pushed st) c ++ firstn n (later_of (g_pushed st) c) /\
      (s_chclosed s = true -> (n < length (later_of (g_pushed st) c))%nat) /\
      (s_chclosed s = false ->
         (n + (if s_listed s && existsb (Nat.eqb i) (pend_list st) then 1 else 0))%nat
           = length (later_of (g_pushed st) c))
}.

Record cl_ok (st : cstate) (i : nat) (c : client) : Prop := {
  k_burst : nth_error bursts i = Some (c_burst c);
  k_holds : holds c = true <-> g_wlock st = Some i;
  k_nosub : c_sub c = None <-> (c_pc c = CStart \/ c_pc c = CSubLocked);
  k_sub : forall s, c_sub c = Some s -> sub_inv st i c s
}.

Definition pre_evict (b0 : buffer) (x : N) : buffer :=
  if size >? 0 then buf_append_head x b0 else b0.

Record ginv (st : cstate) : Prop := {
  i_bad : g_bad st = false;
  i_size : g_size st = size;
  i_buffered : g_buf st = None <-> buffered = false;
  i_rlock : g_rlock st = in_push (g_ppc st);
  i_excl : g_rlock st = true -> g_wlock st = None;
  i_wl_lt : forall i, g_wlock st = Some i -> (i < length (g_clients st))%nat;
  i_script : script = g_pushed st ++ (match g_ppc st with PLocked x => [x] | _ => [] end) ++ g_script st;
  i_buf : forall b, g_buf st = Some b ->
            buf_ok b /\
            match g_ppc st with
            | PAppended x => exists b0 P', g_pushed st = P' ++ [x] /\ buf_ok b0 /\
                                           blist b0 = spec_window size P' /\ b = pre_evict b0 x
            | _ => blist b = spec_window size (g_pushed st)
            end;
  i_last : forall x, cur_block (g_ppc st) = Some x -> exists P', g_pushed st = P' ++ [x];
  i_order_nodup : NoDup (g_order st);
  i_order_sub : forall i, In i (g_order st) ->
                  exists c s, nth_error (g_clients st) i = Some c /\ c_sub c = Some s;
  i_todo_nodup : NoDup (todo_of (g_ppc st));
  i_todo_incl : incl (todo_of (g_ppc st)) (g_order st);
  i_pcsub : match g_ppc st with
            | PClose _ k _ => exists s, sub_of st k = Some s /\ s_closed s = false
            | PSend _ k _ => exists s, sub_of st k = Some s /\ s_closed s = false /\ (qlen s < s_cap s)%N
            | _ => True
            end;
  i_clients : forall i c, nth_error (g_clients st) i = Some c -> cl_ok st i c
}.

(* cl_ok looks at the state only through the write lock, the subscription list, the pushed blocks
   and the pending list *)
Lemma cl_ok_frame st st' i c :
  g_wlock st' = g_wlock st -> g_order st' = g_order st -> g_pushed st' = g_pushed st ->
  (forall j, existsb (Nat.eqb j) (pend_list st') = existsb (Nat.eqb j) (pend_list st)) ->
  cl_ok st i c -> cl_ok st' i c.
Proof.
  intros Hw Ho Hp Hpe [H1 H2 H3 H4]. constructor; auto.
  - now rewrite Hw.
  - intros s Hs. destruct (H4 s Hs) as [A B C D E F G].
    constructor; rewrite ?Ho, ?Hp, ?Hpe; auto.
Qed.

Lemma nth_set_client st i c j :
  nth_error (set_client st i c) j =
    if Nat.eqb i j then option_map (fun _ => c) (nth_error (g_clients st) j) else nth_error (g_clients st) j.
Proof. unfold set_client. apply nth_error_upd_nth. Qed.

Lemma sub_of_put_sub st k s j :
  sub_of (put_sub st k s) j =
    if Nat.eqb k j then (match nth_error (g_clients st) j with Some _ => Some s | None => None end)
    else sub_of st j.
Proof.
  unfold sub_of, put_sub. simpl. rewrite nth_error_upd_nth.
  destruct (Nat.eqb k j); auto. destruct (nth_error (g_clients st) j); reflexivity.
Qed.

Lemma existsb_cons_eqb i k l : existsb (Nat.eqb i) (k :: l) = Nat.eqb i k || existsb (Nat.eqb i) l.
Proof. reflexivity. Qed.

(* replacing the subscription of client k by s' *)
Lemma put_sub_clients st st' k s s' :
  g_clients st' = upd_nth k (set_csub s') (g_clients st) ->
  g_wlock st' = g_wlock st -> g_order st' = g_order st -> g_pushed st' = g_pushed st ->
  sub_of st k = Some s ->
  (forall j, j <> k -> existsb (Nat.eqb j) (pend_list st') = existsb (Nat.eqb j) (pend_list st)) ->
  (forall c, nth_error (g_clients st) k = Some c -> c_sub c = Some s -> sub_inv st k c s ->
             sub_inv st' k (set_csub s' c) s') ->
  (forall i c, nth_error (g_clients st) i = Some c -> cl_ok st i c) ->
  forall i c, nth_error (g_clients st') i = Some c -> cl_ok st' i c.
Proof.
  intros Hcl Hw Ho Hp Hsub Hpe Hk Hall i c Hn.
  rewrite Hcl, nth_error_upd_nth in Hn.
  destruct (Nat.eqb_spec k i) as [->|Hne].
  - destruct (nth_error (g_clients st) i) as [c0|] eqn:E0; simpl in Hn; [|discriminate].
    inversion Hn; subst c. clear Hn.
    assert (Hs0 : c_sub c0 = Some s) by (unfold sub_of in Hsub; now rewrite E0 in Hsub).
    destruct (Hall i c0 E0) as [H1 H2 H3 H4].
    constructor; simpl; auto.
    + now rewrite Hw.
    + rewrite Hs0 in H3. split; [discriminate|]. intros H. apply H3 in H. discriminate.
    + intros s0 Hs. inversion Hs; subst s0. apply (Hk c0 eq_refl Hs0). now apply H4.
  - destruct (Hall i c Hn) as [H1 H2 H3 H4]. constructor; auto.
    + now rewrite Hw.
    + intros s0 Hs. destruct (H4 s0 Hs) as [A B C D E F G].
      constructor; rewrite ?Ho, ?Hp; auto.
      destruct G as (n & G1 & G2 & G3). exists n. rewrite Hpe by congruence. auto.
Qed.

End Inv.
