(* C07, target-cursor mode, filters with New and Undo and any stop block (C07_seamless_target_nu of
   Spec/C07_More_Spec.v): the run shapes with the pass-through resolver (through_prefix) and the hub's answer "through
   the cursor" (hub_through_shape_gen): under target_on_chain, or for a cursor with its LIB on canon also when the hub stores
   the cursor block off its chain (Proofs/C07_TargetOff.v). *)
From Coq Require Import Sorted.
From BV Require Import Base.Prelude Model.Block Model.ForkDB Model.Forkable Model.ForkableLookups Model.Burst Model.Hub
  Model.CursorResolver Model.Joining
  Spec.Consumer Spec.Universe Check.Fk_Check Check.Burst_Check Check.C07_Check
  Spec.C09_Spec Spec.C05_Spec Spec.C06_Spec Spec.C07_Spec Spec.C13_Spec Spec.C07_Compose_Spec Spec.C07_Shapes_Spec Spec.C07_More_Spec Spec.C13_More_Spec
  Spec.C01_Spec Spec.C01_Moving_Spec Spec.C01_Roots_Spec
  Proofs.C06_Lists Proofs.C06_Resolver Proofs.C06_Proofs Proofs.C06_Through Proofs.C13_Proofs
  Proofs.C09_Store Proofs.C09_Segment Proofs.C09_Proofs Proofs.C05_Fast Proofs.C05_Forked
  Proofs.Fk.LoopFacts Proofs.Fk.MovingLibDisc Proofs.C02_Proofs Proofs.C01_Roots_Proofs
  Proofs.Hub.ConsFacts Proofs.Hub.HubFed Proofs.Hub.LinkedRuns Proofs.Hub.C09_History
  Proofs.C07_File Proofs.C07_Live
  Proofs.C07_ComposeStack Proofs.C07_ComposeHub Proofs.C07_ComposeRun Proofs.C07_Compose
  Proofs.C07_ComposeCursor Proofs.C07_ComposeCursorLive Proofs.C07_ComposeCursorAll Proofs.C07_ComposeTarget
  Proofs.C07_FilesFinal Proofs.C07_Raw Proofs.C07_Shapes Proofs.C07_Filters Proofs.C07_ChainFacts Proofs.C07_Delivery Proofs.C07_TargetOff Proofs.C07_Disc Proofs.C07_FiltersNum.
Local Open Scope N_scope.

Section TgtRun.
  Variable U : list block.
  Variable c : jcfg.
  Variable w : world.
  Variable ps : list (N * N).
  Variable merged_end : N.
  Variables canon forked : list block.
  Variable cu : cursor.
  Variable B : block.
  Variable start : N.

  Hypothesis U_id : forall b, In b U -> bid b <> 0 /\ bid b <> bparent b.
  Hypothesis U_uniq : forall x y, In x U -> In y U -> bid x = bid y -> x = y.
  Hypothesis U_up : forall x y, In x U -> In y U -> bparent x = bid y -> bnum y < bnum x.
  Hypothesis D_decl : forall b, In b U -> decl_none U b.

  Hypothesis Hchain : chain_ok canon.
  Hypothesis Hincl : incl canon U.
  Hypothesis Hstartblk : exists b, In b canon /\ bnum b = start.
  Hypothesis Hstart : run_start c w = start.
  Hypothesis HW : WOK U c w.
  Hypothesis Htip : eventual_tip c w canon.
  Hypothesis Hmode : j_mode c = 2.
  Hypothesis Hcur : j_cursor c = Some cu.
  Hypothesis Hnu : has_nu (j_filter c) (j_custom c) = true.
  Hypothesis Hbundle : 0 < j_bundle c.
  Hypothesis HBc : In B canon.
  Hypothesis HB : bref B = cu_blk cu.

  Let merged := filter (fun b => bnum b <? merged_end) canon.
  Hypothesis Hbound : Forall (fun b => bnum b < file_bound) merged.
  Hypothesis Hto : target_on_chain c w cu \/ cursor_lib_on canon cu B.

  Let res := stream_run c w ps merged_end merged forked.
  Let stopf := if j_stop c =? 0 then file_bound else j_stop c.
  Let D := file_delivery merged start stopf (j_bundle c).
  Let fend0 := if negb (j_stop c =? 0) && ((j_stop c / j_bundle c + 1) * j_bundle c <=? merged_end) then JStop else JNil.
  Let first := j_first c.
  Let kept := j_kept c.

  Let HcU : Forall (fun x => In x U) canon.
  Proof. apply Forall_forall. exact Hincl. Qed.
  Let Hcl : exists x, lnk x canon := lnk_of_chain_ok canon Hchain.
  Let HmU : forall b, In b merged -> In b U.
  Proof. intros b Hb. apply Hincl. unfold merged in Hb. apply filter_In in Hb as [Hb _]. exact Hb. Qed.
  Let HBU : In B U := Hincl B HBc.
  Let Hsl : exists b, In b canon /\ bnum b <= start.
  Proof. destruct Hstartblk as (b0 & H1 & H2). exists b0. split; [exact H1 | lia]. Qed.

  Let D_ok' : chain_ok D := dlv_ok c canon start merged_end Hchain.
  Let D_bot' : forall z r, D = z :: r -> bnum z <= start := dlv_bot c canon start merged_end Hchain Hstartblk.

  Lemma D_merged b : In b D -> In b merged.
  Proof. clear Hto. intros H. apply (dlv_in c canon start merged_end b) in H. tauto. Qed.

  Let Hmc : forall b, In b merged -> In b canon.
  Proof. intros b Hb. unfold merged in Hb. apply filter_In in Hb as [Hb _]. exact Hb. Qed.

  (* the hub answers "through the cursor" with the cursor block stored off its chain: only a cursor with its LIB on canon
     gets there (target_on_chain excludes it), and the consumer that holds the file blocks Q ends on the hub's chain *)
  Lemma tgt_off m V hd sg n burst Q bn :
    h_ready (w_hub (world_after c m w)) = true ->
    VState U first kept (h_f (w_hub (world_after c m w))) V ->
    last_sent (h_f (w_hub (world_after c m w))) = Some hd ->
    complete_segment (db (h_f (w_hub (world_after c m w)))) (bref hd) = Some (sg, true) ->
    block_in (ri (cu_blk cu)) sg = false -> n <= rn (cu_blk cu) ->
    blocks_through_cursor (h_f (w_hub (world_after c m w))) n cu = BOk burst ->
    In bn canon -> bnum bn = n ->
    (exists x, lnk x (Q ++ [bn])) -> Forall (fun y => In y U) Q ->
    (forall z r, Q ++ [bn] = z :: r -> bnum z <= start) ->
    exists J1 E, sfold (rev Q) burst = Some J1 /\ Rel U start (V ++ E) J1 /\ disc U start (rev Q) burst.
  Proof.
    intros Hrd HV Hls Eseg Hoff Hn Hb Hbnc Hbnn HlQ HQU Hbot.
    destruct Hto as [Hon|(Lb & HLbc & HLb & Hle & Hun)].
    - exfalso.
      assert (Hh : hub_through_cursor (h_f (w_hub (world_after c m w))) n cu = BOk burst).
      { unfold hub_through_cursor. replace (rn (cu_blk cu) <? n) with false by (symmetry; apply N.ltb_ge; exact Hn). exact Hb. }
      rewrite (through_proper_on_chain U first kept _ V n cu burst hd sg HV (fun hd sg H1 H2 H3 => Hon m hd sg Hrd H1 H2 H3) Hn Hh Hls Eseg) in Hoff.
      discriminate.
    - exact (off_rel U first kept U_id U_uniq U_up canon HcU Hcl start cu B Lb HB HBc HLb HLbc Hle Hun _ V hd sg n burst Q bn
               HV Hls Eseg Hoff Hn Hb Hbnc Hbnn HlQ HQU Hbot).
  Qed.

  (* the pass-through resolver hands over a beginning D1 of the file blocks *)
  Lemma tgt_files : exists D1 D2 fend,
    D = D1 ++ D2 /\
    run_files c (run_start c w) merged_end merged forked = (map fev D1, fend) /\
    (fend = fend0 \/ fend = JOther) /\
    (* a cursor below the start block or in the delivery: everything is handed over unless the file source gives up *)
    (rn (cu_blk cu) < start \/ In B D -> fend = fend0 -> D2 = []).
  Proof.
    clear Hto.
    assert (Hcons : forall b, In b D -> bid b = ri (cu_blk cu) -> bnum b = rn (cu_blk cu)).
    { intros b Hb Eb. destruct (bref_eq _ _ HB) as [EBi EBn].
      assert (Hbc : In b canon).
      { apply D_merged in Hb. unfold merged in Hb. apply filter_In in Hb as [Hb _]. exact Hb. }
      pose proof Hchain as [_ Hnd]. rewrite (nodup_ids_eq canon b B Hnd Hbc HBc); [exact EBn | congruence]. }
    destruct (through_run_prefix merged forked start cu stopf (j_bundle c) (chain_ok_asc D D_ok') Hcons) as (D1 & D2 & ED & Hfst & Hsnd & Hall).
    fold D in ED, Hall.
    exists D1, D2. unfold run_files. rewrite (file_end_not1 c merged_end) by (rewrite Hmode; reflexivity). fold fend0. rewrite Hmode, Hcur, Hstart. cbn [N.eqb Pos.eqb].
    change (if j_stop c =? 0 then 1000000000000 else j_stop c) with stopf.
    destruct (through_cursor_run merged forked start cu stopf (j_bundle c)) as [fevs r]. cbn [fst snd] in Hfst, Hsnd, Hall. subst fevs.
    destruct Hsnd as [E|E]; subst r.
    - exists fend0. split; [exact ED|]. split; [reflexivity|]. split; [left; reflexivity|].
      intros Hc _. apply Hall; [|reflexivity]. destruct Hc as [Hc|Hc]; [left; exact Hc | right; exists B; split; [exact Hc | rewrite <- HB; reflexivity]].
    - exists JOther. split; [exact ED|]. split; [reflexivity|]. split; [right; reflexivity|].
      intros _ E1. exfalso. unfold fend0 in E1. destruct (negb (j_stop c =? 0) && ((j_stop c / j_bundle c + 1) * j_bundle c <=? merged_end)); discriminate.
  Qed.

  (* ---------------------------------------------------------------- the raw sequence of the run *)

  Definition tgt_done (J : list block) : Prop :=
    (exists D1 D2, from_num start merged = D1 ++ D2 /\ rev J = D1) \/ from_num start (rev J) = from_num start canon.

  Lemma tgt_core :
    exists X J, sfold [] X = Some J /\ disc U start [] X /\
      ((run_rejected c w = false /\ exists P, raw_out c X res P /\ (P -> tgt_done J)) \/
       (run_rejected c w = false /\
        exists fend D1 D2, D = D1 ++ D2 /\ X = map fev D1 /\ J = rev D1 /\ files_out c X fend res /\
          (fend = fend0 \/ fend = JOther) /\ (rn (cu_blk cu) < start \/ In B D -> fend = fend0 -> D2 = []) /\
          (fend = JNil -> tgt_done J)) \/
       (X = [] /\ fst res = [] /\ snd res <> JNil /\ snd res <> JStop)).
  Proof.
    pose proof (c07_run_shapes_proof c w ps merged_end merged forked) as Hsh. cbv zeta in Hsh.
    destruct tgt_files as (D1 & D2 & fend & ED & Erf & Hfend & Hall2). rewrite Erf in Hsh. cbn [fst snd] in Hsh. fold res in Hsh.
    rewrite Hstart in Hsh.
    assert (Hseen : forall X, seen c X = X) by (intros X; apply seen_stateless; exact (has_nu_not_final c Hnu)).
    destruct (lnk_of_chain_ok D D_ok') as [x0 HlD].
    destruct Hsh as [[_ Hr]|[Hrej [(burst & k & Hlt & Hro)|[[_ Hr]|[Hlt [(pre & e & rest0 & m & lowest & burst & k & Ef & Hns & Hj & Hro)|Hfo']]]]]].
    - exists [], []. split; [reflexivity|]. split; [apply disc_nil; left; reflexivity|]. right. right. rewrite Hr. split; [reflexivity|]. split; [reflexivity|]. split; discriminate.
    - (* live from the start *)
      rewrite Hseen in Hro.
      unfold live_try in Hlt. rewrite Hmode, Hcur in Hlt. cbn [N.eqb Pos.eqb] in Hlt.
      destruct (h_ready (w_hub w)) eqn:Hrd; cbn [negb] in Hlt; [|discriminate].
      destruct HW as [Hok Hrest].
      destruct (vstate_of_hub U first kept U_id U_uniq U_up D_decl (w_hub w) Hok Hrd) as [V HV].
      destruct (hub_through_shape_gen U first kept U_id U_uniq U_up (h_f (w_hub w)) V start cu burst HV Hlt)
        as (hd & sg & Hls & Eseg & Hgood & [(Hle & Hoff & Hbt)|(_ & pre & post & Hsg & Hpre & Hpost & Hevs & Hfirst & _)]).
      { (* the cursor block is stored off the hub's chain *)
        destruct Hstartblk as (b0 & Hb0c & Hb0n).
        destruct (tgt_off 0%nat V hd sg start burst [] b0 Hrd HV Hls Eseg Hoff Hle Hbt Hb0c Hb0n) as (J1 & E & Hfold & HR & Hdb).
        - exists (bparent b0). cbn [app lnk]. auto.
        - constructor.
        - intros z r Ez. cbn [app] in Ez. injection Ez as <- _. lia.
        - cbn [rev] in Hfold, Hdb.
          destruct (live_raw U c canon start U_id U_uniq U_up D_decl HcU Hcl Hsl w V E J1 k (conj Hrd (conj HV Hrest)) Htip HR)
            as (Hdl & Vk & Jk & HJk & _ & _ & Hfin).
          exists (burst ++ pushed c k w), Jk. split; [rewrite sfold_app, Hfold; exact HJk|].
          split; [exact (disc_app U start [] J1 _ _ Hdb Hfold Hdl)|]. left. split; [exact Hrej|].
          exists (w_rest (world_after c k w) = []). split; [exact Hro|]. intros HP. right. exact (Hfin HP). }
      assert (Hmap : map eblk burst = map seg_blk post) by (rewrite Hevs; apply map_eblk_snap).
      assert (Hnew : Forall (fun e => matches_new (estep e) = true) burst).
      { rewrite Hevs. apply Forall_forall. intros e He. apply in_map_iff in He as (q & <- & _).
        unfold snap_event. cbn [estep]. destruct (bnum (seg_blk q) <=? rn (libref (db (h_f (w_hub w))))); reflexivity. }
      assert (Hfold : sfold [] burst = Some (rev (map seg_blk post))).
      { rewrite <- (app_nil_r (rev (map seg_blk post))), <- Hmap. apply sfold_pushes; [exact Hnew|]. rewrite Hmap.
        destruct post as [|p0 r0]; [exists 0; exact I|].
        destruct (seg_post_facts U first kept U_id U_uniq U_up _ V hd sg pre p0 r0 HV Hls Eseg Hsg) as (_ & _ & Hl & _).
        exists (bparent (seg_blk p0)). cbn [map lnk]. auto. }
      assert (HRel : exists E, Rel U start (V ++ E) (rev (map seg_blk post))).
      { destruct pre as [|xl pre0 _] using rev_ind.
        - cbn [app] in Hsg. destruct post as [|p0 r0].
          { exfalso. destruct (vstate_segment U first kept U_id U_uniq U_up _ V hd sg true HV Hls Eseg) as (_ & _ & pp & z & E & _).
            rewrite Hsg in E. destruct pp; discriminate. }
          destruct (Hfirst eq_refl ltac:(discriminate)) as (p0' & r0' & E & Hn0). injection E as <- <-.
          destruct (seg_post_facts U first kept U_id U_uniq U_up _ V hd sg [] p0 r0 HV Hls Eseg Hsg) as (Hhd & HpU & Hl & [l Hlast] & _).
          destruct (vstate_facts U first kept U_id U_uniq U_up _ V HV) as (HVne & HcV & _).
          pose proof Hgood as [Hstd _ _ _]. rewrite Forall_forall in Hstd.
          assert (Hp0n : bnum (seg_blk p0) = start) by (destruct (Hstd p0) as [_ H]; [rewrite Hsg; left; reflexivity | rewrite <- H; exact Hn0]).
          destruct (join_rel_core U start V burst [] (seg_blk p0) (map seg_blk r0) l hd HVne HcV Hhd Hmap Hnew HpU Hl Hlast
                      (ex_intro _ (bparent (seg_blk p0)) (conj eq_refl I)) (Forall_nil _)) as (J1 & HJ1 & HR).
          { intros z r Ez. cbn [app] in Ez. injection Ez as <- _. lia. }
          exists []. rewrite app_nil_r. cbn [rev] in HJ1. rewrite Hfold in HJ1. injection HJ1 as <-. exact HR.
        - rewrite <- app_assoc in Hsg. cbn [app] in Hsg.
          destruct (seg_post_facts U first kept U_id U_uniq U_up _ V hd sg pre0 xl post HV Hls Eseg Hsg) as (_ & HpU & Hl & _ & _).
          pose proof Hgood as [Hstd _ _ _]. rewrite Forall_forall in Hstd.
          assert (Hxln : bnum (seg_blk xl) < start).
          { destruct (Hstd xl) as [_ H]; [rewrite Hsg; apply in_or_app; right; left; reflexivity|]. rewrite <- H.
            apply Hpre. apply in_or_app. right. left. reflexivity. }
          exact (cursor_live_rel U first kept U_id U_uniq U_up _ V hd sg pre0 xl post (seg_blk xl) start HV Hls Eseg Hgood Hsg eq_refl
                   (Forall_inv HpU) Hl (Forall_inv_tail HpU) Hxln). }
      destruct HRel as [E HR].
      assert (Hdb : disc U start [] burst).
      { apply (disc_undo_push U start [] [] burst (rev (map seg_blk post))); [left; reflexivity | right; exists (V ++ E); exact HR | constructor | | exact Hfold].
        eapply Forall_impl; [|exact Hnew]. cbn beta. intros e He. destruct (estep e); try discriminate; reflexivity. }
      destruct (live_raw U c canon start U_id U_uniq U_up D_decl HcU Hcl Hsl w V E (rev (map seg_blk post)) k (conj Hrd (conj HV Hrest)) Htip HR)
        as (Hdl & Vk & Jk & HJk & _ & _ & Hfin).
      exists (burst ++ pushed c k w), Jk. split; [rewrite sfold_app, Hfold; exact HJk|].
      split; [exact (disc_app U start [] _ _ _ Hdb Hfold Hdl)|]. left. split; [exact Hrej|].
      exists (w_rest (world_after c k w) = []). split; [exact Hro|]. intros HP. right. exact (Hfin HP).
    - exists [], []. split; [reflexivity|]. split; [apply disc_nil; left; reflexivity|]. right. right. rewrite Hr. split; [reflexivity|]. split; [reflexivity|]. split; discriminate.
    - (* files, then the join *)
      rewrite !Hseen in *.
      apply map_eq_app in Ef as (Dpre & D3 & ED1 & Epre & E3). apply map_eq_cons in E3 as (bn & D' & ED3 & Ebn & _).
      subst pre e D3.
      assert (EDD : D = (Dpre ++ [bn]) ++ D' ++ D2) by (rewrite ED, ED1, <- !app_assoc; reflexivity).
      assert (Hl1 : exists x, lnk x (Dpre ++ [bn])) by (exists x0; rewrite EDD in HlD; eapply linked_prefix; exact HlD).
      assert (Hin1 : forall b, In b (Dpre ++ [bn]) -> In b merged).
      { intros b Hb. apply D_merged. rewrite EDD. apply in_or_app. left. exact Hb. }
      assert (Hbot1 : forall z r, Dpre ++ [bn] = z :: r -> bnum z <= start).
      { intros z r Ez. apply (D_bot' z (r ++ D' ++ D2)). rewrite EDD, Ez. reflexivity. }
      set (wj := world_after c m w) in *.
      pose proof (wok_after U c U_id U_uniq U_up D_decl m w HW) as HWj. fold wj in HWj.
      assert (Hbn : In bn merged) by (apply Hin1; apply in_or_app; right; left; reflexivity).
      destruct (join_try_target c wj lowest (fev bn) cu burst Hmode Hcur Hj) as (_ & Hrd & _).
      destruct HWj as [Hokj Hrestj].
      destruct (vstate_of_hub U first kept U_id U_uniq U_up D_decl (w_hub wj) Hokj Hrd) as [V HV].
      destruct (target_join_at U c canon U_id U_uniq U_up HcU Hcl merged Hmc cu B HB HBc Hmode Hcur wj lowest bn burst V Hbn Hj HV)
        as [(hd & sg & Hls & Eseg & Hle & Hoff & Hbt)|Hgood].
      + (* the cursor block is stored off the hub's chain *)
        assert (HDU : Forall (fun y => In y U) Dpre).
        { apply Forall_forall. intros y Hy. apply HmU, Hin1. apply in_or_app. left. exact Hy. }
        destruct (tgt_off m V hd sg (bnum bn) burst Dpre bn Hrd HV Hls Eseg Hoff Hle Hbt (Hmc bn Hbn) eq_refl Hl1 HDU Hbot1)
          as (J1 & E & Hfold & HR & Hdb).
        destruct (files_raw U start merged HmU Dpre) as (Hfd & Hdf & _).
        { destruct Hl1 as [x1 Hl1]. exists x1. eapply linked_prefix. exact Hl1. }
        { intros b Hb. apply Hin1. apply in_or_app. left. exact Hb. }
        { intros z r Ez. apply (Hbot1 z (r ++ [bn])). rewrite Ez. reflexivity. }
        destruct (live_raw U c canon start U_id U_uniq U_up D_decl HcU Hcl Hsl wj V E J1 k (conj Hrd (conj HV Hrestj)) (tip_after c canon w m Htip) HR)
          as (Hdl & Vk & Jk & HJk & _ & _ & Hfin).
        exists (map fev Dpre ++ burst ++ pushed c k wj), Jk. split; [rewrite sfold_app, Hfd, sfold_app, Hfold; exact HJk|].
        split; [exact (disc_app U start [] (rev Dpre) _ _ Hdf Hfd (disc_app U start (rev Dpre) J1 _ _ Hdb Hfold Hdl))|]. left. split; [exact Hrej|].
        exists (w_rest (world_after c k wj) = []). split; [exact Hro|].
        intros HP. right. exact (Hfin HP).
      + destruct (join_raw_at U c canon start U_id U_uniq U_up D_decl HcU Hcl Hsl merged HmU wj V Dpre bn lowest burst k
                    (conj Hokj Hrestj) (tip_after c canon w m Htip) Hrd HV Hgood Hl1 Hin1 Hbot1 Hj)
          as (Hdj & J & HJ & _ & Hfin).
        exists (map fev Dpre ++ burst ++ pushed c k wj), J. split; [exact HJ|]. split; [exact Hdj|]. left. split; [exact Hrej|].
        exists (w_rest (world_after c k wj) = []). split; [exact Hro|].
        intros HP. right. exact (Hfin HP).
    - (* files only *)
      rewrite Hseen in Hfo'.
      assert (Hl1 : exists x, lnk x D1) by (exists x0; rewrite ED in HlD; eapply linked_prefix; exact HlD).
      destruct (files_raw U start merged HmU D1 Hl1) as (Hfd & Hdf & _).
      + intros b Hb. apply D_merged. rewrite ED. apply in_or_app. left. exact Hb.
      + intros z r Ez. apply (D_bot' z (r ++ D2)). rewrite ED, Ez. reflexivity.
      + exists (map fev D1), (rev D1). split; [exact Hfd|]. split; [exact Hdf|]. right. left. split; [exact Hrej|].
        exists fend, D1, D2. split; [exact ED|]. split; [reflexivity|]. split; [reflexivity|]. split; [exact Hfo'|].
        split; [exact Hfend|]. split; [exact Hall2|].
        intros Hf. left. exists D1, D2. split; [|apply rev_involutive].
        destruct Hfend as [E|E]; [|rewrite E in Hf; discriminate]. rewrite E in Hf.
        rewrite <- ED. symmetry. exact (dlv_all c canon start merged_end Hbundle Hbound Hf).
  Qed.

  Lemma tgt_nu :
    exists c', cons_fold_aside cons0 (map as_new (filter is_nu (fst res))) = Some c' /\
      (snd res = JNil ->
         (exists D1 D2, from_num start merged = D1 ++ D2 /\ rev (cs_stack c') = D1) \/
         from_num start (rev (cs_stack c')) = from_num start canon) /\
      (rn (cu_blk cu) <= j_stop c -> snd res = JStop -> stop_reached c canon merged start (fst res) (cs_stack c')).
  Proof.
    destruct tgt_core as (X & J & HJ & Hd & Hcase).
    (* the run stopped by the chain on an event of X *)
    assert (Hstopped : run_rejected c w = false -> snd (upto_stop c X) = true -> fst res = fst (upto_stop c X) ->
              exists J', sfold [] (filter is_nu (fst res)) = Some J' /\ stop_reached c canon merged start (fst res) J').
    { intros Hrej Hs Hf. destruct (upto_stop_split c X Hs) as (X1 & e & X2 & EX & Hns & Hse & Hfu).
      destruct (stops_true c e Hse) as (_ & H0 & _).
      destruct (stop_event_from U c canon start merged_end U_id U_uniq U_up Hchain Hincl Hsl Hnu [] X X1 e X2 (fun b (H : In b []) => match H with end) Hd EX Hns Hse
                  (not_rejected_start c start w Hstart Hrej H0)) as (J' & HJ' & Hsr).
      rewrite Hf, Hfu. exists J'. split; [exact HJ' | exact Hsr]. }
    destruct Hcase as [(Hrej & P & Hro & HP)|[(Hrej & fend & D1 & D2 & ED & EX & EJ & Hfo' & Hfend & Hall2 & HP)|(EX & Ef & Hne & Hns')]].
    - unfold raw_out in Hro. destruct (snd res) eqn:Er; try contradiction.
      + destruct Hro as (Hc & Hns & Hf).
        exists (mkCons J 0 false). split.
        * apply cons_of_sfold_nu. rewrite Hf, (nu_delivered c X Hnu Hns), sfold_nu_filter. exact HJ.
        * split; [intros _; exact (HP Hc) | intros _; discriminate].
      + destruct Hro as (Hs & Hf). destruct (Hstopped Hrej Hs Hf) as (J' & HJ' & Hsr).
        exists (mkCons J' 0 false). split; [apply cons_of_sfold_nu; exact HJ'|]. split; [discriminate | intros _ _; exact Hsr].
      + destruct Hro as (X1 & X2 & EX & Hns & Hf). destruct (Hd X1 X2 EX) as (J' & HJ' & _).
        exists (mkCons J' 0 false). split; [|split; [discriminate | intros _; discriminate]].
        apply cons_of_sfold_nu. rewrite Hf, (nu_delivered c X1 Hnu Hns), sfold_nu_filter. exact HJ'.
    - destruct Hfo' as [[Hns Hr]|[Hs Hr]].
      + exists (mkCons J 0 false). fold res in Hr. rewrite Hr. cbn [fst snd cs_stack]. split.
        * apply cons_of_sfold_nu. rewrite (nu_delivered c X Hnu Hns), sfold_nu_filter. exact HJ.
        * split; [exact HP|].
          intros Hscope Hfe. left.
          (* the file source reported the end of the bundle of S *)
          assert (Ef0 : fend = fend0) by (destruct Hfend as [E|E]; [exact E | rewrite E in Hfe; discriminate]).
          assert (E0 : j_stop c <> 0).
          { intros E. rewrite Ef0 in Hfe. unfold fend0 in Hfe. rewrite E in Hfe. discriminate. }
          assert (Hle : (j_stop c / j_bundle c + 1) * j_bundle c <= merged_end).
          { rewrite Ef0 in Hfe. unfold fend0 in Hfe. apply N.leb_le.
            case_eq ((j_stop c / j_bundle c + 1) * j_bundle c <=? merged_end); [reflexivity|].
            intros E. rewrite E, andb_false_r in Hfe. discriminate. }
          assert (Estopf : stopf = j_stop c) by (unfold stopf; apply N.eqb_neq in E0; rewrite E0; reflexivity).
          assert (HD2 : D2 = []).
          { apply Hall2; [|exact Ef0]. destruct (N.lt_ge_cases (rn (cu_blk cu)) start) as [Hl|Hg]; [left; exact Hl|]. right.
            destruct (bref_eq _ _ HB) as [_ EBn].
            pose proof (N.mul_succ_div_gt (j_stop c) (j_bundle c)) as Hdiv. rewrite <- N.add_1_r in Hdiv.
            unfold D, file_delivery. apply filter_In. split.
            - unfold merged. apply filter_In. split; [exact HBc | apply N.ltb_lt; nia].
            - rewrite Estopf. apply andb_true_iff. split; [apply N.leb_le; lia | apply N.ltb_lt; nia]. }
          rewrite HD2, app_nil_r in ED. rewrite EJ, rev_involutive, <- ED.
          rewrite EX, <- ED in Hns. rewrite Ef0 in Hfe.
          exact (marker_case U c canon start w merged_end U_id U_uniq U_up D_decl Hstart Hbundle Hnu Hrej Hfe Hns).
      + fold res in Hr. destruct (Hstopped Hrej Hs) as (J' & HJ' & Hsr); [rewrite Hr; reflexivity|].
        exists (mkCons J' 0 false). split; [apply cons_of_sfold_nu; exact HJ'|]. split; [rewrite Hr; discriminate | intros _ _; exact Hsr].
    - exists cons0. rewrite Ef. split; [reflexivity|]. split; [intros Hn; contradiction | intros _ Hn; contradiction].
  Qed.
End TgtRun.

Lemma c07_seamless_target_nu_proof : C07_seamless_target_nu.
Proof.
  intros U c w ps merged_end canon forked cu B Hwfb Hlok [[l [Hl Hhub]] Hrest] Hchain Hincl merged Htip Hto
         Hmode Hcur Hnu Hbundle Hbound HBc HB res start Hstartblk.
  assert (Hscope : disc_scope2_b U = true) by (unfold disc_scope2_b; rewrite Hwfb, Hlok; reflexivity).
  pose proof (bridge_id U Hwfb) as Hid. pose proof (bridge_uniq U Hwfb) as Huniq. pose proof (bridge_up U Hwfb) as Hup.
  pose proof (bridge2_decl_none U Hscope) as Hdecl.
  assert (HW : WOK U c w).
  { split; [|exact Hrest]. rewrite Hhub. apply (hub_ok_run U (j_first c) (j_kept c) Hwfb Hlok l Hl). }
  destruct (tgt_nu U c w ps merged_end canon forked cu B start Hid Huniq Hup Hdecl Hchain Hincl Hstartblk eq_refl HW Htip Hmode Hcur Hnu
           Hbundle HBc HB Hbound (or_introl Hto)) as (c' & H1 & H2 & _).
  exists c'. split; [exact H1 | exact H2].
Qed.

(* without agreement hypothesis, for a cursor with its LIB on canon *)
Lemma c07_seamless_target_nu_full_proof : C07_seamless_target_nu_full.
Proof.
  intros U c w ps merged_end canon forked cu B Hwfb Hlok [[l [Hl Hhub]] Hrest] Hchain Hincl merged Htip
         Hmode Hcur Hnu Hbundle Hbound HBc HB Hlib res start Hstartblk.
  assert (Hscope : disc_scope2_b U = true) by (unfold disc_scope2_b; rewrite Hwfb, Hlok; reflexivity).
  pose proof (bridge_id U Hwfb) as Hid. pose proof (bridge_uniq U Hwfb) as Huniq. pose proof (bridge_up U Hwfb) as Hup.
  pose proof (bridge2_decl_none U Hscope) as Hdecl.
  assert (HW : WOK U c w).
  { split; [|exact Hrest]. rewrite Hhub. apply (hub_ok_run U (j_first c) (j_kept c) Hwfb Hlok l Hl). }
  destruct (tgt_nu U c w ps merged_end canon forked cu B start Hid Huniq Hup Hdecl Hchain Hincl Hstartblk eq_refl HW Htip Hmode Hcur Hnu
           Hbundle HBc HB Hbound (or_intror Hlib)) as (c' & H1 & H2 & _).
  exists c'. split; [exact H1 | exact H2].
Qed.

(* the stop clause at stream level (Spec/C13_More_Spec.v) *)
Lemma c13_stop_target_proof : C13_stop_target.
Proof.
  intros U c w ps merged_end canon forked cu B Hwfb Hlok [[l [Hl Hhub]] Hrest] Hchain Hincl merged Htip
         Hmode Hcur Hnu Hbundle Hbound HBc HB Hlib Hscope res start Hstartblk.
  assert (Hsc : disc_scope2_b U = true) by (unfold disc_scope2_b; rewrite Hwfb, Hlok; reflexivity).
  pose proof (bridge_id U Hwfb) as Hid. pose proof (bridge_uniq U Hwfb) as Huniq. pose proof (bridge_up U Hwfb) as Hup.
  pose proof (bridge2_decl_none U Hsc) as Hdecl.
  assert (HW : WOK U c w).
  { split; [|exact Hrest]. rewrite Hhub. apply (hub_ok_run U (j_first c) (j_kept c) Hwfb Hlok l Hl). }
  destruct (tgt_nu U c w ps merged_end canon forked cu B start Hid Huniq Hup Hdecl Hchain Hincl Hstartblk eq_refl HW Htip Hmode Hcur Hnu
           Hbundle HBc HB Hbound (or_intror Hlib)) as (c' & H1 & _ & H3).
  exists c'. split; [exact H1 | exact (H3 Hscope)].
Qed.

Lemma c07_seamless_target_full_proof : C07_seamless_target_full.
Proof.
  intros U c w ps merged_end canon forked cu B Hwfb Hlok Hhub Hchain Hincl merged Htip
         Hmode Hcur Hfilter Hstop Hbundle Hbound HBc HB Hlib res start Hstartblk.
  assert (Hnu : has_nu (j_filter c) (j_custom c) = true) by (unfold has_nu; rewrite Hfilter; reflexivity).
  destruct (c07_seamless_target_nu_full_proof U c w ps merged_end canon forked cu B Hwfb Hlok Hhub Hchain Hincl Htip
              Hmode Hcur Hnu Hbundle Hbound HBc HB Hlib Hstartblk) as (c' & Hc' & Hfin).
  fold merged res in Hc', Hfin.
  assert (Hall : filter is_nu (fst res) = fst res).
  { destruct (c13_stream_output_proof c w ps merged_end merged forked (fst res) (snd res)) as [Hp _].
    - apply surjective_pairing.
    - apply C06_Lists.filter_all. eapply Forall_impl; [|exact Hp]. cbn beta. intros e He.
      rewrite is_nu_nu_ev, <- (passes_nu c e Hfilter). exact He. }
  rewrite Hall in Hc'. exists c'. split; [exact Hc' | exact Hfin].
Qed.
