(* C04: (1) the declarative per-step shape c04_run implies that the cursor monitor c04_b accepts and that
   the field rules hold event by event (no reference to the model); (2) the model's run has that shape
   (Proofs/Fk/FixedLibEvents.v) under the boolean scope of the statement. *)
From BV Require Import Base.Prelude Model.Block Model.ForkDB Model.Forkable Spec.Consumer Spec.Universe
  Spec.C01_Spec Spec.C04_Spec Proofs.Fk.LoopFacts Proofs.Fk.FixedLibEvents Proofs.C01_Proofs.
Local Open Scope N_scope.

(* ---------------------------------------------------------------- the monitor without fuel *)

Fixpoint cur_evs (check_lib : bool) (lib : N) (root : ref) (inc : block) (m : cur_mon) (l : list event) : option cur_mon :=
  match l with
  | [] => Some m
  | e :: l' =>
      let after := match estep e with
                   | SUndo => pop_n (N.to_nat (ecount e - eidx e)) (cm_stack m)
                   | _ => cm_stack m
                   end in
      if negb (cur_event_ok check_lib inc m after root e) then None else
      match apply_ev lib (cm_stack m) e with
      | None => None
      | Some st =>
          let lib' := match estep e with SIrr | SNewIrr => bref (eblk e) | _ => cm_lib m end in
          cur_evs check_lib lib root inc (mkCM st lib') l'
      end
  end.

Lemma cur_events_fuel check lib root inc : forall l fuel m, (length l < fuel)%nat ->
  cur_events fuel check lib root inc m l = cur_evs check lib root inc m l.
Proof.
  induction l as [|e l IH]; intros fuel m Hf; (destruct fuel as [|f]; [cbn in Hf; lia|]); cbn [cur_events cur_evs]; [reflexivity|].
  destruct (negb _); [reflexivity|]. destruct (apply_ev lib (cm_stack m) e); [|reflexivity].
  apply IH. cbn [length] in Hf. lia.
Qed.

Lemma cur_evs_app check lib root inc : forall l1 l2 m m1,
  cur_evs check lib root inc m l1 = Some m1 ->
  cur_evs check lib root inc m (l1 ++ l2) = cur_evs check lib root inc m1 l2.
Proof.
  induction l1 as [|e l1 IH]; intros l2 m m1 H; cbn [cur_evs app] in *.
  - injection H as <-. reflexivity.
  - destruct (negb _); [discriminate|]. destruct (apply_ev lib (cm_stack m) e); [|discriminate].
    apply IH. exact H.
Qed.

Lemma ref_eqb_refl a : ref_eqb a a = true.
Proof. unfold ref_eqb. rewrite !N.eqb_refl. reflexivity. Qed.

Lemma pop_n_app (a k : cstack) : pop_n (length a) (a ++ k) = k.
Proof. induction a as [|x a IH]; cbn [length pop_n app]; [reflexivity | exact IH]. Qed.

(* ---------------------------------------------------------------- the three batches of a step *)

Definition junc_ok (r0 : ref) (kept : cstack) (junc : option ref) : Prop :=
  match junc with
  | None => True
  | Some j => match kept with top :: _ => j = bref top | [] => j = r0 end
  end.

Lemma cur_undo_batch check r0 b junc kept count : junc_ok r0 kept junc ->
  forall undone idx, count = idx + N.of_nat (length undone) ->
  cur_evs check (ri r0) r0 b (mkCM (undone ++ kept) r0) (batch_events SUndo (bref b) r0 junc count idx undone)
  = Some (mkCM kept r0).
Proof.
  intros Hj. induction undone as [|x undone IH]; intros idx Hc; cbn [batch_events cur_evs app]; [reflexivity|].
  cbn [estep ecount eidx cm_stack cm_lib eblk].
  replace (N.to_nat (count - idx)) with (S (length undone)) by (cbn [length] in Hc; lia).
  cbn [pop_n]. rewrite pop_n_app.
  assert (Hok : cur_event_ok check b (mkCM (x :: undone ++ kept) r0) kept r0
                  (mkEv SUndo x (bref x) (bref b) r0 junc idx count) = true).
  { unfold cur_event_ok. cbn [ecblk eblk ehead elib estep ejunc cm_lib]. rewrite !ref_eqb_refl, orb_true_r. cbn [andb].
    destruct junc as [j|]; [|reflexivity]. cbn [junc_ok] in Hj. destruct kept as [|top k]; subst j; apply ref_eqb_refl. }
  rewrite Hok. cbn [negb]. unfold apply_ev. cbn [estep eblk]. rewrite N.eqb_refl.
  apply IH. cbn [length] in Hc. lia.
Qed.

Definition new_ok (r0 : ref) (b : block) (e : event) : Prop :=
  estep e = SNew /\ ecblk e = bref (eblk e) /\ ehead e = bref b /\ elib e = r0 /\ ejunc e = None /\
  rn r0 < bnum (eblk e).

Lemma cur_news check r0 b : forall evs st st', apply_all (ri r0) st evs = Some st' -> Forall (new_ok r0 b) evs ->
  cur_evs check (ri r0) r0 b (mkCM st r0) evs = Some (mkCM st' r0).
Proof.
  induction evs as [|e evs IH]; intros st st' Ha Hn; cbn [apply_all cur_evs] in *.
  - injection Ha as <-. reflexivity.
  - pose proof (Forall_inv Hn) as (H1 & H2 & H3 & H4 & H5 & H6). pose proof (Forall_inv_tail Hn) as Hn'.
    cbn [cm_stack cm_lib]. rewrite H1.
    assert (Hok : cur_event_ok check b (mkCM st r0) st r0 e = true).
    { unfold cur_event_ok. rewrite H1, H2, H3, H4, H5. cbn [cm_lib]. rewrite !ref_eqb_refl, orb_true_r. cbn [andb].
      rewrite andb_true_r. apply N.leb_le. lia. }
    rewrite Hok. cbn [negb].
    destruct (apply_ev (ri r0) st e) as [st1|]; [|discriminate].
    apply IH; assumption.
Qed.

Lemma batch_new_ok r0 b count : forall bs idx, Forall (fun x => rn r0 < bnum x) bs ->
  Forall (new_ok r0 b) (batch_events SNew (bref b) r0 None count idx bs).
Proof.
  induction bs as [|x bs IH]; intros idx H; cbn [batch_events]; constructor.
  - pose proof (Forall_inv H). repeat split; assumption.
  - apply IH. exact (Forall_inv_tail H).
Qed.

Lemma fresh_new_ok r0 b bs : Forall (fun x => rn r0 < bnum x) bs -> Forall (new_ok r0 b) (fresh_events (bref b) r0 bs).
Proof.
  intros H. unfold fresh_events. apply Forall_forall. intros e He. apply in_map_iff in He as (x & <- & Hx).
  rewrite Forall_forall in H. repeat split. cbn [eblk]. apply H. exact Hx.
Qed.

Lemma junction_ok r0 lr undone kept : junc_ok r0 kept (junction_of r0 lr undone kept).
Proof.
  unfold junction_of, junc_ok. destruct undone; [exact I|]. destruct kept; [|reflexivity]. destruct lr; [reflexivity | exact I].
Qed.

Lemma c04_step_mon check r0 lr S b evs S' : c04_step r0 lr S b evs S' ->
  cur_evs check (ri r0) r0 b (mkCM S r0) evs = Some (mkCM S' r0).
Proof.
  intros (kept & undone & redone & fresh & -> & -> & -> & Hab & Happ).
  set (evU := batch_events SUndo (bref b) r0 (junction_of r0 lr undone kept) (N.of_nat (length undone)) 0 undone) in *.
  assert (HU : cur_evs check (ri r0) r0 b (mkCM (undone ++ kept) r0) evU = Some (mkCM kept r0)).
  { apply cur_undo_batch; [apply junction_ok | lia]. }
  rewrite (cur_evs_app _ _ _ _ _ _ _ _ HU).
  assert (HaU : apply_all (ri r0) (undone ++ kept) evU = Some kept).
  { apply apply_undos; [apply batch_events_step | apply batch_events_blocks]. }
  rewrite (apply_all_app _ _ _ _ _ HaU) in Happ.
  apply cur_news; [exact Happ|].
  apply Forall_app in Hab as [Hr Hf]. apply Forall_app. split; [apply batch_new_ok; exact Hr | apply fresh_new_ok; exact Hf].
Qed.

(* ---------------------------------------------------------------- whole runs *)

Lemma c04_run_mon check r0 : forall h t seen S, c04_run r0 seen S h t ->
  exists m, cur_trace check (ri r0) r0 (mkCM S r0) h t = Some m.
Proof.
  induction h as [|b h IH]; intros t seen S H.
  - destruct t; cbn [cur_trace]; eauto.
  - destruct t as [|[evs r] t]; [destruct H|]. cbn [c04_run] in H. destruct H as (_ & S' & Hstep & Hrun).
    cbn [cur_trace]. rewrite cur_events_fuel by lia. rewrite (c04_step_mon check _ _ _ _ _ _ Hstep).
    eapply IH. exact Hrun.
Qed.

Lemma c04_run_accept check r0 h t : c04_run r0 [] [] h t -> c04_b check (LExcl r0) h t = true.
Proof.
  intros H. unfold c04_b. cbn [root_ref]. destruct (c04_run_mon check r0 h t [] [] H) as [m ->]. reflexivity.
Qed.

(* the field rules, event by event *)
Lemma c04_step_fields r0 lr S b evs S' : c04_step r0 lr S b evs S' -> Forall (c04_event_fields r0 b) evs.
Proof.
  intros (kept & undone & redone & fresh & _ & _ & -> & Hab & _).
  apply Forall_app in Hab as [Hr Hf].
  assert (Hnew : forall e, new_ok r0 b e -> c04_event_fields r0 b e).
  { intros e (H1 & H2 & H3 & H4 & H5 & H6). unfold c04_event_fields. rewrite H4. repeat split; auto. }
  apply Forall_app. split; [|apply Forall_app; split].
  - generalize 0 at 1. generalize (N.of_nat (length undone)). generalize (junction_of r0 lr undone kept).
    clear. induction undone as [|x l IH]; intros j c i; cbn [batch_events]; constructor; [|apply IH].
    unfold c04_event_fields. cbn. repeat split; auto. all: discriminate.
  - eapply Forall_impl; [exact Hnew | apply batch_new_ok; exact Hr].
  - eapply Forall_impl; [exact Hnew | apply fresh_new_ok; exact Hf].
Qed.

Lemma c04_run_fields r0 : forall h t seen S, c04_run r0 seen S h t -> c04_fields r0 h t.
Proof.
  induction h as [|b h IH]; intros t seen S H; [exact I|].
  destruct t as [|[evs r] t]; [exact I|]. cbn [c04_run] in H. destruct H as (_ & S' & Hstep & Hrun).
  cbn [c04_fields]. split; [eapply c04_step_fields; exact Hstep | eapply IH; exact Hrun].
Qed.

(* ---------------------------------------------------------------- the model *)

Lemma c04_fixed_lib_proved : c04_fixed_lib_statement.
Proof.
  intros cfg r0 h Hnofail Hincl Hnew Hundo Hscope.
  destruct (scope_parts r0 h Hscope) as (_ & Hr0 & _).
  pose proof (fixed_lib_events h r0 cfg Hnofail Hnew Hundo Hincl
                (bridge_id r0 h Hscope) (bridge_uniq r0 h Hscope) (bridge_up r0 h Hscope) Hr0
                (fun y Hy => proj2 (proj2 (bridge_fixed r0 h Hscope y Hy)))
                (fun x Hx => proj1 (proj2 (bridge_fixed r0 h Hscope x Hx)))
                (fun b Hb => proj1 (bridge_fixed r0 h Hscope b Hb))
                h (fun b Hb => Hb)) as Hrun.
  cbv zeta. split; [exact Hrun|]. split.
  - eapply c04_run_fields. exact Hrun.
  - unfold c04_statement. apply c04_run_accept. exact Hrun.
Qed.
