(* C05: where the forked through-cursor burst leads a consumer that holds nothing. *)
From Coq Require Import Sorted Permutation.
From BV Require Import Base.Prelude Model.Block Model.ForkDB Model.Forkable Model.ForkableLookups
  Model.Burst Model.Hub Spec.Consumer Spec.Universe Check.Fk_Check Check.Burst_Check
  Spec.C09_Spec Spec.C05_Spec Spec.C05_Through_Spec
  Proofs.C09_Store Proofs.C09_Segment Proofs.C09_Proofs Proofs.C05_Fast Proofs.C05_Forked Proofs.C05_Through Proofs.C05_Final.
Local Open Scope N_scope.

Lemma filter_rev : forall {A} (p : A -> bool) l, filter p (rev l) = rev (filter p l).
Proof.
  induction l as [|x l IH]; [reflexivity|]. cbn [rev filter]. rewrite filter_app, IH. cbn [filter].
  destruct (p x); [reflexivity|apply app_nil_r].
Qed.

Lemma filter_map_comm : forall {A B} (p : B -> bool) (f : A -> B) l,
  filter p (map f l) = map f (filter (fun x => p (f x)) l).
Proof.
  induction l as [|x l IH]; [reflexivity|]. cbn. destruct (p (f x)); cbn; rewrite IH; reflexivity.
Qed.

Lemma filter_filter : forall {A} (p q : A -> bool) l, filter q (filter p l) = filter (fun x => p x && q x) l.
Proof. intros. symmetry. apply filter_and. Qed.

Lemma nat_any : forall a b : nat, negb (Nat.eqb a 0) || negb (Nat.eqb b 0) = negb (Nat.eqb (a + b) 0).
Proof. intros [|a] [|b]; reflexivity. Qed.

Definition tol_ok (start : N) (e : event) : bool := negb (step_eqb (estep e) SIrr && (bnum (eblk e) <? start)).

Lemma tolerate_app : forall start l1 l2, tolerate start (l1 ++ l2) = tolerate start l1 ++ tolerate start l2.
Proof. intros. unfold tolerate. apply filter_app. Qed.

Lemma tolerate_not_irr : forall start l, (forall e, In e l -> estep e <> SIrr) -> tolerate start l = l.
Proof.
  intros start l H. unfold tolerate. apply filter_all. intros e He. specialize (H e He).
  destruct (estep e); try reflexivity. contradiction.
Qed.

Lemma through_event_not_irr : forall hd c l e, In e (map (through_event hd c) l) -> estep e <> SIrr.
Proof.
  intros hd c l e He. rewrite in_map_iff in He. destruct He as [x [<- _]]. cbn.
  destruct (bnum (seg_blk x) <=? rn (cu_lib c)); discriminate.
Qed.

Lemma undo_event_not_irr : forall hd c jref l e, In e (map (undo_event hd c jref) l) -> estep e <> SIrr.
Proof. intros hd c jref l e He. rewrite in_map_iff in He. destruct He as [x [<- _]]. cbn. discriminate. Qed.

Lemma StronglySorted_filter : forall {A} (R : A -> A -> Prop) (p : A -> bool) l,
  StronglySorted R l -> StronglySorted R (filter p l).
Proof.
  intros A R p l HS. induction HS as [|x l HS IH Hall]; cbn; [constructor|].
  destruct (p x); [|exact IH]. constructor; [exact IH|].
  rewrite Forall_forall in *. intros y Hy. apply filter_In in Hy. apply Hall. tauto.
Qed.

(* adjacent parts of a parent-linked list *)
Lemma linked_stack_links : forall l1 l2, Forall seg_std (l1 ++ l2) -> Sorted seg_link (l1 ++ l2) ->
  stack_links (map seg_blk l1) l2.
Proof.
  intros l1 l2 Hstd Hlk. unfold stack_links.
  destruct (list_snoc_cases l1) as [->|[pre [y ->]]]; [reflexivity|].
  rewrite map_app, rev_app_distr. cbn [map rev app].
  destruct l2 as [|x l2]; [exact I|].
  rewrite <- app_assoc in Hlk. cbn [app] in Hlk. apply Sorted_app_r in Hlk.
  inversion Hlk as [|? ? _ Hd]; subst. inversion Hd as [|? ? Hl]; subst. unfold seg_link in Hl. rewrite Hl.
  rewrite Forall_forall in Hstd. apply Hstd. apply in_app_iff. left. apply in_app_iff. right. left. reflexivity.
Qed.

Lemma c05_through_forked_consumer_proof : C05_through_forked_consumer.
Proof.
  intros s hd sg start c csg path j je evs W HC Hst Hin Hnum E Hcst Hlib B Hfj Hlj Hsj Hev kept nfinal.
  destruct (head_chain_good s hd sg W HC) as [G [Hstored _]].
  pose proof G as [Hstd Hlk Hinc Hnd].
  pose proof W as [[Wst _] _].
  destruct (through_forked_structure s hd sg c csg true path j W HC Hnum E B) as [lo [xj [hi [Esg [Hxji [Hfj' Ecsg]]]]]].
  rewrite Hfj in Hfj'. injection Hfj' as Eje.
  destruct (numbered_segment_good (db s) (cu_blk c) csg true Wst E Hnum) as [Gc [_ [_ [_ [Htopc _]]]]].
  pose proof Gc as [Cstd Clk Cinc Cnd].
  set (jnum := bnum (eb je)) in *.
  (* numbers *)
  assert (Hsn : forall y, In y sg -> snum y = bnum (seg_blk y)) by (apply std_num; exact Hstd).
  assert (Hxjn : snum xj = jnum).
  { rewrite (Hsn xj) by (rewrite Esg; apply in_app_iff; right; left; reflexivity). unfold jnum, seg_blk. rewrite Eje. reflexivity. }
  pose proof (snum_sorted sg Hstd Hinc) as HS. rewrite Esg in HS.
  destruct (StronglySorted_split _ _ _ _ HS) as [Hlo Hhi].
  assert (Hlow : forall y, In y (lo ++ [xj]) -> snum y <= jnum).
  { intros y Hy. apply in_app_iff in Hy. destruct Hy as [Hy|[<-|[]]]; [specialize (Hlo y Hy)|]; lia. }
  assert (Hhigh : forall y, In y hi -> jnum < snum y) by (intros y Hy; specialize (Hhi y Hy); lia).
  assert (Hlow_in : forall y, In y (lo ++ [xj]) -> In y sg).
  { intros y Hy. rewrite Esg. apply in_app_iff in Hy. apply in_app_iff. destruct Hy as [Hy|[<-|[]]]; [left; exact Hy|right; left; reflexivity]. }
  assert (Hhi_in : forall y, In y hi -> In y sg).
  { intros y Hy. rewrite Esg. apply in_app_iff. right. right. exact Hy. }
  (* the undone path is above the junction *)
  assert (Hpath : forall y, In y (rev path) -> jnum < bnum (seg_blk y)).
  { intros y Hy. rewrite Ecsg in Cinc. destruct (StronglySorted_split _ _ _ _ Cinc) as [_ Hup].
    specialize (Hup y Hy). unfold seg_lt in Hup. unfold jnum. rewrite Eje. exact Hup. }
  assert (Hpne : path <> []).
  { destruct (branch_to_head _ _ _ _ _ B) as [e [rest [_ ->]]]. discriminate. }
  assert (Hle : start <= rn (cu_blk c)).
  { destruct (list_snoc_cases (rev path)) as [Hnil|[pre [top Hsn']]].
    - exfalso. apply Hpne. rewrite <- (rev_involutive path), Hnil. reflexivity.
    - assert (Etop : csg = (lo ++ xj :: pre) ++ [top]) by (rewrite Ecsg, Hsn', <- app_assoc; reflexivity).
      destruct (Htopc _ _ Etop) as [_ Htn]. rewrite <- Htn.
      rewrite (std_num _ Cstd top) by (rewrite Etop; apply in_app_iff; right; left; reflexivity).
      assert (Hin' : In top (rev path)) by (rewrite Hsn'; apply in_app_iff; right; left; reflexivity).
      specialize (Hpath top Hin'). lia. }
  (* the burst *)
  destruct (c05_through_forked_burst_proof s hd sg start c csg path j W HC Hst Hin Hnum E Hcst Hle Hlib B)
    as [je2 [Hfj2 [Hburst _]]].
  rewrite Hfj in Hfj2. injection Hfj2 as <-. cbn zeta in Hburst. rewrite Hburst in Hev. injection Hev as Hev.
  set (jref := mkR j jnum) in *. change (mkR j (bnum (eb je))) with jref in Hev.
  set (L' := N.max (rn (cu_lib c)) (start - 1)).
  set (c' := mkCursor (cu_step c) (cu_blk c) (cu_head c) (mkR (ri (cu_lib c)) L')).
  set (jc := junction_cursor hd c jref) in *.
  set (jc' := junction_cursor hd c' jref).
  set (own := filter (through_keep start c) csg) in *.
  set (K1 := filter (from_start start) (lo ++ [xj])).
  set (Pseg := filter (fun x => snum x <=? L') K1).
  (* own = K1 ++ the undone path *)
  assert (Hne : forall y, In y (lo ++ [xj]) -> sid y <> ri (cu_blk c)).
  { intros y Hy Heq. assert (Hb : block_in (ri (cu_blk c)) sg = true) by (apply block_in_spec; exists y; auto).
    rewrite Hb in Hin. discriminate. }
  assert (Eown : own = K1 ++ rev (undos_of c path)).
  { unfold own. rewrite Ecsg. replace (lo ++ xj :: rev path) with ((lo ++ [xj]) ++ rev path) by (rewrite <- app_assoc; reflexivity).
    rewrite filter_app. rewrite through_keep_lo by exact Hne. f_equal.
    unfold undos_of. rewrite <- filter_rev. apply filter_ext_in. intros y Hy.
    unfold through_keep, already. rewrite <- is_undo_already.
    assert (Ef : from_start start y = true) by (specialize (Hpath y Hy); unfold from_start; lia).
    rewrite Ef. cbn [andb]. rewrite andb_comm. reflexivity. }
  (* K1 = the part the cursor holds final ++ what it holds above, up to the junction *)
  assert (Eheld : held_seg jc' sg = filter (fun x => L' <? snum x) (lo ++ [xj])).
  { unfold held_seg. rewrite Esg. replace (lo ++ xj :: hi) with ((lo ++ [xj]) ++ hi) by (rewrite <- app_assoc; reflexivity).
    rewrite filter_app. rewrite (filter_none _ hi).
    - rewrite app_nil_r. apply filter_ext_in. intros y Hy. specialize (Hlow y Hy).
      unfold above_clib, not_held, is_undo. cbn. lia.
    - intros y Hy. specialize (Hhigh y Hy). unfold above_clib, not_held, is_undo. cbn. lia. }
  assert (HSlow : StronglySorted (fun x y => snum x < snum y) (lo ++ [xj])).
  { replace (lo ++ xj :: hi) with ((lo ++ [xj]) ++ hi) in HS by (rewrite <- app_assoc; reflexivity).
    eapply StronglySorted_app_l; eauto. }
  assert (EK1 : K1 = Pseg ++ held_seg jc' sg).
  { rewrite Eheld. unfold Pseg.
    rewrite (anti_filter_split (fun x y => snum x < snum y) (fun x => snum x <=? L') K1) at 1.
    - f_equal. unfold K1. rewrite filter_filter. apply filter_ext_in. intros y Hy.
      unfold from_start. rewrite <- (Hsn y (Hlow_in y Hy)). unfold L'. lia.
    - unfold K1. apply StronglySorted_filter. exact HSlow.
    - intros x y Hxy. lia. }
  (* the chain from start = the final part ++ everything above *)
  assert (Eabove : above_seg jc' sg = held_seg jc' sg ++ hi).
  { unfold above_seg. rewrite Eheld. rewrite Esg at 1.
    replace (lo ++ xj :: hi) with ((lo ++ [xj]) ++ hi) by (rewrite <- app_assoc; reflexivity).
    rewrite filter_app. f_equal.
    apply filter_all. intros y Hy. specialize (Hhigh y Hy). unfold above_clib. cbn. unfold L'. lia. }
  assert (Ekept : kept = Pseg ++ above_seg jc' sg).
  { rewrite Eabove, app_assoc, <- EK1. unfold kept, K1. rewrite Esg at 1.
    replace (lo ++ xj :: hi) with ((lo ++ [xj]) ++ hi) by (rewrite <- app_assoc; reflexivity).
    rewrite filter_app. f_equal.
    apply filter_all. intros y Hy. specialize (Hhigh y Hy). rewrite (Hsn y (Hhi_in y Hy)) in Hhigh.
    unfold from_start. lia. }
  (* what the cursor calls final in `own` is Pseg *)
  assert (HPfin : forall y, In y Pseg -> final_cur c y = true /\ In y sg).
  { intros y Hy. unfold Pseg in Hy. apply filter_In in Hy. destruct Hy as [Hy HL].
    unfold K1 in Hy. apply filter_In in Hy. destruct Hy as [Hy Hs].
    split; [|exact (Hlow_in y Hy)].
    unfold final_cur. unfold from_start in Hs. rewrite (Hsn y (Hlow_in y Hy)) in HL. unfold L' in HL. lia. }
  assert (Hheld_nf : forall y, In y (held_seg jc' sg) -> final_cur c y = false /\ In y sg).
  { intros y Hy. rewrite Eheld in Hy. apply filter_In in Hy. destruct Hy as [Hy HL].
    split; [|exact (Hlow_in y Hy)].
    unfold final_cur. rewrite (Hsn y (Hlow_in y Hy)) in HL. unfold L' in HL. lia. }
  assert (Efin_own : filter (final_cur c) own = Pseg).
  { rewrite Eown, EK1, !filter_app.
    rewrite (filter_all _ Pseg) by (intros y Hy; apply HPfin; exact Hy).
    rewrite (filter_none _ (held_seg jc' sg)) by (intros y Hy; apply Hheld_nf; exact Hy).
    rewrite (filter_none _ (rev (undos_of c path))); [rewrite !app_nil_r; reflexivity|].
    intros y Hy. rewrite <- in_rev in Hy. unfold undos_of in Hy. apply filter_In in Hy. destruct Hy as [Hy _].
    rewrite in_rev in Hy. specialize (Hpath y Hy). unfold final_cur. lia. }
  (* the pre-part: from c05_through_forked *)
  destruct (c05_through_forked_proof s hd sg start c W HC Hst Hin Hnum)
    as [csg' [reach' [E' [_ [_ [_ [_ [_ [_ [_ [_ [_ Hmain]]]]]]]]]]]].
  rewrite E in E'. injection E' as <- <-.
  destruct (starts_within_cons _ _ Hcst) as [c0 [rest0 [Ecsg0 Hc0]]].
  destruct (Hmain eq_refl c0 rest0 Ecsg0 Hc0 Hle) as [_ [_ Hpre]]. cbn zeta in Hpre. fold own in Hpre.
  rewrite Efin_own in Hpre.
  (* the tolerated burst *)
  destruct (c05_fast_path_shape_proof s hd sg jc G) as [Hshape _].
  destruct (c05_fast_path_shape_proof s hd sg jc' G) as [Hshape' _].
  assert (Etol_fast : tolerate start (from_cursor_fast s hd sg jc) = from_cursor_fast s hd sg jc').
  { rewrite Hshape, Hshape'. unfold tolerate. rewrite filter_map_comm, filter_filter.
    change (fast_event s hd jc') with (fast_event s hd jc). f_equal.
    apply filter_ext_in. intros y Hy. pose proof (Hsn y Hy) as Hyn.
    unfold fast_keep, fast_event, fast_step, above_clib, not_held, is_undo, final_now. cbn.
    rewrite <- Hyn. unfold L'.
    destruct (snum y <=? rn (libref (db s))) eqn:Ef; destruct (jnum <? snum y) eqn:Ej; cbn; lia. }
  assert (Etol : tolerate start evs =
                 map (through_event hd c) own ++ map (undo_event hd c jref) (undos_of c path) ++ from_cursor_fast s hd sg jc').
  { rewrite <- Hev, !tolerate_app, Etol_fast.
    rewrite (tolerate_not_irr start (map (through_event hd c) own)) by (apply through_event_not_irr).
    rewrite (tolerate_not_irr start (map (undo_event hd c jref) (undos_of c path))) by (apply undo_event_not_irr).
    reflexivity. }
  split; [|split].
  - rewrite Etol, cons_fold_app, Hpre, cons_fold_app.
    rewrite Eown, map_app.
    rewrite (undo_fold hd c jref (undos_of c path) (map seg_blk K1)).
    2:{ rewrite map_length, EK1, app_length. lia. }
    rewrite EK1, map_app.
    assert (Hlinks : held_seg jc' sg = [] -> stack_links (map seg_blk Pseg) (above_seg jc' sg)).
    { intros _. apply linked_stack_links; rewrite <- Ekept; unfold kept.
      - apply Forall_filter. exact Hstd.
      - destruct (good_seg_filter_suffix (from_start start) sg G) as [_ [K _]]; [|exact K].
        intros x y Hxy. apply from_start_mono. exact Hxy. }
    pose proof (c05_fast_path_consumer_proof s hd sg jc' (map seg_blk Pseg)
                  (negb (Nat.eqb (length Pseg) 0)) G Hlinks) as Hfast. cbn zeta in Hfast.
    rewrite map_length in Hfast. rewrite Hfast. f_equal.
    assert (Enf : nfinal = (length Pseg + length (filter (final_now s) (above_seg jc' sg)))%nat).
    { unfold nfinal. rewrite Ekept, filter_app, app_length. f_equal.
      - f_equal. apply filter_all. intros y Hy. destruct (HPfin y Hy) as [H1 _]. rewrite H1. reflexivity.
      - f_equal. apply filter_ext_in. intros y Hy. unfold above_seg in Hy. apply filter_In in Hy. destruct Hy as [Hy Ha].
        unfold above_clib in Ha. cbn in Ha. rewrite (Hsn y Hy) in Ha.
        assert (Ec : final_cur c y = false) by (unfold final_cur; unfold L' in Ha; lia). rewrite Ec. reflexivity. }
    rewrite Ekept, map_app, Enf, nat_any. reflexivity.
  - intros Hs1. unfold tolerate. apply filter_all. intros e He. rewrite <- Hev in He.
    apply in_app_iff in He. destruct He as [He|He].
    { pose proof (through_event_not_irr _ _ _ _ He) as Hn. destruct (estep e); try reflexivity. contradiction. }
    apply in_app_iff in He. destruct He as [He|He].
    { pose proof (undo_event_not_irr _ _ _ _ _ He) as Hn. destruct (estep e); try reflexivity. contradiction. }
    rewrite Hshape in He. rewrite in_map_iff in He. destruct He as [y [<- Hy]]. apply filter_In in Hy. destruct Hy as [Hy Hk].
    unfold fast_keep in Hk. apply andb_true_iff in Hk. destruct Hk as [Ha _]. unfold above_clib in Ha. cbn in Ha.
    rewrite (Hsn y Hy) in Ha. cbn [estep eblk fast_event].
    assert (Eb : bnum (seg_blk y) <? start = false) by (apply N.ltb_ge; lia).
    rewrite Eb, andb_false_r. reflexivity.
  - intros Hll. unfold nfinal. f_equal. apply filter_ext_in. intros y Hy. unfold kept in Hy. apply filter_In in Hy.
    destruct Hy as [Hy _]. unfold final_cur, final_now. rewrite (Hsn y Hy). lia.
Qed.
