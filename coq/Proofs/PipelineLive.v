(* Liveness of Model/Pipeline.v: what a state looks like in which nobody can move
   (deadlock-freedom), and a measure that strictly decreases with every effective step, hence
   every schedule can be continued to quiescence and any continuation by enough fair rounds is
   quiescent. *)
From BV Require Import Base.Prelude Model.FileSeq Model.Pipeline Spec.C10_Spec
  Proofs.FileSeqFacts Proofs.PipelineDefs Proofs.PipelineInv.
From Coq Require Import Sorted.
Local Open Scope nat_scope.

Section Stuck.
  Variable pre : blk -> N.
  Variable C : cfg.

  Ltac proj_m H := apply (f_equal s_m) in H; simpl in H; try congruence.
  Ltac proj_l H := apply (f_equal s_l) in H; simpl in H; try congruence.

  (* ---- what "thread cannot move" means, thread by thread ---- *)
  Lemma M_stuck : forall s, (forall c, step_M C c s = s) ->
    match s_m s with
    | MSel => s_fs s = [] /\ term s = false /\ s_fsclosed s = false
    | MFile i => (c_fix1 C = true -> term s = false) /\ f_bclosed (s_file s i) = false
    | MDone _ => True
    | _ => False
    end.
  Proof.
    intros s H. pose proof (H true) as Ht. pose proof (H false) as Hf. unfold step_M in *.
    destruct (s_m s) as [|i|i v|i v|e|e] eqn:Hm; auto.
    - destruct (s_fs s) as [|[i|] r] eqn:Hfs.
      + destruct (term s) eqn:E1; simpl in *; [proj_m Ht|]. destruct (s_fsclosed s); [proj_m Ht|auto].
      + destruct (term s && false); proj_m Hf.
      + destruct (term s && false); proj_m Hf.
    - destruct (f_bclosed (s_file s i)) eqn:Hb.
      + destruct (c_fix1 C && term s && (false || negb true)); proj_m Hf.
      + split; [|reflexivity]. intros Hx. rewrite Hx in Ht. destruct (term s); [simpl in Ht; proj_m Ht|reflexivity].
    - destruct (term s); proj_m Ht.
    - destruct (negb (s_last s =? 0)%N && negb (b_par (fst v) =? s_last s)%N); [proj_m Ht|].
      destruct (is_FHandler C (length (s_calls s))); proj_m Ht.
    - proj_m Ht.
  Qed.

  Lemma L_stuck : forall s, (forall c, step_L C c s = s) ->
    match s_l s with
    | LSel i => term s = false /\ is_FExists C i = false /\ nfiles (c_lay C) <= i
    | LSend i => term s = false /\ fs_full s = true
    | LStop => fs_full s = true
    | LDone => True
    end.
  Proof.
    intros s H. pose proof (H true) as Ht. pose proof (H false) as Hf. unfold step_L in *.
    destruct (s_l s) as [i|i| |] eqn:Hl; auto.
    - destruct (term s) eqn:E1; simpl in *; [proj_l Ht|].
      destruct (is_FExists C i); [proj_l Ht|].
      destruct (i <? nfiles (c_lay C)) eqn:E2; [proj_l Ht|]. apply Nat.ltb_ge in E2. auto.
    - destruct (fs_full s) eqn:E2.
      + destruct (term s); simpl in *; [proj_l Ht|auto].
      + rewrite !orb_false_r in *. destruct (term s); simpl in *; [proj_l Ht|].
        destruct (stop_after (c_lay C) i); proj_l Ht.
    - destruct (fs_full s); [reflexivity|proj_l Ht].
  Qed.

  Ltac proj_r H i := apply (f_equal (fun s => f_r (s_file s i))) in H; simpl in H; rewrite ?shut_file in H;
                     simpl in H; rewrite ?Nat.eqb_refl in H; simpl in H; try congruence.
  Ltac proj_d H i := apply (f_equal (fun s => f_d (s_file s i))) in H; simpl in H; rewrite ?shut_file in H;
                     simpl in H; rewrite ?Nat.eqb_refl in H; simpl in H; try congruence.

  Lemma R_stuck : forall s i, (forall c, step_R C i c s = s) ->
    let f := s_file s i in
    match f_r f with
    | RIdle | RDone => True
    | RSend => term s = false /\ (length (f_q f) <? c_threads C) = false /\
               ((c_threads C =? 0) && is_DSel (f_d f)) = false
    | RWait => is_DDone (f_d f) = false
    | _ => False
    end.
  Proof.
    intros s i H f. pose proof (H true) as Ht. pose proof (H false) as Hf. unfold step_R in *.
    subst f. cbv zeta in *. set (f := s_file s i) in *. destruct (f_r f) eqn:Hr; auto; subst f.
    - destruct (is_FOpen C i); [proj_r Ht i|]. destruct (is_FHeader C i); proj_r Ht i.
    - exfalso. destruct (term s); [proj_r Ht i|].
      destruct (is_FRead C i (f_rk (s_file s i))); [destruct (c_fix2 C); proj_r Ht i|].
      destruct (nth_error (file_of (c_lay C) i) (f_rk (s_file s i))) as [b|]; [|proj_r Ht i].
      destruct (keep (c_lay C) i b); [proj_r Ht i|].
      apply (f_equal (fun s => f_rk (s_file s i))) in Ht; simpl in Ht. rewrite Nat.eqb_refl in Ht. simpl in Ht.
      fold (s_file s i) in Ht. lia.
    - destruct (length (f_q (s_file s i)) <? c_threads C) eqn:E1.
      + simpl in *. rewrite ?orb_false_r, ?andb_false_r in *. proj_r Hf i.
      + destruct ((c_threads C =? 0) && is_DSel (f_d (s_file s i))) eqn:E2.
        * simpl in *. rewrite ?orb_false_r, ?andb_false_r in *. proj_r Hf i.
        * simpl in *. rewrite ?orb_true_r, ?andb_true_r in *. destruct (term s); [proj_r Ht i|auto].
    - proj_r Ht i.
    - destruct (is_DDone (f_d (s_file s i))); [proj_r Ht i|reflexivity].
  Qed.

  Lemma D_stuck : forall s i, (forall c, step_D i c s = s) ->
    let f := s_file s i in
    match f_d f with
    | DIdle | DDone => True
    | DSel => f_q f = [] /\ term s = false /\ f_qclosed f = false
    | DCell k => term s = false /\ forall v, f_cell f k <> CFull v
    | DSend v => term s = false /\ m_waits_on i s = false
    end.
  Proof.
    intros s i H f. pose proof (H true) as Ht. pose proof (H false) as Hf. unfold step_D in *.
    subst f. cbv zeta in *. set (f := s_file s i) in *. destruct (f_d f) eqn:Hd; auto; subst f.
    - destruct (f_q (s_file s i)) as [|k q'].
      + destruct (term s); simpl in *; [proj_d Ht i|]. destruct (f_qclosed (s_file s i)); [proj_d Ht i|auto].
      + destruct (term s && false); proj_d Hf i.
    - destruct (f_cell (s_file s i) k) eqn:Hc.
      1,2,4,5: destruct (term s); [proj_d Ht i|split; [reflexivity|congruence]].
      destruct (term s && false); proj_d Hf i.
    - destruct (m_waits_on i s) eqn:E1.
      + simpl in *. rewrite ?orb_false_r, ?andb_false_r in *. apply (f_equal s_m) in Hf. simpl in Hf.
        unfold m_waits_on in E1. destruct (s_m s); discriminate.
      + simpl in *. rewrite ?orb_true_r, ?andb_true_r in *. destruct (term s); [proj_d Ht i|auto].
  Qed.

  Lemma P_stuck : forall s i k, (forall c, step_P pre C i k c s = s) -> f_cell (s_file s i) k <> CRun.
  Proof.
    intros s i k H Hc. pose proof (H false) as Hf. unfold step_P in Hf. rewrite Hc in Hf.
    assert (Hx : forall x s', f_cell (s_file (upd_file i (set_cell k x (s_file s i)) s') i) k = x).
    { intros. simpl. rewrite Nat.eqb_refl. simpl. now rewrite Nat.eqb_refl. }
    destruct (is_FPre C i k).
    - apply (f_equal (fun s => f_cell (s_file s i) k)) in Hf. rewrite Hx in Hf. congruence.
    - rewrite andb_false_r in Hf.
      apply (f_equal (fun s => f_cell (s_file s i) k)) in Hf. rewrite Hx in Hf. congruence.
  Qed.
End Stuck.

Section Quiescent.
  Variable pre : blk -> N.
  Variable C : cfg.
  Hypothesis Hfix : fixed C.

  (* deadlock-freedom: when nobody can move, either Run has returned or the source is
     tailing: nothing has shut it down, run() waits in its outer select on an empty
     fileStream, and the launch reader polls for a bundle that does not exist *)
  Lemma quiescent_shape : forall s, Inv pre C s -> quiescent pre C s ->
    (exists e, s_m s = MDone e) \/
    (term s = false /\ s_m s = MSel /\ s_fs s = [] /\
     exists i, s_l s = LSel i /\ nfiles (c_lay C) <= i).
  Proof.
    intros s I Q.
    pose proof (M_stuck C s (fun c => Q (TM, c))) as HM.
    pose proof (L_stuck C s (fun c => Q (TL, c))) as HL.
    destruct I as [Il If Ig].
    destruct (s_m s) as [|i|i v|i v|e|e] eqn:Hm; try contradiction.
    - (* MSel *)
      right. destruct HM as (Hfs & Ht & Hc). repeat split; auto.
      destruct (s_l s) as [i|i| |] eqn:Hl.
      + exists i. tauto.
      + destruct HL as [_ HL]. unfold fs_full in HL. rewrite Hfs in HL. discriminate.
      + unfold fs_full in HL. rewrite Hfs in HL. discriminate.
      + pose proof (li_pc _ _ Il) as H. rewrite Hl in H. congruence.
    - (* MFile: impossible *)
      exfalso. destruct HM as [Ht Hb]. destruct Hfix as [Hf1 _]. specialize (Ht Hf1).
      pose proof (If i) as F. rewrite Ht in F.
      pose proof (R_stuck pre C s i (fun c => Q (TR i, c))) as HR.
      pose proof (D_stuck s i (fun c => Q (TD i, c))) as HD.
      cbv zeta in HR, HD.
      assert (Htk : s_taken s = S i) by (pose proof (gi_m _ _ _ Ig) as H; now rewrite Hm in H).
      assert (Hsent : i < s_sent s) by (pose proof (li_taken _ _ Il); lia).
      assert (Hdn : f_d (s_file s i) <> DDone).
      { intros H. apply (fi_bclosed _ _ _ _ _ _ _ F) in H. congruence. }
      assert (Hstuckd : f_d (s_file s i) <> DIdle ->
                (f_d (s_file s i) = DSel /\ f_q (s_file s i) = [] /\ f_qclosed (s_file s i) = false)).
      { intros Hni. destruct (f_d (s_file s i)) as [| |k|v|] eqn:Hd; try congruence.
        - tauto.
        - exfalso. destruct HD as [_ HD].
          pose proof (fi_idx_live _ _ _ _ _ _ _ F) as Hl. unfold idx in Hl. rewrite Hd in Hl.
          inversion Hl as [|? ? Hk _]; subst.
          destruct (f_cell (s_file s i) k) eqn:Hc; simpl in Hk; try contradiction.
          + exact (P_stuck pre C s i k (fun c => Q (TP i k, c)) Hc).
          + exact (HD _ eq_refl).
          + pose proof (fi_cdead _ _ _ _ _ _ _ F k Hc). discriminate.
        - exfalso. destruct HD as [_ HD]. unfold m_waits_on in HD. rewrite Hm, Nat.eqb_refl in HD. discriminate. }
      destruct (f_r (s_file s i)) eqn:Hr; try contradiction.
      + (* RIdle *) apply (fi_idle _ _ _ _ _ _ _ F) in Hr. lia.
      + (* RSend *)
        destruct HR as (_ & Hroom & Hhand).
        destruct Hstuckd as (Hd & Hq & _).
        { intros Hd. destruct (fi_didle _ _ _ _ _ _ _ F Hd) as (_ & _ & _ & _ & _ & _ & H).
          destruct H as [H|[H|[H _]]]; congruence. }
        rewrite Hq in Hroom. simpl in Hroom. rewrite Hd in Hhand. simpl in Hhand.
        apply Nat.ltb_ge in Hroom. rewrite andb_true_r in Hhand. apply Nat.eqb_neq in Hhand. lia.
      + (* RWait *)
        destruct Hstuckd as (Hd & Hq & Hqc).
        { intros Hd. destruct (fi_didle _ _ _ _ _ _ _ F Hd) as (_ & _ & _ & _ & _ & _ & H).
          destruct H as [H|[H|[H _]]]; congruence. }
        destruct (fi_rwait _ _ _ _ _ _ _ F Hr); congruence.
      + (* RDone *)
        destruct (fi_rdone _ _ _ _ _ _ _ F Hr); congruence.
    - left. now exists e.
  Qed.
End Quiescent.

(* ---------- ranking function ---------- *)
Fixpoint sumf (f : nat -> nat) (n : nat) : nat :=
  match n with O => 0 | S n' => sumf f n' + f n' end.

Lemma sumf_ext : forall f g n, (forall j, j < n -> f j = g j) -> sumf f n = sumf g n.
Proof.
  intros f g n H. induction n as [|n IH]; simpl; [reflexivity|].
  rewrite IH by (intros; apply H; lia). rewrite H by lia. reflexivity.
Qed.

Lemma sumf_upd : forall f g n i, i < n -> (forall j, j <> i -> g j = f j) ->
  sumf g n + f i = sumf f n + g i.
Proof.
  intros f g n i Hi H. induction n as [|n IH]; [lia|]. simpl.
  destruct (Nat.eq_dec i n) as [->|Hne].
  - rewrite (sumf_ext g f n) by (intros; apply H; lia). lia.
  - rewrite (H n) by lia. assert (i < n) by lia. specialize (IH H0). lia.
Qed.

Section Measure.
  Variable pre : blk -> N.
  Variable C : cfg.
  Hypothesis Hfix : fixed C.
  Let NF := nfiles (c_lay C).

  Definition wcell (c : cst) : nat :=
    match c with CNone | CRun => 7 | CFull _ | CDead => 6 | CTaken => 0 end.
  Definition muR (i : nat) (f : fstate) : nat :=
    match f_r f with
    | RIdle | ROpen => 2 * len C i + 4
    | RLoop => 2 * (len C i - f_rk f) + 3
    | RSend => 2 * (len C i - f_rk f) + 2
    | RFail | RWait => 1
    | RDone => 0
    end.
  Definition muD (f : fstate) : nat :=
    match f_d f with DIdle | DSel => 2 | DCell _ => 1 | DSend _ => 6 | DDone => 0 end.
  Definition muC (i : nat) (f : fstate) : nat := sumf (fun k => wcell (f_cell f k)) (len C i).
  Definition muF (i : nat) (f : fstate) : nat := muR i f + muD f + muC i f.
  Definition muL (s : state) : nat :=
    match s_l s with
    | LSel i => 2 * (NF - i) + 2 | LSend i => 2 * (NF - i) + 1 | LStop => 1 | LDone => 0
    end.
  Definition muM (s : state) : nat :=
    match s_m s with
    | MSel => 3 * (NF - s_taken s) + 2
    | MFile _ => 3 * (NF - s_taken s) + 3
    | MPoll _ _ => 3 * (NF - s_taken s) + 5
    | MCall _ _ => 3 * (NF - s_taken s) + 4
    | MRet _ => 1
    | MDone _ => 0
    end.
  Definition muX (s : state) : nat := if s_x s then 1 else 0.
  Definition mu (s : state) : nat :=
    muL s + muM s + muX s + sumf (fun i => muF i (s_file s i)) NF.

  Lemma mu_local : forall s s' i, i < NF ->
    s_l s' = s_l s -> s_m s' = s_m s -> s_taken s' = s_taken s -> s_x s' = s_x s ->
    (forall j, j <> i -> s_file s' j = s_file s j) ->
    muF i (s_file s' i) < muF i (s_file s i) -> mu s' < mu s.
  Proof.
    intros s s' i Hi El Em Et Ex Ef Hlt. unfold mu, muL, muM, muX. rewrite El, Em, Et, Ex.
    pose proof (sumf_upd (fun j => muF j (s_file s j)) (fun j => muF j (s_file s' j)) NF i Hi) as H.
    simpl in H. assert (H' : forall j, j <> i -> muF j (s_file s' j) = muF j (s_file s j)) by (intros j Hj; now rewrite Ef).
    specialize (H H'). lia.
  Qed.

  Lemma mu_local_upd : forall s i f' (sh : option errc), i < NF ->
    muF i f' < muF i (s_file s i) ->
    mu (upd_file i f' (match sh with Some e => shut e s | None => s end)) < mu s.
  Proof.
    intros s i f' sh Hi Hlt. apply (mu_local s _ i Hi); destruct sh; simpl; autorewrite with pl; auto;
      try (intros j Hj; destruct (Nat.eqb_spec j i); [contradiction|reflexivity]);
      rewrite Nat.eqb_refl; exact Hlt.
  Qed.

  Lemma muC_same : forall i f f', f_cell f' = f_cell f -> muC i f' = muC i f.
  Proof. intros i f f' H. unfold muC. now rewrite H. Qed.

  Lemma muC_set : forall i f k x, k < len C i ->
    muC i (set_cell k x f) + wcell (f_cell f k) = muC i f + wcell x.
  Proof.
    intros i f k x Hk. unfold muC.
    pose proof (sumf_upd (fun j => wcell (f_cell f j)) (fun j => wcell (f_cell (set_cell k x f) j)) (len C i) k Hk) as H.
    simpl in H. rewrite Nat.eqb_refl in H. apply H.
    intros j Hj. destruct (Nat.eqb_spec j k); [contradiction|reflexivity].
  Qed.

  Ltac mu_tac := unfold muF, muR, muD, muC; simpl;
    repeat match goal with H : f_r _ = _ |- _ => rewrite H end;
    repeat match goal with H : f_d _ = _ |- _ => rewrite H end; simpl; try lia.

  Lemma sent_le_NF : forall s, Inv pre C s -> s_sent s <= NF.
  Proof. intros s [[] _ _]. assumption. Qed.

  Lemma R_mu : forall s i c, Inv pre C s -> step_R C i c s = s \/ mu (step_R C i c s) < mu s.
  Proof.
    intros s i c I. pose proof (inv_f _ _ _ I i) as F. pose proof (sent_le_NF s I) as Hs.
    destruct (lt_dec i NF) as [Hi|Hi].
    2: { left. unfold step_R. assert (H : f_r (s_file s i) = RIdle) by (apply (fi_idle _ _ _ _ _ _ _ F); lia).
         now rewrite H. }
    unfold step_R; cbv zeta. destruct (f_r (s_file s i)) eqn:Hr; auto.
    - (* ROpen *)
      assert (Hd : f_d (s_file s i) = DIdle) by (apply (fi_open _ _ _ _ _ _ _ F); auto).
      destruct (fi_didle _ _ _ _ _ _ _ F Hd) as (_ & _ & Hrk & _).
      destruct (is_FOpen C i); [|destruct (is_FHeader C i)].
      + right. apply (mu_local_upd s i _ (Some EOpen) Hi). mu_tac.
      + right. apply (mu_local_upd s i _ (Some EHeader) Hi). mu_tac.
      + right. apply (mu_local_upd s i _ None Hi). mu_tac.
    - (* RLoop *)
      pose proof (fi_rk _ _ _ _ _ _ _ F) as Hrk.
      destruct (term s).
      { right. apply (mu_local_upd s i _ None Hi). mu_tac. }
      destruct (is_FRead C i (f_rk (s_file s i))).
      { destruct (c_fix2 C).
        - right. apply (mu_local_upd s i _ (Some ERead) Hi). mu_tac.
        - right. apply (mu_local_upd s i _ None Hi). mu_tac. }
      destruct (nth_error (file_of (c_lay C) i) (f_rk (s_file s i))) as [b|] eqn:En.
      + assert (Hlt : f_rk (s_file s i) < len C i) by (unfold len; apply nth_error_Some; congruence).
        destruct (keep (c_lay C) i b).
        * right. apply (mu_local_upd s i _ None Hi). mu_tac.
        * right. apply (mu_local_upd s i _ None Hi). mu_tac.
      + right. apply (mu_local_upd s i _ None Hi). mu_tac.
    - (* RSend *)
      destruct (fi_rsend _ _ _ _ _ _ _ F Hr) as (b & En & _).
      assert (Hlt : f_rk (s_file s i) < len C i) by (unfold len; apply nth_error_Some; congruence).
      assert (Hc : f_cell (s_file s i) (f_rk (s_file s i)) = CNone) by (apply (fi_cnone _ _ _ _ _ _ _ F); lia).
      destruct (term s && (c || negb ((length (f_q (s_file s i)) <? c_threads C) || (c_threads C =? 0) && is_DSel (f_d (s_file s i))))).
      { right. apply (mu_local_upd s i _ None Hi). mu_tac. }
      destruct (length (f_q (s_file s i)) <? c_threads C).
      { right. apply (mu_local_upd s i _ None Hi).
        pose proof (muC_set i (set_q (f_q (s_file s i) ++ [f_rk (s_file s i)]) (s_file s i)) _ CRun Hlt) as H.
        simpl in H. rewrite Hc in H. simpl in H.
        unfold muF, muR, muD. simpl. rewrite Hr.
        change (muC i (set_r RLoop (set_rk (S (f_rk (s_file s i))) (set_cell (f_rk (s_file s i)) CRun (set_q (f_q (s_file s i) ++ [f_rk (s_file s i)]) (s_file s i))))))
          with (muC i (set_cell (f_rk (s_file s i)) CRun (set_q (f_q (s_file s i) ++ [f_rk (s_file s i)]) (s_file s i)))).
        change (muC i (set_q (f_q (s_file s i) ++ [f_rk (s_file s i)]) (s_file s i))) with (muC i (s_file s i)) in H.
        lia. }
      destruct ((c_threads C =? 0) && is_DSel (f_d (s_file s i))) eqn:Eh; [|auto].
      apply andb_prop in Eh. destruct Eh as [_ Ed].
      assert (Hd : f_d (s_file s i) = DSel) by (destruct (f_d (s_file s i)); simpl in Ed; congruence).
      right. apply (mu_local_upd s i _ None Hi).
      pose proof (muC_set i (set_d (DCell (f_rk (s_file s i))) (s_file s i)) _ CRun Hlt) as H.
      simpl in H. rewrite Hc in H. simpl in H.
      unfold muF, muR, muD. simpl. rewrite Hr, Hd.
      change (muC i (set_r RLoop (set_rk (S (f_rk (s_file s i))) (set_cell (f_rk (s_file s i)) CRun (set_d (DCell (f_rk (s_file s i))) (s_file s i))))))
        with (muC i (set_cell (f_rk (s_file s i)) CRun (set_d (DCell (f_rk (s_file s i))) (s_file s i)))).
      change (muC i (set_d (DCell (f_rk (s_file s i))) (s_file s i))) with (muC i (s_file s i)) in H.
      lia.
    - (* RFail *) right. apply (mu_local_upd s i _ (Some ERead) Hi). mu_tac.
    - (* RWait *)
      destruct (is_DDone (f_d (s_file s i))); [|auto].
      right. apply (mu_local_upd s i _ None Hi). mu_tac.
  Qed.

  Lemma mu_split : forall s s' i, i < NF ->
    (forall j, j <> i -> s_file s' j = s_file s j) ->
    mu s' + muL s + muM s + muX s + muF i (s_file s i) =
    mu s + muL s' + muM s' + muX s' + muF i (s_file s' i).
  Proof.
    intros s s' i Hi Ef. unfold mu.
    pose proof (sumf_upd (fun j => muF j (s_file s j)) (fun j => muF j (s_file s' j)) NF i Hi) as H.
    simpl in H. assert (H' : forall j, j <> i -> muF j (s_file s' j) = muF j (s_file s j)) by (intros j Hj; now rewrite Ef).
    specialize (H H'). lia.
  Qed.

  Lemma mu_nofile : forall s s', (forall j, s_file s' j = s_file s j) ->
    mu s' + muL s + muM s + muX s = mu s + muL s' + muM s' + muX s'.
  Proof.
    intros s s' Ef. unfold mu.
    rewrite (sumf_ext (fun i => muF i (s_file s' i)) (fun i => muF i (s_file s i))) by (intros; now rewrite Ef). lia.
  Qed.

  Lemma D_mu : forall s i c, Inv pre C s -> step_D i c s = s \/ mu (step_D i c s) < mu s.
  Proof.
    intros s i c I. pose proof (inv_f _ _ _ I i) as F. pose proof (sent_le_NF s I) as Hs.
    destruct (lt_dec i NF) as [Hi|Hi].
    2: { left. unfold step_D.
         assert (H : f_r (s_file s i) = RIdle) by (apply (fi_idle _ _ _ _ _ _ _ F); lia).
         assert (H' : f_d (s_file s i) = DIdle) by (apply (fi_open _ _ _ _ _ _ _ F); auto).
         now rewrite H'. }
    assert (Hexit : f_d (s_file s i) <> DIdle -> f_d (s_file s i) <> DDone ->
              mu (upd_file i (d_exit (s_file s i)) s) < mu s).
    { intros H1 H2. apply (mu_local_upd s i _ None Hi). unfold muF, muR, muD, muC. simpl.
      destruct (f_d (s_file s i)); try congruence; lia. }
    unfold step_D; cbv zeta. destruct (f_d (s_file s i)) as [| |k|v|] eqn:Hd; auto.
    - destruct (f_q (s_file s i)) as [|k q'].
      + destruct (term s || f_qclosed (s_file s i)); [right; apply Hexit; congruence|auto].
      + destruct (term s && c); [right; apply Hexit; congruence|].
        right. apply (mu_local_upd s i _ None Hi). mu_tac.
    - assert (Hk : k < len C i).
      { pose proof (fi_idx_lt _ _ _ _ _ _ _ F) as H. unfold idx in H. rewrite Hd in H. inversion H; subst.
        pose proof (fi_rk _ _ _ _ _ _ _ F). lia. }
      destruct (f_cell (s_file s i) k) eqn:Hc.
      1,2,4,5: destruct (term s); [right; apply Hexit; congruence|auto].
      destruct (term s && c); [right; apply Hexit; congruence|].
      right. apply (mu_local_upd s i _ None Hi).
      pose proof (muC_set i (s_file s i) k CTaken Hk) as H. rewrite Hc in H. simpl in H.
      unfold muF, muR, muD. simpl. rewrite Hd.
      change (muC i (set_d (DSend v) (set_cell k CTaken (s_file s i)))) with (muC i (set_cell k CTaken (s_file s i))).
      lia.
    - destruct (term s && (c || negb (m_waits_on i s))); [right; apply Hexit; congruence|].
      destruct (m_waits_on i s) eqn:Ew; [|auto].
      unfold m_waits_on in Ew. destruct (s_m s) eqn:Hm; try discriminate.
      right.
      set (s' := set_m (MPoll i v) (upd_file i (set_d DSel (set_out (f_out (s_file s i) ++ [v]) (s_file s i))) s)).
      pose proof (mu_split s s' i Hi) as H.
      assert (Ef : forall j, j <> i -> s_file s' j = s_file s j).
      { intros j Hj. simpl. destruct (Nat.eqb_spec j i); [contradiction|reflexivity]. }
      specialize (H Ef). unfold muL, muM, muX in H. simpl in H. rewrite Hm, Nat.eqb_refl in H.
      unfold muF, muR, muD, muC in H. simpl in H. rewrite Hd in H. lia.
  Qed.

  Lemma P_mu : forall s i k c, Inv pre C s -> step_P pre C i k c s = s \/ mu (step_P pre C i k c s) < mu s.
  Proof.
    intros s i k c I. pose proof (inv_f _ _ _ I i) as F. pose proof (sent_le_NF s I) as Hs.
    unfold step_P; cbv zeta. destruct (f_cell (s_file s i) k) eqn:Hc; auto.
    assert (Hi : i < NF).
    { destruct (lt_dec i NF) as [Hi|Hi]; [assumption|exfalso].
      assert (H : f_r (s_file s i) = RIdle) by (apply (fi_idle _ _ _ _ _ _ _ F); lia).
      assert (H' : f_d (s_file s i) = DIdle) by (apply (fi_open _ _ _ _ _ _ _ F); auto).
      destruct (fi_didle _ _ _ _ _ _ _ F H') as (_ & _ & _ & Hn & _). rewrite Hn in Hc. discriminate. }
    assert (Hk : k < len C i).
    { destruct (lt_dec k (f_rk (s_file s i))) as [Hk|Hk].
      - pose proof (fi_rk _ _ _ _ _ _ _ F). lia.
      - rewrite (fi_cnone _ _ _ _ _ _ _ F) in Hc by lia. discriminate. }
    assert (Hgen : forall x sh, wcell x = 6 ->
              mu (upd_file i (set_cell k x (s_file s i)) (match sh with Some e => shut e s | None => s end)) < mu s).
    { intros x sh Hx. apply (mu_local_upd s i _ sh Hi).
      pose proof (muC_set i (s_file s i) k x Hk) as H. rewrite Hc in H. simpl in H.
      unfold muF, muR, muD. simpl. lia. }
    destruct (is_FPre C i k); [right; apply (Hgen CDead (Some EPre)); reflexivity|].
    destruct (term s && c); right; [apply (Hgen CDead None)|apply (Hgen (CFull (pv pre C i k)) None)]; reflexivity.
  Qed.

  Lemma X_mu : forall s, step_X s = s \/ mu (step_X s) < mu s.
  Proof.
    intros s. unfold step_X. destruct (s_x s) eqn:Hx; [right|auto].
    pose proof (mu_nofile s (set_x false (shut ENil s))) as H.
    unfold muL, muM, muX in H. simpl in H. autorewrite with pl in H. rewrite Hx in H.
    specialize (H (fun j => eq_refl)). lia.
  Qed.

  Lemma fs_head_file : forall s i r, LInv C s -> s_fs s = IFile i :: r ->
    i = s_taken s /\ s_taken s < s_sent s.
  Proof.
    intros s i r [] Hfs. rewrite Hfs in li_fs.
    destruct (s_sent s - s_taken s) as [|n] eqn:En; simpl in li_fs.
    - destruct li_fs as [H|[H _]]; discriminate.
    - destruct li_fs as [H|[H _]]; inversion H; split; auto; lia.
  Qed.

  Ltac mu_nf s' :=
    match goal with |- mu ?t < mu ?s =>
      let H := fresh "H" in
      pose proof (mu_nofile s t) as H; unfold muL, muM, muX in H; simpl in H; autorewrite with pl in H;
      repeat match goal with E : s_l _ = _ |- _ => rewrite E in H end;
      repeat match goal with E : s_m _ = _ |- _ => rewrite E in H end;
      specialize (H (fun j => eq_refl)); try lia
    end.

  Lemma M_mu : forall s c, Inv pre C s -> step_M C c s = s \/ mu (step_M C c s) < mu s.
  Proof.
    intros s c I. pose proof (sent_le_NF s I) as Hs. unfold step_M.
    destruct (s_m s) as [|i|i v|i v|e|e] eqn:Hm; auto.
    - destruct (s_fs s) as [|[i|] r] eqn:Hfs.
      + destruct (term s || s_fsclosed s); [right|auto]. mu_nf s.
      + destruct (term s && c); right; [mu_nf s|].
        destruct (fs_head_file s i r (inv_l _ _ _ I) Hfs) as [-> Hlt]. mu_nf s.
      + destruct (term s && c); right; mu_nf s.
    - destruct (c_fix1 C && term s && (c || negb (f_bclosed (s_file s i)))); [right; mu_nf s|].
      destruct (f_bclosed (s_file s i)); [right; mu_nf s|auto].
    - destruct (term s); right; mu_nf s.
    - destruct (negb (s_last s =? 0)%N && negb (b_par (fst v) =? s_last s)%N); [right; mu_nf s|].
      destruct (is_FHandler C (length (s_calls s))); right; mu_nf s.
    - right. mu_nf s.
  Qed.

  Lemma L_mu : forall s c, Inv pre C s -> step_L C c s = s \/ mu (step_L C c s) < mu s.
  Proof.
    intros s c I. unfold step_L, l_exit.
    destruct (s_l s) as [i|i| |] eqn:Hl; auto.
    - destruct (term s && c); [right; mu_nf s|].
      destruct (is_FExists C i); [right; mu_nf s|].
      destruct (i <? nfiles (c_lay C)); [right; mu_nf s|].
      destruct (term s); [right; mu_nf s|auto].
    - destruct (term s && (c || fs_full s)); [right; mu_nf s|].
      destruct (fs_full s); [auto|]. right.
      destruct I as [Il If _]. pose proof (li_pc _ _ Il) as Hpc. rewrite Hl in Hpc. destruct Hpc as (Hsent & Hi & _).
      assert (Hr : f_r (s_file s i) = RIdle) by (apply (fi_idle _ _ _ _ _ _ _ (If i)); lia).
      match goal with |- mu ?t < _ => set (s' := t) end.
      pose proof (mu_split s s' i Hi) as H.
      assert (Ef : forall j, j <> i -> s_file s' j = s_file s j).
      { intros j Hj. subst s'. simpl. destruct (Nat.eqb_spec j i); [contradiction|reflexivity]. }
      specialize (H Ef).
      assert (EM : muM s' = muM s) by reflexivity.
      assert (EX : muX s' = muX s) by reflexivity.
      assert (EF : muF i (s_file s' i) = muF i (s_file s i)).
      { subst s'. simpl. rewrite Nat.eqb_refl. unfold muF, muR, muD, muC. simpl. now rewrite Hr. }
      assert (EL : muL s' + 1 <= muL s).
      { unfold muL. subst s'. simpl. rewrite Hl. fold NF in Hi. destruct (stop_after (c_lay C) i); lia. }
      lia.
    - destruct (fs_full s); [auto|right; mu_nf s].
  Qed.

  Lemma step_mu : forall s tc, Inv pre C s -> step pre C s tc = s \/ mu (step pre C s tc) < mu s.
  Proof.
    intros s [t c] I. destruct t; simpl.
    - now apply L_mu.
    - now apply R_mu.
    - now apply D_mu.
    - now apply P_mu.
    - now apply M_mu.
    - apply X_mu.
  Qed.

  (* ---------- reaching quiescence ---------- *)
  Lemma run_app : forall a b s, run pre C (a ++ b) s = run pre C b (run pre C a s).
  Proof. intros. unfold run. apply fold_left_app. Qed.

  Lemma run_quiescent : forall l s, quiescent pre C s -> run pre C l s = s.
  Proof. induction l as [|tc l IH]; intros s Q; simpl; [reflexivity|]. rewrite Q. now apply IH. Qed.

  Lemma in_all_moves : forall t c, In t (all_tids C) -> In (t, c) (all_moves C).
  Proof.
    intros t c H. unfold all_moves. apply in_flat_map. exists t. split; [exact H|].
    destruct c; simpl; auto.
  Qed.

  (* a thread outside the finite list never moves *)
  Lemma tid_cases : forall s t, Inv pre C s ->
    In t (all_tids C) \/ forall c, step pre C s (t, c) = s.
  Proof.
    intros s t I. pose proof (sent_le_NF s I) as Hs. unfold all_tids.
    assert (Hidle : forall i, ~ i < NF -> f_r (s_file s i) = RIdle /\ f_d (s_file s i) = DIdle /\
                       forall k, f_cell (s_file s i) k = CNone).
    { intros i Hi. pose proof (inv_f _ _ _ I i) as F.
      assert (H : f_r (s_file s i) = RIdle) by (apply (fi_idle _ _ _ _ _ _ _ F); lia).
      assert (H' : f_d (s_file s i) = DIdle) by (apply (fi_open _ _ _ _ _ _ _ F); auto).
      destruct (fi_didle _ _ _ _ _ _ _ F H') as (_ & _ & _ & Hn & _). auto. }
    assert (Hin : forall i t', i < NF -> In t' (file_tids C i) ->
              In t' (TL :: TM :: TX :: flat_map (file_tids C) (seq 0 (nfiles (c_lay C))))).
    { intros i t' Hi Ht. right; right; right. apply in_flat_map. exists i. split; [|exact Ht].
      apply in_seq. fold NF. lia. }
    destruct t as [|i|i|i k| |]; simpl; auto.
    - destruct (lt_dec i NF) as [Hi|Hi].
      + left. apply (Hin i); auto. simpl; auto.
      + right. intros c. destruct (Hidle i Hi) as (H & _). unfold step_R. now rewrite H.
    - destruct (lt_dec i NF) as [Hi|Hi].
      + left. apply (Hin i); auto. simpl; auto.
      + right. intros c. destruct (Hidle i Hi) as (_ & H & _). unfold step_D. now rewrite H.
    - destruct (lt_dec i NF) as [Hi|Hi].
      + destruct (lt_dec k (len C i)) as [Hk|Hk].
        * left. apply (Hin i); auto. simpl. right; right. apply in_map. apply in_seq. unfold len in Hk. lia.
        * right. intros c. pose proof (inv_f _ _ _ I i) as F.
          assert (H : f_cell (s_file s i) k = CNone).
          { apply (fi_cnone _ _ _ _ _ _ _ F). pose proof (fi_rk _ _ _ _ _ _ _ F). lia. }
          unfold step_P. now rewrite H.
      + right. intros c. destruct (Hidle i Hi) as (_ & _ & H). unfold step_P. now rewrite H.
  Qed.

  Lemma quiescent_moves : forall s, Inv pre C s ->
    (forall tc, In tc (all_moves C) -> step pre C s tc = s) -> quiescent pre C s.
  Proof.
    intros s I H [t c]. destruct (tid_cases s t I) as [Hin|Hst]; [|apply Hst].
    apply H. now apply in_all_moves.
  Qed.

  Lemma run_mu : forall l s, Inv pre C s ->
    ((forall tc, In tc l -> step pre C s tc = s) /\ run pre C l s = s) \/ mu (run pre C l s) < mu s.
  Proof.
    induction l as [|tc l IH]; intros s I; simpl.
    - left. split; [intros ? []|reflexivity].
    - destruct (step_mu s tc I) as [E|Hlt].
      + rewrite E. destruct (IH s I) as [[H1 H2]|H].
        * left. split; [|exact H2]. intros tc' [<-|Hin]; auto.
        * right. exact H.
      + right. destruct (IH _ (step_pres pre C Hfix s tc I)) as [[_ H2]|H].
        * now rewrite H2.
        * lia.
  Qed.

  Lemma rounds_quiesce : forall n s, Inv pre C s -> mu s <= n -> quiescent pre C (run pre C (rounds C n) s).
  Proof.
    induction n as [|n IH]; intros s I Hmu.
    - simpl. intros tc. destruct (step_mu s tc I) as [E|Hlt]; [exact E|lia].
    - change (rounds C (S n)) with (all_moves C ++ rounds C n). rewrite run_app. destruct (run_mu (all_moves C) s I) as [[H1 H2]|Hlt].
      + rewrite H2. assert (Q : quiescent pre C s) by (now apply quiescent_moves).
        now rewrite run_quiescent.
      + apply IH; [now apply run_pres|lia].
  Qed.

  Lemma quiesces : forall sched, exists n, forall m, n <= m ->
    quiescent pre C (run pre C (sched ++ rounds C m) (init C)).
  Proof.
    intros sched. exists (mu (run pre C sched (init C))). intros m Hm. rewrite run_app.
    apply rounds_quiesce; [|exact Hm]. apply run_pres; [exact Hfix|]. apply Inv_init.
  Qed.
End Measure.
