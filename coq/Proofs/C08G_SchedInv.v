(* GENERIC COPY of Proofs/C08_SchedInv.v: the same proofs with the event production function [hub_push first kept]
   (Model/Hub.v hub_live) replaced by an arbitrary hp : hprod (Model/HubAll.v); see Spec/C08_Sched_Gen_Spec.v. *)
(* C08, schedule part, 2: invariants of every schedule of Model/HubSched.v (fixed code): the locks
   (mutual exclusion), the requesters' records, the subscriber list. *)
From BV Require Import Base.Prelude Model.Block Model.ForkDB Model.Forkable Model.ForkableLookups
  Model.Burst Model.Hub Model.HubSubs Model.HubAll Model.HubSched Model.HubSchedG Spec.C08_Spec Spec.C08_Gen_Spec Spec.C08_Sched_Spec Spec.C08_Sched_Gen_Spec
  Proofs.C08G_SchedSerial.
Local Open Scope N_scope.

(* ---------------------------------------------------------------- lists *)

Lemma set_nth_length {A} (x : A) : forall l k, length (set_nth k x l) = length l.
Proof. induction l as [|y l IH]; intros [|k]; cbn [set_nth length]; auto. Qed.

Lemma nth_set_nth {A} (x : A) : forall l k j y,
  nth_error l k = Some y ->
  nth_error (set_nth k x l) j = if Nat.eqb j k then Some x else nth_error l j.
Proof.
  induction l as [|z l IH]; intros [|k] j y H; cbn [nth_error] in H; try discriminate.
  - destruct j; reflexivity.
  - destruct j as [|j]; cbn [set_nth nth_error Nat.eqb]; [reflexivity|]. apply (IH _ _ _ H).
Qed.

Definition cntf {A} (f : A -> bool) (l : list A) : nat := length (filter f l).
Definition b2n (b : bool) : nat := if b then 1%nat else 0%nat.

Lemma cntf_set_nth {A} (f : A -> bool) (x : A) : forall l k y,
  nth_error l k = Some y ->
  (cntf f (set_nth k x l) + b2n (f y) = cntf f l + b2n (f x))%nat.
Proof.
  unfold cntf. induction l as [|z l IH]; intros [|k] y H; cbn [nth_error] in H; try discriminate.
  - inversion H; subst. cbn [set_nth filter]. destruct (f x), (f y); cbn [length b2n]; lia.
  - cbn [set_nth filter]. specialize (IH _ _ H). destruct (f z); cbn [length]; lia.
Qed.

Lemma cntf_zero {A} (f : A -> bool) l : cntf f l = O -> forall k y, nth_error l k = Some y -> f y = false.
Proof.
  unfold cntf. induction l as [|z l IH]; intros H k y Hn; [destruct k; discriminate|].
  cbn [filter] in H. destruct (f z) eqn:Hz; [discriminate|].
  destruct k as [|k]; cbn [nth_error] in Hn; [inversion Hn; subst; exact Hz | apply (IH H _ _ Hn)].
Qed.

Lemma cntf_pos {A} (f : A -> bool) l : cntf f l <> O -> exists k y, nth_error l k = Some y /\ f y = true.
Proof.
  unfold cntf. induction l as [|z l IH]; intros H; [contradiction|].
  cbn [filter] in H. destruct (f z) eqn:Hz.
  - exists O, z. auto.
  - destruct (IH H) as [k [y [H1 H2]]]. exists (S k), y. auto.
Qed.

Lemma memb_In i l : memb i l = true <-> In i l.
Proof.
  unfold memb. rewrite existsb_exists. split.
  - intros [x [H1 H2]]. apply Nat.eqb_eq in H2. subst. exact H1.
  - intros H. exists i. split; [exact H | apply Nat.eqb_refl].
Qed.

Lemma memb_false i l : memb i l = false <-> ~ In i l.
Proof. rewrite <- memb_In. destruct (memb i l); split; congruence. Qed.

(* ---------------------------------------------------------------- projections of the new state *)

Lemma rq_put st i c c' j :
  nth_error (g_reqs st) i = Some c ->
  nth_error (set_nth i c' (g_reqs st)) j = if Nat.eqb j i then Some c' else nth_error (g_reqs st) j.
Proof. apply nth_set_nth. Qed.

(* ---------------------------------------------------------------- the locks *)

Record LockInv (st : cstate) : Prop := mkLockInv {
  li_readers : g_readers st = cntf in_read_cs (g_reqs st);
  li_writer : g_writer st = in_write_cs st;
  li_wpend : g_wpend st = match g_ppc st with PWait _ => true | _ => false end;
  li_excl : g_writer st = true -> g_readers st = O;
  li_mutex_in : forall i c, nth_error (g_reqs st) i = Some c -> in_mutex_cs c = true -> g_mutex st = Some i;
  li_mutex_holder : forall i, g_mutex st = Some i ->
                              exists c, nth_error (g_reqs st) i = Some c /\ in_mutex_cs c = true
}.

Lemma lock_init h0 script reqs : LockInv (cinit h0 script reqs).
Proof.
  constructor; cbn; try reflexivity; try discriminate.
  - unfold cntf. induction reqs as [|r reqs IH]; [reflexivity | exact IH].
  - intros i c H. apply nth_error_In in H. apply in_map_iff in H. destruct H as [r [<- _]]. discriminate.
Qed.

Lemma mutex_cs_read_cs c : in_mutex_cs c = true -> in_read_cs c = true.
Proof. unfold in_mutex_cs, in_read_cs. destruct (r_pc c); congruence. Qed.

(* consequences *)
Lemma lock_writer_excludes st : LockInv st -> g_writer st = true ->
  g_mutex st = None /\ forall i c, nth_error (g_reqs st) i = Some c -> in_read_cs c = false.
Proof.
  intros L Hw. pose proof (li_excl _ L Hw) as Hr. rewrite (li_readers _ L) in Hr.
  pose proof (cntf_zero _ _ Hr) as Hz. split; [|exact Hz].
  destruct (g_mutex st) as [i|] eqn:Hm; [|reflexivity].
  destruct (li_mutex_holder _ L i Hm) as [c [Hc Hin]]. apply mutex_cs_read_cs in Hin.
  rewrite (Hz _ _ Hc) in Hin. discriminate.
Qed.

Ltac req_pc c Hpc := unfold in_read_cs, in_mutex_cs in *; try rewrite Hpc in *.

Definition rcs (pc : rpc) : bool :=
  match pc with RLocked | RHook | RMutex | RRead _ | RWritten | RUnlocking => true | _ => false end.
Definition mcs (pc : rpc) : bool := match pc with RMutex | RRead _ | RWritten => true | _ => false end.
Lemma in_read_rcs c : in_read_cs c = rcs (r_pc c).
Proof. reflexivity. Qed.
Lemma in_mutex_mcs c : in_mutex_cs c = mcs (r_pc c).
Proof. reflexivity. Qed.

Lemma cnt_put st i c c' :
  nth_error (g_reqs st) i = Some c ->
  (cntf in_read_cs (set_nth i c' (g_reqs st)) + b2n (rcs (r_pc c))
   = cntf in_read_cs (g_reqs st) + b2n (rcs (r_pc c')))%nat.
Proof. intros H. apply (cntf_set_nth in_read_cs c' _ _ _ H). Qed.

(* the consumer's step_g, spelled out *)
Definition recv_req (c : req) (s : msub) (x : qitem) (q : list qitem) : req :=
  mkReq (r_req c) RDone (Some (mkSub q (ms_cap s) (ms_dropped s))) (r_got c ++ [x]).

Lemma cons_step_cases st i :
  cons_step st i = st \/
  exists c s x q,
    nth_error (g_reqs st) i = Some c /\ r_pc c = RDone /\ r_sub c = Some s /\ ms_queue s = x :: q /\
    let st' := put_req st i (recv_req c s x q) in
    let entry := (TCons i, XRecv (index_of i (g_order st))) in
    cons_step st i =
    match inflight st with
    | Some (_, todo) => if memb i todo then set_log st' (g_log st ++ [entry]) else set_tail st' (g_tail st ++ [entry])
    | None => set_log st' (g_log st ++ [entry])
    end.
Proof.
  unfold cons_step. destruct (nth_error (g_reqs st) i) as [c|] eqn:Hc; [|left; reflexivity].
  destruct (r_pc c) eqn:Hpc; try (left; reflexivity). destruct (r_sub c) as [s|] eqn:Hs; [|left; reflexivity].
  destruct (ms_queue s) as [|x q] eqn:Hq; [left; reflexivity|].
  right. exists c, s, x, q. repeat split; assumption.
Qed.

Ltac simp_st :=
  cbn [g_hub g_subs g_writer g_wpend g_readers g_mutex g_ppc g_script g_reqs g_order g_log g_tail
       set_hub set_subs set_writer set_wpend set_readers set_mutex set_ppc set_script set_reqs set_order
       set_log set_tail put_req r_req r_pc r_sub r_got set_rpc set_rsub] in *.

Ltac lock_triv := constructor; unfold in_write_cs; simp_st; try assumption; try reflexivity; try congruence.

Lemma lock_step hp st t : LockInv st -> LockInv (cstep_g true hp st t).
Proof.
  intros L. destruct t as [|i|i]; cbn [cstep_g].
  - (* producer *)
    unfold prod_step_g. destruct (g_ppc st) as [|b|b|evs|e todo evs|e k todo evs] eqn:Hpc;
      pose proof L as L'; destruct L' as [L1 L2 L3 L4 L5 L6]; unfold in_write_cs in L2; rewrite Hpc in L2, L3.
    + destruct (g_script st) as [|b rest]; [exact L|].
      lock_triv.
    + destruct (Nat.eqb (g_readers st) 0) eqn:Hr; [|exact L]. apply Nat.eqb_eq in Hr.
      lock_triv.
    + pose proof (hub_push_live hp (g_hub st) b) as Hl. rewrite Hl.
      lock_triv.
    + destruct evs as [|e evs].
      * lock_triv.
      * destruct (mutex_free true st); [|exact L].
        lock_triv.
    + destruct todo as [|k todo].
      * lock_triv.
      * assert (Hgen : forall pc', in_write_cs (set_ppc st pc') = true ->
                  (match pc' with PWait _ => true | _ => false end) = false ->
                  LockInv (set_ppc st pc')).
        { intros pc' Hw Hnw. unfold in_write_cs in Hw. simp_st. lock_triv. }
        assert (Hput : forall c s pc', nth_error (g_reqs st) k = Some c ->
                  in_write_cs (set_ppc st pc') = true ->
                  (match pc' with PWait _ => true | _ => false end) = false ->
                  LockInv (set_ppc (put_req st k (set_rsub c s)) pc')).
        { intros c s pc' Hc Hw Hnw.
          assert (Hcnt : cntf in_read_cs (set_nth k (set_rsub c s) (g_reqs st)) = cntf in_read_cs (g_reqs st)).
          { pose proof (cntf_set_nth in_read_cs (set_rsub c s) _ _ _ Hc) as H.
            assert (E : in_read_cs (set_rsub c s) = in_read_cs c) by reflexivity. rewrite E in H. lia. }
          unfold in_write_cs in Hw. simp_st. lock_triv.
          - intros j cj Hj Hin. rewrite (rq_put _ _ _ _ _ Hc) in Hj. destruct (Nat.eqb j k) eqn:Hjk.
            + apply Nat.eqb_eq in Hjk. subst j. inversion Hj; subst cj.
              apply (L5 k c Hc). exact Hin.
            + apply (L5 j cj Hj Hin).
          - intros j Hm. destruct (L6 j Hm) as [cj [Hj Hin]]. rewrite (rq_put _ _ _ _ _ Hc).
            destruct (Nat.eqb j k) eqn:Hjk.
            + apply Nat.eqb_eq in Hjk. subst j. rewrite Hc in Hj. inversion Hj; subst cj.
              exists (set_rsub c s). split; [reflexivity | exact Hin].
            + exists cj. auto. }
        destruct (nth_error (g_reqs st) k) as [c|] eqn:Hc; [|apply Hgen; reflexivity].
        destruct (r_sub c) as [s|]; [|apply Hgen; reflexivity].
        destruct (N.of_nat (length (ms_queue s)) =? ms_cap s); apply Hput; reflexivity || exact Hc.
    + destruct (mutex_free true st); [|exact L].
      lock_triv.
  - (* requester *)
    unfold req_step. destruct (nth_error (g_reqs st) i) as [c|] eqn:Hc; [|exact L].
    pose proof L as L'. destruct L' as [L1 L2 L3 L4 L5 L6].
    assert (Hin5 : forall c' m', (forall j cj, nth_error (g_reqs st) j = Some cj -> j <> i -> in_mutex_cs cj = true -> m' = Some j) ->
                                 (mcs (r_pc c') = true -> m' = Some i) ->
                   forall j cj, nth_error (set_nth i c' (g_reqs st)) j = Some cj -> in_mutex_cs cj = true -> m' = Some j).
    { intros c' m' Hoth Hme j cj Hj Hin. rewrite (rq_put _ _ _ _ _ Hc) in Hj. destruct (Nat.eqb j i) eqn:Hji.
      - apply Nat.eqb_eq in Hji. subst j. inversion Hj; subst cj. apply Hme. rewrite <- in_mutex_mcs. exact Hin.
      - apply Nat.eqb_neq in Hji. apply (Hoth j cj Hj Hji Hin). }
    assert (Hin6 : forall c' m', (forall j, m' = Some j -> j <> i -> g_mutex st = Some j) ->
                                 (m' = Some i -> mcs (r_pc c') = true) ->
                   forall j, m' = Some j -> exists cj, nth_error (set_nth i c' (g_reqs st)) j = Some cj /\ in_mutex_cs cj = true).
    { intros c' m' Hoth Hme j Hm. rewrite (rq_put _ _ _ _ _ Hc). destruct (Nat.eqb j i) eqn:Hji.
      - apply Nat.eqb_eq in Hji. subst j. exists c'. split; [reflexivity | rewrite in_mutex_mcs; apply Hme, Hm].
      - apply Nat.eqb_neq in Hji. apply (L6 j). apply Hoth; assumption. }
    assert (Hnot : mcs (r_pc c) = false -> g_mutex st = Some i -> False).
    { intros Hn Hm. destruct (L6 i Hm) as [c0 [Hc0 Hin]]. rewrite Hc in Hc0. inversion Hc0; subst c0.
      rewrite in_mutex_mcs in Hin. congruence. }
    assert (Hmine : mcs (r_pc c) = true -> g_mutex st = Some i).
    { intros Hm. apply (L5 i c Hc). rewrite in_mutex_mcs. exact Hm. }
    assert (Hoth5 : forall j cj, nth_error (g_reqs st) j = Some cj -> j <> i -> in_mutex_cs cj = true -> g_mutex st = Some j)
      by (intros j cj Hj _ Hin; apply (L5 j cj Hj Hin)).
    destruct (r_pc c) as [| | | |snap| | |] eqn:Hpc; cbn [mcs] in Hnot, Hmine.
    + (* RStart *)
      destruct (negb (g_writer st) && negb (g_wpend st)) eqn:Hen; [|exact L].
      apply andb_true_iff in Hen. destruct Hen as [Hw Hp]. apply negb_true_iff in Hw, Hp.
      pose proof (cnt_put st i c (set_rpc c RLocked) Hc) as Hcnt. rewrite Hpc in Hcnt. cbn [rcs b2n r_pc set_rpc] in Hcnt.
      constructor; simp_st; try assumption.
      * lia.
      * congruence.
      * apply Hin5; [exact Hoth5 | cbn; discriminate].
      * apply Hin6; [intros j Hm _; exact Hm|]. intros Hm. exfalso. apply Hnot; auto.
    + (* RLocked *)
      destruct (request_burst (g_hub st) (r_req c)) as [burst|].
      * match goal with |- LockInv (put_req st i ?c') => pose proof (cnt_put st i c c' Hc) as Hcnt end.
        rewrite Hpc in Hcnt. cbn [rcs b2n r_pc] in Hcnt.
        constructor; simp_st; try assumption.
        -- lia.
        -- apply Hin5; [exact Hoth5 | cbn; discriminate].
        -- apply Hin6; [intros j Hm _; exact Hm|]. intros Hm. exfalso. apply Hnot; auto.
      * pose proof (cnt_put st i c (set_rpc c RUnlocking) Hc) as Hcnt. rewrite Hpc in Hcnt. cbn [rcs b2n r_pc set_rpc] in Hcnt.
        constructor; simp_st; try assumption.
        -- lia.
        -- apply Hin5; [exact Hoth5 | cbn; discriminate].
        -- apply Hin6; [intros j Hm _; exact Hm|]. intros Hm. exfalso. apply Hnot; auto.
    + (* RHook *)
      destruct (g_mutex st) as [m|] eqn:Hm; [exact L|].
      pose proof (cnt_put st i c (set_rpc c RMutex) Hc) as Hcnt. rewrite Hpc in Hcnt. cbn [rcs b2n r_pc set_rpc] in Hcnt.
      constructor; simp_st; try assumption.
      * lia.
      * apply Hin5; [|reflexivity]. intros j cj Hj _ Hin. pose proof (L5 j cj Hj Hin). congruence.
      * apply Hin6; [|reflexivity]. intros j Hj Hne. congruence.
    + (* RMutex *)
      pose proof (cnt_put st i c (set_rpc c (RRead (g_subs st))) Hc) as Hcnt. rewrite Hpc in Hcnt. cbn [rcs b2n r_pc set_rpc] in Hcnt.
      constructor; simp_st; try assumption.
      * lia.
      * apply Hin5; [exact Hoth5 | intros _; auto].
      * apply Hin6; [intros j Hj _; exact Hj | reflexivity].
    + (* RRead *)
      pose proof (cnt_put st i c (set_rpc c RWritten) Hc) as Hcnt. rewrite Hpc in Hcnt. cbn [rcs b2n r_pc set_rpc] in Hcnt.
      constructor; simp_st; try assumption.
      * lia.
      * apply Hin5; [exact Hoth5 | intros _; auto].
      * apply Hin6; [intros j Hj _; exact Hj | reflexivity].
    + (* RWritten *)
      pose proof (cnt_put st i c (set_rpc c RUnlocking) Hc) as Hcnt. rewrite Hpc in Hcnt. cbn [rcs b2n r_pc set_rpc] in Hcnt.
      constructor; simp_st; try assumption.
      * lia.
      * apply Hin5; [|cbn; discriminate]. intros j cj Hj Hne Hin. pose proof (L5 j cj Hj Hin).
        specialize (Hmine eq_refl). congruence.
      * intros j Hj. discriminate.
    + (* RUnlocking *)
      pose proof (cnt_put st i c (set_rpc c RDone) Hc) as Hcnt. rewrite Hpc in Hcnt. cbn [rcs b2n r_pc set_rpc] in Hcnt.
      constructor; simp_st; try assumption.
      * lia.
      * intros Hw. specialize (L4 Hw). lia.
      * apply Hin5; [exact Hoth5 | cbn; discriminate].
      * apply Hin6; [intros j Hm _; exact Hm|]. intros Hm. exfalso. apply Hnot; auto.
    + exact L.
  - (* consumer *)
    destruct (cons_step_cases st i) as [E|[c [s [x [q [Hc [Hpc [Hs [Hq E]]]]]]]]]; rewrite E; [exact L|]. clear E.
    assert (Hst : LockInv (put_req st i (recv_req c s x q))).
    { destruct L as [L1 L2 L3 L4 L5 L6].
      pose proof (cnt_put st i c (recv_req c s x q) Hc) as Hcnt. rewrite Hpc in Hcnt. cbn [rcs b2n r_pc recv_req] in Hcnt.
      constructor; simp_st; try assumption.
      - lia.
      - intros j cj Hj Hin. rewrite (rq_put _ _ _ _ _ Hc) in Hj. destruct (Nat.eqb j i) eqn:Hji.
        + inversion Hj; subst cj. discriminate.
        + apply (L5 j cj Hj Hin).
      - intros j Hm. destruct (L6 j Hm) as [cj [Hj Hin]]. rewrite (rq_put _ _ _ _ _ Hc).
        destruct (Nat.eqb j i) eqn:Hji.
        + apply Nat.eqb_eq in Hji. subst j. rewrite Hc in Hj. inversion Hj; subst cj.
          rewrite in_mutex_mcs, Hpc in Hin. discriminate.
        + exists cj. auto. }
    destruct (inflight st) as [[e todo]|]; [destruct (memb i todo)|];
      destruct Hst as [L1 L2 L3 L4 L5 L6]; constructor; assumption.
Qed.
