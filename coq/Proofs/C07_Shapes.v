(* The shape of a run of stream_run (Spec/C07_Shapes_Spec.v): pure reasoning on Model/Joining.v, no hypothesis on the
   world, the filter or the stop block. *)
From BV Require Import Base.Prelude Model.Block Model.ForkDB Model.Forkable Model.ForkableLookups
  Model.Burst Model.Hub Model.CursorResolver Model.Joining
  Spec.C07_Spec Spec.C07_Compose_Spec Spec.C07_Shapes_Spec
  Proofs.C07_File Proofs.C07_Live.
Local Open Scope N_scope.

Lemma wafter_add c a b w : world_after c b (world_after c a w) = world_after c (a + b) w.
Proof. unfold world_after. rewrite push_n_add. reflexivity. Qed.

Lemma pauses_world c count ps w : exists m, snd (fst (apply_pauses c count ps w)) = world_after c m w.
Proof. destruct (apply_pauses_push c count ps w) as (m & E & _). exists m. symmetry. exact E. Qed.

Lemma raw_out_live c X res P : live_ok c X [] res P -> raw_out c X res P.
Proof. unfold live_ok, raw_out. cbn [app]. auto. Qed.

Lemma upto_stop_app c : forall l1 l2, snd (upto_stop c l1) = false ->
  upto_stop c (l1 ++ l2) = (delivered c l1 ++ fst (upto_stop c l2), snd (upto_stop c l2)).
Proof.
  induction l1 as [|e l1 IH]; intros l2 H.
  - cbn [app]. unfold delivered. cbn [filter app]. destruct (upto_stop c l2); reflexivity.
  - cbn [upto_stop app] in *. destruct (stops c e); [discriminate|]. cbn [snd] in H.
    rewrite (IH l2 H). cbn [fst snd]. unfold delivered. cbn [filter].
    destruct (fst (Joining.chain c e)); reflexivity.
Qed.

(* ------------------------------------------------------------------ the file phase *)

Definition file_shape (c : jcfg) (w : world) (fevs : list event) (fend : jerr) (out : list event)
           (res : list event * jerr) : Prop :=
  (exists pre e rest m lowest burst k,
     fevs = pre ++ e :: rest /\ snd (upto_stop c pre) = false /\
     join_try c (world_after c m w) lowest e = Some burst /\
     live_ok c (pre ++ burst ++ pushed c k (world_after c m w)) out res
             (w_rest (world_after c k (world_after c m w)) = [])) \/
  (snd (upto_stop c fevs) = false /\ res = (out ++ delivered c fevs, fend)) \/
  (snd (upto_stop c fevs) = true /\ res = (out ++ fst (upto_stop c fevs), JStop)).

Lemma file_shapes fuel c fend : forall fevs w lowest count ps out,
  file_shape c w fevs fend out (file_phase fuel c w lowest fevs fend count ps out).
Proof.
  induction fevs as [|e fevs IH]; intros w lowest count ps out.
  - right. left. cbn [file_phase upto_stop snd]. split; [reflexivity|]. unfold delivered. cbn [filter]. rewrite app_nil_r. reflexivity.
  - rewrite file_phase_cons. destruct (join_try c w lowest e) as [burst|] eqn:Ej.
    + left. destruct (live_fifo fuel c w burst count ps out) as (k & Hk).
      exists [], e, fevs, 0%nat, lowest, burst, k. split; [reflexivity|]. split; [reflexivity|].
      split; [exact Ej|]. cbn [app]. exact Hk.
    + cbv zeta. destruct (Joining.chain c e) as [deliver stop] eqn:Ec.
      assert (Hst : stops c e = stop) by (unfold stops; rewrite Ec; reflexivity).
      assert (Hd : fst (Joining.chain c e) = deliver) by (rewrite Ec; reflexivity).
      destruct deliver.
      * destruct (pauses_world c (count + 1) ps w) as [m1 Em1].
        destruct (apply_pauses c (count + 1) ps w) as [[ps' w'] evs']. cbn [fst snd] in Em1. subst w'.
        destruct stop.
        -- right. right. cbn [upto_stop]. rewrite Hst, Hd. cbn [fst snd]. split; reflexivity.
        -- specialize (IH (world_after c m1 w)
                         (if (lowest <=? bnum (eblk e)) && matches_new (estep e) then hub_lowest (w_hub w) else lowest)
                         (count + 1) ps' (out ++ [e])).
           destruct IH as [(pre & e1 & rest & m & lowest1 & burst & k & Ef & Hns & Hj & Hok)|[[Hns Hr]|[Hs Hr]]].
           ++ left. exists (e :: pre), e1, rest, (m1 + m)%nat, lowest1, burst, k.
              rewrite wafter_add in Hj, Hok. split; [rewrite Ef; reflexivity|]. split.
              { cbn [upto_stop]. rewrite Hst. cbn [snd]. exact Hns. }
              split; [exact Hj|]. cbn [app]. apply live_ok_deliver; [exact Ec | exact Hok].
           ++ right. left. split.
              { cbn [upto_stop]. rewrite Hst. cbn [snd]. exact Hns. }
              rewrite Hr. unfold delivered. cbn [filter]. rewrite Hd, <- app_assoc. reflexivity.
           ++ right. right. split.
              { cbn [upto_stop]. rewrite Hst. cbn [snd]. exact Hs. }
              rewrite Hr. cbn [upto_stop]. rewrite Hst, Hd. cbn [fst]. rewrite <- app_assoc. reflexivity.
      * destruct stop.
        -- right. right. cbn [upto_stop]. rewrite Hst, Hd. cbn [fst snd]. split; [reflexivity | rewrite app_nil_r; reflexivity].
        -- specialize (IH w (if (lowest <=? bnum (eblk e)) && matches_new (estep e) then hub_lowest (w_hub w) else lowest)
                         count ps out).
           destruct IH as [(pre & e1 & rest & m & lowest1 & burst & k & Ef & Hns & Hj & Hok)|[[Hns Hr]|[Hs Hr]]].
           ++ left. exists (e :: pre), e1, rest, m, lowest1, burst, k.
              split; [rewrite Ef; reflexivity|]. split.
              { cbn [upto_stop]. rewrite Hst. cbn [snd]. exact Hns. }
              split; [exact Hj|]. cbn [app]. apply live_ok_skip; [exact Ec | exact Hok].
           ++ right. left. split.
              { cbn [upto_stop]. rewrite Hst. cbn [snd]. exact Hns. }
              rewrite Hr. unfold delivered. cbn [filter]. rewrite Hd. reflexivity.
           ++ right. right. split.
              { cbn [upto_stop]. rewrite Hst. cbn [snd]. exact Hs. }
              rewrite Hr. cbn [upto_stop]. rewrite Hst, Hd. cbn [fst app]. reflexivity.
Qed.

(* ------------------------------------------------------------------ final blocks only: the stateful phases *)

Lemma chain_fin_spec c lf e :
  (chain_fin c lf e = (false, false, lf) /\ forall S, undup c lf (e :: S) = undup c lf S) \/
  (exists n, chain_fin c lf e = (Joining.chain c e, Some n) /\ forall S, undup c lf (e :: S) = e :: undup c (Some n) S).
Proof.
  unfold chain_fin. cbn [undup]. destruct (filter_pass c (estep e)); [|left; split; reflexivity].
  destruct (match lf with Some n => bnum (eblk e) <=? n | None => false end); [left; split; reflexivity|].
  right. exists (bnum (eblk e)). split; reflexivity.
Qed.

Lemma live_fifo_fin : forall fuel c w lf queue count ps out,
  exists k, live_ok c (undup c lf (queue ++ pushed c k w)) out (live_phase_fin fuel c w lf queue count ps out)
                    (w_rest (fst (push_n c k w)) = []).
Proof.
  induction fuel as [|f IH]; intros c w lf queue count ps out.
  - exists 0%nat. cbn [live_phase_fin]. unfold live_ok. cbn [snd fst].
    exists [], (undup c lf (queue ++ pushed c 0 w)). split; [reflexivity|]. split; [reflexivity|].
    unfold delivered. cbn [filter]. rewrite app_nil_r. reflexivity.
  - cbn [live_phase_fin]. destruct queue as [|e q].
    + destruct (w_rest w) as [|b r] eqn:Er.
      * exists 0%nat. unfold live_ok, pushed. cbn [push_n snd fst app undup upto_stop].
        split; [exact Er|]. split; [reflexivity|]. unfold delivered. cbn [filter]. rewrite app_nil_r. reflexivity.
      * destruct (IH c (fst (push_one c w)) lf (snd (push_one c w)) count ps out) as (k & Hk).
        exists (1 + k)%nat. unfold pushed in *. rewrite push_n_add, push_n_one. cbn [fst snd app].
        destruct (push_one c w) as [w' evs]. cbn [fst snd] in *. exact Hk.
    + destruct (chain_fin_spec c lf e) as [[Hcf Hun]|(n & Hcf & Hun)]; rewrite Hcf.
      * destruct (IH c w lf q count ps out) as (k & Hk). exists k. cbn [app]. rewrite Hun. exact Hk.
      * destruct (Joining.chain c e) as [deliver stop] eqn:Ec. destruct deliver.
        -- destruct (apply_pauses_push c (count + 1) ps w) as (m & Em1 & Em2).
           destruct (apply_pauses c (count + 1) ps w) as [[ps' w'] evs]. cbn [fst snd] in Em1, Em2.
           destruct stop.
           ++ exists 0%nat. cbn [app]. rewrite Hun. unfold live_ok. cbn [snd fst upto_stop]. unfold stops. rewrite Ec. cbn [fst snd].
              split; reflexivity.
           ++ destruct (IH c w' (Some n) (q ++ evs) (count + 1) ps' (out ++ [e])) as (k & Hk).
              exists (m + k)%nat. unfold pushed in *. rewrite push_n_add. cbn [fst snd]. rewrite Em1, Em2.
              cbn [app]. rewrite Hun. apply live_ok_deliver; [exact Ec|].
              rewrite <- app_assoc in Hk. exact Hk.
        -- destruct stop.
           ++ exists 0%nat. cbn [app]. rewrite Hun. unfold live_ok. cbn [snd fst upto_stop]. unfold stops. rewrite Ec. cbn [fst snd].
              split; [reflexivity|]. rewrite app_nil_r. reflexivity.
           ++ destruct (IH c w (Some n) q count ps out) as (k & Hk). exists k.
              cbn [app]. rewrite Hun. apply live_ok_skip; assumption.
Qed.

Definition file_shape_fin (c : jcfg) (w : world) (lf : option N) (fevs : list event) (fend : jerr) (out : list event)
           (res : list event * jerr) : Prop :=
  (exists pre e rest m lowest burst k,
     fevs = pre ++ e :: rest /\ snd (upto_stop c (undup c lf pre)) = false /\
     join_try c (world_after c m w) lowest e = Some burst /\
     live_ok c (undup c lf (pre ++ burst ++ pushed c k (world_after c m w))) out res
             (w_rest (world_after c k (world_after c m w)) = [])) \/
  (snd (upto_stop c (undup c lf fevs)) = false /\ res = (out ++ delivered c (undup c lf fevs), fend)) \/
  (snd (upto_stop c (undup c lf fevs)) = true /\ res = (out ++ fst (upto_stop c (undup c lf fevs)), JStop)).

Lemma file_phase_fin_cons : forall fuel c w lf lowest e rest fend count ps out,
  file_phase_fin fuel c w lf lowest (e :: rest) fend count ps out =
  match join_try c w lowest e with
  | Some burst => live_phase_fin fuel c w lf burst count ps out
  | None =>
      let lowest' := if (lowest <=? bnum (eblk e)) && matches_new (estep e) then hub_lowest (w_hub w) else lowest in
      let '(deliver, stop, lf') := chain_fin c lf e in
      if deliver then
        let count' := count + 1 in
        let '(ps', w', _) := apply_pauses c count' ps w in
        if stop then (out ++ [e], JStop)
        else file_phase_fin fuel c w' lf' lowest' rest fend count' ps' (out ++ [e])
      else if stop then (out, JStop)
      else file_phase_fin fuel c w lf' lowest' rest fend count ps out
  end.
Proof. reflexivity. Qed.

Lemma file_shapes_fin fuel c fend : forall fevs w lf lowest count ps out,
  file_shape_fin c w lf fevs fend out (file_phase_fin fuel c w lf lowest fevs fend count ps out).
Proof.
  induction fevs as [|e fevs IH]; intros w lf lowest count ps out.
  - right. left. cbn [file_phase_fin undup upto_stop snd]. split; [reflexivity|]. unfold delivered. cbn [filter]. rewrite app_nil_r. reflexivity.
  - rewrite file_phase_fin_cons. destruct (join_try c w lowest e) as [burst|] eqn:Ej.
    + left. destruct (live_fifo_fin fuel c w lf burst count ps out) as (k & Hk).
      exists [], e, fevs, 0%nat, lowest, burst, k. split; [reflexivity|]. split; [reflexivity|].
      split; [exact Ej|]. cbn [app]. exact Hk.
    + cbv zeta. set (lowest' := if (lowest <=? bnum (eblk e)) && matches_new (estep e) then hub_lowest (w_hub w) else lowest).
      destruct (chain_fin_spec c lf e) as [[Hcf Hun]|(n & Hcf & Hun)]; rewrite Hcf.
      * (* dropped by the filter *)
        specialize (IH w lf lowest' count ps out).
        destruct IH as [(pre & e1 & rest & m & lowest1 & burst & k & Ef & Hns & Hj & Hok)|[[Hns Hr]|[Hs Hr]]].
        -- left. exists (e :: pre), e1, rest, m, lowest1, burst, k.
           split; [rewrite Ef; reflexivity|]. split; [rewrite Hun; exact Hns|]. split; [exact Hj|]. cbn [app]. rewrite Hun. exact Hok.
        -- right. left. rewrite Hun. split; assumption.
        -- right. right. rewrite Hun. split; assumption.
      * destruct (Joining.chain c e) as [deliver stop] eqn:Ec.
        assert (Hst : stops c e = stop) by (unfold stops; rewrite Ec; reflexivity).
        assert (Hd : fst (Joining.chain c e) = deliver) by (rewrite Ec; reflexivity).
        destruct deliver.
        -- destruct (pauses_world c (count + 1) ps w) as [m1 Em1].
           destruct (apply_pauses c (count + 1) ps w) as [[ps' w'] evs']. cbn [fst snd] in Em1. subst w'.
           destruct stop.
           ++ right. right. rewrite Hun. cbn [upto_stop]. rewrite Hst, Hd. cbn [fst snd]. split; reflexivity.
           ++ specialize (IH (world_after c m1 w) (Some n) lowest' (count + 1) ps' (out ++ [e])).
              destruct IH as [(pre & e1 & rest & m & lowest1 & burst & k & Ef & Hns & Hj & Hok)|[[Hns Hr]|[Hs Hr]]].
              ** left. exists (e :: pre), e1, rest, (m1 + m)%nat, lowest1, burst, k.
                 rewrite wafter_add in Hj, Hok. split; [rewrite Ef; reflexivity|]. split.
                 { rewrite Hun. cbn [upto_stop]. rewrite Hst. cbn [snd]. exact Hns. }
                 split; [exact Hj|]. cbn [app]. rewrite Hun. apply live_ok_deliver; [exact Ec | exact Hok].
              ** right. left. rewrite Hun. split.
                 { cbn [upto_stop]. rewrite Hst. cbn [snd]. exact Hns. }
                 rewrite Hr. unfold delivered. cbn [filter]. rewrite Hd, <- app_assoc. reflexivity.
              ** right. right. rewrite Hun. split.
                 { cbn [upto_stop]. rewrite Hst. cbn [snd]. exact Hs. }
                 rewrite Hr. cbn [upto_stop]. rewrite Hst, Hd. cbn [fst]. rewrite <- app_assoc. reflexivity.
        -- destruct stop.
           ++ right. right. rewrite Hun. cbn [upto_stop]. rewrite Hst, Hd. cbn [fst snd]. split; [reflexivity | rewrite app_nil_r; reflexivity].
           ++ specialize (IH w (Some n) lowest' count ps out).
              destruct IH as [(pre & e1 & rest & m & lowest1 & burst & k & Ef & Hns & Hj & Hok)|[[Hns Hr]|[Hs Hr]]].
              ** left. exists (e :: pre), e1, rest, m, lowest1, burst, k.
                 split; [rewrite Ef; reflexivity|]. split.
                 { rewrite Hun. cbn [upto_stop]. rewrite Hst. cbn [snd]. exact Hns. }
                 split; [exact Hj|]. cbn [app]. rewrite Hun. apply live_ok_skip; [exact Ec | exact Hok].
              ** right. left. rewrite Hun. split.
                 { cbn [upto_stop]. rewrite Hst. cbn [snd]. exact Hns. }
                 rewrite Hr. unfold delivered. cbn [filter]. rewrite Hd. reflexivity.
              ** right. right. rewrite Hun. split.
                 { cbn [upto_stop]. rewrite Hst. cbn [snd]. exact Hs. }
                 rewrite Hr. cbn [upto_stop]. rewrite Hst, Hd. cbn [fst app]. reflexivity.
Qed.

(* ------------------------------------------------------------------ Stream.Run *)

Lemma stream_run_unfold c w ps merged_end merged forked :
  stream_run c w ps merged_end merged forked =
  if run_rejected c w then ([], JInvalidArg) else
  let fuel := (40 * (length (w_rest w) + length merged + 20))%nat in
  match live_try c (w_hub w) (run_start c w) with
  | BOk burst => if j_filter c =? 1 then live_phase_fin fuel c w (start_mem c) burst 0 ps [] else live_phase fuel c w burst 0 ps []
  | BFuel | BPanic => ([], JFuel)
  | BErr => if j_filter c =? 1
            then file_phase_fin fuel c w (start_mem c) (hub_lowest (w_hub w))
                   (fst (run_files c (run_start c w) merged_end merged forked))
                   (snd (run_files c (run_start c w) merged_end merged forked)) 0 ps []
            else file_phase fuel c w (hub_lowest (w_hub w))
                   (fst (run_files c (run_start c w) merged_end merged forked))
                   (snd (run_files c (run_start c w) merged_end merged forked)) 0 ps []
  end.
Proof.
  unfold stream_run, run_rejected, run_files, run_start. cbv zeta.
  destruct (negb (j_stop c =? 0) && (j_stop c <? _)); [reflexivity|]. cbn [orb].
  destruct ((j_filter c =? 1) && _); [reflexivity|].
  destruct (live_try c (w_hub w) _); try reflexivity.
  destruct (j_mode c =? 0); [reflexivity|].
  destruct (j_cursor c) as [cu|]; [|reflexivity].
  destruct (j_mode c =? 1).
  - destruct (from_cursor_run merged forked cu _ (j_bundle c)) as [fevs r]. reflexivity.
  - destruct (through_cursor_run merged forked _ cu _ (j_bundle c)) as [fevs r]. reflexivity.
Qed.

Lemma c07_run_shapes_proof : C07_run_shapes.
Proof.
  intros c w ps merged_end merged forked res start fevs fend.
  unfold res. rewrite stream_run_unfold. fold start. fold fevs. fold fend.
  destruct (run_rejected c w); [left; split; reflexivity|]. right. split; [reflexivity|]. cbv zeta.
  unfold seen.
  destruct (live_try c (w_hub w) start) as [burst| | |] eqn:El.
  - left. destruct (j_filter c =? 1).
    + match goal with |- context [live_phase_fin ?f _ _ _ _ _ _ _] => destruct (live_fifo_fin f c w (start_mem c) burst 0 ps []) as (k & Hk) end.
      exists burst, k. split; [reflexivity|]. apply raw_out_live. exact Hk.
    + match goal with |- context [live_phase ?f _ _ _ _ _ _] => destruct (live_fifo f c w burst 0 ps []) as (k & Hk) end.
      exists burst, k. split; [reflexivity|]. apply raw_out_live. exact Hk.
  - right. right. split; [reflexivity|]. destruct (j_filter c =? 1).
    + match goal with |- context [file_phase_fin ?f _ _ _ ?lo _ _ _ _ _] => pose proof (file_shapes_fin f c fend fevs w (start_mem c) lo 0 ps []) as H end.
      destruct H as [(pre & e & rest & m & lowest & burst & k & Ef & Hns & Hj & Hok)|[[Hns Hr]|[Hs Hr]]].
      * left. exists pre, e, rest, m, lowest, burst, k. split; [exact Ef|]. split; [exact Hns|]. split; [exact Hj|].
        apply raw_out_live. exact Hok.
      * right. left. split; [exact Hns | exact Hr].
      * right. right. split; [exact Hs | exact Hr].
    + match goal with |- context [file_phase ?f _ _ ?lo _ _ _ _ _] => pose proof (file_shapes f c fend fevs w lo 0 ps []) as H end.
      destruct H as [(pre & e & rest & m & lowest & burst & k & Ef & Hns & Hj & Hok)|[[Hns Hr]|[Hs Hr]]].
      * left. exists pre, e, rest, m, lowest, burst, k. split; [exact Ef|]. split; [exact Hns|]. split; [exact Hj|].
        apply raw_out_live. exact Hok.
      * right. left. split; [exact Hns | exact Hr].
      * right. right. split; [exact Hs | exact Hr].
  - right. left. split; [right; reflexivity | reflexivity].
  - right. left. split; [left; reflexivity | reflexivity].
Qed.

(* the stateless filters: the chain sees the whole raw sequence *)
Lemma seen_stateless c X : j_filter c <> 1 -> seen c X = X.
Proof. intros H. unfold seen. apply N.eqb_neq in H. rewrite H. reflexivity. Qed.

Lemma seen_final c X : j_filter c = 1 -> seen c X = undup c (start_mem c) X.
Proof. intros H. unfold seen. rewrite H. reflexivity. Qed.

Lemma start_mem_num c : j_mode c = 0 -> start_mem c = None.
Proof. intros H. unfold start_mem. rewrite H. reflexivity. Qed.

Lemma start_mem_cursor c cu : j_mode c = 1 -> j_cursor c = Some cu -> start_mem c = Some (rn (cu_blk cu)).
Proof. intros H1 H2. unfold start_mem. rewrite H1, H2. reflexivity. Qed.
