(* The shape of a run of stream_run (Spec/C07_Shapes_Spec.v): pure reasoning on Model/Joining.v, no hypothesis on the
   world, the filter or the stop block. *)
From BV Require Import Base.Prelude Model.Block Model.ForkDB Model.Forkable Model.ForkableLookups
  Model.Burst Model.Hub Model.CursorResolver Model.Joining
  Spec.C07_Spec Spec.C07_Compose_Spec Spec.C07_Shapes_Spec
  Proofs.C07_File Proofs.C07_Live.
Local Open Scope N_scope.

Lemma wafter_add c a b w : world_after c b (world_after c a w) = world_after c (a + b) w.
Proof. unfold world_after. rewrite push_n_add. reflexivity. Qed.

Lemma pauses_world c count ps w : exists m, snd (fst (apply_pauses c count ps w)) = world_after c m w.
Proof. destruct (apply_pauses_push c count ps w) as (m & E & _). exists m. symmetry. exact E. Qed.

Lemma raw_out_live c X res P : live_ok c X [] res P -> raw_out c X res P.
Proof. unfold live_ok, raw_out. cbn [app]. auto. Qed.

Lemma upto_stop_app c : forall l1 l2, snd (upto_stop c l1) = false ->
  upto_stop c (l1 ++ l2) = (delivered c l1 ++ fst (upto_stop c l2), snd (upto_stop c l2)).
Proof.
  induction l1 as [|e l1 IH]; intros l2 H.
  - cbn [app]. unfold delivered. cbn [filter app]. destruct (upto_stop c l2); reflexivity.
  - cbn [upto_stop app] in *. destruct (stops c e); [discriminate|]. cbn [snd] in H.
    rewrite (IH l2 H). cbn [fst snd]. unfold delivered. cbn [filter].
    destruct (fst (Joining.chain c e)); reflexivity.
Qed.

(* ------------------------------------------------------------------ the file phase *)

Definition file_shape (c : jcfg) (w : world) (fevs : list event) (fend : jerr) (out : list event)
           (res : list event * jerr) : Prop :=
  (exists pre e rest m lowest burst k,
     fevs = pre ++ e :: rest /\ snd (upto_stop c pre) = false /\
     join_try c (world_after c m w) lowest e = Some burst /\
     live_ok c (pre ++ burst ++ pushed c k (world_after c m w)) out res
             (w_rest (world_after c k (world_after c m w)) = [])) \/
  (snd (upto_stop c fevs) = false /\ res = (out ++ delivered c fevs, fend)) \/
  (snd (upto_stop c fevs) = true /\ res = (out ++ fst (upto_stop c fevs), JStop)).

Lemma file_shapes fuel c fend : forall fevs w lowest count ps out,
  file_shape c w fevs fend out (file_phase fuel c w lowest fevs fend count ps out).
Proof.
  induction fevs as [|e fevs IH]; intros w lowest count ps out.
  - right. left. cbn [file_phase upto_stop snd]. split; [reflexivity|]. unfold delivered. cbn [filter]. rewrite app_nil_r. reflexivity.
  - rewrite file_phase_cons. destruct (join_try c w lowest e) as [burst|] eqn:Ej.
    + left. destruct (live_fifo fuel c w burst count ps out) as (k & Hk).
      exists [], e, fevs, 0%nat, lowest, burst, k. split; [reflexivity|]. split; [reflexivity|].
      split; [exact Ej|]. cbn [app]. exact Hk.
    + cbv zeta. destruct (Joining.chain c e) as [deliver stop] eqn:Ec.
      assert (Hst : stops c e = stop) by (unfold stops; rewrite Ec; reflexivity).
      assert (Hd : fst (Joining.chain c e) = deliver) by (rewrite Ec; reflexivity).
      destruct deliver.
      * destruct (pauses_world c (count + 1) ps w) as [m1 Em1].
        destruct (apply_pauses c (count + 1) ps w) as [[ps' w'] evs']. cbn [fst snd] in Em1. subst w'.
        destruct stop.
        -- right. right. cbn [upto_stop]. rewrite Hst, Hd. cbn [fst snd]. split; reflexivity.
        -- specialize (IH (world_after c m1 w)
                         (if (lowest <=? bnum (eblk e)) && matches_new (estep e) then hub_lowest (w_hub w) else lowest)
                         (count + 1) ps' (out ++ [e])).
           destruct IH as [(pre & e1 & rest & m & lowest1 & burst & k & Ef & Hns & Hj & Hok)|[[Hns Hr]|[Hs Hr]]].
           ++ left. exists (e :: pre), e1, rest, (m1 + m)%nat, lowest1, burst, k.
              rewrite wafter_add in Hj, Hok. split; [rewrite Ef; reflexivity|]. split.
              { cbn [upto_stop]. rewrite Hst. cbn [snd]. exact Hns. }
              split; [exact Hj|]. cbn [app]. apply live_ok_deliver; [exact Ec | exact Hok].
           ++ right. left. split.
              { cbn [upto_stop]. rewrite Hst. cbn [snd]. exact Hns. }
              rewrite Hr. unfold delivered. cbn [filter]. rewrite Hd, <- app_assoc. reflexivity.
           ++ right. right. split.
              { cbn [upto_stop]. rewrite Hst. cbn [snd]. exact Hs. }
              rewrite Hr. cbn [upto_stop]. rewrite Hst, Hd. cbn [fst]. rewrite <- app_assoc. reflexivity.
      * destruct stop.
        -- right. right. cbn [upto_stop]. rewrite Hst, Hd. cbn [fst snd]. split; [reflexivity | rewrite app_nil_r; reflexivity].
        -- specialize (IH w (if (lowest <=? bnum (eblk e)) && matches_new (estep e) then hub_lowest (w_hub w) else lowest)
                         count ps out).
           destruct IH as [(pre & e1 & rest & m & lowest1 & burst & k & Ef & Hns & Hj & Hok)|[[Hns Hr]|[Hs Hr]]].
           ++ left. exists (e :: pre), e1, rest, m, lowest1, burst, k.
              split; [rewrite Ef; reflexivity|]. split.
              { cbn [upto_stop]. rewrite Hst. cbn [snd]. exact Hns. }
              split; [exact Hj|]. cbn [app]. apply live_ok_skip; [exact Ec | exact Hok].
           ++ right. left. split.
              { cbn [upto_stop]. rewrite Hst. cbn [snd]. exact Hns. }
              rewrite Hr. unfold delivered. cbn [filter]. rewrite Hd. reflexivity.
           ++ right. right. split.
              { cbn [upto_stop]. rewrite Hst. cbn [snd]. exact Hs. }
              rewrite Hr. cbn [upto_stop]. rewrite Hst, Hd. cbn [fst app]. reflexivity.
Qed.

(* ------------------------------------------------------------------ Stream.Run *)

Lemma stream_run_unfold c w ps merged_end merged forked :
  stream_run c w ps merged_end merged forked =
  if run_rejected c w then ([], JInvalidArg) else
  let fuel := (40 * (length (w_rest w) + length merged + 20))%nat in
  match live_try c (w_hub w) (run_start c w) with
  | BOk burst => live_phase fuel c w burst 0 ps []
  | BFuel | BPanic => ([], JFuel)
  | BErr => file_phase fuel c w (hub_lowest (w_hub w))
              (fst (run_files c (run_start c w) merged_end merged forked))
              (snd (run_files c (run_start c w) merged_end merged forked)) 0 ps []
  end.
Proof.
  unfold stream_run, run_rejected, run_files, run_start. cbv zeta.
  destruct (negb (j_stop c =? 0) && (j_stop c <? _)); [reflexivity|]. cbn [orb].
  destruct ((j_filter c =? 1) && _); [reflexivity|].
  destruct (live_try c (w_hub w) _); try reflexivity.
  destruct (j_mode c =? 0); [reflexivity|].
  destruct (j_cursor c) as [cu|]; [|reflexivity].
  destruct (j_mode c =? 1).
  - destruct (from_cursor_run merged forked cu _ (j_bundle c)) as [fevs r]. reflexivity.
  - destruct (through_cursor_run merged forked _ cu _ (j_bundle c)) as [fevs r]. reflexivity.
Qed.

Lemma c07_run_shapes_proof : C07_run_shapes.
Proof.
  intros c w ps merged_end merged forked res start fevs fend.
  unfold res. rewrite stream_run_unfold. fold start. fold fevs. fold fend.
  destruct (run_rejected c w); [left; split; reflexivity|]. right. split; [reflexivity|]. cbv zeta.
  destruct (live_try c (w_hub w) start) as [burst| | |] eqn:El.
  - left. match goal with |- context [live_phase ?f _ _ _ _ _ _] => destruct (live_fifo f c w burst 0 ps []) as (k & Hk) end.
    exists burst, k. split; [reflexivity|]. apply raw_out_live. exact Hk.
  - right. right. split; [reflexivity|].
    match goal with |- context [file_phase ?f _ _ ?lo _ _ _ _ _] => pose proof (file_shapes f c fend fevs w lo 0 ps []) as H end.
    destruct H as [(pre & e & rest & m & lowest & burst & k & Ef & Hns & Hj & Hok)|[[Hns Hr]|[Hs Hr]]].
    + left. exists pre, e, rest, m, lowest, burst, k. split; [exact Ef|]. split; [exact Hns|]. split; [exact Hj|].
      apply raw_out_live. exact Hok.
    + right. left. split; [exact Hns | exact Hr].
    + right. right. split; [exact Hs | exact Hr].
  - right. left. split; [right; reflexivity | reflexivity].
  - right. left. split; [left; reflexivity | reflexivity].
Qed.
