(* The merged blocks a file source reads from `start` up to the bundle of a stop block (file_delivery), for every
   start mode: a piece of the chain that begins at or below start; all merged blocks from start when the file source
   ends waiting for the next file. *)
From BV Require Import Base.Prelude Model.Block Model.CursorResolver Model.Joining
  Spec.C06_Spec Spec.C07_Compose_Spec
  Proofs.C06_Lists Proofs.C06_Proofs Proofs.C07_Compose.
Local Open Scope N_scope.

Section Delivery.
  Variable c : jcfg.
  Variable canon : list block.
  Variables start merged_end : N.
  Hypothesis Hchain : chain_ok canon.
  Let merged := filter (fun b => bnum b <? merged_end) canon.
  Let stopf := if j_stop c =? 0 then file_bound else j_stop c.
  Let D := file_delivery merged start stopf (j_bundle c).

  Lemma dlv_ok : chain_ok D.
  Proof.
    destruct (c06_delivery_segment_proof merged start stopf (j_bundle c) (merged_chain_ok canon merged_end Hchain)) as [_ H]. exact H.
  Qed.

  Lemma dlv_in b : In b D <-> In b merged /\ start <= bnum b < (stopf / j_bundle c + 1) * j_bundle c.
  Proof. unfold D, file_delivery. rewrite filter_In, andb_true_iff, N.leb_le, N.ltb_lt. reflexivity. Qed.

  Lemma dlv_bot : (exists b, In b canon /\ bnum b = start) -> forall z r, D = z :: r -> bnum z <= start.
  Proof.
    intros (b0 & Hb0 & Hnb0) z r Ez.
    assert (Hz : In z D) by (rewrite Ez; left; reflexivity). apply dlv_in in Hz as (Hzm & Hz1 & Hz2).
    destruct (N.ltb_spec (bnum b0) merged_end) as [Hlt|Hge].
    - assert (Hb0D : In b0 D).
      { apply dlv_in. split; [unfold merged; apply filter_In; split; [exact Hb0 | apply N.ltb_lt; exact Hlt] | lia]. }
      pose proof (chain_ok_asc D dlv_ok) as Hasc. rewrite Ez in Hasc, Hb0D. cbn [asc] in Hasc. destruct Hasc as [Hall _].
      destruct Hb0D as [<-|Hb0r]; [lia|]. rewrite Forall_forall in Hall. specialize (Hall b0 Hb0r). lia.
    - unfold merged in Hzm. apply filter_In in Hzm as [_ Hz]. apply N.ltb_lt in Hz. lia.
  Qed.

  Lemma dlv_all : 0 < j_bundle c -> Forall (fun b => bnum b < file_bound) merged ->
    (if negb (j_stop c =? 0) && ((j_stop c / j_bundle c + 1) * j_bundle c <=? merged_end) then JStop else JNil) = JNil ->
    D = from_num start merged.
  Proof.
    intros Hbundle Hbound. unfold D, stopf. destruct (j_stop c =? 0) eqn:E0; cbn [negb andb].
    - intros _. apply delivery_all; assumption.
    - destruct (N.leb_spec ((j_stop c / j_bundle c + 1) * j_bundle c) merged_end) as [Hle|Hgt]; [discriminate|]. intros _.
      unfold file_delivery, from_num. apply filter_ext_in. intros b Hb.
      unfold merged in Hb. apply filter_In in Hb as [_ Hb]. apply N.ltb_lt in Hb.
      replace (bnum b <? (j_stop c / j_bundle c + 1) * j_bundle c) with true; [apply andb_true_r|].
      symmetry. apply N.ltb_lt. lia.
  Qed.
End Delivery.
