(* More about `disc` (Proofs/C07_Raw.v: every beginning of a raw sequence leaves a good consumer stack): the lower part
   of a good stack is good; across an answer that consists of Undo events followed by events that are not Undo
   (blocksFromCursor: the cursor's branch undone down to the junction, then the chain from the junction to the head) every
   beginning leaves a lower part of the stack before or of the stack after - so `disc` follows from the two end states. *)
From Coq Require Import Sorted.
From BV Require Import Base.Prelude Model.Block Model.ForkDB Model.Forkable Model.ForkableLookups Model.Burst
  Spec.Consumer Check.Burst_Check Check.C07_Check Spec.C06_Spec Spec.C07_Spec
  Proofs.Fk.LoopFacts Proofs.Hub.ConsFacts Proofs.Hub.LinkedRuns Proofs.Hub.C09_History
  Proofs.C07_ComposeStack Proofs.C07_Raw.
Local Open Scope N_scope.

Lemma list_eq_nil_or_cons {A} (l : list A) : l = [] \/ exists x r, l = x :: r.
Proof. destruct l as [|x r]; [left; reflexivity | right; exists x, r; reflexivity]. Qed.

Lemma sfold_undos : forall us J0 J', Forall (fun e => estep e = SUndo) us -> sfold J0 us = Some J' -> exists M, J0 = M ++ J'.
Proof.
  induction us as [|e us IH]; intros J0 J' Hu H.
  - injection H as <-. exists []. reflexivity.
  - cbn [sfold] in H. destruct (sapply J0 e) as [J1|] eqn:E1; [|discriminate].
    destruct (IH J1 J' (Forall_inv_tail Hu) H) as [M HM].
    unfold sapply in E1. rewrite (Forall_inv Hu) in E1. destruct J0 as [|top rest].
    + injection E1 as <-. exists M. exact HM.
    + destruct (bid (eblk e) =? bid top); [|discriminate]. injection E1 as <-. exists (top :: M). rewrite HM. reflexivity.
Qed.

Lemma sfold_noundo : forall ns J J', Forall (fun e => matches_undo (estep e) = false) ns -> sfold J ns = Some J' ->
  exists M, J' = M ++ J.
Proof.
  induction ns as [|e ns IH]; intros J J' Hn H.
  - injection H as <-. exists []. reflexivity.
  - cbn [sfold] in H. destruct (sapply J e) as [J1|] eqn:E1; [|discriminate].
    destruct (IH J1 J' (Forall_inv_tail Hn) H) as [M HM].
    pose proof (Forall_inv Hn) as He. cbn beta in He.
    unfold sapply in E1. destruct (estep e); try discriminate.
    + destruct J as [|top rest].
      * injection E1 as <-. exists (M ++ [eblk e]). rewrite HM, app_nil_r. reflexivity.
      * destruct (bparent (eblk e) =? bid top); [|discriminate]. injection E1 as <-. exists (M ++ [eblk e]).
        rewrite HM, <- app_assoc. reflexivity.
    + injection E1 as <-. exists M. exact HM.
    + injection E1 as <-. exists M. exact HM.
    + destruct J as [|top rest].
      * injection E1 as <-. exists (M ++ [eblk e]). rewrite HM, app_nil_r. reflexivity.
      * destruct (bparent (eblk e) =? bid top); [|discriminate]. injection E1 as <-. exists (M ++ [eblk e]).
        rewrite HM, <- app_assoc. reflexivity.
Qed.

Section DiscMore.
  Variable U : list block.
  Hypothesis U_id : forall b, In b U -> bid b <> 0 /\ bid b <> bparent b.
  Hypothesis U_uniq : forall x y, In x U -> In y U -> bid x = bid y -> x = y.
  Hypothesis U_up : forall x y, In x U -> In y U -> bparent x = bid y -> bnum y < bnum x.
  Variable start : N.

  Lemma chainU_lower M J : chainU U (M ++ J) -> chainU U J.
  Proof.
    intros [HU [x Hl]]. split; [apply Forall_app in HU; exact (proj2 HU)|].
    exists x. rewrite rev_app_distr in Hl. eapply linked_prefix. exact Hl.
  Qed.

  (* the lower part of a good stack is good *)
  Lemma good_lower M J : Good U start (M ++ J) -> Good U start J.
  Proof.
    intros HG. destruct J as [|j0 J0]; [left; reflexivity|]. right.
    destruct HG as [E|[V (HVne & HcV & Halt)]]; [destruct M; discriminate|].
    destruct Halt as [(Hne & Hhd & HcJ & J1 & z & EJ & Hz)|(B & EV & HB & HBlt)].
    - exists (j0 :: J0). apply stand_rel. split; [discriminate|]. split; [exact (chainU_lower M _ HcJ)|].
      destruct (exists_last (l := j0 :: J0)) as (J1' & z' & Ez'); [discriminate|].
      exists J1', z'. split; [exact Ez'|].
      rewrite Ez', app_assoc in EJ. apply app_inj_tail in EJ as [_ ->]. exact Hz.
    - exists ((j0 :: J0) ++ B). split; [discriminate|]. split.
      + rewrite EV, <- app_assoc in HcV. exact (chainU_lower M _ HcV).
      + right. exists B. auto.
  Qed.

  (* across Undo events then events that are not Undo *)
  Lemma disc_undo_push J0 us ns F :
    Good U start J0 -> Good U start F ->
    Forall (fun e => estep e = SUndo) us -> Forall (fun e => matches_undo (estep e) = false) ns ->
    sfold J0 (us ++ ns) = Some F -> disc U start J0 (us ++ ns).
  Proof.
    intros HG0 HGF Hu Hn HF X1 X2 E.
    destruct (sfold_prefix X1 X2 J0 F) as [J HJ]; [rewrite <- E; exact HF|].
    exists J. split; [exact HJ|].
    symmetry in E. apply app_eq_app in E as [l [[E1 E2]|[E1 E2]]].
    - (* X1 = us ++ l, ns = l ++ X2 *)
      rewrite E1 in HJ. rewrite E2, app_assoc, sfold_app, HJ in HF.
      rewrite E2 in Hn. apply Forall_app in Hn as [_ Hn2].
      destruct (sfold_noundo X2 J F Hn2 HF) as [M HM]. rewrite HM in HGF. exact (good_lower M J HGF).
    - (* us = X1 ++ l *)
      rewrite E1 in Hu. apply Forall_app in Hu as [Hu1 _].
      destruct (sfold_undos X1 J0 J Hu1 HJ) as [M HM]. rewrite HM in HG0. exact (good_lower M J HG0).
  Qed.

  Lemma disc_suffix J0 A B J1 : disc U start J0 (A ++ B) -> sfold J0 A = Some J1 -> disc U start J1 B.
  Proof.
    intros Hd HA X1 X2 E. destruct (Hd (A ++ X1) X2) as (J & HJ & HG); [rewrite E, app_assoc; reflexivity|].
    exists J. split; [|exact HG]. rewrite sfold_app, HA in HJ. exact HJ.
  Qed.
End DiscMore.

(* ------------------------------------------------------------------ the answer of blocksFromCursor: Undo events, then none *)

Lemma from_cursor_fast_noundo s hd sg c : Forall (fun e => matches_undo (estep e) = false) (from_cursor_fast s hd sg c).
Proof.
  unfold from_cursor_fast. apply Forall_forall. intros e He. apply in_flat_map in He as (x & _ & He).
  destruct (snum x <=? rn (cu_lib c)); [destruct He|].
  destruct (snum x <=? rn (libref (db s))).
  - destruct He as [<-|[]]. unfold wrap. cbn [estep].
    destruct ((rn (cu_blk c) <? snum x) || (matches_undo (cu_step c) && (snum x =? rn (cu_blk c)))); reflexivity.
  - destruct ((rn (cu_blk c) <? snum x) || (matches_undo (cu_step c) && (snum x =? rn (cu_blk c)))); [|destruct He].
    destruct He as [<-|[]]. reflexivity.
Qed.

Lemma from_cursor_loop_split : forall fuel s hd sg c evs, from_cursor_loop fuel s hd sg c = BOk evs ->
  exists us ns, evs = us ++ ns /\ Forall (fun e => estep e = SUndo) us /\ Forall (fun e => matches_undo (estep e) = false) ns.
Proof.
  induction fuel as [|f IH]; intros s hd sg c evs H; [discriminate|].
  cbn [from_cursor_loop] in H.
  destruct (block_in (ri (cu_blk c)) sg && block_in (ri (cu_lib c)) sg).
  - injection H as <-. exists [], (from_cursor_fast s hd sg c). split; [reflexivity|]. split; [constructor | apply from_cursor_fast_noundo].
  - destruct (undo_walk (fuel_of (db s)) (db s) sg c (ri (cu_blk c)) []) as [[[undos j]|]|]; try discriminate.
    destruct (block_for_id (db s) j) as [jb|]; [|discriminate].
    destruct (from_cursor_loop f s hd sg (mkCursor SNew (seg_ref jb) (bref hd) (cu_lib c))) as [evs'| | |] eqn:E; try discriminate.
    injection H as <-. destruct (IH _ _ _ _ _ E) as (us & ns & -> & Hu & Hn).
    exists (map (fun u => wrap u SUndo (bref hd) (cu_lib c) (Some (seg_ref jb))) undos ++ us), ns.
    split; [rewrite app_assoc; reflexivity|]. split; [|exact Hn].
    apply Forall_app. split; [|exact Hu]. apply Forall_forall. intros e He. apply in_map_iff in He as (u & <- & _). reflexivity.
Qed.

Lemma from_cursor_split s c evs : blocks_from_cursor s c = BOk evs ->
  exists us ns, evs = us ++ ns /\ Forall (fun e => estep e = SUndo) us /\ Forall (fun e => matches_undo (estep e) = false) ns.
Proof.
  unfold blocks_from_cursor. destruct (negb (has_lib (db s))); [discriminate|].
  destruct (last_sent s) as [hd|]; [|discriminate].
  destruct (complete_segment (db s) (bref hd)) as [[sg [|]]|]; try discriminate.
  2:{ destruct sg; discriminate. }
  destruct sg as [|s0 sg0]; [discriminate|].
  destruct (rn (cu_lib c) <? snum s0); [discriminate|]. apply from_cursor_loop_split.
Qed.
