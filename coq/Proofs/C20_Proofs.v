(* C20: proofs of the sequential statements of Spec/C20_Spec.v *)
From BV Require Import Base.Prelude Proofs.PreludeFacts Model.BlockServer Spec.C20_Spec
  Proofs.C20_Window Proofs.C20_Seq.
Local Open Scope Z_scope.
Arguments chan_base : simpl never.

(* ------------------------------------------------------------------ window *)

Lemma window_fold ops : forall sv,
  sv_ok sv -> sv_buf sv <> None ->
  window (fold_left step_fn ops sv) = fold_left (win_step (sv_size sv)) (pushes_of ops) (window sv).
Proof.
  induction ops as [|o ops IH]; intros sv Hok Hb; simpl; auto.
  assert (Hok' := step_fn_ok sv o Hok).
  assert (Hb' : sv_buf (step_fn sv o) <> None).
  { intros E. apply Hb. now apply (step_fn_buffered sv o Hok). }
  rewrite (IH _ Hok' Hb'), (step_fn_size sv o Hok), (step_fn_window sv o Hok).
  destruct o; simpl; auto.
  destruct (sv_buf sv); [reflexivity|congruence].
Qed.

Lemma window_final size ops : window (final true size ops) = spec_window size (pushes_of ops).
Proof.
  rewrite final_fold, window_fold.
  - reflexivity.
  - apply init_ok.
  - simpl. discriminate.
Qed.

Lemma final_size buffered size ops : sv_size (final buffered size ops) = size.
Proof.
  rewrite final_fold.
  assert (H : forall sv, sv_ok sv -> sv_size (fold_left step_fn ops sv) = sv_size sv).
  { induction ops as [|o ops IH]; intros sv Hok; simpl; auto.
    rewrite IH by (now apply step_fn_ok). now apply step_fn_size. }
  rewrite H by apply init_ok. reflexivity.
Qed.

Lemma final_buffered buffered size ops :
  sv_buf (final buffered size ops) = None <-> buffered = false.
Proof.
  rewrite final_fold.
  assert (H : forall sv, sv_ok sv -> (sv_buf (fold_left step_fn ops sv) = None <-> sv_buf sv = None)).
  { induction ops as [|o ops IH]; intros sv Hok; simpl; [tauto|].
    rewrite IH by (now apply step_fn_ok). now apply step_fn_buffered. }
  rewrite H by apply init_ok. simpl. destruct buffered; split; congruence.
Qed.

Lemma ready_final size ops :
  ready (final true size ops) = (Z.of_nat (distinct (pushes_of ops)) >=? size).
Proof.
  pose proof (window_final size ops) as Hw.
  pose proof (final_size true size ops) as Hs.
  pose proof (spec_window_inv size (pushes_of ops)) as [_ _ Hlen _].
  unfold ready, window in *.
  destruct (sv_buf (final true size ops)) as [b|] eqn:Eb.
  - rewrite Hs. unfold buf_len, zlen. unfold buf_all in Hw. rewrite Hw, Hlen.
    destruct (Z.of_nat (distinct (pushes_of ops)) >=? size) eqn:E; lia.
  - apply final_buffered in Eb. discriminate.
Qed.

Theorem c20_window_proof : C20_window.
Proof.
  intros size ops sv P.
  pose proof (window_final size ops) as Hw. fold sv P in Hw.
  pose proof (spec_window_inv size P) as [Hnd Hincl Hlen Hfull].
  split; [exact Hw|]. rewrite Hw.
  split; [exact Hnd|].
  split; [unfold zlen; rewrite Hlen; lia|].
  split; [apply spec_window_NoDup_pushes|].
  split.
  { intros Hs P' x HP. rewrite HP. now apply spec_window_newest. }
  split; [apply ready_final|].
  intros ops' Hr. unfold sv in Hr. rewrite ready_final in *. rewrite pushes_of_app.
  pose proof (distinct_app_le (pushes_of ops) (pushes_of ops')) as Hd.
  apply Z.geb_le. apply Z.geb_le in Hr. lia.
Qed.

Theorem c20_window_unbuffered_proof : C20_window_unbuffered.
Proof.
  intros size ops. unfold window, ready.
  assert (E : sv_buf (final false size ops) = None) by now apply final_buffered.
  now rewrite E.
Qed.

(* ------------------------------------------------------------------ totality *)

Theorem c20_total_proof : C20_total.
Proof.
  intros buffered size ops. unfold trace.
  destruct (run_fold ops (init_server buffered size) (init_ok buffered size)) as (_ & _ & Hl & Hf).
  split; [exact Hl|]. split; [exact Hf|].
  intros burst. destruct (subscribe_ok (final buffered size ops) burst (final_ok _ _ _)) as [Hs _].
  rewrite Hs. eauto.
Qed.

(* ------------------------------------------------------------------ delivery *)

Lemma qlen_view s : qlen s = N.of_nat (length (v_q (view s))).
Proof. reflexivity. Qed.

Lemma view_push_one x s :
  sub_ok s ->
  view (push_one x s) = if s_listed s then ref_step (s_cap s) (view s) (EvPush x) else view s.
Proof.
  intros [Hl Ho Hc Hn]. unfold push_one.
  destruct (s_listed s); simpl; auto.
  unfold sub_push_fn. rewrite Hc. fold (qlen s).
  destruct (s_closed s) eqn:Ecl; simpl.
  - destruct (N.eqb (qlen s) (s_cap s)); reflexivity.
  - destruct (N.eqb (qlen s) (s_cap s)) eqn:Ef.
    + apply N.eqb_eq in Ef.
      assert (E : N.ltb (qlen s) (s_cap s) = false) by (apply N.ltb_ge; lia).
      rewrite E. reflexivity.
    + apply N.eqb_neq in Ef.
      assert (E : N.ltb (qlen s) (s_cap s) = true) by (apply N.ltb_lt; lia).
      rewrite E. reflexivity.
Qed.

Lemma push_one_cap x s : s_cap (push_one x s) = s_cap s.
Proof. unfold push_one. destruct (_ && _); auto. apply sub_push_fn_cap. Qed.
Lemma push_one_listed x s : s_listed (push_one x s) = s_listed s.
Proof. unfold push_one. destruct (_ && _); auto. apply sub_push_fn_listed. Qed.

Lemma view_recv s : view (snd (sub_recv s)) = ref_step (s_cap s) (view s) EvCons.
Proof. unfold sub_recv, view. simpl. destruct (s_q s) eqn:E; simpl; rewrite ?E; reflexivity. Qed.
Lemma recv_cap s : s_cap (snd (sub_recv s)) = s_cap s.
Proof. unfold sub_recv. destruct (s_q s); reflexivity. Qed.
Lemma recv_listed s : s_listed (snd (sub_recv s)) = s_listed s.
Proof. unfold sub_recv. destruct (s_q s); reflexivity. Qed.

Lemma nth_error_ok sv k s : sv_ok sv -> nth_error (sv_subs sv) k = Some s -> sub_ok s.
Proof.
  intros [_ H] Hn. rewrite Forall_forall in H. apply H. eapply nth_error_In; eauto.
Qed.

Lemma nth_error_snoc_lt {A} (l : list A) a k x :
  nth_error l k = Some x -> nth_error (l ++ [a]) k = Some x.
Proof.
  intros H. rewrite nth_error_app1; auto. apply nth_error_Some. congruence.
Qed.

(* a subscription evolves as the reference behaviour on its own projection *)
Lemma evolve post : forall sv k s,
  sv_ok sv -> nth_error (sv_subs sv) k = Some s ->
  exists s', nth_error (sv_subs (fold_left step_fn post sv)) k = Some s' /\
             s_cap s' = s_cap s /\
             view s' = ref_sub (s_cap s) (view s) (proj k (s_listed s) post).
Proof.
  induction post as [|o post IH]; intros sv k s Hok Hn.
  - exists s. simpl. auto.
  - assert (Hok' := step_fn_ok sv o Hok).
    assert (Hsok := nth_error_ok sv k s Hok Hn).
    cbn [fold_left].
    pose proof (step_fn_subs sv o Hok) as Hsubs.
    destruct o as [x|b|c|k'|k'].
    + (* PushBlock *)
      assert (Hn' : nth_error (sv_subs (step_fn sv (OPush x))) k = Some (push_one x s)).
      { rewrite Hsubs, nth_error_map, Hn. reflexivity. }
      destruct (IH _ k _ Hok' Hn') as (s' & H1 & H2 & H3). exists s'.
      rewrite push_one_cap, push_one_listed, view_push_one in * by exact Hsok.
      split; [exact H1|]. split; [exact H2|]. rewrite H3. simpl.
      destruct (s_listed s); reflexivity.
    + assert (Hn' : nth_error (sv_subs (step_fn sv (OSubscribe b))) k = Some s).
      { rewrite Hsubs. now apply nth_error_snoc_lt. }
      destruct (IH _ k _ Hok' Hn') as (s' & H1 & H2 & H3). exists s'. auto.
    + assert (Hn' : nth_error (sv_subs (step_fn sv (OAttach c))) k = Some s).
      { rewrite Hsubs. now apply nth_error_snoc_lt. }
      destruct (IH _ k _ Hok' Hn') as (s' & H1 & H2 & H3). exists s'. auto.
    + (* unsubscribe *)
      assert (Hn' : nth_error (sv_subs (step_fn sv (OUnsubscribe k'))) k =
                    Some (if Nat.eqb k' k then set_listed false s else s)).
      { rewrite Hsubs, nth_error_upd_nth, Hn. destruct (Nat.eqb k' k); reflexivity. }
      destruct (IH _ k _ Hok' Hn') as (s' & H1 & H2 & H3). exists s'.
      split; [exact H1|]. simpl proj.
      destruct (Nat.eqb k' k); simpl in *.
      * rewrite andb_false_r. auto.
      * rewrite andb_true_r. auto.
    + (* one receive *)
      assert (Hn' : nth_error (sv_subs (step_fn sv (OConsume k'))) k =
                    Some (if Nat.eqb k' k then snd (sub_recv s) else s)).
      { rewrite Hsubs, nth_error_upd_nth, Hn. destruct (Nat.eqb k' k); reflexivity. }
      destruct (IH _ k _ Hok' Hn') as (s' & H1 & H2 & H3). exists s'.
      split; [exact H1|]. simpl proj.
      destruct (Nat.eqb k' k); simpl in *; auto.
      rewrite recv_cap, recv_listed, view_recv in *. auto.
Qed.

Theorem c20_delivery_proof : C20_delivery.
Proof.
  intros buffered size pre post cre B cap sv1 k Hcre.
  assert (Hok1 : sv_ok sv1) by apply final_ok.
  assert (Hfin : final buffered size (pre ++ cre :: post) = fold_left step_fn post (step_fn sv1 cre)).
  { rewrite final_app. reflexivity. }
  rewrite Hfin.
  assert (Hok2 := step_fn_ok sv1 cre Hok1).
  pose proof (step_fn_subs sv1 cre Hok1) as Hsubs.
  assert (Hn : exists s0, nth_error (sv_subs (step_fn sv1 cre)) k = Some s0 /\
                          s_cap s0 = cap /\ view s0 = mkView [] B false /\ s_listed s0 = true).
  { destruct cre as [x|b|c|k'|k']; simpl in Hcre; try discriminate; inversion Hcre; subst.
    - eexists. split.
      + rewrite Hsubs. unfold k. rewrite nth_error_app2, Nat.sub_diag by lia. reflexivity.
      + simpl. auto.
    - eexists. split.
      + rewrite Hsubs. unfold k. rewrite nth_error_app2, Nat.sub_diag by lia. reflexivity.
      + simpl. auto. }
  destruct Hn as (s0 & Hn & Hcap & Hview & Hlisted).
  destruct (evolve post _ k s0 Hok2 Hn) as (s & H1 & H2 & H3).
  exists s. rewrite Hcap, Hview, Hlisted in *.
  split; [exact H1|]. split; [exact H2|]. split; [exact H3|].
  assert (Hfok : sv_ok (fold_left step_fn post (step_fn sv1 cre))).
  { clear - Hok2. revert Hok2. generalize (step_fn sv1 cre). induction post as [|o post IH]; intros sv H; simpl; auto.
    apply IH. now apply step_fn_ok. }
  destruct (nth_error_ok _ k s Hfok H1) as [_ _ Hc Hnc].
  split; [now rewrite Hc|]. now rewrite Hc.
Qed.

(* ------------------------------------------------------------------ meaning of the reference *)

Lemma ref_sub_snoc cap v evs e : ref_sub cap v (evs ++ [e]) = ref_step cap (ref_sub cap v evs) e.
Proof. unfold ref_sub. now rewrite fold_left_app. Qed.

Lemma ev_pushes_app a b : ev_pushes (a ++ b) = ev_pushes a ++ ev_pushes b.
Proof. induction a as [|e a IH]; simpl; auto. destruct e; simpl; now rewrite ?IH. Qed.

Definition sent (v : sview) : list N := v_recv v ++ v_q v.

Record ref_inv (cap : N) (B : list N) (evs : list sev) (v : sview) : Prop := {
  ri_n : exists n, sent v = B ++ firstn n (ev_pushes evs) /\
                   (v_closed v = false -> n = length (ev_pushes evs)) /\
                   (v_closed v = true -> (n < length (ev_pushes evs))%nat);
  ri_len : (N.of_nat (length (v_q v)) <= cap)%N;
  ri_close : v_closed v = true ->
      exists evs1 x evs2, evs = evs1 ++ EvPush x :: evs2 /\
        let v1 := ref_sub cap (mkView [] B false) evs1 in
        v_closed v1 = false /\ N.of_nat (length (v_q v1)) = cap /\
        sent v1 = B ++ ev_pushes evs1 /\ sent v = sent v1
}.

Lemma ref_sub_inv cap B evs :
  (N.of_nat (length B) <= cap)%N -> ref_inv cap B evs (ref_sub cap (mkView [] B false) evs).
Proof.
  intros HB. induction evs as [|e evs IH] using rev_ind.
  - constructor; simpl.
    + exists 0%nat. unfold sent. simpl. rewrite app_nil_r.
      split; [reflexivity|]. split; [reflexivity|discriminate].
    + exact HB.
    + discriminate.
  - rewrite ref_sub_snoc. set (v := ref_sub cap (mkView [] B false) evs) in *.
    destruct IH as [(n & Hs & Hopen & Hcl) Hlen Hclose].
    destruct e as [x|].
    + (* a push *)
      assert (Hp : ev_pushes (evs ++ [EvPush x]) = ev_pushes evs ++ [x]) by apply ev_pushes_app.
      unfold ref_step. destruct (v_closed v) eqn:Ecl.
      * (* already closed: nothing changes *)
        constructor; rewrite ?Hp.
        -- exists n. specialize (Hcl eq_refl). rewrite app_length. simpl. split; [|split].
           ++ rewrite Hs. f_equal. rewrite firstn_app.
              replace (n - length (ev_pushes evs))%nat with 0%nat by lia.
              simpl. now rewrite app_nil_r.
           ++ congruence.
           ++ intros _. lia.
        -- exact Hlen.
        -- intros _. destruct (Hclose eq_refl) as (evs1 & y & evs2 & He & H1 & H2 & H3 & H4).
           exists evs1, y, (evs2 ++ [EvPush x]). split.
           ++ rewrite He, <- app_assoc. reflexivity.
           ++ cbv zeta. auto.
      * specialize (Hopen eq_refl). subst n. rewrite firstn_all in Hs.
        destruct (N.ltb (N.of_nat (length (v_q v))) cap) eqn:Ef.
        -- (* room: delivered *)
           apply N.ltb_lt in Ef. constructor; rewrite ?Hp; simpl.
           ++ exists (length (ev_pushes evs ++ [x])). split; [|split]; auto.
              ** unfold sent in *. simpl. rewrite firstn_all, app_assoc, Hs, <- app_assoc. reflexivity.
              ** discriminate.
           ++ rewrite app_length. simpl. lia.
           ++ discriminate.
        -- (* full: dropped and closed *)
           apply N.ltb_ge in Ef. constructor; rewrite ?Hp; simpl.
           ++ exists (length (ev_pushes evs)). rewrite app_length. simpl. split; [|split].
              ** unfold sent in *. simpl. rewrite Hs. f_equal. rewrite firstn_app, Nat.sub_diag.
                 simpl. now rewrite firstn_all, app_nil_r.
              ** discriminate.
              ** intros _. lia.
           ++ exact Hlen.
           ++ intros _. exists evs, x, []. split; [reflexivity|]. cbv zeta. fold v.
              split; [exact Ecl|]. split; [lia|]. split; [exact Hs|]. reflexivity.
    + (* one receive *)
      assert (Hp : ev_pushes (evs ++ [EvCons]) = ev_pushes evs)
        by (rewrite ev_pushes_app; apply app_nil_r).
      unfold ref_step. destruct (v_q v) as [|y q] eqn:Eq.
      * constructor; rewrite ?Hp.
        -- exists n. auto.
        -- rewrite Eq. exact Hlen.
        -- intros Hc. destruct (Hclose Hc) as (evs1 & x & evs2 & He & H1 & H2 & H3 & H4).
           exists evs1, x, (evs2 ++ [EvCons]). split.
           ++ rewrite He, <- app_assoc. reflexivity.
           ++ cbv zeta. auto.
      * assert (Hsent : sent (mkView (v_recv v ++ [y]) q (v_closed v)) = sent v).
        { unfold sent. simpl. rewrite Eq, <- app_assoc. reflexivity. }
        constructor; rewrite ?Hp; simpl.
        -- exists n. rewrite Hsent. auto.
        -- simpl in Hlen. lia.
        -- intros Hc. destruct (Hclose Hc) as (evs1 & x & evs2 & He & H1 & H2 & H3 & H4).
           exists evs1, x, (evs2 ++ [EvCons]). split.
           ++ rewrite He, <- app_assoc. reflexivity.
           ++ cbv zeta. rewrite Hsent. auto.
Qed.

Theorem c20_ref_meaning_proof : C20_ref_meaning.
Proof.
  intros cap B evs HB v. destruct (ref_sub_inv cap B evs HB) as [H1 H2 H3]. fold v in H1, H2, H3.
  split; [exact H1|]. split; [exact H2|]. exact H3.
Qed.

(* ------------------------------------------------------------------ the producer never waits *)

Definition buf_fn (ob : option buffer) (size : Z) (o : op) : option buffer :=
  match o with
  | OPush x => match push_buffer ob size x with BOk ob' => ob' | BPanic => ob end
  | _ => ob
  end.

Lemma step_fn_buf sv o : sv_ok sv -> sv_buf (step_fn sv o) = buf_fn (sv_buf sv) (sv_size sv) o.
Proof.
  intros Hok. unfold step_fn. destruct o as [x|b|c|k|k]; simpl.
  - unfold push_block. rewrite (push_subs_ok _ x (vo_subs sv Hok)).
    destruct (push_buffer (sv_buf sv) (sv_size sv) x); reflexivity.
  - destruct (subscribe_ok sv b Hok) as [-> _]. reflexivity.
  - reflexivity.
  - reflexivity.
  - unfold consume. destruct (nth_error (sv_subs sv) k); [destruct (sub_recv s)|]; reflexivity.
Qed.

Definition sim (x y : option sub) : Prop :=
  match x, y with
  | Some a, Some b => s_cap a = s_cap b /\ s_listed a = s_listed b
  | None, None => True
  | _, _ => False
  end.

Definition rel (j k : nat) (x y : option sub) : Prop := if Nat.eqb k j then sim x y else x = y.

Record agree (j : nat) (a b : server) : Prop := {
  ag_buf : sv_buf a = sv_buf b;
  ag_size : sv_size a = sv_size b;
  ag_len : length (sv_subs a) = length (sv_subs b);
  ag_subs : forall k, rel j k (nth_error (sv_subs a) k) (nth_error (sv_subs b) k)
}.

Lemma rel_map j k (f : sub -> sub) x y :
  (forall s, s_cap (f s) = s_cap s /\ s_listed (f s) = s_listed s) ->
  rel j k x y -> rel j k (option_map f x) (option_map f y).
Proof.
  intros Hf. unfold rel. destruct (Nat.eqb k j).
  - destruct x as [a|], y as [b|]; simpl; auto. intros [H1 H2].
    destruct (Hf a) as [-> ->], (Hf b) as [-> ->]. auto.
  - intros ->. reflexivity.
Qed.

Lemma rel_map2 j k (f g : sub -> sub) x y :
  (forall s, s_cap (f s) = s_cap s /\ s_listed (f s) = s_listed s) ->
  (forall s, s_cap (g s) = s_cap s /\ s_listed (g s) = s_listed s) ->
  (k <> j -> forall s, f s = g s) ->
  rel j k x y -> rel j k (option_map f x) (option_map g y).
Proof.
  intros Hf Hg Hfg. unfold rel. destruct (Nat.eqb_spec k j) as [->|Hne].
  - destruct x as [a|], y as [b|]; simpl; auto. intros [H1 H2].
    destruct (Hf a) as [-> ->], (Hg b) as [-> ->]. auto.
  - intros ->. destruct y; simpl; auto. now rewrite Hfg.
Qed.

Lemma window_buf a b : sv_buf a = sv_buf b -> window a = window b.
Proof. unfold window. now intros ->. Qed.

Lemma nth_error_snoc {A} (l : list A) a k :
  nth_error (l ++ [a]) k =
    if Nat.ltb k (length l) then nth_error l k else if Nat.eqb k (length l) then Some a else None.
Proof.
  destruct (Nat.ltb_spec k (length l)) as [Hlt|Hge].
  - now apply nth_error_app1.
  - rewrite nth_error_app2 by lia. destruct (Nat.eqb_spec k (length l)) as [->|Hne].
    + now rewrite Nat.sub_diag.
    + destruct (k - length l)%nat as [|m] eqn:E; [lia|]. simpl. now destruct m.
Qed.

Lemma rel_snoc j k (la lb : list sub) s :
  length la = length lb ->
  rel j k (nth_error la k) (nth_error lb k) ->
  rel j k (nth_error (la ++ [s]) k) (nth_error (lb ++ [s]) k).
Proof.
  intros Hl Hr. rewrite !nth_error_snoc, <- Hl.
  destruct (Nat.ltb k (length la)); auto.
  unfold rel. destruct (Nat.eqb k j); destruct (Nat.eqb k (length la)); simpl; auto.
Qed.

Lemma set_listed_keeps v s : s_cap (set_listed v s) = s_cap s.
Proof. reflexivity. Qed.

(* the same operation on both sides *)
Lemma agree_step j a b o :
  sv_ok a -> sv_ok b -> agree j a b -> agree j (step_fn a o) (step_fn b o).
Proof.
  intros Ha Hb [Hbuf Hsz Hlen Hsubs].
  constructor.
  - rewrite !step_fn_buf by assumption. now rewrite Hbuf, Hsz.
  - rewrite !step_fn_size by assumption. exact Hsz.
  - rewrite !step_fn_subs by assumption. destruct o; rewrite ?map_length, ?app_length, ?upd_nth_length; auto.
  - intros k. specialize (Hsubs k). rewrite !step_fn_subs by assumption.
    destruct o as [x|bu|c|k'|k'].
    + rewrite !nth_error_map. apply rel_map; auto.
      intros s. split; [apply push_one_cap|apply push_one_listed].
    + rewrite (window_buf a b Hbuf). cbv zeta. now apply rel_snoc.
    + now apply rel_snoc.
    + rewrite !nth_error_upd_nth. destruct (Nat.eqb k' k); auto.
      revert Hsubs. unfold rel. destruct (Nat.eqb k j).
      * destruct (nth_error (sv_subs a) k), (nth_error (sv_subs b) k); simpl; auto. tauto.
      * now intros ->.
    + rewrite !nth_error_upd_nth. destruct (Nat.eqb k' k); auto.
      apply rel_map; auto. intros s. split; [apply recv_cap|apply recv_listed].
Qed.

(* subscriber j receives on the left side only *)
Lemma agree_consume j a b :
  sv_ok a -> agree j a b -> agree j (step_fn a (OConsume j)) b.
Proof.
  intros Ha [Hbuf Hsz Hlen Hsubs].
  constructor.
  - rewrite step_fn_buf by assumption. exact Hbuf.
  - rewrite step_fn_size by assumption. exact Hsz.
  - rewrite step_fn_subs by assumption. now rewrite upd_nth_length.
  - intros k. specialize (Hsubs k). rewrite step_fn_subs by assumption.
    rewrite nth_error_upd_nth. revert Hsubs. unfold rel.
    destruct (Nat.eqb_spec j k) as [->|Hne].
    + rewrite Nat.eqb_refl.
      destruct (nth_error (sv_subs a) k), (nth_error (sv_subs b) k); simpl; auto.
      now rewrite recv_cap, recv_listed.
    + auto.
Qed.

Definition obs_of (sv : server) (o : op) : oobs :=
  match step sv o with StOk _ ob => ob | StStop ob => ob end.

Lemma run_cons sv o ops :
  sv_ok sv -> snd (run sv (o :: ops)) = obs_of sv o :: snd (run (step_fn sv o) ops).
Proof.
  intros Hok. simpl. unfold obs_of, step_fn.
  destruct (step_ok sv o Hok) as (sv' & ob & -> & _ & _).
  destruct (run sv' ops). reflexivity.
Qed.

Lemma obs_of_push sv x :
  sv_ok sv -> obs_of sv (OPush x) =
    ObPush (window (step_fn sv (OPush x))) (ready (step_fn sv (OPush x))).
Proof.
  intros Hok. unfold obs_of, step_fn. simpl.
  destruct (push_block_ok sv x Hok) as (sv' & -> & _). reflexivity.
Qed.

Lemma obs_of_other sv o :
  sv_ok sv -> (forall x, o <> OPush x) -> is_push_obs (obs_of sv o) = false.
Proof.
  intros Hok Hno. unfold obs_of. destruct o as [x|b|c|k|k]; simpl.
  - exfalso. now apply (Hno x).
  - destruct (subscribe_ok sv b Hok) as [-> _]. reflexivity.
  - reflexivity.
  - reflexivity.
  - destruct (consume sv k). reflexivity.
Qed.

Lemma ready_buf a b : sv_buf a = sv_buf b -> sv_size a = sv_size b -> ready a = ready b.
Proof. unfold ready. now intros -> ->. Qed.

Lemma nonblocking_gen j ops : forall a b,
  sv_ok a -> sv_ok b -> agree j a b ->
  agree j (fold_left step_fn ops a) (fold_left step_fn (filter (not_consume j) ops) b) /\
  filter is_push_obs (snd (run a ops)) =
    filter is_push_obs (snd (run b (filter (not_consume j) ops))).
Proof.
  induction ops as [|o ops IH]; intros a b Ha Hb Hag.
  - simpl. auto.
  - destruct (not_consume j o) eqn:Enc.
    + (* executed on both sides *)
      cbn [filter]. rewrite Enc. cbn [fold_left].
      assert (Hag' := agree_step j a b o Ha Hb Hag).
      destruct (IH _ _ (step_fn_ok a o Ha) (step_fn_ok b o Hb) Hag') as [H1 H2].
      split; [exact H1|].
      rewrite !run_cons by assumption. cbn [filter].
      assert (Hobs : is_push_obs (obs_of a o) = is_push_obs (obs_of b o) /\
                     (is_push_obs (obs_of a o) = true -> obs_of a o = obs_of b o)).
      { destruct o as [x|bu|c|k|k];
          try (rewrite !obs_of_other by (assumption || discriminate); split; [reflexivity|discriminate]).
        rewrite !obs_of_push by assumption. split; [reflexivity|]. intros _.
        destruct Hag' as [Hbuf' Hsz' _ _].
        now rewrite (window_buf _ _ Hbuf'), (ready_buf _ _ Hbuf' Hsz'). }
      destruct Hobs as [Hp He]. rewrite <- Hp.
      destruct (is_push_obs (obs_of a o)) eqn:Eo; auto.
      rewrite <- (He eq_refl). now f_equal.
    + (* a receive of subscriber j: skipped on the right side *)
      cbn [filter]. rewrite Enc. cbn [fold_left].
      destruct o as [x|bu|c|k|k]; try discriminate. simpl in Enc.
      apply negb_false_iff, Nat.eqb_eq in Enc. subst k.
      assert (Hag' := agree_consume j a b Ha Hag).
      destruct (IH _ _ (step_fn_ok a _ Ha) Hb Hag') as [H1 H2].
      split; [exact H1|].
      rewrite run_cons by assumption. cbn [filter].
      rewrite obs_of_other by (assumption || discriminate). exact H2.
Qed.

Theorem c20_nonblocking_proof : C20_nonblocking.
Proof.
  intros buffered size ops j a b.
  assert (Hag0 : agree j (init_server buffered size) (init_server buffered size)).
  { constructor; auto. intros k. unfold rel. destruct (Nat.eqb k j); auto.
    simpl. destruct k; simpl; auto. }
  destruct (nonblocking_gen j ops _ _ (init_ok buffered size) (init_ok buffered size) Hag0) as [Hag Htr].
  unfold a, b. rewrite !final_fold. destruct Hag as [Hbuf Hsz Hlen Hsubs].
  split; [exact Hbuf|]. split; [now apply ready_buf|]. split; [exact Htr|]. split; [exact Hlen|].
  split.
  - intros k Hk. specialize (Hsubs k). unfold rel in Hsubs.
    apply Nat.eqb_neq in Hk. now rewrite Hk in Hsubs.
  - intros sa sb Hsa Hsb. specialize (Hsubs j). unfold rel in Hsubs.
    rewrite Nat.eqb_refl, Hsa, Hsb in Hsubs. exact Hsubs.
Qed.

(* ------------------------------------------------------------------ the code before the fixes *)

Theorem c20_orig_negative_burst_panics_proof : C20_orig_negative_burst_panics.
Proof. exists buf_new, (-1). split; [lia|]. vm_compute. reflexivity. Qed.

Theorem c20_orig_size0_panics_proof : C20_orig_size0_panics.
Proof. exists 1%N. vm_compute. reflexivity. Qed.

Theorem c20_orig_window_shrinks_proof : C20_orig_window_shrinks.
Proof.
  exists 3, [2;3;4;4]%N. eexists. split.
  - vm_compute. reflexivity.
  - vm_compute. reflexivity.
Qed.
