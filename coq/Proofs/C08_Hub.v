(* C08, part B: the hub model is an instance of the abstract machine of part A, the fan-out lists
   being the events [hub_live] produces for the pushed blocks. *)
From BV Require Import Base.Prelude Model.Block Model.ForkDB Model.Forkable Model.ForkableLookups
  Model.Burst Model.Hub Model.HubSubs Spec.C08_Spec Proofs.C08_Abstract.
Local Open Scope N_scope.

(* ---------------------------------------------------------------- the model operations, spelled out *)

Lemma push_block_eq first kept sh b :
  push_block first kept sh b =
  (mkSH (fst (hub_push first kept (sh_hub sh) b))
        (fold_left fan_out (snd (hub_push first kept (sh_hub sh) b)) (sh_subs sh)),
   snd (hub_push first kept (sh_hub sh) b)).
Proof.
  unfold push_block, hub_push. destruct (hub_live first kept (sh_hub sh) (PBlocks []) b) as [[h' evs] r].
  reflexivity.
Qed.

Lemma subscribe_eq sh r :
  subscribe sh r =
  match request_burst (sh_hub sh) r with
  | None => (sh, false)
  | Some burst => (mkSH (sh_hub sh) (sh_subs sh ++ [new_sub burst]), true)
  end.
Proof. reflexivity. Qed.

(* ---------------------------------------------------------------- abstraction *)

(* the abstract operations a sequence of hub operations amounts to, from hub state h *)
Fixpoint abstract (first kept : N) (h : hub) (ops : list op) : list aop :=
  match ops with
  | [] => []
  | OPush b :: ops' =>
      AFan (snd (hub_push first kept h b)) :: abstract first kept (fst (hub_push first kept h b)) ops'
  | OSub r :: ops' =>
      match request_burst h r with
      | Some burst => ASub burst :: abstract first kept h ops'
      | None => abstract first kept h ops'
      end
  | ODrain k :: ops' => ADrain k :: abstract first kept h ops'
  end.

Definition abs_of (st : hstate) : astate := mkA (sh_subs (hs_sh st)) (hs_got st).

Lemma run_abstract first kept ops : forall st,
  run first kept st ops =
  let a := arun (abs_of st) (abstract first kept (sh_hub (hs_sh st)) ops) in
  mkHS (mkSH (hub_after first kept (sh_hub (hs_sh st)) (pushes ops)) (a_subs a)) (a_got a).
Proof.
  induction ops as [|o ops IH]; intros st.
  - destruct st as [[h subs] got]. reflexivity.
  - cbn [run fold_left]. fold (run first kept (step first kept st o) ops). rewrite IH. clear IH.
    destruct st as [[h subs] got]. destruct o as [b|r|k]; cbn [step hs_sh hs_got sh_hub sh_subs].
    + rewrite push_block_eq. cbn [fst sh_hub sh_subs hs_sh hs_got abstract pushes flat_map app hub_after abs_of].
      reflexivity.
    + rewrite subscribe_eq. cbn [sh_hub sh_subs abstract pushes flat_map app].
      destruct (request_burst h r) as [burst|]; reflexivity.
    + cbn [abstract pushes flat_map app arun fold_left abs_of hs_sh hs_got sh_subs astep a_subs a_got].
      destruct (drain_nth k subs) as [subs' q]. reflexivity.
Qed.

Lemma hview_run first kept st ops i :
  hview (run first kept st ops) i = aview (arun (abs_of st) (abstract first kept (sh_hub (hs_sh st)) ops)) i.
Proof. rewrite run_abstract. reflexivity. Qed.

Lemma run_hub first kept st ops :
  sh_hub (hs_sh (run first kept st ops)) = hub_after first kept (sh_hub (hs_sh st)) (pushes ops).
Proof. rewrite run_abstract. reflexivity. Qed.

Lemma run_subs first kept st ops :
  sh_subs (hs_sh (run first kept st ops)) = a_subs (arun (abs_of st) (abstract first kept (sh_hub (hs_sh st)) ops)).
Proof. rewrite run_abstract. reflexivity. Qed.

Lemma run_app first kept st a b : run first kept st (a ++ b) = run first kept (run first kept st a) b.
Proof. unfold run. apply fold_left_app. Qed.

Lemma pushes_app a b : pushes (a ++ b) = pushes a ++ pushes b.
Proof. unfold pushes. apply flat_map_app. Qed.

Lemma hub_after_app first kept : forall a h b,
  hub_after first kept h (a ++ b) = hub_after first kept (hub_after first kept h a) b.
Proof. induction a as [|x a IH]; intros h b; cbn [app hub_after]; [reflexivity | apply IH]. Qed.

Lemma push_events_app first kept : forall a h b,
  push_events first kept h (a ++ b) =
  push_events first kept h a ++ push_events first kept (hub_after first kept h a) b.
Proof.
  induction a as [|x a IH]; intros h b; cbn [app push_events hub_after]; [reflexivity|].
  rewrite IH, app_assoc. reflexivity.
Qed.

Lemma abstract_app first kept : forall a h b,
  abstract first kept h (a ++ b) =
  abstract first kept h a ++ abstract first kept (hub_after first kept h (pushes a)) b.
Proof.
  induction a as [|o a IH]; intros h b; [reflexivity|].
  destruct o as [x|r|k]; cbn [app abstract pushes flat_map hub_after].
  - fold (pushes a). rewrite IH. reflexivity.
  - fold (pushes a). rewrite IH. destruct (request_burst h r); reflexivity.
  - fold (pushes a). rewrite IH. reflexivity.
Qed.

Lemma fed_abstract first kept : forall ops h,
  fed (abstract first kept h ops) = map QEv (push_events first kept h (pushes ops)).
Proof.
  induction ops as [|o ops IH]; intros h; [reflexivity|].
  destruct o as [x|r|k]; cbn [abstract pushes flat_map app push_events].
  - fold (pushes ops). change (fed (AFan ?e :: ?l)) with (map QEv e ++ fed l). rewrite IH, map_app. reflexivity.
  - fold (pushes ops). destruct (request_burst h r); [change (fed (ASub ?e :: ?l)) with (fed l)|]; apply IH.
  - fold (pushes ops). change (fed (ADrain ?e :: ?l)) with (fed l). apply IH.
Qed.

Lemma own_abstract first kept i : forall ops h,
  own i (abstract first kept h ops) = own_ops first kept h i ops.
Proof.
  induction ops as [|o ops IH]; intros h; [reflexivity|].
  destruct o as [x|r|k]; cbn [abstract own_ops].
  - rewrite own_cons. cbn [own1 app]. rewrite IH. reflexivity.
  - destruct (request_burst h r); [rewrite own_cons; cbn [own1 app]|]; apply IH.
  - rewrite own_cons. cbn [own1]. destruct (Nat.eqb k i); cbn [app]; rewrite IH; reflexivity.
Qed.

Lemma abstract_erase first kept j : forall ops h,
  abstract first kept h (erase_drains j ops) = aerase j (abstract first kept h ops).
Proof.
  induction ops as [|o ops IH]; intros h; [reflexivity|].
  destruct o as [x|r|k]; cbn [erase_drains filter abstract aerase].
  - fold (erase_drains j ops). fold (aerase j (abstract first kept (fst (hub_push first kept h x)) ops)).
    rewrite <- IH. reflexivity.
  - fold (erase_drains j ops). cbn [abstract]. destruct (request_burst h r); cbn [aerase filter];
      fold (aerase j (abstract first kept h ops)); rewrite <- IH; reflexivity.
  - fold (erase_drains j ops). fold (aerase j (abstract first kept h ops)).
    destruct (Nat.eqb k j); cbn [negb abstract]; rewrite <- IH; reflexivity.
Qed.

(* a fan-out in the abstract sequence is one push of the operation sequence *)
Lemma abstract_split first kept : forall ops h A1 evs A2,
  abstract first kept h ops = A1 ++ AFan evs :: A2 ->
  exists ops1 b ops2,
    ops = ops1 ++ OPush b :: ops2 /\
    abstract first kept h ops1 = A1 /\
    snd (hub_push first kept (hub_after first kept h (pushes ops1)) b) = evs /\
    abstract first kept (hub_after first kept h (pushes (ops1 ++ [OPush b]))) ops2 = A2.
Proof.
  induction ops as [|o ops IH]; intros h A1 evs A2 H.
  - destruct A1; discriminate.
  - destruct o as [x|r|k]; cbn [abstract] in H.
    + destruct A1 as [|a A1]; cbn [app] in H; inversion H; subst.
      * exists [], x, ops. repeat split.
      * destruct (IH _ _ _ _ H2) as [ops1 [b [ops2 [E1 [E2 [E3 E4]]]]]].
        exists (OPush x :: ops1), b, ops2. subst ops. split; [reflexivity|].
        cbn [abstract pushes flat_map app hub_after]. fold (pushes ops1). fold (pushes (ops1 ++ [OPush b])).
        rewrite E2. auto.
    + destruct (request_burst h r) as [burst|] eqn:Hr.
      * destruct A1 as [|a A1]; cbn [app] in H; inversion H; subst.
        destruct (IH _ _ _ _ H2) as [ops1 [b [ops2 [E1 [E2 [E3 E4]]]]]].
        exists (OSub r :: ops1), b, ops2. subst ops. split; [reflexivity|].
        cbn [abstract pushes flat_map app]. fold (pushes ops1). fold (pushes (ops1 ++ [OPush b])).
        rewrite Hr, E2. auto.
      * destruct (IH _ _ _ _ H) as [ops1 [b [ops2 [E1 [E2 [E3 E4]]]]]].
        exists (OSub r :: ops1), b, ops2. subst ops. split; [reflexivity|].
        cbn [abstract pushes flat_map app]. fold (pushes ops1). fold (pushes (ops1 ++ [OPush b])).
        rewrite Hr. auto.
    + destruct A1 as [|a A1]; cbn [app] in H; inversion H; subst.
      destruct (IH _ _ _ _ H2) as [ops1 [b [ops2 [E1 [E2 [E3 E4]]]]]].
      exists (ODrain k :: ops1), b, ops2. subst ops. split; [reflexivity|].
      cbn [abstract pushes flat_map app]. fold (pushes ops1). fold (pushes (ops1 ++ [OPush b])).
      rewrite E2. auto.
Qed.

Lemma awf_start sh0 : awf (abs_of (start sh0)).
Proof. unfold awf, abs_of, start. cbn [hs_sh hs_got a_subs a_got]. rewrite map_length. reflexivity. Qed.

(* the operation sequence around a served request, abstractly *)
Lemma abstract_around first kept h0 pre r post burst :
  request_burst (hub_after first kept h0 (pushes pre)) r = Some burst ->
  abstract first kept h0 (pre ++ OSub r :: post) =
  abstract first kept h0 pre ++ ASub burst :: abstract first kept (hub_after first kept h0 (pushes pre)) post.
Proof. intros H. rewrite abstract_app. cbn [abstract]. rewrite H. reflexivity. Qed.

(* ---------------------------------------------------------------- theorems *)

Theorem c08_exactly_once_proof : C08_exactly_once.
Proof.
  intros first kept sh0 pre r post burst h1 Hreq i expected.
  pose proof (c08_abs_exactly_once_proof (abs_of (start sh0)) (abstract first kept (sh_hub sh0) pre) burst
                (abstract first kept h1 post) (awf_start sh0)) as H.
  cbv zeta in H.
  assert (Hi : length (a_subs (arun (abs_of (start sh0)) (abstract first kept (sh_hub sh0) pre))) = i).
  { subst i. rewrite run_subs. reflexivity. }
  rewrite Hi in H. destruct H as [s [got [Hv [Hcap [Hlive Hdrop]]]]].
  exists s, got. split.
  { rewrite hview_run. cbn [start hs_sh]. rewrite (abstract_around _ _ _ _ _ _ _ Hreq). exact Hv. }
  split; [exact Hcap|]. split.
  { intros Hd. rewrite (Hlive Hd). subst expected. rewrite fed_abstract. reflexivity. }
  intros Hd. destruct (Hdrop Hd) as [A1 [evs1 [e [evs2 [A2 [s1 [got1 [Hp [Hv1 [Hd1 [Hfull [Hq1 Hq2]]]]]]]]]]]].
  destruct (abstract_split _ _ _ _ _ _ _ Hp) as [post1 [b [post2 [E1 [E2 [E3 _]]]]]].
  exists post1, b, post2, evs1, e, evs2, s1, got1.
  split; [exact E1|]. split; [exact E3|]. split.
  { rewrite hview_run. cbn [start hs_sh]. rewrite (abstract_around _ _ _ _ _ _ _ Hreq). fold h1. rewrite E2. exact Hv1. }
  split; [exact Hd1|]. split; [exact Hfull|]. split; [exact Hq1|].
  assert (Hq3 : got ++ ms_queue s = burst ++ map QEv (push_events first kept h1 (pushes post1)) ++ map QEv evs1).
  { rewrite Hq2, <- E2, fed_abstract. reflexivity. }
  split; [exact Hq3|].
  exists (map QEv (e :: evs2 ++ push_events first kept (hub_after first kept h1 (pushes (post1 ++ [OPush b]))) (pushes post2))).
  subst expected. rewrite Hq3, E1.
  replace (post1 ++ OPush b :: post2) with ((post1 ++ [OPush b]) ++ post2) by (rewrite <- app_assoc; reflexivity).
  rewrite (pushes_app (post1 ++ [OPush b])), push_events_app.
  rewrite (pushes_app post1), push_events_app. cbn [pushes flat_map app push_events]. rewrite E3.
  rewrite !map_app, !app_nil_r. cbn [map]. rewrite <- !app_assoc. cbn [app]. rewrite ?map_app. reflexivity.
Qed.

Theorem c08_lone_proof : C08_lone.
Proof.
  intros first kept sh0 pre r post burst h1 Hreq i.
  rewrite hview_run. cbn [start hs_sh]. rewrite (abstract_around _ _ _ _ _ _ _ Hreq). fold h1.
  pose proof (c08_abs_lone_proof (abs_of (start sh0)) (abstract first kept (sh_hub sh0) pre) burst
                (abstract first kept h1 post) (awf_start sh0)) as H.
  cbv zeta in H.
  assert (Hi : length (a_subs (arun (abs_of (start sh0)) (abstract first kept (sh_hub sh0) pre))) = i).
  { subst i. rewrite run_subs. reflexivity. }
  rewrite Hi in H. rewrite H. rewrite own_abstract. reflexivity.
Qed.

Theorem c08_refused_proof : C08_refused.
Proof.
  intros first kept st pre r post H. rewrite !run_app. change (OSub r :: post) with ([OSub r] ++ post).
  rewrite run_app. f_equal.
  cbn [run fold_left step]. rewrite subscribe_eq, H. destruct (run first kept st pre). reflexivity.
Qed.

Theorem c08_isolation_hub_proof : C08_isolation_hub.
Proof.
  intros first kept st ops. split; [apply run_hub|]. intros b. rewrite push_block_eq. cbn [snd].
  rewrite run_hub. reflexivity.
Qed.

Theorem c08_isolation_subs_proof : C08_isolation_subs.
Proof.
  intros first kept st ops1 ops2 i j Hij He. rewrite !hview_run.
  apply (c08_abs_isolation_proof _ _ _ i j Hij). rewrite <- !abstract_erase, He. reflexivity.
Qed.

Theorem c08_registration_atomic_proof : C08_registration_atomic.
Proof.
  intros first kept sh0 pre b1 r b2 post burst st1 Hreq st2 evs2 i.
  set (pre' := pre ++ [OPush b1]).
  set (h1 := hub_after first kept (sh_hub sh0) (pushes pre')).
  assert (Hh1 : sh_hub (hs_sh st1) = h1) by (subst st1 h1; rewrite run_hub; reflexivity).
  rewrite Hh1 in Hreq.
  assert (Hst2 : forall l, run first kept st2 l = run first kept (start sh0) (pre' ++ OSub r :: l)).
  { intros l. subst st2 st1. rewrite (run_app _ _ _ pre'). change (OSub r :: l) with ([OSub r] ++ l).
    rewrite (run_app _ _ _ [OSub r]). reflexivity. }
  assert (Hevs2 : evs2 = snd (hub_push first kept h1 b2)).
  { subst evs2. rewrite push_block_eq. cbn [snd].
    change (hs_sh st2) with (hs_sh (run first kept st2 [])).
    rewrite (Hst2 []), run_hub. cbn [start hs_sh]. rewrite pushes_app, hub_after_app.
    cbn [pushes flat_map app hub_after]. reflexivity. }
  split; [|split].
  - change st2 with (run first kept st2 []). rewrite Hst2.
    exact (c08_lone_proof first kept sh0 pre' r [] burst Hreq).
  - rewrite Hst2.
    pose proof (c08_lone_proof first kept sh0 pre' r [OPush b2] burst Hreq) as HL. cbv zeta in HL.
    change (length (sh_subs (hs_sh (run first kept (start sh0) pre')))) with i in HL.
    rewrite HL. clear HL. fold h1.
    cbn [own_ops srun fold_left sstep fst snd]. rewrite <- Hevs2.
    eexists. eexists. split; [reflexivity|]. split.
    + intros Hd. destruct (fold_push_live evs2 (new_sub burst) eq_refl) as [H|[evs1 [e [evs3 [_ [_ H]]]]]];
        rewrite H in Hd |- *; [reflexivity | discriminate].
    + intros Hlen. rewrite fold_push_room; [reflexivity | reflexivity|]. cbn [new_sub ms_queue ms_cap]. lia.
  - replace (pre ++ [OPush b1; OSub r; OPush b2] ++ post) with (pre' ++ OSub r :: OPush b2 :: post)
      by (subst pre'; rewrite <- app_assoc; reflexivity).
    destruct (c08_exactly_once_proof first kept sh0 pre' r (OPush b2 :: post) burst Hreq)
      as [s [got [Hv [_ [Hlive _]]]]].
    exists s, got. split; [exact Hv|]. intros Hd. rewrite (Hlive Hd). fold h1.
    cbn [pushes flat_map app push_events]. rewrite <- Hevs2. rewrite map_app. eexists. reflexivity.
Qed.
