(* ParseRange: never the out-of-range index, results are constructed ranges, and decimal
   "a-b" / "a:b" parse to [a, b].  Constructors. *)
From BV Require Import Base.Prelude Base.Decimal Model.Range Spec.C19_Spec
  Proofs.PreludeFacts Proofs.DecimalFacts Proofs.RangeFacts.
Local Open Scope N_scope.

Lemma u64_of_int_lt z : u64_of_int z < two64.
Proof.
  unfold u64_of_int, two64.
  pose proof (Z.mod_pos_bound z 18446744073709551616 ltac:(lia)). lia.
Qed.

Lemma u64_of_int_small n : n < two64 -> u64_of_int (Z.of_N n) = n.
Proof. unfold u64_of_int, two64. intros H. rewrite Z.mod_small by lia. lia. Qed.

Lemma new_range_some s e exs exe r : new_range s (Some e) exs exe = Some r ->
  r = mkRange s (Some e) exs exe /\ s < e.
Proof.
  unfold new_range. destruct (e <=? s) eqn:E; [discriminate|]. apply N.leb_gt in E.
  intros H; inversion H; auto.
Qed.

Lemma parse_no_panic s exs exe : parse_range s exs exe <> ParsePanic.
Proof.
  unfold parse_range. destruct s as [|c s]; [discriminate|].
  destruct (fields (c :: s)) as [|f0 [|f1 t]]; cbn [length Nat.ltb Nat.leb]; try discriminate.
  cbn [map nth_error].
  destruct (parse_int two63 (clean f0)); [|discriminate].
  destruct (parse_int two63 (clean f1)); [|discriminate].
  destruct (new_range _ _ exs exe); discriminate.
Qed.

Lemma parse_ok_range s exs exe r : parse_range s exs exe = ParseOk r ->
  range_ok r /\ rexs r = exs /\ rexe r = exe /\ rend r <> None.
Proof.
  unfold parse_range. destruct s as [|c s]; [discriminate|].
  destruct (fields (c :: s)) as [|f0 [|f1 t]]; cbn [length Nat.ltb Nat.leb]; try discriminate.
  cbn [map nth_error].
  destruct (parse_int two63 (clean f0)) as [lo|]; [|discriminate].
  destruct (parse_int two63 (clean f1)) as [hi|]; [|discriminate].
  destruct (new_range _ _ exs exe) as [r'|] eqn:E; [|discriminate].
  intros H; inversion H; subst r'. apply new_range_some in E. destruct E as [-> Hlt].
  cbn [rstart rend rexs rexe]. unfold range_ok, u64; cbn [rstart rend].
  repeat split; auto using u64_of_int_lt. discriminate.
Qed.

(* ---- fields of "digits sep digits" ---- *)
Lemma fields_from_nosep s : forallb (fun c => negb (is_sep c)) s = true ->
  forall rest cur, fields_from (s ++ rest) cur = fields_from rest (rev s ++ cur).
Proof.
  induction s as [|c s IH]; intros H rest cur; [reflexivity|].
  cbn [forallb] in H. apply andb_true_iff in H as [Hc Hs].
  cbn [app fields_from]. destruct (is_sep c); [discriminate|].
  rewrite IH by exact Hs. cbn [rev]. rewrite <- app_assoc. reflexivity.
Qed.

Lemma digit_not_sep c : is_digit c = true -> negb (is_sep c) = true.
Proof. unfold is_digit, is_sep. lia. Qed.

Lemma digit_clean_keep c : is_digit c = true ->
  negb (c =? 32) = true /\ (is_alnum c || (c =? 32)) = true.
Proof. unfold is_digit, is_alnum. lia. Qed.

Lemma forallb_impl {A} (p q : A -> bool) l :
  (forall x, p x = true -> q x = true) -> forallb p l = true -> forallb q l = true.
Proof.
  intros Hpq. induction l as [|x l IH]; [reflexivity|]. cbn [forallb].
  rewrite !andb_true_iff. intros [H1 H2]. auto.
Qed.

Lemma filter_all {A} (p : A -> bool) l : forallb p l = true -> filter p l = l.
Proof.
  induction l as [|x l IH]; [reflexivity|]. cbn [forallb filter].
  rewrite andb_true_iff. intros [H1 H2]. rewrite H1, IH by exact H2. reflexivity.
Qed.

Lemma clean_digits d : forallb is_digit d = true -> clean d = d.
Proof.
  intros H. unfold clean.
  rewrite (filter_all (fun c => negb (c =? 32)) d)
    by (eapply forallb_impl; [|exact H]; intros x Hx; apply digit_clean_keep; exact Hx).
  apply filter_all. eapply forallb_impl; [|exact H]. intros x Hx. apply digit_clean_keep; exact Hx.
Qed.

Lemma fields_two da db sep : is_sep sep = true ->
  forallb is_digit da = true -> da <> [] -> forallb is_digit db = true -> db <> [] ->
  fields (da ++ sep :: db) = [da; db].
Proof.
  intros Hsep Ha Hna Hb Hnb. unfold fields.
  rewrite fields_from_nosep by (eapply forallb_impl; [|exact Ha]; apply digit_not_sep).
  rewrite app_nil_r. cbn [fields_from]. rewrite Hsep.
  destruct (rev da) as [|x t] eqn:Er.
  { exfalso. apply Hna. rewrite <- (rev_involutive da), Er. reflexivity. }
  rewrite <- Er, rev_involutive. f_equal.
  rewrite <- (app_nil_r db) at 1.
  rewrite fields_from_nosep by (eapply forallb_impl; [|exact Hb]; apply digit_not_sep).
  rewrite app_nil_r. cbn [fields_from].
  destruct (rev db) as [|y u] eqn:Er2.
  { exfalso. apply Hnb. rewrite <- (rev_involutive db), Er2. reflexivity. }
  rewrite <- Er2, rev_involutive. reflexivity.
Qed.

Lemma parse_wellformed a b sep exs exe : is_sep sep = true -> a < two63 -> b < two63 ->
  parse_range (print_dec a ++ sep :: print_dec b) exs exe =
    if a <? b then ParseOk (mkRange a (Some b) exs exe) else ParseErr.
Proof.
  intros Hsep Ha Hb.
  destruct (print_dec_digits a) as [Da Na]. destruct (print_dec_digits b) as [Db Nb].
  unfold parse_range.
  destruct (print_dec a ++ sep :: print_dec b) as [|c0 s0] eqn:Es.
  { destruct (print_dec a); [congruence|discriminate]. }
  rewrite <- Es. rewrite (fields_two _ _ sep Hsep Da Na Db Nb).
  cbn [length Nat.ltb Nat.leb map nth_error].
  rewrite !clean_digits by assumption.
  rewrite !parse_int_print_nonneg by assumption.
  assert (two63 < two64) by (unfold two63, two64; lia).
  rewrite !u64_of_int_small by lia.
  unfold new_range. destruct (N.leb_spec b a); destruct (N.ltb_spec a b); try lia; reflexivity.
Qed.

Lemma c19_parse_total_proof : C19_parse_total.
Proof.
  split; [exact parse_no_panic|]. split; [exact parse_ok_range|exact parse_wellformed].
Qed.

Lemma c19_parse_unfixed_refuted_proof : C19_parse_unfixed_refuted.
Proof. exists [53]. vm_compute. reflexivity. Qed.

(* ---- constructors ---- *)
Lemma c19_constructors_proof : C19_constructors.
Proof.
  unfold C19_constructors, u64. split; [|split].
  - intros s Hs. eexists. split; [reflexivity|]. unfold range_ok, u64; simpl. auto.
  - intros s e Hs He. unfold new_inclusive_range, new_range_excluding_end, must_new_range, new_range.
    split; intros H; destruct (N.leb_spec e s); try lia; split; reflexivity.
  - intros b sz Hb Hsz. split.
    + intros ->. reflexivity.
    + intros Hp Hg. unfold new_range_containing.
      destruct (sz =? 0) eqn:E0; [apply N.eqb_eq in E0; lia|].
      pose proof (N.mod_upper_bound b sz ltac:(lia)) as Hm.
      pose proof (N.div_mod b sz ltac:(lia)) as Hd.
      pose proof (N.mod_le b sz ltac:(lia)) as Hle.
      rewrite sub64_le by lia. rewrite add64_small by lia.
      exists (b - b mod sz). split.
      * unfold new_inclusive_range, must_new_range, new_range.
        destruct (N.leb_spec (b - b mod sz + sz) (b - b mod sz)); [lia|reflexivity].
      * split; [|lia].
        replace (b - b mod sz) with (b / sz * sz) by lia. apply N.mod_mul. lia.
Qed.
