(* GENERIC COPY of Proofs/C08_SchedOrder.v: the same proofs with the event production function [hub_push first kept]
   (Model/Hub.v hub_live) replaced by an arbitrary hp : hprod (Model/HubAll.v); see Spec/C08_Sched_Gen_Spec.v. *)
(* C08, schedule part, 4b: program order.  Within the serialisation the producer's operations are its
   program (block after block, each followed by its events), a requester has its one request once it
   is appended or refused, a consumer one receive per item received. *)
From BV Require Import Base.Prelude Model.Block Model.ForkDB Model.Forkable Model.ForkableLookups
  Model.Burst Model.Hub Model.HubSubs Model.HubAll Model.HubSched Model.HubSchedG Spec.C08_Spec Spec.C08_Gen_Spec Spec.C08_Sched_Spec Spec.C08_Sched_Gen_Spec
  Proofs.C08_Abstract Proofs.C08G_SchedSerial Proofs.C08G_SchedInv Proofs.C08G_SchedReg Proofs.C08G_SchedRefine.
Local Open Scope N_scope.

Lemma ops_of_app t a b : ops_of t (a ++ b) = ops_of t a ++ ops_of t b.
Proof. unfold ops_of. rewrite filter_app, map_app. reflexivity. Qed.

Lemma ops_of_cons t en l : ops_of t (en :: l) = (if tid_eqb (fst en) t then [snd en] else []) ++ ops_of t l.
Proof. unfold ops_of. cbn [filter]. destruct (tid_eqb (fst en) t); reflexivity. Qed.

Lemma tid_eqb_refl t : tid_eqb t t = true.
Proof. destruct t; cbn; auto using Nat.eqb_refl. Qed.

Lemma tid_eqb_eq a b : tid_eqb a b = true -> a = b.
Proof. destruct a, b; cbn; try discriminate; auto; intros H; apply Nat.eqb_eq in H; subst; reflexivity. Qed.

Lemma repeat_insert {A} (x : A) : forall a b n, a ++ b = repeat x n -> a ++ x :: b = repeat x (S n).
Proof.
  induction a as [|y a IH]; intros b n H; cbn [app] in *.
  - rewrite H. reflexivity.
  - destruct n as [|n]; [discriminate|]. cbn [repeat] in H. inversion H; subst y.
    change (x :: (a ++ x :: b) = x :: repeat x (S n)). f_equal. apply (IH b n H2).
Qed.

Section Order.
  Variables (hp : hprod) (h0 : hub) (script : list block).

  Definition remaining (st : cstate) : list xop :=
    match g_ppc st with
    | PIdle => prod_program_g hp (g_hub st) (g_script st)
    | PWait b | PLocked b => prod_program_g hp (g_hub st) (b :: g_script st)
    | PEvents evs | PFan _ _ evs | PDrop _ _ _ evs =>
        map XFan evs ++ prod_program_g hp (g_hub st) (g_script st)
    end.

  Definition req_sig (st : cstate) (i : nat) : list xop :=
    match nth_error (g_reqs st) i with
    | Some c => if linearized c then [XSub (r_req c)] else []
    | None => []
    end.

  Record POInv (st : cstate) : Prop := mkPOInv {
    po_prod : prod_program_g hp h0 script = ops_of TProd (serial st) ++ remaining st;
    po_req : forall i, ops_of (TReq i) (serial st) = req_sig st i;
    po_cons : forall i, ops_of (TCons i) (serial st)
                        = repeat (XRecv (index_of i (g_order st))) (length (got_at st i));
    po_got : forall i, ~ In i (g_order st) -> got_at st i = []
  }.

  Lemma po_init reqs : POInv (cinit h0 script reqs).
  Proof.
    constructor; cbn.
    - reflexivity.
    - intros i. unfold req_sig. cbn. destruct (nth_error (map (fun r => mkReq r RStart None []) reqs) i) as [c|] eqn:H; [|reflexivity].
      apply nth_error_In in H. apply in_map_iff in H. destruct H as [r [<- _]]. reflexivity.
    - intros i. unfold got_at. cbn. destruct (nth_error (map (fun r => mkReq r RStart None []) reqs) i) as [c|] eqn:H; [|reflexivity].
      apply nth_error_In in H. apply in_map_iff in H. destruct H as [r [<- _]]. reflexivity.
    - intros i _. unfold got_at. cbn. destruct (nth_error (map (fun r => mkReq r RStart None []) reqs) i) as [c|] eqn:H; [|reflexivity].
      apply nth_error_In in H. apply in_map_iff in H. destruct H as [r [<- _]]. reflexivity.
  Qed.

  (* A: the serialisation does not change *)
  Lemma po_keep st st' :
    POInv st -> serial st' = serial st -> remaining st' = remaining st -> g_order st' = g_order st ->
    (forall i, req_sig st' i = req_sig st i) -> (forall i, got_at st' i = got_at st i) -> POInv st'.
  Proof.
    intros [P1 P2 P3 P4] Hs Hr Ho Hq Hg. constructor.
    - rewrite Hs, Hr. exact P1.
    - intros i. rewrite Hs, Hq. apply P2.
    - intros i. rewrite Hs, Ho, Hg. apply P3.
    - intros i. rewrite Ho, Hg. apply P4.
  Qed.

  (* B: the producer commits an operation *)
  Lemma po_prod_op st st' o :
    POInv st -> serial st' = serial st ++ [(TProd, o)] -> remaining st = o :: remaining st' ->
    g_order st' = g_order st -> (forall i, req_sig st' i = req_sig st i) ->
    (forall i, got_at st' i = got_at st i) -> POInv st'.
  Proof.
    intros [P1 P2 P3 P4] Hs Hr Ho Hq Hg. constructor.
    - rewrite Hs, ops_of_app, ops_of_cons. cbn [fst snd tid_eqb ops_of filter map app].
      rewrite <- app_assoc. cbn [app]. rewrite <- Hr. exact P1.
    - intros i. rewrite Hs, ops_of_app, ops_of_cons. cbn [fst snd tid_eqb ops_of filter map app].
      rewrite app_nil_r, Hq. apply P2.
    - intros i. rewrite Hs, ops_of_app, ops_of_cons. cbn [fst snd tid_eqb ops_of filter map app].
      rewrite app_nil_r, Ho, Hg. apply P3.
    - intros i. rewrite Ho, Hg. apply P4.
  Qed.

  (* C: a request is appended or refused *)
  Lemma po_req_op st st' i r ext :
    POInv st -> serial st' = serial st ++ [(TReq i, XSub r)] -> remaining st' = remaining st ->
    g_order st' = g_order st ++ ext -> req_sig st i = [] -> req_sig st' i = [XSub r] ->
    (forall j, j <> i -> req_sig st' j = req_sig st j) ->
    (forall j, got_at st' j = got_at st j) -> POInv st'.
  Proof.
    intros [P1 P2 P3 P4] Hs Hr Ho Hi Hi' Hq Hg. constructor.
    - rewrite Hs, ops_of_app, ops_of_cons. cbn [fst snd tid_eqb ops_of filter map app].
      rewrite app_nil_r, Hr. exact P1.
    - intros j. rewrite Hs, ops_of_app, ops_of_cons. cbn [fst snd tid_eqb ops_of filter map].
      destruct (Nat.eqb i j) eqn:E.
      + apply Nat.eqb_eq in E. subst j. rewrite P2, Hi, Hi'. reflexivity.
      + apply Nat.eqb_neq in E. rewrite app_nil_r, P2, Hq by congruence. reflexivity.
    - intros j. rewrite Hs, ops_of_app, ops_of_cons. cbn [fst snd tid_eqb ops_of filter map app].
      rewrite app_nil_r, P3, Ho, Hg. destruct (in_dec Nat.eq_dec j (g_order st)) as [Hin|Hnin].
      + rewrite (index_of_app j _ ext Hin). reflexivity.
      + rewrite (P4 j Hnin). reflexivity.
    - intros j Hj. rewrite Hg. apply P4. intros Hin. apply Hj. rewrite Ho. apply in_app_iff. left. exact Hin.
  Qed.

  (* D: a receive, placed anywhere in the serialisation *)
  Lemma po_cons_op st st' i l1 l2 x :
    POInv st -> serial st = l1 ++ l2 -> serial st' = l1 ++ (TCons i, XRecv (index_of i (g_order st))) :: l2 ->
    remaining st' = remaining st -> g_order st' = g_order st -> In i (g_order st) ->
    (forall j, req_sig st' j = req_sig st j) ->
    got_at st' i = got_at st i ++ [x] -> (forall j, j <> i -> got_at st' j = got_at st j) -> POInv st'.
  Proof.
    intros [P1 P2 P3 P4] Hs Hs' Hr Ho Hin Hq Hgi Hg. constructor.
    - rewrite Hs', ops_of_app, ops_of_cons. cbn [fst snd tid_eqb app]. rewrite <- ops_of_app, <- Hs, Hr. exact P1.
    - intros j. rewrite Hs', ops_of_app, ops_of_cons. cbn [fst snd tid_eqb app]. rewrite <- ops_of_app, <- Hs, Hq. apply P2.
    - intros j. rewrite Hs', ops_of_app, ops_of_cons. cbn [fst snd tid_eqb]. rewrite Ho.
      destruct (Nat.eqb i j) eqn:E.
      + apply Nat.eqb_eq in E. subst j. rewrite Hgi, app_length. cbn [length app].
        rewrite Nat.add_1_r. apply repeat_insert. rewrite <- ops_of_app, <- Hs. apply P3.
      + apply Nat.eqb_neq in E. cbn [app]. rewrite <- ops_of_app, <- Hs, Hg by congruence. apply P3.
    - intros j Hj. rewrite Ho in Hj. rewrite Hg; [apply P4, Hj|]. intros ->. contradiction.
  Qed.

  (* ---------------------------------------------------------------- every step_g *)

  Lemma req_sig_ext st st' : g_reqs st' = g_reqs st -> forall i, req_sig st' i = req_sig st i.
  Proof. intros H i. unfold req_sig. rewrite H. reflexivity. Qed.

  Lemma got_at_ext' st st' : g_reqs st' = g_reqs st -> forall i, got_at st' i = got_at st i.
  Proof. intros H i. unfold got_at. rewrite H. reflexivity. Qed.

  Lemma req_sig_put st i c c' :
    nth_error (g_reqs st) i = Some c ->
    forall j, req_sig (put_req st i c') j =
              if Nat.eqb j i then (if linearized c' then [XSub (r_req c')] else []) else req_sig st j.
  Proof.
    intros Hc j. unfold req_sig. simp_st. rewrite (rq_put _ _ _ _ _ Hc). destruct (Nat.eqb j i); reflexivity.
  Qed.

  Lemma req_sig_at st i c :
    nth_error (g_reqs st) i = Some c -> req_sig st i = if linearized c then [XSub (r_req c)] else [].
  Proof. intros Hc. unfold req_sig. rewrite Hc. reflexivity. Qed.

  Lemma po_step_prod st :
    LockInv st -> RegInv st -> SerInv hp h0 script st -> POInv st -> POInv (prod_step_g true hp st).
  Proof.
    intros L R S P. unfold prod_step_g.
    destruct (g_ppc st) as [|b|b|evs|e todo evs|e k todo evs] eqn:Hpc.
    - destruct (g_script st) as [|b rest] eqn:Hscr; [exact P|].
      apply (po_keep st); try reflexivity; try exact P.
      + unfold serial, inflight. simp_st. rewrite Hpc. reflexivity.
      + unfold remaining. simp_st. rewrite Hpc, Hscr. reflexivity.
    - destruct (Nat.eqb (g_readers st) 0); [|exact P].
      apply (po_keep st); try reflexivity; try exact P.
      + unfold serial, inflight. simp_st. rewrite Hpc. reflexivity.
      + unfold remaining. simp_st. rewrite Hpc. reflexivity.
    - rewrite (hub_push_live hp (g_hub st) b).
      apply (po_prod_op st _ (XBlock b)); try reflexivity; try exact P.
      + unfold serial, inflight. simp_st. rewrite Hpc. reflexivity.
      + unfold remaining. simp_st. rewrite Hpc. reflexivity.
    - destruct evs as [|e evs].
      + apply (po_keep st); try reflexivity; try exact P.
        * unfold serial, inflight. simp_st. rewrite Hpc. reflexivity.
        * unfold remaining. simp_st. rewrite Hpc. reflexivity.
      + destruct (mutex_free true st); [|exact P].
        assert (Ht : g_tail st = []) by (apply (si_tail _ _ _ _ S); unfold inflight; rewrite Hpc; reflexivity).
        apply (po_prod_op st _ (XFan e)); try reflexivity; try exact P.
        * unfold serial, inflight. simp_st. rewrite Hpc, Ht. reflexivity.
        * unfold remaining. simp_st. rewrite Hpc. reflexivity.
    - destruct todo as [|k todo].
      + apply (po_keep st); try reflexivity; try exact P.
        * unfold serial, inflight. simp_st. rewrite Hpc. reflexivity.
        * unfold remaining. simp_st. rewrite Hpc. reflexivity.
      +
        destruct (nth_error (g_reqs st) k) as [c|] eqn:Hc.
        * destruct (r_sub c) as [s|] eqn:Hs.
          -- assert (Hk : forall s' pc', inflight (set_ppc st pc') = Some (e, todo) ->
                                        remaining (set_ppc st pc') = remaining st ->
                                        POInv (set_ppc (put_req st k (set_rsub c s')) pc')).
             { intros s' pc' Hi Hrem. apply (po_keep st); try reflexivity; try exact P.
               - unfold serial in *. unfold inflight in *. simp_st. rewrite Hpc. destruct pc'; try discriminate; inversion Hi; reflexivity.
               - unfold remaining in *. simp_st. exact Hrem.
               - intros j. change (req_sig (set_ppc (put_req st k (set_rsub c s')) pc') j) with (req_sig (put_req st k (set_rsub c s')) j).
                 rewrite (req_sig_put st k c _ Hc). destruct (Nat.eqb j k) eqn:E; [|reflexivity].
                 apply Nat.eqb_eq in E. subst j. rewrite (req_sig_at st k c Hc). reflexivity.
               - intros j. change (got_at (set_ppc (put_req st k (set_rsub c s')) pc') j) with (got_at (put_req st k (set_rsub c s')) j).
                 rewrite (got_at_put st k c _ j Hc). destruct (Nat.eqb j k) eqn:E; [|reflexivity].
                 apply Nat.eqb_eq in E. subst j. unfold got_at. rewrite Hc. reflexivity. }
             destruct (N.of_nat (length (ms_queue s)) =? ms_cap s); apply Hk; try reflexivity;
               unfold remaining; simp_st; rewrite Hpc; reflexivity.
          -- apply (po_keep st); try reflexivity; try exact P.
             ++ unfold serial, inflight. simp_st. rewrite Hpc. reflexivity.
             ++ unfold remaining. simp_st. rewrite Hpc. reflexivity.
        * apply (po_keep st); try reflexivity; try exact P.
          -- unfold serial, inflight. simp_st. rewrite Hpc. reflexivity.
          -- unfold remaining. simp_st. rewrite Hpc. reflexivity.
    - destruct (mutex_free true st); [|exact P].
      apply (po_keep st); try reflexivity; try exact P.
      + unfold serial, inflight. simp_st. rewrite Hpc. reflexivity.
      + unfold remaining. simp_st. rewrite Hpc. reflexivity.
  Qed.

  (* a requester's step_g that only moves its program counter, without (de)linearising it *)
  Lemma po_rec st st' i c c' :
    POInv st -> nth_error (g_reqs st) i = Some c -> g_reqs st' = set_nth i c' (g_reqs st) ->
    linearized c' = linearized c -> r_req c' = r_req c -> r_got c' = r_got c ->
    g_log st' = g_log st -> g_tail st' = g_tail st -> g_order st' = g_order st -> g_hub st' = g_hub st ->
    g_ppc st' = g_ppc st -> g_script st' = g_script st -> POInv st'.
  Proof.
    intros P Hc Hreqs Hl Hr Hg Hlog Htail Hord Hhub Hppc Hscr.
    apply (po_keep st); try assumption.
    - unfold serial, inflight. rewrite Hppc, Hlog, Htail. reflexivity.
    - unfold remaining. rewrite Hppc, Hhub, Hscr. reflexivity.
    - intros j. unfold req_sig. rewrite Hreqs, (rq_put _ _ _ _ _ Hc). destruct (Nat.eqb j i) eqn:E; [|reflexivity].
      apply Nat.eqb_eq in E. subst j. rewrite Hc, Hl, Hr. reflexivity.
    - intros j. unfold got_at. rewrite Hreqs, (rq_put _ _ _ _ _ Hc). destruct (Nat.eqb j i) eqn:E; [|reflexivity].
      apply Nat.eqb_eq in E. subst j. rewrite Hc, Hg. reflexivity.
  Qed.

  (* the request is entered: refused at the lookup, or appended *)
  Lemma po_lin st st' i c c' ext :
    POInv st -> nth_error (g_reqs st) i = Some c -> in_write_cs st = false ->
    g_reqs st' = set_nth i c' (g_reqs st) ->
    linearized c = false -> linearized c' = true -> r_req c' = r_req c -> r_got c' = r_got c ->
    g_log st' = g_log st ++ [(TReq i, XSub (r_req c))] -> g_tail st' = g_tail st ->
    g_order st' = g_order st ++ ext -> g_hub st' = g_hub st ->
    g_ppc st' = g_ppc st -> g_script st' = g_script st -> POInv st'.
  Proof.
    intros P Hc Hnw Hreqs Hl Hl' Hr Hg Hlog Htail Hord Hhub Hppc Hscr.
    destruct (inflight_none_pcs st Hnw) as [Hinf _].
    assert (Hinf' : inflight st' = None) by (unfold inflight; rewrite Hppc; exact Hinf).
    apply (po_req_op st st' i (r_req c) ext); try assumption.
    - unfold serial. rewrite Hinf, Hinf'. exact Hlog.
    - unfold remaining. rewrite Hppc, Hhub, Hscr. reflexivity.
    - rewrite (req_sig_at st i c Hc), Hl. reflexivity.
    - unfold req_sig. rewrite Hreqs, (rq_put _ _ _ _ _ Hc), Nat.eqb_refl, Hl', Hr. reflexivity.
    - intros j Hj. apply Nat.eqb_neq in Hj. unfold req_sig. rewrite Hreqs, (rq_put _ _ _ _ _ Hc), Hj. reflexivity.
    - intros j. unfold got_at. rewrite Hreqs, (rq_put _ _ _ _ _ Hc). destruct (Nat.eqb j i) eqn:E; [|reflexivity].
      apply Nat.eqb_eq in E. subst j. rewrite Hc, Hg. reflexivity.
  Qed.

  Lemma po_step_req st i : LockInv st -> POInv st -> POInv (req_step true st i).
  Proof.
    intros L P. unfold req_step. destruct (nth_error (g_reqs st) i) as [c|] eqn:Hc; [|exact P].
    destruct (r_pc c) as [| | | |snap| | |] eqn:Hpc.
    - destruct (negb (g_writer st) && negb (g_wpend st)); [|exact P].
      apply (po_rec st _ i c (set_rpc c RLocked) P Hc); try reflexivity.
      unfold linearized. cbn [set_rpc r_pc]. rewrite Hpc. reflexivity.
    - assert (Hnw : in_write_cs st = false)
        by (apply (read_cs_not_writer st i c L Hc); unfold in_read_cs; rewrite Hpc; reflexivity).
      destruct (request_burst (g_hub st) (r_req c)) as [burst|] eqn:Hb.
      + eapply (po_rec st _ i c _ P Hc); try reflexivity.
        unfold linearized. cbn [r_pc]. rewrite Hpc. reflexivity.
      + apply (po_lin st _ i c (set_rpc c RUnlocking) [] P Hc Hnw); try reflexivity.
        * unfold linearized. rewrite Hpc. reflexivity.
        * simp_st. rewrite app_nil_r. reflexivity.
    - destruct (g_mutex st); [exact P|].
      apply (po_rec st _ i c (set_rpc c RMutex) P Hc); try reflexivity.
      unfold linearized. cbn [set_rpc r_pc]. rewrite Hpc. reflexivity.
    - apply (po_rec st _ i c (set_rpc c (RRead (g_subs st))) P Hc); try reflexivity.
      unfold linearized. cbn [set_rpc r_pc]. rewrite Hpc. reflexivity.
    - assert (Hnw : in_write_cs st = false)
        by (apply (read_cs_not_writer st i c L Hc); unfold in_read_cs; rewrite Hpc; reflexivity).
      apply (po_lin st _ i c (set_rpc c RWritten) [i] P Hc Hnw); try reflexivity.
      unfold linearized. rewrite Hpc. reflexivity.
    - apply (po_rec st _ i c (set_rpc c RUnlocking) P Hc); try reflexivity.
      unfold linearized. cbn [set_rpc r_pc]. rewrite Hpc. reflexivity.
    - apply (po_rec st _ i c (set_rpc c RDone) P Hc); try reflexivity.
      unfold linearized. cbn [set_rpc r_pc]. rewrite Hpc. reflexivity.
    - exact P.
  Qed.

  Lemma po_step_cons st i : RegInv st -> POInv st -> POInv (cons_step st i).
  Proof.
    intros R P. destruct (cons_step_cases st i) as [E|[c [s [x [q [Hc [Hpc [Hs [Hq E]]]]]]]]]; rewrite E; [exact P|]. clear E.
    assert (Hio : In i (g_order st)).
    { apply (ri_order _ R). exists c. split; [exact Hc|]. unfold registered, linearized. rewrite Hpc, Hs. reflexivity. }
    assert (Hsig : forall st', g_reqs st' = set_nth i (recv_req c s x q) (g_reqs st) ->
                               (forall j, req_sig st' j = req_sig st j) /\
                               got_at st' i = got_at st i ++ [x] /\
                               (forall j, j <> i -> got_at st' j = got_at st j)).
    { intros st' Hreqs. split; [|split].
      - intros j. unfold req_sig. rewrite Hreqs, (rq_put _ _ _ _ _ Hc). destruct (Nat.eqb j i) eqn:E; [|reflexivity].
        apply Nat.eqb_eq in E. subst j. rewrite Hc. unfold linearized. cbn [recv_req r_pc r_req]. rewrite Hpc. reflexivity.
      - unfold got_at. rewrite Hreqs, (rq_put _ _ _ _ _ Hc), Nat.eqb_refl, Hc. reflexivity.
      - intros j Hj. apply Nat.eqb_neq in Hj. unfold got_at. rewrite Hreqs, (rq_put _ _ _ _ _ Hc), Hj. reflexivity. }
    destruct (inflight st) as [[e todo]|] eqn:Hinf.
    - destruct (memb i todo) eqn:Hm.
      + match goal with |- POInv ?X => destruct (Hsig X eq_refl) as [H1 [H2 H3]] end.
        apply (po_cons_op st _ i (g_log st) ((TProd, XFan e) :: g_tail st) x P); try assumption; try reflexivity.
        * unfold serial. rewrite Hinf. reflexivity.
        * unfold serial. unfold inflight in *. simp_st. rewrite Hinf. rewrite <- app_assoc. reflexivity.
      + match goal with |- POInv ?X => destruct (Hsig X eq_refl) as [H1 [H2 H3]] end.
        apply (po_cons_op st _ i (g_log st ++ (TProd, XFan e) :: g_tail st) [] x P); try assumption; try reflexivity.
        * unfold serial. rewrite Hinf, app_nil_r. reflexivity.
        * unfold serial. unfold inflight in *. simp_st. rewrite Hinf. rewrite <- app_assoc. reflexivity.
    - match goal with |- POInv ?X => destruct (Hsig X eq_refl) as [H1 [H2 H3]] end.
      apply (po_cons_op st _ i (g_log st) [] x P); try assumption; try reflexivity.
      + unfold serial. rewrite Hinf, app_nil_r. reflexivity.
      + unfold serial. unfold inflight in *. simp_st. rewrite Hinf. reflexivity.
  Qed.

  Definition FullInv (st : cstate) : Prop := AllInv hp h0 script st /\ POInv st.

  Lemma full_step st t : FullInv st -> FullInv (cstep_g true hp st t).
  Proof.
    intros [A P]. split; [apply all_step, A|]. destruct A as [L [R S]].
    destruct t as [|i|i]; cbn [cstep_g].
    - apply po_step_prod; assumption.
    - apply po_step_req; assumption.
    - apply po_step_cons; assumption.
  Qed.

  Lemma full_reachable reqs sched : FullInv (crun_g true hp (cinit h0 script reqs) sched).
  Proof.
    assert (H : forall st, FullInv st -> FullInv (crun_g true hp st sched)).
    { induction sched as [|t sched' IH]; intros st H; [exact H|]. apply IH, full_step, H. }
    apply H. split; [apply all_init | apply po_init].
  Qed.

End Order.
