(* C01 on the Forkable model in DISCOVERY mode (no configured LIB, hold-until-LIB) for ARBITRARY LIB
   declarations.  Blocks are stored without any delivery until SetLIB finds a LIB reference r: the block itself
   (its height is the first streamable block, or it declares its own height), or whatever BlockInCurrentChain
   returns for the declared number -- an id met on the walk from the new block, with a number that need not be
   its height.  From that step on the run is a run of the rooted mode with r as r0 (WildLibInv.v needs only
   the ID of r0).  The discovering step may deliver nothing at all (r is the new block itself with another
   number: the chain from the block to the LIB id is empty; or ReversibleSegment's guard fires): the first
   event delivered later still carries r as its LIB (first_lib of WildLibInv.v). *)
From BV Require Import Base.Prelude Model.Block Model.ForkDB Model.Forkable Spec.Consumer Spec.Universe
  Spec.C01_Spec Spec.C01_Moving_Spec Spec.C01_Roots_Spec Spec.C01_Wild_Spec
  Proofs.Fk.StoreFacts Proofs.Fk.WalkFacts Proofs.Fk.LoopFacts Proofs.Fk.StoreChange Proofs.Fk.SwitchFacts
  Proofs.Fk.FixedLib Proofs.Fk.RootsBase Proofs.Fk.MovingLibStore Proofs.Fk.MovingLibWalk Proofs.Fk.MovingLibLoops
  Proofs.Fk.MovingLibInv Proofs.Fk.MovingLibFin Proofs.Fk.MovingLibDisc Proofs.Fk.WildWalks Proofs.Fk.WildLibInv.
Local Open Scope N_scope.

Section WildDisc.
  Variable U : list block.
  Variable cfg : config.

  Hypothesis Hnofail : c_fail_at cfg = None.
  Hypothesis Hnew : f_new (c_filter cfg) = true.
  Hypothesis Hundo : f_undo (c_filter cfg) = true.
  Hypothesis Hhold : c_hold cfg = true.
  Hypothesis Hincl : c_incl cfg = false.

  Hypothesis U_id : forall b, In b U -> bid b <> 0 /\ bid b <> bparent b.
  Hypothesis U_uniq : forall x y, In x U -> In y U -> bid x = bid y -> x = y.
  Hypothesis U_up : forall x y, In x U -> In y U -> bparent x = bid y -> bnum y < bnum x.

  Notation first := (c_first cfg).
  Notation in_U := (in_U U).
  Notation PreInv := (PreInv U cfg).
  Notation WInv := (WildLibInv.Inv U).
  Notation WDbInv := (WildLibInv.DbInv U).
  Notation wknown := (WildLibInv.known).

  (* ---------- ProcessBlock before the discovery (as in MovingLibDisc.v, without any hypothesis on declarations) ---------- *)

  Lemma pre_step_old' s b e : PreInv s -> In b U -> find (bid b) (store (db s)) = Some e ->
    fk_step cfg s b = (s, [], ROk).
  Proof.
    intros HP Hb Hf. pose proof HP as [Hl He Hnd HU Hun Hls Hlls Hrt]. destruct (U_id b Hb) as (H1 & H3).
    pose proof (pre_wf U cfg U_id U_up s HP) as Hwf.
    pose proof (stored_is_self U U_uniq _ _ _ HU Hb Hf) as Eb.
    pose proof (find_some _ _ _ Hf) as [Hin _].
    unfold fk_step. destruct (N.eqb_spec (bid b) (bparent b)); [contradiction|].
    rewrite Hl, Hls, Hincl. cbn [rn ref_empty andb].
    replace (bnum b <? 0) with false by lia. cbn [andb].
    assert (Hsw : (if f_undo (c_filter cfg) && triggers cfg s b then ScssOk [] [] None else ScssOk [] [] None) = ScssOk [] [] None)
      by (destruct (f_undo (c_filter cfg) && triggers cfg s b); reflexivity).
    rewrite Hsw.
    destruct (N.eq_dec (bparent b) 0) as [E0|E0].
    - rewrite (add_link_root U U_id U_uniq _ _ _ Hnd HU Hb Hf E0 (Hun e Hin)).
      assert (Hs : with_db s (db s) = s) by (destruct s; reflexivity). rewrite Hs.
      assert (Hhl : has_lib (db s) = false) by (unfold has_lib; rewrite Hl; reflexivity).
      rewrite Hhl.
      destruct (Hrt e Hin) as [Hn1 Hn2]; [rewrite Eb; exact E0|]. rewrite Eb in Hn1, Hn2.
      unfold set_lib. change (rn (bref b)) with (bnum b).
      destruct (N.eqb_spec (bnum b) first) as [|_]; [contradiction|].
      unfold block_in_chain. change (rn (bref b)) with (bnum b). change (ri (bref b)) with (bid b).
      destruct (N.eqb_spec (bnum b) (blib b)) as [|_]; [contradiction|].
      unfold fuel_of. cbn [bic_loop]. rewrite (link_of_stored _ _ _ Hf), Eb, E0.
      unfold num_of. rewrite (find_zero_wf _ Hwf), He. cbn [ri ref_empty N.eqb].
      rewrite Hs, Hhl, Hhold. reflexivity.
    - rewrite (add_link_old U U_id U_uniq _ _ _ HU Hb Hf E0). reflexivity.
  Qed.

  Lemma fk_step_pre' s b : PreInv s -> In b U -> find (bid b) (store (db s)) = None ->
    fk_step cfg s b =
      let d1 := new_db (db s) b in
      match set_lib d1 first (bref b) (blib b) with
      | None => (with_db s d1, [], RFuel)
      | Some d2 =>
          let s2 := with_db s d2 in
          if has_lib d2 then
            if rn (libref d2) =? bnum b then
              let '(s', evs, ok) := process_initial_inclusive cfg b s2 in (s', evs, if ok then ROk else RHandlerErr)
            else
              match reversible_segment d2 first (bref b) with
              | None => (s2, [], RFuel)
              | Some (longest, _) =>
                  if (match longest with [] => true | _ => false end) then (s2, [], ROk)
                  else process_tail cfg s2 b [] [] None longest (block_for_id d2 (ri (libref d2)))
              end
          else (s2, [], ROk)
      end.
  Proof.
    intros [Hl He Hnd HU Hun Hls Hlls Hrt] Hb Hf. destruct (U_id b Hb) as (H1 & H3).
    unfold fk_step. destruct (N.eqb_spec (bid b) (bparent b)); [contradiction|].
    rewrite Hl, Hls, Hincl. cbn [rn ref_empty andb].
    replace (bnum b <? 0) with false by lia. cbn [andb].
    rewrite (add_link_new U U_id _ _ Hb Hf).
    assert (Hhl : has_lib (new_db (db s) b) = false).
    { unfold has_lib, new_db. cbn [libref]. rewrite Hl. reflexivity. }
    rewrite Hhl. cbv zeta.
    destruct (f_undo (c_filter cfg) && triggers cfg s b);
      (destruct (set_lib (new_db (db s) b) first (bref b) (blib b)) as [d2|]; [|reflexivity];
       cbv beta iota delta [with_db db last_sent last_lib_seen ncalls];
       destruct (has_lib d2); [|rewrite Hhold; reflexivity];
       destruct (rn (libref d2) =? bnum b); [reflexivity|];
       destruct (reversible_segment d2 first (bref b)) as [[longest reach]|]; [|reflexivity];
       unfold triggers; rewrite Hls, orb_true_r; cbn [negb orb]; reflexivity).
  Qed.

  (* ---------- the step that discovers the LIB ---------- *)

  Definition DiscOut (s : fstate) (b : block) (res : fstate * list event * result) : Prop :=
    exists s' evs r Fin S',
      res = (s', evs, ROk) /\ ri r <> 0 /\
      apply_all (ri r) [] evs = Some S' /\
      WInv r cfg s' Fin S' /\
      match evs with e0 :: _ => ri (elib e0) = ri r | [] => last_sent s' = None end /\
      (forall x, In x U -> In (bid x) (keys (store (db s)) ++ [bid b]) -> wknown s' x) /\
      libref (db s') = r /\ (exists bl, In bl U /\ bid bl = ri r).

  (* the forkdb right after SetLIB set the LIB reference to r (nothing sent yet, no purge) *)
  Lemma dbinv_found s b r : PreInv s -> In b U -> find (bid b) (store (db s)) = None -> ri r <> 0 ->
    WDbInv (move_lib (new_db (db s) b) r).
  Proof.
    intros [Hl He Hnd HU Hun Hls Hlls Hrt] Hb Hf Hr.
    assert (Hk : ~ In (bid b) (keys (store (db s)))) by (apply find_none; exact Hf).
    constructor; cbn [move_lib new_db store extra libref].
    - rewrite keys_snoc. apply nodup_snoc; assumption.
    - intros e Hin. apply in_app_or in Hin as [Hin|[<-|[]]]; [apply HU; exact Hin | exact Hb].
    - exact Hr.
    - left. exact He.
    - intros e Hin Hs. exfalso. apply in_app_or in Hin as [Hin|[<-|[]]]; [rewrite (Hun e Hin) in Hs|]; discriminate.
    - intros e Hin _. apply in_app_or in Hin as [Hin|[<-|[]]]; [apply Hun; exact Hin | reflexivity].
  Qed.

  (* the new block is its own LIB: New + Irreversible through processInitialInclusiveIrreversibleBlock *)
  Lemma own_out s b : PreInv s -> In b U -> find (bid b) (store (db s)) = None ->
    DiscOut s b (let '(s', evs, ok) := process_initial_inclusive cfg b (with_db s (move_lib (new_db (db s) b) (bref b))) in
                 (s', evs, if ok then ROk else RHandlerErr)).
  Proof.
    intros HP Hb Hf. pose proof HP as [Hl He Hnd HU Hun Hls Hlls Hrt].
    assert (Hr : ri (bref b) <> 0) by (apply (U_id b Hb)).
    pose proof (dbinv_found s b (bref b) HP Hb Hf Hr) as Hd2.
    set (d2 := move_lib (new_db (db s) b) (bref b)) in *. set (s2 := with_db s d2).
    destruct (pii_ok cfg Hnofail Hnew b s2) as (s' & ev & evI & Hrun & Hst & Hbk & Hel & Hdb & Hls' & HsI & HmI).
    rewrite Hrun. cbv beta iota.
    assert (Hdb' : db s' = d2) by (rewrite Hdb; reflexivity).
    exists s', (ev :: evI), (bref b), [b], [b]. split; [reflexivity|]. split; [exact Hr|].
    split.
    { cbn [apply_all]. unfold apply_ev. rewrite Hst, Hbk. unfold root_ok. cbn [bref ri]. rewrite N.eqb_refl. cbn [orb].
      apply apply_all_inert. eapply Forall_impl; [|exact HsI]. cbn beta. auto. }
    split.
    { constructor; rewrite ?Hdb'.
      - exact Hd2.
      - reflexivity.
      - rewrite Hls'. split; [exact Hb|]. exists []. split; [constructor|]. split; [reflexivity | constructor]. }
    split.
    { rewrite Hel. unfold cursor_lib, s2. cbn [with_db last_lib_seen db]. rewrite Hlls. reflexivity. }
    split; [intros x Hx Hin; left; rewrite Hdb'; cbn [d2 move_lib new_db store]; rewrite keys_snoc; exact Hin|].
    split; [rewrite Hdb'; reflexivity|]. exists b. split; [exact Hb | reflexivity].
  Qed.

  (* the LIB part of the discovering step: the LIB reference does not change; if the LIB block is stored it is
     announced (Irreversible) and PurgeBeforeLIB runs *)
  Lemma disc_lib s3 S3 b evs r fi :
    WInv r cfg s3 [] S3 -> libref (db s3) = r -> last_sent s3 = Some b -> In b U -> ri r <> 0 ->
    block_in_chain (db s3) (bref b) (blib b) = Some r ->
    (* what BlockInCurrentChain knows about r: stored, at least as high as its number *)
    (exists e', find (ri r) (store (db s3)) = Some e' /\ rn r <= bnum (eb e')) ->
    exists s' evQ,
      lib_tail cfg s3 b evs fi = (s', evs ++ evQ, ROk) /\
      WInv r cfg s' [] S3 /\ last_sent s' = Some b /\
      Forall (WildLibInv.quiet) evQ /\
      (forall x, In x U -> In (bid x) (keys (store (db s3))) -> wknown s' x) /\
      libref (db s') = r.
  Proof.
    intros HI Hlib Hls Hb Hr Hbic (e' & Fe' & Hnum).
    pose proof HI as [Hd Hflast Hh]. rewrite Hls in Hh. destruct Hh as (_ & q & Hq & HS & Hsent).
    pose proof Hd as [Hnd HU Hlid Hextra Hlc Hrt].
    pose proof (WildLibInv.di_wf U U_id U_up _ Hd) as Hwf.
    rewrite Hlib in Hq.
    assert (Hstay : forall x, In x U -> In (bid x) (keys (store (db s3))) -> wknown s3 x) by (intros x _ H; left; exact H).
    unfold lib_tail. cbv beta iota zeta. rewrite Hls, (WildLibInv.di_has_lib U _ Hd). cbn [negb].
    rewrite Hbic. destruct (N.eqb_spec (ri r) 0) as [E0|_]; [contradiction|].
    unfold has_new_irr_segment. rewrite Hlib, N.eqb_refl. cbn [negb andb app].
    destruct fi as [sg|].
    2:{ exists s3, []. rewrite app_nil_r. split; [reflexivity|]. split; [exact HI|]. split; [exact Hls|]. split; [constructor|]. split; [exact Hstay | exact Hlib]. }
    cbv zeta.
    assert (Hpur : forall pe, In pe (store (db s3)) -> esent pe = true -> bnum (eb pe) < rn r - c_kept cfg ->
                   ~ WildLibInv.anc U (key pe) (ri r)).
    { intros pe Hpe Hps Hlow Ha. pose proof (find_some _ _ _ Fe') as [He'in He'k].
      pose proof (WildLibInv.anc_lt U r cfg U_id U_uniq U_up Hr _ _ Ha (eb pe) (eb e') (HU pe Hpe) eq_refl (HU e' He'in) He'k). lia. }
    destruct (WildLibInv.dbinv_purge_gen U (db s3) r (c_kept cfg) Hd Hr (or_introl (eq_sym (f_equal ri Hlib))) Hpur) as (Hd' & Hl' & Hst').
    set (d' := purge_before_lib (move_lib (db s3) r) (c_kept cfg)) in *.
    assert (Hc' : chain (store d') (bid b) (ri r) q).
    { rewrite Hst'. apply chain_filter; [exact Hnd | exact Hq|].
      intros e He. pose proof (chain_above_bottom _ _ _ _ e' Hwf Hq Fe' e He). apply N.leb_le. lia. }
    destruct (process_irr_segment_ok cfg Hnofail [sg] sg [] (bref b) (with_db s3 d') eq_refl)
      as (s5 & ev5 & Hrun5 & Hdb5 & Hls5 & Hlls5 & Hm5 & Hs5).
    rewrite Hrun5. cbv beta iota. cbn [negb].
    destruct (process_stalled_segment_ok cfg Hnofail [] (bref b) s5)
      as (s6 & ev6 & Hrun6 & (Hdb6 & Hls6 & Hlls6) & Hm6 & Hs6).
    rewrite Hrun6. cbv beta iota.
    assert (Hdb : db s6 = d') by (rewrite Hdb6, Hdb5; reflexivity).
    assert (Hlast : last_sent s6 = Some b) by (rewrite Hls6, Hls5; exact Hls).
    exists s6, (ev5 ++ ev6). split; [reflexivity|]. split; [|split; [exact Hlast|split; [|split; [|rewrite Hdb; exact Hl']]]].
    - constructor; rewrite ?Hdb.
      + exact Hd'.
      + cbn [rev]. rewrite Hl'. reflexivity.
      + rewrite Hlast. split; [exact Hb|]. exists q. rewrite Hl'. split; [exact Hc'|]. split; [exact HS | exact Hsent].
    - apply Forall_app. split; (eapply Forall_impl; [|eassumption]); cbn beta; unfold WildLibInv.quiet; auto.
    - intros x Hx Hkx. apply in_map_iff in Hkx as (e & Hke & He).
      assert (Ex : eb e = x) by (apply U_uniq; [apply HU; exact He | exact Hx | exact Hke]).
      destruct (rn r - c_kept cfg <=? bnum (eb e)) eqn:Fe.
      + left. rewrite Hdb, Hst'. rewrite <- Hke. apply (in_map key). apply filter_In. split; [exact He | exact Fe].
      + right. unfold dropped. rewrite Hlast, Hdb, Hl'. apply N.leb_gt in Fe. rewrite Ex in Fe.
        apply andb_true_iff. split; [apply N.ltb_lt; lia | reflexivity].
  Qed.

  (* the links and numbers of a store whose entries were only flagged *)
  Lemma marked_links d d3 segs : store d3 = mark_all (store d) segs -> extra d3 = extra d ->
    (forall x, link_of d3 x = link_of d x) /\ (forall x, num_of d3 x = num_of d x) /\
    length (store d3) = length (store d).
  Proof.
    intros Hst Hex. split; [|split].
    - intros x. unfold link_of. rewrite Hst, find_mark_all. destruct (find x (store d)); cbn [option_map]; [rewrite flag_if_eb|]; reflexivity.
    - intros x. unfold num_of. rewrite Hst, Hex, find_mark_all. destruct (find x (store d)); cbn [option_map]; [rewrite flag_if_eb|]; reflexivity.
    - pose proof (mark_all_keys segs (store d)) as Hk. rewrite <- Hst in Hk.
      unfold keys in Hk. apply (f_equal (@length N)) in Hk. rewrite !map_length in Hk. exact Hk.
  Qed.

  (* ---------- one ProcessBlock call before the discovery ---------- *)

  Definition PreQuiet (s : fstate) (b : block) (res : fstate * list event * result) : Prop :=
    exists s', res = (s', [], ROk) /\ PreInv s' /\
      (In (bid b) (keys (store (db s))) -> s' = s) /\
      (forall k, In k (keys (store (db s))) -> In k (keys (store (db s')))) /\
      In (bid b) (keys (store (db s'))).

  Lemma pre_step s b : PreInv s -> In b U ->
    PreQuiet s b (fk_step cfg s b) \/
    (~ In (bid b) (keys (store (db s))) /\ DiscOut s b (fk_step cfg s b)).
  Proof.
    intros HP Hb. pose proof HP as [Hl He Hnd HU Hun Hls Hlls Hrt].
    destruct (find (bid b) (store (db s))) as [e|] eqn:Hf.
    { left. rewrite (pre_step_old' s b e HP Hb Hf). exists s. split; [reflexivity|]. split; [exact HP|].
      split; [auto|]. split; [auto|]. apply find_is_some_in. eauto. }
    assert (Hk : ~ In (bid b) (keys (store (db s)))) by (apply find_none; exact Hf).
    rewrite (fk_step_pre' s b HP Hb Hf). cbv zeta.
    set (en := mkEntry b false). set (d1 := new_db (db s) b).
    assert (Hl1 : libref d1 = ref_empty) by exact Hl.
    assert (He1 : extra d1 = None) by exact He.
    assert (Hnd1 : NoDup (keys (store d1))).
    { unfold d1. cbn [new_db store]. rewrite keys_snoc. apply nodup_snoc; assumption. }
    assert (HU1 : in_U (store d1)).
    { unfold d1. cbn [new_db store]. intros e Hin. apply in_app_or in Hin as [Hin|[<-|[]]]; [apply HU; exact Hin | exact Hb]. }
    pose proof (wf_of_U U U_id U_up _ Hnd1 HU1) as Hwf1.
    assert (Hfb : find (bid b) (store d1) = Some en).
    { unfold d1. cbn [new_db store]. apply (find_snoc_new (store (db s)) en). exact Hk. }
    assert (Hz1 : num_of d1 0 = None).
    { unfold num_of. rewrite (find_zero_wf _ Hwf1), He1. reflexivity. }
    assert (Hhl1 : has_lib d1 = false) by (unfold has_lib; rewrite Hl1; reflexivity).
    assert (Hown : forall d2, d2 = move_lib d1 (bref b) ->
              DiscOut s b
              (if has_lib d2 then
                 if rn (libref d2) =? bnum b then
                   let '(s', evs, ok) := process_initial_inclusive cfg b (with_db s d2) in (s', evs, if ok then ROk else RHandlerErr)
                 else match reversible_segment d2 first (bref b) with
                      | None => (with_db s d2, [], RFuel)
                      | Some (longest, _) => if (match longest with [] => true | _ => false end) then (with_db s d2, [], ROk)
                                              else process_tail cfg (with_db s d2) b [] [] None longest (block_for_id d2 (ri (libref d2)))
                      end
               else (with_db s d2, [], ROk))).
    { intros d2 ->. unfold has_lib, move_lib, ref_eqb, ref_empty, bref. cbn [libref ri rn].
      destruct (N.eqb_spec (bid b) 0) as [E|E]; [exfalso; apply (proj1 (U_id b Hb)); exact E|]. cbn [andb negb].
      rewrite N.eqb_refl. apply own_out; assumption. }
    unfold set_lib. change (rn (bref b)) with (bnum b).
    destruct (N.eqb_spec (bnum b) first) as [|Hnf].
    { right. split; [exact Hk|]. cbv beta iota. apply (Hown _ eq_refl). }
    destruct (bic_spec d1 (bref b) (blib b) Hwf1 Hz1) as (r & Hbic & Hspec). rewrite Hbic.
    destruct (N.eqb_spec (ri r) 0) as [E0|E0].
    { (* nothing found: hold *)
      left. cbv beta iota. rewrite Hhl1.
      exists (with_db s d1). split; [reflexivity|]. split.
      - apply (pre_add U cfg s b HP Hb Hf). intros _. split; [exact Hnf|].
        intros E. unfold block_in_chain in Hbic. change (rn (bref b)) with (bnum b) in Hbic.
        rewrite E, N.eqb_refl in Hbic. injection Hbic as <-. apply (proj1 (U_id b Hb)). exact E0.
      - split; [intros H; contradiction|]. cbn [with_db db d1 new_db store]. rewrite keys_snoc. split.
        + intros k Hin. apply in_or_app. left. exact Hin.
        + apply in_or_app. right. left. reflexivity. }
    destruct Hspec as [Z|(Hreach & Hnum)]; [contradiction|]. cbn [bref ri] in Hreach, Hnum.
    right. split; [exact Hk|]. cbv beta iota.
    pose proof (dbinv_found s b r HP Hb Hf E0) as Hd2.
    set (d2 := move_lib d1 r) in *. fold d1 in Hd2.
    assert (Hhl2 : has_lib d2 = true) by (apply has_lib_true; exact E0).
    rewrite Hhl2. change (rn (libref d2)) with (rn r). change (ri (libref d2)) with (ri r).
    destruct (N.eqb_spec (rn r) (bnum b)) as [Ern|Ern].
    { (* the reference carries the height of the new block: it IS the new block *)
      assert (Er : r = bref b).
      { destruct (N.eq_dec (ri r) (bid b)) as [Eid|Nid].
        - destruct r as [i n]. cbn [ri rn] in *. subst. reflexivity.
        - exfalso. destruct Hnum as [Eid|[Hsto Hnum]]; [contradiction|].
          unfold num_of in Hsto. rewrite He1 in Hsto.
          destruct (find (ri r) (store d1)) as [e'|] eqn:Fe'; [|congruence].
          specialize (Hnum e' eq_refl).
          pose proof (reach_lt _ Hwf1 _ _ Hreach (fun E => Nid (eq_sym E)) en e' Hfb Fe') as Hlt. cbn [eb en] in Hlt. lia. }
      unfold d2. rewrite Er. apply own_out; assumption. }
    (* a LIB reference other than the new block itself *)
    set (s2 := with_db s d2).
    assert (Hun2 : forall e, In e (store d2) -> esent e = false).
    { intros e Hin. cbn [d2 move_lib store d1 new_db] in Hin.
      apply in_app_or in Hin as [Hin|[<-|[]]]; [apply Hun; exact Hin | reflexivity]. }
    assert (HI2 : WInv r cfg s2 [] []).
    { constructor.
      - exact Hd2.
      - reflexivity.
      - cbn [s2 with_db last_sent]. rewrite Hls. split; [reflexivity|]. split; [reflexivity|]. split; [exact Hun2|].
        split; [rewrite Hincl; discriminate|]. unfold cursor_lib, s2. cbn [with_db last_lib_seen db]. rewrite Hlls. reflexivity. }
    assert (Hk2 : keys (store d2) = keys (store (db s)) ++ [bid b]).
    { cbn [d2 move_lib store d1 new_db]. apply keys_snoc. }
    destruct (rs_total d2 first Hwf1 (fuel_of d2) (bid b) (bnum b) [] (enough_fuel_of _ _)) as [[longest rch] Hrs].
    unfold reversible_segment. cbn [bref ri rn]. rewrite Hrs.
    destruct longest as [|sg0 sgs] eqn:Elong.
    { (* nothing to deliver yet: the LIB is known, the stream has not started *)
      exists s2, [], r, [], []. split; [reflexivity|]. split; [exact E0|]. split; [reflexivity|]. split; [exact HI2|].
      split; [exact Hls|]. split; [intros x Hx Hin; left; cbn [s2 with_db db]; rewrite Hk2; exact Hin|].
      split; [reflexivity|].
      destruct Hnum as [Eid|[Hsto _]]; [exists b; split; [exact Hb | symmetry; exact Eid]|].
      unfold num_of in Hsto. rewrite He1 in Hsto.
      destruct (find (ri r) (store d1)) as [e'|] eqn:Fe'; [|congruence].
      pose proof (find_some _ _ _ Fe') as [He'in He'k]. exists (eb e'). split; [apply HU1; exact He'in | exact He'k]. }
    rewrite <- Elong in *.
    assert (Hshape : exists pP, chain (store d2) (bid b) (ri r) (pP ++ [en]) /\ longest = map seg_of (pP ++ [en])).
    { destruct rch.
      - apply rs_sound in Hrs.
        2:{ intros e' He'. cbn [d2 move_lib store] in He'. rewrite Hfb in He'. injection He' as <-. reflexivity. }
        destruct Hrs as (p & Hc & Hp & _). rewrite app_nil_r in Hp. cbn [d2 move_lib libref] in Hc.
        destruct p as [|e' p' _] using rev_ind.
        + rewrite Hp in Elong. discriminate.
        + destruct (chain_top _ _ _ _ _ Hc) as [Hf' _]. cbn [d2 move_lib store] in Hf'. rewrite Hfb in Hf'. injection Hf' as <-.
          exists p'. auto.
      - apply (rs_false_nil cfg d2 Hhl2) in Hrs. rewrite Hrs in Elong. discriminate. }
    destruct Hshape as (pP & Hc & Hlong). rewrite Hlong.
    assert (Hnsd2 : WildLibInv.nsd U (db s2) (bid b)).
    { intros e0 He0 Hs0. rewrite (Hun2 e0 He0) in Hs0. discriminate. }
    destruct (WildLibInv.trigger_first U r cfg Hnofail Hnew Hundo U_id U_uniq U_up E0
                s2 [] [] b pP [] pP [] None (block_for_id d2 (ri r)) HI2 Hb Hc eq_refl (Forall_nil _) eq_refl Hnsd2)
      as (s3 & evU & evRN & Hrun & Happ & HI3 & Hk3 & Hls3 & Hlr3 & Hnsd3 & Hcl3 & Hne3 & Hst3 & Hex3).
    assert (HfB : filter esent pP = []).
    { assert (G : forall x, In x pP -> esent x = false).
      { intros x Hx. apply Hun2. eapply chain_in; [exact Hc|]. apply in_or_app. left. exact Hx. }
      clear -G. induction pP as [|h t IHt]; cbn [filter]; [reflexivity|].
      rewrite (G h (or_introl eq_refl)). apply IHt. intros x Hx. apply G. right. exact Hx. }
    cbn [rev] in Hrun. rewrite HfB in Hrun. fold en in Hrun. rewrite Hrun.
    (* BlockInCurrentChain answers r again on the flagged store *)
    destruct (marked_links (db s2) (db s3) _ Hst3 Hex3) as (Hlk & Hnm & Hlen).
    assert (Hbic3 : block_in_chain (db s3) (bref b) (blib b) = Some r).
    { rewrite <- Hbic. apply bic_ext; [exact Hlk | exact Hnm | exact Hlen]. }
    assert (Hsto3 : exists e', find (ri r) (store (db s3)) = Some e' /\ rn r <= bnum (eb e')).
    { destruct (chain_snoc_inv _ _ _ _ _ Hc) as (Hne1 & _ & _).
      destruct Hnum as [Eid|[Hsto Hnum]]; [exfalso; apply Hne1; symmetry; exact Eid|].
      unfold num_of in Hsto. rewrite He1 in Hsto.
      destruct (find (ri r) (store d1)) as [e'|] eqn:Fe'; [|congruence].
      exists (flag_if (map sid (unsent (map seg_of (pP ++ [en])))) e'). split.
      - rewrite Hst3, find_mark_all. cbn [s2 with_db db d2 move_lib store]. rewrite Fe'. reflexivity.
      - rewrite flag_if_eb. apply Hnum. reflexivity. }
    destruct (disc_lib s3 _ b (evU ++ evRN) r (block_for_id d2 (ri r)) HI3 Hlr3 Hls3 Hb E0 Hbic3 Hsto3)
      as (s' & evQ & Hlt & HI' & Hls' & HsQ & Hkn & Hlr').
    rewrite Hlt.
    exists s', ((evU ++ evRN) ++ evQ), r, [], (rev ([] ++ map eb (pP ++ [en]))).
    split; [reflexivity|]. split; [exact E0|]. split.
    { rewrite (apply_all_app _ _ _ _ _ Happ). apply apply_all_inert. exact HsQ. }
    split; [exact HI'|]. split.
    { destruct (evU ++ evRN) as [|e0 rest] eqn:Eev; [congruence|]. cbn [app].
      pose proof (Forall_inv Hcl3) as He0. cbn beta in He0. rewrite He0.
      unfold cursor_lib, s2. cbn [with_db last_lib_seen db]. rewrite Hlls. reflexivity. }
    split; [intros x Hx Hin; apply Hkn; [exact Hx|]; rewrite Hk3; cbn [s2 with_db db]; rewrite Hk2; exact Hin|].
    split; [exact Hlr'|].
    destruct Hsto3 as (e3 & Fe3 & _). pose proof (find_some _ _ _ Fe3) as [He3in He3k].
    exists (eb e3). split; [apply (WildLibInv.di_inU U _ (WildLibInv.i_db U r cfg _ _ _ HI3)); exact He3in | exact He3k].
  Qed.

  (* ---------- whole histories ---------- *)

  Definition PSeen (s : fstate) (seen : list block) : Prop :=
    forall x, In x seen -> In x U /\ In (bid x) (keys (store (db s))).

  (* the consumer accepts the events when rooted at the LIB id carried by the first of them *)
  Definition disc_ok (t : trace) : Prop :=
    exists S', apply_all (root_lib LNone t) [] (all_events t) = Some S'.

  Lemma run_pre : forall h s seen, PreInv s -> (forall b, In b h -> In b U) -> PSeen s seen ->
    let t := fk_run cfg s h in
    length t = length h /\ Forall (fun x => snd x = ROk) t /\
    disc_ok t /\
    (lib_mono_b cfg s h = true -> c01_refeed_b seen h t = true) /\
    ((forall x, In x U -> first < bnum x) -> lib_mono_b cfg s h = true) /\
    ((forall x, In x U -> first <= bnum x) -> lib_mono_b cfg s h = true).
  Proof.
    induction h as [|b h IH]; intros s seen HP Hh Hseen.
    - cbn. repeat split; auto. exists []. reflexivity.
    - assert (Hb : In b U) by (apply Hh; left; reflexivity).
      assert (Hh' : forall x, In x h -> In x U) by (intros x Hx; apply Hh; right; exact Hx).
      assert (Hl0 : rn (libref (db s)) = 0) by (rewrite (pre_lib U cfg s HP); reflexivity).
      cbn [fk_run lib_mono_b].
      destruct (pre_step s b HP Hb) as [(s' & Hstep & HP' & Hsame & Hkeys & Hkb)|(Hnk & Hdisc)].
      + (* nothing delivered *)
        rewrite Hstep.
        assert (Hseen' : PSeen s' (b :: seen)).
        { intros x [<-|Hx]; [split; assumption|]. destruct (Hseen x Hx) as [HxU Hkx]. split; [exact HxU | apply Hkeys; exact Hkx]. }
        destruct (IH s' (b :: seen) HP' Hh' Hseen') as (Hlen & Hok & Hd & Hre & Hmn & Hmm).
        cbn zeta in *. split; [cbn [length]; rewrite Hlen; reflexivity|].
        split; [constructor; [reflexivity | exact Hok]|].
        split; [exact Hd|]. split; [|split].
        * intros Hm. apply andb_true_iff in Hm as [_ Hm].
          cbn [c01_refeed_b]. rewrite (Hre Hm). destruct (existsb (block_eqb b) seen); reflexivity.
        * intros Hfirst. rewrite (Hmn Hfirst), andb_true_r, Hl0. apply N.leb_le. lia.
        * intros Hle. rewrite (Hmm Hle), andb_true_r, Hl0. apply N.leb_le. lia.
      + (* the LIB is discovered *)
        destruct Hdisc as (s' & evs & r & Fin & S' & Hstep & Hr & Happ & HI' & Hfirst & Hkn & Hlr' & Hbl).
        rewrite Hstep.
        assert (Hseen' : WildLibInv.Seen U s' (b :: seen)).
        { intros x [<-|Hx].
          - split; [exact Hb|]. apply (Hkn b Hb). apply in_or_app. right. left. reflexivity.
          - destruct (Hseen x Hx) as [HxU Hkx]. split; [exact HxU|]. apply (Hkn x HxU). apply in_or_app. left. exact Hkx. }
        destruct (WildLibInv.run_wild U r cfg Hnofail Hnew Hundo U_id U_uniq U_up Hr
                    h s' Fin S' (b :: seen) HI' Hh' Hseen') as (Hlen & Hok & (S2 & Happ2) & Hre & Hfl & Hmn & Hmm).
        cbn zeta in *. split; [cbn [length]; rewrite Hlen; reflexivity|].
        split; [constructor; [reflexivity | exact Hok]|].
        assert (Hall : all_events ((evs, ROk) :: fk_run cfg s' h) = evs ++ all_events (fk_run cfg s' h)).
        { unfold all_events. cbn [map concat fst]. reflexivity. }
        split; [|split; [|split]].
        * unfold disc_ok, root_lib. rewrite Hall.
          destruct evs as [|e0 rest].
          -- cbn [app]. unfold WildLibInv.first_lib in Hfl. specialize (Hfl Hfirst).
             cbn [apply_all] in Happ. injection Happ as <-.
             destruct (all_events (fk_run cfg s' h)) as [|e1 rest1] eqn:Eall.
             ++ exists []. reflexivity.
             ++ rewrite Hfl. exists S2. exact Happ2.
          -- cbn [app]. rewrite Hfirst. exists S2.
             change (e0 :: rest ++ all_events (fk_run cfg s' h)) with ((e0 :: rest) ++ all_events (fk_run cfg s' h)).
             rewrite (apply_all_app _ _ _ _ _ Happ). exact Happ2.
        * intros Hm. apply andb_true_iff in Hm as [_ Hm].
          cbn [c01_refeed_b]. rewrite (Hre Hm), andb_true_r.
          destruct (existsb (block_eqb b) seen) eqn:Hex; [|reflexivity].
          apply existsb_exists in Hex as (x & Hx & Heq). apply block_eqb_eq in Heq. subst x.
          destruct (Hseen b Hx) as [_ Hkb]. contradiction.
        * intros Hab. rewrite (Hmn Hab), andb_true_r, Hl0. apply N.leb_le. lia.
        * intros Hle. rewrite Hl0. replace (0 <=? rn (libref (db s'))) with true by (symmetry; apply N.leb_le; lia).
          cbn [andb]. apply Hmm; [left; exact Hlr' | exact Hle | left; exact Hbl].
  Qed.

  Theorem wild_disc_run h : (forall b, In b h -> In b U) ->
    let t := fk_run cfg (fs_init LNone) h in
    length t = length h /\ Forall (fun x => snd x = ROk) t /\
    disc_ok t /\
    c01_discipline_b LNone t = true /\
    c01_error_b (c_fail_at cfg) 0 t = true /\
    (lib_mono_b cfg (fs_init LNone) h = true -> c01_refeed_b [] h t = true) /\
    ((forall x, In x U -> first < bnum x) -> lib_mono_b cfg (fs_init LNone) h = true) /\
    ((forall x, In x U -> first <= bnum x) -> lib_mono_b cfg (fs_init LNone) h = true).
  Proof.
    intros Hh. destruct (run_pre h (fs_init LNone) [] (pre_init U cfg) Hh) as (Hlen & Hok & Hd & Hre & Hmn & Hmm).
    { intros x []. }
    cbn zeta. repeat split; try assumption.
    - unfold c01_discipline_b. destruct Hd as [S' ->]. reflexivity.
    - rewrite Hnofail. apply error_ok. exact Hok.
  Qed.
End WildDisc.
