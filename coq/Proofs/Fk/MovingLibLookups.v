(* C18 at stream level, part 1: the lookups of Model/ForkableLookups.v on the states described by the
   moving-LIB invariant `Inv s Fin S` of MovingLibInv.v.
   (a) generic facts about the parent walks over a well-formed store: the maximal stored chain under an
       id, BlockInCurrentChain along it (`canon_walk`), CompleteSegment along it;
   (b) the supplement `Ext` of the invariant that the lookups need (final blocks are parent-linked, the
       LIB block is stored once something is final, final blocks in the kept window are stored, the
       store is bounded once the LIB has moved, a head implies a non-empty consumer stack) and its
       preservation by every ProcessBlock step (`step_x`);
   (c) the lookups of a state that satisfies `Inv` and `Ext`. *)
From BV Require Import Base.Prelude Model.Block Model.ForkDB Model.Forkable Model.ForkableLookups
  Spec.Consumer Spec.Universe
  Proofs.Fk.StoreFacts Proofs.Fk.WalkFacts Proofs.Fk.LoopFacts Proofs.Fk.StoreChange Proofs.Fk.SwitchFacts
  Proofs.Fk.FixedLib Proofs.Fk.MovingLibStore Proofs.Fk.MovingLibWalk Proofs.Fk.MovingLibLoops Proofs.Fk.MovingLibInv.
Local Open Scope N_scope.

(* ================================================================ (a) walks over a well-formed store *)

(* the maximal stored chain under an id: it ends on the first id that is not stored *)
Lemma chain_total l : wf_store l -> forall f x, enough l x f ->
  exists bot q, chain l x bot q /\ find bot l = None.
Proof.
  intros Hwf. induction f as [|f IH]; intros x He; [destruct He; lia|].
  destruct (find x l) as [e|] eqn:F.
  - destruct (IH (bparent (eb e))) as (bot & q & Hc & Hb); [eapply enough_parent; eassumption|].
    exists bot, (q ++ [e]). split; [|exact Hb]. econstructor; [|exact F|exact Hc].
    intros E. rewrite E in F. congruence.
  - exists x, []. split; [constructor | exact F].
Qed.

Lemma chain_trans l x y z p q : chain l x y p -> chain l y z q -> find z l = None -> chain l x z (q ++ p).
Proof.
  intros Hp Hq Hz. induction Hp as [x|x y e p Hne Hf Hc IH].
  - rewrite app_nil_r. exact Hq.
  - rewrite app_assoc. econstructor; [|exact Hf|apply IH; exact Hq].
    intros E. rewrite E in Hf. congruence.
Qed.

(* the entry under an entry of a maximal chain is the stored parent *)
Lemma chain_next l x bot A e B : chain l x bot (A ++ e :: B) -> find bot l = None ->
  forall e', find (bparent (eb e)) l = Some e' -> exists A', A = A' ++ [e'].
Proof.
  intros Hc Hbot e' Hf. pose proof (chain_prefix _ _ _ _ _ _ Hc) as Hp.
  destruct (chain_snoc_inv _ _ _ _ _ Hp) as (_ & _ & HA).
  destruct A as [|e0 A0 _] using rev_ind.
  - apply chain_nil_inv in HA. rewrite HA in Hf. congruence.
  - destruct (chain_top _ _ _ _ _ HA) as [Hf0 _]. rewrite Hf in Hf0. injection Hf0 as <-. exists A0. reflexivity.
Qed.

(* the lowest entry of a maximal chain is the one whose parent is not stored *)
Lemma chain_first l x bot A e B : chain l x bot (A ++ e :: B) -> find (bparent (eb e)) l = None -> A = [].
Proof.
  intros Hc Hf. pose proof (chain_prefix _ _ _ _ _ _ Hc) as Hp.
  destruct (chain_snoc_inv _ _ _ _ _ Hp) as (_ & _ & HA). exact (chain_unstored _ _ _ _ Hf HA).
Qed.

(* ---------- BlockInCurrentChain along a maximal chain ---------- *)

(* what CanonicalBlockAt makes of the reference returned by BlockInCurrentChain *)
Definition canon_of_ref (d : forkdb) (r : ref) : N :=
  if ri r =? 0 then 0 else match find (ri r) (store d) with Some _ => ri r | None => 0 end.

(* the walk of BlockInCurrentChain transcribed onto the list of blocks it meets: `anc` are the stored
   ancestors of the current block `cur`, newest first; `floor` is the number the walk attributes to
   the first id that is not stored (only the LIB registered by InitLIB has one) *)
Fixpoint canon_below (floor : option N) (anc : list block) (cur : N) (n : N) : N :=
  match anc with
  | [] => match floor with
          | Some pn => if pn =? n then 0 else if pn <? n then cur else 0
          | None => 0
          end
  | pr :: rest => if bnum pr =? n then bid pr else if bnum pr <? n then cur else canon_below floor rest (bid pr) n
  end.

(* seg: the retained chain of the head, newest first (head first) *)
Definition canon_walk (floor : option N) (seg : list block) (n : N) : N :=
  match seg with
  | [] => 0
  | hd :: anc => if bnum hd =? n then bid hd else canon_below floor anc (bid hd) n
  end.

Lemma bic_loop_walk d n bot : wf_store (store d) -> num_of d 0 = None -> find bot (store d) = None ->
  forall x q, chain (store d) x bot q -> forall p e, q = p ++ [e] ->
  forall f, enough (store d) x f ->
  exists r, bic_loop f d x n = Some r /\
            canon_of_ref d r = canon_below (num_of d bot) (map eb (rev p)) x n.
Proof.
  intros Hwf Hz Hbot x q Hc.
  induction Hc as [x|x y e0 p0 Hne Hf Hc IH]; intros p e Hq f He; [destruct p; discriminate|].
  apply app_inj_tail in Hq as [-> ->].
  destruct f as [|f]; [destruct He; lia|]. cbn [bic_loop]. rewrite (link_of_stored d x e Hf).
  pose proof (find_some _ _ _ Hf) as [Hin Hk].
  destruct (ws_id _ Hwf e Hin) as (Hid & _ & _).
  assert (Hx0 : x <> 0) by (unfold key in Hk; congruence).
  assert (Hcx : canon_of_ref d (mkR x n) = x).
  { unfold canon_of_ref. cbn [ri]. destruct (N.eqb_spec x 0); [contradiction|]. rewrite Hf. reflexivity. }
  pose proof (enough_parent _ _ _ _ Hwf Hf He) as He'.
  destruct p as [|e' p' _] using rev_ind.
  - (* the parent of e is the first id that is not stored *)
    apply chain_nil_inv in Hc. rewrite Hc. cbn [rev map canon_below].
    destruct (num_of d y) as [pn|] eqn:Hn.
    + destruct (N.eqb_spec pn n) as [E|E].
      * eexists. split; [reflexivity|]. unfold canon_of_ref. cbn [ri].
        destruct (N.eqb_spec y 0); [reflexivity|]. rewrite Hbot. reflexivity.
      * destruct (N.ltb_spec pn n) as [Lt|Lt]; [eexists; split; [reflexivity | exact Hcx]|].
        destruct f as [|f]; [destruct He'; lia|]. cbn [bic_loop]. unfold link_of. rewrite Hbot, Hz.
        eexists. split; [reflexivity|]. reflexivity.
    + eexists. split; [reflexivity|]. reflexivity.
  - destruct (chain_top _ _ _ _ _ Hc) as [Hf' Hk'].
    unfold num_of. rewrite Hf'. rewrite rev_app_distr. cbn [rev app map canon_below].
    pose proof (find_some _ _ _ Hf') as [Hin' _].
    destruct (ws_id _ Hwf e' Hin') as (Hid' & _ & _).
    destruct (N.eqb_spec (bnum (eb e')) n) as [E|E].
    + eexists. split; [reflexivity|]. unfold canon_of_ref. cbn [ri]. rewrite <- Hk'. unfold key.
      destruct (N.eqb_spec (bid (eb e')) 0); [contradiction|].
      fold (key e'). rewrite Hk', Hf'. reflexivity.
    + destruct (N.ltb_spec (bnum (eb e')) n) as [Lt|Lt]; [eexists; split; [reflexivity | exact Hcx]|].
      destruct (IH Hbot p' e' eq_refl f He') as (r & Hr & Hcr). exists r. split; [exact Hr|].
      rewrite Hcr. unfold key in Hk'. rewrite Hk'. reflexivity.
Qed.

Lemma bic_walk d n bot x q e : wf_store (store d) -> num_of d 0 = None -> find bot (store d) = None ->
  chain (store d) x bot q -> find x (store d) = Some e ->
  exists r, block_in_chain d (mkR x (bnum (eb e))) n = Some r /\
            canon_of_ref d r = canon_walk (num_of d bot) (map eb (rev q)) n.
Proof.
  intros Hwf Hz Hbot Hc Hf.
  destruct q as [|e0 p _] using rev_ind.
  { apply chain_nil_inv in Hc. subst. congruence. }
  destruct (chain_top _ _ _ _ _ Hc) as [Hf0 Hk0]. rewrite Hf in Hf0. injection Hf0 as <-.
  rewrite rev_app_distr. cbn [rev app map canon_walk]. unfold block_in_chain. cbn [rn ri].
  unfold key in Hk0.
  destruct (N.eqb_spec (bnum (eb e)) n) as [E|E].
  - eexists. split; [reflexivity|]. unfold canon_of_ref. cbn [ri].
    pose proof (find_some _ _ _ Hf) as [Hin _]. destruct (ws_id _ Hwf e Hin) as (Hid & _ & _).
    destruct (N.eqb_spec x 0); [congruence|]. rewrite Hf. symmetry. exact Hk0.
  - destruct (bic_loop_walk d n bot Hwf Hz Hbot x _ Hc p e eq_refl (fuel_of d) (enough_fuel_of d x)) as (r & Hr & Hcr).
    exists r. split; [exact Hr|]. rewrite Hcr, Hk0. reflexivity.
Qed.

(* a start id that is not stored *)
Lemma bic_unstored d x hn n : num_of d 0 = None -> find x (store d) = None ->
  exists r, block_in_chain d (mkR x hn) n = Some r /\ canon_of_ref d r = 0.
Proof.
  intros Hz Hf. unfold block_in_chain. cbn [rn ri]. destruct (hn =? n).
  - eexists. split; [reflexivity|]. unfold canon_of_ref. cbn [ri]. rewrite Hf. destruct (x =? 0); reflexivity.
  - unfold fuel_of. cbn [bic_loop]. unfold link_of. rewrite Hf, Hz. eexists. split; reflexivity.
Qed.

(* ---------- canon_walk on a list with strictly decreasing numbers ---------- *)

Lemma canon_below_hit floor n : forall R1 a R2 cur, (forall x, In x R1 -> n < bnum x) -> bnum a = n ->
  canon_below floor (R1 ++ a :: R2) cur n = bid a.
Proof.
  induction R1 as [|x R1 IH]; intros a R2 cur Hab Ha; cbn [app canon_below].
  - rewrite Ha, N.eqb_refl. reflexivity.
  - pose proof (Hab x (or_introl eq_refl)). destruct (N.eqb_spec (bnum x) n); [lia|].
    destruct (N.ltb_spec (bnum x) n); [lia|]. apply IH; [|exact Ha]. intros y Hy. apply Hab. right. exact Hy.
Qed.

Lemma canon_walk_hit floor n R1 a R2 : (forall x, In x R1 -> n < bnum x) -> bnum a = n ->
  canon_walk floor (R1 ++ a :: R2) n = bid a.
Proof.
  intros Hab Ha. destruct R1 as [|h R1]; cbn [app canon_walk].
  - rewrite Ha, N.eqb_refl. reflexivity.
  - pose proof (Hab h (or_introl eq_refl)). destruct (N.eqb_spec (bnum h) n); [lia|].
    apply canon_below_hit; [|exact Ha]. intros y Hy. apply Hab. right. exact Hy.
Qed.

(* the number the walk sees under a block of the list *)
Definition next_num (floor : option N) (R2 : list block) : option N :=
  match R2 with a1 :: _ => Some (bnum a1) | [] => floor end.

(* a height in a hole of the chain: the block above the hole *)
Lemma canon_below_gap floor n : forall R1 a R2 cur pn, (forall x, In x R1 -> n < bnum x) -> n < bnum a ->
  next_num floor R2 = Some pn -> pn < n ->
  canon_below floor (R1 ++ a :: R2) cur n = bid a.
Proof.
  induction R1 as [|x R1 IH]; intros a R2 cur pn Hab Ha Hnx Hpn; cbn [app canon_below].
  - destruct (N.eqb_spec (bnum a) n); [lia|]. destruct (N.ltb_spec (bnum a) n); [lia|].
    destruct R2 as [|a1 R2]; cbn [next_num] in Hnx; cbn [canon_below].
    + rewrite Hnx. destruct (N.eqb_spec pn n); [lia|]. destruct (N.ltb_spec pn n); [reflexivity | lia].
    + injection Hnx as Hnx. destruct (N.eqb_spec (bnum a1) n); [lia|]. destruct (N.ltb_spec (bnum a1) n); [reflexivity | lia].
  - pose proof (Hab x (or_introl eq_refl)). destruct (N.eqb_spec (bnum x) n); [lia|].
    destruct (N.ltb_spec (bnum x) n); [lia|]. eapply IH; eauto. intros y Hy. apply Hab. right. exact Hy.
Qed.

Lemma canon_walk_gap floor n R1 a R2 pn : (forall x, In x R1 -> n < bnum x) -> n < bnum a ->
  next_num floor R2 = Some pn -> pn < n ->
  canon_walk floor (R1 ++ a :: R2) n = bid a.
Proof.
  intros Hab Ha Hnx Hpn. destruct R1 as [|h R1]; cbn [app canon_walk].
  - destruct (N.eqb_spec (bnum a) n); [lia|].
    destruct R2 as [|a1 R2]; cbn [next_num] in Hnx; cbn [canon_below].
    + rewrite Hnx. destruct (N.eqb_spec pn n); [lia|]. destruct (N.ltb_spec pn n); [reflexivity | lia].
    + injection Hnx as Hnx. destruct (N.eqb_spec (bnum a1) n); [lia|]. destruct (N.ltb_spec (bnum a1) n); [reflexivity | lia].
  - pose proof (Hab h (or_introl eq_refl)). destruct (N.eqb_spec (bnum h) n); [lia|].
    eapply canon_below_gap; eauto. intros y Hy. apply Hab. right. exact Hy.
Qed.

(* above the head: the head, provided the walk sees a number under it *)
Lemma canon_walk_above floor n hd R2 pn : bnum hd < n -> next_num floor R2 = Some pn -> pn < n ->
  canon_walk floor (hd :: R2) n = bid hd.
Proof.
  intros Hh Hnx Hpn. cbn [canon_walk]. destruct (N.eqb_spec (bnum hd) n); [lia|].
  destruct R2 as [|a1 R2]; cbn [next_num] in Hnx; cbn [canon_below].
  - rewrite Hnx. destruct (N.eqb_spec pn n); [lia|]. destruct (N.ltb_spec pn n); [reflexivity | lia].
  - injection Hnx as Hnx. destruct (N.eqb_spec (bnum a1) n); [lia|]. destruct (N.ltb_spec (bnum a1) n); [reflexivity | lia].
Qed.

Lemma canon_walk_above_none n hd : bnum hd <> n -> canon_walk None [hd] n = 0.
Proof. intros H. cbn. destruct (N.eqb_spec (bnum hd) n); [contradiction | reflexivity]. Qed.

(* under every retained block: nothing, unless the walk sees a lower number under the lowest block *)
Lemma canon_below_under floor n : forall R cur, (forall x, In x R -> n < bnum x) ->
  (forall pn, floor = Some pn -> n <= pn) -> canon_below floor R cur n = 0.
Proof.
  induction R as [|x R IH]; intros cur Hab Hfl; cbn [canon_below].
  - destruct floor as [pn|]; [|reflexivity]. specialize (Hfl pn eq_refl).
    destruct (N.eqb_spec pn n); [reflexivity|]. destruct (N.ltb_spec pn n); [lia | reflexivity].
  - pose proof (Hab x (or_introl eq_refl)). destruct (N.eqb_spec (bnum x) n); [lia|].
    destruct (N.ltb_spec (bnum x) n); [lia|]. apply IH; [|exact Hfl]. intros y Hy. apply Hab. right. exact Hy.
Qed.

Lemma canon_walk_under floor n R : (forall x, In x R -> n < bnum x) ->
  (forall pn, floor = Some pn -> n <= pn) -> canon_walk floor R n = 0.
Proof.
  intros Hab Hfl. destruct R as [|h R]; [reflexivity|]. cbn [canon_walk].
  pose proof (Hab h (or_introl eq_refl)). destruct (N.eqb_spec (bnum h) n); [lia|].
  apply canon_below_under; [|exact Hfl]. intros y Hy. apply Hab. right. exact Hy.
Qed.

(* ---------- CompleteSegment along a maximal chain ---------- *)

Lemma cs_chain d bot : find bot (store d) = None ->
  forall x q, chain (store d) x bot q ->
  forall f cn acc reach, (length q < f)%nat ->
  (forall e, find x (store d) = Some e -> cn = bnum (eb e)) ->
  exists rch, cs_loop f d x cn acc reach = Some (map seg_of q ++ acc, rch) /\
    (reach = true -> rch = true) /\
    (In (ri (libref d)) (bot :: keys q) -> rch = true).
Proof.
  intros Hbot x q Hc. induction Hc as [x|x y e p Hne Hf Hc IH]; intros f cn acc reach Hlen Hcn.
  - destruct f as [|f]; [cbn in Hlen; lia|]. cbn [cs_loop]. rewrite Hbot.
    eexists. split; [reflexivity|]. split.
    + intros ->. reflexivity.
    + intros [E|[]]. rewrite E, N.eqb_refl. apply orb_true_r.
  - destruct f as [|f]; [cbn in Hlen; lia|]. cbn [cs_loop]. rewrite Hf.
    rewrite app_length in Hlen. cbn [length] in Hlen.
    destruct (IH Hbot f (num_or0 d (bparent (eb e))) (mkSeg x cn e :: acc) (reach || (x =? ri (libref d))))
      as (rch & Hrun & H1 & H2); [lia | intros e' He'; apply num_or0_stored; exact He' |].
    exists rch. split.
    + rewrite Hrun. rewrite map_app, <- app_assoc. cbn [map app]. unfold seg_of.
      rewrite (proj2 (find_some _ _ _ Hf)), <- (Hcn e Hf). reflexivity.
    + split.
      * intros ->. apply H1. reflexivity.
      * intros Hin. unfold keys in Hin. rewrite map_app in Hin. cbn [map] in Hin.
        destruct Hin as [E|Hin]; [apply H2; left; exact E|].
        apply in_app_or in Hin as [Hin|[E|[]]]; [apply H2; right; exact Hin|].
        apply H1. rewrite (proj2 (find_some _ _ _ Hf)) in E. rewrite E, N.eqb_refl. apply orb_true_r.
Qed.

Lemma complete_segment_chain d x hn bot q : wf_store (store d) -> find bot (store d) = None ->
  chain (store d) x bot q -> (forall e, find x (store d) = Some e -> hn = bnum (eb e)) ->
  exists rch, complete_segment d (mkR x hn) = Some (map seg_of q, rch) /\
    (In (ri (libref d)) (bot :: keys q) -> rch = true).
Proof.
  intros Hwf Hbot Hc Hn. unfold complete_segment. cbn [ri rn].
  destruct (cs_chain d bot Hbot x q Hc (fuel_of d) hn [] false) as (rch & Hrun & _ & H2).
  - pose proof (chain_length _ _ _ _ Hwf Hc). unfold fuel_of. lia.
  - exact Hn.
  - exists rch. rewrite app_nil_r in Hrun. auto.
Qed.
