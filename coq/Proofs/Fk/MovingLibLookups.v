(* C18 at stream level, part 1: the lookups of Model/ForkableLookups.v on the states described by the
   moving-LIB invariant `Inv s Fin S` of MovingLibInv.v.
   (a) generic facts about the parent walks over a well-formed store: the maximal stored chain under an
       id, BlockInCurrentChain along it (`canon_walk`), CompleteSegment along it;
   (b) the supplement `Ext` of the invariant that the lookups need (final blocks are parent-linked, the
       LIB block is stored once something is final, final blocks in the kept window are stored, the
       store is bounded once the LIB has moved, a head implies a non-empty consumer stack) and its
       preservation by every ProcessBlock step (`step_x`);
   (c) the lookups of a state that satisfies `Inv` and `Ext`. *)
From BV Require Import Base.Prelude Model.Block Model.ForkDB Model.Forkable Model.ForkableLookups
  Spec.Consumer Spec.Universe Spec.C18_Spec Spec.C18_Moving_Spec
  Proofs.Fk.StoreFacts Proofs.Fk.WalkFacts Proofs.Fk.LoopFacts Proofs.Fk.StoreChange Proofs.Fk.SwitchFacts
  Proofs.Fk.FixedLib Proofs.Fk.MovingLibStore Proofs.Fk.MovingLibWalk Proofs.Fk.MovingLibLoops Proofs.Fk.MovingLibInv.
From BV Require Spec.C09_Spec Proofs.C09_Proofs.
Local Open Scope N_scope.

(* ================================================================ (a) walks over a well-formed store *)

(* the maximal stored chain under an id: it ends on the first id that is not stored *)
Lemma chain_total l : wf_store l -> forall f x, enough l x f ->
  exists bot q, chain l x bot q /\ find bot l = None.
Proof.
  intros Hwf. induction f as [|f IH]; intros x He; [destruct He; lia|].
  destruct (find x l) as [e|] eqn:F.
  - destruct (IH (bparent (eb e))) as (bot & q & Hc & Hb); [eapply enough_parent; eassumption|].
    exists bot, (q ++ [e]). split; [|exact Hb]. econstructor; [|exact F|exact Hc].
    intros E. rewrite E in F. congruence.
  - exists x, []. split; [constructor | exact F].
Qed.

Lemma chain_trans l x y z p q : chain l x y p -> chain l y z q -> find z l = None -> chain l x z (q ++ p).
Proof.
  intros Hp Hq Hz. induction Hp as [x|x y e p Hne Hf Hc IH].
  - rewrite app_nil_r. exact Hq.
  - rewrite app_assoc. econstructor; [|exact Hf|apply IH; exact Hq].
    intros E. rewrite E in Hf. congruence.
Qed.

(* the entry under an entry of a maximal chain is the stored parent *)
Lemma chain_next l x bot A e B : chain l x bot (A ++ e :: B) -> find bot l = None ->
  forall e', find (bparent (eb e)) l = Some e' -> exists A', A = A' ++ [e'].
Proof.
  intros Hc Hbot e' Hf. pose proof (chain_prefix _ _ _ _ _ _ Hc) as Hp.
  destruct (chain_snoc_inv _ _ _ _ _ Hp) as (_ & _ & HA).
  destruct A as [|e0 A0 _] using rev_ind.
  - apply chain_nil_inv in HA. rewrite HA in Hf. congruence.
  - destruct (chain_top _ _ _ _ _ HA) as [Hf0 _]. rewrite Hf in Hf0. injection Hf0 as <-. exists A0. reflexivity.
Qed.

(* the lowest entry of a maximal chain is the one whose parent is not stored *)
Lemma chain_first l x bot A e B : chain l x bot (A ++ e :: B) -> find (bparent (eb e)) l = None -> A = [].
Proof.
  intros Hc Hf. pose proof (chain_prefix _ _ _ _ _ _ Hc) as Hp.
  destruct (chain_snoc_inv _ _ _ _ _ Hp) as (_ & _ & HA). exact (chain_unstored _ _ _ _ Hf HA).
Qed.

(* ---------- BlockInCurrentChain along a maximal chain ---------- *)

(* what CanonicalBlockAt makes of the reference returned by BlockInCurrentChain *)
Definition canon_of_ref (d : forkdb) (r : ref) : N :=
  if ri r =? 0 then 0 else match find (ri r) (store d) with Some _ => ri r | None => 0 end.

(* canon_below / canon_walk: Spec/C18_Moving_Spec.v *)

Lemma bic_loop_walk d n bot : wf_store (store d) -> num_of d 0 = None -> find bot (store d) = None ->
  forall x q, chain (store d) x bot q -> forall p e, q = p ++ [e] ->
  forall f, enough (store d) x f ->
  exists r, bic_loop f d x n = Some r /\
            canon_of_ref d r = canon_below (num_of d bot) (map eb (rev p)) x n.
Proof.
  intros Hwf Hz Hbot x q Hc.
  induction Hc as [x|x y e0 p0 Hne Hf Hc IH]; intros p e Hq f He; [destruct p; discriminate|].
  apply app_inj_tail in Hq as [-> ->].
  destruct f as [|f]; [destruct He; lia|]. cbn [bic_loop]. rewrite (link_of_stored d x e Hf).
  pose proof (find_some _ _ _ Hf) as [Hin Hk].
  destruct (ws_id _ Hwf e Hin) as (Hid & _).
  assert (Hx0 : x <> 0) by (unfold key in Hk; congruence).
  assert (Hcx : canon_of_ref d (mkR x n) = x).
  { unfold canon_of_ref. cbn [ri]. destruct (N.eqb_spec x 0); [contradiction|]. rewrite Hf. reflexivity. }
  pose proof (enough_parent _ _ _ _ Hwf Hf He) as He'.
  destruct p as [|e' p' _] using rev_ind.
  - (* the parent of e is the first id that is not stored *)
    apply chain_nil_inv in Hc. rewrite Hc. cbn [rev map canon_below].
    destruct (num_of d y) as [pn|] eqn:Hn.
    + destruct (N.eqb_spec pn n) as [E|E].
      * eexists. split; [reflexivity|]. unfold canon_of_ref. cbn [ri].
        destruct (N.eqb_spec y 0); [reflexivity|]. rewrite Hbot. reflexivity.
      * destruct (N.ltb_spec pn n) as [Lt|Lt]; [eexists; split; [reflexivity | exact Hcx]|].
        destruct f as [|f]; [destruct He'; lia|]. cbn [bic_loop]. unfold link_of. rewrite Hbot, Hz.
        eexists. split; [reflexivity|]. reflexivity.
    + eexists. split; [reflexivity|]. reflexivity.
  - destruct (chain_top _ _ _ _ _ Hc) as [Hf' Hk'].
    unfold num_of. rewrite Hf'. rewrite rev_app_distr. cbn [rev app map canon_below].
    pose proof (find_some _ _ _ Hf') as [Hin' _].
    destruct (ws_id _ Hwf e' Hin') as (Hid' & _).
    destruct (N.eqb_spec (bnum (eb e')) n) as [E|E].
    + eexists. split; [reflexivity|]. unfold canon_of_ref. cbn [ri]. rewrite <- Hk'. unfold key.
      destruct (N.eqb_spec (bid (eb e')) 0); [contradiction|].
      fold (key e'). rewrite Hk', Hf'. reflexivity.
    + destruct (N.ltb_spec (bnum (eb e')) n) as [Lt|Lt]; [eexists; split; [reflexivity | exact Hcx]|].
      destruct (IH Hbot p' e' eq_refl f He') as (r & Hr & Hcr). exists r. split; [exact Hr|].
      rewrite Hcr. unfold key in Hk'. rewrite Hk'. reflexivity.
Qed.

Lemma bic_walk d n bot x q e : wf_store (store d) -> num_of d 0 = None -> find bot (store d) = None ->
  chain (store d) x bot q -> find x (store d) = Some e ->
  exists r, block_in_chain d (mkR x (bnum (eb e))) n = Some r /\
            canon_of_ref d r = canon_walk (num_of d bot) (map eb (rev q)) n.
Proof.
  intros Hwf Hz Hbot Hc Hf.
  destruct q as [|e0 p _] using rev_ind.
  { apply chain_nil_inv in Hc. subst. congruence. }
  destruct (chain_top _ _ _ _ _ Hc) as [Hf0 Hk0]. rewrite Hf in Hf0. injection Hf0 as <-.
  rewrite rev_app_distr. cbn [rev app map canon_walk]. unfold block_in_chain. cbn [rn ri].
  unfold key in Hk0.
  destruct (N.eqb_spec (bnum (eb e)) n) as [E|E].
  - eexists. split; [reflexivity|]. unfold canon_of_ref. cbn [ri].
    pose proof (find_some _ _ _ Hf) as [Hin _]. destruct (ws_id _ Hwf e Hin) as (Hid & _).
    destruct (N.eqb_spec x 0); [congruence|]. rewrite Hf. symmetry. exact Hk0.
  - destruct (bic_loop_walk d n bot Hwf Hz Hbot x _ Hc p e eq_refl (fuel_of d) (enough_fuel_of d x)) as (r & Hr & Hcr).
    exists r. split; [exact Hr|]. rewrite Hcr, Hk0. reflexivity.
Qed.

(* a start id that is not stored *)
Lemma bic_unstored d x hn n : num_of d 0 = None -> find x (store d) = None ->
  exists r, block_in_chain d (mkR x hn) n = Some r /\ canon_of_ref d r = 0.
Proof.
  intros Hz Hf. unfold block_in_chain. cbn [rn ri]. destruct (hn =? n).
  - eexists. split; [reflexivity|]. unfold canon_of_ref. cbn [ri]. rewrite Hf. destruct (x =? 0); reflexivity.
  - unfold fuel_of. cbn [bic_loop]. unfold link_of. rewrite Hf, Hz. eexists. split; reflexivity.
Qed.

(* ---------- canon_walk on a list with strictly decreasing numbers ---------- *)

Lemma canon_below_hit floor n : forall R1 a R2 cur, (forall x, In x R1 -> n < bnum x) -> bnum a = n ->
  canon_below floor (R1 ++ a :: R2) cur n = bid a.
Proof.
  induction R1 as [|x R1 IH]; intros a R2 cur Hab Ha; cbn [app canon_below].
  - rewrite Ha, N.eqb_refl. reflexivity.
  - pose proof (Hab x (or_introl eq_refl)). destruct (N.eqb_spec (bnum x) n); [lia|].
    destruct (N.ltb_spec (bnum x) n); [lia|]. apply IH; [|exact Ha]. intros y Hy. apply Hab. right. exact Hy.
Qed.

Lemma canon_walk_hit floor n R1 a R2 : (forall x, In x R1 -> n < bnum x) -> bnum a = n ->
  canon_walk floor (R1 ++ a :: R2) n = bid a.
Proof.
  intros Hab Ha. destruct R1 as [|h R1]; cbn [app canon_walk].
  - rewrite Ha, N.eqb_refl. reflexivity.
  - pose proof (Hab h (or_introl eq_refl)). destruct (N.eqb_spec (bnum h) n); [lia|].
    apply canon_below_hit; [|exact Ha]. intros y Hy. apply Hab. right. exact Hy.
Qed.

(* the number the walk sees under a block of the list *)
Definition next_num (floor : option N) (R2 : list block) : option N :=
  match R2 with a1 :: _ => Some (bnum a1) | [] => floor end.

(* a height in a hole of the chain: the block above the hole *)
Lemma canon_below_gap floor n : forall R1 a R2 cur pn, (forall x, In x R1 -> n < bnum x) -> n < bnum a ->
  next_num floor R2 = Some pn -> pn < n ->
  canon_below floor (R1 ++ a :: R2) cur n = bid a.
Proof.
  induction R1 as [|x R1 IH]; intros a R2 cur pn Hab Ha Hnx Hpn; cbn [app canon_below].
  - destruct (N.eqb_spec (bnum a) n); [lia|]. destruct (N.ltb_spec (bnum a) n); [lia|].
    destruct R2 as [|a1 R2]; cbn [next_num] in Hnx; cbn [canon_below].
    + rewrite Hnx. destruct (N.eqb_spec pn n); [lia|]. destruct (N.ltb_spec pn n); [reflexivity | lia].
    + injection Hnx as Hnx. destruct (N.eqb_spec (bnum a1) n); [lia|]. destruct (N.ltb_spec (bnum a1) n); [reflexivity | lia].
  - pose proof (Hab x (or_introl eq_refl)). destruct (N.eqb_spec (bnum x) n); [lia|].
    destruct (N.ltb_spec (bnum x) n); [lia|]. eapply IH; eauto. intros y Hy. apply Hab. right. exact Hy.
Qed.

Lemma canon_walk_gap floor n R1 a R2 pn : (forall x, In x R1 -> n < bnum x) -> n < bnum a ->
  next_num floor R2 = Some pn -> pn < n ->
  canon_walk floor (R1 ++ a :: R2) n = bid a.
Proof.
  intros Hab Ha Hnx Hpn. destruct R1 as [|h R1]; cbn [app canon_walk].
  - destruct (N.eqb_spec (bnum a) n); [lia|].
    destruct R2 as [|a1 R2]; cbn [next_num] in Hnx; cbn [canon_below].
    + rewrite Hnx. destruct (N.eqb_spec pn n); [lia|]. destruct (N.ltb_spec pn n); [reflexivity | lia].
    + injection Hnx as Hnx. destruct (N.eqb_spec (bnum a1) n); [lia|]. destruct (N.ltb_spec (bnum a1) n); [reflexivity | lia].
  - pose proof (Hab h (or_introl eq_refl)). destruct (N.eqb_spec (bnum h) n); [lia|].
    eapply canon_below_gap; eauto. intros y Hy. apply Hab. right. exact Hy.
Qed.

(* above the head: the head, provided the walk sees a number under it *)
Lemma canon_walk_above floor n hd R2 pn : bnum hd < n -> next_num floor R2 = Some pn -> pn < n ->
  canon_walk floor (hd :: R2) n = bid hd.
Proof.
  intros Hh Hnx Hpn. cbn [canon_walk]. destruct (N.eqb_spec (bnum hd) n); [lia|].
  destruct R2 as [|a1 R2]; cbn [next_num] in Hnx; cbn [canon_below].
  - rewrite Hnx. destruct (N.eqb_spec pn n); [lia|]. destruct (N.ltb_spec pn n); [reflexivity | lia].
  - injection Hnx as Hnx. destruct (N.eqb_spec (bnum a1) n); [lia|]. destruct (N.ltb_spec (bnum a1) n); [reflexivity | lia].
Qed.

Lemma canon_walk_above_none n hd : bnum hd <> n -> canon_walk None [hd] n = 0.
Proof. intros H. cbn. destruct (N.eqb_spec (bnum hd) n); [contradiction | reflexivity]. Qed.

(* under every retained block: nothing, unless the walk sees a lower number under the lowest block *)
Lemma canon_below_under floor n : forall R cur, (forall x, In x R -> n < bnum x) ->
  (forall pn, floor = Some pn -> n <= pn) -> canon_below floor R cur n = 0.
Proof.
  induction R as [|x R IH]; intros cur Hab Hfl; cbn [canon_below].
  - destruct floor as [pn|]; [|reflexivity]. specialize (Hfl pn eq_refl).
    destruct (N.eqb_spec pn n); [reflexivity|]. destruct (N.ltb_spec pn n); [lia | reflexivity].
  - pose proof (Hab x (or_introl eq_refl)). destruct (N.eqb_spec (bnum x) n); [lia|].
    destruct (N.ltb_spec (bnum x) n); [lia|]. apply IH; [|exact Hfl]. intros y Hy. apply Hab. right. exact Hy.
Qed.

Lemma canon_walk_under floor n R : (forall x, In x R -> n < bnum x) ->
  (forall pn, floor = Some pn -> n <= pn) -> canon_walk floor R n = 0.
Proof.
  intros Hab Hfl. destruct R as [|h R]; [reflexivity|]. cbn [canon_walk].
  pose proof (Hab h (or_introl eq_refl)). destruct (N.eqb_spec (bnum h) n); [lia|].
  apply canon_below_under; [|exact Hfl]. intros y Hy. apply Hab. right. exact Hy.
Qed.

(* ---------- CompleteSegment along a maximal chain ---------- *)

Lemma cs_chain d bot : find bot (store d) = None ->
  forall x q, chain (store d) x bot q ->
  forall f cn acc reach, (length q < f)%nat ->
  (forall e, find x (store d) = Some e -> cn = bnum (eb e)) ->
  exists rch, cs_loop f d x cn acc reach = Some (map seg_of q ++ acc, rch) /\
    (reach = true -> rch = true) /\
    (In (ri (libref d)) (bot :: keys q) -> rch = true).
Proof.
  intros Hbot x q Hc. induction Hc as [x|x y e p Hne Hf Hc IH]; intros f cn acc reach Hlen Hcn.
  - destruct f as [|f]; [cbn in Hlen; lia|]. cbn [cs_loop]. rewrite Hbot.
    eexists. split; [reflexivity|]. split.
    + intros ->. reflexivity.
    + intros [E|[]]. rewrite E, N.eqb_refl. apply orb_true_r.
  - destruct f as [|f]; [cbn in Hlen; lia|]. cbn [cs_loop]. rewrite Hf.
    rewrite app_length in Hlen. cbn [length] in Hlen.
    destruct (IH Hbot f (num_or0 d (bparent (eb e))) (mkSeg x cn e :: acc) (reach || (x =? ri (libref d))))
      as (rch & Hrun & H1 & H2); [lia | intros e' He'; apply num_or0_stored; exact He' |].
    exists rch. split.
    + rewrite Hrun. rewrite map_app, <- app_assoc. cbn [map app]. unfold seg_of.
      rewrite (proj2 (find_some _ _ _ Hf)), <- (Hcn e Hf). reflexivity.
    + split.
      * intros ->. apply H1. reflexivity.
      * intros Hin. unfold keys in Hin. rewrite map_app in Hin. cbn [map] in Hin.
        destruct Hin as [E|Hin]; [apply H2; left; exact E|].
        apply in_app_or in Hin as [Hin|[E|[]]]; [apply H2; right; exact Hin|].
        apply H1. rewrite (proj2 (find_some _ _ _ Hf)) in E. rewrite E, N.eqb_refl. apply orb_true_r.
Qed.

Lemma complete_segment_chain d x hn bot q : wf_store (store d) -> find bot (store d) = None ->
  chain (store d) x bot q -> (forall e, find x (store d) = Some e -> hn = bnum (eb e)) ->
  exists rch, complete_segment d (mkR x hn) = Some (map seg_of q, rch) /\
    (In (ri (libref d)) (bot :: keys q) -> rch = true).
Proof.
  intros Hwf Hbot Hc Hn. unfold complete_segment. cbn [ri rn].
  destruct (cs_chain d bot Hbot x q Hc (fuel_of d) hn [] false) as (rch & Hrun & _ & H2).
  - pose proof (chain_length _ _ _ _ Hwf Hc). unfold fuel_of. lia.
  - exact Hn.
  - exists rch. rewrite app_nil_r in Hrun. auto.
Qed.

(* ================================================================ (b) one ProcessBlock step, with its effect on the store *)

From BV Require Import Spec.C18_Spec Proofs.C18_Store Proofs.C18_Proofs.

(* the LIB half of process_tail either leaves the forkdb alone or moves the LIB and purges *)
Lemma lib_tail_db cfg s3 b evs fi s' evs' r : lib_tail cfg s3 b evs fi = (s', evs', r) ->
  db s' = db s3 \/ exists libr, db s' = purge_before_lib (move_lib (db s3) libr) (c_kept cfg).
Proof.
  unfold lib_tail. intros H.
  destruct (last_sent s3) as [ls|]; [|inversion H; auto].
  destruct (has_lib (db s3)); cbn [negb] in H; [|inversion H; auto].
  destruct (block_in_chain (db s3) (bref ls) (blib ls)) as [libr|]; [|inversion H; auto].
  destruct (ri libr =? 0); [inversion H; auto|].
  destruct (has_new_irr_segment (db s3) (c_first cfg) libr) as [[[hn irr0] stalled]|]; [|inversion H; auto].
  cbv zeta in H.
  match type of H with context [if ?C then (s3, _, ROk) else _] => destruct C end; [inversion H; auto|].
  match type of H with context [process_irr_segment cfg ?I ?HD ?S4] =>
    destruct (process_irr_segment cfg I HD S4) as [[s5 ev5] ok5] eqn:H5 end.
  apply process_irr_segment_db in H5. cbn [with_db db] in H5.
  destruct ok5; cbn [negb] in H; [|inversion H; subst; right; eauto].
  destruct (process_stalled_segment cfg stalled (bref b) s5) as [[s6 ev6] ok6] eqn:H6.
  apply process_stalled_segment_db in H6. inversion H; subst. right. exists libr. rewrite H6. exact H5.
Qed.

(* New events push their blocks *)
Lemma apply_news_inv lib : forall evs S0 S1, Forall (fun e => estep e = SNew) evs ->
  apply_all lib S0 evs = Some S1 -> S1 = rev (map eblk evs) ++ S0.
Proof.
  induction evs as [|e evs IH]; intros S0 S1 Hs H; cbn [apply_all map rev app] in *; [congruence|].
  inversion Hs as [|? ? He Hs']; subst.
  destruct (apply_ev lib S0 e) as [S2|] eqn:Ea; [|discriminate].
  rewrite (IH _ _ Hs' H). unfold apply_ev in Ea. rewrite He in Ea.
  assert (S2 = eblk e :: S0).
  { destruct S0 as [|top S0']; [destruct (root_ok lib (eblk e)) | destruct (bparent (eblk e) =? bid top)]; congruence. }
  subst S2. rewrite <- app_assoc. reflexivity.
Qed.

Section Lookups.
  Variable U : list block.
  Variable r0 : ref.
  Variable cfg : config.

  Hypothesis Hnofail : c_fail_at cfg = None.
  Hypothesis Hnew : f_new (c_filter cfg) = true.
  Hypothesis Hundo : f_undo (c_filter cfg) = true.

  Hypothesis U_id : forall b, In b U -> bid b <> 0 /\ bid b <> bparent b.
  Hypothesis U_uniq : forall x y, In x U -> In y U -> bid x = bid y -> x = y.
  Hypothesis U_up : forall x y, In x U -> In y U -> bparent x = bid y -> bnum y < bnum x.
  Hypothesis L_id : ri r0 <> 0.
  Hypothesis L_num : forall y, In y U -> bid y = ri r0 -> bnum y = rn r0.
  Hypothesis L_up : forall x, In x U -> bparent x = ri r0 -> rn r0 < bnum x.
  Hypothesis L_decl : forall b, In b U -> decl_ok U r0 b.

  Notation Inv := (Inv U r0 cfg).
  Notation DbInv := (DbInv U r0).
  Notation in_U := (in_U U).
  Notation kept := (c_kept cfg).

  (* the block is in the buffer *)
  Definition st (s : fstate) (x : block) : Prop := In (bid x) (keys (store (db s))).

  Lemma st_entry s x : in_U (store (db s)) -> In x U -> st s x ->
    exists e, find (bid x) (store (db s)) = Some e /\ eb e = x /\ In e (store (db s)).
  Proof.
    intros HU Hx Hs. apply find_is_some_in in Hs as [e He]. exists e. split; [exact He|].
    split; [apply (stored_is_self U U_uniq _ _ _ HU Hx He) | apply find_some in He; tauto].
  Qed.

  Lemma st_of_entry s e : In e (store (db s)) -> st s (eb e).
  Proof. intros He. unfold st. apply (in_map key). exact He. Qed.

  (* the description of a step: StepOut of MovingLibInv.v with its witnesses exposed, and what happened to the store *)
  Definition StepW (s : fstate) (Fin : list block) (S : cstack) (b : block)
             (s' : fstate) (evA evI evS : list event) (Fnew : list block) (S' : cstack) : Prop :=
    apply_all (ri r0) S evA = Some S' /\
    Inv s' (Fin ++ Fnew) S' /\
    Forall (fun e => estep e = SUndo \/ estep e = SNew) evA /\
    (forall e, In e evA -> estep e = SUndo -> In (eblk e) U /\ rn (libref (db s)) < bnum (eblk e)) /\
    Forall (fun e => estep e = SIrr) evI /\ Forall (fun e => estep e = SStalled) evS /\
    (if f_irr (c_filter cfg) then map eblk evI = Fnew else evI = []) /\
    rn (libref (db s)) <= rn (libref (db s')) /\
    ((Forall (fun x => rn (libref (db s)) < bnum x /\ bnum x <= blib b) Fnew /\ linked (ri (libref (db s))) Fnew) \/
     (last_sent s = None /\ bid b = ri r0 /\ Fnew = [b] /\ evS = [] /\
      exists e, evA = [e] /\ estep e = SNew /\ eblk e = b)) /\
    (Fnew = [] -> evS = [] /\ libref (db s') = libref (db s)) /\
    (forall e, In e evS -> In (eblk e) U /\ rn (libref (db s)) < bnum (eblk e) <= rn (libref (db s')) /\
                          ~ In (bid (eblk e)) (map bid S')) /\
    NoDup (map (fun e => bid (eblk e)) evS) /\
    (S = [] \/ S' <> []) /\
    (* the last Undo/New event is the New of the incoming block *)
    (evA = [] \/ exists pre e, evA = pre ++ [e] /\ estep e = SNew /\ eblk e = b) /\
    (* the store *)
    ((s' = s /\ evA = [] /\ Fnew = [] /\ S' = S /\ (st s b \/ dropped s b = true)) \/
     (dropped s b = false /\ ~ st s b /\ db s' = new_db (db s) b /\ last_sent s' = last_sent s /\
      evA = [] /\ Fnew = [] /\ S' = S) \/
     (dropped s b = false /\ ~ st s b /\ db s' = new_db (db s) b /\ last_sent s = None /\ last_sent s' = Some b /\
      Fnew = [b] /\ S' = [b] /\ bid b = ri r0) \/
     (dropped s b = false /\ ~ st s b /\ last_sent s' = Some b /\ S' <> [] /\ evA <> [] /\
      exists s3, keys (store (db s3)) = keys (store (db s)) ++ [bid b] /\ libref (db s3) = libref (db s) /\
                 DbInv (db s3) /\ (forall x, In x Fnew -> st s3 x) /\
                 ((db s' = db s3 /\ Fnew = []) \/
                  (exists libr, db s' = purge_before_lib (move_lib (db s3) libr) kept)))).

  Lemma stepw_quiet s Fin S b : Inv s Fin S -> st s b \/ dropped s b = true ->
    StepW s Fin S b s [] [] [] [] S.
  Proof.
    intros HI Hk. unfold StepW. rewrite app_nil_r.
    split; [reflexivity|]. split; [exact HI|]. split; [constructor|]. split; [intros e []|].
    split; [constructor|]. split; [constructor|].
    split; [destruct (f_irr (c_filter cfg)); reflexivity|]. split; [lia|].
    split; [left; split; [constructor | exact I]|]. split; [auto|]. split; [intros e []|]. split; [constructor|].
    split; [destruct S; [left; reflexivity | right; discriminate]|].
    split; [left; reflexivity|]. left. auto.
  Qed.

  Lemma not_st_find s b : find (bid b) (store (db s)) = None -> ~ st s b.
  Proof. intros Hf. apply find_none. exact Hf. Qed.

  (* a stored block without effect on the stream *)
  Lemma stepw_add s Fin S b : Inv s Fin S -> In b U -> find (bid b) (store (db s)) = None ->
    dropped s b = false -> incl_first cfg s b = false ->
    StepW s Fin S b (with_db s (new_db (db s) b)) [] [] [] [] S.
  Proof.
    intros HI Hb Hf Hd Hni. unfold StepW. rewrite app_nil_r.
    split; [reflexivity|]. split; [apply inv_add; assumption|]. split; [constructor|]. split; [intros e []|].
    split; [constructor|]. split; [constructor|].
    split; [destruct (f_irr (c_filter cfg)); reflexivity|]. split; [cbn; lia|].
    split; [left; split; [constructor | exact I]|]. split; [auto|]. split; [intros e []|]. split; [constructor|].
    split; [destruct S; [left; reflexivity | right; discriminate]|].
    split; [left; reflexivity|]. right. left.
    split; [exact Hd|]. split; [apply not_st_find; exact Hf|]. repeat split.
  Qed.

  (* the inclusive first delivery (step_root of MovingLibInv.v with its witnesses) *)
  Lemma root_w s Fin S b : Inv s Fin S -> In b U -> dropped s b = false -> incl_first cfg s b = true ->
    exists s' evA evI evS Fnew S',
      fk_step cfg s b = (s', evA ++ evI ++ evS, ROk) /\ StepW s Fin S b s' evA evI evS Fnew S'.
  Proof.
    intros HI Hb Hd Hinc. pose proof HI as [Hdb Hfin Hflast Hh].
    unfold incl_first in Hinc. apply andb_true_iff in Hinc as [Hinc Hid]. apply andb_true_iff in Hinc as [Hci Hls].
    destruct (last_sent s) as [hd|] eqn:Els; [discriminate|]. destruct Hh as (-> & -> & Hall & Hroot).
    cbn [rev] in Hflast. apply N.eqb_eq in Hid. rewrite Hflast in Hid.
    specialize (Hroot Hci).
    assert (Hf : find (bid b) (store (db s)) = None) by (rewrite Hid; exact Hroot).
    assert (Hk : ~ In (bid b) (keys (store (db s)))) by (apply find_none; exact Hf).
    destruct (U_id b Hb) as (H1 & H3).
    unfold fk_step. destruct (N.eqb_spec (bid b) (bparent b)); [contradiction|].
    pose proof Hd as Hd0. unfold dropped in Hd. rewrite Els in *. rewrite Hd, Hci, Hflast.
    replace (bid b =? ri r0) with true by (symmetry; apply N.eqb_eq; exact Hid). cbn [andb].
    rewrite (add_link_new U U_id _ _ Hb Hf). cbn [fst].
    pose proof (dbinv_add U r0 _ _ Hdb Hb Hf) as Hdb1.
    set (s1 := with_db s (new_db (db s) b)).
    unfold process_initial_inclusive. rewrite Hnew, (call_ok cfg Hnofail). cbv beta iota zeta.
    set (tiny := mkSeg (bid b) (bnum b) (mkEntry b false)).
    set (ev := mkEv SNew b (seg_ref tiny) (seg_ref tiny) (cursor_lib s1) None 0 0).
    set (s1' := mkFS (db (mkFS (db s1) (last_sent s1) (last_lib_seen s1) (ncalls s1 + 1))) (Some b)
                     (last_lib_seen (mkFS (db s1) (last_sent s1) (last_lib_seen s1) (ncalls s1 + 1)))
                     (ncalls (mkFS (db s1) (last_sent s1) (last_lib_seen s1) (ncalls s1 + 1)))).
    destruct (process_irr_segment_ok cfg Hnofail [tiny] tiny [] (bref b) s1' eq_refl)
      as (s2 & ev2 & Hrun & Hdb2 & Hls2 & Hlls2 & Hm2 & Hs2).
    rewrite Hrun. cbv beta iota.
    assert (Hdbs2 : db s2 = new_db (db s) b) by (rewrite Hdb2; reflexivity).
    assert (Hlast2 : last_sent s2 = Some b) by (rewrite Hls2; reflexivity).
    exists s2, [ev], ev2, [], [b], [b]. rewrite app_nil_r.
    split; [reflexivity|]. unfold StepW.
    split.
    { cbn [apply_all apply_ev ev estep eblk]. unfold root_ok. rewrite Hid, N.eqb_refl. reflexivity. }
    split.
    { constructor; rewrite ?Hdbs2; cbn [new_db libref store app].
      - exact Hdb1.
      - constructor; [|constructor]. split; [exact Hb|]. rewrite Hflast, (L_num b Hb Hid). lia.
      - cbn [rev app]. rewrite Hflast. exact Hid.
      - rewrite Hlast2. split; [exact Hb|]. exists []. rewrite Hflast, Hid. split; [constructor|].
        split; [reflexivity | constructor]. }
    split; [constructor; [right; reflexivity | constructor]|].
    split; [intros e [<-|[]] He; discriminate|].
    split; [exact Hs2|]. split; [constructor|].
    split.
    { destruct (f_irr (c_filter cfg)); exact Hm2. }
    split; [rewrite Hdbs2; cbn [new_db libref]; lia|].
    split.
    { right. split; [exact Els|]. split; [exact Hid|]. split; [reflexivity|]. split; [reflexivity|].
      exists ev. auto. }
    split; [discriminate|]. split; [intros e []|]. split; [constructor|]. split; [left; reflexivity|].
    split; [right; exists [], ev; auto|].
    right. right. left. split; [exact Hd0|]. split; [exact Hk|]. split; [exact Hdbs2|]. repeat split; auto.
  Qed.

  Local Notation wf_of := (di_wf U r0 U_id U_up).

  (* the last New event of a triggering step delivers the incoming block *)
  Lemma trigger_last (Fin : list block) (C R Uh : list entry) b evU evRN :
    Forall (fun e => estep e = SUndo) evU -> Forall (fun e => estep e = SNew) evRN ->
    map eblk evU = map eb (rev Uh) ->
    apply_all (ri r0) (rev (Fin ++ map eb (C ++ Uh))) (evU ++ evRN)
      = Some (rev (Fin ++ map eb ((C ++ R) ++ [mkEntry b false]))) ->
    exists pre e, evRN = pre ++ [e] /\ eblk e = b.
  Proof.
    intros HsU HsRN HmU Happ.
    assert (E1 : rev (Fin ++ map eb (C ++ Uh)) = map eblk evU ++ rev (Fin ++ map eb C)).
    { rewrite HmU, map_rev, map_app, app_assoc, rev_app_distr. reflexivity. }
    rewrite E1 in Happ.
    rewrite (apply_all_app _ _ evU evRN (rev (Fin ++ map eb C))) in Happ by (apply apply_undos; [exact HsU | reflexivity]).
    apply (apply_news_inv _ _ _ _ HsRN) in Happ.
    assert (E2 : rev (Fin ++ map eb ((C ++ R) ++ [mkEntry b false])) = rev (map eb (R ++ [mkEntry b false])) ++ rev (Fin ++ map eb C)).
    { rewrite <- (app_assoc C R), (map_app eb C), app_assoc, rev_app_distr. reflexivity. }
    rewrite E2 in Happ. apply app_inv_tail in Happ.
    apply (f_equal (@rev block)) in Happ. rewrite !rev_involutive in Happ.
    destruct evRN as [|e pre _] using rev_ind.
    - cbn [map] in Happ. rewrite map_app in Happ. destruct (map eb R); discriminate.
    - exists pre, e. split; [reflexivity|]. rewrite !map_app in Happ. cbn [map eb] in Happ.
      apply app_inj_tail in Happ as [_ Hb]. congruence.
  Qed.

  (* assembling a triggering step from its two halves (step_finish of MovingLibInv.v with its witnesses) *)
  Lemma finish_w s Fin S b s3 evU evRN S3 :
    Inv s Fin S -> In b U -> ~ st s b -> dropped s b = false ->
    apply_all (ri r0) S (evU ++ evRN) = Some S3 -> Inv s3 Fin S3 ->
    keys (store (db s3)) = keys (store (db s)) ++ [bid b] -> last_sent s3 = Some b ->
    libref (db s3) = libref (db s) -> bid b <> ri (libref (db s3)) ->
    Forall (fun e => estep e = SUndo) evU -> Forall (fun e => estep e = SNew) evRN ->
    (forall e, In e evU -> In (eblk e) U /\ rn (libref (db s)) < bnum (eblk e)) ->
    S3 <> [] ->
    (exists pre e, evRN = pre ++ [e] /\ eblk e = b) ->
    exists s' evI evS Fnew,
      lib_tail cfg s3 b (evU ++ evRN) None = (s', (evU ++ evRN) ++ evI ++ evS, ROk) /\
      StepW s Fin S b s' (evU ++ evRN) evI evS Fnew S3.
  Proof.
    intros HI Hb Hk Hdr Happ HI3 Hk3 Hls3 Hl3 Hne HsU HsRN HuU HS3 (pre & elast & Hpre & Hlast).
    destruct (lib_half U r0 cfg Hnofail U_id U_uniq U_up L_id L_num L_up L_decl s3 Fin S3 b (evU ++ evRN) HI3 Hls3 Hb Hne)
      as (s' & evI & evS & Fnew & Heq & HI' & Hls' & HsI & HsS & HmI & Hmono & HFnew & HFlk & Hnil & Hst & Hnd & Hkeys).
    (* the new final blocks sit on the chain of s3 *)
    assert (HFst : forall x, In x Fnew -> st s3 x).
    { pose proof (i_head _ _ _ _ _ _ HI3) as H3. rewrite Hls3 in H3. destruct H3 as (_ & p3 & Hc3 & HS3e & _).
      pose proof (i_head _ _ _ _ _ _ HI') as H'. rewrite Hls' in H'. destruct H' as (_ & p' & _ & HS'e & _).
      rewrite HS3e in HS'e. apply (f_equal (@rev block)) in HS'e. rewrite !rev_involutive, <- app_assoc in HS'e.
      apply app_inv_head in HS'e. intros x Hx.
      assert (Hin : In x (map eb p3)) by (rewrite HS'e; apply in_or_app; left; exact Hx).
      apply in_map_iff in Hin as (e & <- & He). apply st_of_entry. eapply chain_in; eassumption. }
    assert (Hcases : (db s' = db s3 /\ Fnew = []) \/
                     (exists libr, db s' = purge_before_lib (move_lib (db s3) libr) kept)).
    { destruct (lib_tail_db _ _ _ _ _ _ _ _ Heq) as [Hsame | Hp]; [|right; exact Hp].
      left. split; [exact Hsame|]. destruct Fnew as [|f0 Fn] eqn:EF; [reflexivity|]. exfalso. rewrite <- EF in *.
      destruct (@exists_last _ Fnew) as (F' & t & Et); [rewrite EF; discriminate|].
      pose proof (i_fin_last _ _ _ _ _ _ HI') as Hl'. rewrite Et, app_assoc, rev_app_distr in Hl'. cbn [rev app] in Hl'.
      pose proof (i_fin _ _ _ _ _ _ HI') as Hf'. rewrite Forall_forall in Hf'.
      assert (HtF : In t Fnew) by (rewrite Et; apply in_or_app; right; left; reflexivity).
      destruct (Hf' t) as [HtU _]; [apply in_or_app; right; exact HtF|].
      rewrite Forall_forall in HFnew. destruct (HFnew t HtF) as [Hlo _].
      rewrite Hsame in Hl'. destruct (di_coh _ _ _ (i_db _ _ _ _ _ _ HI3)) as (_ & Hn & _).
      specialize (Hn t HtU Hl'). lia. }
    rewrite Hl3 in *.
    exists s', evI, evS, Fnew. split; [exact Heq|]. unfold StepW.
    split; [exact Happ|]. split; [exact HI'|].
    split.
    { apply Forall_app. split; (eapply Forall_impl; [|eassumption]); cbn beta; auto. }
    split.
    { intros e He Hs. apply in_app_or in He as [He|He]; [apply HuU; exact He|].
      rewrite Forall_forall in HsRN. rewrite (HsRN e He) in Hs. discriminate. }
    split; [exact HsI|]. split; [exact HsS|]. split; [exact HmI|]. split; [exact Hmono|].
    split; [left; split; [exact HFnew | exact HFlk]|].
    split.
    { intros Hn. destruct (Hnil Hn) as [-> ->]. auto. }
    split; [exact Hst|]. split; [exact Hnd|]. split; [right; exact HS3|].
    split.
    { right. exists (evU ++ pre), elast. split; [rewrite Hpre, app_assoc; reflexivity|]. split; [|exact Hlast].
      rewrite Forall_forall in HsRN. apply HsRN. rewrite Hpre. apply in_or_app. right. left. reflexivity. }
    right. right. right. split; [exact Hdr|]. split; [exact Hk|]. split; [exact Hls'|]. split; [exact HS3|].
    split; [rewrite Hpre; destruct evU; destruct pre; discriminate|].
    exists s3. split; [exact Hk3|]. split; [exact Hl3|]. split; [apply (i_db _ _ _ _ _ _ HI3)|].
    split; [exact HFst | exact Hcases].
  Qed.

  (* one ProcessBlock call (step_inv of MovingLibInv.v with its witnesses and the effect on the store) *)
  Lemma step_w s Fin S b : Inv s Fin S -> In b U ->
    exists s' evA evI evS Fnew S',
      fk_step cfg s b = (s', evA ++ evI ++ evS, ROk) /\ StepW s Fin S b s' evA evI evS Fnew S'.
  Proof.
    intros HI Hb.
    destruct (dropped s b) eqn:Hd.
    { rewrite (fk_step_dropped U cfg U_id s b Hb Hd). exists s, [], [], [], [], S. split; [reflexivity|].
      apply stepw_quiet; auto. }
    destruct (incl_first cfg s b) eqn:Hni.
    { apply root_w; assumption. }
    pose proof HI as [Hdb Hfin Hflast Hh]. pose proof Hdb as [Hnd HU Hcoh Hnum Hextra Hlc Hrt].
    pose proof (wf_of _ Hdb) as Hwf.
    destruct (find (bid b) (store (db s))) as [e|] eqn:Hf.
    { rewrite (fk_step_old' U r0 cfg U_id U_uniq U_up s b e Hdb Hb Hf Hni). exists s, [], [], [], [], S. split; [reflexivity|].
      apply stepw_quiet; [exact HI|]. left. apply find_is_some_in. eauto. }
    (* a new block *)
    pose proof (inv_add U r0 cfg s Fin S b HI Hb Hf Hni) as HI1.
    set (s1 := with_db s (new_db (db s) b)) in *.
    set (en := mkEntry b false).
    assert (Hk : ~ In (bid b) (keys (store (db s)))) by (apply find_none; exact Hf).
    assert (Hl1 : libref (db s1) = libref (db s)) by reflexivity.
    assert (Hk1 : keys (store (db s1)) = keys (store (db s)) ++ [bid b]).
    { unfold s1. cbn [with_db db new_db store]. apply keys_snoc. }
    assert (Hsw : exists u r j, sw_of cfg s b = ScssOk u r j).
    { unfold sw_of. destruct (f_undo (c_filter cfg) && triggers cfg s b); [|eauto].
      destruct (last_sent s) as [ls|]; [apply scss_total; exact Hwf | eauto]. }
    destruct Hsw as (undos & redos & junc & Hsw).
    rewrite (fk_step_new' U r0 cfg U_id s b undos redos junc Hdb Hb Hf Hd Hni Hsw). cbv zeta. fold s1.
    pose proof HI1 as [Hdb1 _ _ _]. pose proof Hdb1 as [Hnd1 HU1 _ _ _ _ _].
    pose proof (wf_of _ Hdb1) as Hwf1.
    change (new_db (db s) b) with (db s1).
    destruct (rs_total (db s1) (c_first cfg) Hwf1 (fuel_of (db s1)) (bid b) (bnum b) [] (enough_fuel_of _ _)) as [[longest reach] Hrs].
    unfold reversible_segment. cbn [bref ri rn]. rewrite Hrs.
    destruct (negb (triggers cfg s b) || match longest with [] => true | _ => false end) eqn:Hgo.
    { exists s1, [], [], [], [], S. split; [reflexivity|]. apply stepw_add; assumption. }
    apply orb_false_iff in Hgo as [Htr Hlong]. apply negb_false_iff in Htr.
    (* the chain of the new block *)
    assert (Hfb : find (bid b) (store (db s1)) = Some en).
    { unfold s1. cbn [with_db db new_db store]. apply (find_snoc_new (store (db s)) en). exact Hk. }
    assert (Hshape : exists pP, chain (store (db s1)) (bid b) (ri (libref (db s1))) (pP ++ [en]) /\ longest = map seg_of (pP ++ [en])).
    { destruct reach.
      - apply rs_sound in Hrs.
        2:{ intros e' He'. rewrite Hfb in He'. injection He' as <-. reflexivity. }
        destruct Hrs as (p & Hc & Hp & _). rewrite app_nil_r in Hp.
        destruct p as [|e' p' _] using rev_ind.
        + subst longest. discriminate.
        + destruct (chain_top _ _ _ _ _ Hc) as [Hf' _]. rewrite Hfb in Hf'. injection Hf' as <-.
          exists p'. auto.
      - apply (rs_false_nil cfg (db s1) (di_has_lib _ _ _ Hdb1)) in Hrs. subst longest. discriminate. }
    destruct Hshape as (pP & Hc & ->).
    destruct (chain_snoc_inv _ _ _ _ _ Hc) as (Hne1 & _ & HcP). cbn [eb en] in HcP.
    assert (Hnin : ~ In en pP).
    { pose proof (chain_nodup _ _ _ _ Hwf1 Hc) as Hn. unfold keys in Hn. rewrite map_app in Hn.
      intros Hin. refine (nodup_app_disj _ _ (key en) Hn _ _); [apply in_map; exact Hin | left; reflexivity]. }
    assert (HcP0 : chain (store (db s)) (bparent b) (ri (libref (db s))) pP).
    { apply (chain_restrict (store (db s)) en); assumption. }
    assert (HS3ne : forall (X : list block) (q : list entry), rev (X ++ map eb (q ++ [en])) <> []).
    { intros X q. rewrite map_app, app_assoc, rev_app_distr. discriminate. }
    unfold sw_of in Hsw. rewrite Hundo, Htr in Hsw. cbn [andb] in Hsw.
    (* the common end of the three triggering cases *)
    assert (Hend : forall C R Uh j,
              pP = C ++ R -> Forall (fun e => esent e = true) C -> S = rev (Fin ++ map eb (C ++ Uh)) ->
              (forall a, In a Uh -> In (eb a) U /\ rn (libref (db s)) < bnum (eb a)) ->
              exists s' evA evI evS Fnew S',
                process_tail cfg s1 b (rev Uh) (filter esent R) j (map seg_of (pP ++ [en])) None
                  = (s', evA ++ evI ++ evS, ROk) /\ StepW s Fin S b s' evA evI evS Fnew S').
    { intros C R Uh j HP HC HS HUh.
      destruct (trigger_first U r0 cfg Hnofail Hnew Hundo U_id U_uniq U_up L_id L_num L_up L_decl
                  s1 Fin S b pP C R Uh j None HI1 Hb Hc HP HC HS) as
        (s3 & evU & evRN & Hrun & Happ & HI3 & Hk3 & Hls3 & Hlr3 & HmU & HsU & HsRN & _).
      fold en in Hrun, Happ, HI3.
      destruct (finish_w s Fin S b s3 evU evRN _ HI Hb Hk Hd Happ HI3) as (s' & evI & evS & Fnew & Heq & HW).
      - rewrite Hk3. exact Hk1.
      - exact Hls3.
      - rewrite Hlr3. exact Hl1.
      - rewrite Hlr3. exact Hne1.
      - exact HsU.
      - exact HsRN.
      - apply (evs_blocks (fun x => In x U /\ rn (libref (db s)) < bnum x) evU (rev Uh) HmU).
        intros a Ha. apply HUh. apply in_rev. exact Ha.
      - apply HS3ne.
      - apply (trigger_last Fin C R Uh b evU evRN HsU HsRN HmU). rewrite <- HS, <- HP. exact Happ.
      - exists s', (evU ++ evRN), evI, evS, Fnew, (rev (Fin ++ map eb (pP ++ [en]))).
        split; [rewrite Hrun; exact Heq | exact HW]. }
    destruct (last_sent s) as [hd|] eqn:Hls.
    - destruct Hh as (HhU & pH & HcH & HS & HsH).
      assert (HpH : forall a, In a pH -> In (eb a) U /\ rn (libref (db s)) < bnum (eb a)).
      { intros a Ha. split; [apply HU; apply (chain_in _ _ _ _ _ HcH Ha) | apply (di_above U r0 U_id U_up _ Hdb _ _ HcH a Ha)]. }
      destruct (N.eq_dec (bid hd) (bparent b)) as [Heq|Hneq].
      + unfold sent_chain_switch_segments in Hsw. rewrite Heq, N.eqb_refl in Hsw. injection Hsw as <- <- <-.
        rewrite Heq in HcH. pose proof (chain_det _ _ _ _ _ HcH HcP0) as ->.
        apply (Hend pP [] [] None).
        * rewrite app_nil_r. reflexivity.
        * exact HsH.
        * rewrite app_nil_r. exact HS.
        * intros a [].
      + destruct (scss_link (db s) _ (bid hd) (bparent b) pH pP Hwf (di_lid _ _ _ Hdb) Hneq HcH HcP0) as (C & R & Uh & j & HP & HH & Hsc).
        { intros f t e0 Hu He0. exact (tail_disjoint' U r0 cfg U_id U_up L_id (db s) pP (bparent b) Hdb HcP0 f t e0 Hu He0). }
        rewrite Hsc in Hsw. injection Hsw as <- <- <-.
        apply (Hend C R Uh j HP).
        * rewrite HH in HsH. apply Forall_app in HsH. tauto.
        * rewrite HS, HH. reflexivity.
        * intros a Ha. apply HpH. rewrite HH. apply in_or_app. right. exact Ha.
    - injection Hsw as <- <- <-. destruct Hh as (-> & -> & Hall).
      assert (Hfil : filter esent pP = []).
      { assert (G : forall x, In x pP -> esent x = false).
        { intros x Hx. apply Hall. eapply chain_in; [exact HcP0 | exact Hx]. }
        clear -G. induction pP as [|h t IHt]; cbn [filter]; [reflexivity|].
        rewrite (G h (or_introl eq_refl)). apply IHt. intros x Hx. apply G. right. exact Hx. }
      pose proof (Hend [] pP [] None eq_refl (Forall_nil _) eq_refl (fun a (H : In a []) => match H with end)) as Hres.
      cbn [rev] in Hres. rewrite Hfil in Hres. exact Hres.
  Qed.

  (* ---------------------------------------------------------------- the supplement of the invariant *)

  (* the final blocks are a parent-linked run that starts with a child of r0 or (inclusive first delivery) with
     the starting LIB block itself *)
  Definition fin_linked (Fin : list block) : Prop :=
    match Fin with
    | [] => True
    | x :: rest => (bparent x = ri r0 \/ bid x = ri r0) /\ linked (bid x) rest
    end.

  Record Ext (s : fstate) (Fin : list block) (S : cstack) : Prop := mkExt {
    x_linked : fin_linked Fin;
    (* once something is final the LIB block is in the buffer *)
    x_lib : Fin <> [] -> In (ri (libref (db s))) (keys (store (db s)));
    (* a head means a non-empty consumer stack *)
    x_top : last_sent s <> None -> S <> [];
    (* final blocks inside the kept window are still in the buffer *)
    x_kept : forall x, In x Fin -> rn (libref (db s)) - kept <= bnum x -> st s x;
    (* once the LIB has moved nothing under the kept window is in the buffer *)
    x_bound : libref (db s) <> r0 -> bounded (db s) kept
  }.

  Lemma ext_init m : rooted r0 m -> Ext (fs_init m) [] [].
  Proof.
    intros [-> | ->]; (constructor; cbn; [exact I | congruence | congruence | intros x [] | congruence]).
  Qed.

  Lemma fin_linked_app s Fin S b Fnew : Inv s Fin S -> fin_linked Fin ->
    (linked (ri (libref (db s))) Fnew \/ (last_sent s = None /\ bid b = ri r0 /\ Fnew = [b])) ->
    fin_linked (Fin ++ Fnew).
  Proof.
    intros HI HL [Hl|(Hls & Hid & ->)].
    - pose proof (i_fin_last _ _ _ _ _ _ HI) as Hlast.
      destruct Fin as [|x rest]; cbn [app].
      + cbn [rev] in Hlast. rewrite Hlast in Hl. destruct Fnew as [|y Fn]; [exact I|].
        cbn [linked] in Hl. destruct Hl as [Hp Hl]. cbn [fin_linked]. auto.
      + cbn [fin_linked] in *. destruct HL as [H1 H2]. split; [exact H1|].
        apply linked_join; [exact H2|]. cbn [rev] in Hlast.
        destruct (rev rest) as [|t l]; cbn [app] in Hlast; rewrite Hlast; exact Hl.
    - pose proof (i_head _ _ _ _ _ _ HI) as Hh. rewrite Hls in Hh. destruct Hh as (_ & -> & _).
      cbn [app fin_linked linked]. auto.
  Qed.

  Lemma cutoff_purge d libr : cutoff (purge_before_lib (move_lib d libr) kept) kept = rn libr - kept.
  Proof. reflexivity. Qed.

  Lemma ext_step s Fin S b s' evA evI evS Fnew S' : Inv s Fin S -> Ext s Fin S -> In b U ->
    StepW s Fin S b s' evA evI evS Fnew S' -> Ext s' (Fin ++ Fnew) S'.
  Proof.
    intros HI HE Hb (Happ & HI' & _ & _ & _ & _ & _ & Hmono & HFnew & _ & _ & _ & _ & _ & Hcases).
    pose proof HI as [Hdb Hfin Hflast Hh]. pose proof Hdb as [Hnd HU Hcoh Hnum Hextra Hlc Hrt].
    destruct HE as [XL Xlib Xtop Xkept Xbound].
    assert (HLk : fin_linked (Fin ++ Fnew)).
    { apply (fin_linked_app s Fin S b Fnew HI XL). destruct HFnew as [[_ H]|(H1 & H2 & H3 & _)]; [left; exact H | right; auto]. }
    (* a block that is not dropped while the LIB has moved lies at or above the LIB *)
    assert (Hbnum : libref (db s) <> r0 -> dropped s b = false -> rn (libref (db s)) - kept <= bnum b).
    { intros Hne Hd. unfold dropped in Hd. destruct (last_sent s) as [hd|] eqn:Els.
      - rewrite andb_true_r in Hd. apply N.ltb_ge in Hd. lia.
      - destruct Hh as (_ & -> & _). cbn [rev] in Hflast. contradiction. }
    destruct Hcases as [(-> & _ & -> & -> & _)|[(Hd & Hk & Hdb' & Hls' & _ & -> & ->)|[(Hd & Hk & Hdb' & Hls & Hls' & -> & -> & Hid)|
                        (Hd & Hk & Hls' & HS' & _ & s3 & Hk3 & Hl3 & Hdb3 & HF3 & Hc)]]].
    - rewrite app_nil_r. constructor; assumption.
    - (* stored, nothing delivered *)
      rewrite app_nil_r. constructor.
      + exact XL.
      + intros HF. rewrite Hdb'. cbn [new_db store libref]. rewrite keys_snoc. apply in_or_app. left. apply Xlib. exact HF.
      + rewrite Hls'. exact Xtop.
      + intros x Hx Hn. unfold st. rewrite Hdb' in *. cbn [new_db store libref] in *. rewrite keys_snoc. apply in_or_app. left.
        apply Xkept; assumption.
      + rewrite Hdb'. unfold bounded, cutoff. cbn [new_db store libref]. intros Hne. apply Forall_app. split.
        * apply (Xbound Hne).
        * constructor; [|constructor]. cbn [eb]. apply Hbnum; assumption.
    - (* the inclusive first delivery *)
      rewrite Hls in Hh. destruct Hh as (_ & -> & _). cbn [rev] in Hflast. cbn [app] in *.
      assert (Hst : st s' b).
      { unfold st. rewrite Hdb'. cbn [new_db store]. rewrite keys_snoc. apply in_or_app. right. left. reflexivity. }
      constructor.
      + exact HLk.
      + intros _. assert (Hl' : libref (db s') = r0) by (rewrite Hdb'; exact Hflast).
        rewrite Hl', <- Hid. exact Hst.
      + intros _. discriminate.
      + intros x [<-|[]] _. exact Hst.
      + rewrite Hdb'. cbn [new_db libref]. intros Hne. contradiction.
    - (* a triggering step *)
      pose proof Hdb3 as [Hnd3 HU3 _ _ _ _ _].
      assert (Hs3 : forall x, st s x -> st s3 x).
      { intros x Hx. unfold st in *. rewrite Hk3. apply in_or_app. left. exact Hx. }
      destruct Hc as [(Hsame & ->)|(libr & Hp)].
      + rewrite app_nil_r. constructor.
        * exact XL.
        * intros HF. rewrite Hsame, Hl3. apply (Hs3 (mkBlock (ri (libref (db s))) 0 0 0)). apply Xlib. exact HF.
        * intros _. exact HS'.
        * intros x Hx Hn. unfold st. rewrite Hsame in *. apply Hs3. apply Xkept; [exact Hx|]. rewrite <- Hl3. exact Hn.
        * rewrite Hsame. unfold bounded, cutoff. rewrite Hl3. intros Hne. apply Forall_forall. intros e He.
          assert (Hke : In (key e) (keys (store (db s3)))) by (apply in_map; exact He).
          rewrite Hk3 in Hke. apply in_app_or in Hke as [Hke|[Hke|[]]].
          -- apply in_map_iff in Hke as (e0 & Ek & He0).
             assert (eb e0 = eb e) by (apply U_uniq; [apply HU; exact He0 | apply HU3; exact He | exact Ek]).
             pose proof (Xbound Hne) as Hb0. unfold bounded, cutoff in Hb0. rewrite Forall_forall in Hb0.
             specialize (Hb0 e0 He0). congruence.
          -- assert (eb e = b) by (apply U_uniq; [apply HU3; exact He | exact Hb | symmetry; exact Hke]).
             subst b. apply Hbnum; assumption.
      + (* the LIB moved: purge *)
        pose proof HI' as [Hdb'' Hfin'' _ _].
        assert (Hst' : store (db s') = filter (fun e => rn libr - kept <=? bnum (eb e)) (store (db s3))) by (rewrite Hp; reflexivity).
        assert (Hl' : libref (db s') = libr) by (rewrite Hp; reflexivity).
        assert (Hex' : extra (db s') = None) by (rewrite Hp; reflexivity).
        constructor.
        * exact HLk.
        * intros _. pose proof (di_num _ _ _ Hdb'') as Hn. unfold num_of in Hn. rewrite Hex' in Hn.
          destruct (find (ri (libref (db s'))) (store (db s'))) as [e|] eqn:F; [|discriminate].
          apply find_is_some_in. eauto.
        * intros _. exact HS'.
        * intros x Hx Hn. rewrite Hl' in Hn, Hmono. rewrite Forall_forall in Hfin''. destruct (Hfin'' x Hx) as [HxU _].
          assert (Hx3 : st s3 x).
          { apply in_app_or in Hx as [Hx|Hx]; [|apply HF3; exact Hx]. apply Hs3. apply Xkept; [exact Hx | lia]. }
          destruct (st_entry s3 x HU3 HxU Hx3) as (e & _ & Ee & He).
          unfold st. rewrite Hst'. rewrite <- Ee. apply (in_map key). apply filter_In. split; [exact He|].
          apply N.leb_le. rewrite Ee. exact Hn.
        * intros _. unfold bounded, cutoff. rewrite Hl', Hst'. apply Forall_forall. intros e He.
          apply filter_In in He as [_ He]. apply N.leb_le in He. exact He.
  Qed.

  (* ================================================================ (c) the lookups of a state with Inv and Ext *)

  (* a parent-linked list of stored blocks is a stored chain *)
  Lemma linked_chain (l : list entry) : forall X y, linked y X ->
    (forall x, In x X -> exists e, find (bid x) l = Some e /\ eb e = x) ->
    (forall x, In x X -> bid x <> y) ->
    exists E, chain l (match rev X with t :: _ => bid t | [] => y end) y E /\ map eb E = X.
  Proof.
    induction X as [|t X' IH] using rev_ind; intros y Hl Hst Hne.
    - exists []. split; [constructor | reflexivity].
    - apply linked_split in Hl as [Hl1 Hl2]. cbn [linked] in Hl2. destruct Hl2 as [Hp _].
      destruct (IH y Hl1) as (E' & Hc & Hm).
      { intros x Hx. apply Hst. apply in_or_app. left. exact Hx. }
      { intros x Hx. apply Hne. apply in_or_app. left. exact Hx. }
      destruct (Hst t) as (et & Hf & Eet); [apply in_or_app; right; left; reflexivity|].
      exists (E' ++ [et]). rewrite rev_app_distr. cbn [rev app]. split.
      + econstructor; [apply Hne; apply in_or_app; right; left; reflexivity | exact Hf |].
        rewrite Eet, Hp. exact Hc.
      + rewrite map_app, Hm. cbn [map]. rewrite Eet. reflexivity.
  Qed.

  (* a chain from x is the upper part of the maximal chain from x *)
  Lemma chain_suffix_of (l : list entry) bot : find bot l = None -> forall x y p, chain l x y p ->
    forall q, chain l x bot q -> exists q0, q = q0 ++ p /\ chain l y bot q0.
  Proof.
    intros Hbot x y p Hp. induction Hp as [x|x y e p Hne Hf Hc IH]; intros q Hq.
    - exists q. rewrite app_nil_r. auto.
    - inversion Hq as [z Hz1 Hz2 Hnil | z y' e' q' Hne' Hf' Hc' Hz Hy Heq]; subst.
      + congruence.
      + rewrite Hf in Hf'. injection Hf' as <-. destruct (IH _ Hc') as (q0 & -> & H0).
        exists q0. rewrite app_assoc. auto.
  Qed.

  (* numbers strictly increase along a parent-linked list of blocks of the universe *)
  Lemma linked_lt : forall B x, In x U -> (forall z, In z B -> In z U) -> linked (bid x) B ->
    forall z, In z B -> bnum x < bnum z.
  Proof.
    induction B as [|z1 B IH]; intros x Hx HB Hl z Hz; [destruct Hz|].
    cbn [linked] in Hl. destruct Hl as [Hp Hl].
    assert (H1 : bnum x < bnum z1) by (apply U_up; [apply HB; left; reflexivity | exact Hx | exact Hp]).
    destruct Hz as [<-|Hz]; [exact H1|].
    pose proof (IH z1 (HB z1 (or_introl eq_refl)) (fun w Hw => HB w (or_intror Hw)) Hl z Hz). lia.
  Qed.

  (* ---------------------------------------------------------------- the shape of a state *)

  (* the consumer chain, oldest first, is a parent-linked list of blocks of the universe *)
  Lemma stack_linked s Fin S p x : Inv s Fin S -> Ext s Fin S -> chain (store (db s)) x (ri (libref (db s))) p ->
    (exists y, linked y (Fin ++ map eb p)) /\ (forall c, In c (Fin ++ map eb p) -> In c U).
  Proof.
    intros HI HE Hc. split.
    - pose proof (i_fin_last _ _ _ _ _ _ HI) as Hlast. destruct (chain_linked _ _ _ _ Hc) as [Hlk _].
      pose proof (x_linked _ _ _ HE) as HL.
      destruct Fin as [|f0 rest]; cbn [app].
      + eauto.
      + exists (bparent f0). cbn [linked fin_linked] in *. split; [reflexivity|].
        destruct HL as [_ HL]. apply linked_join; [exact HL|]. cbn [rev] in Hlast.
        destruct (rev rest) as [|t l]; cbn [app] in Hlast; rewrite Hlast; exact Hlk.
    - intros c Hin. apply in_app_or in Hin as [Hin|Hin].
      + pose proof (i_fin _ _ _ _ _ _ HI) as Hf. rewrite Forall_forall in Hf. apply (Hf c Hin).
      + apply in_map_iff in Hin as (e & <- & He). apply (di_inU _ _ _ (i_db _ _ _ _ _ _ HI)). eapply chain_in; eassumption.
  Qed.

  Record Shape (s : fstate) (Fin : list block) (S : cstack) (hd : block) (p q0 : list entry) (bot : N) (ehd : entry) : Prop := mkShape {
    sh_p : chain (store (db s)) (bid hd) (ri (libref (db s))) p;
    sh_S : S = rev (Fin ++ map eb p);
    sh_q0 : chain (store (db s)) (ri (libref (db s))) bot q0;
    sh_bot : find bot (store (db s)) = None;
    sh_q : chain (store (db s)) (bid hd) bot (q0 ++ p);
    sh_hd : find (bid hd) (store (db s)) = Some ehd;
    sh_ehd : eb ehd = hd;
    sh_hdU : In hd U
  }.

  Lemma shape_of s Fin S hd : Inv s Fin S -> Ext s Fin S -> last_sent s = Some hd ->
    exists p q0 bot ehd, Shape s Fin S hd p q0 bot ehd.
  Proof.
    intros HI HE Hls. pose proof (i_head _ _ _ _ _ _ HI) as Hh. rewrite Hls in Hh.
    destruct Hh as (HhU & p & Hc & HS & _).
    pose proof (i_db _ _ _ _ _ _ HI) as Hdb. pose proof (wf_of _ Hdb) as Hwf.
    destruct (chain_total _ Hwf (fuel_of (db s)) (ri (libref (db s))) (enough_fuel_of _ _)) as (bot & q0 & Hq0 & Hbot).
    assert (Hst : exists ehd, find (bid hd) (store (db s)) = Some ehd).
    { destruct p as [|et p' _] using rev_ind.
      - apply chain_nil_inv in Hc. rewrite Hc. apply find_is_some_in. apply (x_lib _ _ _ HE).
        intros ->. cbn in HS. apply (x_top _ _ _ HE); [rewrite Hls; discriminate | exact HS].
      - destruct (chain_top _ _ _ _ _ Hc) as [Hf _]. eauto. }
    destruct Hst as [ehd Hf]. exists p, q0, bot, ehd. constructor; try assumption.
    - eapply chain_trans; eassumption.
    - apply (stored_is_self U U_uniq _ _ _ (di_inU _ _ _ Hdb) HhU Hf).
  Qed.

  (* ---------------------------------------------------------------- head information *)

  Lemma head_is_top s Fin S : Inv s Fin S -> Ext s Fin S ->
    last_sent s = match S with top :: _ => Some top | [] => None end.
  Proof.
    intros HI HE. destruct (last_sent s) as [hd|] eqn:Hls.
    - destruct (shape_of s Fin S hd HI HE Hls) as (p & q0 & bot & ehd & [Hc HS _ _ _ Hf Ee HhU]).
      assert (HSne : S <> []) by (apply (x_top _ _ _ HE); rewrite Hls; discriminate).
      destruct p as [|et p' _] using rev_ind.
      + apply chain_nil_inv in Hc. cbn [map] in HS. rewrite app_nil_r in HS.
        destruct Fin as [|f0 F0 _] using rev_ind; [cbn in HS; contradiction|].
        rewrite rev_app_distr in HS. cbn [rev app] in HS. rewrite HS. f_equal.
        pose proof (i_fin_last _ _ _ _ _ _ HI) as Hl. rewrite rev_app_distr in Hl. cbn [rev app] in Hl.
        pose proof (i_fin _ _ _ _ _ _ HI) as Hfin. apply Forall_app in Hfin as [_ Hfin]. pose proof (Forall_inv Hfin) as [Hf0U _].
        apply U_uniq; [exact HhU | exact Hf0U | congruence].
      + destruct (chain_top _ _ _ _ _ Hc) as [Hf' _]. rewrite Hf in Hf'. injection Hf' as <-.
        rewrite HS, map_app, app_assoc, rev_app_distr. cbn [map rev app]. rewrite Ee. reflexivity.
    - pose proof (i_head _ _ _ _ _ _ HI) as Hh. rewrite Hls in Hh. destruct Hh as (-> & _). reflexivity.
  Qed.

  (* ---------------------------------------------------------------- canonical lookup *)

  Lemma num0 s Fin S : Inv s Fin S -> num_of (db s) 0 = None.
  Proof.
    intros HI. pose proof (i_db _ _ _ _ _ _ HI) as Hdb.
    apply num_of_zero; [apply wf_of; exact Hdb | apply (di_lid _ _ _ Hdb) | apply (di_extra _ _ _ Hdb)].
  Qed.

  (* the complete answer: the walk over the retained chain of the head *)
  Lemma canonical_walk s Fin S hd p q0 bot ehd n : Inv s Fin S -> last_sent s = Some hd ->
    Shape s Fin S hd p q0 bot ehd ->
    canonical_block_at s n = canon_walk (num_of (db s) bot) (map eb (rev (q0 ++ p))) n.
  Proof.
    intros HI Hls [Hc HS Hq0 Hbot Hq Hf Ee HhU].
    pose proof (wf_of _ (i_db _ _ _ _ _ _ HI)) as Hwf.
    destruct (bic_walk (db s) n bot (bid hd) (q0 ++ p) ehd Hwf (num0 _ _ _ HI) Hbot Hq Hf) as (r & Hr & Hcr).
    rewrite Ee in Hr. unfold canonical_block_at. rewrite Hls. unfold bref. rewrite Hr. exact Hcr.
  Qed.

  (* a block of the consumer chain that is retained together with everything above it sits on the retained chain *)
  Lemma stack_block_on_chain s Fin S hd p q0 bot ehd c : Inv s Fin S -> Ext s Fin S -> last_sent s = Some hd ->
    Shape s Fin S hd p q0 bot ehd -> In c S -> (forall c', In c' S -> bnum c <= bnum c' -> st s c') ->
    exists qq ec E' X1, q0 ++ p = qq ++ ec :: E' /\ eb ec = c /\ rev S = X1 ++ map eb (ec :: E').
  Proof.
    intros HI HE Hls [Hc HS Hq0 Hbot Hq Hf Ee HhU] Hin Hst.
    pose proof (i_db _ _ _ _ _ _ HI) as Hdb. pose proof (wf_of _ Hdb) as Hwf.
    destruct (stack_linked s Fin S p (bid hd) HI HE Hc) as [[y Hlk] HXU].
    assert (HX : rev S = Fin ++ map eb p) by (rewrite HS; apply rev_involutive).
    rewrite <- HX in Hlk, HXU.
    assert (Hin' : In c (rev S)) by (apply in_rev in Hin; exact Hin).
    apply in_split in Hin' as (X1 & X2 & HX12). rewrite HX12 in Hlk.
    apply linked_split in Hlk as [_ Hlk]. cbn [linked] in Hlk. destruct Hlk as [Hpc Hlk2].
    assert (HcU : In c U) by (apply HXU; rewrite HX12; apply in_or_app; right; left; reflexivity).
    assert (HX2U : forall z, In z X2 -> In z U).
    { intros z Hz. apply HXU. rewrite HX12. apply in_or_app. right. right. exact Hz. }
    pose proof (linked_lt X2 c HcU HX2U Hlk2) as Hlt.
    assert (HinS : forall x, In x (c :: X2) -> In x S).
    { intros x Hx. apply in_rev. rewrite HX12. apply in_or_app. right. exact Hx. }
    destruct (linked_chain (store (db s)) (c :: X2) (bparent c)) as (E & HcE & HmE).
    - cbn [linked]. split; [reflexivity | exact Hlk2].
    - intros x Hx.
      assert (Hsx : st s x).
      { apply Hst; [apply HinS; exact Hx|]. destruct Hx as [<-|Hx]; [lia | specialize (Hlt x Hx); lia]. }
      assert (HxU : In x U) by (destruct Hx as [<-|Hx]; [exact HcU | apply HX2U; exact Hx]).
      destruct (st_entry s x (di_inU _ _ _ Hdb) HxU Hsx) as (e & He & Eex & _). eauto.
    - intros x [<-|Hx].
      + destruct (U_id c HcU) as (_ & H). exact H.
      + intros E0. pose proof (U_up c x HcU (HX2U x Hx) (eq_sym E0)). specialize (Hlt x Hx). lia.
    - (* the top of that chain is the head *)
      assert (Htop : match rev (c :: X2) with t :: _ => bid t | [] => bparent c end = bid hd).
      { pose proof (head_is_top s Fin S HI HE) as Ht. rewrite Hls in Ht.
        destruct S as [|top S']; [discriminate|]. injection Ht as ->.
        assert (HS2 : top :: S' = rev (c :: X2) ++ rev X1).
        { rewrite <- (rev_involutive (top :: S')), HX12, rev_app_distr. reflexivity. }
        destruct (rev (c :: X2)) as [|t l] eqn:R.
        - apply (f_equal (@rev block)) in R. rewrite rev_involutive in R. discriminate.
        - cbn [app] in HS2. congruence. }
      rewrite Htop in HcE.
      destruct (chain_suffix_of _ bot Hbot _ _ _ HcE _ Hq) as (qq & Hqq & _).
      destruct E as [|ec E']; [discriminate|]. cbn [map] in HmE. injection HmE as Hec HE'.
      exists qq, ec, E', X1. split; [exact Hqq|]. split; [exact Hec|]. cbn [map]. rewrite Hec, HE'. exact HX12.
  Qed.

  Lemma chain_map_split (q : list entry) qq ec E' : q = qq ++ ec :: E' ->
    map eb (rev q) = map eb (rev E') ++ eb ec :: map eb (rev qq).
  Proof. intros ->. rewrite rev_app_distr. cbn [rev]. rewrite <- app_assoc, map_app. reflexivity. Qed.

  (* hit: the block of the consumer chain at that height *)
  Lemma canonical_hit s Fin S c : Inv s Fin S -> Ext s Fin S -> In c S ->
    (forall c', In c' S -> bnum c <= bnum c' -> st s c') -> canonical_block_at s (bnum c) = bid c.
  Proof.
    intros HI HE Hin Hst.
    pose proof (head_is_top s Fin S HI HE) as Hls. destruct S as [|hd S'] eqn:ES; [destruct Hin|]. rewrite <- ES in *.
    destruct (shape_of s Fin S hd HI HE Hls) as (p & q0 & bot & ehd & Hsh).
    destruct (stack_block_on_chain s Fin S hd p q0 bot ehd c HI HE Hls Hsh Hin Hst) as (qq & ec & E' & X1 & Hq & Hec & _).
    rewrite (canonical_walk s Fin S hd p q0 bot ehd _ HI Hls Hsh), (chain_map_split _ _ _ _ Hq).
    pose proof (sh_q _ _ _ _ _ _ _ _ Hsh) as Hch. rewrite Hq in Hch.
    destruct (chain_split_order _ _ _ _ _ _ (wf_of _ (i_db _ _ _ _ _ _ HI)) Hch) as [Hab _].
    rewrite <- Hec. apply canon_walk_hit; [|reflexivity].
    intros x Hx. apply in_map_iff in Hx as (e & <- & He). apply in_rev in He. apply Hab. exact He.
  Qed.

  (* the blocks of the consumer chain inside the kept window are retained *)
  Lemma window_stored s Fin S c : Inv s Fin S -> Ext s Fin S -> In c S ->
    rn (libref (db s)) - kept <= bnum c -> st s c.
  Proof.
    intros HI HE Hin Hn.
    pose proof (head_is_top s Fin S HI HE) as Hls. destruct S as [|hd S'] eqn:ES; [destruct Hin|]. rewrite <- ES in *.
    pose proof (i_head _ _ _ _ _ _ HI) as Hh. rewrite Hls in Hh. destruct Hh as (_ & p & Hc & HS & _).
    rewrite HS in Hin. apply in_rev in Hin. apply in_app_or in Hin as [Hin|Hin].
    - apply (x_kept _ _ _ HE); assumption.
    - apply in_map_iff in Hin as (e & <- & He). apply st_of_entry. eapply chain_in; eassumption.
  Qed.

  Lemma canonical_window s Fin S c : Inv s Fin S -> Ext s Fin S -> In c S ->
    rn (libref (db s)) - kept <= bnum c -> canonical_block_at s (bnum c) = bid c.
  Proof.
    intros HI HE Hin Hn. apply (canonical_hit s Fin S c HI HE Hin).
    intros c' Hc' Hle. apply (window_stored s Fin S c' HI HE Hc'). lia.
  Qed.

  (* the number the walk sees when it arrives at the LIB: the LIB number *)
  Lemma next_at_lib s Fin S hd p q0 bot ehd : Inv s Fin S -> Shape s Fin S hd p q0 bot ehd ->
    next_num (num_of (db s) bot) (map eb (rev q0)) = Some (rn (libref (db s))).
  Proof.
    intros HI [Hc HS Hq0 Hbot Hq Hf Ee HhU]. pose proof (i_db _ _ _ _ _ _ HI) as Hdb.
    destruct q0 as [|el q0' _] using rev_ind.
    - apply chain_nil_inv in Hq0. subst bot. cbn. apply (di_num _ _ _ Hdb).
    - rewrite rev_app_distr. cbn [rev app map next_num].
      destruct (chain_top _ _ _ _ _ Hq0) as [Hfl _]. f_equal. apply (lib_stored_num _ (di_num _ _ _ Hdb) _ Hfl).
  Qed.

  (* the blocks of the consumer chain above the LIB are the entries of the chain p *)
  Lemma above_lib_in_p s Fin S hd p q0 bot ehd c : Inv s Fin S -> Shape s Fin S hd p q0 bot ehd ->
    In c S -> rn (libref (db s)) < bnum c -> exists A a B, p = A ++ a :: B /\ eb a = c.
  Proof.
    intros HI [Hc HS Hq0 Hbot Hq Hf Ee HhU] Hin Hn. rewrite HS in Hin. apply in_rev in Hin.
    apply in_app_or in Hin as [Hin|Hin].
    - pose proof (i_fin _ _ _ _ _ _ HI) as Hfin. rewrite Forall_forall in Hfin. destruct (Hfin c Hin). lia.
    - apply in_map_iff in Hin as (a & Ea & Ha). apply in_split in Ha as (A & B & ->). eauto.
  Qed.

  (* a height above the LIB that no block of the consumer chain has: the next block above (the hole answer
     of BlockInCurrentChain), also directly above the LIB *)
  Lemma canonical_gap s Fin S c2 n : Inv s Fin S -> Ext s Fin S -> In c2 S ->
    rn (libref (db s)) < n -> n < bnum c2 -> (forall c, In c S -> n <= bnum c -> bnum c2 <= bnum c) ->
    canonical_block_at s n = bid c2.
  Proof.
    intros HI HE Hin Hlo Hhi Hmin.
    pose proof (head_is_top s Fin S HI HE) as Hls. destruct S as [|hd S'] eqn:ES; [destruct Hin|]. rewrite <- ES in *.
    destruct (shape_of s Fin S hd HI HE Hls) as (p & q0 & bot & ehd & Hsh).
    destruct (above_lib_in_p s Fin S hd p q0 bot ehd c2 HI Hsh Hin) as (A & a & B & Hp & Ea); [lia|].
    rewrite (canonical_walk s Fin S hd p q0 bot ehd _ HI Hls Hsh).
    assert (Hq : q0 ++ p = (q0 ++ A) ++ a :: B) by (rewrite Hp, <- app_assoc; reflexivity).
    rewrite (chain_map_split _ _ _ _ Hq).
    pose proof (sh_p _ _ _ _ _ _ _ _ Hsh) as Hcp. rewrite Hp in Hcp.
    destruct (chain_split_order _ _ _ _ _ _ (wf_of _ (i_db _ _ _ _ _ _ HI)) Hcp) as [Hab Hbe].
    rewrite <- Ea.
    assert (Hnx : exists pn, next_num (num_of (db s) bot) (map eb (rev (q0 ++ A))) = Some pn /\ pn < n).
    { rewrite rev_app_distr, map_app. destruct A as [|a1 A' _] using rev_ind.
      - cbn [rev map app]. exists (rn (libref (db s))). split; [apply (next_at_lib s Fin S hd p q0 bot ehd HI Hsh) | exact Hlo].
      - rewrite rev_app_distr. cbn [rev app map next_num]. exists (bnum (eb a1)). split; [reflexivity|].
        assert (Ha1 : In a1 (A' ++ [a1])) by (apply in_or_app; right; left; reflexivity).
        specialize (Hbe a1 Ha1).
        destruct (N.lt_ge_cases (bnum (eb a1)) n) as [H|H]; [exact H|]. exfalso.
        assert (HinS : In (eb a1) S).
        { rewrite (sh_S _ _ _ _ _ _ _ _ Hsh). apply in_rev. rewrite rev_involutive. apply in_or_app. right.
          apply in_map. rewrite Hp. apply in_or_app. left. exact Ha1. }
        specialize (Hmin (eb a1) HinS H). rewrite <- Ea in Hmin. lia. }
    destruct Hnx as (pn & Hnx & Hpn).
    apply (canon_walk_gap _ n _ (eb a) _ pn); [|rewrite Ea; exact Hhi | exact Hnx | exact Hpn].
    intros x Hx. apply in_map_iff in Hx as (e & <- & He). apply in_rev in He. specialize (Hab e He). rewrite Ea in Hab. lia.
  Qed.

  (* above the head: the head itself (the hole answer), provided the walk sees a number under the head; when the
     head is the LIB block and its parent is not retained, nothing *)
  Lemma canonical_above s Fin S top S' n : Inv s Fin S -> Ext s Fin S -> S = top :: S' -> bnum top < n ->
    canonical_block_at s n =
      if (rn (libref (db s)) <? bnum top) || get_block_by_hash s (bparent top) then bid top else 0.
  Proof.
    intros HI HE ES Hn.
    pose proof (head_is_top s Fin S HI HE) as Hls. rewrite ES in Hls.
    destruct (shape_of s Fin S top HI HE Hls) as (p & q0 & bot & ehd & Hsh).
    pose proof Hsh as [Hc HS Hq0 Hbot Hq Hf Ee HhU].
    pose proof (i_db _ _ _ _ _ _ HI) as Hdb. pose proof (wf_of _ Hdb) as Hwf.
    rewrite (canonical_walk s Fin S top p q0 bot ehd _ HI Hls Hsh).
    destruct p as [|et p' _] using rev_ind.
    - (* the head is the LIB block *)
      apply chain_nil_inv in Hc. rewrite app_nil_r in *.
      assert (Hnum : bnum top = rn (libref (db s))).
      { destruct (di_coh _ _ _ Hdb) as (_ & Hcn & _). apply Hcn; assumption. }
      replace (rn (libref (db s)) <? bnum top) with false by lia. cbn [orb].
      destruct q0 as [|el q0' _] using rev_ind.
      { apply chain_nil_inv in Hq0. rewrite <- Hq0, <- Hc in Hbot. congruence. }
      destruct (chain_top _ _ _ _ _ Hq0) as [Hfl _]. rewrite <- Hc, Hf in Hfl. injection Hfl as <-.
      destruct (chain_snoc_inv _ _ _ _ _ Hq0) as (_ & _ & Hq0').
      rewrite rev_app_distr. cbn [rev app map]. rewrite Ee in *. unfold get_block_by_hash.
      destruct q0' as [|a1 q0'' _] using rev_ind.
      + apply chain_nil_inv in Hq0'. rewrite Hq0', Hbot. cbn [rev map].
        assert (Hfl : num_of (db s) bot = None).
        { destruct (num_of (db s) bot) as [pn|] eqn:Hn0; [|reflexivity]. exfalso.
          destruct (num_of_cases _ (di_extra _ _ _ Hdb) _ _ Hn0) as [(e & He & _)|[_ Hb]]; [congruence|].
          destruct (U_id top HhU) as (_ & Hsp). congruence. }
        rewrite Hfl. apply canon_walk_above_none. lia.
      + destruct (chain_top _ _ _ _ _ Hq0') as [Hf1 _]. rewrite Hf1.
        rewrite rev_app_distr. cbn [rev app map].
        pose proof (ws_up _ Hwf ehd a1 (proj1 (find_some _ _ _ Hf))) as Hup. rewrite Ee in Hup. specialize (Hup Hf1).
        apply (canon_walk_above _ n top _ (bnum (eb a1))); [exact Hn | reflexivity | lia].
    - destruct (chain_top _ _ _ _ _ Hc) as [Hf' _]. rewrite Hf in Hf'. injection Hf' as <-.
      assert (Hab : rn (libref (db s)) < bnum top).
      { rewrite <- Ee. apply (di_above U r0 U_id U_up _ Hdb _ _ Hc). apply in_or_app. right. left. reflexivity. }
      replace (rn (libref (db s)) <? bnum top) with true by lia. cbn [orb].
      rewrite app_assoc, rev_app_distr. cbn [rev app map]. rewrite Ee.
      assert (Hnx : exists pn, next_num (num_of (db s) bot) (map eb (rev (q0 ++ p'))) = Some pn /\ pn < n).
      { rewrite rev_app_distr, map_app. destruct p' as [|a1 p'' _] using rev_ind.
        - cbn [rev map app]. exists (rn (libref (db s))).
          split; [apply (next_at_lib s Fin S top _ q0 bot ehd HI Hsh) | lia].
        - rewrite rev_app_distr. cbn [rev app map next_num]. exists (bnum (eb a1)). split; [reflexivity|].
          pose proof (chain_lt_top _ _ _ _ ehd a1 Hwf Hc) as Hlt. rewrite Ee in Hlt.
          assert (bnum (eb a1) < bnum top) by (apply Hlt; apply in_or_app; right; left; reflexivity). lia. }
      destruct Hnx as (pn & Hnx & Hpn). apply (canon_walk_above _ n top _ pn); assumption.
  Qed.

  (* under everything that is retained, at or under the LIB: nothing *)
  Lemma canonical_under s Fin S hd p q0 bot ehd n : Inv s Fin S -> last_sent s = Some hd ->
    Shape s Fin S hd p q0 bot ehd -> n <= rn (libref (db s)) -> (forall e, In e (q0 ++ p) -> n < bnum (eb e)) ->
    canonical_block_at s n = 0.
  Proof.
    intros HI Hls Hsh Hn Hall. pose proof (i_db _ _ _ _ _ _ HI) as Hdb.
    rewrite (canonical_walk s Fin S hd p q0 bot ehd _ HI Hls Hsh). apply canon_walk_under.
    - intros x Hx. apply in_map_iff in Hx as (e & <- & He). apply in_rev in He. apply Hall. exact He.
    - intros pn Hpn. destruct (num_of_cases _ (di_extra _ _ _ Hdb) _ _ Hpn) as [(e & He & _)|[_ Hb]].
      + rewrite (sh_bot _ _ _ _ _ _ _ _ Hsh) in He. discriminate.
      + rewrite Hb, (di_num _ _ _ Hdb) in Hpn. injection Hpn as <-. exact Hn.
  Qed.

  (* ---------------------------------------------------------------- lowest servable block *)

  Lemma segment_of_shape s Fin S hd p q0 bot ehd : Inv s Fin S -> Shape s Fin S hd p q0 bot ehd ->
    complete_segment (db s) (bref hd) = Some (map seg_of (q0 ++ p), true).
  Proof.
    intros HI [Hc HS Hq0 Hbot Hq Hf Ee HhU]. pose proof (i_db _ _ _ _ _ _ HI) as Hdb.
    destruct (complete_segment_chain (db s) (bid hd) (bnum hd) bot (q0 ++ p) (wf_of _ Hdb) Hbot Hq) as (rch & Hcs & Hr).
    { intros e He. rewrite Hf in He. injection He as <-. rewrite Ee. reflexivity. }
    unfold bref. rewrite Hcs. f_equal. f_equal. apply Hr.
    destruct q0 as [|el q0' _] using rev_ind.
    - apply chain_nil_inv in Hq0. left. symmetry. exact Hq0.
    - right. destruct (chain_top _ _ _ _ _ Hq0) as [_ Hk]. unfold keys. rewrite !map_app. cbn [map].
      apply in_or_app. left. apply in_or_app. right. left. exact Hk.
  Qed.

  Lemma lowest_of_shape s Fin S hd p q0 bot ehd : Inv s Fin S -> last_sent s = Some hd ->
    Shape s Fin S hd p q0 bot ehd ->
    exists e0 rest, q0 ++ p = e0 :: rest /\ lowest_block_num s = Some (bnum (eb e0)).
  Proof.
    intros HI Hls Hsh. unfold lowest_block_num. rewrite Hls, (segment_of_shape s Fin S hd p q0 bot ehd HI Hsh).
    destruct (q0 ++ p) as [|e0 rest] eqn:Q.
    - exfalso. pose proof (sh_q _ _ _ _ _ _ _ _ Hsh) as Hq. rewrite Q in Hq. apply chain_nil_inv in Hq.
      pose proof (sh_hd _ _ _ _ _ _ _ _ Hsh) as Hf. rewrite Hq, (sh_bot _ _ _ _ _ _ _ _ Hsh) in Hf. discriminate.
    - exists e0, rest. split; reflexivity.
  Qed.

  (* the lowest block of the consumer chain that is retained together with everything above it, when its parent
     is not retained *)
  Lemma lowest_of_stack s Fin S c : Inv s Fin S -> Ext s Fin S -> In c S ->
    (forall c', In c' S -> bnum c <= bnum c' -> st s c') -> find (bparent c) (store (db s)) = None ->
    lowest_block_num s = Some (bnum c).
  Proof.
    intros HI HE Hin Hst Hpar.
    pose proof (head_is_top s Fin S HI HE) as Hls. destruct S as [|hd S'] eqn:ES; [destruct Hin|]. rewrite <- ES in *.
    destruct (shape_of s Fin S hd HI HE Hls) as (p & q0 & bot & ehd & Hsh).
    destruct (stack_block_on_chain s Fin S hd p q0 bot ehd c HI HE Hls Hsh Hin Hst) as (qq & ec & E' & X1 & Hq & Hec & _).
    destruct (lowest_of_shape s Fin S hd p q0 bot ehd HI Hls Hsh) as (e0 & rest & Hq' & Hlow).
    pose proof (sh_q _ _ _ _ _ _ _ _ Hsh) as Hch. rewrite Hq in Hch. rewrite <- Hec in Hpar.
    pose proof (chain_first _ _ _ _ _ _ Hch Hpar) as ->. cbn [app] in Hq. rewrite Hq in Hq'. injection Hq' as <- _.
    rewrite Hlow, Hec. reflexivity.
  Qed.

  (* in general it is at most the number of every such block *)
  Lemma lowest_le_stack s Fin S c : Inv s Fin S -> Ext s Fin S -> In c S ->
    (forall c', In c' S -> bnum c <= bnum c' -> st s c') ->
    exists lo, lowest_block_num s = Some lo /\ lo <= bnum c.
  Proof.
    intros HI HE Hin Hst.
    pose proof (head_is_top s Fin S HI HE) as Hls. destruct S as [|hd S'] eqn:ES; [destruct Hin|]. rewrite <- ES in *.
    destruct (shape_of s Fin S hd HI HE Hls) as (p & q0 & bot & ehd & Hsh).
    destruct (stack_block_on_chain s Fin S hd p q0 bot ehd c HI HE Hls Hsh Hin Hst) as (qq & ec & E' & X1 & Hq & Hec & _).
    destruct (lowest_of_shape s Fin S hd p q0 bot ehd HI Hls Hsh) as (e0 & rest & Hq' & Hlow).
    exists (bnum (eb e0)). split; [exact Hlow|].
    pose proof (sh_q _ _ _ _ _ _ _ _ Hsh) as Hch. rewrite Hq in Hch.
    destruct (chain_split_order _ _ _ _ _ _ (wf_of _ (i_db _ _ _ _ _ _ HI)) Hch) as [_ Hbe].
    rewrite Hq in Hq'. destruct qq as [|q1 qq']; cbn [app] in Hq'; injection Hq' as <- _.
    - rewrite Hec. lia.
    - specialize (Hbe q1 (or_introl eq_refl)). rewrite Hec in Hbe. lia.
  Qed.

  (* under the lowest servable number, at or under the LIB: the canonical lookup finds nothing *)
  Lemma canonical_under_lowest s Fin S lo n : Inv s Fin S -> Ext s Fin S -> S <> [] ->
    lowest_block_num s = Some lo -> n < lo -> n <= rn (libref (db s)) -> canonical_block_at s n = 0.
  Proof.
    intros HI HE HS Hlo Hn Hl.
    pose proof (head_is_top s Fin S HI HE) as Hls. destruct S as [|hd S'] eqn:ES; [contradiction|]. rewrite <- ES in *.
    destruct (shape_of s Fin S hd HI HE Hls) as (p & q0 & bot & ehd & Hsh).
    destruct (lowest_of_shape s Fin S hd p q0 bot ehd HI Hls Hsh) as (e0 & rest & Hq' & Hlow).
    rewrite Hlo in Hlow. injection Hlow as ->.
    apply (canonical_under s Fin S hd p q0 bot ehd n HI Hls Hsh Hl).
    pose proof (sh_q _ _ _ _ _ _ _ _ Hsh) as Hch. rewrite Hq' in Hch.
    destruct (chain_split_order _ _ _ [] e0 rest (wf_of _ (i_db _ _ _ _ _ _ HI)) Hch) as [Hab _].
    rewrite Hq'. intros e [<-|He]; [exact Hn | specialize (Hab e He); lia].
  Qed.

  (* a declarative description of the retained chain of the head determines it *)
  Lemma retained_is_shape s Fin S hd p q0 bot ehd X x0 X' : Inv s Fin S -> Shape s Fin S hd p q0 bot ehd ->
    X = x0 :: X' -> last X x0 = hd -> linked (bparent x0) X ->
    (forall x, In x X -> exists e, find (bid x) (store (db s)) = Some e /\ eb e = x) ->
    find (bparent x0) (store (db s)) = None ->
    map eb (q0 ++ p) = X.
  Proof.
    intros HI Hsh HX Hlast Hlk Hst Hpar.
    destruct (linked_chain (store (db s)) X (bparent x0) Hlk Hst) as (E & HcE & HmE).
    { intros x Hx E0. destruct (Hst x Hx) as (e & He & _). rewrite E0, Hpar in He. discriminate. }
    assert (Htop : match rev X with t :: _ => bid t | [] => bparent x0 end = bid hd).
    { rewrite <- Hlast. rewrite HX. clear. revert x0. induction X' as [|a X' IH] using rev_ind; intros x0; [reflexivity|].
      change (x0 :: X' ++ [a]) with ((x0 :: X') ++ [a]). rewrite rev_app_distr, last_last. reflexivity. }
    rewrite Htop in HcE.
    destruct (chain_suffix_of _ bot (sh_bot _ _ _ _ _ _ _ _ Hsh) _ _ _ HcE _ (sh_q _ _ _ _ _ _ _ _ Hsh)) as (qx & Hq & Hcx).
    rewrite (chain_unstored _ _ _ _ Hpar Hcx) in Hq. cbn [app] in Hq. rewrite Hq. exact HmE.
  Qed.

  (* ---------------------------------------------------------------- by hash / by number, on any fork *)

  Lemma found_of_st s x : in_U (store (db s)) -> In x U -> st s x ->
    get_block_by_hash s (bid x) = true /\ exists l, all_blocks_at s (bnum x) = Some l /\ In (bid x) l.
  Proof.
    intros HU Hx Hs. destruct (st_entry s x HU Hx Hs) as (e & Hf & Ee & He). split.
    - unfold get_block_by_hash. rewrite Hf. reflexivity.
    - eexists. split; [reflexivity|]. apply C18_Proofs.sortN_in. apply in_map_iff. exists e. split; [rewrite Ee; reflexivity|].
      apply filter_In. split; [exact He|]. rewrite Ee. apply N.eqb_refl.
  Qed.

  (* a block that was stored is still stored, or it lies under the kept window *)
  Definition Kept (s : fstate) (x : block) : Prop := st s x \/ bnum x < rn (libref (db s)) - kept.

  Lemma kept_step s Fin S b s' evA evI evS Fnew S' : StepW s Fin S b s' evA evI evS Fnew S' ->
    (forall x, In x U -> Kept s x -> Kept s' x) /\ (In b U -> dropped s b = false -> Kept s' b).
  Proof.
    intros (_ & _ & _ & _ & _ & _ & _ & Hmono & _ & _ & _ & _ & _ & _ & Hcases).
    assert (Hlow : forall x, bnum x < rn (libref (db s)) - kept -> bnum x < rn (libref (db s')) - kept) by (intros; lia).
    destruct Hcases as [(-> & _ & _ & _ & Hk)|[(Hd & Hk & Hdb' & _)|[(Hd & Hk & Hdb' & _)|
                        (Hd & Hk & _ & _ & _ & s3 & Hk3 & Hl3 & Hdb3 & _ & Hc)]]].
    - split; [auto|]. intros _ Hd. destruct Hk as [Hk|Hk]; [left; exact Hk | congruence].
    - split.
      + intros x _ [Hx|Hx]; [left | right; apply Hlow; exact Hx].
        unfold st. rewrite Hdb'. cbn [new_db store]. rewrite keys_snoc. apply in_or_app. left. exact Hx.
      + intros _ _. left. unfold st. rewrite Hdb'. cbn [new_db store]. rewrite keys_snoc. apply in_or_app. right. left. reflexivity.
    - split.
      + intros x _ [Hx|Hx]; [left | right; apply Hlow; exact Hx].
        unfold st. rewrite Hdb'. cbn [new_db store]. rewrite keys_snoc. apply in_or_app. left. exact Hx.
      + intros _ _. left. unfold st. rewrite Hdb'. cbn [new_db store]. rewrite keys_snoc. apply in_or_app. right. left. reflexivity.
    - pose proof Hdb3 as [_ HU3 _ _ _ _ _].
      assert (H3 : forall x, In x U -> st s3 x -> Kept s' x).
      { intros x HxU Hx3. destruct Hc as [(Hsame & _)|(libr & Hp)].
        - left. unfold st. rewrite Hsame. exact Hx3.
        - destruct (st_entry s3 x HU3 HxU Hx3) as (e & _ & Ee & He).
          destruct (N.le_gt_cases (rn libr - kept) (bnum x)) as [Hge|Hlt].
          + left. unfold st. rewrite Hp. cbn [purge_before_lib move_lib store libref rn]. rewrite <- Ee. apply (in_map key).
            apply filter_In. split; [exact He|]. apply N.leb_le. rewrite Ee. exact Hge.
          + right. rewrite Hp. exact Hlt. }
      split.
      + intros x HxU [Hx|Hx]; [|right; apply Hlow; exact Hx]. apply H3; [exact HxU|].
        unfold st. rewrite Hk3. apply in_or_app. left. exact Hx.
      + intros HbU _. apply H3; [exact HbU|]. unfold st. rewrite Hk3. apply in_or_app. right. left. reflexivity.
  Qed.

  (* ---------------------------------------------------------------- every state reached by ROk steps *)

  (* reaches: Spec/C18_Moving_Spec.v *)
  Notation reaches := (reaches cfg).

  Lemma reach_inv : forall pre s evs s', reaches s pre evs s' -> forall Fin S, Inv s Fin S -> Ext s Fin S ->
    (forall b, In b pre -> In b U) ->
    exists Fin' S', Inv s' Fin' S' /\ Ext s' Fin' S' /\ apply_all (ri r0) S evs = Some S' /\
      rn (libref (db s)) <= rn (libref (db s')) /\ (forall x, In x U -> Kept s x -> Kept s' x).
  Proof.
    intros pre s evs s' Hr. induction Hr as [s|s b s1 evs pre evs' s' Hstep Hr IH]; intros Fin S HI HE Hpre.
    - exists Fin, S. split; [exact HI|]. split; [exact HE|]. split; [reflexivity|]. split; [lia | auto].
    - assert (Hb : In b U) by (apply Hpre; left; reflexivity).
      destruct (step_w s Fin S b HI Hb) as (s1' & evA & evI & evS & Fnew & S1 & Hstep' & HW).
      rewrite Hstep in Hstep'. injection Hstep' as -> ->.
      pose proof (ext_step _ _ _ _ _ _ _ _ _ _ HI HE Hb HW) as HE1.
      destruct (kept_step _ _ _ _ _ _ _ _ _ _ HW) as [HK _].
      destruct HW as (Happ & HI1 & _ & _ & HsI & HsS & _ & Hmono & _).
      destruct (IH _ _ HI1 HE1 (fun x Hx => Hpre x (or_intror Hx))) as (Fin' & S' & HI' & HE' & Happ' & Hmono' & HK').
      exists Fin', S'. split; [exact HI'|]. split; [exact HE'|]. split.
      + rewrite (apply_all_app _ _ (evA ++ evI ++ evS) evs' S1); [exact Happ'|].
        rewrite (apply_all_app _ _ _ _ _ Happ). apply apply_all_inert. apply Forall_app. split.
        * eapply Forall_impl; [|exact HsI]. cbn beta. auto.
        * eapply Forall_impl; [|exact HsS]. cbn beta. auto.
      + split; [lia|]. intros x Hx Hk. apply HK'; [exact Hx|]. apply HK; assumption.
  Qed.

  (* a block that was received and not dropped is found by hash and by number as long as it lies in the kept window *)
  Lemma reach_found pre1 s0 evs1 s1 b s2 evs pre2 evs2 s3 Fin S :
    Inv s0 Fin S -> Ext s0 Fin S -> (forall x, In x (pre1 ++ b :: pre2) -> In x U) ->
    reaches s0 pre1 evs1 s1 -> fk_step cfg s1 b = (s2, evs, ROk) -> dropped s1 b = false ->
    reaches s2 pre2 evs2 s3 -> rn (libref (db s3)) - kept <= bnum b ->
    get_block_by_hash s3 (bid b) = true /\ exists l, all_blocks_at s3 (bnum b) = Some l /\ In (bid b) l.
  Proof.
    intros HI HE HU0 Hr1 Hstep Hd Hr2 Hn.
    assert (Hb : In b U) by (apply HU0; apply in_or_app; right; left; reflexivity).
    destruct (reach_inv _ _ _ _ Hr1 _ _ HI HE) as (Fin1 & S1 & HI1 & HE1 & _).
    { intros x Hx. apply HU0. apply in_or_app. left. exact Hx. }
    destruct (step_w s1 Fin1 S1 b HI1 Hb) as (s2' & evA & evI & evS & Fnew & S2 & Hstep' & HW).
    rewrite Hstep in Hstep'. injection Hstep' as -> ->.
    pose proof (ext_step _ _ _ _ _ _ _ _ _ _ HI1 HE1 Hb HW) as HE2.
    destruct (kept_step _ _ _ _ _ _ _ _ _ _ HW) as [_ HKb]. specialize (HKb Hb Hd).
    destruct HW as (_ & HI2 & _).
    destruct (reach_inv _ _ _ _ Hr2 _ _ HI2 HE2) as (Fin3 & S3 & HI3 & _ & _ & _ & HK3).
    { intros x Hx. apply HU0. apply in_or_app. right. right. exact Hx. }
    destruct (HK3 b Hb HKb) as [Hst|Hlt]; [|lia].
    apply found_of_st; [apply (di_inU _ _ _ (i_db _ _ _ _ _ _ HI3)) | exact Hb | exact Hst].
  Qed.

  (* ---------------------------------------------------------------- blocksFromNum on the retained chain *)

  Lemma seg_of_std (q : list entry) : Forall C09_Spec.seg_std (map seg_of q).
  Proof. apply Forall_forall. intros x Hx. apply in_map_iff in Hx as (e & <- & _). split; reflexivity. Qed.

  Lemma from_num_shape s Fin S hd p q0 bot ehd : Inv s Fin S -> last_sent s = Some hd ->
    Shape s Fin S hd p q0 bot ehd ->
    (forall pre e suf, q0 ++ p = pre ++ e :: suf ->
       exists evs, Burst.blocks_from_num s (bnum (eb e)) = Burst.BOk evs /\ map eblk evs = map eb (e :: suf)) /\ (forall n, (forall e, In e (q0 ++ p) -> bnum (eb e) <> n) -> Burst.blocks_from_num s n = Burst.BErr).
  Proof.
    intros HI Hls Hsh. pose proof (i_db _ _ _ _ _ _ HI) as Hdb.
    pose proof (segment_of_shape s Fin S hd p q0 bot ehd HI Hsh) as Hcs.
    split.
    - intros pre e suf Hq. rewrite C09_Proofs.blocks_from_num_eq, (di_has_lib _ _ _ Hdb), Hls, Hcs. cbn [negb].
      rewrite Hq, map_app. cbn [map].
      pose proof (sh_q _ _ _ _ _ _ _ _ Hsh) as Hch. rewrite Hq in Hch.
      destruct (chain_split_order _ _ _ _ _ _ (wf_of _ Hdb) Hch) as [_ Hbe].
      rewrite (C09_Proofs.fn_go_hit s hd (bnum (eb e)) (map seg_of pre) (seg_of e) (map seg_of suf)).
      + cbn [map]. eexists. split; [reflexivity|].
        change (map eblk (map (C09_Spec.snap_event s hd) (seg_of e :: map seg_of suf)) = map eb (e :: suf)).
        rewrite C09_Proofs.map_eblk_snap. cbn [map]. rewrite map_map. reflexivity.
      + replace (map seg_of pre ++ seg_of e :: map seg_of suf) with (map seg_of (pre ++ e :: suf)) by (rewrite map_app; reflexivity).
        apply seg_of_std.
      + intros y Hy. apply in_map_iff in Hy as (e1 & <- & He1). cbn [snum seg_of]. specialize (Hbe e1 He1). lia.
      + reflexivity.
    - intros n Hn. rewrite C09_Proofs.blocks_from_num_eq, (di_has_lib _ _ _ Hdb), Hls, Hcs. cbn [negb].
      rewrite C09_Proofs.fn_go_none; [reflexivity|].
      intros y Hy. apply in_map_iff in Hy as (e1 & <- & He1). cbn [snum seg_of]. apply Hn. exact He1.
  Qed.

  (* ---------------------------------------------------------------- the clauses of Spec/C18_Moving_Spec.v *)

  Lemma retained_st s c : retained s c <-> st s c.
  Proof.
    unfold retained, get_block_by_hash, st. split.
    - destruct (find (bid c) (store (db s))) as [e|] eqn:F; [intros _; apply find_is_some_in; eauto | discriminate].
    - intros H. apply find_is_some_in in H as [e He]. rewrite He. reflexivity.
  Qed.

  Lemma hash_false s id : get_block_by_hash s id = false <-> find id (store (db s)) = None.
  Proof. unfold get_block_by_hash. destruct (find id (store (db s))); split; congruence. Qed.

  Lemma parent_linked_eq y l : parent_linked y l = linked y l.
  Proof. reflexivity. Qed.

  Lemma chain_bottom_first (l : list entry) x bot e0 rest : chain l x bot (e0 :: rest) -> bparent (eb e0) = bot.
  Proof.
    intros Hc. pose proof (chain_prefix l bot rest x [] e0 Hc) as Hp. cbn [app] in Hp.
    destruct (chain_snoc_inv _ _ _ [] _ Hp) as (_ & _ & H0). apply chain_nil_inv in H0. exact H0.
  Qed.

  Lemma head_clause_of s Fin S : Inv s Fin S -> Ext s Fin S -> head_clause s S.
  Proof.
    intros HI HE. pose proof (head_is_top s Fin S HI HE) as Hls. unfold head_clause, head_info, head_num.
    rewrite Hls. destruct S; auto.
  Qed.

  Lemma window_clause_of s Fin S : Inv s Fin S -> Ext s Fin S -> window_clause kept r0 s S.
  Proof.
    intros HI HE. split; [|split].
    - intros c Hc Hn. apply retained_st. apply (window_stored s Fin S c HI HE Hc Hn).
    - apply (x_bound _ _ _ HE).
    - destruct (di_coh _ _ _ (i_db _ _ _ _ _ _ HI)) as (_ & _ & _ & H & _). exact H.
  Qed.

  (* the retained chain of the head, declaratively *)
  Lemma retained_chain_of s Fin S hd p q0 bot ehd : Inv s Fin S -> last_sent s = Some hd ->
    Shape s Fin S hd p q0 bot ehd ->
    exists e0 rest, q0 ++ p = e0 :: rest /\ bparent (eb e0) = bot /\ retained_chain s (map eb (q0 ++ p)).
  Proof.
    intros HI Hls Hsh. destruct (lowest_of_shape s Fin S hd p q0 bot ehd HI Hls Hsh) as (e0 & rest & Hq & _).
    pose proof (sh_q _ _ _ _ _ _ _ _ Hsh) as Hch.
    assert (Hb : bparent (eb e0) = bot) by (rewrite Hq in Hch; apply (chain_bottom_first _ _ _ _ _ Hch)).
    exists e0, rest. split; [exact Hq|]. split; [exact Hb|].
    assert (Hgoal : forall seg x0 X', seg = x0 :: X' ->
              (last_sent s = Some (last seg x0) /\ parent_linked (bparent x0) seg /\
               Forall (stored_block s) seg /\ get_block_by_hash s (bparent x0) = false) -> retained_chain s seg)
      by (intros seg x0 X' -> H; exact H).
    apply (Hgoal _ (eb e0) (map eb rest)); [rewrite Hq; reflexivity|].
    split; [|split; [|split]].
    - rewrite Hls. f_equal.
      destruct (@exists_last _ (q0 ++ p)) as (q' & z & Q); [rewrite Hq; discriminate|]. rewrite Q in Hch |- *.
      destruct (chain_top _ _ _ _ _ Hch) as [Hf _]. rewrite (sh_hd _ _ _ _ _ _ _ _ Hsh) in Hf. injection Hf as <-.
      rewrite map_app. cbn [map]. rewrite last_last. symmetry. apply (sh_ehd _ _ _ _ _ _ _ _ Hsh).
    - rewrite parent_linked_eq, Hb. apply (chain_linked _ _ _ _ Hch).
    - apply Forall_forall. intros x Hx. apply in_map_iff in Hx as (e & <- & He). exists e. split; [|reflexivity].
      apply (chain_keys_in _ _ _ _ _ Hch He).
    - rewrite Hb. apply hash_false. apply (sh_bot _ _ _ _ _ _ _ _ Hsh).
  Qed.

  Lemma retained_chain_unique s Fin S hd p q0 bot ehd seg : Inv s Fin S -> last_sent s = Some hd ->
    Shape s Fin S hd p q0 bot ehd -> retained_chain s seg -> seg = map eb (q0 ++ p).
  Proof.
    intros HI Hls Hsh Hr. destruct seg as [|x0 X'] eqn:ES; [destruct Hr|]. rewrite <- ES in *.
    assert (Hr' : last_sent s = Some (last seg x0) /\ parent_linked (bparent x0) seg /\ Forall (stored_block s) seg /\ get_block_by_hash s (bparent x0) = false).
    { rewrite ES in Hr |- *. exact Hr. }
    destruct Hr' as (Hl & Hlk & Hst & Hpar). rewrite Hls in Hl. injection Hl as Hl.
    symmetry. apply (retained_is_shape s Fin S hd p q0 bot ehd seg x0 X' HI Hsh ES (eq_sym Hl)).
    - rewrite <- parent_linked_eq. exact Hlk.
    - rewrite Forall_forall in Hst. exact Hst.
    - apply hash_false. exact Hpar.
  Qed.

  Lemma canonical_clause_of s Fin S : Inv s Fin S -> Ext s Fin S -> canonical_clause kept s S.
  Proof.
    intros HI HE. unfold canonical_clause. cbv zeta.
    assert (Hst : forall c, (forall c', In c' S -> bnum c <= bnum c' -> retained s c') ->
                            (forall c', In c' S -> bnum c <= bnum c' -> st s c')).
    { intros c H c' Hc' Hle. apply retained_st. apply H; assumption. }
    split; [|split; [|split; [|split; [|split; [|split]]]]].
    - intros c Hc Hn. split; [apply retained_st; apply (window_stored s Fin S c HI HE Hc Hn)|].
      apply (canonical_window s Fin S c HI HE Hc Hn).
    - intros c Hc H. apply (canonical_hit s Fin S c HI HE Hc (Hst c H)).
    - intros c2 n. apply (canonical_gap s Fin S c2 n HI HE).
    - intros top S' n. apply (canonical_above s Fin S top S' n HI HE).
    - intros lo n. apply (canonical_under_lowest s Fin S lo n HI HE).
    - intros -> n. pose proof (head_is_top s Fin [] HI HE) as Hls. unfold canonical_block_at. rewrite Hls. reflexivity.
    - intros seg x0 n Hr Hx0.
      destruct (last_sent s) as [hd|] eqn:Hls.
      2:{ destruct seg; [destruct Hr | destruct Hr as (H & _); congruence]. }
      destruct (shape_of s Fin S hd HI HE Hls) as (p & q0 & bot & ehd & Hsh).
      pose proof (retained_chain_unique s Fin S hd p q0 bot ehd seg HI Hls Hsh Hr) as Hseg.
      destruct (retained_chain_of s Fin S hd p q0 bot ehd HI Hls Hsh) as (e0 & rest & Hq & Hb & _).
      rewrite (canonical_walk s Fin S hd p q0 bot ehd n HI Hls Hsh).
      rewrite Hseg, Hq in Hx0. cbn in Hx0. injection Hx0 as <-.
      rewrite Hb, Hseg, map_rev. reflexivity.
  Qed.

  Lemma lowest_clause_of s Fin S : Inv s Fin S -> Ext s Fin S -> lowest_clause s S.
  Proof.
    intros HI HE. pose proof (head_is_top s Fin S HI HE) as Hls.
    assert (Hst : forall c, (forall c', In c' S -> bnum c <= bnum c' -> retained s c') ->
                            (forall c', In c' S -> bnum c <= bnum c' -> st s c')).
    { intros c H c' Hc' Hle. apply retained_st. apply H; assumption. }
    split; [|split].
    - intros ->. unfold lowest_block_num. rewrite Hls. reflexivity.
    - intros HS. destruct S as [|hd S'] eqn:ES; [contradiction|]. rewrite <- ES in *.
      destruct (shape_of s Fin S hd HI HE Hls) as (p & q0 & bot & ehd & Hsh).
      destruct (retained_chain_of s Fin S hd p q0 bot ehd HI Hls Hsh) as (e0 & rest & Hq & Hb & Hret).
      destruct (lowest_of_shape s Fin S hd p q0 bot ehd HI Hls Hsh) as (e0' & rest' & Hq' & Hlow).
      rewrite Hq in Hq'. injection Hq' as <- <-.
      destruct (from_num_shape s Fin S hd p q0 bot ehd HI Hls Hsh) as [Hserve Herr].
      exists (map eb (q0 ++ p)), (eb e0).
      split; [exact Hret|]. split; [rewrite Hq; reflexivity|].
      split; [intros seg' Hr'; apply (retained_chain_unique s Fin S hd p q0 bot ehd seg' HI Hls Hsh Hr')|].
      split; [exact Hlow|]. split; [|split].
      + intros pre x suf Hsplit.
        apply map_eq_app in Hsplit as (qpre & qrest & Hqs & Hpre & Hrest).
        destruct qrest as [|e qsuf]; [discriminate|]. cbn [map] in Hrest. injection Hrest as Hex Hsuf.
        destruct (Hserve qpre e qsuf Hqs) as (evs & Hrun & Hm). exists evs. rewrite <- Hex. split; [exact Hrun|].
        rewrite Hm. cbn [map]. rewrite Hsuf. reflexivity.
      + intros n Hn. apply Herr. intros e He. apply Hn. apply in_map. exact He.
      + intros c Hc Hall.
        destruct (stack_block_on_chain s Fin S hd p q0 bot ehd c HI HE Hls Hsh Hc (Hst c Hall)) as (qq & ec & E' & X1 & Hqq & Hec & _).
        split.
        * rewrite Hqq, map_app. apply in_or_app. right. left. exact Hec.
        * destruct (lowest_le_stack s Fin S c HI HE Hc (Hst c Hall)) as (lo & Hlo & Hle).
          rewrite Hlow in Hlo. injection Hlo as <-. exact Hle.
    - intros c Hc Hall Hpar. apply (lowest_of_stack s Fin S c HI HE Hc (Hst c Hall)). apply hash_false. exact Hpar.
  Qed.
End Lookups.
