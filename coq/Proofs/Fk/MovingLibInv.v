(* C01 / C02 on the Forkable model when the LIB MOVES: exclusive starting LIB r0, handler never fails,
   LIB declarations in the class of Spec/Universe.v (here as the Prop `decl_ok`).
   The invariant: the LIB of the forkdb is coherent with the universe, the consumer stack is
   (finalised blocks) ++ (chain of the last block sent down to the current LIB), sent flags are closed
   under parents as far as the parents can still arrive. *)
From BV Require Import Base.Prelude Model.Block Model.ForkDB Model.Forkable Spec.Consumer Spec.Universe
  Proofs.Fk.StoreFacts Proofs.Fk.WalkFacts Proofs.Fk.LoopFacts Proofs.Fk.StoreChange Proofs.Fk.SwitchFacts
  Proofs.Fk.FixedLib Proofs.Fk.RootsBase Proofs.Fk.MovingLibStore Proofs.Fk.MovingLibWalk Proofs.Fk.MovingLibLoops.
Local Open Scope N_scope.

Lemma last_indep {A} (l : list A) d d' : l <> [] -> last l d = last l d'.
Proof.
  induction l as [|x l IH]; intros H; [congruence|]. destruct l as [|y l]; [reflexivity|].
  cbn [last] in *. apply IH. discriminate.
Qed.

Lemma last_in {A} (l : list A) d : l <> [] -> In (last l d) l.
Proof.
  induction l as [|x l IH]; intros H; [congruence|]. destruct l as [|y l]; [left; reflexivity|].
  right. apply IH. discriminate.
Qed.

Lemma lookup_sound U id b : lookup id U = Some b -> In b U /\ bid b = id.
Proof.
  induction U as [|x U' IH]; cbn [lookup]; [discriminate|].
  destruct (N.eqb_spec (bid x) id) as [E|E]; intros H.
  - injection H as <-. split; [left; reflexivity | exact E].
  - destruct (IH H) as [H1 H2]. split; [right; exact H1 | exact H2].
Qed.

Lemma lookup_exists U y : In y U -> exists b', lookup (bid y) U = Some b'.
Proof.
  induction U as [|x U' IH]; intros Hy; [destruct Hy|]. cbn [lookup].
  destruct (N.eqb_spec (bid x) (bid y)); [eauto|]. destruct Hy as [->|Hy]; [contradiction|]. apply IH. exact Hy.
Qed.

Section MovingLib.
  Variable U : list block.
  Variable r0 : ref.
  Variable cfg : config.

  Hypothesis Hnofail : c_fail_at cfg = None.
  Hypothesis Hnew : f_new (c_filter cfg) = true.
  Hypothesis Hundo : f_undo (c_filter cfg) = true.

  (* parent ids MAY be empty (roots) *)
  Hypothesis U_id : forall b, In b U -> bid b <> 0 /\ bid b <> bparent b.
  Hypothesis U_uniq : forall x y, In x U -> In y U -> bid x = bid y -> x = y.
  Hypothesis U_up : forall x y, In x U -> In y U -> bparent x = bid y -> bnum y < bnum x.
  Hypothesis L_id : ri r0 <> 0.
  Hypothesis L_num : forall y, In y U -> bid y = ri r0 -> bnum y = rn r0.
  Hypothesis L_up : forall x, In x U -> bparent x = ri r0 -> rn r0 < bnum x.

  Notation first := (c_first cfg).
  Notation in_U := (in_U U).

  (* ---------------------------------------------------------------- the universe: parent walks *)

  (* b, its parent in U, ... down to the block whose parent is not in U; newest first *)
  Inductive uchain : block -> list block -> Prop :=
  | uc_bot b : lookup (bparent b) U = None -> uchain b [b]
  | uc_step b p l : lookup (bparent b) U = Some p -> uchain p l -> uchain b (b :: l).

  (* the LIB declaration of b (lib_ok_block of Spec/Universe.v without the monotonicity clause) *)
  Definition decl_ok (b : block) : Prop :=
    exists ch, uchain b ch /\
      ((exists a, In a ch /\ bnum a = blib b) \/
       (if bparent (last ch b) =? ri r0 then blib b <= rn r0 else blib b < bnum (last ch b))).

  Hypothesis L_decl : forall b, In b U -> decl_ok b.

  Lemma lookup_U y : In y U -> lookup (bid y) U = Some y.
  Proof.
    intros Hy. destruct (lookup_exists U y Hy) as [b' Hb']. destruct (lookup_sound _ _ _ Hb') as [Hin Hid].
    rewrite Hb'. f_equal. apply U_uniq; assumption.
  Qed.

  Lemma uchain_nonempty x l : uchain x l -> l <> [].
  Proof. destruct 1; discriminate. Qed.

  Lemma uchain_le x l : uchain x l -> In x U -> forall a, In a l -> bnum a <= bnum x.
  Proof.
    induction 1 as [b Hb|b p l Hp Hc IH]; intros Hx a Ha.
    - destruct Ha as [<-|[]]. lia.
    - destruct Ha as [<-|Ha]; [lia|]. destruct (lookup_sound _ _ _ Hp) as [HpU Hpid].
      pose proof (U_up b p Hx HpU (eq_sym Hpid)). specialize (IH HpU a Ha). lia.
  Qed.

  (* ---------------------------------------------------------------- the LIB of the forkdb *)

  Definition lib_coh (L : ref) : Prop :=
    ri L <> 0 /\
    (forall y, In y U -> bid y = ri L -> bnum y = rn L) /\
    (forall x, In x U -> bparent x = ri L -> rn L < bnum x) /\
    rn r0 <= rn L /\
    (L = r0 \/ exists Lb, In Lb U /\ bid Lb = ri L).

  Lemma lib_coh_r0 : lib_coh r0.
  Proof. unfold lib_coh. repeat split; auto. lia. Qed.

  Lemma lib_coh_block a : In a U -> rn r0 <= bnum a -> lib_coh (mkR (bid a) (bnum a)).
  Proof.
    intros Ha Hn. unfold lib_coh. cbn [ri rn]. repeat split.
    - apply (U_id a Ha).
    - intros y Hy E. rewrite (U_uniq y a Hy Ha E). reflexivity.
    - intros x Hx E. apply (U_up x a Hx Ha E).
    - exact Hn.
    - right. exists a. auto.
  Qed.

  (* sent flags: the parent of a sent entry is stored and sent, or can never arrive any more *)
  Definition lc (d : forkdb) : Prop :=
    forall e, In e (store d) -> esent e = true ->
      (exists p, find (bparent (eb e)) (store d) = Some p /\ esent p = true) \/
      (forall y, In y U -> bid y = bparent (eb e) -> bnum y <= rn (libref d)).

  Record DbInv (d : forkdb) : Prop := mkDbInv {
    di_nodup : NoDup (keys (store d));
    di_inU : in_U (store d);
    di_coh : lib_coh (libref d);
    di_num : num_of d (ri (libref d)) = Some (rn (libref d));
    di_extra : extra d = None \/ extra d = Some (libref d);
    di_lc : lc d;
    (* a root (empty parent id) is never sent from the forkdb: its stored entry stays unsent, so that
       storing it again (AddLink does not recognise it) changes nothing *)
    di_root : forall e, In e (store d) -> bparent (eb e) = 0 -> esent e = false
  }.

  Lemma di_wf d : DbInv d -> wf_store (store d).
  Proof. intros H. apply (wf_of_U U U_id U_up); [apply (di_nodup d H) | apply (di_inU d H)]. Qed.

  Lemma di_lid d : DbInv d -> ri (libref d) <> 0.
  Proof. intros H. apply (di_coh d H). Qed.

  Lemma di_up d : DbInv d -> forall e, In e (store d) -> bparent (eb e) = ri (libref d) -> rn (libref d) < bnum (eb e).
  Proof. intros H e He E. destruct (di_coh d H) as (_ & _ & Hup & _). apply Hup; [apply (di_inU d H); exact He | exact E]. Qed.

  Lemma di_has_lib d : DbInv d -> has_lib d = true.
  Proof. intros H. apply has_lib_true. apply (di_lid d H). Qed.

  Lemma di_above d : DbInv d -> forall x p, chain (store d) x (ri (libref d)) p ->
    forall e, In e p -> rn (libref d) < bnum (eb e).
  Proof. intros H. apply above_lib; [apply di_wf; exact H | apply di_up; exact H]. Qed.

  (* ---------------------------------------------------------------- the declared LIB on the stored chain *)

  Lemma uchain_on_chain l L : in_U l -> lib_coh L ->
    forall p x e, chain l x (ri L) (p ++ [e]) -> forall ch, uchain (eb e) ch ->
      (forall a0, In a0 ch -> In a0 (map eb (p ++ [e])) \/ bnum a0 <= rn L) /\
      (bnum (last ch (eb e)) <= rn L \/ (bparent (last ch (eb e)) = ri L /\ lookup (ri L) U = None)).
  Proof.
    intros HU (Hlid & Hlnum & Hlup & Hr0 & Hlin).
    induction p as [|e' p0 IH] using rev_ind; intros x e Hc ch Hu.
    - cbn [app] in Hc. destruct (chain_snoc_inv _ _ _ [] _ Hc) as (_ & Hf & Hc0).
      apply chain_nil_inv in Hc0.
      inversion Hu as [b Hb Eb Ech|b pb l0 Hpb Hl0 Eb Ech]; subst.
      + split.
        * intros a0 [<-|[]]. left. left. reflexivity.
        * right. cbn [last]. rewrite <- Hc0. auto.
      + rewrite Hc0 in Hpb. destruct (lookup_sound _ _ _ Hpb) as [HpU Hpid].
        pose proof (Hlnum pb HpU Hpid) as Hpn.
        assert (Hle : forall a, In a l0 -> bnum a <= rn L).
        { intros a Ha. pose proof (uchain_le _ _ Hl0 HpU a Ha). lia. }
        split.
        * intros a0 [<-|Ha]; [left; left; reflexivity | right; apply Hle; exact Ha].
        * left. pose proof (uchain_nonempty _ _ Hl0) as Hne.
          destruct l0 as [|z l0']; [congruence|]. cbn [last]. apply Hle.
          change (In (last (z :: l0') (eb e)) (z :: l0')). apply last_in. discriminate.
    - destruct (chain_snoc_inv _ _ _ _ _ Hc) as (_ & Hf & Hc').
      destruct (chain_top _ _ _ _ _ Hc') as [Hf' Hk'].
      assert (He'U : In (eb e') U) by (apply HU; apply find_some in Hf'; tauto).
      assert (Hlk : lookup (bparent (eb e)) U = Some (eb e')).
      { rewrite <- Hk'. apply lookup_U. exact He'U. }
      inversion Hu as [b Hb Eb Ech|b pb l0 Hpb Hl0 Eb Ech]; subst; [congruence|].
      rewrite Hlk in Hpb. injection Hpb as <-.
      destruct (IH _ _ Hc' _ Hl0) as [IH1 IH2]. split.
      + intros a0 [<-|Ha].
        * left. rewrite map_app. apply in_or_app. right. left. reflexivity.
        * destruct (IH1 a0 Ha) as [H|H]; [left | right; exact H].
          rewrite map_app. apply in_or_app. left. exact H.
      + pose proof (uchain_nonempty _ _ Hl0) as Hne.
        destruct l0 as [|z l0']; [congruence|].
        change (last (eb e :: z :: l0') (eb e)) with (last (z :: l0') (eb e)).
        rewrite (last_indep (z :: l0') (eb e) (eb e')) by discriminate. exact IH2.
  Qed.

  (* a declared LIB number above the current LIB is the height of an entry of the stored chain *)
  Lemma decl_split l L p x e : in_U l -> lib_coh L -> chain l x (ri L) (p ++ [e]) ->
    decl_ok (eb e) -> rn L < blib (eb e) ->
    exists A a B, p ++ [e] = A ++ a :: B /\ bnum (eb a) = blib (eb e).
  Proof.
    intros HU Hcoh Hc (ch & Hu & Hd) Hlt.
    destruct (uchain_on_chain l L HU Hcoh p x e Hc ch Hu) as [H1 H2].
    destruct Hd as [(a0 & Ha0 & Hn)|Hd].
    - destruct (H1 a0 Ha0) as [Hin|Hle]; [|lia].
      apply in_map_iff in Hin as (a & Ea & Hin). apply in_split in Hin as (A & B & Heq).
      exists A, a, B. split; [exact Heq | rewrite Ea; exact Hn].
    - exfalso. destruct Hcoh as (Hlid & Hlnum & Hlup & Hr0 & Hlin).
      destruct H2 as [Hle|[Hp Hnone]].
      + destruct (bparent (last ch (eb e)) =? ri r0); lia.
      + destruct Hlin as [->|(Lb & HLb & HLid)].
        * rewrite Hp, N.eqb_refl in Hd. lia.
        * rewrite <- HLid, (lookup_U Lb HLb) in Hnone. discriminate.
  Qed.

  (* ---------------------------------------------------------------- the invariant *)

  Record Inv (s : fstate) (Fin : list block) (S : cstack) : Prop := mkInv {
    i_db : DbInv (db s);
    i_fin : Forall (fun x => In x U /\ bnum x <= rn (libref (db s))) Fin;
    i_fin_last : match rev Fin with t :: _ => bid t = ri (libref (db s)) | [] => libref (db s) = r0 end;
    i_head : match last_sent s with
             | None => S = [] /\ Fin = [] /\ (forall e, In e (store (db s)) -> esent e = false) /\
                       (c_incl cfg = true -> find (ri r0) (store (db s)) = None)
             | Some hd => In hd U /\
                 exists p, chain (store (db s)) (bid hd) (ri (libref (db s))) p /\
                           S = rev (Fin ++ map eb p) /\ Forall (fun e => esent e = true) p
             end
  }.

  (* the two modes with a configured starting LIB differ only in lastLIBSeen, which the invariant ignores *)
  Definition rooted (m : libmode) : Prop := m = LExcl r0 \/ m = LIncl r0.

  Lemma inv_init m : rooted m -> Inv (fs_init m) [] [].
  Proof.
    intros [-> | ->]; (constructor; cbn;
     [ constructor; cbn;
       [ constructor | intros e [] | apply lib_coh_r0
       | unfold num_of; cbn; rewrite N.eqb_refl; reflexivity | right; reflexivity | intros e [] | intros e [] ]
     | constructor | reflexivity
     | split; [reflexivity|]; split; [reflexivity|]; split; [intros e [] | reflexivity] ]).
  Qed.

  (* the id the pending chain rests on: the last final block, or r0 *)
  Definition tipid (Fin : list block) : N := match rev Fin with t :: _ => bid t | [] => ri r0 end.

  Lemma inv_tipid s Fin S : Inv s Fin S -> tipid Fin = ri (libref (db s)).
  Proof.
    intros HI. pose proof (i_fin_last _ _ _ HI) as Hlast. unfold tipid.
    destruct (rev Fin) as [|t r]; [rewrite Hlast; reflexivity | exact Hlast].
  Qed.

  (* the pending chain is parent-linked from there *)
  Lemma inv_linked s Fin S x p : Inv s Fin S -> chain (store (db s)) x (ri (libref (db s))) p ->
    linked (tipid Fin) (map eb p).
  Proof.
    intros HI Hc. rewrite (inv_tipid _ _ _ HI). destruct (chain_linked _ _ _ _ Hc) as [Hl _]. exact Hl.
  Qed.

  (* the inclusive first delivery: the LIB block itself arrives before anything was sent *)
  Definition incl_first (s : fstate) (b : block) : bool :=
    c_incl cfg && (match last_sent s with None => true | Some _ => false end) && (bid b =? ri (libref (db s))).

  (* ---------------------------------------------------------------- ProcessBlock, unfolded for this configuration *)

  Lemma fk_step_new' s b undos redos junc :
    DbInv (db s) -> In b U -> find (bid b) (store (db s)) = None -> dropped s b = false ->
    incl_first s b = false ->
    sw_of cfg s b = ScssOk undos redos junc ->
    fk_step cfg s b =
      let s1 := with_db s (new_db (db s) b) in
      match reversible_segment (new_db (db s) b) first (bref b) with
      | None => (s1, [], RFuel)
      | Some (longest, _) =>
          if negb (triggers cfg s b) || (match longest with [] => true | _ => false end) then (s1, [], ROk)
          else process_tail cfg s1 b undos redos junc longest None
      end.
  Proof.
    intros Hd Hb Hf Hdr Hni Hsw. destruct (U_id b Hb) as (H1 & H3).
    unfold fk_step. destruct (N.eqb_spec (bid b) (bparent b)); [contradiction|].
    unfold dropped in Hdr. unfold incl_first in Hni. rewrite Hdr, Hni.
    unfold sw_of in Hsw. rewrite Hsw.
    rewrite (add_link_new U U_id _ _ Hb Hf).
    assert (Hhl : has_lib (new_db (db s) b) = true).
    { apply has_lib_true. cbn [new_db libref]. apply (di_lid _ Hd). }
    rewrite Hhl. cbn [with_db db].
    destruct (reversible_segment (new_db (db s) b) first (bref b)) as [[longest reach]|]; reflexivity.
  Qed.

  (* the second half of process_tail: LIB movement *)
  Definition lib_tail (s3 : fstate) (b : block) (evs : list event) (fi : option seg) : fstate * list event * result :=
    match last_sent s3 with
    | None => (s3, evs, ROk)
    | Some ls =>
        if negb (has_lib (db s3)) then (s3, evs, ROk) else
        match block_in_chain (db s3) (bref ls) (blib ls) with
        | None => (s3, evs, RFuel)
        | Some libr =>
            if ri libr =? 0 then (s3, evs, ROk) else
            match has_new_irr_segment (db s3) first libr with
            | None => (s3, evs, RFuel)
            | Some (has_new, irr0, stalled) =>
                let irr := match fi with Some f => irr0 ++ [f] | None => irr0 end in
                if negb has_new && (match fi with None => true | Some _ => false end) then (s3, evs, ROk) else
                let d' := purge_before_lib (move_lib (db s3) libr) (c_kept cfg) in
                let s4 := with_db s3 d' in
                let '(s5, ev5, ok5) := process_irr_segment cfg irr (bref b) s4 in
                if negb ok5 then (s5, evs ++ ev5, RHandlerErr) else
                let '(s6, ev6, ok6) := process_stalled_segment cfg stalled (bref b) s5 in
                (s6, evs ++ ev5 ++ ev6, if ok6 then ROk else RHandlerErr)
            end
        end
    end.

  Lemma process_tail_first s1 b undos redos junc longest fi : longest <> [] ->
    exists s3 evU evR evN,
      process_tail cfg s1 b undos redos junc longest fi = lib_tail s3 b (evU ++ evR ++ evN) fi /\
      map eblk evU = map eb undos /\ Forall (fun e => estep e = SUndo) evU /\
      map eblk evR = map eb redos /\ Forall (fun e => estep e = SNew) evR /\
      map eblk evN = map (fun sg => eb (sent sg)) (unsent longest) /\ Forall (fun e => estep e = SNew) evN /\
      store (db s3) = mark_all (store (db s1)) (unsent longest) /\
      extra (db s3) = extra (db s1) /\ libref (db s3) = libref (db s1) /\
      last_sent s3 = match rev (unsent longest) with sg :: _ => Some (eb (sent sg)) | [] => last_sent s1 end /\
      Forall (fun e => elib e = cursor_lib s1) (evU ++ evR ++ evN).
  Proof.
    intros Hne. unfold process_tail. rewrite Hundo, Hnew.
    destruct (process_blocks_ok cfg Hnofail b undos SUndo junc s1) as (sa & evU & HeqU & (Ha1 & Ha2 & Ha3) & HmU & HsU).
    rewrite HeqU. cbn [negb].
    destruct (process_blocks_ok cfg Hnofail b redos SNew None sa) as (sb & evR & HeqR & (Hb1 & Hb2 & Hb3) & HmR & HsR).
    rewrite HeqR. cbn [negb].
    unfold process_new_blocks. destruct longest as [|b0 lrest] eqn:Hlong; [congruence|]. rewrite <- Hlong in *.
    destruct (process_new_loop_ok cfg Hnofail Hnew (seg_ref (last longest b0)) longest sb []) as
      (s3 & evN & Hrun & HmN & HsN & Hst & Hex & Hlib & Hlls & Hlast).
    cbn [app] in Hrun. rewrite Hlong in Hrun at 1. rewrite <- Hlong in Hrun. rewrite Hrun. cbn [negb].
    assert (Hcl : Forall (fun e => elib e = cursor_lib s1) (evU ++ evR ++ evN)).
    { assert (Ca : cursor_lib sa = cursor_lib s1) by (unfold cursor_lib; rewrite Ha1, Ha3; reflexivity).
      assert (Cb : cursor_lib sb = cursor_lib s1) by (unfold cursor_lib; rewrite Hb1, Hb3, Ha1, Ha3; reflexivity).
      apply Forall_app. split; [exact (pb_elib _ _ _ _ _ _ _ _ _ HeqU)|]. apply Forall_app. split.
      - rewrite <- Ca. exact (pb_elib _ _ _ _ _ _ _ _ _ HeqR).
      - rewrite <- Cb. apply pnl_elib in Hrun. destruct Hrun as (evs0 & E0 & Hall). cbn [app] in E0. subst evs0. exact Hall. }
    rewrite Hb1, Ha1 in Hst, Hex, Hlib. rewrite Hb2, Ha2 in Hlast.
    exists s3, evU, evR, evN. split; [|repeat split; assumption].
    unfold lib_tail. destruct (last_sent s3) as [ls|]; [|reflexivity].
    destruct (negb (has_lib (db s3))); [reflexivity|].
    destruct (block_in_chain (db s3) (bref ls) (blib ls)) as [libr|]; [|reflexivity].
    destruct (ri libr =? 0); [reflexivity|].
    destruct (has_new_irr_segment (db s3) first libr) as [[[hn irr] st]|]; reflexivity.
  Qed.

  (* ---------------------------------------------------------------- storing a new block keeps the invariant *)

  Lemma dbinv_add d b : DbInv d -> In b U -> find (bid b) (store d) = None -> DbInv (new_db d b).
  Proof.
    intros [Hnd HU Hcoh Hnum Hex Hlc Hrt] Hb Hf.
    assert (Hk : ~ In (bid b) (keys (store d))) by (apply find_none; exact Hf).
    constructor; cbn [new_db store extra libref].
    - rewrite keys_snoc. apply nodup_snoc; [exact Hnd | exact Hk].
    - intros e He. apply in_app_or in He as [He|[<-|[]]]; [apply HU; exact He | exact Hb].
    - exact Hcoh.
    - unfold num_of, new_db in *. cbn [store extra libref]. rewrite find_app.
      destruct (find (ri (libref d)) (store d)) as [e|]; [exact Hnum|]. cbn [find eb].
      destruct (N.eqb_spec (bid b) (ri (libref d))) as [E|E]; [|exact Hnum].
      destruct Hcoh as (_ & Hn & _). cbn [eb]. rewrite (Hn b Hb E). reflexivity.
    - exact Hex.
    - intros e He Hs. apply in_app_or in He as [He|[<-|[]]]; [|discriminate].
      destruct (Hlc e He Hs) as [(p & Hp & Hps)|H]; [left | right; exact H].
      exists p. split; [apply find_snoc_old; exact Hp | exact Hps].
    - intros e He Hp. apply in_app_or in He as [He|[<-|[]]]; [apply Hrt; assumption | reflexivity].
  Qed.

  Lemma inv_add s Fin S b : Inv s Fin S -> In b U -> find (bid b) (store (db s)) = None ->
    incl_first s b = false ->
    Inv (with_db s (new_db (db s) b)) Fin S.
  Proof.
    intros [Hd Hfin Hflast Hh] Hb Hf Hni.
    constructor; cbn [with_db db new_db store extra libref last_sent]; try assumption.
    - apply (dbinv_add _ _ Hd Hb Hf).
    - unfold incl_first in Hni. destruct (last_sent s) as [hd|].
      + destruct Hh as (HhU & p & Hc & HS & Hs). split; [exact HhU|].
        exists p. repeat split; try assumption. apply chain_ext. exact Hc.
      + destruct Hh as (-> & -> & Hall & Hroot). cbn [rev] in Hflast. split; [reflexivity|]. split; [reflexivity|]. split.
        * intros e He. apply in_app_or in He as [He|[<-|[]]]; [apply Hall; exact He | reflexivity].
        * intros Hi. rewrite find_app, (Hroot Hi). cbn [find eb].
          rewrite Hi, Hflast in Hni. cbn [andb] in Hni. rewrite Hni. reflexivity.
  Qed.

  (* below the LIB the undo chain never meets a block that sits above the LIB *)
  Lemma tail_disjoint' d pP x : DbInv d -> chain (store d) x (ri (libref d)) pP ->
    forall f t e, undo_chain f d (ri (libref d)) = Some (ri (libref d) :: t) -> In e pP -> ~ In (key e) t.
  Proof.
    intros Hd Hc f t e Hu He Hin. pose proof (di_wf _ Hd) as Hwf.
    pose proof (di_above _ Hd _ _ Hc e He) as Hab.
    assert (Hes : In e (store d)) by (eapply chain_in; eassumption).
    pose proof (find_in_nodup _ _ (di_nodup _ Hd) Hes) as Hfe.
    destruct (find (ri (libref d)) (store d)) as [el|] eqn:Fl.
    - pose proof (undo_chain_nums d Hwf f _ t el Hu Fl (key e) e Hin Hfe) as Hlt.
      pose proof (lib_stored_num d (di_num _ Hd) el Fl). lia.
    - destruct f as [|f]; [discriminate|]. cbn [undo_chain] in Hu. unfold link_of in Hu. rewrite Fl in Hu.
      cbn in Hu. injection Hu as <-. destruct Hin.
  Qed.

  (* along a chain that rests on the LIB, sent flags are downward closed *)
  Lemma sent_prefix' d x C R : DbInv d -> chain (store d) x (ri (libref d)) (C ++ R) ->
    Forall (fun e => esent e = true) C ->
    exists Rs Ru, R = Rs ++ Ru /\ Forall (fun e => esent e = true) Rs /\ Forall (fun e => esent e = false) Ru.
  Proof.
    intros Hd. revert x. induction R as [|e R IH] using rev_ind; intros x Hc HC.
    - exists [], []. repeat split; constructor.
    - rewrite app_assoc in Hc. destruct (chain_snoc_inv _ _ _ _ _ Hc) as (Hne & Hf & Hc').
      destruct (IH _ Hc' HC) as (Rs & Ru & -> & Hs & Hu).
      destruct (esent e) eqn:Es.
      + destruct Ru as [|u Ru].
        * exists (Rs ++ [e]), []. split; [rewrite !app_nil_r; reflexivity|]. split; [|constructor].
          apply Forall_app. split; [exact Hs | constructor; [exact Es | constructor]].
        * exfalso.
          assert (Hlast : exists pre pe, C ++ Rs ++ u :: Ru = pre ++ [pe] /\ esent pe = false).
          { destruct (exists_last (l := u :: Ru)) as (pre & pe & Hpe); [discriminate|].
            exists (C ++ Rs ++ pre), pe. rewrite Hpe, !app_assoc. split; [reflexivity|].
            assert (In pe (u :: Ru)) by (rewrite Hpe; apply in_or_app; right; left; reflexivity).
            rewrite Forall_forall in Hu. apply Hu. assumption. }
          destruct Hlast as (pre & pe & Heq & Hpe). rewrite Heq in Hc'.
          destruct (chain_top _ _ _ _ _ Hc') as [Hf' Hk'].
          pose proof (find_some _ _ _ Hf) as [Hin _].
          destruct (di_lc _ Hd e Hin Es) as [(p & Hp & Hps)|Hlow].
          -- rewrite Hf' in Hp. injection Hp as <-. congruence.
          -- assert (HpeU : In (eb pe) U) by (apply (di_inU _ Hd); apply find_some in Hf'; tauto).
             pose proof (Hlow (eb pe) HpeU Hk').
             assert (Hpin : In pe (pre ++ [pe])) by (apply in_or_app; right; left; reflexivity).
             pose proof (di_above _ Hd _ _ Hc' pe Hpin). lia.
      + exists Rs, (Ru ++ [e]). split; [rewrite app_assoc; reflexivity|]. split; [exact Hs|].
        apply Forall_app. split; [exact Hu | constructor; [exact Es | constructor]].
  Qed.

  (* marking the unsent blocks of a chain that rests on the LIB keeps the forkdb invariant *)
  Lemma dbinv_marked d d3 x q : DbInv d -> chain (store d) x (ri (libref d)) q ->
    store d3 = mark_all (store d) (unsent (map seg_of q)) -> extra d3 = extra d -> libref d3 = libref d ->
    DbInv d3.
  Proof.
    intros Hd Hc Hst Hex Hlib. pose proof Hd as [Hnd HU Hcoh Hnum Hextra Hlc Hrt].
    assert (Hq : forall e, In e q -> In e (store d)) by (intros e He; eapply chain_in; eassumption).
    set (g := flag_if (map sid (unsent (map seg_of q)))) in *.
    constructor; rewrite ?Hst, ?Hex, ?Hlib.
    - apply l3_nodup. exact Hnd.
    - apply l3_inU; assumption.
    - exact Hcoh.
    - unfold num_of in *. rewrite Hst, Hex, l3_find.
      destruct (find (ri (libref d)) (store d)) as [e|]; cbn [option_map]; [|exact Hnum].
      rewrite flag_if_eb. exact Hnum.
    - exact Hextra.
    - intros e3 He3 Hs3. rewrite Hst in He3. rewrite Hst, Hlib.
      destruct (in_mark_all _ _ _ Hnd He3) as (e0 & He0 & ->). fold g in Hs3 |- *.
      assert (Eg : forall a, eb (g a) = eb a) by (intros a; apply flag_if_eb). rewrite Eg.
      destruct (esent e0) eqn:Es0.
      + destruct (Hlc e0 He0 Es0) as [(p & Hp & Hps)|H]; [left | right; exact H].
        exists (g p). split; [rewrite l3_find, Hp; reflexivity | apply g_keeps_sent; exact Hps].
      + pose proof (flagged_in_q _ q Hnd Hq e0 He0 Es0 Hs3) as Hin.
        apply in_split in Hin as (q1 & q2 & Heq). rewrite Heq in Hc.
        pose proof (chain_prefix _ _ _ _ _ _ Hc) as Hpre.
        destruct (chain_snoc_inv _ _ _ _ _ Hpre) as (_ & _ & Hc1).
        destruct q1 as [|pe q1'] using rev_ind.
        * right. apply chain_nil_inv in Hc1. intros y Hy Ey. rewrite Hc1 in Ey.
          destruct Hcoh as (_ & Hn & _). rewrite (Hn y Hy Ey). lia.
        * clear IHq1'. destruct (chain_top _ _ _ _ _ Hc1) as [Hfp _].
          left. exists (g pe). split; [rewrite l3_find, Hfp; reflexivity|].
          apply g_sent_q. rewrite Heq. apply in_or_app. left. apply in_or_app. right. left. reflexivity.
    - intros e3 He3 Hp3.
      destruct (in_mark_all _ _ _ Hnd He3) as (e0 & He0 & ->). fold g in Hp3 |- *.
      assert (Eg : forall a, eb (g a) = eb a) by (intros a; apply flag_if_eb). rewrite Eg in Hp3.
      pose proof (Hrt e0 He0 Hp3) as Hs0.
      destruct (esent (g e0)) eqn:Hs3; [|reflexivity]. exfalso.
      pose proof (flagged_in_q _ q Hnd Hq e0 He0 Hs0 Hs3) as Hin.
      exact (chain_parent_nz _ _ _ _ (di_wf _ Hd) (di_lid _ Hd) Hc e0 Hin Hp3).
  Qed.

  (* ---------------------------------------------------------------- the triggering step, first half:
     undo / redo / new deliveries; the LIB is not touched yet *)

  Lemma trigger_first s1 Fin S b pP C R Uh junc fi :
    Inv s1 Fin S -> In b U ->
    chain (store (db s1)) (bid b) (ri (libref (db s1))) (pP ++ [mkEntry b false]) ->
    pP = C ++ R ->
    Forall (fun e => esent e = true) C ->
    S = rev (Fin ++ map eb (C ++ Uh)) ->
    exists s3 evU evRN,
      process_tail cfg s1 b (rev Uh) (filter esent R) junc (map seg_of (pP ++ [mkEntry b false])) fi
        = lib_tail s3 b (evU ++ evRN) fi /\
      apply_all (ri r0) S (evU ++ evRN) = Some (rev (Fin ++ map eb (pP ++ [mkEntry b false]))) /\
      Inv s3 Fin (rev (Fin ++ map eb (pP ++ [mkEntry b false]))) /\
      keys (store (db s3)) = keys (store (db s1)) /\ last_sent s3 = Some b /\
      libref (db s3) = libref (db s1) /\
      map eblk evU = map eb (rev Uh) /\ Forall (fun e => estep e = SUndo) evU /\
      Forall (fun e => estep e = SNew) evRN /\
      Forall (fun e => elib e = cursor_lib s1) (evU ++ evRN).
  Proof.
    intros HI Hb Hc HP HC HS.
    pose proof HI as [Hd Hfin Hflast Hh]. pose proof Hd as [Hnd HU Hcoh Hnum Hextra Hlc Hrt].
    set (en := mkEntry b false) in *. set (q := pP ++ [en]) in *.
    assert (Hq : forall e, In e q -> In e (store (db s1))) by (intros e He; eapply chain_in; eassumption).
    assert (HcP : chain (store (db s1)) (bparent b) (ri (libref (db s1))) pP).
    { destruct (chain_snoc_inv _ _ _ _ _ Hc) as (_ & _ & H). exact H. }
    rewrite HP in HcP.
    destruct (sent_prefix' _ _ C R Hd HcP HC) as (Rs & Ru & HR & HRs & HRu).
    destruct (filter_sent_split Rs Ru HRs HRu) as [F1 F2].
    assert (Hun : filter (fun e => negb (esent e)) q = Ru ++ [en]).
    { unfold q. rewrite HP, HR, !filter_app, (filter_unsent_nil C HC), <- filter_app, F2. reflexivity. }
    destruct (process_tail_first s1 b (rev Uh) (filter esent R) junc (map seg_of q) fi) as
      (s3 & evU & evR & evN & Hrun & HmU & HsU & HmR & HsR & HmN & HsN & Hst & Hex & Hlr & Hls & Hcl).
    { unfold q. destruct pP; discriminate. }
    exists s3, evU, (evR ++ evN). split; [exact Hrun|].
    pose proof (dbinv_marked (db s1) (db s3) (bid b) q Hd Hc Hst Hex Hlr) as Hd3.
    assert (Hls' : last_sent s3 = Some b).
    { rewrite Hls, unsent_map, Hun, map_app, rev_app_distr. reflexivity. }
    assert (Hkeys : keys (store (db s3)) = keys (store (db s1))) by (rewrite Hst; apply mark_all_keys).
    pose proof (inv_linked s1 Fin S _ _ HI Hc) as Hlk. fold q in Hlk.
    split; [|split; [|repeat split; try assumption]].
    - (* the consumer *)
      rewrite HS, map_app, app_assoc, rev_app_distr.
      rewrite (apply_all_app _ _ evU _ (rev (Fin ++ map eb C))).
      2:{ apply apply_undos; [exact HsU | rewrite HmU, map_rev; reflexivity]. }
      assert (HmRN : map eblk (evR ++ evN) = map eb (R ++ [en])).
      { rewrite map_app, HmR, HmN, unsent_map, map_map. cbn [sent seg_of].
        change (fun x : entry => eb x) with eb. rewrite Hun, HR, F1, <- map_app, app_assoc. reflexivity. }
      assert (Hq2 : Fin ++ map eb q = (Fin ++ map eb C) ++ map eb (R ++ [en])).
      { unfold q. rewrite HP, <- (app_assoc C R), (map_app eb C), app_assoc. reflexivity. }
      rewrite (apply_news (ri r0) (evR ++ evN) (map eb (R ++ [en])) (rev (Fin ++ map eb C))).
      + f_equal. rewrite Hq2. symmetry. apply rev_app_distr.
      + apply Forall_app. split; assumption.
      + exact HmRN.
      + assert (Hq3 : map eb q = map eb C ++ map eb (R ++ [en])).
        { unfold q. rewrite HP, <- (app_assoc C R), (map_app eb C). reflexivity. }
        rewrite Hq3 in Hlk. apply linked_split in Hlk as [_ Hlk]. rewrite rev_app_distr. unfold tipid in Hlk.
        destruct (rev (map eb C)) as [|t r]; cbn [app]; [destruct (rev Fin); exact Hlk | exact Hlk].
    - (* the invariant *)
      set (g := flag_if (map sid (unsent (map seg_of q)))).
      pose proof (l3_chain _ q _ _ _ Hc) as Hc3. fold g in Hc3.
      constructor.
      + exact Hd3.
      + rewrite Hlr. exact Hfin.
      + rewrite Hlr. exact Hflast.
      + rewrite Hls'. split; [exact Hb|]. exists (map g q). rewrite Hst, Hlr. split; [exact Hc3|]. split.
        * do 2 f_equal. rewrite map_map. apply map_ext. intros a. symmetry. apply flag_if_eb.
        * apply Forall_forall. intros a Ha. apply in_map_iff in Ha as (a0 & <- & Ha0).
          apply (g_sent_q q a0 Ha0).
    - apply Forall_app. split; assumption.
  Qed.

  (* ---------------------------------------------------------------- MoveLIB + PurgeBeforeLIB *)

  Lemma key_block l x : in_U l -> In x U -> In (bid x) (keys l) -> exists e, In e l /\ eb e = x.
  Proof.
    intros HU Hx Hk. apply in_map_iff in Hk as (e & Hk & He). exists e. split; [exact He|].
    apply U_uniq; [apply HU; exact He | exact Hx | exact Hk].
  Qed.

  Lemma dbinv_purge d x A a B kept : DbInv d -> chain (store d) x (ri (libref d)) (A ++ a :: B) ->
    let d' := purge_before_lib (move_lib d (mkR (key a) (bnum (eb a)))) kept in
    DbInv d' /\ libref d' = mkR (key a) (bnum (eb a)) /\
    store d' = filter (fun e => bnum (eb a) - kept <=? bnum (eb e)) (store d) /\
    chain (store d') x (key a) B.
  Proof.
    intros Hd Hc. pose proof Hd as [Hnd HU Hcoh Hnum Hextra Hlc Hrt]. pose proof (di_wf _ Hd) as Hwf.
    assert (Hain : In a (A ++ a :: B)) by (apply in_or_app; right; left; reflexivity).
    assert (Ha : In a (store d)) by (eapply chain_in; eassumption).
    assert (HaU : In (eb a) U) by (apply HU; exact Ha).
    pose proof (di_above _ Hd _ _ Hc a Hain) as Hab.
    unfold purge_before_lib, move_lib. cbn [libref store rn extra].
    set (f := fun e : entry => bnum (eb a) - kept <=? bnum (eb e)).
    assert (Hfa : f a = true) by (unfold f; apply N.leb_le; lia).
    split; [|split; [reflexivity|split; [reflexivity|]]].
    - constructor; cbn [libref store rn ri extra].
      + apply nodup_filter_keys. exact Hnd.
      + intros e He. apply filter_In in He as [He _]. apply HU. exact He.
      + apply (lib_coh_block (eb a) HaU). destruct Hcoh as (_ & _ & _ & Hr & _). lia.
      + unfold num_of. cbn [store libref ri rn].
        rewrite (find_filter_keep f _ _ a Hnd (chain_keys_in _ _ _ _ _ Hc Hain) Hfa). reflexivity.
      + left. reflexivity.
      + intros e He Hs. cbn [store libref rn] in *. apply filter_In in He as [He Hfe].
        destruct (Hlc e He Hs) as [(p & Hp & Hps)|Hlow].
        * destruct (f p) eqn:Fp.
          -- left. exists p. split; [apply find_filter_keep; assumption | exact Hps].
          -- right. intros y Hy Ey. pose proof (find_some _ _ _ Hp) as [Hpin Hpk].
             assert (y = eb p).
             { apply U_uniq; [exact Hy | apply HU; exact Hpin | rewrite Ey; symmetry; exact Hpk]. }
             subst y. unfold f in Fp. apply N.leb_gt in Fp. lia.
        * right. intros y Hy Ey. specialize (Hlow y Hy Ey). lia.
      + intros e He Hp. cbn [store] in He. apply filter_In in He as [He _]. apply Hrt; assumption.
    - apply chain_filter; [exact Hnd | eapply chain_suffix; eassumption|].
      intros e He. destruct (chain_split_order _ _ _ _ _ _ Hwf Hc) as [Habove _].
      specialize (Habove e He). unfold f. apply N.leb_le. lia.
  Qed.

  (* ---------------------------------------------------------------- the triggering step, second half *)

  Definition LibHalf (s3 : fstate) (Fin : list block) (S3 : cstack) (b : block) (evs : list event)
             (res : fstate * list event * result) : Prop :=
    exists s' evI evS Fnew,
      res = (s', evs ++ evI ++ evS, ROk) /\
      Inv s' (Fin ++ Fnew) S3 /\
      last_sent s' = Some b /\
      Forall (fun e => estep e = SIrr) evI /\ Forall (fun e => estep e = SStalled) evS /\
      (if f_irr (c_filter cfg) then map eblk evI = Fnew else evI = []) /\
      rn (libref (db s3)) <= rn (libref (db s')) /\
      Forall (fun x => rn (libref (db s3)) < bnum x /\ bnum x <= blib b) Fnew /\
      linked (ri (libref (db s3))) Fnew /\
      (Fnew = [] -> s' = s3 /\ evS = []) /\
      (forall e, In e evS -> In (eblk e) U /\ rn (libref (db s3)) < bnum (eblk e) <= rn (libref (db s')) /\
                            ~ In (bid (eblk e)) (map bid S3)) /\
      NoDup (map (fun e => bid (eblk e)) evS) /\
      (forall x, In x U -> In (bid x) (keys (store (db s3))) ->
                 In (bid x) (keys (store (db s'))) \/ bnum x < rn (libref (db s'))).

  Lemma lib_half_stay s3 Fin S3 b evs : Inv s3 Fin S3 -> last_sent s3 = Some b ->
    LibHalf s3 Fin S3 b evs (s3, evs, ROk).
  Proof.
    intros HI Hls. exists s3, [], [], []. rewrite !app_nil_r. split; [reflexivity|].
    split; [exact HI|]. split; [exact Hls|].
    split; [constructor|]. split; [constructor|].
    split; [destruct (f_irr (c_filter cfg)); reflexivity|]. split; [lia|].
    split; [constructor|]. split; [exact I|]. split; [auto|]. split; [intros e []|]. split; [constructor|].
    intros x Hx Hk. left. exact Hk.
  Qed.

  Lemma seg_of_sid l : map sid (map seg_of l) = keys l.
  Proof. unfold keys. rewrite map_map. reflexivity. Qed.

  Lemma seg_of_blocks l : map (fun sg => eb (sent sg)) (map seg_of l) = map eb l.
  Proof. rewrite map_map. reflexivity. Qed.

  Lemma lib_half s3 Fin S3 b evs :
    Inv s3 Fin S3 -> last_sent s3 = Some b -> In b U -> bid b <> ri (libref (db s3)) ->
    LibHalf s3 Fin S3 b evs (lib_tail s3 b evs None).
  Proof.
    intros HI Hls Hb Hne.
    pose proof HI as [Hd Hfin Hflast Hh]. rewrite Hls in Hh. destruct Hh as (_ & p & Hc & HS & Hsent).
    pose proof Hd as [Hnd HU Hcoh Hnum Hextra Hlc Hrt].
    pose proof (di_wf _ Hd) as Hwf. pose proof (di_lid _ Hd) as Hlid. pose proof (di_up _ Hd) as Hup.
    destruct p as [|et p' _] using rev_ind.
    { apply chain_nil_inv in Hc. contradiction. }
    destruct (chain_top _ _ _ _ _ Hc) as [Hf Hk].
    assert (Eet : eb et = b) by (apply (stored_is_self U U_uniq _ _ _ HU Hb Hf)).
    unfold lib_tail. cbv beta iota zeta. rewrite Hls, (di_has_lib _ Hd). cbn [negb].
    destruct (N.le_gt_cases (blib b) (rn (libref (db s3)))) as [Hle|Hgt].
    - destruct (bic_dead (db s3) Hwf Hlid Hnum Hup Hextra (bid b) (p' ++ [et]) et (blib b) Hc) as (r & Hr & Hdead);
        [destruct p'; discriminate | exact Hf | exact Hle |].
      rewrite Eet in Hr. fold (bref b) in Hr.
      rewrite Hr. destruct (no_new_irr (db s3) first Hwf Hlid Hup r Hdead) as [Hz|Hno].
      + rewrite Hz, N.eqb_refl. apply lib_half_stay; assumption.
      + destruct (ri r =? 0); [apply lib_half_stay; assumption|]. rewrite Hno. cbn [negb andb].
        apply lib_half_stay; assumption.
    - (* the LIB moves *)
      assert (Hdec : decl_ok (eb et)) by (rewrite Eet; apply L_decl; exact Hb).
      rewrite <- Eet in Hgt.
      destruct (decl_split _ _ p' (bid b) et HU Hcoh Hc Hdec Hgt) as (A & a & B & Heq & Hna).
      rewrite Eet in Hna, Hgt. rewrite Heq in Hc, HS, Hsent.
      pose proof (bic_find (db s3) _ _ A a B et Hwf Hc Hf) as Hbic. rewrite Eet in Hbic. fold (bref b) in Hbic.
      rewrite <- Hna. rewrite Hbic.
      cbn [ri].
      assert (Hain : In a (A ++ a :: B)) by (apply in_or_app; right; left; reflexivity).
      assert (Ha : In a (store (db s3))) by (eapply chain_in; eassumption).
      destruct (N.eqb_spec (key a) 0) as [E0|_]; [exfalso; apply (proj1 (ws_id _ Hwf a Ha)); exact E0|].
      rewrite (new_irr_on_chain (db s3) first Hwf Hlid Hnum Hup _ A a B Hc). cbn [negb]. cbv zeta.
      destruct (dbinv_purge (db s3) (bid b) A a B (c_kept cfg) Hd Hc) as (Hd' & Hl' & Hst' & Hc').
      set (d' := purge_before_lib (move_lib (db s3) (mkR (key a) (bnum (eb a)))) (c_kept cfg)) in *.
      remember (map seg_of (A ++ [a])) as irr eqn:Eirr.
      assert (Hirr : exists b0 irr', irr = b0 :: irr').
      { rewrite Eirr, map_app. destruct (map seg_of A); cbn [app map]; eauto. }
      destruct Hirr as (b0 & irr' & Hirr).
      set (stalled := stalled_in_segment (db s3) irr).
      destruct (process_irr_segment_ok cfg Hnofail irr b0 irr' (bref b) (with_db s3 d') Hirr)
        as (s5 & ev5 & Hrun5 & Hdb5 & Hls5 & Hlls5 & Hm5 & Hs5).
      rewrite Hrun5. cbv beta iota. cbn [negb].
      destruct (process_stalled_segment_ok cfg Hnofail stalled (bref b) s5)
        as (s6 & ev6 & Hrun6 & (Hdb6 & Hls6 & Hlls6) & Hm6 & Hs6).
      rewrite Hrun6. cbv beta iota.
      assert (Hdb : db s6 = d') by (rewrite Hdb6, Hdb5; reflexivity).
      assert (Hlast : last_sent s6 = Some b) by (rewrite Hls6, Hls5; exact Hls).
      pose proof (di_above _ Hd _ _ Hc) as Habove.
      destruct (chain_split_order _ _ _ _ _ _ Hwf Hc) as [HaboveB HbelowA].
      assert (HA : forall e, In e (A ++ [a]) -> In e (store (db s3)) /\ rn (libref (db s3)) < bnum (eb e) <= bnum (eb a)).
      { intros e He. assert (Hin : In e (A ++ a :: B)).
        { apply in_app_or in He as [He|[<-|[]]]; apply in_or_app; [left; exact He | right; left; reflexivity]. }
        split; [eapply chain_in; eassumption|]. split; [apply Habove; exact Hin|].
        apply in_app_or in He as [He|[<-|[]]]; [specialize (HbelowA e He)|]; lia. }
      assert (Hsplit : Fin ++ map eb (A ++ a :: B) = (Fin ++ map eb (A ++ [a])) ++ map eb B).
      { rewrite <- app_assoc, <- map_app, <- app_assoc. reflexivity. }
      assert (Hlibn : rn (libref d') = bnum (eb a)) by (rewrite Hl'; reflexivity).
      exists s6, ev5, ev6, (map eb (A ++ [a])). split; [reflexivity|].
      split; [|split; [exact Hlast|split; [exact Hs5|split; [exact Hs6|]]]].
      { (* the invariant *)
        constructor; rewrite ?Hdb.
        - exact Hd'.
        - apply Forall_app. split.
          + eapply Forall_impl; [|exact Hfin]. cbn beta. intros x [Hx1 Hx2]. split; [exact Hx1|].
            rewrite Hlibn. specialize (Habove a Hain). lia.
          + apply Forall_forall. intros x Hx. apply in_map_iff in Hx as (e & <- & He).
            destruct (HA e He) as [Hes Hn]. split; [apply HU; exact Hes | rewrite Hlibn; lia].
        - rewrite map_app, app_assoc, rev_app_distr. cbn [map rev app]. rewrite Hl'. reflexivity.
        - rewrite Hlast. split; [exact Hb|]. exists B. rewrite Hl'. cbn [ri]. split; [exact Hc'|].
          split; [rewrite HS, Hsplit; reflexivity|].
          apply Forall_app in Hsent as [_ Hsent]. inversion Hsent; assumption. }
      split.
      { destruct (f_irr (c_filter cfg)); [|exact Hm5]. rewrite Hm5, Eirr. apply seg_of_blocks. }
      split; [rewrite Hdb, Hlibn; specialize (Habove a Hain); lia|].
      split.
      { apply Forall_forall. intros x Hx. apply in_map_iff in Hx as (e & <- & He).
        destruct (HA e He) as [_ Hn]. lia. }
      split.
      { pose proof (chain_prefix _ _ _ _ _ _ Hc) as Hpre. destruct (chain_linked _ _ _ _ Hpre) as [Hlk _]. exact Hlk. }
      split.
      { intros Hnil. apply map_eq_nil in Hnil. destruct A; discriminate. }
      (* the stalled blocks *)
      assert (Hst_in : forall sg, In sg stalled -> exists e0, In e0 (store (db s3)) /\ sg = seg_of e0 /\
                 ~ In (key e0) (keys (A ++ [a])) /\ rn (libref (db s3)) < bnum (eb e0) <= bnum (eb a)).
      { intros sg Hsg. destruct (stalled_in (db s3) irr b0 irr' sg Hirr Hsg) as (e0 & He0 & -> & Hnin & Hlo & Hhi).
        exists e0. split; [exact He0|]. split; [reflexivity|]. split.
        - rewrite Eirr, seg_of_sid in Hnin. exact Hnin.
        - assert (Hb0 : In b0 irr) by (rewrite Hirr; left; reflexivity).
          rewrite Eirr in Hb0. apply in_map_iff in Hb0 as (e1 & <- & He1). cbn [snum seg_of] in Hlo.
          destruct (HA e1 He1) as [_ Hn1].
          assert (Hl : snum (last irr (seg_of e1)) = bnum (eb a)).
          { rewrite Eirr, map_app. cbn [map]. rewrite last_last. reflexivity. }
          rewrite Hl in Hhi. lia. }
      split.
      { intros e He. destruct (f_stalled (c_filter cfg)); [|rewrite Hm6 in He; destruct He].
        assert (Hin : In (eblk e) (map eblk ev6)) by (apply in_map; exact He).
        rewrite Hm6 in Hin. apply in_map_iff in Hin as (sg & Hsg & Hin).
        destruct (Hst_in sg Hin) as (e0 & He0 & -> & Hnin & Hn). cbn [sent seg_of] in Hsg. rewrite <- Hsg.
        split; [apply HU; exact He0|]. split; [rewrite Hdb, Hlibn; exact Hn|].
        rewrite HS, map_rev, <- in_rev, map_app. intros Hin'. apply in_app_or in Hin' as [Hin'|Hin'].
        - apply in_map_iff in Hin' as (x & Ex & Hx). rewrite Forall_forall in Hfin. destruct (Hfin x Hx) as [HxU Hxn].
          assert (x = eb e0) by (apply U_uniq; [exact HxU | apply HU; exact He0 | exact Ex]). subst x. lia.
        - rewrite map_map in Hin'. apply in_map_iff in Hin' as (e1 & Ek & He1).
          assert (He1s : In e1 (store (db s3))) by (eapply chain_in; eassumption).
          assert (e1 = e0).
          { pose proof (find_in_nodup _ _ Hnd He1s) as F1. pose proof (find_in_nodup _ _ Hnd He0) as F0.
            unfold key in F1, F0. rewrite Ek in F1. congruence. }
          subst e1. apply in_app_or in He1 as [He1|[<-|He1]].
          + apply Hnin. unfold keys. rewrite map_app. apply in_or_app. left. apply in_map. exact He1.
          + apply Hnin. unfold keys. rewrite map_app. apply in_or_app. right. left. reflexivity.
          + specialize (HaboveB e0 He1). lia. }
      split.
      { destruct (f_stalled (c_filter cfg)); [|rewrite Hm6; constructor].
        rewrite <- (map_map eblk bid), Hm6, map_map.
        rewrite (map_ext_in _ sid).
        - apply (stalled_nodup (db s3) irr b0 irr' Hirr Hnd).
        - intros sg Hsg. destruct (Hst_in sg Hsg) as (e0 & _ & -> & _). reflexivity. }
      intros x Hx Hkx. destruct (key_block _ x HU Hx Hkx) as (e & He & <-).
      rewrite Hdb, Hlibn, Hst'.
      destruct (bnum (eb a) - c_kept cfg <=? bnum (eb e)) eqn:Fe.
      + left. apply (in_map key). apply filter_In. split; [exact He | exact Fe].
      + right. apply N.leb_gt in Fe. lia.
  Qed.

  (* ---------------------------------------------------------------- one ProcessBlock call *)

  (* the block was received before and is still stored, or lies under the LIB of a started stream *)
  Definition known (s : fstate) (x : block) : Prop :=
    In (bid x) (keys (store (db s))) \/ dropped s x = true.

  Definition StepOut (s : fstate) (Fin : list block) (S : cstack) (b : block)
             (res : fstate * list event * result) : Prop :=
    exists s' evA evI evS Fnew S',
      res = (s', evA ++ evI ++ evS, ROk) /\
      apply_all (ri r0) S evA = Some S' /\
      Inv s' (Fin ++ Fnew) S' /\
      Forall (fun e => estep e = SUndo \/ estep e = SNew) evA /\
      (forall e, In e evA -> estep e = SUndo -> In (eblk e) U /\ rn (libref (db s)) < bnum (eblk e)) /\
      Forall (fun e => estep e = SIrr) evI /\ Forall (fun e => estep e = SStalled) evS /\
      (if f_irr (c_filter cfg) then map eblk evI = Fnew else evI = []) /\
      rn (libref (db s)) <= rn (libref (db s')) /\
      (* the blocks that become final: a parent-linked run that rests on the old LIB, or (inclusive
         first delivery) the starting LIB block itself, delivered as New by the same step *)
      ((Forall (fun x => rn (libref (db s)) < bnum x /\ bnum x <= blib b) Fnew /\ linked (ri (libref (db s))) Fnew) \/
       (last_sent s = None /\ bid b = ri r0 /\ Fnew = [b] /\ evS = [] /\
        exists e, evA = [e] /\ estep e = SNew /\ eblk e = b)) /\
      (Fnew = [] -> evS = [] /\ libref (db s') = libref (db s)) /\
      (forall e, In e evS -> In (eblk e) U /\ rn (libref (db s)) < bnum (eblk e) <= rn (libref (db s')) /\
                            ~ In (bid (eblk e)) (map bid S')) /\
      NoDup (map (fun e => bid (eblk e)) evS) /\
      (S = [] \/ S' <> []) /\
      (known s b -> s' = s /\ evA = [] /\ evI = [] /\ evS = []) /\
      (forall x, In x U -> known s x -> known s' x) /\
      known s' b.

  Lemma stepout_quiet s Fin S b s' : Inv s' Fin S -> libref (db s') = libref (db s) ->
    (known s b -> s' = s) -> (forall x, In x U -> known s x -> known s' x) -> known s' b ->
    StepOut s Fin S b (s', [], ROk).
  Proof.
    intros HI Hl Hk1 Hk2 Hk3. exists s', [], [], [], [], S. rewrite app_nil_r.
    split; [reflexivity|]. split; [reflexivity|]. split; [rewrite app_nil_r; exact HI|].
    split; [constructor|]. split; [intros e []|]. split; [constructor|]. split; [constructor|].
    split; [destruct (f_irr (c_filter cfg)); reflexivity|]. split; [rewrite Hl; lia|].
    split; [left; split; [constructor | exact I]|]. split; [auto|]. split; [intros e []|]. split; [constructor|].
    split; [destruct S; [left; reflexivity | right; discriminate]|].
    split; [intros H; auto|]. split; [exact Hk2 | exact Hk3].
  Qed.

  Lemma in_keys_dec x l : In x (keys l) \/ ~ In x (keys l).
  Proof. destruct (in_dec N.eq_dec x (keys l)); auto. Qed.

  Lemma evs_blocks (P : block -> Prop) evs l : map eblk evs = map eb l -> (forall a, In a l -> P (eb a)) ->
    forall e, In e evs -> P (eblk e).
  Proof.
    intros Hm Hl e He. assert (Hin : In (eblk e) (map eblk evs)) by (apply in_map; exact He).
    rewrite Hm in Hin. apply in_map_iff in Hin as (a & <- & Ha). apply Hl. exact Ha.
  Qed.

  (* assembling a triggering step from its two halves *)
  Lemma step_finish s Fin S b s3 evU evRN S3 :
    Inv s Fin S -> In b U -> ~ In (bid b) (keys (store (db s))) -> dropped s b = false ->
    apply_all (ri r0) S (evU ++ evRN) = Some S3 -> Inv s3 Fin S3 ->
    keys (store (db s3)) = keys (store (db s)) ++ [bid b] -> last_sent s3 = Some b ->
    libref (db s3) = libref (db s) -> bid b <> ri (libref (db s3)) ->
    Forall (fun e => estep e = SUndo) evU -> Forall (fun e => estep e = SNew) evRN ->
    (forall e, In e evU -> In (eblk e) U /\ rn (libref (db s)) < bnum (eblk e)) ->
    S3 <> [] ->
    StepOut s Fin S b (lib_tail s3 b (evU ++ evRN) None).
  Proof.
    intros HI Hb Hk Hdr Happ HI3 Hk3 Hls3 Hl3 Hne HsU HsRN HuU HS3.
    destruct (lib_half s3 Fin S3 b (evU ++ evRN) HI3 Hls3 Hb Hne)
      as (s' & evI & evS & Fnew & -> & HI' & Hls' & HsI & HsS & HmI & Hmono & HFnew & HFlk & Hnil & Hst & Hnd & Hkeys).
    rewrite Hl3 in *.
    exists s', (evU ++ evRN), evI, evS, Fnew, S3.
    split; [reflexivity|]. split; [exact Happ|]. split; [exact HI'|].
    split.
    { apply Forall_app. split; (eapply Forall_impl; [|eassumption]); cbn beta; auto. }
    split.
    { intros e He Hs. apply in_app_or in He as [He|He]; [apply HuU; exact He|].
      rewrite Forall_forall in HsRN. rewrite (HsRN e He) in Hs. discriminate. }
    split; [exact HsI|]. split; [exact HsS|]. split; [exact HmI|]. split; [exact Hmono|].
    split; [left; split; [exact HFnew | exact HFlk]|].
    split.
    { intros Hn. destruct (Hnil Hn) as [-> ->]. auto. }
    split; [exact Hst|]. split; [exact Hnd|]. split; [right; exact HS3|].
    assert (Hdrop : forall x, bnum x < rn (libref (db s')) -> dropped s' x = true).
    { intros x Hx. unfold dropped. rewrite Hls'. apply andb_true_iff. split; [apply N.ltb_lt; exact Hx | reflexivity]. }
    assert (Hkn : forall x, In x U -> In (bid x) (keys (store (db s3))) -> known s' x).
    { intros x Hx Hin. destruct (Hkeys x Hx Hin) as [H|H]; [left; exact H | right; apply Hdrop; exact H]. }
    split.
    { intros [H|H]; [contradiction | congruence]. }
    split.
    - intros x Hx [H|H].
      + apply Hkn; [exact Hx|]. rewrite Hk3. apply in_or_app. left. exact H.
      + right. apply Hdrop. unfold dropped in H. apply andb_true_iff in H as [H _]. apply N.ltb_lt in H. lia.
    - apply Hkn; [exact Hb|]. rewrite Hk3. apply in_or_app. right. left. reflexivity.
  Qed.

  (* a block that is already stored: nothing happens (a stored root is stored again, unchanged) *)
  Lemma fk_step_old' s b e : DbInv (db s) -> In b U -> find (bid b) (store (db s)) = Some e ->
    incl_first s b = false ->
    fk_step cfg s b = (s, [], ROk).
  Proof.
    intros Hd Hb Hf Hni.
    apply (fk_step_old_w U cfg U_id U_uniq U_up s b e (di_nodup _ Hd) (di_inU _ Hd) Hb Hf).
    - intros Hp. apply (di_root _ Hd e (proj1 (find_some _ _ _ Hf))).
      rewrite (stored_is_self U U_uniq _ _ _ (di_inU _ Hd) Hb Hf). exact Hp.
    - apply (di_lid _ Hd).
    - exact Hni.
  Qed.

  (* the inclusive first delivery: New + Irreversible for the starting LIB block itself *)
  Lemma step_root s Fin S b : Inv s Fin S -> In b U -> dropped s b = false -> incl_first s b = true ->
    StepOut s Fin S b (fk_step cfg s b).
  Proof.
    intros HI Hb Hd Hinc. pose proof HI as [Hdb Hfin Hflast Hh].
    unfold incl_first in Hinc. apply andb_true_iff in Hinc as [Hinc Hid]. apply andb_true_iff in Hinc as [Hci Hls].
    destruct (last_sent s) as [hd|] eqn:Els; [discriminate|]. destruct Hh as (-> & -> & Hall & Hroot).
    cbn [rev] in Hflast. apply N.eqb_eq in Hid. rewrite Hflast in Hid.
    specialize (Hroot Hci).
    assert (Hf : find (bid b) (store (db s)) = None) by (rewrite Hid; exact Hroot).
    assert (Hk : ~ In (bid b) (keys (store (db s)))) by (apply find_none; exact Hf).
    destruct (U_id b Hb) as (H1 & H3).
    unfold fk_step. destruct (N.eqb_spec (bid b) (bparent b)); [contradiction|].
    unfold dropped in Hd. rewrite Els in *. rewrite Hd, Hci, Hflast.
    replace (bid b =? ri r0) with true by (symmetry; apply N.eqb_eq; exact Hid). cbn [andb].
    rewrite (add_link_new U U_id _ _ Hb Hf). cbn [fst].
    pose proof (dbinv_add _ _ Hdb Hb Hf) as Hdb1.
    set (s1 := with_db s (new_db (db s) b)).
    unfold process_initial_inclusive. rewrite Hnew, (call_ok cfg Hnofail). cbv beta iota zeta.
    set (tiny := mkSeg (bid b) (bnum b) (mkEntry b false)).
    set (ev := mkEv SNew b (seg_ref tiny) (seg_ref tiny) (cursor_lib s1) None 0 0).
    set (s1' := mkFS (db (mkFS (db s1) (last_sent s1) (last_lib_seen s1) (ncalls s1 + 1))) (Some b)
                     (last_lib_seen (mkFS (db s1) (last_sent s1) (last_lib_seen s1) (ncalls s1 + 1)))
                     (ncalls (mkFS (db s1) (last_sent s1) (last_lib_seen s1) (ncalls s1 + 1)))).
    destruct (process_irr_segment_ok cfg Hnofail [tiny] tiny [] (bref b) s1' eq_refl)
      as (s2 & ev2 & Hrun & Hdb2 & Hls2 & Hlls2 & Hm2 & Hs2).
    rewrite Hrun. cbv beta iota.
    assert (Hdbs2 : db s2 = new_db (db s) b) by (rewrite Hdb2; reflexivity).
    assert (Hlast2 : last_sent s2 = Some b) by (rewrite Hls2; reflexivity).
    exists s2, [ev], ev2, [], [b], [b]. rewrite app_nil_r.
    split; [reflexivity|].
    split.
    { cbn [apply_all apply_ev ev estep eblk]. unfold root_ok. rewrite Hid, N.eqb_refl. reflexivity. }
    split.
    { constructor; rewrite ?Hdbs2; cbn [new_db libref store app].
      - exact Hdb1.
      - constructor; [|constructor]. split; [exact Hb|]. rewrite Hflast, (L_num b Hb Hid). lia.
      - cbn [rev app]. rewrite Hflast. exact Hid.
      - rewrite Hlast2. split; [exact Hb|]. exists []. rewrite Hflast, Hid. split; [constructor|].
        split; [reflexivity | constructor]. }
    split; [constructor; [right; reflexivity | constructor]|].
    split; [intros e [<-|[]] He; discriminate|].
    split; [exact Hs2|]. split; [constructor|].
    split.
    { destruct (f_irr (c_filter cfg)); exact Hm2. }
    split; [rewrite Hdbs2; cbn [new_db libref]; lia|].
    split.
    { right. split; [exact Els|]. split; [exact Hid|]. split; [reflexivity|]. split; [reflexivity|].
      exists ev. auto. }
    split; [discriminate|]. split; [intros e []|]. split; [constructor|]. split; [left; reflexivity|].
    split.
    { intros [H|H]; [contradiction | unfold dropped in H; rewrite Els, andb_false_r in H; discriminate]. }
    split.
    - intros x Hx [H|H].
      + left. rewrite Hdbs2. cbn [new_db store]. rewrite keys_snoc. apply in_or_app. left. exact H.
      + unfold dropped in H. rewrite Els, andb_false_r in H. discriminate.
    - left. rewrite Hdbs2. cbn [new_db store]. rewrite keys_snoc. apply in_or_app. right. left. reflexivity.
  Qed.

  Lemma step_inv s Fin S b : Inv s Fin S -> In b U -> StepOut s Fin S b (fk_step cfg s b).
  Proof.
    intros HI Hb.
    destruct (dropped s b) eqn:Hd.
    { rewrite (fk_step_dropped U cfg U_id s b Hb Hd). apply stepout_quiet; auto. right. exact Hd. }
    destruct (incl_first s b) eqn:Hni.
    { apply step_root; assumption. }
    pose proof HI as [Hdb Hfin Hflast Hh]. pose proof Hdb as [Hnd HU Hcoh Hnum Hextra Hlc Hrt].
    pose proof (di_wf _ Hdb) as Hwf.
    destruct (find (bid b) (store (db s))) as [e|] eqn:Hf.
    { rewrite (fk_step_old' s b e Hdb Hb Hf Hni). apply stepout_quiet; auto.
      left. apply find_is_some_in. eauto. }
    (* a new block *)
    pose proof (inv_add s Fin S b HI Hb Hf Hni) as HI1.
    set (s1 := with_db s (new_db (db s) b)) in *.
    set (en := mkEntry b false).
    assert (Hk : ~ In (bid b) (keys (store (db s)))) by (apply find_none; exact Hf).
    assert (Hnk : ~ known s b) by (intros [H|H]; [contradiction | congruence]).
    assert (Hl1 : libref (db s1) = libref (db s)) by reflexivity.
    assert (Hk1 : keys (store (db s1)) = keys (store (db s)) ++ [bid b]).
    { unfold s1. cbn [with_db db new_db store]. apply keys_snoc. }
    assert (Hsw : exists u r j, sw_of cfg s b = ScssOk u r j).
    { unfold sw_of. destruct (f_undo (c_filter cfg) && triggers cfg s b); [|eauto].
      destruct (last_sent s) as [ls|]; [apply scss_total; exact Hwf | eauto]. }
    destruct Hsw as (undos & redos & junc & Hsw).
    rewrite (fk_step_new' s b undos redos junc Hdb Hb Hf Hd Hni Hsw). cbv zeta. fold s1.
    pose proof HI1 as [Hdb1 _ _ _]. pose proof Hdb1 as [Hnd1 HU1 _ _ _ _ _].
    pose proof (di_wf _ Hdb1) as Hwf1.
    change (new_db (db s) b) with (db s1).
    destruct (rs_total (db s1) first Hwf1 (fuel_of (db s1)) (bid b) (bnum b) [] (enough_fuel_of _ _)) as [[longest reach] Hrs].
    unfold reversible_segment. cbn [bref ri rn]. rewrite Hrs.
    destruct (negb (triggers cfg s b) || match longest with [] => true | _ => false end) eqn:Hgo.
    { apply stepout_quiet; auto.
      - intros H. contradiction.
      - intros x Hx [H|H]; [left; rewrite Hk1; apply in_or_app; left; exact H | right; exact H].
      - left. rewrite Hk1. apply in_or_app. right. left. reflexivity. }
    apply orb_false_iff in Hgo as [Htr Hlong]. apply negb_false_iff in Htr.
    (* the chain of the new block *)
    assert (Hfb : find (bid b) (store (db s1)) = Some en).
    { unfold s1. cbn [with_db db new_db store]. apply (find_snoc_new (store (db s)) en). exact Hk. }
    assert (Hshape : exists pP, chain (store (db s1)) (bid b) (ri (libref (db s1))) (pP ++ [en]) /\ longest = map seg_of (pP ++ [en])).
    { destruct reach.
      - apply rs_sound in Hrs.
        2:{ intros e' He'. rewrite Hfb in He'. injection He' as <-. reflexivity. }
        destruct Hrs as (p & Hc & Hp & _). rewrite app_nil_r in Hp.
        destruct p as [|e' p' _] using rev_ind.
        + subst longest. discriminate.
        + destruct (chain_top _ _ _ _ _ Hc) as [Hf' _]. rewrite Hfb in Hf'. injection Hf' as <-.
          exists p'. auto.
      - apply (rs_false_nil cfg (db s1) (di_has_lib _ Hdb1)) in Hrs. subst longest. discriminate. }
    destruct Hshape as (pP & Hc & ->).
    destruct (chain_snoc_inv _ _ _ _ _ Hc) as (Hne1 & _ & HcP). cbn [eb en] in HcP.
    assert (Hnin : ~ In en pP).
    { pose proof (chain_nodup _ _ _ _ Hwf1 Hc) as Hn. unfold keys in Hn. rewrite map_app in Hn.
      intros Hin. refine (nodup_app_disj _ _ (key en) Hn _ _); [apply in_map; exact Hin | left; reflexivity]. }
    assert (HcP0 : chain (store (db s)) (bparent b) (ri (libref (db s))) pP).
    { apply (chain_restrict (store (db s)) en); assumption. }
    unfold sw_of in Hsw. rewrite Hundo, Htr in Hsw. cbn [andb] in Hsw.
    destruct (last_sent s) as [hd|] eqn:Hls.
    - destruct Hh as (HhU & pH & HcH & HS & HsH).
      assert (HpH : forall a, In a pH -> In (eb a) U /\ rn (libref (db s)) < bnum (eb a)).
      { intros a Ha. split; [apply HU; apply (chain_in _ _ _ _ _ HcH Ha) | apply (di_above _ Hdb _ _ HcH a Ha)]. }
      destruct (N.eq_dec (bid hd) (bparent b)) as [Heq|Hneq].
      + unfold sent_chain_switch_segments in Hsw. rewrite Heq, N.eqb_refl in Hsw. injection Hsw as <- <- <-.
        rewrite Heq in HcH. pose proof (chain_det _ _ _ _ _ HcH HcP0) as ->.
        destruct (trigger_first s1 Fin S b pP pP [] [] None None HI1 Hb Hc) as
          (s3 & evU & evRN & Hrun & Happ & HI3 & Hk3 & Hls3 & Hlr3 & HmU & HsU & HsRN & _).
        * rewrite app_nil_r. reflexivity.
        * exact HsH.
        * rewrite app_nil_r. exact HS.
        * cbn [rev filter] in Hrun. fold en in Hrun. rewrite Hrun.
          eapply step_finish; eauto; try congruence; try (rewrite map_app, app_assoc, rev_app_distr; discriminate).
          apply map_eq_nil in HmU. subst evU. intros e0 [].
      + destruct (scss_link (db s) _ (bid hd) (bparent b) pH pP Hwf (di_lid _ Hdb) Hneq HcH HcP0) as (C & R & Uh & j & HP & HH & Hsc).
        { intros f t e0 Hu He0. exact (tail_disjoint' (db s) pP (bparent b) Hdb HcP0 f t e0 Hu He0). }
        rewrite Hsc in Hsw. injection Hsw as <- <- <-.
        destruct (trigger_first s1 Fin S b pP C R Uh j None HI1 Hb Hc HP) as
          (s3 & evU & evRN & Hrun & Happ & HI3 & Hk3 & Hls3 & Hlr3 & HmU & HsU & HsRN & _).
        * rewrite HH in HsH. apply Forall_app in HsH. tauto.
        * rewrite HS, HH. reflexivity.
        * fold en in Hrun. rewrite Hrun. eapply step_finish; eauto; try congruence; try (rewrite map_app, app_assoc, rev_app_distr; discriminate).
          apply (evs_blocks (fun x => In x U /\ rn (libref (db s)) < bnum x) evU (rev Uh) HmU).
          intros a Ha. apply HpH. rewrite HH. apply in_or_app. right. apply in_rev. exact Ha.
    - injection Hsw as <- <- <-. destruct Hh as (-> & -> & Hall).
      assert (Hfil : filter esent pP = []).
      { assert (G : forall x, In x pP -> esent x = false).
        { intros x Hx. apply Hall. eapply chain_in; [exact HcP0 | exact Hx]. }
        clear -G. induction pP as [|h t IHt]; cbn [filter]; [reflexivity|].
        rewrite (G h (or_introl eq_refl)). apply IHt. intros x Hx. apply G. right. exact Hx. }
      destruct (trigger_first s1 [] [] b pP [] pP [] None None HI1 Hb Hc eq_refl (Forall_nil _) eq_refl) as
        (s3 & evU & evRN & Hrun & Happ & HI3 & Hk3 & Hls3 & Hlr3 & HmU & HsU & HsRN & _).
      cbn [rev] in Hrun. rewrite Hfil in Hrun. fold en in Hrun. rewrite Hrun.
      eapply step_finish; eauto; try congruence; try (rewrite map_app, app_assoc, rev_app_distr; discriminate).
      apply map_eq_nil in HmU. subst evU. intros e0 [].
  Qed.

  (* ---------------------------------------------------------------- whole histories: C01 *)

  Definition Seen (s : fstate) (seen : list block) : Prop :=
    forall x, In x seen -> In x U /\ known s x.

  Lemma run_c01 : forall h s Fin S seen, Inv s Fin S -> (forall b, In b h -> In b U) -> Seen s seen ->
    let t := fk_run cfg s h in
    length t = length h /\ Forall (fun x => snd x = ROk) t /\
    (exists S', apply_all (ri r0) S (all_events t) = Some S') /\
    c01_refeed_b seen h t = true.
  Proof.
    induction h as [|b h IH]; intros s Fin S seen HI Hh Hseen.
    - cbn. repeat split; [constructor | exists S; reflexivity].
    - destruct (step_inv s Fin S b HI (Hh b (or_introl eq_refl))) as
        (s' & evA & evI & evS & Fnew & S' & Hstep & Happ & HI' & _ & _ & HsI & HsS & _ & _ & _ & _ & _ & _ & _ & Hk1 & Hk2 & Hk3).
      cbn [fk_run]. rewrite Hstep.
      assert (Hseen' : Seen s' (b :: seen)).
      { intros x [<-|Hx].
        - split; [apply Hh; left; reflexivity | exact Hk3].
        - destruct (Hseen x Hx) as [HxU Hkx]. split; [exact HxU | apply Hk2; assumption]. }
      destruct (IH s' (Fin ++ Fnew) S' (b :: seen) HI' (fun x Hx => Hh x (or_intror Hx)) Hseen') as (Hlen & Hok & (S2 & Happ2) & Hre).
      assert (Happ' : apply_all (ri r0) S (evA ++ evI ++ evS) = Some S').
      { rewrite (apply_all_app _ _ _ _ _ Happ). apply apply_all_inert. apply Forall_app. split.
        - eapply Forall_impl; [|exact HsI]. cbn beta. auto.
        - eapply Forall_impl; [|exact HsS]. cbn beta. auto. }
      cbn zeta in *. repeat split.
      + cbn [length]. rewrite Hlen. reflexivity.
      + constructor; [reflexivity | exact Hok].
      + exists S2. unfold all_events. cbn [map concat fst]. fold (all_events (fk_run cfg s' h)).
        rewrite (apply_all_app _ _ _ _ _ Happ'). exact Happ2.
      + cbn [c01_refeed_b]. rewrite Hre, andb_true_r.
        destruct (existsb (block_eqb b) seen) eqn:Hex; [|reflexivity].
        apply existsb_exists in Hex as (x & Hx & Heq). apply block_eqb_eq in Heq. subst x.
        destruct (Hseen b Hx) as [_ Hb]. destruct (Hk1 Hb) as (_ & -> & -> & ->). reflexivity.
  Qed.

  Theorem moving_lib_run m h : rooted m -> (forall b, In b h -> In b U) ->
    let t := fk_run cfg (fs_init m) h in
    length t = length h /\ Forall (fun x => snd x = ROk) t /\
    c01_discipline_b m t = true /\ c01_refeed_b [] h t = true /\
    c01_error_b (c_fail_at cfg) 0 t = true.
  Proof.
    intros Hm Hh. destruct (run_c01 h (fs_init m) [] [] [] (inv_init m Hm) Hh) as (Hlen & Hok & (S' & Happ) & Hre).
    { intros x []. }
    cbn zeta. repeat split; try assumption.
    - unfold c01_discipline_b. replace (root_lib m (fk_run cfg (fs_init m) h)) with (ri r0) by (destruct Hm as [-> | ->]; reflexivity).
      rewrite Happ. reflexivity.
    - rewrite Hnofail. apply error_ok. exact Hok.
  Qed.
End MovingLib.
