(* The LIB-dependent lemmas of FixedLib.v under a weaker knowledge of the LIB: `wlib d` only says that the
   LIB reference is r0 and that the forkdb knows r0's number (through the stored LIB block or through the
   nums entry written by InitLIB).  This covers the configured LIB (FixedLib.lib_db) and a LIB discovered
   from the stream, where `extra` is empty and the LIB block is stored. *)
From BV Require Import Base.Prelude Model.Block Model.ForkDB Model.Forkable Spec.Consumer
  Proofs.Fk.StoreFacts Proofs.Fk.WalkFacts Proofs.Fk.LoopFacts Proofs.Fk.StoreChange Proofs.Fk.SwitchFacts
  Proofs.Fk.FixedLib.
Local Open Scope N_scope.

Section Weak.
  Variable U : list block.
  Variable r0 : ref.
  Variable cfg : config.

  Hypothesis Hnofail : c_fail_at cfg = None.
  Hypothesis Hnew : f_new (c_filter cfg) = true.
  Hypothesis Hundo : f_undo (c_filter cfg) = true.

  Hypothesis U_id : forall b, In b U -> bid b <> 0 /\ bid b <> bparent b.
  Hypothesis U_uniq : forall x y, In x U -> In y U -> bid x = bid y -> x = y.
  Hypothesis U_up : forall x y, In x U -> In y U -> bparent x = bid y -> bnum y < bnum x.
  Hypothesis L_id : ri r0 <> 0.
  Hypothesis L_num : forall y, In y U -> bid y = ri r0 -> bnum y = rn r0.
  Hypothesis L_up : forall x, In x U -> bparent x = ri r0 -> rn r0 < bnum x.

  Notation first := (c_first cfg).

  Definition wlib (d : forkdb) : Prop := libref d = r0 /\ num_of d (ri r0) = Some (rn r0).

  Lemma wlib_of_lib_db d : lib_db r0 d -> in_U U (store d) -> wlib d.
  Proof.
    intros Hl HU. split; [exact (proj1 Hl)|].
    destruct Hl as [Hl He]. unfold num_of. destruct (find (ri r0) (store d)) as [e|] eqn:F.
    - pose proof (find_some _ _ _ F) as [Hin Hk]. rewrite (L_num _ (HU e Hin) Hk). reflexivity.
    - rewrite He, N.eqb_refl. reflexivity.
  Qed.

  Lemma has_lib_w d : libref d = r0 -> has_lib d = true.
  Proof.
    intros H. unfold has_lib. rewrite H. unfold Block.ref_eqb, ref_empty. cbn [ri rn].
    destruct (N.eqb_spec (ri r0) 0); [contradiction|]. reflexivity.
  Qed.

  Lemma wlib_add d b : wlib d -> In b U -> wlib (new_db d b).
  Proof.
    intros [Hl Hn] Hb. split; [exact Hl|]. unfold num_of in *. cbn [new_db store extra]. rewrite find_app.
    destruct (find (ri r0) (store d)) as [e|]; [exact Hn|]. cbn [find eb].
    destruct (N.eqb_spec (bid b) (ri r0)) as [E|E]; cbn [eb]; [rewrite (L_num b Hb E); reflexivity | exact Hn].
  Qed.

  (* marking sent flags changes no number *)
  Lemma num_of_marked d d1 segs x : store d = mark_all (store d1) segs -> extra d = extra d1 ->
    num_of d x = num_of d1 x.
  Proof.
    intros Hs He. unfold num_of. rewrite Hs, He, find_mark_all.
    destruct (find x (store d1)) as [e|]; cbn [option_map]; [rewrite flag_if_eb|]; reflexivity.
  Qed.

  Lemma wlib_marked d d1 segs : wlib d1 -> store d = mark_all (store d1) segs -> extra d = extra d1 ->
    libref d = libref d1 -> wlib d.
  Proof.
    intros [Hl Hn] Hs He Hlr. split; [congruence|]. rewrite (num_of_marked d d1 segs _ Hs He). exact Hn.
  Qed.

  Lemma chain_of_rs_w d x e segs : libref d = r0 ->
    find x (store d) = Some e ->
    reversible_segment d first (mkR x (bnum (eb e))) = Some (segs, true) ->
    exists p, chain (store d) x (ri r0) p /\ segs = map seg_of p.
  Proof.
    intros Hl Hf H. unfold reversible_segment in H. cbn [ri rn] in H.
    apply rs_sound in H.
    - destruct H as (p & Hc & -> & _). rewrite Hl in Hc. exists p. rewrite app_nil_r. auto.
    - intros e' He'. rewrite Hf in He'. congruence.
  Qed.

  (* ---------------------------------------------------------------- the tail of ProcessBlock *)

  Lemma process_tail_ok_w s1 b undos redos junc longest :
    wlib (db s1) -> longest <> [] ->
    (forall d ls, store d = mark_all (store (db s1)) (unsent longest) -> extra d = extra (db s1) -> libref d = libref (db s1) ->
        In ls (map (fun sg => eb (sent sg)) (unsent longest)) \/ last_sent s1 = Some ls ->
        block_in_chain d (bref ls) (blib ls) = Some (mkR (ri r0) (rn r0))) ->
    exists s3 evU evR evN,
      process_tail cfg s1 b undos redos junc longest None = (s3, evU ++ evR ++ evN, ROk) /\
      map eblk evU = map eb undos /\ Forall (fun e => estep e = SUndo) evU /\
      map eblk evR = map eb redos /\ Forall (fun e => estep e = SNew) evR /\
      map eblk evN = map (fun sg => eb (sent sg)) (unsent longest) /\ Forall (fun e => estep e = SNew) evN /\
      store (db s3) = mark_all (store (db s1)) (unsent longest) /\
      extra (db s3) = extra (db s1) /\ libref (db s3) = libref (db s1) /\
      last_sent s3 = match rev (unsent longest) with sg :: _ => Some (eb (sent sg)) | [] => last_sent s1 end.
  Proof.
    intros Hl Hne Htail. unfold process_tail. rewrite Hundo, Hnew.
    destruct (process_blocks_ok cfg Hnofail b undos SUndo junc s1) as (sa & evU & -> & (Ha1 & Ha2 & Ha3) & HmU & HsU).
    cbn [negb].
    destruct (process_blocks_ok cfg Hnofail b redos SNew None sa) as (sb & evR & -> & (Hb1 & Hb2 & Hb3) & HmR & HsR).
    cbn [negb].
    unfold process_new_blocks. destruct longest as [|b0 lrest] eqn:Hlong; [congruence|]. rewrite <- Hlong in *.
    destruct (process_new_loop_ok cfg Hnofail Hnew (seg_ref (last longest b0)) longest sb []) as
      (s3 & evN & Hrun & HmN & HsN & Hst & Hex & Hlib & Hlls & Hlast).
    cbn [app] in Hrun. rewrite Hlong in Hrun at 1. rewrite <- Hlong in Hrun. rewrite Hrun. cbn [negb].
    rewrite Hb1, Ha1 in Hst, Hex, Hlib. rewrite Hb2, Ha2 in Hlast.
    exists s3, evU, evR, evN.
    assert (Hno : match last_sent s3 with
                  | None => True
                  | Some ls => block_in_chain (db s3) (bref ls) (blib ls) = Some (mkR (ri r0) (rn r0))
                  end).
    { destruct (last_sent s3) as [ls|]; [|exact I].
      apply Htail; try assumption.
      destruct (rev (unsent longest)) as [|sg t] eqn:R.
      - right. symmetry. exact Hlast.
      - left. injection Hlast as Hlast. subst ls. apply (in_map (fun x => eb (sent x))). apply in_rev. rewrite R. left. reflexivity. }
    assert (Hhl : has_lib (db s3) = true).
    { apply has_lib_w. destruct Hl as [A B]. congruence. }
    destruct (last_sent s3) as [ls|] eqn:Els.
    - rewrite Hhl. cbn [negb]. rewrite Hno. cbn [ri].
      destruct (N.eqb_spec (ri r0) 0); [contradiction|].
      unfold has_new_irr_segment. rewrite Hlib. destruct Hl as [A B]. rewrite A. cbn [ri]. rewrite N.eqb_refl.
      cbn [negb andb]. repeat split; try assumption; try congruence.
    - repeat split; try assumption; try congruence.
  Qed.

  (* ---------------------------------------------------------------- BlockInCurrentChain down to the LIB *)

  Lemma bic_loop_to_lib_w d : wlib d -> in_U U (store d) -> NoDup (keys (store d)) ->
    forall x y p, chain (store d) x y p -> y = ri r0 -> p <> [] ->
    forall f, enough (store d) x f -> bic_loop f d x (rn r0) = Some (mkR (ri r0) (rn r0)).
  Proof.
    intros Hl HU Hnd x y p Hc. pose proof (wf_of_U U U_id U_up _ Hnd HU) as Hwf.
    induction Hc as [x|x y e p Hne Hf Hc IH]; intros Hy Hp f He; [congruence|]. subst y.
    destruct f as [|f]; [destruct He; lia|]. cbn [bic_loop]. rewrite (link_of_stored d x e Hf).
    destruct p as [|e' p'] using rev_ind.
    - apply chain_nil_inv in Hc. rewrite Hc, (proj2 Hl), N.eqb_refl. reflexivity.
    - clear IHp'. destruct (chain_snoc_inv _ _ _ _ _ Hc) as (_ & Hf' & _).
      unfold num_of. rewrite Hf'.
      assert (Hab : rn r0 < bnum (eb e')).
      { eapply (above U r0 cfg U_id U_up L_id L_up); [exact HU | exact Hnd | exact Hc | apply in_or_app; right; left; reflexivity]. }
      destruct (N.eqb_spec (bnum (eb e')) (rn r0)); [lia|].
      destruct (N.ltb_spec (bnum (eb e')) (rn r0)); [lia|].
      apply IH; [reflexivity | destruct p'; discriminate | eapply enough_parent; eassumption].
  Qed.

  Lemma bic_to_lib_w d x e p : wlib d -> in_U U (store d) -> NoDup (keys (store d)) ->
    find x (store d) = Some e -> chain (store d) x (ri r0) p -> p <> [] ->
    block_in_chain d (mkR x (bnum (eb e))) (rn r0) = Some (mkR (ri r0) (rn r0)).
  Proof.
    intros Hl HU Hnd Hf Hc Hp. unfold block_in_chain. cbn [rn ri].
    assert (Hab : rn r0 < bnum (eb e)).
    { destruct p as [|e' p'] using rev_ind; [congruence|]. clear IHp'.
      destruct (chain_snoc_inv _ _ _ _ _ Hc) as (_ & Hf' & _). rewrite Hf in Hf'. injection Hf' as <-.
      eapply (above U r0 cfg U_id U_up L_id L_up); [exact HU | exact Hnd | exact Hc | apply in_or_app; right; left; reflexivity]. }
    destruct (N.eqb_spec (bnum (eb e)) (rn r0)); [lia|].
    eapply bic_loop_to_lib_w; try eassumption; [reflexivity | apply enough_fuel_of].
  Qed.

  Lemma bic_marked_w l1 q d x p e : NoDup (keys l1) -> in_U U l1 -> (forall a, In a q -> In a l1) ->
    wlib d -> store d = mark_all l1 (unsent (map seg_of q)) ->
    chain l1 x (ri r0) (p ++ [e]) ->
    block_in_chain d (bref (eb e)) (rn r0) = Some (mkR (ri r0) (rn r0)).
  Proof.
    intros Hnd HU Hq Hl Hd Hc.
    destruct (chain_snoc_inv _ _ _ _ _ Hc) as (_ & Hf & _).
    pose proof (find_some _ _ _ Hf) as [_ Hk]. unfold key in Hk.
    pose proof (l3_chain l1 q _ _ _ Hc) as Hc3. rewrite <- Hd in Hc3.
    set (g := flag_if (map sid (unsent (map seg_of q)))) in *.
    assert (Hf3 : find x (store d) = Some (g e)).
    { rewrite Hd. unfold g. rewrite (l3_find l1 q), Hf. reflexivity. }
    pose proof (bic_to_lib_w d x (g e) (map g (p ++ [e])) Hl) as B.
    assert (Eg : eb (g e) = eb e) by apply flag_if_eb. rewrite Eg in B. unfold bref. rewrite Hk.
    apply B.
    - rewrite Hd. apply (l3_inU U); assumption.
    - rewrite Hd. apply l3_nodup; assumption.
    - exact Hf3.
    - exact Hc3.
    - rewrite map_app. destruct (map g p); discriminate.
  Qed.

  (* below the LIB the undo chain never meets a block that sits above the LIB *)
  Lemma tail_disjoint_w d pP x : in_U U (store d) -> NoDup (keys (store d)) ->
    chain (store d) x (ri r0) pP ->
    forall f t e, undo_chain f d (ri r0) = Some (ri r0 :: t) -> In e pP -> ~ In (key e) t.
  Proof.
    intros HU Hnd Hc f t e Hu He Hin. pose proof (wf_of_U U U_id U_up _ Hnd HU) as Hwf.
    pose proof (above U r0 cfg U_id U_up L_id L_up _ HU Hnd _ _ Hc e He) as Hab.
    assert (Hes : In e (store d)) by (eapply chain_in; eassumption).
    pose proof (find_in_nodup _ _ Hnd Hes) as Hfe.
    destruct (find (ri r0) (store d)) as [el|] eqn:Fl.
    - pose proof (undo_chain_nums d Hwf f (ri r0) t el Hu Fl (key e) e Hin Hfe) as Hlt.
      pose proof (find_some _ _ _ Fl) as [Hinl Hkl]. rewrite (L_num _ (HU el Hinl) Hkl) in Hlt. lia.
    - destruct f as [|f]; [discriminate|]. cbn [undo_chain] in Hu. unfold link_of in Hu. rewrite Fl in Hu.
      cbn in Hu. injection Hu as <-. destruct Hin.
  Qed.
End Weak.
