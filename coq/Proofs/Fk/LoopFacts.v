(* The delivery loops of Model/Forkable.v when the handler never fails. *)
From BV Require Import Base.Prelude Model.Block Model.ForkDB Model.Forkable Spec.Consumer Proofs.Fk.StoreFacts.
Local Open Scope N_scope.

Section NoFail.
  Variable cfg : config.
  Hypothesis Hnofail : c_fail_at cfg = None.

  Lemma call_ok s : call cfg s = (mkFS (db s) (last_sent s) (last_lib_seen s) (ncalls s + 1), true).
  Proof. unfold call. rewrite Hnofail. reflexivity. Qed.

  (* same forkdb, head and last-LIB-seen; only the call counter moves *)
  Definition same_but_calls (s s' : fstate) : Prop :=
    db s' = db s /\ last_sent s' = last_sent s /\ last_lib_seen s' = last_lib_seen s.

  Lemma process_blocks_loop_ok cur st junc count : forall blocks idx s acc,
    exists s' evs, process_blocks_loop cfg cur st junc count idx blocks s acc = (s', acc ++ evs, true) /\
      same_but_calls s s' /\ map eblk evs = map eb blocks /\ Forall (fun e => estep e = st) evs.
  Proof.
    induction blocks as [|e rest IH]; intros idx s acc.
    - exists s, []. cbn [process_blocks_loop]. rewrite app_nil_r. repeat split; constructor.
    - cbn [process_blocks_loop]. rewrite call_ok. cbv beta iota zeta. cbn [db last_sent last_lib_seen ncalls].
      set (s1 := mkFS (db s) (last_sent s) (last_lib_seen s) (ncalls s + 1)).
      set (ev := mkEv st (eb e) (bref (eb e)) (bref cur) (cursor_lib s) (if matches_undo st then junc else None) idx count).
      destruct (IH (idx + 1) s1 (acc ++ [ev])) as (s' & evs & Heq & (H1 & H2 & H3) & Hm & Hs).
      exists s', (ev :: evs). rewrite Heq, <- app_assoc. cbn [app]. repeat split; try assumption.
      + cbn [map]. rewrite Hm. reflexivity.
      + constructor; [reflexivity | exact Hs].
  Qed.

  Lemma process_blocks_ok cur blocks st junc s :
    exists s' evs, process_blocks cfg cur blocks st junc s = (s', evs, true) /\
      same_but_calls s s' /\ map eblk evs = map eb blocks /\ Forall (fun e => estep e = st) evs.
  Proof.
    unfold process_blocks.
    destruct (process_blocks_loop_ok cur st junc (N.of_nat (length blocks)) blocks 0 s []) as (s' & evs & H & R).
    exists s', evs. cbn [app] in H. auto.
  Qed.

  (* processNewBlocks *)
  Definition unsent (chain : list seg) : list seg := filter (fun b => negb (esent (sent b))) chain.
  Definition mark_all (l : list entry) (segs : list seg) : list entry := fold_left (fun st sg => set_sent (sid sg) st) segs l.

  Hypothesis Hnew : f_new (c_filter cfg) = true.

  Lemma process_new_loop_ok head : forall chain s acc,
    exists s' evs, process_new_loop cfg head chain s acc = (s', acc ++ evs, true) /\
      map eblk evs = map (fun b => eb (sent b)) (unsent chain) /\
      Forall (fun e => estep e = SNew) evs /\
      store (db s') = mark_all (store (db s)) (unsent chain) /\
      extra (db s') = extra (db s) /\ libref (db s') = libref (db s) /\
      last_lib_seen s' = last_lib_seen s /\
      last_sent s' = match rev (unsent chain) with sg :: _ => Some (eb (sent sg)) | [] => last_sent s end.
  Proof.
    induction chain as [|b rest IH]; intros s acc.
    - exists s, []. cbn [process_new_loop unsent filter]. rewrite app_nil_r. repeat split; constructor.
    - cbn [process_new_loop]. unfold unsent. cbn [filter]. fold (unsent rest).
      destruct (esent (sent b)) eqn:Es; cbn [negb].
      + apply IH.
      + rewrite Hnew, call_ok. cbv beta iota zeta. cbn [db last_sent last_lib_seen ncalls].
        set (ev := mkEv SNew (eb (sent b)) (seg_ref b) head (cursor_lib s) None 0 0).
        set (s1 := mkFS (mkDB (set_sent (sid b) (store (db s))) (extra (db s)) (libref (db s)))
                        (Some (eb (sent b))) (last_lib_seen s) (ncalls s + 1)).
        destruct (IH s1 (acc ++ [ev])) as (s' & evs & Heq & Hm & Hs & Hst & Hex & Hlib & Hls & Hlast).
        exists s', (ev :: evs). rewrite Heq, <- app_assoc. cbn [app]. repeat split; try assumption.
        * cbn [map]. rewrite Hm. reflexivity.
        * constructor; [reflexivity | exact Hs].
        * rewrite Hlast. cbn [rev]. destruct (rev (unsent rest)) as [|sg t] eqn:R; cbn [app]; reflexivity.
  Qed.
End NoFail.

(* ---------- the consumer side ---------- *)

Lemma apply_all_app lib S l1 l2 S1 :
  apply_all lib S l1 = Some S1 -> apply_all lib S (l1 ++ l2) = apply_all lib S1 l2.
Proof.
  revert S. induction l1 as [|e l1 IH]; intros S H; cbn [apply_all app] in *.
  - injection H as <-. reflexivity.
  - destruct (apply_ev lib S e); [apply IH; exact H | discriminate].
Qed.

(* Undo events for exactly the top blocks of the stack, newest first *)
Lemma apply_undos lib : forall evs tops rest,
  Forall (fun e => estep e = SUndo) evs -> map eblk evs = tops ->
  apply_all lib (tops ++ rest) evs = Some rest.
Proof.
  induction evs as [|e evs IH]; intros tops rest Hs Hm; cbn [map] in Hm; subst tops; cbn [apply_all app]; [reflexivity|].
  inversion Hs as [|? ? He Hs']; subst. unfold apply_ev. rewrite He, N.eqb_refl. apply IH; [exact Hs' | reflexivity].
Qed.

(* a parent-linked run of blocks, oldest first, whose first block sits on `below` *)
Fixpoint linked (below : N) (l : list block) : Prop :=
  match l with
  | [] => True
  | b :: l' => bparent b = below /\ linked (bid b) l'
  end.

Lemma apply_news lib : forall evs blocks S,
  Forall (fun e => estep e = SNew) evs -> map eblk evs = blocks ->
  match S with top :: _ => linked (bid top) blocks | [] => linked lib blocks end ->
  apply_all lib S evs = Some (rev blocks ++ S).
Proof.
  induction evs as [|e evs IH]; intros blocks S Hs Hm Hl; cbn [map] in Hm; subst blocks; cbn [apply_all rev app]; [reflexivity|].
  inversion Hs as [|? ? He Hs']; subst. unfold apply_ev. rewrite He.
  destruct S as [|top S'].
  - cbn [linked] in Hl. destruct Hl as [Hp Hl]. unfold root_ok. rewrite Hp, N.eqb_refl, orb_true_r.
    rewrite (IH (map eblk evs) [eblk e] Hs' eq_refl Hl). rewrite <- app_assoc. reflexivity.
  - cbn [linked] in Hl. destruct Hl as [Hp Hl]. rewrite Hp, N.eqb_refl.
    rewrite (IH (map eblk evs) (eblk e :: top :: S') Hs' eq_refl Hl). rewrite <- app_assoc. reflexivity.
Qed.
