(* Facts about the association-list store of Model/ForkDB.v: find, put, set_sent, purge. *)
From BV Require Import Base.Prelude Model.Block Model.ForkDB.
Local Open Scope N_scope.

Definition key (e : entry) : N := bid (eb e).
Definition keys (l : list entry) : list N := map key l.

Lemma find_some l id e : find id l = Some e -> In e l /\ key e = id.
Proof.
  induction l as [|x l IH]; cbn [find]; [discriminate|].
  destruct (N.eqb_spec (bid (eb x)) id) as [E|E].
  - intros [= <-]. split; [left; reflexivity | exact E].
  - intros H. destruct (IH H) as [H1 H2]. split; [right; exact H1 | exact H2].
Qed.

Lemma find_none l id : find id l = None <-> ~ In id (keys l).
Proof.
  induction l as [|x l IH]; cbn [find keys map]; [tauto|].
  fold (keys l). unfold key at 1. destruct (N.eqb_spec (bid (eb x)) id) as [E|E].
  - split; [discriminate | intros H; exfalso; apply H; left; exact E].
  - rewrite IH. cbn [In]. tauto.
Qed.

Lemma find_in_nodup l e : NoDup (keys l) -> In e l -> find (key e) l = Some e.
Proof.
  induction l as [|x l IH]; intros Hnd Hin; [destruct Hin|].
  cbn [keys map] in Hnd. fold (keys l) in Hnd. inversion Hnd as [|? ? Hx Hnd']; subst.
  cbn [find]. destruct Hin as [->|Hin].
  - fold (key e). rewrite N.eqb_refl. reflexivity.
  - fold (key x). destruct (N.eqb_spec (key x) (key e)) as [E|E].
    + exfalso. apply Hx. rewrite E. apply in_map. exact Hin.
    + apply IH; assumption.
Qed.

Lemma find_is_some_in l id : (exists e, find id l = Some e) <-> In id (keys l).
Proof.
  destruct (find id l) eqn:E.
  - split; [intros _|eauto]. apply find_some in E as [H1 H2]. rewrite <- H2. apply in_map. exact H1.
  - apply find_none in E. split; [intros [e He]; discriminate | tauto].
Qed.

(* ---- put ---- *)

Lemma put_keys_new e l : ~ In (key e) (keys l) -> put e l = l ++ [e].
Proof.
  induction l as [|x l IH]; intros H; cbn [put]; [reflexivity|].
  cbn [keys map In] in H. fold (keys l) in H.
  destruct (N.eqb_spec (bid (eb x)) (bid (eb e))) as [E|E].
  - exfalso. apply H. left. exact E.
  - cbn [app]. f_equal. apply IH. tauto.
Qed.

Lemma find_app l1 l2 id : find id (l1 ++ l2) = match find id l1 with Some e => Some e | None => find id l2 end.
Proof.
  induction l1 as [|x l1 IH]; cbn [app find]; [reflexivity|].
  destruct (bid (eb x) =? id); [reflexivity | exact IH].
Qed.

Lemma find_put_new e l id : ~ In (key e) (keys l) ->
  find id (put e l) = if key e =? id then Some e else find id l.
Proof.
  intros H. rewrite put_keys_new by exact H. rewrite find_app. cbn [find]. fold (key e).
  destruct (N.eqb_spec (key e) id) as [E|E].
  - destruct (find id l) eqn:F; [|reflexivity].
    exfalso. apply H. rewrite E. apply find_is_some_in. eauto.
  - destruct (find id l); reflexivity.
Qed.

(* storing an entry that is already stored, unchanged *)
Lemma put_same l e : NoDup (keys l) -> In e l -> put e l = l.
Proof.
  induction l as [|x l IH]; intros Hnd Hin; [destruct Hin|].
  cbn [keys map] in Hnd. fold (keys l) in Hnd. inversion Hnd as [|? ? Hx Hnd']; subst.
  cbn [put]. destruct (N.eqb_spec (bid (eb x)) (bid (eb e))) as [E|E].
  - destruct Hin as [->|Hin]; [reflexivity|].
    exfalso. apply Hx. unfold key. rewrite E. apply (in_map key). exact Hin.
  - destruct Hin as [->|Hin]; [congruence|]. f_equal. apply IH; assumption.
Qed.

(* ---- set_sent ---- *)

Lemma set_sent_keys id l : keys (set_sent id l) = keys l.
Proof.
  induction l as [|x l IH]; cbn [set_sent keys map]; [reflexivity|].
  destruct (bid (eb x) =? id); cbn [map]; [reflexivity|]. fold (keys (set_sent id l)) (keys l). rewrite IH. reflexivity.
Qed.

Lemma find_set_sent id l x :
  find x (set_sent id l) =
    match find x l with
    | Some e => if x =? id then Some (mkEntry (eb e) true) else Some e
    | None => None
    end.
Proof.
  induction l as [|y l IH]; cbn [set_sent find]; [reflexivity|].
  destruct (N.eqb_spec (bid (eb y)) id) as [E|E].
  - cbn [find eb]. destruct (N.eqb_spec (bid (eb y)) x) as [F|F].
    + rewrite <- F, E, N.eqb_refl. reflexivity.
    + destruct (find x l) as [e|] eqn:G; [|reflexivity].
      destruct (N.eqb_spec x id) as [H|H]; [|reflexivity]. congruence.
  - cbn [find]. destruct (N.eqb_spec (bid (eb y)) x) as [F|F].
    + destruct (N.eqb_spec x id) as [H|H]; [congruence|reflexivity].
    + exact IH.
Qed.
