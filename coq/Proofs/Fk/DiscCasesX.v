(* Discovery mode: the case analysis of one ProcessBlock call before the discovery (DiscEvents.disc_cases) with the
   CONDITIONS of every case and the resulting stores exposed - what the holding reference of Spec/C03_Disc_Spec.v and the
   retention simulation of MovingLibKept.v need at the hand-over. *)
From BV Require Import Base.Prelude Model.Block Model.ForkDB Model.Forkable Spec.Consumer Spec.Universe
  Spec.C04_Spec Spec.C04_Moving_Spec Spec.C04_Disc_Spec
  Proofs.Fk.StoreFacts Proofs.Fk.WalkFacts Proofs.Fk.LoopFacts Proofs.Fk.StoreChange Proofs.Fk.SwitchFacts
  Proofs.Fk.FixedLib Proofs.Fk.FixedLibEvents Proofs.Fk.RootsBase Proofs.Fk.MovingLibStore Proofs.Fk.MovingLibWalk
  Proofs.Fk.MovingLibLoops Proofs.Fk.MovingLibInv Proofs.Fk.MovingLibFin Proofs.Fk.MovingLibDisc Proofs.Fk.MovingLibEvents
  Proofs.Fk.DiscEvents Proofs.Hub.StepFields.
Local Open Scope N_scope.

Section DiscX.
  Variable U : list block.
  Variable cfg : config.

  Hypothesis Hnofail : c_fail_at cfg = None.
  Hypothesis Hnew : f_new (c_filter cfg) = true.
  Hypothesis Hundo : f_undo (c_filter cfg) = true.
  Hypothesis Hhold : c_hold cfg = true.
  Hypothesis Hincl : c_incl cfg = false.

  Hypothesis U_id : forall b, In b U -> bid b <> 0 /\ bid b <> bparent b.
  Hypothesis U_uniq : forall x y, In x U -> In y U -> bid x = bid y -> x = y.
  Hypothesis U_up : forall x y, In x U -> In y U -> bparent x = bid y -> bnum y < bnum x.
  Hypothesis D_decl : forall b, In b U -> decl_none U b.

  Notation first := (c_first cfg).
  Notation in_U := (in_U U).
  Notation PreInv := (PreInv U cfg).
  Notation kept := (c_kept cfg).

  Definition own_expr (s : fstate) (b : block) : fstate * list event * result :=
    let '(s', evs, ok) := process_initial_inclusive cfg b (with_db s (move_lib (new_db (db s) b) (bref b))) in
    (s', evs, if ok then ROk else RHandlerErr).
  Definition found_expr (s : fstate) (b : block) (a : entry) (B' : list entry) : fstate * list event * result :=
    process_tail cfg (with_db s (move_lib (new_db (db s) b) (R (eb a)))) b [] [] None
                 (map seg_of (B' ++ [mkEntry b false])) (Some (seg_of a)).

  Lemma disc_cases_x s b : PreInv s -> In b U ->
    (In (bid b) (keys (store (db s))) /\ fk_step cfg s b = (s, [], ROk)) \/
    (~ In (bid b) (keys (store (db s))) /\
     (((bnum b = first \/ blib b = bnum b) /\ fk_step cfg s b = own_expr s b) \/
      (bnum b <> first /\
       exists y A a B',
         chain (store (db s) ++ [mkEntry b false]) (bid b) y (A ++ a :: B' ++ [mkEntry b false]) /\
         find y (store (db s) ++ [mkEntry b false]) = None /\
         bnum (eb a) = blib b /\ fk_step cfg s b = found_expr s b a B') \/
      (bnum b <> first /\
       (exists y p', chain (store (db s) ++ [mkEntry b false]) (bid b) y (p' ++ [mkEntry b false]) /\
                     find y (store (db s) ++ [mkEntry b false]) = None /\
                     forall e, In e (p' ++ [mkEntry b false]) -> blib b < bnum (eb e)) /\
       fk_step cfg s b = (with_db s (new_db (db s) b), [], ROk) /\ PreInv (with_db s (new_db (db s) b))))).
  Proof.
    intros HP Hb. pose proof HP as [Hl He Hnd HU Hun Hls Hlls Hrt].
    destruct (find (bid b) (store (db s))) as [e|] eqn:Hf.
    { left. split; [apply find_is_some_in; eauto|].
      exact (pre_step_old U cfg Hhold Hincl U_id U_uniq U_up D_decl s b e HP Hb Hf). }
    assert (Hk : ~ In (bid b) (keys (store (db s)))) by (apply find_none; exact Hf).
    right. split; [exact Hk|].
    rewrite (fk_step_pre U cfg Hhold Hincl U_id U_uniq U_up D_decl s b HP Hb Hf). cbv zeta.
    set (en := mkEntry b false). set (d1 := new_db (db s) b).
    assert (Hl1 : libref d1 = ref_empty) by exact Hl.
    assert (He1 : extra d1 = None) by exact He.
    assert (Hnd1 : NoDup (keys (store d1))).
    { unfold d1. cbn [new_db store]. rewrite keys_snoc. apply nodup_snoc; assumption. }
    assert (HU1 : in_U (store d1)).
    { unfold d1. cbn [new_db store]. intros e Hin. apply in_app_or in Hin as [Hin|[<-|[]]]; [apply HU; exact Hin | exact Hb]. }
    pose proof (wf_of_U U U_id U_up _ Hnd1 HU1) as Hwf1.
    assert (Hfb : find (bid b) (store d1) = Some en).
    { unfold d1. cbn [new_db store]. apply (find_snoc_new (store (db s)) en). exact Hk. }
    destruct (max_chain (store d1) Hwf1 (fuel_of d1) (bid b) (enough_fuel_of d1 (bid b))) as (y & p & Hc & Hy).
    destruct p as [|top p' _] using rev_ind.
    { apply chain_nil_inv in Hc. rewrite <- Hc, Hfb in Hy. discriminate. }
    destruct (chain_top _ _ _ _ _ Hc) as [Hft _]. rewrite Hfb in Hft. injection Hft as <-.
    assert (Hhl1 : has_lib d1 = false) by (unfold has_lib; rewrite Hl1; reflexivity).
    assert (Hown : forall d2, d2 = move_lib d1 (bref b) ->
              (if has_lib d2 then
                 if rn (libref d2) =? bnum b then
                   let '(s', evs, ok) := process_initial_inclusive cfg b (with_db s d2) in (s', evs, if ok then ROk else RHandlerErr)
                 else match reversible_segment d2 first (bref b) with
                      | None => (with_db s d2, [], RFuel)
                      | Some (longest, _) => if (match longest with [] => true | _ => false end) then (with_db s d2, [], ROk)
                                              else process_tail cfg (with_db s d2) b [] [] None longest (block_for_id d2 (ri (libref d2)))
                      end
               else (with_db s d2, [], ROk)) = own_expr s b).
    { intros d2 ->. unfold own_expr, has_lib, ref_eqb, ref_empty. cbn [move_lib libref bref ri rn].
      destruct (N.eqb_spec (bid b) 0) as [E|E]; [exfalso; apply (proj1 (U_id b Hb)); exact E|]. cbn [andb negb].
      rewrite N.eqb_refl. reflexivity. }
    unfold set_lib. change (rn (bref b)) with (bnum b).
    destruct (N.eqb_spec (bnum b) first) as [Hfi|Hnf].
    { left. split; [left; exact Hfi|]. cbv beta iota. apply (Hown _ eq_refl). }
    destruct (decl_on_store U U_uniq U_up (store d1) p' (bid b) y en HU1 Hc Hb (D_decl b Hb)) as [(A & a & B & Heq & Hna)|Hgt].
    - rewrite Heq in Hc. cbn [eb en] in Hna.
      pose proof (bic_find d1 (bid b) y A a B en Hwf1 Hc Hfb) as Hbic. cbn [eb en] in Hbic. rewrite Hna in Hbic.
      change (mkR (bid b) (bnum b)) with (bref b) in Hbic. rewrite Hbic. cbn [ri].
      assert (Hain : In a (A ++ a :: B)) by (apply in_or_app; right; left; reflexivity).
      assert (Ha : In a (store d1)) by (eapply chain_in; eassumption).
      destruct (N.eqb_spec (key a) 0) as [E0|_]; [exfalso; apply (proj1 (ws_id _ Hwf1 a Ha)); exact E0|].
      cbv beta iota.
      destruct B as [|t B' _] using rev_ind.
      + (* the block is its own LIB *)
        destruct (chain_top _ _ _ _ _ Hc) as [Hfa _]. rewrite Hfb in Hfa. injection Hfa as <-.
        left. split; [right; symmetry; exact Hna|].
        change (mkR (key en) (blib b)) with (mkR (bid b) (blib b)). rewrite <- Hna.
        change (mkR (bid b) (bnum b)) with (bref b). apply (Hown _ eq_refl).
      + assert (Ht : t = en).
        { replace (A ++ a :: B' ++ [t]) with ((A ++ a :: B') ++ [t]) in Hc by (rewrite <- app_assoc; reflexivity).
          destruct (chain_top _ _ _ _ _ Hc) as [Hft _]. congruence. }
        subst t.
        pose proof (dbinv_found U cfg U_id U_uniq U_up s b a HP Hb Hf Ha) as Hd2. rewrite <- Hna.
        change (mkR (key a) (bnum (eb a))) with (R (eb a)).
        set (d2 := move_lib d1 (R (eb a))) in *.
        rewrite (di_has_lib U (R (eb a)) d2 Hd2). cbn [d2 move_lib libref R rn].
        destruct (chain_split_order _ _ _ _ _ _ Hwf1 Hc) as [Habove _].
        assert (Hlt : bnum (eb a) < bnum b).
        { apply (Habove en). apply in_or_app. right. left. reflexivity. }
        destruct (N.eqb_spec (bnum (eb a)) (bnum b)) as [E|_]; [lia|].
        fold d2.
        assert (Hc2 : chain (store d2) (bid b) (ri (libref d2)) (B' ++ [en])).
        { apply (chain_suffix (store d1) y (B' ++ [en]) (bid b) A a Hwf1 Hc). }
        pose proof (rs_chain_lib d2 first (di_wf U _ U_id U_up d2 Hd2) (di_lid U _ d2 Hd2) (di_num U _ d2 Hd2) (di_up U _ d2 Hd2)
                      (bid b) (B' ++ [en]) en Hc2 Hfb) as Hrs.
        cbn [eb en] in Hrs. change (mkR (bid b) (bnum b)) with (bref b) in Hrs. rewrite Hrs by (destruct B'; discriminate).
        destruct (map seg_of (B' ++ [en])) as [|sg0 sgs] eqn:Emap.
        { apply map_eq_nil in Emap. destruct B'; discriminate. }
        rewrite <- Emap.
        assert (Hbf : block_for_id d2 (ri (libref d2)) = Some (seg_of a)).
        { unfold block_for_id. cbn [d2 move_lib libref R ri store]. change (bid (eb a)) with (key a).
          rewrite (find_in_nodup _ _ Hnd1 Ha). reflexivity. }
        change (ri (R (eb a))) with (ri (libref d2)). rewrite Hbf.
        right. left. split; [exact Hnf|]. exists y, A, a, B'. split; [exact Hc|]. split; [exact Hy|]. split; reflexivity.
    - (* no stored ancestor at the declared height: hold *)
      right. right. split; [exact Hnf|]. split; [exists y, p'; split; [exact Hc|]; split; [exact Hy | exact Hgt]|].
      unfold block_in_chain. change (rn (bref b)) with (bnum b). change (ri (bref b)) with (bid b).
      assert (Hgb : blib b < bnum b).
      { apply (Hgt en). apply in_or_app. right. left. reflexivity. }
      destruct (N.eqb_spec (bnum b) (blib b)) as [E|_]; [lia|].
      rewrite (bic_all_gt d1 (blib b) Hwf1 He1 (bid b) y (p' ++ [en]) Hc Hy); [|destruct p'; discriminate | exact Hgt | apply enough_fuel_of].
      cbn [ri ref_empty]. rewrite N.eqb_refl. cbv beta iota. rewrite Hhl1. cbv beta iota.
      split; [reflexivity|].
      apply (pre_add U cfg s b HP Hb Hf). intros _. split; [exact Hnf | lia].
  Qed.

  (* ---------------------------------------------------------------- the two establishing steps, state exposed *)

  (* the block is its own LIB (or the first streamable block): nothing is purged, the fork database is the buffer plus b
     with LIB b *)
  Lemma own_x s b : PreInv s -> In b U -> find (bid b) (store (db s)) = None ->
    exists s', own_expr s b = (s', disc_events cfg b b ([] ++ [b]), ROk) /\
      db s' = move_lib (new_db (db s) b) (bref b) /\ last_sent s' = Some b /\ last_lib_seen s' = R b.
  Proof.
    intros HP Hb Hf. pose proof HP as [Hl He Hnd HU Hun Hls Hlls Hrt].
    set (d2 := move_lib (new_db (db s) b) (bref b)) in *. set (s2 := with_db s d2).
    assert (Hcur2 : cursor_lib s2 = bref b).
    { unfold cursor_lib, s2. cbn [with_db last_lib_seen db]. rewrite Hlls. reflexivity. }
    unfold own_expr. fold d2. fold s2.
    unfold process_initial_inclusive. rewrite Hnew, (call_ok cfg Hnofail). cbv beta iota zeta.
    set (tiny := mkSeg (bid b) (bnum b) (mkEntry b false)).
    set (ev := mkEv SNew b (seg_ref tiny) (seg_ref tiny) (cursor_lib s2) None 0 0).
    set (s1' := mkFS (db (mkFS (db s2) (last_sent s2) (last_lib_seen s2) (ncalls s2 + 1))) (Some b)
                     (last_lib_seen (mkFS (db s2) (last_sent s2) (last_lib_seen s2) (ncalls s2 + 1)))
                     (ncalls (mkFS (db s2) (last_sent s2) (last_lib_seen s2) (ncalls s2 + 1)))).
    destruct (process_irr_segment_ev cfg Hnofail [tiny] tiny [] (bref b) s1' eq_refl) as (s' & Hrun & Hdb & Hls' & Hlls').
    rewrite Hrun. cbv beta iota.
    assert (Hev : [ev] ++ (if f_irr (c_filter cfg)
                           then irr_events (bref b) (N.of_nat (length [tiny])) 0 (map (fun sg => eb (sent sg)) [tiny]) else [])
                  = disc_events cfg b b ([] ++ [b])).
    { unfold disc_events, fresh_events, ev. rewrite Hcur2. reflexivity. }
    rewrite Hev. exists s'. split; [reflexivity|]. split; [rewrite Hdb; reflexivity|].
    split; [rewrite Hls'; reflexivity | rewrite Hlls'; reflexivity].
  Qed.

  (* the LIB is a stored proper ancestor a: the chain entries are marked sent, then everything under bnum a - kept is purged *)
  Lemma found_x s b y A a B' :
    PreInv s -> In b U -> find (bid b) (store (db s)) = None ->
    chain (store (db s) ++ [mkEntry b false]) (bid b) y (A ++ a :: B' ++ [mkEntry b false]) ->
    bnum (eb a) = blib b ->
    exists s', found_expr s b a B' = (s', disc_events cfg b (eb a) (map eb B' ++ [b]), ROk) /\
      store (db s') = filter (fun e => bnum (eb a) - kept <=? bnum (eb e))
                             (mark_all (store (db s) ++ [mkEntry b false]) (unsent (map seg_of (B' ++ [mkEntry b false])))) /\
      libref (db s') = R (eb a) /\ extra (db s') = None /\ last_sent s' = Some b /\ last_lib_seen s' = R (eb a) /\
      In (eb a) U /\ In (key a) (keys (store (db s))) /\ bnum (eb a) < bnum b /\
      NoDup (keys (mark_all (store (db s) ++ [mkEntry b false]) (unsent (map seg_of (B' ++ [mkEntry b false]))))) /\
      in_U (mark_all (store (db s) ++ [mkEntry b false]) (unsent (map seg_of (B' ++ [mkEntry b false])))).
  Proof.
    intros HP Hb Hf Hc Hbl. pose proof HP as [Hl He Hnd HU Hun Hls Hlls Hrt].
    set (en := mkEntry b false) in *. set (l1 := store (db s) ++ [en]) in *.
    assert (Hain : In a (A ++ a :: B' ++ [en])) by (apply in_or_app; right; left; reflexivity).
    assert (Ha : In a l1) by (eapply chain_in; eassumption).
    pose proof (dbinv_found U cfg U_id U_uniq U_up s b a HP Hb Hf Ha) as Hd2.
    assert (HaU : In (eb a) U) by (apply (di_inU U _ _ Hd2); exact Ha).
    set (d2 := move_lib (new_db (db s) b) (R (eb a))) in *. set (s2 := with_db s d2).
    pose proof (di_wf U (R (eb a)) U_id U_up _ Hd2) as Hwf2.
    assert (Hc2 : chain (store (db s2)) (bid b) (ri (libref (db s2))) (B' ++ [en])).
    { apply (chain_suffix l1 y (B' ++ [en]) (bid b) A a Hwf2 Hc). }
    assert (HI2 : Inv U (R (eb a)) cfg s2 [] []).
    { constructor.
      - exact Hd2.
      - constructor.
      - reflexivity.
      - cbn [s2 with_db last_sent]. rewrite Hls. split; [reflexivity|]. split; [reflexivity|]. split.
        + intros e Hin. cbn [db d2 move_lib new_db store] in Hin.
          apply in_app_or in Hin as [Hin|[<-|[]]]; [apply Hun; exact Hin | reflexivity].
        + rewrite Hincl. discriminate. }
    assert (G : forall x, In x B' -> esent x = false).
    { intros x Hx. assert (Hx1 : In x l1).
      { eapply chain_in; [exact Hc|]. apply in_or_app. right. right. apply in_or_app. left. exact Hx. }
      apply in_app_or in Hx1 as [Hx1|[<-|[]]]; [apply Hun; exact Hx1 | reflexivity]. }
    (* extra stays empty through process_tail *)
    assert (Hcur2 : cursor_lib s2 = R (eb a)).
    { unfold cursor_lib, s2. cbn [with_db last_lib_seen db]. rewrite Hlls. reflexivity. }
    assert (Hextra : forall s' evs r, found_expr s b a B' = (s', evs, r) -> extra (db s') = None).
    { intros s' evs r E.
      assert (Hstd : Forall std_sg (map seg_of (B' ++ [en]))).
      { apply Forall_forall. intros sg H. apply in_map_iff in H as (e & <- & _). reflexivity. }
      destruct (process_tail_fields cfg Hnofail s2 b [] [] None (map seg_of (B' ++ [en])) (Some (seg_of a)) Hstd)
        as (s'' & evU & evN & evL & r' & E' & _ & _ & _ & _ & _ & Hx).
      { rewrite Hcur2. reflexivity. }
      unfold found_expr in E. fold en d2 s2 in E. rewrite E in E'. injection E' as -> _ _. apply Hx. exact He. }
    destruct (trigger_first_ev U (R (eb a)) cfg Hnofail Hnew Hundo U_id U_uniq U_up
                (R_id U U_id _ HaU) (R_num U U_uniq _ HaU) (R_up U U_up _ HaU) (R_decl U U_uniq D_decl _ HaU)
                s2 [] [] b B' [] B' [] None (Some (seg_of a)) HI2 Hb Hc2 eq_refl (Forall_nil _) eq_refl)
      as (s3 & Rs & Ru & HR & Hrun & Happ & HI3 & Hk3 & Hls3 & Hlr3 & Hlls3 & HRs & HRu & Hst3 & Hex3).
    assert (HRs0 : Rs = []).
    { destruct Rs as [|r Rs']; [reflexivity|]. exfalso.
      pose proof (Forall_inv HRs) as Hr. cbn beta in Hr.
      rewrite (G r) in Hr; [discriminate|]. rewrite HR. left. reflexivity. }
    subst Rs. cbn [app] in HR. subst Ru.
    cbn [rev map] in Hrun, Happ. rewrite (filter_sent_none B' G) in Hrun.
    unfold undo_evs, new_evs in Hrun, Happ. cbn [batch_events length app] in Hrun, Happ.
    rewrite Hcur2 in Hrun, Happ. fold en in Hrun, Happ, HI3, Hst3.
    assert (Hne : bid b <> key a).
    { destruct (chain_snoc_inv _ _ _ _ _ Hc2) as (Hx & _ & _). exact Hx. }
    assert (Hsto : find (key a) (store (db s3)) <> None).
    { intros Hn. apply find_none in Hn. apply Hn. rewrite Hk3. apply in_map. exact Ha. }
    destruct (disc_lib_ev U cfg Hnofail U_id U_uniq U_up s3 _ b (fresh_events (bref b) (R (eb a)) (map eb (B' ++ [en]))) a HaU HI3 Hlr3 Hls3 Hb Hne (eq_sym Hbl) Hsto)
      as (s' & Hlt & HI' & Hlr' & Hlls' & Hls' & Hst').
    assert (Hfresh : map eb (B' ++ [en]) = map eb B' ++ [b]) by (rewrite map_app; reflexivity).
    assert (Hres : found_expr s b a B' = (s', disc_events cfg b (eb a) (map eb B' ++ [b]), ROk)).
    { unfold found_expr. fold en d2 s2. rewrite Hrun, Hlt. unfold disc_events. rewrite Hfresh. reflexivity. }
    destruct (chain_split_order _ _ _ _ _ _ Hwf2 Hc) as [Habove _].
    exists s'. split; [exact Hres|].
    split; [rewrite Hst', Hst3; reflexivity|]. split; [exact Hlr'|]. split; [exact (Hextra _ _ _ Hres)|].
    split; [exact Hls'|]. split; [exact Hlls'|]. split; [exact HaU|]. split.
    - apply in_app_or in Ha as [Ha|[Ea|[]]]; [apply (in_map key) in Ha; exact Ha|].
      exfalso. apply Hne. rewrite <- Ea. reflexivity.
    - split; [apply (Habove en); apply in_or_app; right; left; reflexivity|].
      pose proof HI3 as [Hd3 _ _ _].
      assert (E : mark_all l1 (unsent (map seg_of (B' ++ [en]))) = store (db s3)) by (symmetry; exact Hst3).
      rewrite E. split; [exact (di_nodup U _ _ Hd3) | exact (di_inU U _ _ Hd3)].
  Qed.
End DiscX.
