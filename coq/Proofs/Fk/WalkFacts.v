(* Facts about the fuelled parent walks of Model/ForkDB.v over a well-formed store. *)
From BV Require Import Base.Prelude Model.Block Model.ForkDB Proofs.Fk.StoreFacts.
Local Open Scope N_scope.

(* ---------- well-formed store ---------- *)

Record wf_store (l : list entry) : Prop := mkWfStore {
  ws_nodup : NoDup (keys l);
  (* parent ids may be empty (0): a block whose parent id is empty is a root; AddLink does not recognise
     a stored root when it is fed again (links[id] = "") *)
  ws_id : forall e, In e l -> bid (eb e) <> 0 /\ bid (eb e) <> bparent (eb e);
  ws_up : forall e p, In e l -> find (bparent (eb e)) l = Some p -> bnum (eb p) < bnum (eb e)
}.

(* number of stored entries strictly below a height: the measure of every downward walk *)
Definition below (l : list entry) (n : N) : nat := length (filter (fun e => bnum (eb e) <? n) l).

Lemma below_le l n : (below l n <= length l)%nat.
Proof. unfold below. induction l as [|x l IH]; cbn [filter length]; [lia|]. destruct (bnum (eb x) <? n); cbn [length]; lia. Qed.

Lemma filter_len_mono {A} (f g : A -> bool) l :
  (forall x, f x = true -> g x = true) -> (length (filter f l) <= length (filter g l))%nat.
Proof.
  intros H. induction l as [|x l IH]; cbn [filter length]; [lia|].
  destruct (f x) eqn:F; [rewrite (H x F)|destruct (g x)]; cbn [length]; lia.
Qed.

Lemma below_lt l e p : In p l -> bnum (eb p) < bnum (eb e) -> (below l (bnum (eb p)) < below l (bnum (eb e)))%nat.
Proof.
  intros Hin Hlt. unfold below.
  induction l as [|x l IH]; [destruct Hin|].
  cbn [filter]. destruct Hin as [->|Hin].
  - replace (bnum (eb p) <? bnum (eb p)) with false by lia.
    replace (bnum (eb p) <? bnum (eb e)) with true by lia. cbn [length].
    pose proof (filter_len_mono (fun e0 => bnum (eb e0) <? bnum (eb p)) (fun e0 => bnum (eb e0) <? bnum (eb e)) l) as H.
    assert (Hm : forall x, (bnum (eb x) <? bnum (eb p)) = true -> (bnum (eb x) <? bnum (eb e)) = true) by (intros; lia).
    specialize (H Hm). lia.
  - specialize (IH Hin).
    destruct (N.ltb_spec (bnum (eb x)) (bnum (eb p))); destruct (N.ltb_spec (bnum (eb x)) (bnum (eb e))); cbn [length]; lia.
Qed.

(* ---------- chains: the declarative reading of a parent walk ---------- *)

(* `chain l top bot p`: p lists, oldest first, the stored entries met when walking parent links
   from id `top` down to (excluding) id `bot`. *)
Inductive chain (l : list entry) : N -> N -> list entry -> Prop :=
| chain_nil x : chain l x x []
| chain_cons x y e p : x <> y -> find x l = Some e -> chain l (bparent (eb e)) y p -> chain l x y (p ++ [e]).

Lemma chain_det l x y p q : chain l x y p -> chain l x y q -> p = q.
Proof.
  intros H. revert q. induction H as [x|x y e p Hne Hf Hc IH]; intros q Hq.
  - inversion Hq as [|? ? e' p' Hne' ? ?]; subst; [reflexivity | congruence].
  - inversion Hq as [|? ? e' p' Hne' Hf' Hc']; subst; [congruence|].
    rewrite Hf in Hf'. injection Hf' as <-. f_equal. apply IH. exact Hc'.
Qed.

Lemma chain_in l x y p e : chain l x y p -> In e p -> In e l.
Proof.
  induction 1 as [|x y e' p Hne Hf Hc IH]; intros Hin; [destruct Hin|].
  apply in_app_or in Hin as [Hin|[<-|[]]]; [auto | apply find_some in Hf; tauto].
Qed.

(* the ids of a chain are those visited; the top entry is the last one *)
Lemma chain_last l x y p : chain l x y p -> p <> [] -> exists q e, p = q ++ [e] /\ key e = x.
Proof.
  destruct 1 as [|x y e p Hne Hf Hc]; intros H; [congruence|].
  exists p, e. split; [reflexivity | apply find_some in Hf; tauto].
Qed.

Lemma chain_measure l : wf_store l -> forall x y p, chain l x y p ->
  forall e, find x l = Some e -> (length p <= S (below l (bnum (eb e))))%nat.
Proof.
  intros Hwf x y p Hc.
  induction Hc as [x|x y e p Hne Hf Hc IH]; intros e0 He0; [cbn; lia|].
  rewrite Hf in He0. injection He0 as <-. rewrite app_length. cbn [length].
  destruct (find (bparent (eb e)) l) as [e'|] eqn:Hf'.
  - specialize (IH e' eq_refl).
    assert (Hlt : bnum (eb e') < bnum (eb e)).
    { apply (ws_up l Hwf e e'); [apply find_some in Hf; tauto | exact Hf']. }
    pose proof (below_lt l e e' (proj1 (find_some _ _ _ Hf')) Hlt). lia.
  - inversion Hc as [z|z ? e' p' Hne' Hf'' Hc']; subst; [cbn; lia | congruence].
Qed.

Lemma chain_length l x y p : wf_store l -> chain l x y p -> (length p <= S (length l))%nat.
Proof.
  intros Hwf Hc. destruct (find x l) as [e|] eqn:Hf.
  - pose proof (chain_measure l Hwf x y p Hc e Hf). pose proof (below_le l (bnum (eb e))). lia.
  - inversion Hc as [z|z ? e' p' Hne' Hf' Hc']; subst; [cbn; lia | congruence].
Qed.

(* no entry is stored under the empty id; the entries of a chain that rests on a non-empty id have
   non-empty parent ids *)
Lemma find_zero_wf l : wf_store l -> find 0 l = None.
Proof.
  intros Hwf. destruct (find 0 l) as [e|] eqn:F; [|reflexivity].
  apply find_some in F as [Hin Hk]. destruct (ws_id _ Hwf e Hin) as (H & _). unfold key in Hk. congruence.
Qed.

Lemma chain_from_zero l y p : wf_store l -> chain l 0 y p -> y = 0 /\ p = [].
Proof.
  intros Hwf Hc. inversion Hc as [|? ? e q Hne Hf Hq]; subst; [auto|].
  rewrite (find_zero_wf l Hwf) in Hf. discriminate.
Qed.

Lemma chain_parent_nz l x y p : wf_store l -> y <> 0 -> chain l x y p -> forall e, In e p -> bparent (eb e) <> 0.
Proof.
  intros Hwf Hy Hc. induction Hc as [x|x y e p Hne Hf Hc IH]; intros a Ha; [destruct Ha|].
  apply in_app_or in Ha as [Ha|[<-|[]]]; [apply IH; assumption|].
  intros E. rewrite E in Hc. destruct (chain_from_zero _ _ _ Hwf Hc) as [Hy0 _]. contradiction.
Qed.

(* ---------- ReversibleSegment ---------- *)

Definition seg_of (e : entry) : seg := mkSeg (key e) (bnum (eb e)) e.
Definition gd (d : forkdb) (first n : N) : bool := (first <? n) && (n <? rn (libref d)).

Lemma num_or0_stored d id e : find id (store d) = Some e -> num_or0 d id = bnum (eb e).
Proof. intros H. unfold num_or0, num_of. rewrite H. reflexivity. Qed.

(* the number the walk attributes to the id at which it stops *)
Definition stop_num (d : forkdb) (cn : N) (p : list entry) : N :=
  match p with [] => cn | _ => num_or0 d (ri (libref d)) end.

Lemma chain_nil_inv l x y : chain l x y [] -> x = y.
Proof. inversion 1 as [|? ? e p Hne Hf Hc Heq]; [reflexivity | destruct p; discriminate]. Qed.

Lemma stop_num_snoc d cn p e : stop_num d cn (p ++ [e]) = num_or0 d (ri (libref d)).
Proof. unfold stop_num. destruct (p ++ [e]) eqn:Q; [destruct p; discriminate | reflexivity]. Qed.

(* the number attributed when the walk below entry e stops *)
Lemma stop_num_below d l e p : chain l (bparent (eb e)) (ri (libref d)) p ->
  stop_num d (num_or0 d (bparent (eb e))) p = num_or0 d (ri (libref d)).
Proof.
  intros Hc. destruct p as [|x p]; [|reflexivity].
  apply chain_nil_inv in Hc. cbn [stop_num]. rewrite Hc. reflexivity.
Qed.

Lemma rs_sound : forall fuel d first cur cn acc res,
  rs_loop fuel d first cur cn acc = Some (res, true) ->
  (forall e, find cur (store d) = Some e -> cn = bnum (eb e)) ->
  exists p, chain (store d) cur (ri (libref d)) p /\ res = map seg_of p ++ acc /\
            Forall (fun e => gd d first (bnum (eb e)) = false) p /\
            gd d first (stop_num d cn p) = false.
Proof.
  induction fuel as [|f IH]; intros d first cur cn acc res H Hcn; [discriminate|].
  cbn [rs_loop] in H. fold (gd d first cn) in H.
  destruct (gd d first cn) eqn:G; [discriminate|].
  destruct (N.eqb_spec cur (ri (libref d))) as [E|E].
  - injection H as <-. exists []. subst cur. repeat split; [constructor | constructor | exact G].
  - destruct (find cur (store d)) as [e|] eqn:F.
    + apply IH in H.
      2:{ intros e' He'. apply num_or0_stored. exact He'. }
      destruct H as (p & Hc & -> & Hall & Hstop).
      exists (p ++ [e]). repeat split.
      * econstructor; eassumption.
      * rewrite map_app, <- app_assoc. cbn [map app]. f_equal. unfold seg_of.
        apply find_some in F as [_ Hk]. rewrite Hk, <- (Hcn e eq_refl). reflexivity.
      * apply Forall_app. split; [exact Hall|]. constructor; [|constructor].
        rewrite <- (Hcn e eq_refl). exact G.
      * rewrite stop_num_snoc. rewrite (stop_num_below d _ e p Hc) in Hstop. exact Hstop.
    + destruct (has_lib d); discriminate.
Qed.

Lemma rs_complete d first : forall cur p, chain (store d) cur (ri (libref d)) p ->
  forall fuel cn acc, (length p < fuel)%nat ->
  (forall e, find cur (store d) = Some e -> cn = bnum (eb e)) ->
  Forall (fun e => gd d first (bnum (eb e)) = false) p ->
  gd d first (stop_num d cn p) = false ->
  rs_loop fuel d first cur cn acc = Some (map seg_of p ++ acc, true).
Proof.
  intros cur p Hc. remember (ri (libref d)) as lib eqn:Hlib.
  induction Hc as [x|x y e p Hne Hf Hc IH]; intros fuel cn acc Hfuel Hcn Hall Hstop; subst.
  - destruct fuel as [|f]; [cbn in Hfuel; lia|]. cbn [rs_loop]. fold (gd d first cn).
    cbn [stop_num] in Hstop. rewrite Hstop, N.eqb_refl. reflexivity.
  - destruct fuel as [|f]; [cbn in Hfuel; lia|]. cbn [rs_loop]. fold (gd d first cn).
    apply Forall_app in Hall as [Hall He]. inversion He as [|? ? Ge _]; subst.
    rewrite (Hcn e Hf), Ge.
    destruct (N.eqb_spec x (ri (libref d))) as [E|E]; [contradiction|]. rewrite Hf.
    rewrite app_length in Hfuel. cbn [length] in Hfuel.
    rewrite IH with (acc := mkSeg x (bnum (eb e)) e :: acc); [|reflexivity|..].
    + rewrite map_app, <- app_assoc. cbn [map app].
      apply find_some in Hf as [_ Hk]. unfold seg_of at 3. rewrite Hk. reflexivity.
    + lia.
    + intros e' He'. apply num_or0_stored. exact He'.
    + exact Hall.
    + rewrite stop_num_snoc in Hstop. rewrite (stop_num_below d _ e p Hc). exact Hstop.
Qed.

(* ---------- no walk runs out of fuel over a well-formed store ---------- *)

Definition enough (l : list entry) (cur : N) (f : nat) : Prop :=
  (1 <= f)%nat /\ forall e, find cur l = Some e -> (S (below l (bnum (eb e))) < f)%nat.

Lemma enough_fuel_of d cur : enough (store d) cur (fuel_of d).
Proof.
  unfold enough, fuel_of. split; [lia|]. intros e _. pose proof (below_le (store d) (bnum (eb e))). lia.
Qed.

Lemma enough_parent l cur e f : wf_store l -> find cur l = Some e -> enough l cur (S f) -> enough l (bparent (eb e)) f.
Proof.
  intros Hwf Hf [_ H]. specialize (H e Hf). split; [lia|]. intros e' He'.
  assert (Hlt : bnum (eb e') < bnum (eb e)).
  { apply (ws_up l Hwf e e'); [apply find_some in Hf; tauto | exact He']. }
  pose proof (below_lt l e e' (proj1 (find_some _ _ _ He')) Hlt). lia.
Qed.

Lemma rs_total d first : wf_store (store d) -> forall f cur cn acc, enough (store d) cur f ->
  exists r, rs_loop f d first cur cn acc = Some r.
Proof.
  intros Hwf. induction f as [|f IH]; intros cur cn acc He; [destruct He; lia|].
  cbn [rs_loop]. destruct ((first <? cn) && (cn <? rn (libref d))); [eauto|].
  destruct (cur =? ri (libref d)); [eauto|].
  destruct (find cur (store d)) as [e|] eqn:F.
  - apply IH. eapply enough_parent; eassumption.
  - destruct (has_lib d); eauto.
Qed.

Lemma bic_total d : wf_store (store d) -> num_of d 0 = None -> forall f cur target, enough (store d) cur f ->
  exists r, bic_loop f d cur target = Some r.
Proof.
  intros Hwf Hz. induction f as [|f IH]; intros cur target He; [destruct He; lia|].
  cbn [bic_loop]. destruct (num_of d (link_of d cur)) as [pn|] eqn:Hn; [|eauto].
  destruct (pn =? target); [eauto|]. destruct (pn <? target); [eauto|].
  unfold link_of in *. destruct (find cur (store d)) as [e|] eqn:F.
  - apply IH. eapply enough_parent; eassumption.
  - congruence.
Qed.

(* ---------- roots: entries whose parent id is empty ---------- *)

Lemma has_lib_nz d : ri (libref d) <> 0 -> has_lib d = true.
Proof.
  intros H. unfold has_lib, ref_eqb, ref_empty. cbn [ri rn].
  destruct (N.eqb_spec (ri (libref d)) 0); [contradiction | reflexivity].
Qed.

(* ReversibleSegment from a stored root: nothing (the root is the LIB block itself, lies in the guard zone,
   or its empty parent link is not the LIB) *)
Lemma rs_root d first x cn e : wf_store (store d) -> ri (libref d) <> 0 ->
  find x (store d) = Some e -> bparent (eb e) = 0 ->
  exists r, rs_loop (fuel_of d) d first x cn [] = Some ([], r).
Proof.
  intros Hwf Hl Hf Hp. unfold fuel_of. cbn [rs_loop].
  destruct ((first <? cn) && (cn <? rn (libref d))); [eauto|].
  destruct (x =? ri (libref d)); [eauto|].
  rewrite Hf, Hp.
  destruct ((first <? num_or0 d 0) && (num_or0 d 0 <? rn (libref d))); [eauto|].
  destruct (N.eqb_spec 0 (ri (libref d))) as [E|_]; [exfalso; apply Hl; symmetry; exact E|].
  rewrite (find_zero_wf _ Hwf), (has_lib_nz d Hl). eauto.
Qed.

(* ---------- ChainSwitchSegments ---------- *)

Lemma link_of_stored d id e : find id (store d) = Some e -> link_of d id = bparent (eb e).
Proof. intros H. unfold link_of. rewrite H. reflexivity. Qed.

Lemma undo_total d : wf_store (store d) -> forall f cur, enough (store d) cur f ->
  exists t, undo_chain f d cur = Some (cur :: t).
Proof.
  intros Hwf. induction f as [|f IH]; intros cur He; [destruct He; lia|].
  cbn [undo_chain]. destruct (link_of d cur =? 0) eqn:E; [eauto|].
  unfold link_of in *. destruct (find cur (store d)) as [e|] eqn:F; [|discriminate].
  destruct (IH (bparent (eb e))) as [t Ht]; [eapply enough_parent; eassumption|].
  rewrite Ht. eauto.
Qed.

Lemma undo_chain_chain d : wf_store (store d) -> forall x y p, chain (store d) x y p -> y <> 0 ->
  forall f, enough (store d) x f ->
  exists t, undo_chain f d x = Some (rev (map key p) ++ y :: t).
Proof.
  intros Hwf x y p Hc Hy0. induction Hc as [x|x y e p Hne Hf Hc IH]; intros f He.
  - destruct (undo_total d Hwf f x He) as [t Ht]. exists t. exact Ht.
  - destruct f as [|f]; [destruct He; lia|]. cbn [undo_chain].
    rewrite (link_of_stored d x e Hf).
    assert (Hp : bparent (eb e) <> 0).
    { apply (chain_parent_nz _ x y (p ++ [e]) Hwf Hy0); [econstructor; eassumption | apply in_or_app; right; left; reflexivity]. }
    destruct (N.eqb_spec (bparent (eb e)) 0) as [E|E]; [contradiction|].
    destruct (IH Hy0 f) as [t Ht]; [eapply enough_parent; eassumption|].
    rewrite Ht. exists t. rewrite map_app, rev_app_distr. cbn [map rev app].
    apply find_some in Hf as [_ Hk]. rewrite Hk. reflexivity.
Qed.

Lemma redo_chain_chain d seen : wf_store (store d) -> forall x j p, chain (store d) x j p ->
  j <> 0 -> (forall e, In e p -> memN (key e) seen = false) -> memN j seen = true ->
  forall f acc, enough (store d) x f ->
  redo_chain f d seen x acc = Some (Some (map key p ++ acc, j)).
Proof.
  intros Hwf x j p Hc. induction Hc as [x|x y e p Hne Hf Hc IH]; intros Hj0 Hns Hj f acc He.
  - destruct f as [|f]; [destruct He; lia|]. cbn [redo_chain]. rewrite Hj. reflexivity.
  - destruct f as [|f]; [destruct He; lia|]. cbn [redo_chain].
    assert (Hx : memN x seen = false).
    { rewrite <- (proj2 (find_some _ _ _ Hf)). apply Hns. apply in_or_app. right. left. reflexivity. }
    rewrite Hx, (link_of_stored d x e Hf).
    assert (Hp : bparent (eb e) <> 0).
    { apply (chain_parent_nz _ x y (p ++ [e]) Hwf Hj0); [econstructor; eassumption | apply in_or_app; right; left; reflexivity]. }
    destruct (N.eqb_spec (bparent (eb e)) 0) as [E|E]; [contradiction|].
    rewrite IH.
    + rewrite map_app, <- app_assoc. cbn [map app].
      apply find_some in Hf as [_ Hk]. rewrite Hk. reflexivity.
    + exact Hj0.
    + intros e' He'. apply Hns. apply in_or_app. left. exact He'.
    + exact Hj.
    + eapply enough_parent; eassumption.
Qed.

(* an unlinked walk: it ends on an id whose link is empty without meeting `seen` *)
Lemma redo_total d seen : wf_store (store d) -> forall f cur acc, enough (store d) cur f ->
  exists r, redo_chain f d seen cur acc = Some r.
Proof.
  intros Hwf. induction f as [|f IH]; intros cur acc He; [destruct He; lia|].
  cbn [redo_chain]. destruct (memN cur seen); [eauto|].
  destruct (link_of d cur =? 0) eqn:E; [eauto|].
  unfold link_of in *. destruct (find cur (store d)) as [e|] eqn:F; [|discriminate].
  apply IH. eapply enough_parent; eassumption.
Qed.

Lemma chain_snoc_inv l x y p e : chain l x y (p ++ [e]) ->
  x <> y /\ find x l = Some e /\ chain l (bparent (eb e)) y p.
Proof.
  intros H. inversion H as [z Hz Hz2 Hnil|z y' e' p' Hne Hf Hc Hz Hy Heq].
  - destruct p; discriminate.
  - apply app_inj_tail in Heq as [-> ->]. auto.
Qed.

(* the part of a chain below one of its entries is the chain of that entry *)
Lemma chain_prefix l y : forall p2 x p1 e, chain l x y (p1 ++ e :: p2) -> chain l (key e) y (p1 ++ [e]).
Proof.
  induction p2 as [|t p2 IH] using rev_ind; intros x p1 e H.
  - destruct (chain_snoc_inv _ _ _ _ _ H) as (Hne & Hf & Hc).
    rewrite (proj2 (find_some _ _ _ Hf)). exact H.
  - replace (p1 ++ e :: p2 ++ [t]) with ((p1 ++ e :: p2) ++ [t]) in H by (rewrite <- app_assoc; reflexivity).
    destruct (chain_snoc_inv _ _ _ _ _ H) as (Hne & Hf & Hc). eapply IH. exact Hc.
Qed.

Lemma chain_unstored l x y q : find x l = None -> chain l x y q -> q = [].
Proof. intros Hn Hc. destruct Hc as [|x y e q Hne Hf Hc]; [reflexivity | congruence]. Qed.

(* numbers never increase downwards: every entry of a chain is at most the top entry *)
Lemma chain_le_top l y : wf_store l -> forall q z, chain l z y q ->
  forall a, In a q -> forall ez, find z l = Some ez -> bnum (eb a) <= bnum (eb ez).
Proof.
  intros Hwf q z Hq. induction Hq as [z|z y e q Hne Hf Hq IHq]; intros a Ha ez Hez; [destruct Ha|].
  rewrite Hf in Hez. injection Hez as <-.
  apply in_app_or in Ha as [Ha|[<-|[]]]; [|lia].
  destruct (find (bparent (eb e)) l) as [e'|] eqn:F'.
  - specialize (IHq a Ha e' eq_refl).
    pose proof (ws_up l Hwf e e' (proj1 (find_some _ _ _ Hf)) F'). lia.
  - rewrite (chain_unstored _ _ _ _ F' Hq) in Ha. destruct Ha.
Qed.

(* ... and the part above it is a chain down to that entry *)
Lemma chain_suffix l y : forall p2 x p1 e, wf_store l -> chain l x y (p1 ++ e :: p2) -> chain l x (key e) p2.
Proof.
  induction p2 as [|t p2 IH] using rev_ind; intros x p1 e Hwf H.
  - destruct (chain_snoc_inv _ _ _ _ _ H) as (Hne & Hf & Hc).
    rewrite (proj2 (find_some _ _ _ Hf)). constructor.
  - replace (p1 ++ e :: p2 ++ [t]) with ((p1 ++ e :: p2) ++ [t]) in H by (rewrite <- app_assoc; reflexivity).
    destruct (chain_snoc_inv _ _ _ _ _ H) as (Hne & Hf & Hc).
    econstructor; [|exact Hf| eapply IH; eassumption].
    (* x = key e would make the stored block e its own strict ancestor *)
    intros Heq.
    assert (Hte : t = e).
    { pose proof (find_some _ _ _ Hf) as [Hin Hk]. rewrite Heq in Hk.
      pose proof (find_in_nodup l t (ws_nodup l Hwf) Hin) as F1.
      assert (Hine : In e l) by (eapply chain_in; [exact H | apply in_or_app; left; apply in_or_app; right; left; reflexivity]).
      pose proof (find_in_nodup l e (ws_nodup l Hwf) Hine) as F2. rewrite Hk in F1. congruence. }
    subst t.
    assert (Hin : In e (p1 ++ e :: p2)) by (apply in_or_app; right; left; reflexivity).
    destruct (find (bparent (eb e)) l) as [e'|] eqn:F'.
    + pose proof (chain_le_top l y Hwf _ _ Hc e Hin e' F').
      pose proof (ws_up l Hwf e e' (proj1 (find_some _ _ _ Hf)) F'). lia.
    + rewrite (chain_unstored _ _ _ _ F' Hc) in Hin. destruct Hin.
Qed.

Lemma keys_split k p : In k (keys p) -> exists A e B, p = A ++ e :: B /\ key e = k.
Proof.
  intros H. apply in_map_iff in H as (e & Hk & Hin). apply in_split in Hin as (A & B & ->). eauto.
Qed.

(* where the downward walk from x meets the chain of the old head *)
Lemma meet l lib hd pH : wf_store l -> chain l hd lib pH ->
  forall x p, chain l x lib p ->
  exists C R j, p = C ++ R /\ chain l x j R /\
    (forall e, In e R -> ~ In (key e) (keys pH) /\ key e <> lib) /\
    ((C = [] /\ j = lib) \/ (exists C0 ej U, C = C0 ++ [ej] /\ key ej = j /\ pH = C ++ U)).
Proof.
  intros Hwf HH x p Hc. remember lib as lib' eqn:El in Hc.
  induction Hc as [x|x y e p Hne Hf Hc IH]; subst.
  - exists [], [], lib. split; [reflexivity|]. split; [apply chain_nil|]. split; [intros e []|left; auto].
  - destruct (in_dec N.eq_dec x (keys pH)) as [Hin|Hnin].
    + destruct (keys_split _ _ Hin) as (A & ex & U & -> & Hk).
      assert (ex = e).
      { assert (Hex : In ex l) by (eapply chain_in; [exact HH | apply in_or_app; right; left; reflexivity]).
        pose proof (find_in_nodup l ex (ws_nodup l Hwf) Hex) as F. rewrite Hk, Hf in F. congruence. }
      subst ex.
      pose proof (chain_prefix l lib U hd A e HH) as Hp. rewrite Hk in Hp.
      assert (Hc2 : chain l x lib (p ++ [e])) by (econstructor; eassumption).
      pose proof (chain_det _ _ _ _ _ Hc2 Hp) as Heq.
      exists (p ++ [e]), [], x. repeat split.
      * rewrite app_nil_r. reflexivity.
      * constructor.
      * destruct H.
      * destruct H.
      * right. exists p, e, U. repeat split; [exact (proj2 (find_some _ _ _ Hf))|].
        rewrite Heq, <- app_assoc. reflexivity.
    + destruct (IH eq_refl) as (C & R & j & -> & HR & Hdis & Hj).
      exists C, (R ++ [e]), j. repeat split.
      * rewrite app_assoc. reflexivity.
      * econstructor; [|exact Hf|exact HR].
        destruct Hj as [[_ ->]|(C0 & ej & U & -> & Hk & HpH)]; [exact Hne|].
        intros ->. apply Hnin. rewrite HpH. unfold keys. rewrite !map_app. apply in_or_app. left. apply in_or_app. right. left. exact Hk.
      * apply in_app_or in H as [H|[<-|[]]]; [apply (Hdis _ H) | rewrite (proj2 (find_some _ _ _ Hf)); exact Hnin].
      * apply in_app_or in H as [H|[<-|[]]]; [apply (Hdis _ H) | rewrite (proj2 (find_some _ _ _ Hf)); exact Hne].
      * exact Hj.
Qed.

(* ---------- more on the undo / redo walks ---------- *)

Definition stored (d : forkdb) (x : N) : Prop := exists e, find x (store d) = Some e.

(* every id of the undo chain except the last one is stored *)
Lemma undo_stored d : forall f cur l, undo_chain f d cur = Some l ->
  exists body lst, l = body ++ [lst] /\ Forall (stored d) body /\ link_of d lst = 0.
Proof.
  induction f as [|f IH]; intros cur l H; [discriminate|].
  cbn [undo_chain] in H. destruct (N.eqb_spec (link_of d cur) 0) as [E|E].
  - injection H as <-. exists [], cur. repeat split; [constructor | exact E].
  - destruct (undo_chain f d (link_of d cur)) as [l'|] eqn:R; [|discriminate]. injection H as <-.
    destruct (IH _ _ R) as (body & lst & -> & Hb & Hl).
    exists (cur :: body), lst. repeat split; [|exact Hl]. constructor; [|exact Hb].
    unfold link_of in E. destruct (find cur (store d)) as [e|] eqn:F; [exists e; exact F | contradiction].
Qed.

Lemma redo_stored d seen : forall f cur acc r j, redo_chain f d seen cur acc = Some (Some (r, j)) ->
  Forall (stored d) acc -> Forall (stored d) r /\ memN j seen = true.
Proof.
  induction f as [|f IH]; intros cur acc r j H Ha; [discriminate|].
  cbn [redo_chain] in H. destruct (memN cur seen) eqn:M.
  - injection H as <- <-. auto.
  - destruct (N.eqb_spec (link_of d cur) 0) as [E|E]; [discriminate|].
    apply IH in H; [exact H|]. constructor; [|exact Ha].
    unfold link_of in E. destruct (find cur (store d)) as [e|] eqn:F; [exists e; exact F | contradiction].
Qed.

Lemma take_until_prefix j : forall l, exists rest, l = take_until j l ++ rest /\ (In j l -> exists r, rest = j :: r).
Proof.
  induction l as [|x l IH]; cbn [take_until].
  - exists []. split; [reflexivity | intros []].
  - destruct (N.eqb_spec x j) as [E|E].
    + exists (x :: l). split; [reflexivity|]. intros _. exists l. rewrite E. reflexivity.
    + destruct IH as (rest & Heq & Hin). exists rest. split; [cbn [app]; f_equal; exact Heq|].
      intros [H|H]; [contradiction | apply Hin; exact H].
Qed.

