(* C03 on the Forkable model when the LIB MOVES: the consumer tip, HeadInfo and the last block announced final
   follow the reference fork choice fc_step (Spec/ForkChoice.v).  The reference never forgets a block while the
   model purges: links_to_lib / ancestor_at of the reference walk the received blocks, the model walks its
   store; they agree because every received block that is not stored lies strictly under the LIB, where the
   reference's walk fails and the model's walk never goes. *)
From BV Require Import Base.Prelude Model.Block Model.ForkDB Model.Forkable Model.ForkableLookups
  Spec.Consumer Spec.Universe Spec.ForkChoice Spec.C04_Spec Spec.C04_Moving_Spec Spec.C03_Spec
  Check.Fk_Check Check.Fk_Props_Check
  Proofs.Fk.StoreFacts Proofs.Fk.WalkFacts Proofs.Fk.LoopFacts Proofs.Fk.StoreChange Proofs.Fk.SwitchFacts
  Proofs.Fk.FixedLib Proofs.Fk.FixedLibEvents Proofs.Fk.FixedLibChoice Proofs.Fk.MovingLibStore
  Proofs.Fk.MovingLibWalk Proofs.Fk.MovingLibLoops Proofs.Fk.MovingLibInv Proofs.Fk.MovingLibEvents.
Local Open Scope N_scope.

(* ---------------------------------------------------------------- generic facts *)

(* the push/pop consumer keeps its stack a parent path down to the root *)
Lemma apply_ev_path lib S e S' : on_path lib S -> apply_ev lib S e = Some S' -> on_path lib S'.
Proof.
  intros Hp H. unfold apply_ev in H. destruct (estep e).
  - destruct S as [|top rest].
    + destruct (root_ok lib (eblk e)) eqn:R; [|discriminate]. injection H as <-. cbn [on_path]. auto.
    + destruct (N.eqb_spec (bparent (eblk e)) (bid top)) as [E|E]; [|discriminate]. injection H as <-.
      cbn [on_path]. split; [exact E | exact Hp].
  - destruct S as [|top rest]; [discriminate|].
    destruct (bid (eblk e) =? bid top); [|discriminate]. injection H as <-. cbn [on_path] in Hp. tauto.
  - injection H as <-. exact Hp.
  - injection H as <-. exact Hp.
  - destruct S as [|top rest].
    + destruct (root_ok lib (eblk e)) eqn:R; [|discriminate]. injection H as <-. cbn [on_path]. auto.
    + destruct (N.eqb_spec (bparent (eblk e)) (bid top)) as [E|E]; [|discriminate]. injection H as <-.
      cbn [on_path]. split; [exact E | exact Hp].
Qed.

Lemma apply_all_path lib : forall evs S S', on_path lib S -> apply_all lib S evs = Some S' -> on_path lib S'.
Proof.
  induction evs as [|e evs IH]; intros S S' Hp H; cbn [apply_all] in H.
  - injection H as <-. exact Hp.
  - destruct (apply_ev lib S e) as [S1|] eqn:E; [|discriminate].
    eapply IH; [eapply apply_ev_path; eassumption | exact H].
Qed.

(* the id of the last block announced final, as the checker folds it *)
Lemma lastfin_ids : forall evs fin,
  fold_left (fun acc e => match estep e with SIrr | SNewIrr => bid (eblk e) | _ => acc end) evs (oblock_id fin)
  = oblock_id (last_final fin evs).
Proof.
  induction evs as [|e evs IH]; intros fin; [reflexivity|]. unfold last_final. cbn [fold_left].
  destruct (estep e); try apply IH; apply (IH (Some (eblk e))).
Qed.

Definition last_opt (l : list block) (d : option block) : option block :=
  match rev l with t :: _ => Some t | [] => d end.

Lemma last_final_irr head count : forall bs idx fin,
  last_final fin (irr_events head count idx bs) = last_opt bs fin.
Proof.
  induction bs as [|x bs IH]; intros idx fin; [reflexivity|].
  unfold last_final in *. cbn [irr_events fold_left estep eblk]. rewrite IH.
  unfold last_opt. cbn [rev]. destruct (rev bs) as [|t r]; reflexivity.
Qed.

Lemma last_final_quiet evs fin : Forall (fun e => estep e = SNew \/ estep e = SUndo \/ estep e = SStalled) evs ->
  last_final fin evs = fin.
Proof.
  revert fin. induction evs as [|e evs IH]; intros fin H; [reflexivity|]. unfold last_final in *. cbn [fold_left].
  pose proof (Forall_inv H) as He. destruct He as [-> | [-> | ->]]; apply IH; exact (Forall_inv_tail H).
Qed.

Lemma last_final_app evs1 evs2 fin : last_final fin (evs1 ++ evs2) = last_final (last_final fin evs1) evs2.
Proof. unfold last_final. apply fold_left_app. Qed.

Lemma last_opt_app Fin Fnew : last_opt Fnew (hd_error (rev Fin)) = hd_error (rev (Fin ++ Fnew)).
Proof. unfold last_opt. rewrite rev_app_distr. destruct (rev Fnew); reflexivity. Qed.

(* a chain that rests on a stored block is shorter than the store *)
Lemma chain_shorter l x y p : wf_store l -> chain l x y p -> In y (keys l) -> (length p < length l)%nat.
Proof.
  intros Hwf Hc Hy.
  assert (Hnd : NoDup (y :: keys p)).
  { constructor; [|eapply chain_nodup; eassumption].
    intros Hin. apply in_map_iff in Hin as (e & Hk & He). exact (chain_not_bottom _ _ _ _ Hc e He Hk). }
  assert (Hincl : incl (y :: keys p) (keys l)).
  { intros k [<-|Hk]; [exact Hy|]. apply in_map_iff in Hk as (e & <- & He). apply in_map. eapply chain_in; eassumption. }
  pose proof (NoDup_incl_length Hnd Hincl) as Hlen. cbn [length] in Hlen. unfold keys in Hlen. rewrite !map_length in Hlen. lia.
Qed.

Section MovingChoice.
  Variable U : list block.
  Variable r0 : ref.
  Variable cfg : config.

  Hypothesis Hnofail : c_fail_at cfg = None.
  Hypothesis Hnew : f_new (c_filter cfg) = true.
  Hypothesis Hundo : f_undo (c_filter cfg) = true.

  Hypothesis U_id : forall b, In b U -> bid b <> 0 /\ bid b <> bparent b.
  Hypothesis U_uniq : forall x y, In x U -> In y U -> bid x = bid y -> x = y.
  Hypothesis U_up : forall x y, In x U -> In y U -> bparent x = bid y -> bnum y < bnum x.
  Hypothesis L_id : ri r0 <> 0.
  Hypothesis L_num : forall y, In y U -> bid y = ri r0 -> bnum y = rn r0.
  Hypothesis L_up : forall x, In x U -> bparent x = ri r0 -> rn r0 < bnum x.
  Hypothesis L_decl : forall b, In b U -> decl_ok U r0 b.

  Notation first := (c_first cfg).
  Notation in_U := (in_U U).
  Notation Inv := (Inv U r0 cfg).
  Notation DbInv := (DbInv U r0).
  Notation StepKind := (StepKind U cfg).
  Notation StepEv := (StepEv U r0 cfg).
  Notation incl_first := (incl_first cfg).

  (* ---------------------------------------------------------------- the reference's walks against the store *)

  Section Links.
    Variable recv : list block.
    Variable d : forkdb.
    Hypothesis Hd : DbInv d.
    Hypothesis HrU : forall x, In x recv -> In x U.
    Hypothesis Hsub : forall id, In id (keys (store d)) -> In id (map bid recv).
    Hypothesis Hlow : forall x, In x recv -> In (bid x) (keys (store d)) \/ bnum x < rn (libref d).

    Lemma look_store id e : find id (store d) = Some e -> ulookup id recv = Some (eb e).
    Proof.
      intros Hf. pose proof (find_some _ _ _ Hf) as [Hin Hk].
      destruct (ulookup id recv) as [x|] eqn:Lx.
      - apply ulookup_some in Lx as [Hx Hid]. f_equal.
        apply U_uniq; [apply HrU; exact Hx | apply (di_inU U r0 _ Hd); exact Hin | unfold key in Hk; congruence].
      - exfalso. apply ulookup_none in Lx. apply Lx. apply Hsub. rewrite <- Hk. apply in_map. exact Hin.
    Qed.

    Lemma look_recv id x : ulookup id recv = Some x ->
      (exists e, find id (store d) = Some e /\ eb e = x) \/ bnum x < rn (libref d).
    Proof.
      intros Lx. apply ulookup_some in Lx as [Hx Hid]. destruct (Hlow x Hx) as [Hk|Hl]; [left | right; exact Hl].
      rewrite Hid in Hk. apply find_is_some_in in Hk as [e He]. exists e. split; [exact He|].
      pose proof (find_some _ _ _ He) as [Hin Hk].
      apply U_uniq; [apply (di_inU U r0 _ Hd); exact Hin | apply HrU; exact Hx | unfold key in Hk; congruence].
    Qed.

    (* under the LIB the reference's walk never reaches the LIB *)
    Lemma links_low : forall fuel x, In x U -> bnum x < rn (libref d) ->
      links_to_lib fuel first recv (libref d) x = false.
    Proof.
      induction fuel as [|f IH]; intros x Hx Hl; [reflexivity|]. cbn [links_to_lib].
      destruct ((first <? bnum x) && (bnum x <? rn (libref d))); [reflexivity|].
      destruct (di_coh U r0 _ Hd) as (_ & _ & Hup & _).
      destruct (N.eqb_spec (bparent x) (ri (libref d))) as [E|E]; [pose proof (Hup x Hx E); lia|].
      destruct (ulookup (bparent x) recv) as [p|] eqn:Lp; [|reflexivity].
      apply ulookup_some in Lp as [Hp Hid]. apply IH; [apply HrU; exact Hp|].
      pose proof (U_up x p Hx (HrU p Hp) (eq_sym Hid)). lia.
    Qed.

    Lemma links_chain : forall fuel x ex, find (bid x) (store d) = Some ex -> eb ex = x -> bid x <> ri (libref d) ->
      links_to_lib fuel first recv (libref d) x = true -> exists p, chain (store d) (bid x) (ri (libref d)) (p ++ [ex]).
    Proof.
      induction fuel as [|f IH]; intros x ex Hf Hex Hne H; [discriminate|]. cbn [links_to_lib] in H.
      destruct ((first <? bnum x) && (bnum x <? rn (libref d))); [discriminate|].
      destruct (N.eqb_spec (bparent x) (ri (libref d))) as [E|E].
      - exists []. cbn [app]. apply (chain_cons (store d) (bid x) (ri (libref d)) ex []); [exact Hne | exact Hf|].
        rewrite Hex, E. constructor.
      - destruct (ulookup (bparent x) recv) as [p|] eqn:Lp; [|discriminate].
        destruct (look_recv _ _ Lp) as [(ep & Fp & Ep)|Hl].
        + pose proof (find_some _ _ _ Fp) as [_ Hk]. unfold key in Hk.
          destruct (IH p ep) as [q Hq]; [rewrite <- Ep, Hk; exact Fp | exact Ep | rewrite <- Ep, Hk; exact E | exact H |].
          exists (q ++ [ep]). apply (chain_cons (store d) (bid x) (ri (libref d)) ex (q ++ [ep])); [exact Hne | exact Hf|].
          rewrite Hex, <- Hk, Ep. exact Hq.
        + apply ulookup_some in Lp as [Hp _]. rewrite (links_low f p (HrU p Hp) Hl) in H. discriminate.
    Qed.

    Lemma chain_links : forall p x ex, chain (store d) (bid x) (ri (libref d)) (p ++ [ex]) -> eb ex = x ->
      forall fuel, (length p < fuel)%nat -> links_to_lib fuel first recv (libref d) x = true.
    Proof.
      induction p as [|ep p IH] using rev_ind; intros x ex Hc Hex fuel Hfuel; (destruct fuel as [|f]; [lia|]); cbn [links_to_lib].
      - assert (Hab : rn (libref d) < bnum x).
        { rewrite <- Hex. eapply (di_above U r0 U_id U_up d Hd); [exact Hc | left; reflexivity]. }
        replace ((first <? bnum x) && (bnum x <? rn (libref d))) with false by lia.
        destruct (chain_snoc_inv _ _ _ _ _ Hc) as (_ & _ & Hc'). apply chain_nil_inv in Hc'.
        rewrite Hex in Hc'. rewrite Hc', N.eqb_refl. reflexivity.
      - assert (Hab : rn (libref d) < bnum x).
        { rewrite <- Hex. eapply (di_above U r0 U_id U_up d Hd); [exact Hc | apply in_or_app; right; left; reflexivity]. }
        replace ((first <? bnum x) && (bnum x <? rn (libref d))) with false by lia.
        destruct (chain_snoc_inv _ _ _ _ _ Hc) as (_ & _ & Hc'). rewrite Hex in Hc'.
        destruct (chain_snoc_inv _ _ _ _ _ Hc') as (Hne' & Fp & _).
        destruct (N.eqb_spec (bparent x) (ri (libref d))); [contradiction|].
        rewrite (look_store _ _ Fp).
        pose proof (find_some _ _ _ Fp) as [_ Hk]. unfold key in Hk.
        apply (IH (eb ep) ep); [rewrite Hk; exact Hc' | reflexivity|].
        rewrite app_length in Hfuel. cbn [length] in Hfuel. lia.
    Qed.

    (* the reference's ancestor walk along a stored chain that rests on the block a at height h *)
    Definition anc_from (fuel : nat) (x : N) (h : N) : option block :=
      match ulookup x recv with Some c => ancestor_at fuel recv c h | None => None end.

    Lemma anc_chain y a h : ulookup y recv = Some a -> bnum a = h ->
      forall x p, chain (store d) x y p -> (forall e, In e p -> h < bnum (eb e)) ->
      forall fuel, (length p < fuel)%nat -> anc_from fuel x h = Some a.
    Proof.
      intros Ly Ha x p Hc. induction Hc as [x|x y e p Hne Hf Hc IH]; intros Hab fuel Hfuel.
      - unfold anc_from. rewrite Ly. destruct fuel as [|f]; [lia|]. cbn [ancestor_at]. rewrite Ha, N.eqb_refl. reflexivity.
      - unfold anc_from. rewrite (look_store _ _ Hf). destruct fuel as [|f]; [lia|]. cbn [ancestor_at].
        assert (Hlt : h < bnum (eb e)) by (apply Hab; apply in_or_app; right; left; reflexivity).
        destruct (N.eqb_spec (bnum (eb e)) h); [lia|]. destruct (N.ltb_spec (bnum (eb e)) h); [lia|].
        specialize (IH Ly (fun e0 He0 => Hab e0 (in_or_app _ _ _ (or_introl He0))) f).
        unfold anc_from in IH. apply IH. rewrite app_length in Hfuel. cbn [length] in Hfuel. lia.
    Qed.

    Lemma recv_length : (length (store d) <= length recv)%nat.
    Proof.
      pose proof (NoDup_incl_length (di_nodup U r0 _ Hd) Hsub) as H. unfold keys in H. rewrite !map_length in H. exact H.
    Qed.
  End Links.

  (* ---------------------------------------------------------------- the relation with the reference *)

  Record FcRel (fc : fc_state) (s : fstate) (Fin : list block) (S : cstack) : Prop := mkFcRel {
    fr_lib : fc_lib fc = libref (db s);
    fr_tip : fc_tip fc = last_sent s;
    fr_top : last_sent s = hd_error S;
    fr_final : fc_final fc = hd_error (rev Fin);
    fr_inU : forall x, In x (fc_recv fc) -> In x U;
    fr_keys : forall id, In id (keys (store (db s))) -> In id (map bid (fc_recv fc));
    fr_known : forall x, In x (fc_recv fc) -> In (bid x) (keys (store (db s))) \/ dropped s x = true
  }.

  Lemma fcrel_init m : rooted r0 m -> FcRel (fc_init m) (fs_init m) [] [].
  Proof. intros [-> | ->]; constructor; cbn; try reflexivity; try tauto. Qed.

  Definition fstep (fc : fc_state) (b : block) : fc_state := fc_step first (c_incl cfg) (c_alltrig cfg) fc b.

  Lemma dropped_low s x : dropped s x = true -> bnum x < rn (libref (db s)).
  Proof. unfold dropped. intros H. apply andb_true_iff in H as [H _]. apply N.ltb_lt. exact H. Qed.

  Lemma not_received fc s Fin S b : FcRel fc s Fin S -> In b U -> ~ In (bid b) (keys (store (db s))) ->
    dropped s b = false -> ulookup (bid b) (fc_recv fc) = None.
  Proof.
    intros HR Hb Hk Hd. destruct (ulookup (bid b) (fc_recv fc)) as [x|] eqn:Lx; [|reflexivity]. exfalso.
    apply ulookup_some in Lx as [Hx Hid].
    assert (x = b) by (apply U_uniq; [apply (fr_inU _ _ _ _ HR); exact Hx | exact Hb | exact Hid]). subst x.
    destruct (fr_known _ _ _ _ HR b Hx) as [H|H]; [contradiction | congruence].
  Qed.

  (* one step of the reference against one step of the model *)
  Lemma fc_follows_step fc s s' Fin Fnew S S' b : FcRel fc s Fin S -> Inv s Fin S ->
    Inv s' (Fin ++ Fnew) S' -> Ext s' (Fin ++ Fnew) -> In b U ->
    StepKind s s' Fin Fnew S S' b ->
    FcRel (fstep fc b) s' (Fin ++ Fnew) S'.
  Proof.
    intros HR HI HI' HX' Hb Hk.
    pose proof HI as [Hdb _ _ _].
    assert (Hdr : ((bnum b <? rn (fc_lib fc)) && match fc_tip fc with Some _ => true | None => false end) = dropped s b).
    { rewrite (fr_lib _ _ _ _ HR), (fr_tip _ _ _ _ HR). reflexivity. }
    assert (Hinc : (c_incl cfg && negb (match fc_tip fc with Some _ => true | None => false end) && (bid b =? ri (fc_lib fc)))
                   = incl_first s b).
    { rewrite (fr_lib _ _ _ _ HR), (fr_tip _ _ _ _ HR). unfold MovingLibInv.incl_first. destruct (last_sent s); reflexivity. }
    assert (Htr : (c_alltrig cfg || match fc_tip fc with None => true | Some t => bnum t <? bnum b end) = triggers cfg s b).
    { rewrite (fr_tip _ _ _ _ HR). reflexivity. }
    unfold fstep, fc_step. rewrite Hdr, Hinc.
    destruct Hk as [Hc -> -> -> | Hd Hni Hnk Hk' Hl' Hls' HS0 -> HF0 -> | Hd Hni Hnk Hk' Hl' Hno -> Hls' ->
                   | Hd Hni Hnk Htrig Hch [T ->] Hls' Hcase].
    - (* dropped or already stored: the reference ignores the block *)
      rewrite app_nil_r.
      destruct Hc as [Hc|[Hni Hc]]; [rewrite Hc; exact HR|].
      destruct (dropped s b); [exact HR|]. rewrite Hni.
      destruct (ulookup (bid b) (fc_recv fc)) as [x|] eqn:Lx; [exact HR|].
      exfalso. apply ulookup_none in Lx. apply Lx. apply (fr_keys _ _ _ _ HR). exact Hc.
    - (* the inclusive first delivery *)
      rewrite Hd, Hni. subst Fin S.
      assert (Hls0 : last_sent s = None).
      { unfold MovingLibInv.incl_first in Hni. destruct (last_sent s); [|reflexivity]. rewrite andb_false_r in Hni. discriminate. }
      constructor; cbn [fc_lib fc_tip fc_final fc_recv app rev hd_error].
      + rewrite Hl'. exact (fr_lib _ _ _ _ HR).
      + symmetry. exact Hls'.
      + exact Hls'.
      + reflexivity.
      + intros x [<-|Hx]; [exact Hb | apply (fr_inU _ _ _ _ HR); exact Hx].
      + intros id Hid. rewrite Hk' in Hid. cbn [map]. apply in_app_or in Hid as [Hid|[<-|[]]]; [right; apply (fr_keys _ _ _ _ HR); exact Hid | left; reflexivity].
      + intros x [<-|Hx].
        * left. rewrite Hk'. apply in_or_app. right. left. reflexivity.
        * destruct (fr_known _ _ _ _ HR x Hx) as [H|H]; [left; rewrite Hk'; apply in_or_app; left; exact H|].
          unfold dropped in H. rewrite Hls0, andb_false_r in H. discriminate.
    - (* stored, the tip does not move *)
      rewrite app_nil_r, Hd, Hni, (not_received fc s Fin S b HR Hb Hnk Hd), Htr.
      set (recv1 := b :: fc_recv fc).
      set (cond := triggers cfg s b && negb (bid b =? ri (fc_lib fc)) &&
                   links_to_lib (Datatypes.S (length recv1)) first recv1 (fc_lib fc) b).
      set (en := mkEntry b false). set (d1 := new_db (db s) b).
      assert (Hf : find (bid b) (store (db s)) = None) by (apply find_none; exact Hnk).
      pose proof (dbinv_add U r0 _ _ Hdb Hb Hf) as Hd1. fold d1 in Hd1.
      assert (Hcond : cond = false).
      { unfold cond. destruct Hno as [Hno|Hno]; [rewrite Hno; reflexivity|].
        destruct (triggers cfg s b); [|reflexivity]. cbn [andb]. rewrite (fr_lib _ _ _ _ HR).
        destruct (N.eqb_spec (bid b) (ri (libref (db s)))) as [E|E]; [reflexivity|]. cbn [negb andb].
        destruct (links_to_lib (Datatypes.S (length recv1)) first recv1 (libref (db s)) b) eqn:Lk; [|reflexivity].
        exfalso. apply Hno.
        assert (Hfb : find (bid b) (store d1) = Some en) by (apply (find_snoc_new (store (db s)) en); exact Hnk).
        apply (links_chain recv1 d1 Hd1) with (fuel := Datatypes.S (length recv1)); [| | exact Hfb | reflexivity | exact E | exact Lk].
        - intros x [<-|Hx]; [exact Hb | apply (fr_inU _ _ _ _ HR); exact Hx].
        - intros x [<-|Hx].
          + left. unfold d1. cbn [new_db store]. rewrite keys_snoc. apply in_or_app. right. left. reflexivity.
          + destruct (fr_known _ _ _ _ HR x Hx) as [H|H]; [left | right; apply dropped_low; exact H].
            unfold d1. cbn [new_db store]. rewrite keys_snoc. apply in_or_app. left. exact H. }
      fold recv1. fold cond. rewrite Hcond.
      constructor; cbn [fc_lib fc_tip fc_final fc_recv].
      + rewrite Hl'. exact (fr_lib _ _ _ _ HR).
      + rewrite Hls'. exact (fr_tip _ _ _ _ HR).
      + rewrite Hls'. exact (fr_top _ _ _ _ HR).
      + exact (fr_final _ _ _ _ HR).
      + intros x [<-|Hx]; [exact Hb | apply (fr_inU _ _ _ _ HR); exact Hx].
      + intros id Hid. rewrite Hk' in Hid. unfold recv1. cbn [map]. apply in_app_or in Hid as [Hid|[<-|[]]]; [right; apply (fr_keys _ _ _ _ HR); exact Hid | left; reflexivity].
      + intros x [<-|Hx].
        * left. rewrite Hk'. apply in_or_app. right. left. reflexivity.
        * destruct (fr_known _ _ _ _ HR x Hx) as [H|H]; [left; rewrite Hk'; apply in_or_app; left; exact H|].
          right. unfold dropped in *. rewrite Hl', Hls'. exact H.
    - (* the tip moves to b *)
      rewrite Hd, Hni, (not_received fc s Fin S b HR Hb Hnk Hd), Htr, Htrig.
      set (recv1 := b :: fc_recv fc).
      rewrite (fr_lib _ _ _ _ HR).
      set (en := mkEntry b false) in *. set (d1 := new_db (db s) b).
      assert (Hf : find (bid b) (store (db s)) = None) by (apply find_none; exact Hnk).
      pose proof (dbinv_add U r0 _ _ Hdb Hb Hf) as Hd1. fold d1 in Hd1.
      assert (HrU1 : forall x, In x recv1 -> In x U).
      { intros x [<-|Hx]; [exact Hb | apply (fr_inU _ _ _ _ HR); exact Hx]. }
      assert (Hsub1 : forall id, In id (keys (store (db s)) ++ [bid b]) -> In id (map bid recv1)).
      { intros id Hid. unfold recv1. cbn [map]. apply in_app_or in Hid as [Hid|[<-|[]]]; [right; apply (fr_keys _ _ _ _ HR); exact Hid | left; reflexivity]. }
      destruct Hch as [pP Hc]. change (chain (store d1) (bid b) (ri (libref d1)) (pP ++ [en])) in Hc.
      destruct (chain_snoc_inv _ _ _ _ _ Hc) as (Hne & _ & _). cbn [d1 new_db libref] in Hne.
      destruct (N.eqb_spec (bid b) (ri (libref (db s)))) as [E|_]; [contradiction|]. cbn [negb andb].
      assert (Hsubd1 : forall id, In id (keys (store d1)) -> In id (map bid recv1)).
      { intros id Hid. apply Hsub1. unfold d1 in Hid. cbn [new_db store] in Hid. rewrite keys_snoc in Hid. exact Hid. }
      assert (Hlowd1 : forall x, In x recv1 -> In (bid x) (keys (store d1)) \/ bnum x < rn (libref d1)).
      { intros x [<-|Hx].
        - left. unfold d1. cbn [new_db store]. rewrite keys_snoc. apply in_or_app. right. left. reflexivity.
        - destruct (fr_known _ _ _ _ HR x Hx) as [H|H]; [left | right; apply dropped_low; exact H].
          unfold d1. cbn [new_db store]. rewrite keys_snoc. apply in_or_app. left. exact H. }
      assert (Hlen1 : (length (store d1) <= length recv1)%nat) by (apply (recv_length recv1 d1 Hd1 Hsubd1)).
      change (libref (db s)) with (libref d1) at 1.
      rewrite (chain_links recv1 d1 Hd1 HrU1 Hsubd1 Hlowd1 pP b en Hc eq_refl).
      2:{ pose proof (chain_length _ _ _ _ (di_wf U r0 U_id U_up _ Hd1) Hc) as Hcl.
          rewrite app_length in Hcl. cbn [length] in Hcl. lia. }
      pose proof HI' as [Hdb' Hfin' Hflast' Hh']. rewrite Hls' in Hh'. destruct Hh' as (_ & B & HcB & _ & _).
      assert (Hknown' : forall x, In x recv1 -> In (bid x) (keys (store (db s'))) \/ dropped s' x = true).
      { intros x Hx. assert (HxU := HrU1 x Hx).
        assert (Hdrop : forall y, bnum y < rn (libref (db s')) -> dropped s' y = true).
        { intros y Hy. unfold dropped. rewrite Hls'. apply andb_true_iff. split; [apply N.ltb_lt; exact Hy | reflexivity]. }
        destruct Hcase as [(_ & _ & Hl' & Hk')|(_ & Hgt & Hrn & Hkeep & _)].
        - destruct Hx as [<-|Hx]; [left; rewrite Hk'; apply in_or_app; right; left; reflexivity|].
          destruct (fr_known _ _ _ _ HR x Hx) as [H|H]; [left; rewrite Hk'; apply in_or_app; left; exact H|].
          right. apply Hdrop. rewrite Hl'. apply dropped_low. exact H.
        - assert (Hin : In (bid x) (keys (store (db s)) ++ [bid b]) \/ bnum x < rn (libref (db s))).
          { destruct Hx as [<-|Hx]; [left; apply in_or_app; right; left; reflexivity|].
            destruct (fr_known _ _ _ _ HR x Hx) as [H|H]; [left; apply in_or_app; left; exact H | right; apply dropped_low; exact H]. }
          destruct Hin as [Hin|Hlo].
          + destruct (Hkeep x HxU Hin) as [H|H]; [left; exact H | right; apply Hdrop; exact H].
          + right. apply Hdrop. lia. }
      destruct Hcase as [(-> & Hle & Hl' & Hk')|(HFne & Hgt & Hrn & Hkeep & Hsub')].
      + (* the LIB stays *)
        assert (Hres : match ancestor_at (Datatypes.S (length recv1)) recv1 b (blib b) with
                       | Some a => if rn (libref (db s)) <? bnum a
                                   then mkFC recv1 (bref a) (Some b) (Some a)
                                   else mkFC recv1 (libref (db s)) (Some b) (fc_final fc)
                       | None => mkFC recv1 (libref (db s)) (Some b) (fc_final fc)
                       end = mkFC recv1 (libref (db s)) (Some b) (fc_final fc)).
        { destruct (ancestor_at (Datatypes.S (length recv1)) recv1 b (blib b)) as [a|] eqn:A; [|reflexivity].
          apply ancestor_at_num in A. rewrite A. replace (rn (libref (db s)) <? blib b) with false by lia. reflexivity. }
        rewrite Hres. rewrite app_nil_r.
        constructor; cbn [fc_lib fc_tip fc_final fc_recv hd_error].
        * symmetry. exact Hl'.
        * symmetry. exact Hls'.
        * exact Hls'.
        * exact (fr_final _ _ _ _ HR).
        * exact HrU1.
        * intros id Hid. rewrite Hk' in Hid. apply Hsub1. exact Hid.
        * exact Hknown'.
      + (* the LIB moves to the ancestor at the declared height *)
        assert (HFF : Fin ++ Fnew <> []) by (intros E; apply app_eq_nil in E as [_ E]; contradiction).
        pose proof (x_lib _ _ HX' HFF) as HLin. apply find_is_some_in in HLin as [eL HeL].
        pose proof (find_some _ _ _ HeL) as [HeLin HeLk]. unfold key in HeLk.
        assert (Hsub2 : forall id, In id (keys (store (db s'))) -> In id (map bid recv1)).
        { intros id Hid. apply Hsub1. apply Hsub'. exact Hid. }
        assert (Hlow2 : forall x, In x recv1 -> In (bid x) (keys (store (db s'))) \/ bnum x < rn (libref (db s'))).
        { intros x Hx. destruct (Hknown' x Hx) as [H|H]; [left; exact H | right; apply dropped_low; exact H]. }
        set (a := eb eL).
        assert (HaU : In a U) by (apply (di_inU U r0 _ Hdb'); exact HeLin).
        assert (Hak : bid a = ri (libref (db s'))) by exact HeLk.
        assert (Hlka : ulookup (ri (libref (db s'))) recv1 = Some a) by (exact (look_store recv1 (db s') Hdb' HrU1 Hsub2 _ _ HeL)).
        clearbody a.
        assert (Han : bnum a = blib b).
        { destruct (di_coh U r0 _ Hdb') as (_ & Hn & _). rewrite (Hn a HaU Hak). exact Hrn. }
        assert (Hanc : ancestor_at (Datatypes.S (length recv1)) recv1 b (blib b) = Some a).
        { assert (Hself : ulookup (bid b) recv1 = Some b) by (unfold recv1; cbn [Universe.lookup]; rewrite N.eqb_refl; reflexivity).
          pose proof (anc_chain recv1 (db s') Hdb' HrU1 Hsub2 Hlow2 (ri (libref (db s'))) a (blib b)
                        Hlka Han (bid b) B HcB) as HA.
          unfold anc_from in HA. rewrite Hself in HA. apply HA.
          - intros e He. rewrite <- Hrn. exact (di_above U r0 U_id U_up _ Hdb' _ _ HcB e He).
          - pose proof (chain_shorter _ _ _ _ (di_wf U r0 U_id U_up _ Hdb') HcB) as Hsh.
            assert (Hy : In (ri (libref (db s'))) (keys (store (db s')))) by (apply find_is_some_in; eauto).
            specialize (Hsh Hy).
            pose proof (recv_length recv1 (db s') Hdb' Hsub2). lia. }
        rewrite Hanc. replace (rn (libref (db s)) <? bnum a) with true by lia.
        assert (Hbr : bref a = libref (db s')).
        { destruct (di_coh U r0 _ Hdb') as (_ & Hn & _). specialize (Hn a HaU Hak).
          unfold bref. rewrite Hak, Hn. destruct (libref (db s')); reflexivity. }
        constructor; cbn [fc_lib fc_tip fc_final fc_recv hd_error].
        * exact Hbr.
        * symmetry. exact Hls'.
        * exact Hls'.
        * (* the last final block is the LIB block *)
          destruct (rev (Fin ++ Fnew)) as [|t rf] eqn:ER.
          { exfalso. apply HFF. apply (f_equal (@rev block)) in ER. rewrite rev_involutive in ER. exact ER. }
          cbn [hd_error]. f_equal.
          assert (Ht : In t (Fin ++ Fnew)) by (apply in_rev; rewrite ER; left; reflexivity).
          rewrite Forall_forall in Hfin'. destruct (Hfin' t Ht) as [HtU _].
          apply U_uniq; [exact HaU | exact HtU | congruence].
        * exact HrU1.
        * exact Hsub2.
        * exact Hknown'.
  Qed.
  (* ---------------------------------------------------------------- whole histories *)

  Lemma stepev_c03 s Fin S b res : StepEv s Fin S b res ->
    exists s' Fnew S' evs,
      res = (s', evs, ROk) /\ Inv s' (Fin ++ Fnew) S' /\ Ext s' (Fin ++ Fnew) /\
      StepKind s s' Fin Fnew S S' b /\
      apply_all (ri r0) S evs = Some S' /\
      (last_sent s' = last_sent s -> evs = []) /\
      (forall fin, last_final fin evs = if f_irr (c_filter cfg) then last_opt Fnew fin else fin).
  Proof.
    intros (s' & Fnew & S' & kept & undone & redone & fresh & stalled & Hres & HS & HS' & Happ & Hab & HI' & HX' & Hasc & Hmono & Hlast & Hjk & Hq & Hkind).
    eexists s', Fnew, S', _. split; [exact Hres|]. split; [exact HI'|]. split; [exact HX'|]. split; [exact Hkind|].
    split; [|split].
    - rewrite app_assoc, (apply_all_app _ _ _ _ _ Happ). apply apply_all_inert. apply late_evs_inert.
    - intros E. destruct (Hq E) as (-> & -> & -> & -> & ->).
      unfold undo_evs, new_evs, late_evs. destruct (f_irr (c_filter cfg)); reflexivity.
    - intros fin. rewrite !last_final_app.
      rewrite (last_final_quiet (undo_evs _ _ _ _)).
      2:{ eapply Forall_impl; [|apply undo_evs_step]. cbn beta. auto. }
      rewrite (last_final_quiet (new_evs _ _ _ _)).
      2:{ eapply Forall_impl; [|apply new_evs_step]. cbn beta. auto. }
      unfold late_evs. rewrite last_final_app, last_final_irr.
      rewrite last_final_quiet.
      2:{ eapply Forall_impl; [|apply stalled_events_step]. cbn beta. auto. }
      destruct (f_irr (c_filter cfg)); reflexivity.
  Qed.

  Lemma run_follows : forall h s Fin S fc fin, Inv s Fin S -> Ext s Fin -> FcRel fc s Fin S ->
    on_path (ri r0) S -> (f_irr (c_filter cfg) = true -> fin = hd_error (rev Fin)) ->
    (forall b, In b h -> In b U) ->
    c03_follows cfg (ri r0) fc S fin h (fk_run cfg s h) /\
    c03_follow cfg (ri r0) fc S (oblock_id fin) h (fk_obs cfg s h) = true /\
    c03_noise cfg fc h (fk_run cfg s h).
  Proof.
    induction h as [|b h IH]; intros s Fin S fc fin HI HX HR Hpath Hfin Hh; [repeat split|].
    assert (Hb : In b U) by (apply Hh; left; reflexivity).
    destruct (stepev_c03 s Fin S b _ (step_ev U r0 cfg Hnofail Hnew Hundo U_id U_uniq U_up L_id L_num L_up L_decl s Fin S b HI HX Hb))
      as (s' & Fnew & S' & evs & Hstep & HI' & HX' & Hkind & Happ & Hquiet & Hlf).
    pose proof (fc_follows_step fc s s' Fin Fnew S S' b HR HI HI' HX' Hb Hkind) as HR'.
    pose proof (apply_all_path _ _ _ _ Hpath Happ) as Hpath'.
    assert (Hfin' : f_irr (c_filter cfg) = true -> last_final fin evs = hd_error (rev (Fin ++ Fnew))).
    { intros E. rewrite Hlf, E, (Hfin E). apply last_opt_app. }
    destruct (IH s' (Fin ++ Fnew) S' (fstep fc b) (last_final fin evs) HI' HX' HR' Hpath' Hfin' (fun x Hx => Hh x (or_intror Hx)))
      as (IH1 & IH2 & IH3).
    assert (Htip : hd_error S' = fc_tip (fstep fc b)).
    { rewrite (fr_tip _ _ _ _ HR'), (fr_top _ _ _ _ HR'). reflexivity. }
    cbn [fk_run fk_obs c03_follows c03_follow c03_noise]. rewrite Hstep. cbn [c03_follows c03_follow c03_noise o_events o_head].
    fold (fstep fc b). split; [|split].
    - exists S'. split; [exact Happ|]. split; [exact Htip|]. split; [exact Hpath'|].
      split; [|exact IH1]. intros E. rewrite (Hfin' E). symmetry. exact (fr_final _ _ _ _ HR').
    - rewrite Happ, lastfin_ids. rewrite top_id_hd, Htip, N.eqb_refl. cbn [andb].
      unfold head_info.
      replace (match match last_sent s' with Some b0 => Some (bref b0, blib b0) | None => None end with
               | Some (r, _) => ri r | None => 0 end) with (oblock_id (fc_tip (fstep fc b)))
        by (rewrite (fr_tip _ _ _ _ HR'); destruct (last_sent s'); reflexivity).
      rewrite N.eqb_refl. cbn [andb].
      replace (negb (f_irr (c_filter cfg)) || (oblock_id (last_final fin evs) =? oblock_id (fc_final (fstep fc b)))) with true.
      + cbn [andb]. exact IH2.
      + destruct (f_irr (c_filter cfg)) eqn:E; [|reflexivity]. cbn [negb orb].
        rewrite (Hfin' eq_refl), (fr_final _ _ _ _ HR'), N.eqb_refl. reflexivity.
    - split; [|exact IH3]. intros Ht _. apply Hquiet.
      rewrite <- (fr_tip _ _ _ _ HR'), <- (fr_tip _ _ _ _ HR). exact Ht.
  Qed.

  Theorem moving_lib_follows m h : rooted r0 m -> (forall b, In b h -> In b U) ->
    c03_follows cfg (ri r0) (fc_init m) [] None h (fk_run cfg (fs_init m) h) /\
    c03_follow cfg (ri r0) (fc_init m) [] 0 h (fk_obs cfg (fs_init m) h) = true /\
    c03_noise cfg (fc_init m) h (fk_run cfg (fs_init m) h).
  Proof.
    intros Hm Hh.
    apply (run_follows h (fs_init m) [] [] (fc_init m) None
             (inv_init U r0 cfg L_id L_num L_up m Hm) (ext_init r0 L_id m Hm) (fcrel_init m Hm) I (fun _ => eq_refl) Hh).
  Qed.
  (* ---------------------------------------------------------------- noise blocks can be deleted *)

  (* a block the reference ignores completely (same state, nothing recorded) leaves the model's state
     unchanged and delivers nothing *)
  Lemma fc_ignored_quiet fc s Fin S b : FcRel fc s Fin S -> Inv s Fin S -> In b U -> fstep fc b = fc ->
    fk_step cfg s b = (s, [], ROk).
  Proof.
    intros HR HI Hb. pose proof HI as [Hdb _ _ _].
    assert (Hdr : ((bnum b <? rn (fc_lib fc)) && match fc_tip fc with Some _ => true | None => false end) = dropped s b).
    { rewrite (fr_lib _ _ _ _ HR), (fr_tip _ _ _ _ HR). reflexivity. }
    assert (Hinc : (c_incl cfg && negb (match fc_tip fc with Some _ => true | None => false end) && (bid b =? ri (fc_lib fc)))
                   = incl_first s b).
    { rewrite (fr_lib _ _ _ _ HR), (fr_tip _ _ _ _ HR). unfold MovingLibInv.incl_first. destruct (last_sent s); reflexivity. }
    unfold fstep, fc_step. rewrite Hdr, Hinc.
    destruct (dropped s b) eqn:Hd; [intros _; exact (fk_step_dropped U cfg U_id s b Hb Hd)|].
    assert (G : forall f', fc_recv f' = b :: fc_recv fc -> f' = fc -> fk_step cfg s b = (s, [], ROk)).
    { intros f' Hr E. rewrite E in Hr. apply (f_equal (@length block)) in Hr. cbn [length] in Hr. lia. }
    destruct (incl_first s b) eqn:Hni; [apply G; reflexivity|].
    destruct (ulookup (bid b) (fc_recv fc)) as [x|] eqn:Lx.
    - intros _. apply ulookup_some in Lx as [Hx Hid].
      assert (x = b) by (apply U_uniq; [apply (fr_inU _ _ _ _ HR); exact Hx | exact Hb | exact Hid]). subst x.
      destruct (fr_known _ _ _ _ HR b Hx) as [H|H]; [|congruence].
      apply find_is_some_in in H as [e He].
      exact (fk_step_old' U r0 cfg U_id U_uniq U_up s b e Hdb Hb He Hni).
    - match goal with |- (if ?c then _ else _) = _ -> _ => destruct c end.
      + destruct (ancestor_at _ _ _ _) as [a|]; [destruct (rn (fc_lib fc) <? bnum a)|]; apply G; reflexivity.
      + apply G. reflexivity.
  Qed.

  Lemma run_split : forall h1 s Fin S fc, Inv s Fin S -> Ext s Fin -> FcRel fc s Fin S -> (forall b, In b h1 -> In b U) ->
    exists s1 Fin1 S1, Inv s1 Fin1 S1 /\ Ext s1 Fin1 /\ FcRel (fc_after cfg fc h1) s1 Fin1 S1 /\
      length (fk_run cfg s h1) = length h1 /\
      forall h2, fk_run cfg s (h1 ++ h2) = fk_run cfg s h1 ++ fk_run cfg s1 h2.
  Proof.
    induction h1 as [|b h1 IH]; intros s Fin S fc HI HX HR Hh.
    - exists s, Fin, S. split; [exact HI|]. split; [exact HX|]. split; [exact HR|]. split; [reflexivity|]. intros h2. reflexivity.
    - assert (Hb : In b U) by (apply Hh; left; reflexivity).
      destruct (stepev_c03 s Fin S b _ (step_ev U r0 cfg Hnofail Hnew Hundo U_id U_uniq U_up L_id L_num L_up L_decl s Fin S b HI HX Hb))
        as (s' & Fnew & S' & evs & Hstep & HI' & HX' & Hkind & _).
      pose proof (fc_follows_step fc s s' Fin Fnew S S' b HR HI HI' HX' Hb Hkind) as HR'.
      destruct (IH s' (Fin ++ Fnew) S' (fstep fc b) HI' HX' HR' (fun x Hx => Hh x (or_intror Hx))) as (s1 & Fin1 & S1 & A1 & A2 & A3 & A4 & A5).
      exists s1, Fin1, S1. split; [exact A1|]. split; [exact A2|]. split; [exact A3|].
      cbn [fk_run app]. rewrite Hstep. cbn [length]. split; [rewrite A4; reflexivity|].
      intros h2. rewrite A5. reflexivity.
  Qed.

  Lemma noise_deletion s Fin S fc h1 b h2 : Inv s Fin S -> Ext s Fin -> FcRel fc s Fin S ->
    (forall x, In x (h1 ++ b :: h2) -> In x U) ->
    fstep (fc_after cfg fc h1) b = fc_after cfg fc h1 ->
    let T := fk_run cfg s (h1 ++ h2) in
    fk_run cfg s (h1 ++ b :: h2) = firstn (length h1) T ++ ([], ROk) :: skipn (length h1) T.
  Proof.
    intros HI HX HR Hh Hig.
    destruct (run_split h1 s Fin S fc HI HX HR (fun x Hx => Hh x (in_or_app _ _ _ (or_introl Hx))))
      as (s1 & Fin1 & S1 & HI1 & _ & HR1 & Hlen & Happ).
    assert (Hb : In b U) by (apply Hh; apply in_or_app; right; left; reflexivity).
    pose proof (fc_ignored_quiet _ s1 Fin1 S1 b HR1 HI1 Hb Hig) as Hq.
    cbv zeta. rewrite !Happ. cbn [fk_run]. rewrite Hq.
    rewrite <- Hlen, firstn_app, Nat.sub_diag, firstn_all, skipn_app, Nat.sub_diag, skipn_all. cbn [firstn skipn app].
    rewrite app_nil_r. reflexivity.
  Qed.
End MovingChoice.
