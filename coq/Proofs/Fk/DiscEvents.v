(* Discovery mode (no configured LIB, hold-until-LIB), every field of every delivered event: C04, and the
   description of the discovering step that C18 needs.

   Proofs/Fk/MovingLibDisc.v has the invariant hand-over (PreInv before the discovery, Inv U (R a) afterwards).
   This file re-runs the discovering step with the events written out:
     - the step that finds the LIB among the stored ancestors of the new block b (or b itself) delivers
         New for the never-delivered blocks from the child of the LIB block a up to b   (cursor LIB = a)
         Irreversible for a itself (cursor LIB = a, StepCount 1)                         (when f_irr)
       and nothing else: no Undo, no Stalled event; it is a step of the shape c04m_step rooted at R a with
       LIB before = LIB after = R a;
     - after it the state satisfies Inv U (R a), the supplement Ext of MovingLibEvents.v (cursor LIB = LIB of the
       fork database, LIB block stored) and LibRecv, so that the rest of the run is MovingLibEvents.run_ev. *)
From BV Require Import Base.Prelude Model.Block Model.ForkDB Model.Forkable Spec.Consumer Spec.Universe
  Spec.C04_Spec Spec.C04_Moving_Spec Spec.C04_Disc_Spec
  Proofs.Fk.StoreFacts Proofs.Fk.WalkFacts Proofs.Fk.LoopFacts Proofs.Fk.StoreChange Proofs.Fk.SwitchFacts
  Proofs.Fk.FixedLib Proofs.Fk.FixedLibEvents Proofs.Fk.RootsBase Proofs.Fk.MovingLibStore Proofs.Fk.MovingLibWalk
  Proofs.Fk.MovingLibLoops Proofs.Fk.MovingLibInv Proofs.Fk.MovingLibFin Proofs.Fk.MovingLibDisc Proofs.Fk.MovingLibEvents.
Local Open Scope N_scope.

Lemma filter_sent_none (l : list entry) : (forall x, In x l -> esent x = false) -> filter esent l = [].
Proof.
  induction l as [|h t IH]; intros G; cbn [filter]; [reflexivity|].
  rewrite (G h (or_introl eq_refl)). apply IH. intros x Hx. apply G. right. exact Hx.
Qed.

Section DiscEv.
  Variable U : list block.
  Variable cfg : config.

  Hypothesis Hnofail : c_fail_at cfg = None.
  Hypothesis Hnew : f_new (c_filter cfg) = true.
  Hypothesis Hundo : f_undo (c_filter cfg) = true.
  Hypothesis Hhold : c_hold cfg = true.
  Hypothesis Hincl : c_incl cfg = false.

  Hypothesis U_id : forall b, In b U -> bid b <> 0 /\ bid b <> bparent b.
  Hypothesis U_uniq : forall x y, In x U -> In y U -> bid x = bid y -> x = y.
  Hypothesis U_up : forall x y, In x U -> In y U -> bparent x = bid y -> bnum y < bnum x.
  Hypothesis D_decl : forall b, In b U -> decl_none U b.

  Notation first := (c_first cfg).
  Notation in_U := (in_U U).
  Notation PreInv := (PreInv U cfg).
  Notation PreQuiet := (PreQuiet U cfg).
  Notation kept := (c_kept cfg).

  (* ---------------------------------------------------------------- the three outcomes of a call before the discovery *)

  (* pre_step of MovingLibDisc.v without its last step: nothing delivered / the block is its own LIB (or the first
     streamable block) / the LIB is a stored proper ancestor a of the block *)
  (* PreQuiet of MovingLibDisc.v, and nothing but the incoming block is added to the buffer *)
  Definition PreQuietX (s : fstate) (b : block) (res : fstate * list event * result) : Prop :=
    PreQuiet s b res /\
    forall id, In id (keys (store (db (fst (fst res))))) -> In id (keys (store (db s)) ++ [bid b]).

  Lemma disc_cases s b : PreInv s -> In b U ->
    PreQuietX s b (fk_step cfg s b) \/
    (~ In (bid b) (keys (store (db s))) /\
     (fk_step cfg s b =
        (let '(s', evs, ok) := process_initial_inclusive cfg b (with_db s (move_lib (new_db (db s) b) (bref b))) in
         (s', evs, if ok then ROk else RHandlerErr)) \/
      exists y A a B',
        chain (store (db s) ++ [mkEntry b false]) (bid b) y (A ++ a :: B' ++ [mkEntry b false]) /\
        bnum (eb a) = blib b /\
        fk_step cfg s b =
          process_tail cfg (with_db s (move_lib (new_db (db s) b) (R (eb a)))) b [] [] None
                       (map seg_of (B' ++ [mkEntry b false])) (Some (seg_of a)))).
  Proof.
    intros HP Hb. pose proof HP as [Hl He Hnd HU Hun Hls Hlls Hrt].
    destruct (find (bid b) (store (db s))) as [e|] eqn:Hf.
    { left. rewrite (pre_step_old U cfg Hhold Hincl U_id U_uniq U_up D_decl s b e HP Hb Hf).
      split; [|cbn [fst]; intros id Hid; apply in_or_app; left; exact Hid]. exists s.
      split; [reflexivity|]. split; [exact HP|].
      split; [auto|]. split; [auto|]. apply find_is_some_in. eauto. }
    assert (Hk : ~ In (bid b) (keys (store (db s)))) by (apply find_none; exact Hf).
    rewrite (fk_step_pre U cfg Hhold Hincl U_id U_uniq U_up D_decl s b HP Hb Hf). cbv zeta.
    set (en := mkEntry b false). set (d1 := new_db (db s) b).
    assert (Hl1 : libref d1 = ref_empty) by exact Hl.
    assert (He1 : extra d1 = None) by exact He.
    assert (Hnd1 : NoDup (keys (store d1))).
    { unfold d1. cbn [new_db store]. rewrite keys_snoc. apply nodup_snoc; assumption. }
    assert (HU1 : in_U (store d1)).
    { unfold d1. cbn [new_db store]. intros e Hin. apply in_app_or in Hin as [Hin|[<-|[]]]; [apply HU; exact Hin | exact Hb]. }
    pose proof (wf_of_U U U_id U_up _ Hnd1 HU1) as Hwf1.
    assert (Hfb : find (bid b) (store d1) = Some en).
    { unfold d1. cbn [new_db store]. apply (find_snoc_new (store (db s)) en). exact Hk. }
    destruct (max_chain (store d1) Hwf1 (fuel_of d1) (bid b) (enough_fuel_of d1 (bid b))) as (y & p & Hc & Hy).
    destruct p as [|top p' _] using rev_ind.
    { apply chain_nil_inv in Hc. rewrite <- Hc, Hfb in Hy. discriminate. }
    destruct (chain_top _ _ _ _ _ Hc) as [Hft _]. rewrite Hfb in Hft. injection Hft as <-.
    assert (Hquiet : has_lib d1 = false -> (bparent b = 0 -> bnum b <> first /\ bnum b <> blib b) ->
                     PreQuietX s b (with_db s d1, [], ROk)).
    { intros _ Hq.
      split; [|cbn [fst with_db db d1 new_db store]; intros id Hid; rewrite keys_snoc in Hid; exact Hid].
      exists (with_db s d1). split; [reflexivity|].
      split; [exact (pre_add U cfg s b HP Hb Hf Hq)|]. split; [intros H; contradiction|].
      cbn [with_db db d1 new_db store]. rewrite keys_snoc. split.
      - intros k Hin. apply in_or_app. left. exact Hin.
      - apply in_or_app. right. left. reflexivity. }
    assert (Hhl1 : has_lib d1 = false) by (unfold has_lib; rewrite Hl1; reflexivity).
    assert (Hown : forall d2, d2 = move_lib d1 (bref b) ->
              (if has_lib d2 then
                 if rn (libref d2) =? bnum b then
                   let '(s', evs, ok) := process_initial_inclusive cfg b (with_db s d2) in (s', evs, if ok then ROk else RHandlerErr)
                 else match reversible_segment d2 first (bref b) with
                      | None => (with_db s d2, [], RFuel)
                      | Some (longest, _) => if (match longest with [] => true | _ => false end) then (with_db s d2, [], ROk)
                                              else process_tail cfg (with_db s d2) b [] [] None longest (block_for_id d2 (ri (libref d2)))
                      end
               else (with_db s d2, [], ROk)) =
              (let '(s', evs, ok) := process_initial_inclusive cfg b (with_db s (move_lib d1 (bref b))) in
               (s', evs, if ok then ROk else RHandlerErr))).
    { intros d2 ->. unfold has_lib, ref_eqb, ref_empty. cbn [move_lib libref bref ri rn].
      destruct (N.eqb_spec (bid b) 0) as [E|E]; [exfalso; apply (proj1 (U_id b Hb)); exact E|]. cbn [andb negb].
      rewrite N.eqb_refl. reflexivity. }
    unfold set_lib. change (rn (bref b)) with (bnum b).
    destruct (N.eqb_spec (bnum b) first) as [|Hnf].
    { right. split; [exact Hk|]. left. cbv beta iota. apply (Hown _ eq_refl). }
    destruct (decl_on_store U U_uniq U_up (store d1) p' (bid b) y en HU1 Hc Hb (D_decl b Hb)) as [(A & a & B & Heq & Hna)|Hgt].
    - (* the declared height is the height of a stored ancestor-or-self *)
      rewrite Heq in Hc. cbn [eb en] in Hna.
      pose proof (bic_find d1 (bid b) y A a B en Hwf1 Hc Hfb) as Hbic. cbn [eb en] in Hbic. rewrite Hna in Hbic.
      change (mkR (bid b) (bnum b)) with (bref b) in Hbic. rewrite Hbic. cbn [ri].
      assert (Hain : In a (A ++ a :: B)) by (apply in_or_app; right; left; reflexivity).
      assert (Ha : In a (store d1)) by (eapply chain_in; eassumption).
      destruct (N.eqb_spec (key a) 0) as [E0|_]; [exfalso; apply (proj1 (ws_id _ Hwf1 a Ha)); exact E0|].
      right. split; [exact Hk|]. cbv beta iota.
      destruct B as [|t B' _] using rev_ind.
      + (* the block is its own LIB *)
        destruct (chain_top _ _ _ _ _ Hc) as [Hfa _]. rewrite Hfb in Hfa. injection Hfa as <-.
        change (mkR (key en) (blib b)) with (mkR (bid b) (blib b)). rewrite <- Hna.
        change (mkR (bid b) (bnum b)) with (bref b). left. apply (Hown _ eq_refl).
      + assert (Ht : t = en).
        { replace (A ++ a :: B' ++ [t]) with ((A ++ a :: B') ++ [t]) in Hc by (rewrite <- app_assoc; reflexivity).
          destruct (chain_top _ _ _ _ _ Hc) as [Hft _]. congruence. }
        subst t.
        pose proof (dbinv_found U cfg U_id U_uniq U_up s b a HP Hb Hf Ha) as Hd2. rewrite <- Hna.
        change (mkR (key a) (bnum (eb a))) with (R (eb a)).
        set (d2 := move_lib d1 (R (eb a))) in *.
        rewrite (di_has_lib U (R (eb a)) d2 Hd2). cbn [d2 move_lib libref R rn].
        destruct (chain_split_order _ _ _ _ _ _ Hwf1 Hc) as [Habove _].
        assert (Hlt : bnum (eb a) < bnum b).
        { apply (Habove en). apply in_or_app. right. left. reflexivity. }
        destruct (N.eqb_spec (bnum (eb a)) (bnum b)) as [E|_]; [lia|].
        fold d2.
        assert (Hc2 : chain (store d2) (bid b) (ri (libref d2)) (B' ++ [en])).
        { apply (chain_suffix (store d1) y (B' ++ [en]) (bid b) A a Hwf1 Hc). }
        pose proof (rs_chain_lib d2 first (di_wf U _ U_id U_up d2 Hd2) (di_lid U _ d2 Hd2) (di_num U _ d2 Hd2) (di_up U _ d2 Hd2)
                      (bid b) (B' ++ [en]) en Hc2 Hfb) as Hrs.
        cbn [eb en] in Hrs. change (mkR (bid b) (bnum b)) with (bref b) in Hrs. rewrite Hrs by (destruct B'; discriminate).
        destruct (map seg_of (B' ++ [en])) as [|sg0 sgs] eqn:Emap.
        { apply map_eq_nil in Emap. destruct B'; discriminate. }
        rewrite <- Emap.
        assert (Hbf : block_for_id d2 (ri (libref d2)) = Some (seg_of a)).
        { unfold block_for_id. cbn [d2 move_lib libref R ri store]. change (bid (eb a)) with (key a).
          rewrite (find_in_nodup _ _ Hnd1 Ha). reflexivity. }
        change (ri (R (eb a))) with (ri (libref d2)). rewrite Hbf.
        right. exists y, A, a, B'. split; [exact Hc|]. split; reflexivity.
    - (* no stored ancestor at the declared height: hold *)
      left. unfold block_in_chain. change (rn (bref b)) with (bnum b). change (ri (bref b)) with (bid b).
      assert (Hgb : blib b < bnum b).
      { apply (Hgt en). apply in_or_app. right. left. reflexivity. }
      destruct (N.eqb_spec (bnum b) (blib b)) as [E|_]; [lia|].
      rewrite (bic_all_gt d1 (blib b) Hwf1 He1 (bid b) y (p' ++ [en]) Hc Hy); [|destruct p'; discriminate | exact Hgt | apply enough_fuel_of].
      cbn [ri ref_empty]. rewrite N.eqb_refl. cbv beta iota. rewrite Hhl1. apply Hquiet; [exact Hhl1|].
      intros _. split; [exact Hnf | lia].
  Qed.

  (* ---------------------------------------------------------------- the discovering step, everything exposed *)

  (* the events of the step that establishes the LIB block a: New for the blocks `fresh` (oldest first, the last one is
     the incoming block b), then the announcement of a *)
  Definition disc_events (b a : block) (fresh : list block) : list event :=
    fresh_events (bref b) (R a) fresh ++
    (if f_irr (c_filter cfg) then irr_events (bref b) 1 0 [a] else []).

  Definition DiscEv (s : fstate) (b : block) (res : fstate * list event * result) : Prop :=
    exists s' a Fin pre,
      res = (s', disc_events b a (pre ++ [b]), ROk) /\ In a U /\
      Forall (fun x => In x U /\ bnum a <= bnum x) (pre ++ [b]) /\
      apply_all (ri (R a)) [] (fresh_events (bref b) (R a) (pre ++ [b])) = Some (rev (pre ++ [b])) /\
      Inv U (R a) cfg s' Fin (rev (pre ++ [b])) /\
      (* the block is its own LIB (delivered New + Irreversible, it stays on the consumer's stack as a final
         block), or the LIB block was stored before and is NOT delivered as New *)
      ((a = b /\ pre = [] /\ Fin = [b]) \/ (In (bid a) (keys (store (db s))) /\ bnum a < bnum b /\ Fin = [])) /\
      libref (db s') = R a /\ last_lib_seen s' = R a /\ last_sent s' = Some b /\
      In (bid a) (keys (store (db s'))) /\
      (* what the step retains: everything at or above LIB - kept (the found case purges, the own case does not) *)
      (forall x, In x U -> In (bid x) (keys (store (db s)) ++ [bid b]) ->
                 In (bid x) (keys (store (db s'))) \/ bnum x < bnum a - kept) /\
      (forall id, In id (keys (store (db s'))) -> In id (keys (store (db s)) ++ [bid b])) /\
      (f_irr (c_filter cfg) = true ->
         exists m', fin_events (ri (R a)) (R a) b (m0 (R a)) (disc_events b a (pre ++ [b])) = Some m' /\
                    MInv U (R a) s' Fin (rev (pre ++ [b])) m' /\ fm_any m' = true).

  Lemma kept_or_low (l : list entry) x c : in_U l -> In x U -> In (bid x) (keys l) ->
    In (bid x) (keys (filter (fun e => c <=? bnum (eb e)) l)) \/ bnum x < c.
  Proof.
    intros HU Hx Hk. apply in_map_iff in Hk as (e & Hke & He).
    assert (Ex : eb e = x) by (apply U_uniq; [apply HU; exact He | exact Hx | exact Hke]).
    destruct (c <=? bnum (eb e)) eqn:Fe.
    - left. rewrite <- Hke. apply (in_map key). apply filter_In. split; [exact He | exact Fe].
    - right. apply N.leb_gt in Fe. rewrite Ex in Fe. exact Fe.
  Qed.

  (* the block is its own LIB: processInitialInclusiveIrreversibleBlock *)
  Lemma own_ev s b : PreInv s -> In b U -> find (bid b) (store (db s)) = None ->
    DiscEv s b (let '(s', evs, ok) := process_initial_inclusive cfg b (with_db s (move_lib (new_db (db s) b) (bref b))) in
                (s', evs, if ok then ROk else RHandlerErr)).
  Proof.
    intros HP Hb Hf. pose proof HP as [Hl He Hnd HU Hun Hls Hlls Hrt].
    set (en := mkEntry b false).
    assert (Hen : In en (store (db s) ++ [en])) by (apply in_or_app; right; left; reflexivity).
    pose proof (dbinv_found U cfg U_id U_uniq U_up s b en HP Hb Hf Hen) as Hd2. cbn [eb en] in Hd2.
    change (R b) with (bref b) in Hd2.
    set (d2 := move_lib (new_db (db s) b) (bref b)) in *. set (s2 := with_db s d2).
    assert (Hcur2 : cursor_lib s2 = bref b).
    { unfold cursor_lib, s2. cbn [with_db last_lib_seen db]. rewrite Hlls. reflexivity. }
    unfold process_initial_inclusive. rewrite Hnew, (call_ok cfg Hnofail). cbv beta iota zeta.
    set (tiny := mkSeg (bid b) (bnum b) (mkEntry b false)).
    set (ev := mkEv SNew b (seg_ref tiny) (seg_ref tiny) (cursor_lib s2) None 0 0).
    set (s1' := mkFS (db (mkFS (db s2) (last_sent s2) (last_lib_seen s2) (ncalls s2 + 1))) (Some b)
                     (last_lib_seen (mkFS (db s2) (last_sent s2) (last_lib_seen s2) (ncalls s2 + 1)))
                     (ncalls (mkFS (db s2) (last_sent s2) (last_lib_seen s2) (ncalls s2 + 1)))).
    destruct (process_irr_segment_ev cfg Hnofail [tiny] tiny [] (bref b) s1' eq_refl) as (s' & Hrun & Hdb & Hls' & Hlls').
    rewrite Hrun. cbv beta iota.
    assert (Hdb' : db s' = d2) by (rewrite Hdb; reflexivity).
    assert (Hlast' : last_sent s' = Some b) by (rewrite Hls'; reflexivity).
    assert (Hev : [ev] ++ (if f_irr (c_filter cfg)
                           then irr_events (bref b) (N.of_nat (length [tiny])) 0 (map (fun sg => eb (sent sg)) [tiny]) else [])
                  = disc_events b b ([] ++ [b])).
    { unfold disc_events, fresh_events, ev. rewrite Hcur2. reflexivity. }
    rewrite Hev.
    assert (HI' : Inv U (R b) cfg s' [b] [b]).
    { constructor; rewrite ?Hdb'.
      - exact Hd2.
      - constructor; [|constructor]. split; [exact Hb | apply N.le_refl].
      - reflexivity.
      - rewrite Hlast'. split; [exact Hb|]. exists []. split; [constructor|]. split; [reflexivity | constructor]. }
    assert (Happ : apply_all (ri (R b)) [] (fresh_events (bref b) (R b) ([] ++ [b])) = Some (rev ([] ++ [b]))).
    { cbn [app fresh_events map rev apply_all]. unfold apply_ev. cbn [estep eblk]. unfold root_ok. cbn [R ri].
      rewrite N.eqb_refl. reflexivity. }
    assert (Hkb : In (bid b) (keys (store (db s')))).
    { rewrite Hdb'. cbn [d2 move_lib new_db store]. rewrite keys_snoc. apply in_or_app. right. left. reflexivity. }
    exists s', b, [b], []. split; [reflexivity|]. split; [exact Hb|].
    split; [constructor; [split; [exact Hb | apply N.le_refl] | constructor]|].
    split; [exact Happ|]. split; [exact HI'|]. split; [left; auto|].
    split; [rewrite Hdb'; reflexivity|]. split; [rewrite Hlls'; reflexivity|]. split; [exact Hlast'|].
    split; [exact Hkb|].
    split.
    { intros x Hx Hin. left. rewrite Hdb'. cbn [d2 move_lib new_db store]. rewrite keys_snoc. exact Hin. }
    split.
    { intros id Hid. rewrite Hdb' in Hid. cbn [d2 move_lib new_db store] in Hid. rewrite keys_snoc in Hid. exact Hid. }
    intros Hirr. unfold disc_events. rewrite Hirr. cbn [app irr_events].
    set (e1 := mkEv SNew b (bref b) (bref b) (R b) None 0 0).
    set (eI := mkEv SIrr b (bref b) (bref b) (bref b) None 0 1).
    assert (HA : fin_events (ri (R b)) (R b) b (m0 (R b)) [e1] = Some (with_stack (m0 (R b)) [b])).
    { apply fin_A.
      - exact Happ.
      - constructor; [right; reflexivity | constructor].
      - intros e [<-|[]] He0. discriminate. }
    eexists. split.
    - change (fresh_events (bref b) (R b) [b] ++ [eI]) with ([e1] ++ [eI]). rewrite fin_events_app, HA.
      apply (fin_root (ri (R b)) (R b) b (with_stack (m0 (R b)) [b]) eI []); reflexivity.
    - split; [|reflexivity]. constructor; cbn [with_stack m0 fm_stack fm_nfinal fm_last fm_finals fm_stalled fm_any eblk eI app rev].
      + reflexivity.
      + reflexivity.
      + rewrite Hdb'. reflexivity.
      + intros id [<-|[]]. left. left. reflexivity.
      + intros id [].
      + discriminate.
  Qed.

  (* the LIB part of the discovering step: the LIB does not move, it is announced (disc_lib of MovingLibDisc.v with the
     events, the cursor fields and the purge written out) *)
  Lemma disc_lib_ev s3 S3 b evs a : In (eb a) U ->
    Inv U (R (eb a)) cfg s3 [] S3 -> libref (db s3) = R (eb a) -> last_sent s3 = Some b -> In b U ->
    bid b <> key a -> blib b = bnum (eb a) -> find (key a) (store (db s3)) <> None ->
    exists s',
      lib_tail cfg s3 b evs (Some (seg_of a)) =
        (s', evs ++ (if f_irr (c_filter cfg) then irr_events (bref b) 1 0 [eb a] else []), ROk) /\
      Inv U (R (eb a)) cfg s' [] S3 /\
      libref (db s') = R (eb a) /\ last_lib_seen s' = R (eb a) /\ last_sent s' = Some b /\
      store (db s') = filter (fun e => bnum (eb a) - kept <=? bnum (eb e)) (store (db s3)).
  Proof.
    intros HaU HI Hlib Hls Hb Hne Hbl Hsto.
    pose proof HI as [Hd Hfin Hflast Hh]. rewrite Hls in Hh. destruct Hh as (_ & p & Hc & HS & Hsent).
    pose proof Hd as [Hnd HU Hcoh Hnum Hextra Hlc Hrt0].
    pose proof (di_wf U (R (eb a)) U_id U_up _ Hd) as Hwf. pose proof (di_up U (R (eb a)) _ Hd) as Hup.
    assert (Hril : ri (libref (db s3)) = key a) by (rewrite Hlib; reflexivity).
    assert (Hrnl : rn (libref (db s3)) = bnum (eb a)) by (rewrite Hlib; reflexivity).
    destruct p as [|et p' _] using rev_ind.
    { apply chain_nil_inv in Hc. congruence. }
    destruct (chain_top _ _ _ _ _ Hc) as [Hf Hk].
    assert (Eet : eb et = b) by (apply (stored_is_self U U_uniq _ _ _ HU Hb Hf)).
    destruct (find (ri (libref (db s3))) (store (db s3))) as [el|] eqn:Hel; [|rewrite Hril in Hel; contradiction].
    unfold lib_tail. cbv beta iota zeta. rewrite Hls, (di_has_lib U (R (eb a)) _ Hd). cbn [negb].
    pose proof (bic_lib (db s3) (bid b) (p' ++ [et]) et Hwf Hnum Hup Hc) as Hbic.
    rewrite Eet in Hbic. fold (bref b) in Hbic. rewrite Hbl, <- Hrnl. rewrite Hbic; [|destruct p'; discriminate | exact Hf].
    cbn [ri]. destruct (N.eqb_spec (ri (libref (db s3))) 0) as [E0|_]; [exfalso; apply (di_lid U (R (eb a)) _ Hd); exact E0|].
    unfold has_new_irr_segment. cbn [ri]. rewrite N.eqb_refl. cbn [negb andb app].
    destruct (dbinv_purge_same U cfg U_id U_uniq U_up (R (eb a)) (db s3) (bid b) (p' ++ [et]) el kept Hd Hel Hc) as (Hd' & Hl' & Hst' & Hc').
    set (d' := purge_before_lib (move_lib (db s3) (mkR (ri (libref (db s3))) (rn (libref (db s3))))) kept) in *.
    destruct (process_irr_segment_ev cfg Hnofail [seg_of a] (seg_of a) [] (bref b) (with_db s3 d') eq_refl)
      as (s5 & Hrun5 & Hdb5 & Hls5 & Hlls5).
    rewrite Hrun5. cbv beta iota. cbn [negb].
    destruct (process_stalled_segment_ok cfg Hnofail [] (bref b) s5)
      as (s6 & ev6 & Hrun6 & (Hdb6 & Hls6 & Hlls6) & Hm6 & Hs6).
    rewrite Hrun6. cbv beta iota.
    assert (Hev6 : ev6 = []).
    { destruct (f_stalled (c_filter cfg)); [|exact Hm6]. cbn [map] in Hm6. apply map_eq_nil in Hm6. exact Hm6. }
    subst ev6. rewrite app_nil_r.
    assert (Hdb : db s6 = d') by (rewrite Hdb6, Hdb5; reflexivity).
    assert (Hlast : last_sent s6 = Some b) by (rewrite Hls6, Hls5; exact Hls).
    assert (Hlr : libref d' = R (eb a)) by (rewrite Hl', <- Hlib; destruct (libref (db s3)); reflexivity).
    exists s6. split; [reflexivity|]. split; [|split; [|split; [|split]]].
    - constructor; rewrite ?Hdb.
      + exact Hd'.
      + constructor.
      + cbn [rev]. exact Hlr.
      + rewrite Hlast. split; [exact Hb|]. exists (p' ++ [et]). rewrite Hl'. cbn [ri]. split; [exact Hc'|].
        split; [exact HS | exact Hsent].
    - rewrite Hdb. exact Hlr.
    - rewrite Hlls6, Hlls5. reflexivity.
    - exact Hlast.
    - rewrite Hdb, Hst', Hrnl. reflexivity.
  Qed.

  (* the step that finds the LIB among the stored ancestors of the new block *)
  Lemma found_ev s b y A a B' :
    PreInv s -> In b U -> find (bid b) (store (db s)) = None ->
    chain (store (db s) ++ [mkEntry b false]) (bid b) y (A ++ a :: B' ++ [mkEntry b false]) ->
    bnum (eb a) = blib b ->
    DiscEv s b (process_tail cfg (with_db s (move_lib (new_db (db s) b) (R (eb a)))) b [] [] None
                             (map seg_of (B' ++ [mkEntry b false])) (Some (seg_of a))).
  Proof.
    intros HP Hb Hf Hc Hbl. pose proof HP as [Hl He Hnd HU Hun Hls Hlls Hrt].
    set (en := mkEntry b false) in *. set (l1 := store (db s) ++ [en]) in *.
    assert (Hain : In a (A ++ a :: B' ++ [en])) by (apply in_or_app; right; left; reflexivity).
    assert (Ha : In a l1) by (eapply chain_in; eassumption).
    pose proof (dbinv_found U cfg U_id U_uniq U_up s b a HP Hb Hf Ha) as Hd2.
    assert (HaU : In (eb a) U) by (apply (di_inU U _ _ Hd2); exact Ha).
    set (d2 := move_lib (new_db (db s) b) (R (eb a))) in *. set (s2 := with_db s d2).
    pose proof (di_wf U (R (eb a)) U_id U_up _ Hd2) as Hwf2.
    assert (Hc2 : chain (store (db s2)) (bid b) (ri (libref (db s2))) (B' ++ [en])).
    { apply (chain_suffix l1 y (B' ++ [en]) (bid b) A a Hwf2 Hc). }
    assert (HI2 : Inv U (R (eb a)) cfg s2 [] []).
    { constructor.
      - exact Hd2.
      - constructor.
      - reflexivity.
      - cbn [s2 with_db last_sent]. rewrite Hls. split; [reflexivity|]. split; [reflexivity|]. split.
        + intros e Hin. cbn [db d2 move_lib new_db store] in Hin.
          apply in_app_or in Hin as [Hin|[<-|[]]]; [apply Hun; exact Hin | reflexivity].
        + rewrite Hincl. discriminate. }
    assert (G : forall x, In x B' -> esent x = false).
    { intros x Hx. assert (Hx1 : In x l1).
      { eapply chain_in; [exact Hc|]. apply in_or_app. right. right. apply in_or_app. left. exact Hx. }
      apply in_app_or in Hx1 as [Hx1|[<-|[]]]; [apply Hun; exact Hx1 | reflexivity]. }
    destruct (trigger_first_ev U (R (eb a)) cfg Hnofail Hnew Hundo U_id U_uniq U_up
                (R_id U U_id _ HaU) (R_num U U_uniq _ HaU) (R_up U U_up _ HaU) (R_decl U U_uniq D_decl _ HaU)
                s2 [] [] b B' [] B' [] None (Some (seg_of a)) HI2 Hb Hc2 eq_refl (Forall_nil _) eq_refl)
      as (s3 & Rs & Ru & HR & Hrun & Happ & HI3 & Hk3 & Hls3 & Hlr3 & Hlls3 & HRs & HRu & Hst3 & Hex3).
    assert (HRs0 : Rs = []).
    { destruct Rs as [|r Rs']; [reflexivity|]. exfalso.
      pose proof (Forall_inv HRs) as Hr. cbn beta in Hr.
      rewrite (G r) in Hr; [discriminate|]. rewrite HR. left. reflexivity. }
    subst Rs. cbn [app] in HR. subst Ru.
    assert (Hcur2 : cursor_lib s2 = R (eb a)).
    { unfold cursor_lib, s2. cbn [with_db last_lib_seen db]. rewrite Hlls. reflexivity. }
    cbn [rev map] in Hrun, Happ. rewrite (filter_sent_none B' G) in Hrun.
    unfold undo_evs, new_evs in Hrun, Happ. cbn [batch_events length app] in Hrun, Happ.
    rewrite Hcur2 in Hrun, Happ. fold en in Hrun, Happ, HI3. fold s2. rewrite Hrun.
    assert (Hne : bid b <> key a).
    { destruct (chain_snoc_inv _ _ _ _ _ Hc2) as (Hx & _ & _). exact Hx. }
    assert (Hsto : find (key a) (store (db s3)) <> None).
    { intros Hn. apply find_none in Hn. apply Hn. rewrite Hk3. apply in_map. exact Ha. }
    destruct (disc_lib_ev s3 _ b (fresh_events (bref b) (R (eb a)) (map eb (B' ++ [en]))) a HaU HI3 Hlr3 Hls3 Hb Hne (eq_sym Hbl) Hsto)
      as (s' & Hlt & HI' & Hlr' & Hlls' & Hls' & Hst').
    rewrite Hlt.
    assert (Hfresh : map eb (B' ++ [en]) = map eb B' ++ [b]) by (rewrite map_app; reflexivity).
    rewrite Hfresh in *.
    pose proof HI3 as [Hd3 _ _ _]. pose proof (di_inU U _ _ Hd3) as HU3.
    assert (Hk3' : keys (store (db s3)) = keys (store (db s)) ++ [bid b]).
    { rewrite Hk3. cbn [s2 with_db db d2 move_lib new_db store]. apply keys_snoc. }
    destruct (chain_split_order _ _ _ _ _ _ Hwf2 Hc) as [Habove _].
    assert (Hltb : bnum (eb a) < bnum b).
    { apply (Habove en). apply in_or_app. right. left. reflexivity. }
    exists s', (eb a), [], (map eb B'). split; [reflexivity|]. split; [exact HaU|].
    split.
    { rewrite <- Hfresh. apply Forall_forall. intros x Hx. apply in_map_iff in Hx as (e & <- & Hein).
      split.
      - apply (di_inU U _ _ Hd2). cbn [d2 move_lib new_db store]. fold en. fold l1. eapply chain_in; [exact Hc|].
        apply in_or_app. right. right. exact Hein.
      - apply N.lt_le_incl. apply Habove. exact Hein. }
    split; [exact Happ|]. split; [exact HI'|].
    split.
    { right. split; [|split; [exact Hltb | reflexivity]].
      apply in_app_or in Ha as [Ha|[Ea|[]]]; [apply (in_map key) in Ha; exact Ha|].
      exfalso. apply Hne. rewrite <- Ea. reflexivity. }
    split; [exact Hlr'|]. split; [exact Hlls'|]. split; [exact Hls'|].
    assert (Hkeep : forall x, In x U -> In (bid x) (keys (store (db s)) ++ [bid b]) ->
                      In (bid x) (keys (store (db s'))) \/ bnum x < bnum (eb a) - kept).
    { intros x Hx Hin. rewrite Hst'. apply (kept_or_low _ x _ HU3 Hx). rewrite Hk3'. exact Hin. }
    split.
    { destruct (Hkeep (eb a) HaU) as [H|H]; [|exact H | lia].
      rewrite <- Hk3'. rewrite Hk3. apply (in_map key). exact Ha. }
    split; [exact Hkeep|].
    split.
    { intros id Hid. rewrite Hst' in Hid. apply in_filter_keys in Hid. rewrite <- Hk3'. exact Hid. }
    intros Hirr. unfold disc_events. rewrite Hirr. cbn [irr_events].
    set (evN := fresh_events (bref b) (R (eb a)) (map eb B' ++ [b])) in *.
    set (eI := mkEv SIrr (eb a) (bref (eb a)) (bref b) (bref (eb a)) None 0 1).
    set (S3 := rev (map eb B' ++ [b])) in *.
    assert (HA : fin_events (ri (R (eb a))) (R (eb a)) b (m0 (R (eb a))) evN = Some (with_stack (m0 (R (eb a))) S3)).
    { apply fin_A; [exact Happ| |].
      - eapply Forall_impl; [|apply fresh_events_step]. cbn beta. auto.
      - intros e He0 Hs0. pose proof (fresh_events_step (bref b) (R (eb a)) (map eb B' ++ [b])) as HsN.
        rewrite Forall_forall in HsN. rewrite (HsN e He0) in Hs0. discriminate. }
    (* the bottom of the stack is the child of the LIB on the chain, not the LIB *)
    assert (Hbot : exists p0 rest, rev S3 = p0 :: rest /\ bid p0 <> bid (eb a)).
    { unfold S3. rewrite rev_involutive.
      destruct B' as [|e1 B1].
      - exists b, []. split; [reflexivity|]. exact Hne.
      - exists (eb e1), (map eb B1 ++ [b]). split; [reflexivity|].
        apply (chain_not_bottom _ _ _ _ Hc2 e1). left. reflexivity. }
    destruct Hbot as (p0 & rest & Hrev & Hp0).
    eexists. split.
    - rewrite fin_events_app, HA.
      apply (fin_root_nf (ri (R (eb a))) (R (eb a)) b (with_stack (m0 (R (eb a))) S3) eI p0 rest);
        cbn [with_stack m0 fm_any fm_stalled fm_stack fm_nfinal eI eblk]; auto.
    - split; [|reflexivity]. constructor; cbn [with_stack m0 fm_stack fm_nfinal fm_last fm_finals fm_stalled fm_any eI eblk].
      + reflexivity.
      + reflexivity.
      + rewrite Hlr'. reflexivity.
      + intros id [<-|[]]. right. reflexivity.
      + intros id [].
      + intros H. exfalso. unfold S3 in H. apply (f_equal (@rev block)) in H. rewrite rev_involutive in H.
        cbn [rev] in H. destruct (map eb B'); discriminate.
  Qed.

  (* ---------------------------------------------------------------- one ProcessBlock call before the discovery *)

  Lemma disc_step_ev s b : PreInv s -> In b U ->
    PreQuietX s b (fk_step cfg s b) \/
    (~ In (bid b) (keys (store (db s))) /\ DiscEv s b (fk_step cfg s b)).
  Proof.
    intros HP Hb. destruct (disc_cases s b HP Hb) as [Hq|(Hk & [Hown|(y & A & a & B' & Hc & Hna & Hfound)])].
    - left. exact Hq.
    - right. split; [exact Hk|]. rewrite Hown. apply own_ev; [exact HP | exact Hb | apply find_none; exact Hk].
    - right. split; [exact Hk|]. rewrite Hfound. apply (found_ev s b y A a B'); try assumption. apply find_none. exact Hk.
  Qed.

  (* ---------------------------------------------------------------- the discovering step is a c04m_step *)

  Lemma disc_events_first b a pre : exists e rest, disc_events b a (pre ++ [b]) = e :: rest /\ elib e = R a.
  Proof.
    unfold disc_events, fresh_events. destruct pre as [|x pre]; cbn [app map]; eexists; eexists; split; reflexivity.
  Qed.

  Lemma disc_events_apply b a pre :
    apply_all (ri (R a)) [] (fresh_events (bref b) (R a) (pre ++ [b])) = Some (rev (pre ++ [b])) ->
    apply_all (ri (R a)) [] (disc_events b a (pre ++ [b])) = Some (rev (pre ++ [b])).
  Proof.
    intros H. unfold disc_events. rewrite (apply_all_app _ _ _ _ _ H). apply apply_all_inert.
    destruct (f_irr (c_filter cfg)); [|constructor]. constructor; [left; reflexivity | constructor].
  Qed.

  Lemma disc_c04m_step lr b a pre :
    Forall (fun x => In x U /\ bnum a <= bnum x) (pre ++ [b]) ->
    apply_all (ri (R a)) [] (fresh_events (bref b) (R a) (pre ++ [b])) = Some (rev (pre ++ [b])) ->
    c04m_step (R a) (f_irr (c_filter cfg)) lr (R a) [] b (disc_events b a (pre ++ [b])) (R a) (rev (pre ++ [b])).
  Proof.
    intros Hab Happ.
    exists [], [], [], (pre ++ [b]), (if f_irr (c_filter cfg) then [a] else []), [].
    split; [reflexivity|]. split; [cbn [app]; rewrite app_nil_r; reflexivity|].
    split.
    { unfold disc_events. cbn [batch_events stalled_events length app]. rewrite app_nil_r.
      destruct (f_irr (c_filter cfg)); reflexivity. }
    split; [cbn [app]; eapply Forall_impl; [|exact Hab]; cbn beta; intros x [_ H]; exact H|].
    split; [destruct (f_irr (c_filter cfg)); cbn [ascending R rn]; [split; [apply N.le_refl | exact I] | exact I]|].
    split; [apply N.le_refl|].
    split; [intros ->; reflexivity|].
    split; [intros ->; reflexivity|].
    apply disc_events_apply. exact Happ.
  Qed.

  (* the state after the discovering step satisfies the supplement of MovingLibEvents.v *)
  Lemma disc_ext s' a Fin : In a U -> libref (db s') = R a -> last_lib_seen s' = R a ->
    In (bid a) (keys (store (db s'))) -> Ext s' Fin.
  Proof.
    intros Ha Hl Hlls Hk. constructor.
    - rewrite (cursor_not_empty s'); [rewrite Hlls, Hl; reflexivity|]. rewrite Hlls. apply (R_id U U_id a Ha).
    - intros _. rewrite Hl. exact Hk.
  Qed.

  (* ---------------------------------------------------------------- whole histories *)

  (* the buffer holds only blocks that were fed *)
  Definition PRecv (s : fstate) (seen : list block) : Prop :=
    forall id, In id (keys (store (db s))) -> exists x, In x seen /\ bid x = id.

  Lemma precv_step s s' b seen : PRecv s seen ->
    (forall id, In id (keys (store (db s'))) -> In id (keys (store (db s)) ++ [bid b])) -> PRecv s' (b :: seen).
  Proof.
    intros HR Hsub id Hid. apply Hsub in Hid. apply in_app_or in Hid as [Hid|[<-|[]]].
    - destruct (HR id Hid) as (x & Hx & E). exists x. split; [right; exact Hx | exact E].
    - exists b. split; [left; reflexivity | reflexivity].
  Qed.

  Lemma disc_run_ev : forall h s seen, PreInv s -> (forall b, In b h -> In b U) -> PRecv s seen ->
    c04d_run (f_irr (c_filter cfg)) seen h (fk_run cfg s h).
  Proof.
    induction h as [|b h IH]; intros s seen HP Hh HR; [exact I|].
    assert (Hb : In b U) by (apply Hh; left; reflexivity).
    assert (Hh' : forall x, In x h -> In x U) by (intros x Hx; apply Hh; right; exact Hx).
    cbn [fk_run].
    destruct (disc_step_ev s b HP Hb) as [[(s' & Hstep & HP' & _) Hsub]|(Hnk & Hdisc)].
    - (* nothing delivered *)
      rewrite Hstep in Hsub |- *. cbn [fst] in Hsub. cbn [c04d_run]. left.
      split; [reflexivity|]. split; [reflexivity|].
      apply (IH s' (b :: seen) HP' Hh'). exact (precv_step s s' b seen HR Hsub).
    - (* the LIB is discovered *)
      destruct Hdisc as (s' & a & Fin & pre & Hstep & HaU & Hab & Happ & HI' & Hcase & Hl' & Hlls' & Hls' & Hka & _ & Hsub & _).
      rewrite Hstep. cbn [c04d_run]. right.
      destruct (disc_events_first b a pre) as (e & rest & He & Hel).
      exists (R a), e, rest. split; [exact He|]. split; [exact Hel|].
      cbn [c04m_run]. split; [reflexivity|]. exists (R a), (rev (pre ++ [b])).
      split; [apply disc_c04m_step; assumption|].
      pose proof (run_ev U (R a) cfg Hnofail Hnew Hundo U_id U_uniq U_up
                    (R_id U U_id a HaU) (R_num U U_uniq a HaU) (R_up U U_up a HaU) (R_decl U U_uniq D_decl a HaU)
                    h s' Fin (rev (pre ++ [b])) (b :: seen) HI' (disc_ext s' a Fin HaU Hl' Hlls' Hka)) as Hrun.
      rewrite Hl' in Hrun. apply Hrun; [|exact Hh'].
      (* the LIB block is stored and was fed *)
      intros HF. destruct Hcase as [(_ & _ & ->)|(Hks & _ & _)]; [discriminate|].
      apply bool_eq_iff. rewrite lib_stored_in, lib_received_in. cbn [R ri]. split; intros _.
      + destruct (HR _ Hks) as (x & Hx & E). exists x. split; [right; exact Hx | exact E].
      + exact Hka.
  Qed.

  Lemma precv_init : PRecv (fs_init LNone) [].
  Proof. intros id []. Qed.

  Theorem discovery_events h : (forall b, In b h -> In b U) ->
    c04d_run (f_irr (c_filter cfg)) [] h (fk_run cfg (fs_init LNone) h).
  Proof. intros Hh. apply disc_run_ev; [apply pre_init | exact Hh | apply precv_init]. Qed.
End DiscEv.
