(* Discovery mode (no configured LIB, hold-until-LIB), every field of every delivered event: C04, and the
   description of the discovering step that C18 needs.

   Proofs/Fk/MovingLibDisc.v has the invariant hand-over (PreInv before the discovery, Inv U (R a) afterwards).
   This file re-runs the discovering step with the events written out:
     - the step that finds the LIB among the stored ancestors of the new block b (or b itself) delivers
         New for the never-delivered blocks from the child of the LIB block a up to b   (cursor LIB = a)
         Irreversible for a itself (cursor LIB = a, StepCount 1)                         (when f_irr)
       and nothing else: no Undo, no Stalled event; it is a step of the shape c04m_step rooted at R a with
       LIB before = LIB after = R a;
     - after it the state satisfies Inv U (R a), the supplement Ext of MovingLibEvents.v (cursor LIB = LIB of the
       fork database, LIB block stored) and LibRecv, so that the rest of the run is MovingLibEvents.run_ev. *)
From BV Require Import Base.Prelude Model.Block Model.ForkDB Model.Forkable Spec.Consumer Spec.Universe
  Spec.C04_Spec Spec.C04_Moving_Spec
  Proofs.Fk.StoreFacts Proofs.Fk.WalkFacts Proofs.Fk.LoopFacts Proofs.Fk.StoreChange Proofs.Fk.SwitchFacts
  Proofs.Fk.FixedLib Proofs.Fk.FixedLibEvents Proofs.Fk.RootsBase Proofs.Fk.MovingLibStore Proofs.Fk.MovingLibWalk
  Proofs.Fk.MovingLibLoops Proofs.Fk.MovingLibInv Proofs.Fk.MovingLibFin Proofs.Fk.MovingLibDisc Proofs.Fk.MovingLibEvents.
Local Open Scope N_scope.

Lemma filter_sent_none (l : list entry) : (forall x, In x l -> esent x = false) -> filter esent l = [].
Proof.
  induction l as [|h t IH]; intros G; cbn [filter]; [reflexivity|].
  rewrite (G h (or_introl eq_refl)). apply IH. intros x Hx. apply G. right. exact Hx.
Qed.

Section DiscEv.
  Variable U : list block.
  Variable cfg : config.

  Hypothesis Hnofail : c_fail_at cfg = None.
  Hypothesis Hnew : f_new (c_filter cfg) = true.
  Hypothesis Hundo : f_undo (c_filter cfg) = true.
  Hypothesis Hhold : c_hold cfg = true.
  Hypothesis Hincl : c_incl cfg = false.

  Hypothesis U_id : forall b, In b U -> bid b <> 0 /\ bid b <> bparent b.
  Hypothesis U_uniq : forall x y, In x U -> In y U -> bid x = bid y -> x = y.
  Hypothesis U_up : forall x y, In x U -> In y U -> bparent x = bid y -> bnum y < bnum x.
  Hypothesis D_decl : forall b, In b U -> decl_none U b.

  Notation first := (c_first cfg).
  Notation in_U := (in_U U).
  Notation PreInv := (PreInv U cfg).
  Notation PreQuiet := (PreQuiet U cfg).
  Notation kept := (c_kept cfg).

  (* ---------------------------------------------------------------- the three outcomes of a call before the discovery *)

  (* pre_step of MovingLibDisc.v without its last step: nothing delivered / the block is its own LIB (or the first
     streamable block) / the LIB is a stored proper ancestor a of the block *)
  Lemma disc_cases s b : PreInv s -> In b U ->
    PreQuiet s b (fk_step cfg s b) \/
    (~ In (bid b) (keys (store (db s))) /\
     (fk_step cfg s b =
        (let '(s', evs, ok) := process_initial_inclusive cfg b (with_db s (move_lib (new_db (db s) b) (bref b))) in
         (s', evs, if ok then ROk else RHandlerErr)) \/
      exists y A a B',
        chain (store (db s) ++ [mkEntry b false]) (bid b) y (A ++ a :: B' ++ [mkEntry b false]) /\
        bnum (eb a) = blib b /\
        fk_step cfg s b =
          process_tail cfg (with_db s (move_lib (new_db (db s) b) (R (eb a)))) b [] [] None
                       (map seg_of (B' ++ [mkEntry b false])) (Some (seg_of a)))).
  Proof.
    intros HP Hb. pose proof HP as [Hl He Hnd HU Hun Hls Hlls Hrt].
    destruct (find (bid b) (store (db s))) as [e|] eqn:Hf.
    { left. rewrite (pre_step_old U cfg Hhold Hincl U_id U_uniq U_up D_decl s b e HP Hb Hf). exists s.
      split; [reflexivity|]. split; [exact HP|].
      split; [auto|]. split; [auto|]. apply find_is_some_in. eauto. }
    assert (Hk : ~ In (bid b) (keys (store (db s)))) by (apply find_none; exact Hf).
    rewrite (fk_step_pre U cfg Hhold Hincl U_id U_uniq U_up D_decl s b HP Hb Hf). cbv zeta.
    set (en := mkEntry b false). set (d1 := new_db (db s) b).
    assert (Hl1 : libref d1 = ref_empty) by exact Hl.
    assert (He1 : extra d1 = None) by exact He.
    assert (Hnd1 : NoDup (keys (store d1))).
    { unfold d1. cbn [new_db store]. rewrite keys_snoc. apply nodup_snoc; assumption. }
    assert (HU1 : in_U (store d1)).
    { unfold d1. cbn [new_db store]. intros e Hin. apply in_app_or in Hin as [Hin|[<-|[]]]; [apply HU; exact Hin | exact Hb]. }
    pose proof (wf_of_U U U_id U_up _ Hnd1 HU1) as Hwf1.
    assert (Hfb : find (bid b) (store d1) = Some en).
    { unfold d1. cbn [new_db store]. apply (find_snoc_new (store (db s)) en). exact Hk. }
    destruct (max_chain (store d1) Hwf1 (fuel_of d1) (bid b) (enough_fuel_of d1 (bid b))) as (y & p & Hc & Hy).
    destruct p as [|top p' _] using rev_ind.
    { apply chain_nil_inv in Hc. rewrite <- Hc, Hfb in Hy. discriminate. }
    destruct (chain_top _ _ _ _ _ Hc) as [Hft _]. rewrite Hfb in Hft. injection Hft as <-.
    assert (Hquiet : has_lib d1 = false -> (bparent b = 0 -> bnum b <> first /\ bnum b <> blib b) ->
                     PreQuiet s b (with_db s d1, [], ROk)).
    { intros _ Hq. exists (with_db s d1). split; [reflexivity|].
      split; [exact (pre_add U cfg s b HP Hb Hf Hq)|]. split; [intros H; contradiction|].
      cbn [with_db db d1 new_db store]. rewrite keys_snoc. split.
      - intros k Hin. apply in_or_app. left. exact Hin.
      - apply in_or_app. right. left. reflexivity. }
    assert (Hhl1 : has_lib d1 = false) by (unfold has_lib; rewrite Hl1; reflexivity).
    assert (Hown : forall d2, d2 = move_lib d1 (bref b) ->
              (if has_lib d2 then
                 if rn (libref d2) =? bnum b then
                   let '(s', evs, ok) := process_initial_inclusive cfg b (with_db s d2) in (s', evs, if ok then ROk else RHandlerErr)
                 else match reversible_segment d2 first (bref b) with
                      | None => (with_db s d2, [], RFuel)
                      | Some (longest, _) => if (match longest with [] => true | _ => false end) then (with_db s d2, [], ROk)
                                              else process_tail cfg (with_db s d2) b [] [] None longest (block_for_id d2 (ri (libref d2)))
                      end
               else (with_db s d2, [], ROk)) =
              (let '(s', evs, ok) := process_initial_inclusive cfg b (with_db s (move_lib d1 (bref b))) in
               (s', evs, if ok then ROk else RHandlerErr))).
    { intros d2 ->. unfold has_lib, ref_eqb, ref_empty. cbn [move_lib libref bref ri rn].
      destruct (N.eqb_spec (bid b) 0) as [E|E]; [exfalso; apply (proj1 (U_id b Hb)); exact E|]. cbn [andb negb].
      rewrite N.eqb_refl. reflexivity. }
    unfold set_lib. change (rn (bref b)) with (bnum b).
    destruct (N.eqb_spec (bnum b) first) as [|Hnf].
    { right. split; [exact Hk|]. left. cbv beta iota. apply (Hown _ eq_refl). }
    destruct (decl_on_store U U_uniq U_up (store d1) p' (bid b) y en HU1 Hc Hb (D_decl b Hb)) as [(A & a & B & Heq & Hna)|Hgt].
    - (* the declared height is the height of a stored ancestor-or-self *)
      rewrite Heq in Hc. cbn [eb en] in Hna.
      pose proof (bic_find d1 (bid b) y A a B en Hwf1 Hc Hfb) as Hbic. cbn [eb en] in Hbic. rewrite Hna in Hbic.
      change (mkR (bid b) (bnum b)) with (bref b) in Hbic. rewrite Hbic. cbn [ri].
      assert (Hain : In a (A ++ a :: B)) by (apply in_or_app; right; left; reflexivity).
      assert (Ha : In a (store d1)) by (eapply chain_in; eassumption).
      destruct (N.eqb_spec (key a) 0) as [E0|_]; [exfalso; apply (proj1 (ws_id _ Hwf1 a Ha)); exact E0|].
      right. split; [exact Hk|]. cbv beta iota.
      destruct B as [|t B' _] using rev_ind.
      + (* the block is its own LIB *)
        destruct (chain_top _ _ _ _ _ Hc) as [Hfa _]. rewrite Hfb in Hfa. injection Hfa as <-.
        change (mkR (key en) (blib b)) with (mkR (bid b) (blib b)). rewrite <- Hna.
        change (mkR (bid b) (bnum b)) with (bref b). left. apply (Hown _ eq_refl).
      + assert (Ht : t = en).
        { replace (A ++ a :: B' ++ [t]) with ((A ++ a :: B') ++ [t]) in Hc by (rewrite <- app_assoc; reflexivity).
          destruct (chain_top _ _ _ _ _ Hc) as [Hft _]. congruence. }
        subst t.
        pose proof (dbinv_found U cfg U_id U_uniq U_up s b a HP Hb Hf Ha) as Hd2. rewrite <- Hna.
        change (mkR (key a) (bnum (eb a))) with (R (eb a)).
        set (d2 := move_lib d1 (R (eb a))) in *.
        rewrite (di_has_lib U (R (eb a)) d2 Hd2). cbn [d2 move_lib libref R rn].
        destruct (chain_split_order _ _ _ _ _ _ Hwf1 Hc) as [Habove _].
        assert (Hlt : bnum (eb a) < bnum b).
        { apply (Habove en). apply in_or_app. right. left. reflexivity. }
        destruct (N.eqb_spec (bnum (eb a)) (bnum b)) as [E|_]; [lia|].
        fold d2.
        assert (Hc2 : chain (store d2) (bid b) (ri (libref d2)) (B' ++ [en])).
        { apply (chain_suffix (store d1) y (B' ++ [en]) (bid b) A a Hwf1 Hc). }
        pose proof (rs_chain_lib d2 first (di_wf U _ U_id U_up d2 Hd2) (di_lid U _ d2 Hd2) (di_num U _ d2 Hd2) (di_up U _ d2 Hd2)
                      (bid b) (B' ++ [en]) en Hc2 Hfb) as Hrs.
        cbn [eb en] in Hrs. change (mkR (bid b) (bnum b)) with (bref b) in Hrs. rewrite Hrs by (destruct B'; discriminate).
        destruct (map seg_of (B' ++ [en])) as [|sg0 sgs] eqn:Emap.
        { apply map_eq_nil in Emap. destruct B'; discriminate. }
        rewrite <- Emap.
        assert (Hbf : block_for_id d2 (ri (libref d2)) = Some (seg_of a)).
        { unfold block_for_id. cbn [d2 move_lib libref R ri store]. change (bid (eb a)) with (key a).
          rewrite (find_in_nodup _ _ Hnd1 Ha). reflexivity. }
        change (ri (R (eb a))) with (ri (libref d2)). rewrite Hbf.
        right. exists y, A, a, B'. split; [exact Hc|]. split; reflexivity.
    - (* no stored ancestor at the declared height: hold *)
      left. unfold block_in_chain. change (rn (bref b)) with (bnum b). change (ri (bref b)) with (bid b).
      assert (Hgb : blib b < bnum b).
      { apply (Hgt en). apply in_or_app. right. left. reflexivity. }
      destruct (N.eqb_spec (bnum b) (blib b)) as [E|_]; [lia|].
      rewrite (bic_all_gt d1 (blib b) Hwf1 He1 (bid b) y (p' ++ [en]) Hc Hy); [|destruct p'; discriminate | exact Hgt | apply enough_fuel_of].
      cbn [ri ref_empty]. rewrite N.eqb_refl. cbv beta iota. rewrite Hhl1. apply Hquiet; [exact Hhl1|].
      intros _. split; [exact Hnf | lia].
  Qed.
End DiscEv.
