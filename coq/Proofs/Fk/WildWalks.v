(* C01 outside the class lib_ok ("wild" LIB declarations), part 1: what the walks of the forkdb return when
   NOTHING is assumed about the LIB numbers blocks declare, nor about the number of the LIB reference.
   - `reach`: the parent walk through stored entries, without the side conditions of `chain`;
   - BlockInCurrentChain returns the empty reference or a reference whose ID is met on the walk from the start
     block; its NUMBER is arbitrary when the id is the start block itself, otherwise it is at most the stored
     height of that id (bic_spec);
   - ReversibleSegment: the entries of a non-empty result are the chain from the start id down to the LIB id,
     whatever numbers the walk attributes to them (rs_entries);
   - a reference found on the walk from the head from which ReversibleSegment reaches the LIB splits the
     chain of the head (reach_chain_split). *)
From BV Require Import Base.Prelude Model.Block Model.ForkDB Model.Forkable
  Proofs.Fk.StoreFacts Proofs.Fk.WalkFacts Proofs.Fk.LoopFacts Proofs.Fk.StoreChange Proofs.Fk.SwitchFacts
  Proofs.Fk.MovingLibStore.
Local Open Scope N_scope.

(* ---------- reach ---------- *)

Inductive reach (l : list entry) : N -> N -> Prop :=
| reach_refl x : reach l x x
| reach_step x y e : find x l = Some e -> reach l (bparent (eb e)) y -> reach l x y.

Lemma reach_trans l x y z : reach l x y -> reach l y z -> reach l x z.
Proof. induction 1 as [x|x y e Hf Hr IH]; intros H; [exact H | econstructor; [exact Hf | apply IH; exact H]]. Qed.

(* heights strictly decrease along a proper walk *)
Lemma reach_lt l : wf_store l -> forall x y, reach l x y -> x <> y ->
  forall ex ey, find x l = Some ex -> find y l = Some ey -> bnum (eb ey) < bnum (eb ex).
Proof.
  intros Hwf x y Hr. induction Hr as [x|x y e Hf Hr IH]; intros Hne ex ey Hx Hy; [congruence|].
  rewrite Hf in Hx. injection Hx as <-.
  destruct (N.eq_dec (bparent (eb e)) y) as [E|E].
  - rewrite <- E in Hy. apply (ws_up l Hwf e ey); [apply find_some in Hf; tauto | exact Hy].
  - destruct (find (bparent (eb e)) l) as [ep|] eqn:Fp.
    + pose proof (IH E ep ey eq_refl Hy). pose proof (ws_up l Hwf e ep (proj1 (find_some _ _ _ Hf)) Fp). lia.
    + inversion Hr as [z|z ? e' Hf' Hr']; subst; [congruence | congruence].
Qed.

Lemma chain_reach l x y p : chain l x y p -> reach l x y.
Proof. induction 1 as [x|x y e p Hne Hf Hc IH]; [constructor | econstructor; eassumption]. Qed.

(* the top of a non-empty chain is stored, and lies above the stored entry of the bottom id *)
Lemma chain_top_stored l x y p : chain l x y p -> p <> [] -> exists e, find x l = Some e /\ In e p.
Proof.
  destruct 1 as [x|x y e p Hne Hf Hc]; intros H; [congruence|].
  exists e. split; [exact Hf | apply in_or_app; right; left; reflexivity].
Qed.

Lemma chain_above_bottom l x y p ey : wf_store l -> chain l x y p -> find y l = Some ey ->
  forall e, In e p -> bnum (eb ey) < bnum (eb e).
Proof.
  intros Hwf Hc Hy. refine (chain_above l y (bnum (eb ey)) Hwf _ x p Hc).
  intros e He Hp. apply (ws_up l Hwf e ey He). rewrite Hp. exact Hy.
Qed.

(* a reference met on the walk from x, from which the LIB id is reached by a non-empty chain, lies on the
   chain of x *)
Lemma reach_chain_split l L L' q : wf_store l -> chain l L' L q -> q <> [] ->
  forall x p, chain l x L p -> reach l x L' ->
  exists B, p = q ++ B /\ chain l x L' B.
Proof.
  intros Hwf Hq Hqne.
  assert (HLL : L' <> L). { intros E. subst L'. inversion Hq; subst; congruence. }
  destruct (chain_top_stored _ _ _ _ Hq Hqne) as (e' & Fe' & Ine').
  intros x p Hc. remember L as L0 eqn:EL in Hc. induction Hc as [x|x y e p Hne Hf Hc IH]; intros Hr; subst.
  - (* x = L: the walk from the LIB id would come back to it *)
    exfalso. inversion Hr as [z|z ? el Fl Hr']; subst; [congruence|].
    pose proof (reach_lt l Hwf L L' Hr (fun E => HLL (eq_sym E)) el e' Fl Fe').
    pose proof (chain_above_bottom l L' L q el Hwf Hq Fl e' Ine'). lia.
  - destruct (N.eq_dec x L') as [E|E].
    + subst x. exists []. rewrite app_nil_r. split; [|constructor].
      eapply chain_det; [econstructor; eassumption | exact Hq].
    + inversion Hr as [z|z ? e0 F0 Hr']; subst; [congruence|].
      rewrite Hf in F0. injection F0 as <-.
      destruct (IH eq_refl Hr') as (B & -> & HB).
      exists (B ++ [e]). split; [rewrite app_assoc; reflexivity|]. econstructor; eassumption.
Qed.

(* a chain down to its own top id is empty *)
Lemma chain_self_nil l x B : chain l x x B -> B = [].
Proof. inversion 1; subst; [reflexivity | congruence]. Qed.

(* ---------- BlockInCurrentChain, no assumption on the numbers ---------- *)

Lemma bic_loop_spec d : num_of d 0 = None -> forall f cur target r,
  bic_loop f d cur target = Some r ->
  ri r = 0 \/
  (reach (store d) cur (ri r) /\
   (r = mkR cur target \/
    (num_of d (ri r) <> None /\ forall e', find (ri r) (store d) = Some e' -> rn r <= bnum (eb e')))).
Proof.
  intros Hz. induction f as [|f IH]; intros cur target r H; [discriminate|].
  cbn [bic_loop] in H.
  destruct (num_of d (link_of d cur)) as [pn|] eqn:Hn.
  2:{ injection H as <-. left. reflexivity. }
  assert (Hprev : link_of d cur <> 0) by (intros E; rewrite E, Hz in Hn; discriminate).
  assert (Hcur : exists e, find cur (store d) = Some e /\ bparent (eb e) = link_of d cur).
  { unfold link_of in *. destruct (find cur (store d)) as [e|]; [eauto | congruence]. }
  destruct Hcur as (e & Fe & Pe).
  assert (Hstep : forall z, reach (store d) (link_of d cur) z -> reach (store d) cur z).
  { intros z Hz'. econstructor; [exact Fe | rewrite Pe; exact Hz']. }
  assert (Hpn : forall e', find (link_of d cur) (store d) = Some e' -> pn = bnum (eb e')).
  { intros e' Fe'. unfold num_of in Hn. rewrite Fe' in Hn. congruence. }
  destruct (N.eqb_spec pn target) as [E|E].
  - injection H as <-. right. cbn [ri rn]. split; [apply Hstep; constructor|].
    right. split; [congruence|]. intros e' Fe'. rewrite (Hpn e' Fe'). lia.
  - destruct (N.ltb_spec pn target) as [Lt|Ge].
    + injection H as <-. right. cbn [ri]. split; [constructor | left; reflexivity].
    + destruct (IH _ _ _ H) as [Z|(Hr & Hnum)]; [left; exact Z|]. right. split; [apply Hstep; exact Hr|].
      right. destruct Hnum as [-> | Hnum]; [|exact Hnum].
      cbn [ri rn]. split; [congruence|]. intros e' Fe'. rewrite <- (Hpn e' Fe'). lia.
Qed.

Lemma bic_spec d start target : wf_store (store d) -> num_of d 0 = None ->
  exists r, block_in_chain d start target = Some r /\
    (ri r = 0 \/
     (reach (store d) (ri start) (ri r) /\
      (ri r = ri start \/
       (num_of d (ri r) <> None /\ forall e', find (ri r) (store d) = Some e' -> rn r <= bnum (eb e'))))).
Proof.
  intros Hwf Hz. unfold block_in_chain. destruct (rn start =? target).
  - exists start. split; [reflexivity|]. right. split; [constructor | left; reflexivity].
  - destruct (bic_total d Hwf Hz (fuel_of d) (ri start) target (enough_fuel_of d (ri start))) as [r Hr].
    exists r. split; [exact Hr|].
    destruct (bic_loop_spec d Hz _ _ _ _ Hr) as [Z|(Hre & Hnum)]; [left; exact Z|]. right. split; [exact Hre|].
    destruct Hnum as [-> | Hnum]; [left; reflexivity | right; exact Hnum].
Qed.

(* BlockInCurrentChain reads the links and the numbers only: it does not see sent flags nor the LIB reference *)
Lemma bic_loop_ext d d' : (forall x, link_of d x = link_of d' x) -> (forall x, num_of d x = num_of d' x) ->
  forall f cur target, bic_loop f d cur target = bic_loop f d' cur target.
Proof.
  intros Hl Hn. induction f as [|f IH]; intros cur target; [reflexivity|].
  cbn [bic_loop]. rewrite <- Hl, <- Hn. destruct (num_of d (link_of d cur)) as [pn|]; [|reflexivity].
  destruct (pn =? target); [reflexivity|]. destruct (pn <? target); [reflexivity|]. apply IH.
Qed.

Lemma bic_ext d d' start target : (forall x, link_of d x = link_of d' x) -> (forall x, num_of d x = num_of d' x) ->
  length (store d) = length (store d') ->
  block_in_chain d start target = block_in_chain d' start target.
Proof.
  intros Hl Hn Hlen. unfold block_in_chain, fuel_of. rewrite Hlen.
  destruct (rn start =? target); [reflexivity|]. apply bic_loop_ext; assumption.
Qed.

(* where the NUMBER of the reference comes from: the stored height of its id, or it exceeds a number the forkdb
   knows (the stored height of the parent met on the walk, or the number of the LIB written by InitLIB), or the
   id is not stored *)
Definition bic_num (d : forkdb) (r : ref) : Prop :=
  (exists e', find (ri r) (store d) = Some e' /\ rn r = bnum (eb e')) \/
  (exists y pn, num_of d y = Some pn /\ pn < rn r) \/
  find (ri r) (store d) = None.

Lemma bic_loop_num d : forall f cur target r,
  bic_loop f d cur target = Some r -> ri r = 0 \/ bic_num d r.
Proof.
  induction f as [|f IH]; intros cur target r H; [discriminate|].
  cbn [bic_loop] in H.
  destruct (num_of d (link_of d cur)) as [pn|] eqn:Hn.
  2:{ injection H as <-. left. reflexivity. }
  destruct (N.eqb_spec pn target) as [E|E].
  - injection H as <-. right. cbn [ri rn]. unfold bic_num. cbn [ri rn].
    destruct (find (link_of d cur) (store d)) as [e'|] eqn:Fe'.
    + left. exists e'. split; [reflexivity|]. unfold num_of in Hn. rewrite Fe' in Hn. congruence.
    + right. right. reflexivity.
  - destruct (N.ltb_spec pn target) as [Lt|Ge].
    + injection H as <-. right. right. left. exists (link_of d cur), pn. cbn [rn]. auto.
    + exact (IH _ _ _ H).
Qed.

Lemma bic_num_spec d start target r : block_in_chain d start target = Some r ->
  r = start \/ ri r = 0 \/ bic_num d r.
Proof.
  unfold block_in_chain. destruct (rn start =? target).
  - intros [= <-]. left. reflexivity.
  - intros H. right. exact (bic_loop_num d _ _ _ _ H).
Qed.

(* a non-failing ReversibleSegment passed the guard on its start number *)
Lemma rs_first_guard f d first cur cn acc res :
  rs_loop f d first cur cn acc = Some (res, true) -> (first <? cn) && (cn <? rn (libref d)) = false.
Proof.
  destruct f as [|f]; [discriminate|]. cbn [rs_loop].
  destruct ((first <? cn) && (cn <? rn (libref d))); [discriminate | reflexivity].
Qed.

(* ---------- ReversibleSegment, no assumption on the numbers ---------- *)

Lemma rs_entries : forall fuel d first cur cn acc res,
  rs_loop fuel d first cur cn acc = Some (res, true) ->
  exists p, chain (store d) cur (ri (libref d)) p /\ map sent res = p ++ map sent acc.
Proof.
  induction fuel as [|f IH]; intros d first cur cn acc res H; [discriminate|].
  cbn [rs_loop] in H.
  destruct ((first <? cn) && (cn <? rn (libref d))); [discriminate|].
  destruct (N.eqb_spec cur (ri (libref d))) as [E|E].
  - injection H as <-. exists []. subst cur. split; [constructor | reflexivity].
  - destruct (find cur (store d)) as [e|] eqn:F.
    + apply IH in H. destruct H as (p & Hc & Hm). exists (p ++ [e]). split; [econstructor; eassumption|].
      rewrite Hm. cbn [map sent]. rewrite <- app_assoc. reflexivity.
    + destruct (has_lib d); discriminate.
Qed.
