(* The lastLongestChain cache (Model/ForkableCache.v): a cache hit returns what ReversibleSegment
   would return.  The cache is coherent with a store when it is the reversible segment of its own tip
   in that store. *)
From BV Require Import Base.Prelude Model.Block Model.ForkDB Model.Forkable Model.ForkableCache
  Proofs.Fk.StoreFacts Proofs.Fk.WalkFacts.
Local Open Scope N_scope.

Definition cache_coherent (d : forkdb) (first : N) (c : list seg) : Prop :=
  match c with
  | [] => True
  | x :: _ => let t := last c x in
              (forall e, find (sid t) (store d) = Some e -> snum t = bnum (eb e)) /\
              reversible_segment d first (seg_ref t) = Some (c, true)
  end.

Lemma last_app_single {A} (l : list A) (a x : A) : last (l ++ [a]) x = a.
Proof. induction l as [|y l IH]; [reflexivity|]. cbn [app last]. destruct (l ++ [a]) eqn:E; [destruct l; discriminate | exact IH]. Qed.

Lemma last_map_seg_of (q : list entry) (e : entry) (x : seg) : last (map seg_of (q ++ [e])) x = seg_of e.
Proof. rewrite map_app. cbn [map]. apply last_app_single. Qed.

(* the recomputation for a block that extends the tip of a coherent cache is the cache plus that block *)
Lemma extend_recompute d first c x b e :
  wf_store (store d) ->
  cache_coherent d first (x :: c) ->
  find (bid b) (store d) = Some e -> eb e = b ->
  bparent b = sid (last (x :: c) x) ->
  bid b <> ri (libref d) ->
  gd d first (bnum b) = false ->
  reversible_segment d first (bref b) = Some ((x :: c) ++ [mkSeg (bid b) (bnum b) e], true).
Proof.
  intros Hwf [Hnum Hrs] Hf He Hpar Hlib Hgd.
  unfold reversible_segment in Hrs. cbn [seg_ref ri rn] in Hrs.
  apply rs_sound in Hrs; [|exact Hnum].
  destruct Hrs as (p & Hc & Hres & Hall & Hstop).
  rewrite app_nil_r in Hres.
  assert (Hp : p <> []) by (intros ->; discriminate).
  destruct (chain_last _ _ _ _ Hc Hp) as (q & et & -> & Hkt).
  assert (Hc' : chain (store d) (bid b) (ri (libref d)) ((q ++ [et]) ++ [e])).
  { econstructor; [exact Hlib | exact Hf |]. rewrite He, Hpar. exact Hc. }
  unfold reversible_segment. cbn [bref ri rn].
  rewrite (rs_complete d first (bid b) ((q ++ [et]) ++ [e]) Hc' (fuel_of d) (bnum b) []).
  - rewrite app_nil_r, map_app. cbn [map]. rewrite <- Hres. do 3 f_equal.
    unfold seg_of, key. rewrite He. reflexivity.
  - pose proof (chain_length _ _ _ _ Hwf Hc') as Hlen. unfold fuel_of. lia.
  - intros e' He'. rewrite Hf in He'. injection He' as <-. rewrite He. reflexivity.
  - apply Forall_app. split; [exact Hall|]. constructor; [|constructor]. rewrite He. exact Hgd.
  - rewrite stop_num_snoc. rewrite stop_num_snoc in Hstop. exact Hstop.
Qed.

(* the guard at the top of ProcessBlock gives the last hypothesis once a block was sent *)
Lemma gd_above_lib d first n : rn (libref d) <= n -> gd d first n = false.
Proof. intros H. unfold gd. destruct (N.ltb_spec n (rn (libref d))); [lia|]. apply andb_false_r. Qed.

Lemma refresh_coherent_id d c :
  (forall s, In s c -> find (sid s) (store d) = Some (sent s)) -> map (refresh d) c = c.
Proof.
  intros H. induction c as [|s c IH]; [reflexivity|]. cbn [map]. f_equal.
  - unfold refresh. rewrite (H s (or_introl eq_refl)). destruct s; reflexivity.
  - apply IH. intros s' Hs'. apply H. right. exact Hs'.
Qed.

Lemma chain_stored l x y p : chain l x y p -> forall e, In e p -> find (key e) l = Some e.
Proof.
  induction 1 as [z|z y e0 p Hne Hf Hc IH]; intros e He; [destruct He|].
  apply in_app_or in He as [He|[<-|[]]].
  - apply IH. exact He.
  - apply find_some in Hf as Hk. destruct Hk as [_ Hk]. rewrite Hk. exact Hf.
Qed.

(* the segments ReversibleSegment returns carry the stored entries: refreshing them changes nothing *)
Lemma coherent_entries d first x c :
  cache_coherent d first (x :: c) -> forall s, In s (x :: c) -> find (sid s) (store d) = Some (sent s).
Proof.
  intros [Hnum Hrs] s Hs. unfold reversible_segment in Hrs. cbn [seg_ref ri rn] in Hrs.
  apply rs_sound in Hrs; [|exact Hnum].
  destruct Hrs as (p & Hc & Hres & _ & _). rewrite app_nil_r in Hres. rewrite Hres in Hs.
  apply in_map_iff in Hs as (e & <- & He). unfold seg_of. cbn [sid sent].
  exact (chain_stored _ _ _ _ Hc e He).
Qed.

(* computeNewLongestChain on a hit = the recomputation *)
Theorem cache_hit_is_recompute d first c b e :
  wf_store (store d) ->
  cache_coherent d first c ->
  find (bid b) (store d) = Some e -> eb e = b ->
  bid b <> ri (libref d) ->
  rn (libref d) <= bnum b ->
  cache_hit d (map (refresh d) c) b = true ->
  match reversible_segment d first (bref b) with
  | Some (l, _) => compute_longest d first c b = Some l
  | None => False
  end.
Proof.
  intros Hwf Hcoh Hf He Hlib Hge Hhit.
  destruct c as [|x c]; [discriminate|].
  pose proof (coherent_entries d first x c Hcoh) as Hent.
  pose proof (refresh_coherent_id d (x :: c) Hent) as Hr.
  unfold compute_longest. rewrite Hhit. rewrite Hr in Hhit |- *.
  unfold cache_hit in Hhit. apply andb_prop in Hhit as [Hpar _]. apply N.eqb_eq in Hpar.
  rewrite (extend_recompute d first c x b e Hwf Hcoh Hf He Hpar Hlib (gd_above_lib d first _ Hge)).
  unfold entry_of. rewrite Hf. reflexivity.
Qed.
