(* C01 on the Forkable model for ARBITRARY LIB declarations (outside the class lib_ok of Spec/Universe.v) and
   an ARBITRARY configured starting LIB with a non-empty id (it need not be coherent with the history):
   exclusive or inclusive starting LIB r0, handler never fails.
   Nothing is known about the NUMBER of the LIB reference of the forkdb (BlockInCurrentChain may return an id
   with a number that is not its height); the invariant therefore speaks about IDs and about ANCESTRY in the
   universe only:
     - the consumer stack is (finalised blocks) ++ (chain of the last block sent down to the LIB id);
     - the parent of a sent entry is stored and sent, or is not a strict descendant of the LIB id (so it can
       never again lie on a chain that rests on the LIB id);
   and the LIB moves are described by the walks of WildWalks.v: the new LIB id lies on the chain of the head,
   and PurgeBeforeLIB keeps the part of that chain above it (the one numeric fact that is needed).
   Result: the Undo/New discipline holds for every well-formed history (step_inv, run_wild); the re-feed clause
   holds as long as the LIB NUMBER does not decrease (it does not hold in general: Properties/C01_Wild.v). *)
From BV Require Import Base.Prelude Model.Block Model.ForkDB Model.Forkable Spec.Consumer Spec.Universe
  Spec.C01_Spec Spec.C01_Moving_Spec Spec.C01_Roots_Spec Spec.C01_Wild_Spec
  Proofs.Fk.StoreFacts Proofs.Fk.WalkFacts Proofs.Fk.LoopFacts Proofs.Fk.StoreChange Proofs.Fk.SwitchFacts
  Proofs.Fk.FixedLib Proofs.Fk.RootsBase Proofs.Fk.MovingLibStore Proofs.Fk.MovingLibWalk Proofs.Fk.MovingLibLoops
  Proofs.Fk.MovingLibInv Proofs.Fk.WildWalks.
Local Open Scope N_scope.

Section WildLib.
  Variable U : list block.
  Variable r0 : ref.
  Variable cfg : config.

  Hypothesis Hnofail : c_fail_at cfg = None.
  Hypothesis Hnew : f_new (c_filter cfg) = true.
  Hypothesis Hundo : f_undo (c_filter cfg) = true.

  Hypothesis U_id : forall b, In b U -> bid b <> 0 /\ bid b <> bparent b.
  Hypothesis U_uniq : forall x y, In x U -> In y U -> bid x = bid y -> x = y.
  Hypothesis U_up : forall x y, In x U -> In y U -> bparent x = bid y -> bnum y < bnum x.
  Hypothesis L_id : ri r0 <> 0.

  Notation first := (c_first cfg).
  Notation in_U := (in_U U).

  (* ---------------------------------------------------------------- ancestry in the universe *)

  (* `anc x y`: the block with id x is a strict descendant of the id y (y need not be the id of a block) *)
  Inductive anc : N -> N -> Prop :=
  | anc_one b : In b U -> anc (bid b) (bparent b)
  | anc_step b y : In b U -> anc (bparent b) y -> anc (bid b) y.

  Lemma anc_block x y : anc x y -> exists b, In b U /\ bid b = x.
  Proof. destruct 1 as [b Hb|b y Hb _]; eauto. Qed.

  Lemma anc_trans x y z : anc x y -> anc y z -> anc x z.
  Proof.
    induction 1 as [b Hb|b y Hb Ha IH]; intros H.
    - apply anc_step; assumption.
    - apply anc_step; [exact Hb | apply IH; exact H].
  Qed.

  Lemma anc_lt x y : anc x y -> forall bx by', In bx U -> bid bx = x -> In by' U -> bid by' = y -> bnum by' < bnum bx.
  Proof.
    induction 1 as [b Hb|b y Hb Ha IH]; intros bx by' Hx Ex Hy Ey.
    - rewrite (U_uniq bx b Hx Hb Ex). apply U_up; [exact Hb | exact Hy | symmetry; exact Ey].
    - rewrite (U_uniq bx b Hx Hb Ex).
      destruct (anc_block _ _ Ha) as (bp & Hp & Ep).
      pose proof (IH bp by' Hp Ep Hy Ey). pose proof (U_up b bp Hb Hp (eq_sym Ep)). lia.
  Qed.

  Lemma anc_irrefl x : ~ anc x x.
  Proof.
    intros H. destruct (anc_block _ _ H) as (b & Hb & Eb).
    pose proof (anc_lt x x H b b Hb Eb Hb Eb). lia.
  Qed.

  (* a stored chain is a piece of ancestry *)
  Lemma chain_anc l x y p : in_U l -> chain l x y p -> forall e, In e p -> anc (key e) y.
  Proof.
    intros HU Hc. induction Hc as [x|x y e p Hne Hf Hc IH]; intros a Ha; [destruct Ha|].
    apply in_app_or in Ha as [Ha|[<-|[]]]; [apply IH; exact Ha|].
    pose proof (find_some _ _ _ Hf) as [Hin Hk].
    destruct p as [|e' p'] using rev_ind.
    - apply chain_nil_inv in Hc. rewrite <- Hc. apply anc_one. apply HU. exact Hin.
    - clear IHp'. destruct (chain_top _ _ _ _ _ Hc) as [_ Hk'].
      apply anc_step; [apply HU; exact Hin|]. rewrite <- Hk'. apply IH. apply in_or_app. right. left. reflexivity.
  Qed.

  Lemma chain_anc_top l x y p : in_U l -> chain l x y p -> p <> [] -> anc x y.
  Proof.
    intros HU Hc Hne. destruct p as [|e p' _] using rev_ind; [congruence|].
    destruct (chain_top _ _ _ _ _ Hc) as [_ Hk]. rewrite <- Hk.
    apply (chain_anc l x y _ HU Hc). apply in_or_app. right. left. reflexivity.
  Qed.

  (* in a chain A ++ a :: B every entry of B is a strict descendant of a *)
  Lemma chain_anc_above l x y A a B : in_U l -> wf_store l -> chain l x y (A ++ a :: B) ->
    forall e, In e B -> anc (key e) (key a).
  Proof.
    intros HU Hwf Hc e He. pose proof (chain_suffix l y B x A a Hwf Hc) as Hs.
    exact (chain_anc l x (key a) B HU Hs e He).
  Qed.

  (* ---------------------------------------------------------------- the forkdb *)

  (* sent flags: the parent of a sent entry is stored and sent, or is not a strict descendant of the LIB id *)
  Definition lc (d : forkdb) : Prop :=
    forall e, In e (store d) -> esent e = true ->
      (exists p, find (bparent (eb e)) (store d) = Some p /\ esent p = true) \/
      ~ anc (bparent (eb e)) (ri (libref d)).

  Record DbInv (d : forkdb) : Prop := mkDbInv {
    di_nodup : NoDup (keys (store d));
    di_inU : in_U (store d);
    di_lid : ri (libref d) <> 0;
    di_extra : extra d = None \/ extra d = Some (libref d);
    di_lc : lc d;
    di_root : forall e, In e (store d) -> bparent (eb e) = 0 -> esent e = false
  }.

  Lemma di_wf d : DbInv d -> wf_store (store d).
  Proof. intros H. apply (wf_of_U U U_id U_up); [apply (di_nodup d H) | apply (di_inU d H)]. Qed.

  Lemma di_has_lib d : DbInv d -> has_lib d = true.
  Proof. intros H. apply has_lib_true. apply (di_lid d H). Qed.

  Lemma di_num0 d : DbInv d -> num_of d 0 = None.
  Proof.
    intros H. unfold num_of. rewrite (find_zero_wf _ (di_wf d H)).
    destruct (di_extra d H) as [-> | ->]; [reflexivity|].
    destruct (N.eqb_spec (ri (libref d)) 0) as [E|E]; [exfalso; exact (di_lid d H E) | reflexivity].
  Qed.

  Lemma eb_key e : In e (store (mkDB [e] None r0)) -> bid (eb e) = key e.
  Proof. reflexivity. Qed.

  (* the whole path from a sent entry down to the LIB id is stored and sent *)
  Lemma sent_path d : DbInv d -> forall x y, anc x y ->
    forall e, In e (store d) -> key e = x -> esent e = true ->
    (y = ri (libref d) \/ anc y (ri (libref d))) ->
    y = ri (libref d) \/ exists p, find y (store d) = Some p /\ esent p = true.
  Proof.
    intros Hd x y Ha. induction Ha as [b Hb|b y Hb Ha IH]; intros e He Hk Hs Hy.
    - assert (Eb : eb e = b) by (apply U_uniq; [apply (di_inU d Hd); exact He | exact Hb | exact Hk]).
      destruct (di_lc d Hd e He Hs) as [(p & Hp & Hps)|Hn].
      + right. exists p. rewrite <- Eb. auto.
      + rewrite Eb in Hn. destruct Hy as [Hy|Hy]; [left; exact Hy | contradiction].
    - assert (Eb : eb e = b) by (apply U_uniq; [apply (di_inU d Hd); exact He | exact Hb | exact Hk]).
      assert (HaL : anc (bparent b) (ri (libref d))).
      { destruct Hy as [<-|Hy]; [exact Ha | eapply anc_trans; eassumption]. }
      destruct (di_lc d Hd e He Hs) as [(p & Hp & Hps)|Hn]; [|rewrite Eb in Hn; contradiction].
      rewrite Eb in Hp. pose proof (find_some _ _ _ Hp) as [Hpin Hpk].
      exact (IH p Hpin Hpk Hps Hy).
  Qed.

  (* no sent entry is a strict descendant of x *)
  Definition nsd (d : forkdb) (x : N) : Prop :=
    forall e, In e (store d) -> esent e = true -> ~ anc (key e) x.

  Lemma nsd_unstored d x : DbInv d -> find x (store d) = None -> anc x (ri (libref d)) -> nsd d x.
  Proof.
    intros Hd Hf Hx e He Hs Ha.
    destruct (sent_path d Hd _ _ Ha e He eq_refl Hs (or_intror Hx)) as [E|(p & Hp & _)].
    - rewrite E in Hx. exact (anc_irrefl _ Hx).
    - congruence.
  Qed.

  (* ---------------------------------------------------------------- the invariant *)

  Record Inv (s : fstate) (Fin : list block) (S : cstack) : Prop := mkInv {
    i_db : DbInv (db s);
    i_fin_last : match rev Fin with t :: _ => bid t = ri (libref (db s)) | [] => ri (libref (db s)) = ri r0 end;
    i_head : match last_sent s with
             | None => S = [] /\ Fin = [] /\ (forall e, In e (store (db s)) -> esent e = false) /\
                       (c_incl cfg = true -> find (ri r0) (store (db s)) = None) /\
                       (* the LIB that the first delivered event will carry *)
                       ri (cursor_lib s) = ri r0
             | Some hd => In hd U /\
                 exists p, chain (store (db s)) (bid hd) (ri (libref (db s))) p /\
                           S = rev (Fin ++ map eb p) /\ Forall (fun e => esent e = true) p
             end
  }.

  Definition rooted (m : libmode) : Prop := m = LExcl r0 \/ m = LIncl r0.

  Lemma inv_init m : rooted m -> Inv (fs_init m) [] [].
  Proof.
    intros [-> | ->]; (constructor; cbn;
     [ constructor; cbn;
       [ constructor | intros e [] | exact L_id | right; reflexivity | intros e [] | intros e [] ]
     | reflexivity
     | split; [reflexivity|]; split; [reflexivity|]; split; [intros e []|]; split; [reflexivity|];
       unfold cursor_lib; cbn; destruct (is_empty r0); reflexivity ]).
  Qed.

  Definition tipid (Fin : list block) : N := match rev Fin with t :: _ => bid t | [] => ri r0 end.

  Lemma inv_tipid s Fin S : Inv s Fin S -> tipid Fin = ri (libref (db s)).
  Proof.
    intros HI. pose proof (i_fin_last _ _ _ HI) as Hlast. unfold tipid.
    destruct (rev Fin) as [|t r]; [rewrite Hlast; reflexivity | exact Hlast].
  Qed.

  Lemma inv_linked s Fin S x p : Inv s Fin S -> chain (store (db s)) x (ri (libref (db s))) p ->
    linked (tipid Fin) (map eb p).
  Proof.
    intros HI Hc. rewrite (inv_tipid _ _ _ HI). destruct (chain_linked _ _ _ _ Hc) as [Hl _]. exact Hl.
  Qed.

  Notation incl_first := (incl_first cfg).
  Notation sw_of := (sw_of cfg).
  Notation lib_tail := (lib_tail cfg).

  (* ---------------------------------------------------------------- ProcessBlock on a new block *)

  Lemma fk_step_new' s b undos redos junc :
    DbInv (db s) -> In b U -> find (bid b) (store (db s)) = None -> dropped s b = false ->
    incl_first s b = false ->
    sw_of s b = ScssOk undos redos junc ->
    fk_step cfg s b =
      let s1 := with_db s (new_db (db s) b) in
      match reversible_segment (new_db (db s) b) first (bref b) with
      | None => (s1, [], RFuel)
      | Some (longest, _) =>
          if negb (triggers cfg s b) || (match longest with [] => true | _ => false end) then (s1, [], ROk)
          else process_tail cfg s1 b undos redos junc longest None
      end.
  Proof.
    intros Hd Hb Hf Hdr Hni Hsw. destruct (U_id b Hb) as (H1 & H3).
    unfold fk_step. destruct (N.eqb_spec (bid b) (bparent b)); [contradiction|].
    unfold dropped in Hdr. unfold MovingLibInv.incl_first in Hni. rewrite Hdr, Hni.
    unfold FixedLib.sw_of in Hsw. rewrite Hsw.
    rewrite (add_link_new U U_id _ _ Hb Hf).
    assert (Hhl : has_lib (new_db (db s) b) = true).
    { apply has_lib_true. cbn [new_db libref]. apply (di_lid _ Hd). }
    rewrite Hhl. cbn [with_db db].
    destruct (reversible_segment (new_db (db s) b) first (bref b)) as [[longest reach]|]; reflexivity.
  Qed.

  (* ---------------------------------------------------------------- storing a new block *)

  Lemma dbinv_add d b : DbInv d -> In b U -> find (bid b) (store d) = None -> DbInv (new_db d b).
  Proof.
    intros [Hnd HU Hlid Hex Hlc Hrt] Hb Hf.
    assert (Hk : ~ In (bid b) (keys (store d))) by (apply find_none; exact Hf).
    constructor; cbn [new_db store extra libref].
    - rewrite keys_snoc. apply nodup_snoc; [exact Hnd | exact Hk].
    - intros e He. apply in_app_or in He as [He|[<-|[]]]; [apply HU; exact He | exact Hb].
    - exact Hlid.
    - exact Hex.
    - intros e He Hs. apply in_app_or in He as [He|[<-|[]]]; [|discriminate].
      destruct (Hlc e He Hs) as [(p & Hp & Hps)|H]; [left | right; exact H].
      exists p. split; [apply find_snoc_old; exact Hp | exact Hps].
    - intros e He Hp. apply in_app_or in He as [He|[<-|[]]]; [apply Hrt; assumption | reflexivity].
  Qed.

  Lemma inv_add s Fin S b : Inv s Fin S -> In b U -> find (bid b) (store (db s)) = None ->
    incl_first s b = false ->
    Inv (with_db s (new_db (db s) b)) Fin S.
  Proof.
    intros [Hd Hflast Hh] Hb Hf Hni.
    constructor; cbn [with_db db new_db store extra libref last_sent]; try assumption.
    - apply (dbinv_add _ _ Hd Hb Hf).
    - unfold MovingLibInv.incl_first in Hni. destruct (last_sent s) as [hd|].
      + destruct Hh as (HhU & p & Hc & HS & Hs). split; [exact HhU|].
        exists p. repeat split; try assumption. apply chain_ext. exact Hc.
      + destruct Hh as (-> & -> & Hall & Hroot & Hcur). cbn [rev] in Hflast. split; [reflexivity|]. split; [reflexivity|]. split; [|split].
        * intros e He. apply in_app_or in He as [He|[<-|[]]]; [apply Hall; exact He | reflexivity].
        * intros Hi. rewrite find_app, (Hroot Hi). cbn [find eb].
          rewrite Hi, Hflast in Hni. cbn [andb] in Hni. rewrite Hni. reflexivity.
        * exact Hcur.
  Qed.

  (* below the LIB id the undo chain never meets an entry of a chain that rests on the LIB id *)
  Lemma tail_disjoint' d pP x : DbInv d -> chain (store d) x (ri (libref d)) pP ->
    forall f t e, undo_chain f d (ri (libref d)) = Some (ri (libref d) :: t) -> In e pP -> ~ In (key e) t.
  Proof.
    intros Hd Hc f t e Hu He Hin. pose proof (di_wf _ Hd) as Hwf.
    assert (Hes : In e (store d)) by (eapply chain_in; eassumption).
    pose proof (find_in_nodup _ _ (di_nodup _ Hd) Hes) as Hfe.
    destruct (find (ri (libref d)) (store d)) as [el|] eqn:Fl.
    - pose proof (undo_chain_nums d Hwf f _ t el Hu Fl (key e) e Hin Hfe) as Hlt.
      pose proof (chain_above_bottom _ _ _ _ el Hwf Hc Fl e He). lia.
    - destruct f as [|f]; [discriminate|]. cbn [undo_chain] in Hu. unfold link_of in Hu. rewrite Fl in Hu.
      cbn in Hu. injection Hu as <-. destruct Hin.
  Qed.

  (* along a chain that rests on the LIB id, sent flags are downward closed *)
  Lemma sent_prefix' d x C R : DbInv d -> chain (store d) x (ri (libref d)) (C ++ R) ->
    Forall (fun e => esent e = true) C ->
    exists Rs Ru, R = Rs ++ Ru /\ Forall (fun e => esent e = true) Rs /\ Forall (fun e => esent e = false) Ru.
  Proof.
    intros Hd. revert x. induction R as [|e R IH] using rev_ind; intros x Hc HC.
    - exists [], []. repeat split; constructor.
    - rewrite app_assoc in Hc. destruct (chain_snoc_inv _ _ _ _ _ Hc) as (Hne & Hf & Hc').
      destruct (IH _ Hc' HC) as (Rs & Ru & -> & Hs & Hu).
      destruct (esent e) eqn:Es.
      + destruct Ru as [|u Ru].
        * exists (Rs ++ [e]), []. split; [rewrite !app_nil_r; reflexivity|]. split; [|constructor].
          apply Forall_app. split; [exact Hs | constructor; [exact Es | constructor]].
        * exfalso.
          assert (Hlast : exists pre pe, C ++ Rs ++ u :: Ru = pre ++ [pe] /\ esent pe = false).
          { destruct (exists_last (l := u :: Ru)) as (pre & pe & Hpe); [discriminate|].
            exists (C ++ Rs ++ pre), pe. rewrite Hpe, !app_assoc. split; [reflexivity|].
            assert (In pe (u :: Ru)) by (rewrite Hpe; apply in_or_app; right; left; reflexivity).
            rewrite Forall_forall in Hu. apply Hu. assumption. }
          destruct Hlast as (pre & pe & Heq & Hpe). rewrite Heq in Hc'.
          destruct (chain_top _ _ _ _ _ Hc') as [Hf' Hk'].
          pose proof (find_some _ _ _ Hf) as [Hin _].
          destruct (di_lc _ Hd e Hin Es) as [(p & Hp & Hps)|Hlow].
          -- rewrite Hf' in Hp. injection Hp as <-. congruence.
          -- apply Hlow. apply (chain_anc_top _ _ _ _ (di_inU _ Hd) Hc'). destruct pre; discriminate.
      + exists Rs, (Ru ++ [e]). split; [rewrite app_assoc; reflexivity|]. split; [exact Hs|].
        apply Forall_app. split; [exact Hu | constructor; [exact Es | constructor]].
  Qed.

  (* marking the unsent blocks of a chain that rests on the LIB id keeps the forkdb invariant *)
  Lemma dbinv_marked d d3 x q : DbInv d -> chain (store d) x (ri (libref d)) q ->
    store d3 = mark_all (store d) (unsent (map seg_of q)) -> extra d3 = extra d -> libref d3 = libref d ->
    DbInv d3.
  Proof.
    intros Hd Hc Hst Hex Hlib. pose proof Hd as [Hnd HU Hlid Hextra Hlc Hrt].
    assert (Hq : forall e, In e q -> In e (store d)) by (intros e He; eapply chain_in; eassumption).
    set (g := flag_if (map sid (unsent (map seg_of q)))) in *.
    constructor; rewrite ?Hst, ?Hex, ?Hlib.
    - apply l3_nodup. exact Hnd.
    - apply l3_inU; assumption.
    - exact Hlid.
    - exact Hextra.
    - intros e3 He3 Hs3. rewrite Hst in He3. rewrite Hst, Hlib.
      destruct (in_mark_all _ _ _ Hnd He3) as (e0 & He0 & ->). fold g in Hs3 |- *.
      assert (Eg : forall a, eb (g a) = eb a) by (intros a; apply flag_if_eb). rewrite Eg.
      destruct (esent e0) eqn:Es0.
      + destruct (Hlc e0 He0 Es0) as [(p & Hp & Hps)|H]; [left | right; exact H].
        exists (g p). split; [rewrite l3_find, Hp; reflexivity | apply g_keeps_sent; exact Hps].
      + pose proof (flagged_in_q _ q Hnd Hq e0 He0 Es0 Hs3) as Hin.
        apply in_split in Hin as (q1 & q2 & Heq). rewrite Heq in Hc.
        pose proof (chain_prefix _ _ _ _ _ _ Hc) as Hpre.
        destruct (chain_snoc_inv _ _ _ _ _ Hpre) as (_ & _ & Hc1).
        destruct q1 as [|pe q1'] using rev_ind.
        * right. apply chain_nil_inv in Hc1. rewrite Hc1. apply anc_irrefl.
        * clear IHq1'. destruct (chain_top _ _ _ _ _ Hc1) as [Hfp _].
          left. exists (g pe). split; [rewrite l3_find, Hfp; reflexivity|].
          apply g_sent_q. rewrite Heq. apply in_or_app. left. apply in_or_app. right. left. reflexivity.
    - intros e3 He3 Hp3.
      destruct (in_mark_all _ _ _ Hnd He3) as (e0 & He0 & ->). fold g in Hp3 |- *.
      assert (Eg : forall a, eb (g a) = eb a) by (intros a; apply flag_if_eb). rewrite Eg in Hp3.
      pose proof (Hrt e0 He0 Hp3) as Hs0.
      destruct (esent (g e0)) eqn:Hs3; [|reflexivity]. exfalso.
      pose proof (flagged_in_q _ q Hnd Hq e0 He0 Hs0 Hs3) as Hin.
      exact (chain_parent_nz _ _ _ _ (di_wf _ Hd) (di_lid _ Hd) Hc e0 Hin Hp3).
  Qed.

  (* ---------------------------------------------------------------- the triggering step, first half *)

  Lemma trigger_first s1 Fin S b pP C R Uh junc fi :
    Inv s1 Fin S -> In b U ->
    chain (store (db s1)) (bid b) (ri (libref (db s1))) (pP ++ [mkEntry b false]) ->
    pP = C ++ R ->
    Forall (fun e => esent e = true) C ->
    S = rev (Fin ++ map eb (C ++ Uh)) ->
    nsd (db s1) (bid b) ->
    exists s3 evU evRN,
      process_tail cfg s1 b (rev Uh) (filter esent R) junc (map seg_of (pP ++ [mkEntry b false])) fi
        = lib_tail s3 b (evU ++ evRN) fi /\
      apply_all (ri r0) S (evU ++ evRN) = Some (rev (Fin ++ map eb (pP ++ [mkEntry b false]))) /\
      Inv s3 Fin (rev (Fin ++ map eb (pP ++ [mkEntry b false]))) /\
      keys (store (db s3)) = keys (store (db s1)) /\ last_sent s3 = Some b /\
      libref (db s3) = libref (db s1) /\ nsd (db s3) (bid b) /\
      Forall (fun e => elib e = cursor_lib s1) (evU ++ evRN) /\ evU ++ evRN <> [] /\
      store (db s3) = mark_all (store (db s1)) (unsent (map seg_of (pP ++ [mkEntry b false]))) /\
      extra (db s3) = extra (db s1).
  Proof.
    intros HI Hb Hc HP HC HS Hnsd.
    pose proof HI as [Hd Hflast Hh]. pose proof Hd as [Hnd HU Hlid Hextra Hlc Hrt].
    set (en := mkEntry b false) in *. set (q := pP ++ [en]) in *.
    assert (Hq : forall e, In e q -> In e (store (db s1))) by (intros e He; eapply chain_in; eassumption).
    assert (HcP : chain (store (db s1)) (bparent b) (ri (libref (db s1))) pP).
    { destruct (chain_snoc_inv _ _ _ _ _ Hc) as (_ & _ & H). exact H. }
    rewrite HP in HcP.
    destruct (sent_prefix' _ _ C R Hd HcP HC) as (Rs & Ru & HR & HRs & HRu).
    destruct (filter_sent_split Rs Ru HRs HRu) as [F1 F2].
    assert (Hun : filter (fun e => negb (esent e)) q = Ru ++ [en]).
    { unfold q. rewrite HP, HR, !filter_app, (filter_unsent_nil C HC), <- filter_app, F2. reflexivity. }
    destruct (process_tail_first cfg Hnofail Hnew Hundo s1 b (rev Uh) (filter esent R) junc (map seg_of q) fi) as
      (s3 & evU & evR & evN & Hrun & HmU & HsU & HmR & HsR & HmN & HsN & Hst & Hex & Hlr & Hls & Hcl).
    { unfold q. destruct pP; discriminate. }
    exists s3, evU, (evR ++ evN). split; [exact Hrun|].
    pose proof (dbinv_marked (db s1) (db s3) (bid b) q Hd Hc Hst Hex Hlr) as Hd3.
    assert (Hls' : last_sent s3 = Some b).
    { rewrite Hls, unsent_map, Hun, map_app, rev_app_distr. reflexivity. }
    assert (Hkeys : keys (store (db s3)) = keys (store (db s1))) by (rewrite Hst; apply mark_all_keys).
    pose proof (inv_linked s1 Fin S _ _ HI Hc) as Hlk. fold q in Hlk.
    assert (HmRN0 : map eblk (evR ++ evN) = map eb (R ++ [en])).
    { rewrite map_app, HmR, HmN, unsent_map, map_map. cbn [sent seg_of].
      change (fun x : entry => eb x) with eb. rewrite Hun, HR, F1, <- map_app, app_assoc. reflexivity. }
    split; [|split; [|split; [|split; [|split; [|split; [|split; [|split; [|split]]]]]]]]; try assumption.
    - (* the consumer *)
      rewrite HS, map_app, app_assoc, rev_app_distr.
      rewrite (apply_all_app _ _ evU _ (rev (Fin ++ map eb C))).
      2:{ apply apply_undos; [exact HsU | rewrite HmU, map_rev; reflexivity]. }
      assert (HmRN : map eblk (evR ++ evN) = map eb (R ++ [en])).
      { rewrite map_app, HmR, HmN, unsent_map, map_map. cbn [sent seg_of].
        change (fun x : entry => eb x) with eb. rewrite Hun, HR, F1, <- map_app, app_assoc. reflexivity. }
      assert (Hq2 : Fin ++ map eb q = (Fin ++ map eb C) ++ map eb (R ++ [en])).
      { unfold q. rewrite HP, <- (app_assoc C R), (map_app eb C), app_assoc. reflexivity. }
      rewrite (apply_news (ri r0) (evR ++ evN) (map eb (R ++ [en])) (rev (Fin ++ map eb C))).
      + f_equal. rewrite Hq2. symmetry. apply rev_app_distr.
      + apply Forall_app. split; assumption.
      + exact HmRN.
      + assert (Hq3 : map eb q = map eb C ++ map eb (R ++ [en])).
        { unfold q. rewrite HP, <- (app_assoc C R), (map_app eb C). reflexivity. }
        rewrite Hq3 in Hlk. apply linked_split in Hlk as [_ Hlk]. rewrite rev_app_distr. unfold tipid in Hlk.
        destruct (rev (map eb C)) as [|t r]; cbn [app]; [destruct (rev Fin); exact Hlk | exact Hlk].
    - (* the invariant *)
      set (g := flag_if (map sid (unsent (map seg_of q)))).
      pose proof (l3_chain _ q _ _ _ Hc) as Hc3. fold g in Hc3.
      constructor.
      + exact Hd3.
      + rewrite Hlr. exact Hflast.
      + rewrite Hls'. split; [exact Hb|]. exists (map g q). rewrite Hst, Hlr. split; [exact Hc3|]. split.
        * do 2 f_equal. rewrite map_map. apply map_ext. intros a. symmetry. apply flag_if_eb.
        * apply Forall_forall. intros a Ha. apply in_map_iff in Ha as (a0 & <- & Ha0).
          apply (g_sent_q q a0 Ha0).
    - (* no sent entry is a strict descendant of b *)
      intros e3 He3 Hs3 Ha. rewrite Hst in He3.
      destruct (in_mark_all _ _ _ Hnd He3) as (e0 & He0 & ->).
      set (g := flag_if (map sid (unsent (map seg_of q)))) in *.
      assert (Ek : key (g e0) = key e0) by (unfold key, g; rewrite flag_if_eb; reflexivity). rewrite Ek in Ha.
      destruct (esent e0) eqn:Es0; [exact (Hnsd e0 He0 Es0 Ha)|].
      pose proof (flagged_in_q _ q Hnd Hq e0 He0 Es0 Hs3) as Hin.
      (* e0 lies on the chain of b: b is a descendant-or-self of e0 *)
      unfold q in Hin. apply in_app_or in Hin as [Hin|[<-|[]]].
      + apply in_split in Hin as (A & B & HeqP).
        assert (Hab : anc (bid b) (key e0)).
        { unfold q in Hc. rewrite HeqP, <- app_assoc in Hc. cbn [app] in Hc.
          apply (chain_anc_above _ _ _ A e0 (B ++ [en]) HU (di_wf _ Hd) Hc en).
          apply in_or_app. right. left. reflexivity. }
        exact (anc_irrefl _ (anc_trans _ _ _ Hab Ha)).
      + exact (anc_irrefl _ Ha).
    - intros E. apply app_eq_nil in E as [_ E]. rewrite E in HmRN0. cbn [map] in HmRN0.
      rewrite map_app in HmRN0. destruct (map eb R); discriminate.
  Qed.

  (* ---------------------------------------------------------------- the triggering step, second half: the LIB *)

  Definition quiet (e : event) : Prop := estep e = SIrr \/ estep e = SStalled.

  (* the LIB reference is the configured one, or its id is the id of a block of the universe *)
  Definition LibU (s : fstate) : Prop :=
    libref (db s) = r0 \/ exists bl, In bl U /\ bid bl = ri (libref (db s)).

  (* a weak coherence of the configured LIB: its id is the id of a block of the universe, or its children
     are higher than its number *)
  Definition coh0 : Prop :=
    (exists bl, In bl U /\ bid bl = ri r0) \/ (forall x, In x U -> bparent x = ri r0 -> rn r0 < bnum x).

  Definition LibHalf (s3 : fstate) (Fin : list block) (S3 : cstack) (b : block) (evs : list event)
             (res : fstate * list event * result) : Prop :=
    exists s' evQ Fnew,
      res = (s', evs ++ evQ, ROk) /\
      Inv s' (Fin ++ Fnew) S3 /\
      last_sent s' = Some b /\
      Forall quiet evQ /\
      (forall x, In x U -> In (bid x) (keys (store (db s3))) ->
                 In (bid x) (keys (store (db s'))) \/ bnum x < rn (libref (db s'))) /\
      (forall k, In k (keys (store (db s'))) -> In k (keys (store (db s3)))) /\
      (* when every block lies above the first streamable block the LIB number does not decrease *)
      ((forall x, In x U -> first < bnum x) -> rn (libref (db s3)) <= rn (libref (db s'))) /\
      (* the same when no block lies UNDER the first streamable block and the configured LIB is weakly coherent *)
      (LibU s3 -> LibU s' /\
         ((forall x, In x U -> first <= bnum x) -> coh0 -> rn (libref (db s3)) <= rn (libref (db s')))).

  Lemma lib_half_stay s3 Fin S3 b evs : Inv s3 Fin S3 -> last_sent s3 = Some b ->
    LibHalf s3 Fin S3 b evs (s3, evs, ROk).
  Proof.
    intros HI Hls. exists s3, [], []. rewrite !app_nil_r. split; [reflexivity|].
    split; [exact HI|]. split; [exact Hls|]. split; [constructor|]. split; [auto|]. split; [auto|].
    split; [intros _; lia|]. intros HL. split; [exact HL|]. intros _ _. lia.
  Qed.

  Lemma dbinv_purge d libr kept q x B :
    DbInv d -> ri libr <> 0 -> chain (store d) (ri libr) (ri (libref d)) q -> q <> [] ->
    chain (store d) x (ri (libref d)) (q ++ B) ->
    (* the part of the chain above the new LIB id survives the purge *)
    (forall e, In e B -> rn libr - kept <= bnum (eb e)) ->
    (* a purged entry that has a sent child is not a strict descendant of the new LIB id *)
    (forall p, In p (store d) -> esent p = true -> bnum (eb p) < rn libr - kept -> ~ anc (key p) (ri libr)) ->
    let d' := purge_before_lib (move_lib d libr) kept in
    DbInv d' /\ libref d' = libr /\
    store d' = filter (fun e => rn libr - kept <=? bnum (eb e)) (store d) /\
    chain (store d') x (ri libr) B.
  Proof.
    intros Hd Hl0 Hq Hqne Hc HB Hpur. pose proof Hd as [Hnd HU Hlid Hextra Hlc Hrt]. pose proof (di_wf _ Hd) as Hwf.
    unfold purge_before_lib, move_lib. cbn [libref store rn extra].
    set (f := fun e : entry => rn libr - kept <=? bnum (eb e)).
    destruct q as [|a A _] using rev_ind; [congruence|].
    destruct (chain_top _ _ _ _ _ Hq) as [Hfa Hka].
    assert (HaL : anc (ri libr) (ri (libref d))) by (apply (chain_anc_top _ _ _ _ HU Hq); destruct A; discriminate).
    split; [|split; [reflexivity|split; [reflexivity|]]].
    - constructor; cbn [libref store rn ri extra].
      + apply nodup_filter_keys. exact Hnd.
      + intros e He. apply filter_In in He as [He _]. apply HU. exact He.
      + exact Hl0.
      + left. reflexivity.
      + intros e He Hs. cbn [store libref] in *. apply filter_In in He as [He Hfe].
        destruct (Hlc e He Hs) as [(p & Hp & Hps)|Hlow].
        * destruct (f p) eqn:Fp.
          -- left. exists p. split; [apply find_filter_keep; assumption | exact Hps].
          -- right. pose proof (find_some _ _ _ Hp) as [Hpin Hpk]. rewrite <- Hpk.
             apply (Hpur p Hpin Hps). unfold f in Fp. apply N.leb_gt in Fp. exact Fp.
        * right. intros Ha. apply Hlow. eapply anc_trans; eassumption.
      + intros e He Hp. cbn [store] in He. apply filter_In in He as [He _]. apply Hrt; assumption.
    - rewrite <- app_assoc in Hc. cbn [app] in Hc. rewrite <- Hka.
      apply chain_filter; [exact Hnd | eapply chain_suffix; eassumption|].
      intros e He. unfold f. apply N.leb_le. apply HB. exact He.
  Qed.

  (* MoveLIB + PurgeBeforeLIB, the forkdb invariant alone: the new LIB id is the old one or a strict descendant *)
  Lemma dbinv_purge_gen d libr kept :
    DbInv d -> ri libr <> 0 ->
    (ri libr = ri (libref d) \/ anc (ri libr) (ri (libref d))) ->
    (forall p, In p (store d) -> esent p = true -> bnum (eb p) < rn libr - kept -> ~ anc (key p) (ri libr)) ->
    let d' := purge_before_lib (move_lib d libr) kept in
    DbInv d' /\ libref d' = libr /\
    store d' = filter (fun e => rn libr - kept <=? bnum (eb e)) (store d).
  Proof.
    intros Hd Hl0 HaL Hpur. pose proof Hd as [Hnd HU Hlid Hextra Hlc Hrt].
    unfold purge_before_lib, move_lib. cbn [libref store rn extra].
    set (f := fun e : entry => rn libr - kept <=? bnum (eb e)).
    split; [|split; reflexivity].
    constructor; cbn [libref store rn ri extra].
    - apply nodup_filter_keys. exact Hnd.
    - intros e He. apply filter_In in He as [He _]. apply HU. exact He.
    - exact Hl0.
    - left. reflexivity.
    - intros e He Hs. cbn [store libref] in *. apply filter_In in He as [He Hfe].
      destruct (Hlc e He Hs) as [(p & Hp & Hps)|Hlow].
      + destruct (f p) eqn:Fp.
        * left. exists p. split; [apply find_filter_keep; assumption | exact Hps].
        * right. pose proof (find_some _ _ _ Hp) as [Hpin Hpk]. rewrite <- Hpk.
          apply (Hpur p Hpin Hps). unfold f in Fp. apply N.leb_gt in Fp. exact Fp.
      + right. intros Ha. apply Hlow. destruct HaL as [<-|HaL]; [exact Ha | eapply anc_trans; eassumption].
    - intros e He Hp. cbn [store] in He. apply filter_In in He as [He _]. apply Hrt; assumption.
  Qed.

  Lemma lib_half s3 Fin S3 b evs :
    Inv s3 Fin S3 -> last_sent s3 = Some b -> In b U -> bid b <> ri (libref (db s3)) ->
    nsd (db s3) (bid b) ->
    LibHalf s3 Fin S3 b evs (lib_tail s3 b evs None).
  Proof.
    intros HI Hls Hb Hne Hnsd.
    pose proof HI as [Hd Hflast Hh]. rewrite Hls in Hh. destruct Hh as (_ & p & Hc & HS & Hsent).
    pose proof Hd as [Hnd HU Hlid Hextra Hlc Hrt].
    pose proof (di_wf _ Hd) as Hwf.
    unfold MovingLibInv.lib_tail. cbv beta iota zeta. rewrite Hls, (di_has_lib _ Hd). cbn [negb].
    destruct (bic_spec (db s3) (bref b) (blib b) Hwf (di_num0 _ Hd)) as (libr & Hbic & Hspec).
    rewrite Hbic.
    destruct (N.eqb_spec (ri libr) 0) as [E0|E0]; [apply lib_half_stay; assumption|].
    destruct Hspec as [Z|(Hreach & Hnum)]; [contradiction|]. cbn [bref ri] in Hreach, Hnum.
    unfold has_new_irr_segment.
    destruct (N.eqb_spec (ri (libref (db s3))) (ri libr)) as [El|El]; [apply lib_half_stay; assumption|].
    unfold reversible_segment.
    destruct (rs_total (db s3) first Hwf (fuel_of (db s3)) (ri libr) (rn libr) [] (enough_fuel_of _ _)) as [[irr rch] Hrs].
    rewrite Hrs.
    destruct irr as [|b0 irr']; [apply lib_half_stay; assumption|].
    cbn [negb andb]. cbv zeta.
    (* the LIB moves *)
    destruct rch.
    2:{ apply (rs_false_nil cfg (db s3) (di_has_lib _ Hd)) in Hrs. discriminate. }
    destruct (rs_entries _ _ _ _ _ _ _ Hrs) as (q & Hq & Hmq). cbn [map] in Hmq. rewrite app_nil_r in Hmq.
    assert (Hqne : q <> []) by (intros E; rewrite E in Hmq; discriminate).
    destruct (reach_chain_split _ _ _ q Hwf Hq Hqne _ _ Hc Hreach) as (B & Hp & HcB).
    set (irr := b0 :: irr') in *.
    set (stalled := stalled_in_segment (db s3) irr).
    assert (HBnum : forall e, In e B -> rn libr - c_kept cfg <= bnum (eb e)).
    { intros e He. destruct Hnum as [Eid|[_ Hnum]].
      - rewrite Eid in HcB. rewrite (chain_self_nil _ _ _ HcB) in He. destruct He.
      - destruct (chain_top_stored _ _ _ _ Hq Hqne) as (e' & Fe' & Ine').
        specialize (Hnum e' Fe').
        destruct q as [|a A _] using rev_ind; [congruence|].
        destruct (chain_top _ _ _ _ _ Hq) as [Fa _]. rewrite Fe' in Fa. injection Fa as <-.
        rewrite Hp, <- app_assoc in Hc. cbn [app] in Hc.
        destruct (chain_split_order _ _ _ _ _ _ Hwf Hc) as [Habove _]. specialize (Habove e He). lia. }
    assert (Hpur : forall pe, In pe (store (db s3)) -> esent pe = true -> bnum (eb pe) < rn libr - c_kept cfg ->
                   ~ anc (key pe) (ri libr)).
    { intros pe Hpe Hps Hlow Ha. destruct Hnum as [Eid|[_ Hnum]].
      - rewrite Eid in Ha. exact (Hnsd pe Hpe Hps Ha).
      - destruct (chain_top_stored _ _ _ _ Hq Hqne) as (e' & Fe' & Ine').
        specialize (Hnum e' Fe'). pose proof (find_some _ _ _ Fe') as [He'in He'k].
        pose proof (anc_lt _ _ Ha (eb pe) (eb e') (HU pe Hpe) eq_refl (HU e' He'in) He'k). lia. }
    rewrite Hp in Hc.
    destruct (dbinv_purge (db s3) libr (c_kept cfg) q (bid b) B Hd E0 Hq Hqne Hc HBnum Hpur) as (Hd' & Hl' & Hst' & Hc').
    set (d' := purge_before_lib (move_lib (db s3) libr) (c_kept cfg)) in *.
    destruct (process_irr_segment_ok cfg Hnofail irr b0 irr' (bref b) (with_db s3 d') eq_refl)
      as (s5 & ev5 & Hrun5 & Hdb5 & Hls5 & Hlls5 & Hm5 & Hs5).
    rewrite Hrun5. cbv beta iota. cbn [negb].
    destruct (process_stalled_segment_ok cfg Hnofail stalled (bref b) s5)
      as (s6 & ev6 & Hrun6 & (Hdb6 & Hls6 & Hlls6) & Hm6 & Hs6).
    rewrite Hrun6. cbv beta iota.
    assert (Hdb : db s6 = d') by (rewrite Hdb6, Hdb5; reflexivity).
    assert (Hlast : last_sent s6 = Some b) by (rewrite Hls6, Hls5; exact Hls).
    exists s6, (ev5 ++ ev6), (map eb q). split; [reflexivity|].
    split; [|split; [exact Hlast|split; [|split; [|split; [|split]]]]].
    - (* the invariant *)
      constructor; rewrite ?Hdb.
      + exact Hd'.
      + rewrite Hl'. destruct q as [|a A _] using rev_ind; [congruence|].
        destruct (chain_top _ _ _ _ _ Hq) as [_ Hka].
        rewrite map_app, app_assoc, rev_app_distr. cbn [map rev app]. exact Hka.
      + rewrite Hlast. split; [exact Hb|]. exists B. rewrite Hl'. split; [exact Hc'|].
        split; [rewrite HS, Hp, map_app, app_assoc; reflexivity|].
        rewrite Hp in Hsent. apply Forall_app in Hsent as [_ Hsent]. exact Hsent.
    - apply Forall_app. split; (eapply Forall_impl; [|eassumption]); cbn beta; unfold quiet; auto.
    - intros x Hx Hkx. rewrite Hdb, Hl', Hst'.
      apply in_map_iff in Hkx as (e & Hk & He).
      destruct (rn libr - c_kept cfg <=? bnum (eb e)) eqn:Fe.
      + left. apply in_map_iff. exists e. split; [exact Hk|]. apply filter_In. split; [exact He | exact Fe].
      + right. apply N.leb_gt in Fe.
        assert (Ex : eb e = x) by (apply U_uniq; [apply HU; exact He | exact Hx | exact Hk]).
        rewrite <- Ex. lia.
    - intros k Hk. rewrite Hdb, Hst' in Hk. eapply in_filter_keys. exact Hk.
    - intros Hfirst. rewrite Hdb, Hl'.
      pose proof (rs_first_guard _ _ _ _ _ _ _ Hrs) as G.
      destruct (chain_top_stored _ _ _ _ Hq Hqne) as (e' & Fe' & _).
      destruct (bic_num_spec _ _ _ _ Hbic) as [-> | [Z | [(e1 & Fe1 & En)|[(y & pn & Hy & Hlt)|Hnone]]]].
      + cbn [bref rn] in *. pose proof (Hfirst b Hb). lia.
      + contradiction.
      + pose proof (Hfirst (eb e1) (HU e1 (proj1 (find_some _ _ _ Fe1)))). lia.
      + unfold num_of in Hy. destruct (find y (store (db s3))) as [ey|] eqn:Fy.
        * injection Hy as <-. pose proof (Hfirst (eb ey) (HU ey (proj1 (find_some _ _ _ Fy)))). lia.
        * destruct Hextra as [Hx|Hx]; rewrite Hx in Hy; [discriminate|].
          destruct (ri (libref (db s3)) =? y); [|discriminate]. injection Hy as <-. lia.
      + congruence.
    - (* no block under the first streamable block, weakly coherent configured LIB *)
      intros HLU.
      destruct q as [|a A _] using rev_ind; [congruence|].
      destruct (chain_top _ _ _ _ _ Hq) as [Fa Hka].
      pose proof (find_some _ _ _ Fa) as [Hain _].
      split.
      { right. exists (eb a). split; [apply HU; exact Hain|]. rewrite Hdb, Hl'. exact Hka. }
      intros Hle Hcoh. rewrite Hdb, Hl'.
      pose proof (rs_first_guard _ _ _ _ _ _ _ Hrs) as G.
      (* when the number of the new reference is the height of its block *)
      assert (Hkey : rn libr = bnum (eb a) -> rn (libref (db s3)) <= rn libr).
      { intros En. destruct (N.lt_ge_cases first (bnum (eb a))) as [Hgt|Hge]; [lia|].
        pose proof (Hle (eb a) (HU a Hain)) as Hle_a.
        destruct (chain_snoc_inv _ _ _ _ _ Hq) as (_ & _ & HcA).
        destruct A as [|a' A' _] using rev_ind.
        - apply chain_nil_inv in HcA.
          assert (Hno : forall bl, In bl U -> bid bl = bparent (eb a) -> False).
          { intros bl Hbl Ebl. pose proof (U_up (eb a) bl (HU a Hain) Hbl (eq_sym Ebl)). pose proof (Hle bl Hbl). lia. }
          destruct HLU as [HL0|(bl & Hbl & Ebl)]; [|exfalso; apply (Hno bl Hbl); congruence].
          destruct Hcoh as [(bl & Hbl & Ebl)|Hup]; [exfalso; apply (Hno bl Hbl); rewrite Ebl, <- HL0; symmetry; exact HcA|].
          rewrite HL0 in HcA |- *. pose proof (Hup (eb a) (HU a Hain) HcA). lia.
        - exfalso. destruct (chain_top _ _ _ _ _ HcA) as [Fa' _].
          pose proof (ws_up _ Hwf a a' Hain Fa'). pose proof (Hle (eb a') (HU a' (proj1 (find_some _ _ _ Fa')))). lia. }
      destruct (bic_num_spec _ _ _ _ Hbic) as [Estart | [Z | [(e1 & Fe1 & En)|[(y & pn & Hy & Hlt)|Hnone]]]].
      + apply Hkey. rewrite Estart in Fa |- *. cbn [bref ri rn] in *.
        rewrite (stored_is_self U U_uniq _ _ _ HU Hb Fa). reflexivity.
      + contradiction.
      + apply Hkey. rewrite Fa in Fe1. injection Fe1 as <-. exact En.
      + unfold num_of in Hy. destruct (find y (store (db s3))) as [ey|] eqn:Fy.
        * injection Hy as <-. pose proof (Hle (eb ey) (HU ey (proj1 (find_some _ _ _ Fy)))). lia.
        * destruct Hextra as [Hx|Hx]; rewrite Hx in Hy; [discriminate|].
          destruct (ri (libref (db s3)) =? y); [|discriminate]. injection Hy as <-. lia.
      + congruence.
  Qed.

  (* ---------------------------------------------------------------- one ProcessBlock call *)

  (* the block was received before and is still stored, or lies under the LIB number of a started stream *)
  Definition known (s : fstate) (x : block) : Prop :=
    In (bid x) (keys (store (db s))) \/ dropped s x = true.

  Definition StepOut (s : fstate) (Fin : list block) (S : cstack) (b : block)
             (res : fstate * list event * result) : Prop :=
    exists s' evA evQ Fin' S',
      res = (s', evA ++ evQ, ROk) /\
      apply_all (ri r0) S evA = Some S' /\
      Inv s' Fin' S' /\
      Forall quiet evQ /\
      (known s b -> s' = s /\ evA = [] /\ evQ = []) /\
      (* known blocks stay known as long as the LIB NUMBER does not decrease *)
      (rn (libref (db s)) <= rn (libref (db s')) -> forall x, In x U -> known s x -> known s' x) /\
      known s' b /\
      (* the first event ever delivered carries the LIB id the stream is rooted at *)
      (last_sent s = None ->
       match evA ++ evQ with e0 :: _ => ri (elib e0) = ri r0 | [] => last_sent s' = None end) /\
      (* when every block lies above the first streamable block the LIB number does not decrease *)
      ((forall x, In x U -> first < bnum x) -> rn (libref (db s)) <= rn (libref (db s'))) /\
      (LibU s -> LibU s' /\
         ((forall x, In x U -> first <= bnum x) -> coh0 -> rn (libref (db s)) <= rn (libref (db s')))).

  Lemma stepout_quiet s Fin S b s' : Inv s' Fin S ->
    (known s b -> s' = s) -> (forall x, In x U -> known s x -> known s' x) -> known s' b ->
    last_sent s' = last_sent s -> libref (db s') = libref (db s) ->
    StepOut s Fin S b (s', [], ROk).
  Proof.
    intros HI Hk1 Hk2 Hk3 Hls Hlr. exists s', [], [], Fin, S.
    split; [reflexivity|]. split; [reflexivity|]. split; [exact HI|].
    split; [constructor|]. split; [intros H; auto|]. split; [intros _; exact Hk2|]. split; [exact Hk3|].
    split; [intros H; cbn [app]; congruence|]. split; [intros _; rewrite Hlr; lia|].
    unfold LibU. rewrite Hlr. intros HL. split; [exact HL|]. intros _ _. lia.
  Qed.

  (* assembling a triggering step from its two halves *)
  Lemma step_finish s Fin S b s3 evs S3 :
    In b U -> ~ In (bid b) (keys (store (db s))) -> dropped s b = false ->
    apply_all (ri r0) S evs = Some S3 -> Inv s3 Fin S3 ->
    keys (store (db s3)) = keys (store (db s)) ++ [bid b] -> last_sent s3 = Some b ->
    libref (db s3) = libref (db s) -> bid b <> ri (libref (db s3)) -> nsd (db s3) (bid b) ->
    evs <> [] -> (last_sent s = None -> Forall (fun e => ri (elib e) = ri r0) evs) ->
    StepOut s Fin S b (lib_tail s3 b evs None).
  Proof.
    intros Hb Hk Hdr Happ HI3 Hk3 Hls3 Hl3 Hne Hnsd Hevs Hel.
    destruct (lib_half s3 Fin S3 b evs HI3 Hls3 Hb Hne Hnsd)
      as (s' & evQ & Fnew & -> & HI' & Hls' & HsQ & Hkeys & _ & Hmn & Hmn2).
    exists s', evs, evQ, (Fin ++ Fnew), S3.
    split; [reflexivity|]. split; [exact Happ|]. split; [exact HI'|]. split; [exact HsQ|].
    assert (Hdrop : forall x, bnum x < rn (libref (db s')) -> dropped s' x = true).
    { intros x Hx. unfold dropped. rewrite Hls'. apply andb_true_iff. split; [apply N.ltb_lt; exact Hx | reflexivity]. }
    assert (Hkn : forall x, In x U -> In (bid x) (keys (store (db s3))) -> known s' x).
    { intros x Hx Hin. destruct (Hkeys x Hx Hin) as [H|H]; [left; exact H | right; apply Hdrop; exact H]. }
    split.
    { intros [H|H]; [contradiction | congruence]. }
    split.
    - intros Hmono x Hx [H|H].
      + apply Hkn; [exact Hx|]. rewrite Hk3. apply in_or_app. left. exact H.
      + right. apply Hdrop. unfold dropped in H. apply andb_true_iff in H as [H _]. apply N.ltb_lt in H. lia.
    - split; [apply Hkn; [exact Hb|]; rewrite Hk3; apply in_or_app; right; left; reflexivity|].
      split.
      + intros Hn. destruct evs as [|e0 evs']; [congruence|]. cbn [app].
        exact (Forall_inv (Hel Hn)).
      + split; [intros Hfirst; rewrite <- Hl3; exact (Hmn Hfirst)|].
        unfold LibU in *. rewrite <- Hl3. exact Hmn2.
  Qed.

  (* a block that is already stored: nothing happens (a stored root is stored again, unchanged) *)
  Lemma fk_step_old' s b e : DbInv (db s) -> In b U -> find (bid b) (store (db s)) = Some e ->
    incl_first s b = false ->
    fk_step cfg s b = (s, [], ROk).
  Proof.
    intros Hd Hb Hf Hni.
    apply (fk_step_old_w U cfg U_id U_uniq U_up s b e (di_nodup _ Hd) (di_inU _ Hd) Hb Hf).
    - intros Hp. apply (di_root _ Hd e (proj1 (find_some _ _ _ Hf))).
      rewrite (stored_is_self U U_uniq _ _ _ (di_inU _ Hd) Hb Hf). exact Hp.
    - apply (di_lid _ Hd).
    - exact Hni.
  Qed.

  (* the inclusive first delivery: New + Irreversible for the starting LIB block itself *)
  Lemma step_root s Fin S b : Inv s Fin S -> In b U -> dropped s b = false -> incl_first s b = true ->
    StepOut s Fin S b (fk_step cfg s b).
  Proof.
    intros HI Hb Hd Hinc. pose proof HI as [Hdb Hflast Hh].
    unfold MovingLibInv.incl_first in Hinc. apply andb_true_iff in Hinc as [Hinc Hid]. apply andb_true_iff in Hinc as [Hci Hls].
    destruct (last_sent s) as [hd|] eqn:Els; [discriminate|]. destruct Hh as (-> & -> & Hall & Hroot & Hcur).
    cbn [rev] in Hflast. apply N.eqb_eq in Hid. rewrite Hflast in Hid.
    specialize (Hroot Hci).
    assert (Hf : find (bid b) (store (db s)) = None) by (rewrite Hid; exact Hroot).
    assert (Hk : ~ In (bid b) (keys (store (db s)))) by (apply find_none; exact Hf).
    destruct (U_id b Hb) as (H1 & H3).
    unfold fk_step. destruct (N.eqb_spec (bid b) (bparent b)); [contradiction|].
    unfold dropped in Hd. rewrite Els in *. rewrite Hd, Hci, Hflast.
    replace (bid b =? ri r0) with true by (symmetry; apply N.eqb_eq; exact Hid). cbn [andb].
    rewrite (add_link_new U U_id _ _ Hb Hf). cbn [fst].
    pose proof (dbinv_add _ _ Hdb Hb Hf) as Hdb1.
    set (s1 := with_db s (new_db (db s) b)).
    unfold process_initial_inclusive. rewrite Hnew, (call_ok cfg Hnofail). cbv beta iota zeta.
    set (tiny := mkSeg (bid b) (bnum b) (mkEntry b false)).
    set (ev := mkEv SNew b (seg_ref tiny) (seg_ref tiny) (cursor_lib s1) None 0 0).
    set (s1' := mkFS (db (mkFS (db s1) (last_sent s1) (last_lib_seen s1) (ncalls s1 + 1))) (Some b)
                     (last_lib_seen (mkFS (db s1) (last_sent s1) (last_lib_seen s1) (ncalls s1 + 1)))
                     (ncalls (mkFS (db s1) (last_sent s1) (last_lib_seen s1) (ncalls s1 + 1)))).
    destruct (process_irr_segment_ok cfg Hnofail [tiny] tiny [] (bref b) s1' eq_refl)
      as (s2 & ev2 & Hrun & Hdb2 & Hls2 & Hlls2 & Hm2 & Hs2).
    rewrite Hrun. cbv beta iota.
    assert (Hdbs2 : db s2 = new_db (db s) b) by (rewrite Hdb2; reflexivity).
    assert (Hlast2 : last_sent s2 = Some b) by (rewrite Hls2; reflexivity).
    exists s2, [ev], ev2, [b], [b].
    split; [reflexivity|].
    split.
    { cbn [apply_all apply_ev ev estep eblk]. unfold root_ok. rewrite Hid, N.eqb_refl. reflexivity. }
    split.
    { constructor; rewrite ?Hdbs2; cbn [new_db libref store app].
      - exact Hdb1.
      - cbn [rev app]. rewrite Hflast. exact Hid.
      - rewrite Hlast2. split; [exact Hb|]. exists []. rewrite Hflast, Hid. split; [constructor|].
        split; [reflexivity | constructor]. }
    split; [eapply Forall_impl; [|exact Hs2]; cbn beta; unfold quiet; auto|].
    split.
    { intros [H|H]; [contradiction | unfold dropped in H; rewrite Els, andb_false_r in H; discriminate]. }
    split.
    - intros _ x Hx [H|H].
      + left. rewrite Hdbs2. cbn [new_db store]. rewrite keys_snoc. apply in_or_app. left. exact H.
      + unfold dropped in H. rewrite Els, andb_false_r in H. discriminate.
    - split; [left; rewrite Hdbs2; cbn [new_db store]; rewrite keys_snoc; apply in_or_app; right; left; reflexivity|].
      split; [intros _; cbn [app ev elib]; exact Hcur|].
      split; [intros _; rewrite Hdbs2; cbn [new_db libref]; lia|].
      unfold LibU. rewrite Hdbs2. cbn [new_db libref]. intros HL. split; [exact HL|]. intros _ _. lia.
  Qed.

  Lemma step_inv s Fin S b : Inv s Fin S -> In b U -> StepOut s Fin S b (fk_step cfg s b).
  Proof.
    intros HI Hb.
    destruct (dropped s b) eqn:Hd.
    { rewrite (fk_step_dropped U cfg U_id s b Hb Hd). apply stepout_quiet; auto. right. exact Hd. }
    destruct (incl_first s b) eqn:Hni.
    { apply step_root; assumption. }
    pose proof HI as [Hdb Hflast Hh]. pose proof Hdb as [Hnd HU Hlid Hextra Hlc Hrt].
    pose proof (di_wf _ Hdb) as Hwf.
    destruct (find (bid b) (store (db s))) as [e|] eqn:Hf.
    { rewrite (fk_step_old' s b e Hdb Hb Hf Hni). apply stepout_quiet; auto.
      left. apply find_is_some_in. eauto. }
    (* a new block *)
    pose proof (inv_add s Fin S b HI Hb Hf Hni) as HI1.
    set (s1 := with_db s (new_db (db s) b)) in *.
    set (en := mkEntry b false).
    assert (Hk : ~ In (bid b) (keys (store (db s)))) by (apply find_none; exact Hf).
    assert (Hnk : ~ known s b) by (intros [H|H]; [contradiction | congruence]).
    assert (Hl1 : libref (db s1) = libref (db s)) by reflexivity.
    assert (Hk1 : keys (store (db s1)) = keys (store (db s)) ++ [bid b]).
    { unfold s1. cbn [with_db db new_db store]. apply keys_snoc. }
    assert (Hsw : exists u r j, sw_of s b = ScssOk u r j).
    { unfold FixedLib.sw_of. destruct (f_undo (c_filter cfg) && triggers cfg s b); [|eauto].
      destruct (last_sent s) as [ls|]; [apply scss_total; exact Hwf | eauto]. }
    destruct Hsw as (undos & redos & junc & Hsw).
    rewrite (fk_step_new' s b undos redos junc Hdb Hb Hf Hd Hni Hsw). cbv zeta. fold s1.
    pose proof HI1 as [Hdb1 _ _]. pose proof Hdb1 as [Hnd1 HU1 _ _ _ _].
    pose proof (di_wf _ Hdb1) as Hwf1.
    change (new_db (db s) b) with (db s1).
    destruct (rs_total (db s1) first Hwf1 (fuel_of (db s1)) (bid b) (bnum b) [] (enough_fuel_of _ _)) as [[longest reach] Hrs].
    unfold reversible_segment. cbn [bref ri rn]. rewrite Hrs.
    destruct (negb (triggers cfg s b) || match longest with [] => true | _ => false end) eqn:Hgo.
    { apply stepout_quiet; auto.
      - intros H. contradiction.
      - intros x Hx [H|H]; [left; rewrite Hk1; apply in_or_app; left; exact H | right; exact H].
      - left. rewrite Hk1. apply in_or_app. right. left. reflexivity. }
    assert (Hcur1 : cursor_lib s1 = cursor_lib s) by reflexivity.
    apply orb_false_iff in Hgo as [Htr Hlong]. apply negb_false_iff in Htr.
    (* the chain of the new block *)
    assert (Hfb : find (bid b) (store (db s1)) = Some en).
    { unfold s1. cbn [with_db db new_db store]. apply (find_snoc_new (store (db s)) en). exact Hk. }
    assert (Hshape : exists pP, chain (store (db s1)) (bid b) (ri (libref (db s1))) (pP ++ [en]) /\ longest = map seg_of (pP ++ [en])).
    { destruct reach.
      - apply rs_sound in Hrs.
        2:{ intros e' He'. rewrite Hfb in He'. injection He' as <-. reflexivity. }
        destruct Hrs as (p & Hc & Hp & _). rewrite app_nil_r in Hp.
        destruct p as [|e' p' _] using rev_ind.
        + subst longest. discriminate.
        + destruct (chain_top _ _ _ _ _ Hc) as [Hf' _]. rewrite Hfb in Hf'. injection Hf' as <-.
          exists p'. auto.
      - apply (rs_false_nil cfg (db s1) (di_has_lib _ Hdb1)) in Hrs. subst longest. discriminate. }
    destruct Hshape as (pP & Hc & ->).
    destruct (chain_snoc_inv _ _ _ _ _ Hc) as (Hne1 & _ & HcP). cbn [eb en] in HcP.
    assert (Hnin : ~ In en pP).
    { pose proof (chain_nodup _ _ _ _ Hwf1 Hc) as Hn. unfold keys in Hn. rewrite map_app in Hn.
      intros Hin. refine (nodup_app_disj _ _ (key en) Hn _ _); [apply in_map; exact Hin | left; reflexivity]. }
    assert (HcP0 : chain (store (db s)) (bparent b) (ri (libref (db s))) pP).
    { apply (chain_restrict (store (db s)) en); assumption. }
    (* no sent entry is a strict descendant of the new block *)
    assert (Hnsd1 : nsd (db s1) (bid b)).
    { assert (Hab : anc (bid b) (ri (libref (db s)))).
      { apply (chain_anc_top _ _ _ _ HU1 Hc). destruct pP; discriminate. }
      pose proof (nsd_unstored (db s) (bid b) Hdb Hf Hab) as Hn0.
      intros e0 He0 Hs0. unfold s1 in He0. cbn [with_db db new_db store] in He0.
      apply in_app_or in He0 as [He0|[<-|[]]]; [exact (Hn0 e0 He0 Hs0) | discriminate]. }
    unfold FixedLib.sw_of in Hsw. rewrite Hundo, Htr in Hsw. cbn [andb] in Hsw.
    destruct (last_sent s) as [hd|] eqn:Hls.
    - destruct Hh as (HhU & pH & HcH & HS & HsH).
      destruct (N.eq_dec (bid hd) (bparent b)) as [Heq|Hneq].
      + unfold sent_chain_switch_segments in Hsw. rewrite Heq, N.eqb_refl in Hsw. injection Hsw as <- <- <-.
        rewrite Heq in HcH. pose proof (chain_det _ _ _ _ _ HcH HcP0) as ->.
        destruct (trigger_first s1 Fin S b pP pP [] [] None None HI1 Hb Hc) as
          (s3 & evU & evRN & Hrun & Happ & HI3 & Hk3 & Hls3 & Hlr3 & Hnsd3 & Hcl3 & Hne3 & _ & _).
        * rewrite app_nil_r. reflexivity.
        * exact HsH.
        * rewrite app_nil_r. exact HS.
        * exact Hnsd1.
        * cbn [rev filter] in Hrun. fold en in Hrun. rewrite Hrun.
          eapply step_finish; eauto; congruence.
      + destruct (scss_link (db s) _ (bid hd) (bparent b) pH pP Hwf (di_lid _ Hdb) Hneq HcH HcP0) as (C & R & Uh & j & HP & HH & Hsc).
        { intros f t e0 Hu He0. exact (tail_disjoint' (db s) pP (bparent b) Hdb HcP0 f t e0 Hu He0). }
        rewrite Hsc in Hsw. injection Hsw as <- <- <-.
        destruct (trigger_first s1 Fin S b pP C R Uh j None HI1 Hb Hc HP) as
          (s3 & evU & evRN & Hrun & Happ & HI3 & Hk3 & Hls3 & Hlr3 & Hnsd3 & Hcl3 & Hne3 & _ & _).
        * rewrite HH in HsH. apply Forall_app in HsH. tauto.
        * rewrite HS, HH. reflexivity.
        * exact Hnsd1.
        * fold en in Hrun. rewrite Hrun. eapply step_finish; eauto; congruence.
    - injection Hsw as <- <- <-. destruct Hh as (-> & -> & Hall & _ & Hcur).
      assert (Hfil : filter esent pP = []).
      { assert (G : forall x, In x pP -> esent x = false).
        { intros x Hx. apply Hall. eapply chain_in; [exact HcP0 | exact Hx]. }
        clear -G. induction pP as [|h t IHt]; cbn [filter]; [reflexivity|].
        rewrite (G h (or_introl eq_refl)). apply IHt. intros x Hx. apply G. right. exact Hx. }
      destruct (trigger_first s1 [] [] b pP [] pP [] None None HI1 Hb Hc eq_refl (Forall_nil _) eq_refl Hnsd1) as
        (s3 & evU & evRN & Hrun & Happ & HI3 & Hk3 & Hls3 & Hlr3 & Hnsd3 & Hcl3 & Hne3 & _ & _).
      cbn [rev] in Hrun. rewrite Hfil in Hrun. fold en in Hrun. rewrite Hrun.
      eapply step_finish; eauto; try congruence.
      intros _. eapply Forall_impl; [|exact Hcl3]. cbn beta. intros e0 ->. rewrite Hcur1. exact Hcur.
  Qed.

  (* ---------------------------------------------------------------- whole histories *)

  Definition Seen (s : fstate) (seen : list block) : Prop :=
    forall x, In x seen -> In x U /\ known s x.

  Definition first_lib (s : fstate) (t : trace) : Prop :=
    last_sent s = None -> match all_events t with e0 :: _ => ri (elib e0) = ri r0 | [] => True end.

  Lemma run_wild : forall h s Fin S seen, Inv s Fin S -> (forall b, In b h -> In b U) -> Seen s seen ->
    let t := fk_run cfg s h in
    length t = length h /\ Forall (fun x => snd x = ROk) t /\
    (exists S', apply_all (ri r0) S (all_events t) = Some S') /\
    (lib_mono_b cfg s h = true -> c01_refeed_b seen h t = true) /\
    first_lib s t /\
    ((forall x, In x U -> first < bnum x) -> lib_mono_b cfg s h = true) /\
    (LibU s -> (forall x, In x U -> first <= bnum x) -> coh0 -> lib_mono_b cfg s h = true).
  Proof.
    induction h as [|b h IH]; intros s Fin S seen HI Hh Hseen.
    - cbn. repeat split; [constructor | exists S; reflexivity].
    - destruct (step_inv s Fin S b HI (Hh b (or_introl eq_refl))) as
        (s' & evA & evQ & Fin' & S' & Hstep & Happ & HI' & HsQ & Hk1 & Hk2 & Hk3 & Hfl & Hmn & Hmm).
      cbn [fk_run lib_mono_b]. rewrite Hstep.
      assert (Happ' : apply_all (ri r0) S (evA ++ evQ) = Some S').
      { rewrite (apply_all_app _ _ _ _ _ Happ). apply apply_all_inert. exact HsQ. }
      assert (Hh' : forall x, In x h -> In x U) by (intros x Hx; apply Hh; right; exact Hx).
      destruct (IH s' Fin' S' [] HI' Hh' (fun x (Hx : In x []) => match Hx with end)) as (Hlen & Hok & (S2 & Happ2) & _ & Hfl2 & Hmn2 & Hmm2).
      cbn zeta in *. split; [|split; [|split; [|split; [|split; [|split]]]]].
      + cbn [length]. rewrite Hlen. reflexivity.
      + constructor; [reflexivity | exact Hok].
      + exists S2. unfold all_events. cbn [map concat fst]. fold (all_events (fk_run cfg s' h)).
        rewrite (apply_all_app _ _ _ _ _ Happ'). exact Happ2.
      + intros Hm. apply andb_true_iff in Hm as [Hm1 Hm2]. apply N.leb_le in Hm1.
        assert (Hseen' : Seen s' (b :: seen)).
        { intros x [<-|Hx].
          - split; [apply Hh; left; reflexivity | exact Hk3].
          - destruct (Hseen x Hx) as [HxU Hkx]. split; [exact HxU | apply (Hk2 Hm1); assumption]. }
        destruct (IH s' Fin' S' (b :: seen) HI' Hh' Hseen') as (_ & _ & _ & Hre & _ & _ & _).
        cbn [c01_refeed_b]. rewrite (Hre Hm2), andb_true_r.
        destruct (existsb (block_eqb b) seen) eqn:Hex; [|reflexivity].
        apply existsb_exists in Hex as (x & Hx & Heq). apply block_eqb_eq in Heq. subst x.
        destruct (Hseen b Hx) as [_ Hb]. destruct (Hk1 Hb) as (_ & -> & ->). reflexivity.
      + intros Hn. specialize (Hfl Hn). unfold all_events. cbn [map concat fst]. fold (all_events (fk_run cfg s' h)).
        destruct (evA ++ evQ) as [|e0 rest]; cbn [app]; [exact (Hfl2 Hfl) | exact Hfl].
      + intros Hfirst. rewrite (Hmn2 Hfirst), andb_true_r. apply N.leb_le. exact (Hmn Hfirst).
      + intros HL Hle Hcoh. destruct (Hmm HL) as [HL' Hm']. rewrite (Hmm2 HL' Hle Hcoh), andb_true_r.
        apply N.leb_le. exact (Hm' Hle Hcoh).
  Qed.

  Theorem wild_lib_run m h : rooted m -> (forall b, In b h -> In b U) ->
    let t := fk_run cfg (fs_init m) h in
    length t = length h /\ Forall (fun x => snd x = ROk) t /\
    (exists S', apply_all (ri r0) [] (all_events t) = Some S') /\
    c01_discipline_b m t = true /\
    c01_error_b (c_fail_at cfg) 0 t = true /\
    (lib_mono_b cfg (fs_init m) h = true -> c01_refeed_b [] h t = true) /\
    ((forall x, In x U -> first < bnum x) -> lib_mono_b cfg (fs_init m) h = true) /\
    ((forall x, In x U -> first <= bnum x) -> coh0 -> lib_mono_b cfg (fs_init m) h = true).
  Proof.
    intros Hm Hh. destruct (run_wild h (fs_init m) [] [] [] (inv_init m Hm) Hh) as (Hlen & Hok & (S' & Happ) & Hre & _ & Hmn & Hmm).
    { intros x []. }
    cbn zeta. split; [|split; [|split; [|split; [|split; [|split; [|split]]]]]]; try assumption.
    - exists S'. exact Happ.
    - unfold c01_discipline_b. replace (root_lib m (fk_run cfg (fs_init m) h)) with (ri r0) by (destruct Hm as [-> | ->]; reflexivity).
      rewrite Happ. reflexivity.
    - rewrite Hnofail. apply error_ok. exact Hok.
    - apply Hmm. left. destruct Hm as [-> | ->]; reflexivity.
  Qed.
End WildLib.
