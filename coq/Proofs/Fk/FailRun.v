(* Whole histories under a failing handler oracle: the trace is the trace of the never-failing handler cut
   at the failing call; the C01 clauses and the C02 monitor are inherited from the never-failing run. *)
From BV Require Import Base.Prelude Model.Block Model.ForkDB Model.Forkable Spec.Consumer
  Proofs.Fk.LoopFacts Proofs.Fk.FailPrefix Proofs.Fk.MovingLibFin.
Local Open Scope N_scope.

Lemma apply_all_split lib : forall l1 l2 S S', apply_all lib S (l1 ++ l2) = Some S' ->
  exists S1, apply_all lib S l1 = Some S1 /\ apply_all lib S1 l2 = Some S'.
Proof.
  induction l1 as [|e l1 IH]; intros l2 S S' H; cbn [app apply_all] in *; [eauto|].
  destruct (apply_ev lib S e) as [S0|]; [apply IH; exact H | discriminate].
Qed.

Lemma fin_events_split lib root inc : forall l1 l2 m m', fin_events lib root inc m (l1 ++ l2) = Some m' ->
  exists m1, fin_events lib root inc m l1 = Some m1 /\ fin_events lib root inc m1 l2 = Some m'.
Proof.
  intros l1 l2 m m' H. rewrite fin_events_app in H.
  destruct (fin_events lib root inc m l1) as [m1|]; [eauto | discriminate].
Qed.

Section FailRun.
  Variable cfg : config.
  Variable k : N.
  Hypothesis Hfail : c_fail_at cfg = Some k.
  Notation cfgN := (nofail cfg).

  Lemma run_fail_c01 lib : forall h s S seen, ncalls s <= k ->
    Forall (fun x => snd x = ROk) (fk_run cfgN s h) ->
    (exists S', apply_all lib S (all_events (fk_run cfgN s h)) = Some S') ->
    c01_refeed_b seen h (fk_run cfgN s h) = true ->
    (exists S', apply_all lib S (all_events (fk_run cfg s h)) = Some S') /\
    c01_refeed_b seen h (fk_run cfg s h) = true /\
    c01_error_b (Some k) (ncalls s) (fk_run cfg s h) = true /\
    Forall (fun x => snd x = ROk \/ snd x = RHandlerErr) (fk_run cfg s h).
  Proof.
    induction h as [|b h IH]; intros s S seen Hk Hok Happ Hre.
    - cbn. repeat split; [exact Happ | constructor].
    - pose proof (step_fail cfg k Hfail s b) as R.
      cbn [fk_run] in *. destruct (fk_step cfgN s b) as [[sN evsN] rN].
      inversion Hok as [|? ? Hr Hok']; subst. cbn [snd] in Hr. subst rN.
      cbn [step_rel'] in R. destruct R as (_ & evs & Hev & Hn & Hrel). cbn [app] in Hev. subst evs.
      destruct (Hrel Hk) as [HA HB].
      destruct Happ as [S' Happ]. unfold all_events in Happ. cbn [map concat fst] in Happ.
      fold (all_events (fk_run cfgN sN h)) in Happ.
      destruct (apply_all_split _ _ _ _ _ Happ) as (S1 & Happ1 & Happ2).
      cbn [c01_refeed_b] in Hre. apply andb_true_iff in Hre as [Hre1 Hre2].
      destruct (N.le_gt_cases (ncalls s + N.of_nat (length evsN)) k) as [Hle|Hgt].
      + rewrite (HA Hle). cbv beta iota.
        destruct (IH sN S1 (b :: seen)) as ((S2 & Happ3) & Hre3 & Herr3 & Hres3); try assumption; [lia | eauto |].
        split; [|split; [|split]].
        * exists S2. unfold all_events. cbn [map concat fst]. fold (all_events (fk_run cfg sN h)).
          rewrite (apply_all_app _ _ _ _ _ Happ1). exact Happ3.
        * cbn [c01_refeed_b]. rewrite Hre1, Hre3. reflexivity.
        * cbn [c01_error_b].
          replace ((ncalls s <=? k) && (k <? ncalls s + N.of_nat (length evsN))) with false by lia.
          cbn [result_eqb negb andb]. rewrite <- Hn. exact Herr3.
        * constructor; [left; reflexivity | exact Hres3].
      + destruct (HB Hgt) as (se & e1 & e2 & He & Hl & ->). cbn [app]. cbv beta iota.
        split; [|split; [|split]].
        * unfold all_events. cbn [map concat fst]. rewrite app_nil_r.
          rewrite He in Happ1. destruct (apply_all_split _ _ _ _ _ Happ1) as (S0 & H0 & _). eauto.
        * cbn [c01_refeed_b]. replace (c01_refeed_b (b :: seen) h []) with true by (destruct h; reflexivity).
          rewrite andb_true_r.
          destruct (existsb (block_eqb b) seen); [|reflexivity].
          destruct evsN; [|discriminate]. destruct e1; [cbn in Hl; lia | discriminate].
        * cbn [c01_error_b].
          replace ((ncalls s <=? k) && (k <? ncalls s + N.of_nat (length e1))) with true by lia.
          replace (k =? ncalls s + N.of_nat (length e1) - 1) with true by lia. reflexivity.
        * constructor; [right; reflexivity | constructor].
  Qed.

  Lemma run_fail_c02 lib root : forall h s m, ncalls s <= k ->
    Forall (fun x => snd x = ROk) (fk_run cfgN s h) ->
    (exists m', fin_trace lib root m h (fk_run cfgN s h) = Some m') ->
    exists m', fin_trace lib root m h (fk_run cfg s h) = Some m'.
  Proof.
    induction h as [|b h IH]; intros s m Hk Hok Hfin.
    - exists m. reflexivity.
    - pose proof (step_fail cfg k Hfail s b) as R.
      cbn [fk_run] in *. destruct (fk_step cfgN s b) as [[sN evsN] rN].
      inversion Hok as [|? ? Hr Hok']; subst. cbn [snd] in Hr. subst rN.
      cbn [step_rel'] in R. destruct R as (_ & evs & Hev & Hn & Hrel). cbn [app] in Hev. subst evs.
      destruct (Hrel Hk) as [HA HB].
      destruct Hfin as [m' Hfin]. cbn [fin_trace] in Hfin.
      destruct (fin_events lib root b m evsN) as [m1|] eqn:E1; [|discriminate].
      destruct (N.le_gt_cases (ncalls s + N.of_nat (length evsN)) k) as [Hle|Hgt].
      + rewrite (HA Hle). cbv beta iota. cbn [fin_trace]. rewrite E1. apply (IH sN m1); [lia | exact Hok' | eauto].
      + destruct (HB Hgt) as (se & e1 & e2 & He & Hl & ->). cbn [app]. cbv beta iota. cbn [fin_trace].
        rewrite He in E1. destruct (fin_events_split _ _ _ _ _ _ _ E1) as (m0 & H0 & _).
        rewrite H0. exists m0. destruct h; reflexivity.
  Qed.

  (* the events of the cut run are a prefix of the events of the never-failing run *)
  Lemma run_fail_events : forall h s, ncalls s <= k ->
    Forall (fun x => snd x = ROk) (fk_run cfgN s h) ->
    exists rest, all_events (fk_run cfgN s h) = all_events (fk_run cfg s h) ++ rest.
  Proof.
    induction h as [|b h IH]; intros s Hk Hok.
    - exists []. reflexivity.
    - pose proof (step_fail cfg k Hfail s b) as R.
      cbn [fk_run] in *. destruct (fk_step cfgN s b) as [[sN evsN] rN].
      inversion Hok as [|? ? Hr Hok']; subst. cbn [snd] in Hr. subst rN.
      cbn [step_rel'] in R. destruct R as (_ & evs & Hev & Hn & Hrel). cbn [app] in Hev. subst evs.
      destruct (Hrel Hk) as [HA HB].
      destruct (N.le_gt_cases (ncalls s + N.of_nat (length evsN)) k) as [Hle|Hgt].
      + rewrite (HA Hle). cbv beta iota. destruct (IH sN) as [rest Hrest]; [lia | exact Hok'|].
        exists rest. unfold all_events in *. cbn [map concat fst]. rewrite Hrest, app_assoc. reflexivity.
      + destruct (HB Hgt) as (se & e1 & e2 & He & Hl & ->). cbn [app]. cbv beta iota.
        exists (e2 ++ all_events (fk_run cfgN sN h)). unfold all_events. cbn [map concat fst].
        rewrite He, app_nil_r, app_assoc. reflexivity.
  Qed.
End FailRun.

Lemma all_events_nil t : all_events t = [] -> forall x, In x t -> fst x = [].
Proof.
  induction t as [|[evs r] t IH]; intros H x Hx; [destruct Hx|].
  unfold all_events in H. cbn [map concat fst] in H. apply app_eq_nil in H as [H1 H2].
  destruct Hx as [<-|Hx]; [exact H1 | apply IH; assumption].
Qed.

Lemma fin_trace_quiet lib root : forall h t m, (forall x, In x t -> fst x = []) -> fin_trace lib root m h t = Some m.
Proof.
  induction h as [|b h IH]; intros t m H; [reflexivity|]. destruct t as [|[evs r] t]; [reflexivity|].
  pose proof (H (evs, r) (or_introl eq_refl)) as He. cbn [fst] in He. subst evs. cbn [fin_trace fin_events]. apply IH.
  intros x Hx. apply H. right. exact Hx.
Qed.
