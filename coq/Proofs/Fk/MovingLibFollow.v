(* C18 at stream level, part 2: the monitor c18_follow of Check/Fk_Props_Check.v accepts every observation that
   corresponds to the model (configured LIB, histories of the class moving_scope_b, any handler oracle), when the
   recorded queries cover the ids and the heights of the history. *)
From BV Require Import Base.Prelude Model.Block Model.ForkDB Model.Forkable Model.ForkableLookups
  Spec.Consumer Spec.Universe Spec.C18_Spec Spec.C18_Moving_Spec Check.Fk_Check Check.Fk_Props_Check
  Proofs.PreludeFacts
  Proofs.Fk.StoreFacts Proofs.Fk.WalkFacts Proofs.Fk.LoopFacts Proofs.Fk.StoreChange Proofs.Fk.SwitchFacts
  Proofs.Fk.FixedLib Proofs.Fk.MovingLibStore Proofs.Fk.MovingLibWalk Proofs.Fk.MovingLibLoops Proofs.Fk.MovingLibInv
  Proofs.Fk.MovingLibFin Proofs.Fk.MovingLibLookups Proofs.Fk.FailPrefix Proofs.Fk.FailRun Proofs.C18_Proofs
  Spec.C01_Spec Spec.C01_Moving_Spec Spec.C01_Roots_Spec Proofs.C02_Proofs Proofs.C01_Roots_Proofs Proofs.C18_MovingProofs.
Local Open Scope N_scope.

(* ================================================================ reflection of the correspondence test *)

Lemma ref_eqb_iff a b : ref_eqb a b = true <-> a = b.
Proof.
  destruct a as [i n], b as [j k]. unfold ref_eqb. cbn [ri rn]. split.
  - intros H. apply andb_true_iff in H as [H1 H2]. apply N.eqb_eq in H1, H2. congruence.
  - intros [= -> ->]. rewrite !N.eqb_refl. reflexivity.
Qed.

Lemma block_eqb_iff a b : block_eqb a b = true <-> a = b.
Proof.
  destruct a as [a1 a2 a3 a4], b as [b1 b2 b3 b4]. unfold block_eqb. cbn [bid bnum bparent blib]. split.
  - intros H. repeat (apply andb_true_iff in H as [H ?]). apply N.eqb_eq in H. repeat match goal with X : (_ =? _) = true |- _ => apply N.eqb_eq in X end. congruence.
  - intros [= -> -> -> ->]. rewrite !N.eqb_refl. reflexivity.
Qed.

Lemma step_eqb_iff a b : step_eqb a b = true <-> a = b.
Proof. destruct a, b; cbn; split; congruence. Qed.

Lemma oref_eqb_iff a b : oref_eqb a b = true <-> a = b.
Proof.
  unfold oref_eqb, opt_eqb. destruct a as [x|], b as [y|]; try (split; congruence).
  rewrite ref_eqb_iff. split; congruence.
Qed.

Lemma event_eqb_iff a b : event_eqb a b = true <-> a = b.
Proof.
  destruct a as [a1 a2 a3 a4 a5 a6 a7 a8], b as [b1 b2 b3 b4 b5 b6 b7 b8]. unfold event_eqb.
  cbn [estep eblk ecblk ehead elib ejunc eidx ecount]. split.
  - intros H. repeat (apply andb_true_iff in H as [H ?]).
    apply step_eqb_iff in H.
    repeat match goal with
           | X : block_eqb _ _ = true |- _ => apply block_eqb_iff in X
           | X : ref_eqb _ _ = true |- _ => apply ref_eqb_iff in X
           | X : oref_eqb _ _ = true |- _ => apply oref_eqb_iff in X
           | X : (_ =? _) = true |- _ => apply N.eqb_eq in X
           end. congruence.
  - intros [= -> -> -> -> -> -> -> ->].
    rewrite (proj2 (step_eqb_iff _ _) eq_refl), (proj2 (block_eqb_iff _ _) eq_refl), !(proj2 (ref_eqb_iff _ _) eq_refl),
      (proj2 (oref_eqb_iff _ _) eq_refl), !N.eqb_refl. reflexivity.
Qed.

Lemma result_eqb_iff a b : result_eqb a b = true <-> a = b.
Proof. destruct a, b; cbn; split; congruence. Qed.

Lemma opt_eqb_iff {A} (eqb : A -> A -> bool) : (forall x y, eqb x y = true <-> x = y) ->
  forall a b, opt_eqb eqb a b = true <-> a = b.
Proof.
  intros Heq [x|] [y|]; cbn; try (split; congruence). rewrite Heq. split; congruence.
Qed.

Definition head_id (o : option (ref * N)) : N := match o with Some (r, _) => ri r | None => 0 end.

Lemma head_eqb_id a b : head_eqb a b = true -> head_id a = head_id b.
Proof.
  unfold head_eqb, opt_eqb. destruct a as [[r n]|], b as [[r' n']|]; cbn; try congruence.
  intros H. apply andb_true_iff in H as [H _]. apply ref_eqb_iff in H. congruence.
Qed.

Lemma look_eqb_eq a b : look_eqb a b = true -> a = b.
Proof.
  destruct a as [a1 a2 a3 a4 a5], b as [b1 b2 b3 b4 b5]. unfold look_eqb. cbn [l_ids l_lowest l_canon l_allat l_byhash]. intros H.
  repeat (apply andb_true_iff in H as [H ?]).
  apply eqb_list_eq in H.
  match goal with X : optN_eqb _ _ = true |- _ => apply (opt_eqb_iff N.eqb N.eqb_eq) in X end.
  match goal with X : eqb_list _ _ = true |- _ => apply eqb_list_eq in X end.
  match goal with X : list_eqb (opt_eqb eqb_list) _ _ = true |- _ =>
    apply (list_eqb_eq _ (opt_eqb_iff eqb_list eqb_list_eq)) in X end.
  match goal with X : list_eqb Bool.eqb _ _ = true |- _ => apply (list_eqb_eq _ Bool.eqb_true_iff) in X end.
  congruence.
Qed.

(* ================================================================ small facts about the monitor's helpers *)

Lemma index_of_in x : forall l, In x l -> exists i, index_of x l = Some i /\ nth_error l i = Some x.
Proof.
  induction l as [|y l IH]; intros H; [destruct H|]. cbn [index_of].
  destruct (N.eqb_spec x y) as [E|E].
  - exists O. subst. auto.
  - destruct H as [H|H]; [congruence|]. destruct (IH H) as (i & Hi & Hn). exists (S i). rewrite Hi. auto.
Qed.

Lemma nth_opt_map {A B} (f : A -> B) l i x : nth_error l i = Some x -> nth_opt (map f l) i = Some (f x).
Proof. intros H. unfold nth_opt. apply map_nth_error. exact H. Qed.

Lemma last_new_app acc l1 l2 : last_new acc (l1 ++ l2) = last_new (last_new acc l1) l2.
Proof. unfold last_new. apply fold_left_app. Qed.

Lemma last_new_inert acc l : Forall (fun e => estep e = SIrr \/ estep e = SStalled) l -> last_new acc l = acc.
Proof.
  revert acc. induction l as [|e l IH]; intros acc H; [reflexivity|]. inversion H as [|? ? He Hl]; subst.
  unfold last_new in *. cbn [fold_left]. destruct He as [-> | ->]; apply IH; exact Hl.
Qed.

Lemma last_new_snoc acc pre e : estep e = SNew -> last_new acc (pre ++ [e]) = bid (eblk e).
Proof. intros He. rewrite last_new_app. unfold last_new at 1. cbn [fold_left]. rewrite He. reflexivity. Qed.

Lemma all_ids_in s id : In id (all_ids s) <-> In id (keys (store (db s))).
Proof. unfold all_ids. rewrite C18_Proofs.sortN_in. reflexivity. Qed.

Section Follow.
  Variable U : list block.
  Variable r0 : ref.
  Variable cfg : config.

  Hypothesis Hnofail : c_fail_at cfg = None.
  Hypothesis Hnew : f_new (c_filter cfg) = true.
  Hypothesis Hundo : f_undo (c_filter cfg) = true.
  Hypothesis Hirr : f_irr (c_filter cfg) = true.

  Hypothesis U_id : forall b, In b U -> bid b <> 0 /\ bid b <> bparent b.
  Hypothesis U_uniq : forall x y, In x U -> In y U -> bid x = bid y -> x = y.
  Hypothesis U_up : forall x y, In x U -> In y U -> bparent x = bid y -> bnum y < bnum x.
  Hypothesis L_id : ri r0 <> 0.
  Hypothesis L_num : forall y, In y U -> bid y = ri r0 -> bnum y = rn r0.
  Hypothesis L_up : forall x, In x U -> bparent x = ri r0 -> rn r0 < bnum x.
  Hypothesis L_decl : forall b, In b U -> decl_ok U r0 b.

  (* the recorded queries cover the history *)
  Variables qh qi : list N.
  Hypothesis Hq : forall x, In x U -> In (bid x) qi /\ In (bnum x) qh.

  Notation Inv := (Inv U r0 cfg).
  Notation Ext := (Ext r0 cfg).
  Notation MInv := (MInv U r0).
  Notation StepW := (StepW U r0 cfg).
  Notation kept := (c_kept cfg).

  (* ---------------------------------------------------------------- the finality monitor along a step
     (step_fin of MovingLibFin.v for the witnesses of StepW) *)
  Lemma fin_w s Fin S b m s' evA evI evS Fnew S' : Inv s Fin S -> MInv s Fin S m -> In b U ->
    StepW s Fin S b s' evA evI evS Fnew S' ->
    exists m', fin_events (ri r0) r0 b m (evA ++ evI ++ evS) = Some m' /\ MInv s' (Fin ++ Fnew) S' m'.
  Proof.
    intros HI [Hms Hmn Hml Hmf Hmst Hfresh] Hb
           (Happ & HI' & HsA & HuA & HsI & HsS & HmI & Hmono & HFnew & Hnil & Hstl & Hnd & HSS & _).
    rewrite Hirr in HmI.
    pose proof HI as [Hd Hfin Hflast Hh]. pose proof HI' as [Hd' Hfin' Hflast' Hh'].
    rewrite Forall_forall in Hfin, Hfin'.
    assert (Hr0L : rn r0 <= rn (libref (db s))) by (destruct (di_coh U r0 _ Hd) as (_ & _ & _ & H & _); exact H).
    (* phase A *)
    assert (HA : fin_events (ri r0) r0 b m evA = Some (with_stack m S')).
    { apply fin_A; [rewrite Hms; exact Happ | exact HsA|].
      intros e He Hs Hin. destruct (HuA e He Hs) as [HeU Hen].
      apply Hmf in Hin. destruct Hin as [Hin|Hin].
      - apply in_map_iff in Hin as (x & Ex & Hx). destruct (Hfin x Hx) as [HxU Hxn].
        assert (x = eblk e) by (apply U_uniq; assumption). subst x. lia.
      - pose proof (L_num _ HeU Hin). lia. }
    destruct (inv_stack U r0 cfg _ _ _ HI') as [rest Hrev]. rewrite <- app_assoc in Hrev.
    destruct HFnew as [[HFnew HFlk]|(Hls0 & Hbid & -> & -> & e0 & -> & He0 & Heb)].
    - (* a run of blocks above the old LIB *)
      rewrite Forall_forall in HFnew.
      destruct (fin_I (ri r0) r0 b S' evI Fnew Fin (with_stack m S') rest HmI HsI Hrev eq_refl) as
        (mI & HrunI & I1 & I2 & I3 & I4 & I5 & I6).
      { exact Hmn. }
      { cbn [with_stack fm_last]. rewrite Hml. exact HFlk. }
      { intros x Hx. destruct (HFnew x Hx) as [Hlo Hhi]. split; [exact Hhi|].
        cbn [with_stack fm_stalled]. intros Hin. destruct (Hmst _ Hin) as (y & HyU & Hyid & Hyn).
        assert (HxU : In x U) by (apply Hfin'; apply in_or_app; right; exact Hx).
        assert (y = x) by (apply U_uniq; assumption). subst y. lia. }
      cbn [with_stack fm_last fm_finals fm_stalled fm_any] in I3, I4, I5, I6.
      assert (Hlast' : fm_last mI = libref (db s')).
      { rewrite I3. destruct Fnew as [|x0 Fnew0] eqn:EF.
        - cbn [map last]. rewrite Hml. symmetry. apply Hnil. reflexivity.
        - rewrite <- EF in *. destruct (@exists_last _ Fnew) as (F' & t & Et); [rewrite EF; discriminate|].
          rewrite Et, map_app. cbn [map]. rewrite last_last.
          apply (inv_last_ref U r0 cfg s' (Fin ++ Fnew) (Fin ++ F') t S' HI'). rewrite Et, app_assoc. reflexivity. }
      destruct (fin_S (ri r0) r0 b evS mI HsS Hnd) as (mS & HrunS & S1 & S2 & S3 & S4 & S5 & S6).
      { intros e He. destruct (Hstl e He) as (HeU & [Hlo Hhi] & Hnin).
        assert (Hsub : forall id, In id (map bid (Fin ++ Fnew)) -> In id (map bid S')).
        { intros id Hid. rewrite <- (rev_involutive S'), Hrev, map_rev, <- in_rev, app_assoc, map_app.
          apply in_or_app. left. exact Hid. }
        split; [|split; [|split]].
        - rewrite I4. intros Hin. apply Hnin. apply Hsub. rewrite map_app. apply in_app_or in Hin as [Hin|Hin].
          + apply in_or_app. right. rewrite <- in_rev in Hin. exact Hin.
          + apply Hmf in Hin. destruct Hin as [Hin|Hin]; [apply in_or_app; left; exact Hin|].
            pose proof (L_num _ HeU Hin). lia.
        - rewrite I5. intros Hin. destruct (Hmst _ Hin) as (y & HyU & Hyid & Hyn).
          assert (y = eblk e) by (apply U_uniq; assumption). subst y. lia.
        - rewrite I1. exact Hnin.
        - rewrite Hlast'. exact Hhi. }
      exists mS. split.
      { rewrite fin_events_app, HA, fin_events_app, HrunI. exact HrunS. }
      constructor.
      + rewrite S1. exact I1.
      + rewrite S2. exact I2.
      + rewrite S3. exact Hlast'.
      + intros id Hin. rewrite S4, I4 in Hin. rewrite map_app. apply in_app_or in Hin as [Hin|Hin].
        * left. apply in_or_app. right. rewrite <- in_rev in Hin. exact Hin.
        * apply Hmf in Hin. destruct Hin as [Hin|Hin]; [left; apply in_or_app; left; exact Hin | right; exact Hin].
      + intros id Hin. rewrite S5, I5 in Hin. apply in_app_or in Hin as [Hin|Hin].
        * rewrite <- in_rev in Hin. apply in_map_iff in Hin as (e & <- & He).
          destruct (Hstl e He) as (HeU & [Hlo Hhi] & _). exists (eblk e). auto.
        * destruct (Hmst _ Hin) as (y & HyU & Hyid & Hyn). exists y. repeat split; try assumption. lia.
      + intros HS'. destruct HSS as [HS0|HS1]; [|contradiction].
        assert (HFn : Fnew = []).
        { rewrite HS' in Hrev. cbn [rev] in Hrev. symmetry in Hrev. apply app_eq_nil in Hrev as [_ Hrev].
          apply app_eq_nil in Hrev as [Hrev _]. exact Hrev. }
        destruct (Hnil HFn) as [HevS _]. rewrite HevS in S5. cbn [map rev app] in S5.
        destruct (Hfresh HS0) as [Fa Fs]. rewrite S6, (I6 HFn), S5, I5. auto.
    - (* the inclusive first delivery *)
      pose proof (Hh) as Hh0. rewrite Hls0 in Hh0. destruct Hh0 as (HS0 & HF0 & _). subst Fin.
      destruct (Hfresh HS0) as [Fa Fs].
      cbn [map] in HmI. destruct evI as [|eI [|? ?]]; try discriminate. injection HmI as HeI.
      pose proof (Forall_inv HsI) as HsI1. cbn beta in HsI1. cbn [app] in Hrev.
      assert (HR : fin_events (ri r0) r0 b (with_stack m S') [eI] =
                   Some (mkFM S' 1 (bref (eblk eI)) true (bid (eblk eI) :: fm_finals m) (fm_stalled m))).
      { apply (fin_root (ri r0) r0 b (with_stack m S') eI rest); cbn [with_stack fm_any fm_stalled fm_stack fm_nfinal]; auto.
        - rewrite HeI. exact Hbid.
        - rewrite HeI. exact Hrev. }
      eexists. split.
      { rewrite fin_events_app, HA, app_nil_r. exact HR. }
      rewrite HeI. constructor; cbn [fm_stack fm_nfinal fm_last fm_finals fm_stalled fm_any].
      + reflexivity.
      + reflexivity.
      + apply (inv_last_ref U r0 cfg s' ([] ++ [b]) [] b S' HI'). reflexivity.
      + intros id [<-|Hin]; [left; left; reflexivity | apply Hmf in Hin; destruct Hin as [[]|Hin]; right; exact Hin].
      + rewrite Fs. intros id [].
      + intros HS'. rewrite HS' in Hrev. discriminate.
  Qed.

  (* ---------------------------------------------------------------- the lookups recorded after a step *)

  Lemma stack_in_U s Fin S : Inv s Fin S -> forall c, In c S -> In c U.
  Proof.
    intros HI c Hc. pose proof (i_head _ _ _ _ _ _ HI) as Hh. destruct (last_sent s) as [hd|].
    - destruct Hh as (_ & p & Hch & -> & _). apply in_rev in Hc.
      apply in_app_or in Hc as [Hc|Hc].
      + pose proof (i_fin _ _ _ _ _ _ HI) as Hf. rewrite Forall_forall in Hf. apply (Hf c Hc).
      + apply in_map_iff in Hc as (e & <- & He). apply (di_inU _ _ _ (i_db _ _ _ _ _ _ HI)). eapply chain_in; eassumption.
    - destruct Hh as (-> & _). destruct Hc.
  Qed.

  (* the blocks received so far: retained, or under the LIB *)
  Definition seen_ok (s : fstate) (seen : list block) : Prop :=
    forall x, In x seen -> In x U /\ (st s x \/ bnum x < rn (libref (db s))).

  (* lowest_from of the monitor walks the retained chain of the head *)
  Lemma lowest_from_chain s ids : (forall id, memN id ids = true <-> In id (keys (store (db s)))) ->
    in_U U (store (db s)) ->
    forall x bot q, chain (store (db s)) x bot q -> find bot (store (db s)) = None ->
    forall qq e, q = qq ++ [e] -> forall fuel, (length qq <= fuel)%nat ->
    lowest_from fuel U ids (eb e) = match q with e0 :: _ => bnum (eb e0) | [] => 0 end.
  Proof.
    intros Hids HU x bot q Hc. induction Hc as [x|x y e0 p0 Hne Hf Hc IH]; intros Hbot qq e Hqe fuel Hlen; [destruct qq; discriminate|].
    apply app_inj_tail in Hqe as [-> ->].
    destruct qq as [|e' qq' _] using rev_ind.
    - apply chain_nil_inv in Hc. cbn [app].
      destruct fuel as [|f]; [reflexivity|]. cbn [lowest_from].
      destruct (lookup (bparent (eb e)) U) as [p'|] eqn:L; [|reflexivity].
      destruct (lookup_sound _ _ _ L) as [_ Hpid].
      destruct (memN (bid p') ids) eqn:M; [|reflexivity]. exfalso.
      apply Hids in M. rewrite Hpid, Hc in M. apply find_is_some_in in M as [e1 He1]. congruence.
    - destruct (chain_top _ _ _ _ _ Hc) as [Hf' Hk'].
      assert (He'U : In (eb e') U) by (apply HU; apply find_some in Hf'; tauto).
      rewrite app_length in Hlen. cbn [length] in Hlen. destruct fuel as [|f]; [lia|]. cbn [lowest_from].
      assert (L : lookup (bparent (eb e)) U = Some (eb e')).
      { rewrite <- Hk'. apply (lookup_U U U_uniq). exact He'U. }
      rewrite L.
      assert (M : memN (bid (eb e')) ids = true).
      { apply Hids. apply (in_map key). apply find_some in Hf'. tauto. }
      rewrite M. rewrite (IH Hbot qq' e' eq_refl f) by lia.
      destruct (qq' ++ [e']) as [|z l] eqn:Z; [destruct qq'; discriminate | reflexivity].
  Qed.

  Lemma chain_len_U (l : list entry) x bot q : NoDup (keys l) -> in_U U l -> wf_store l -> chain l x bot q -> (length q <= length U)%nat.
  Proof.
    intros Hnd HU Hwf Hc. rewrite <- (map_length eb q). apply NoDup_incl_length.
    - apply (NoDup_map_inv bid). rewrite map_map. apply (chain_nodup _ _ _ _ Hwf Hc).
    - intros b Hb. apply in_map_iff in Hb as (e & <- & He). apply HU. eapply chain_in; eassumption.
  Qed.

  Lemma look_ok_model s Fin S mon seen moved : Inv s Fin S -> Ext s Fin S -> MInv s Fin S mon ->
    seen_ok s seen -> (moved = true -> bounded (db s) kept) ->
    look_ok kept U seen qh qi mon moved (model_look s qh qi) = true.
  Proof.
    intros HI HE [Hms _ Hml _ _ _] Hseen Hmoved.
    pose proof (i_db _ _ _ _ _ _ HI) as Hdb. pose proof (di_inU _ _ _ Hdb) as HU.
    pose proof (di_wf U r0 U_id U_up _ Hdb) as Hwf.
    unfold look_ok, model_look. cbn [l_ids l_lowest l_canon l_allat l_byhash]. rewrite Hml, Hms.
    repeat (apply andb_true_iff; split).
    - (* bounded after a LIB move *)
      destruct moved; [|reflexivity]. cbn [negb orb]. apply forallb_forall. intros id Hid.
      destruct (lookup id U) as [b'|] eqn:L; [|reflexivity]. apply N.leb_le.
      apply all_ids_in in Hid. apply in_map_iff in Hid as (e & Ek & He).
      assert (L2 : lookup id U = Some (eb e)) by (rewrite <- Ek; apply (lookup_U U U_uniq); apply HU; exact He).
      rewrite L in L2. injection L2 as ->.
      pose proof (Hmoved eq_refl) as Hb. unfold bounded, cutoff in Hb. rewrite Forall_forall in Hb. apply Hb. exact He.
    - (* retained *)
      apply forallb_forall. intros b Hb. destruct (Hseen b Hb) as [HbU Hst].
      destruct (N.leb_spec (rn (libref (db s))) (bnum b)) as [Hle|Hlt]; [|reflexivity]. cbn [negb orb].
      destruct Hst as [Hst|Hlt]; [|lia].
      destruct (found_of_st U U_uniq s b HU HbU Hst) as [Hh (l & Hl & Hin)].
      destruct (Hq b HbU) as [Hqi Hqh].
      destruct (index_of_in _ _ Hqi) as (i & Hi & Hni). destruct (index_of_in _ _ Hqh) as (j & Hj & Hnj).
      rewrite Hi, Hj, (nth_opt_map _ _ _ _ Hni), (nth_opt_map _ _ _ _ Hnj), Hh, Hl. cbn [andb].
      apply memN_In. exact Hin.
    - (* canonical *)
      apply forallb_forall. intros c Hc.
      destruct (N.leb_spec (rn (libref (db s))) (bnum c)) as [Hle|Hlt]; [|reflexivity]. cbn [negb orb].
      pose proof (stack_in_U s Fin S HI c Hc) as HcU. destruct (Hq c HcU) as [_ Hqh].
      destruct (index_of_in _ _ Hqh) as (j & Hj & Hnj). rewrite Hj, (nth_opt_map _ _ _ _ Hnj).
      rewrite (canonical_window U r0 cfg U_id U_uniq U_up L_id L_num L_up L_decl s Fin S c HI HE Hc) by lia. apply N.eqb_refl.
    - (* lowest servable number *)
      pose proof (head_is_top U r0 cfg U_id U_uniq U_up s Fin S HI HE) as Hls.
      destruct S as [|top S'] eqn:ES.
      + unfold lowest_block_num. rewrite Hls. reflexivity.
      + rewrite <- ES in *.
        destruct (shape_of U r0 cfg U_id U_uniq U_up s Fin S top HI HE Hls) as (p & q0 & bot & ehd & Hsh).
        destruct (lowest_of_shape U r0 cfg U_id U_up s Fin S top p q0 bot ehd HI Hls Hsh) as (e0 & rest & Hq' & Hlow).
        rewrite Hlow. apply N.eqb_eq.
        pose proof (sh_q _ _ _ _ _ _ _ _ _ Hsh) as Hch.
        destruct (@exists_last _ (q0 ++ p)) as (qq & e & Hqq); [rewrite Hq'; discriminate|].
        assert (Ee : eb e = top).
        { rewrite Hqq in Hch. destruct (chain_top _ _ _ _ _ Hch) as [Hf _].
          rewrite (sh_hd _ _ _ _ _ _ _ _ _ Hsh) in Hf. injection Hf as <-. apply (sh_ehd _ _ _ _ _ _ _ _ _ Hsh). }
        rewrite <- Ee.
        rewrite (lowest_from_chain s (all_ids s)) with (x := bid top) (bot := bot) (q := q0 ++ p) (qq := qq).
        * rewrite Hq'. reflexivity.
        * intros id. rewrite memN_In. apply all_ids_in.
        * exact HU.
        * exact Hch.
        * apply (sh_bot _ _ _ _ _ _ _ _ _ Hsh).
        * exact Hqq.
        * pose proof (chain_len_U _ _ _ _ (di_nodup _ _ _ Hdb) HU Hwf Hch) as Hlen.
          rewrite Hqq, app_length in Hlen. cbn [length] in Hlen. lia.
    - (* no lookup crashed *)
      apply forallb_forall. intros x Hx. apply in_map_iff in Hx as (n & <- & _). reflexivity.
  Qed.

  (* ---------------------------------------------------------------- one step of the monitor *)

  Record FInv (s : fstate) (Fin : list block) (S : cstack) (mon : fin_mon) (lastnew : N) (seen : list block) : Prop := mkFInv {
    fi_m : MInv s Fin S mon;
    fi_new : lastnew = top_id S;
    fi_seen : seen_ok s seen
  }.

  (* only the purge moves the LIB *)
  Lemma stepw_bounded s Fin S b s' evA evI evS Fnew S' : StepW s Fin S b s' evA evI evS Fnew S' ->
    libref (db s') <> libref (db s) -> bounded (db s') kept.
  Proof.
    intros (_ & _ & _ & _ & _ & _ & _ & _ & _ & _ & _ & _ & _ & _ & Hcases) Hne.
    destruct Hcases as [(-> & _)|[(_ & _ & Hdb' & _)|[(_ & _ & Hdb' & _)|(_ & _ & _ & _ & _ & s3 & _ & Hl3 & _ & _ & Hc)]]].
    - contradiction.
    - rewrite Hdb' in Hne. contradiction.
    - rewrite Hdb' in Hne. contradiction.
    - destruct Hc as [(Hsame & _)|(libr & Hp)].
      + rewrite Hsame, Hl3 in Hne. contradiction.
      + rewrite Hp. unfold bounded, cutoff. cbn [purge_before_lib move_lib store libref rn].
        apply Forall_forall. intros e He. apply filter_In in He as [_ He]. apply N.leb_le in He. exact He.
  Qed.

  Lemma step_follow s Fin S mon lastnew seen b s' evA evI evS Fnew S' :
    Inv s Fin S -> Ext s Fin S -> FInv s Fin S mon lastnew seen -> In b U ->
    StepW s Fin S b s' evA evI evS Fnew S' ->
    exists mon', fin_events (ri r0) r0 b mon (evA ++ evI ++ evS) = Some mon' /\
      Inv s' (Fin ++ Fnew) S' /\ Ext s' (Fin ++ Fnew) S' /\
      FInv s' (Fin ++ Fnew) S' mon' (last_new lastnew (evA ++ evI ++ evS)) (b :: seen) /\
      head_id (head_info s') = last_new lastnew (evA ++ evI ++ evS) /\
      (forall moved, (moved = true -> fm_last mon <> fm_last mon') ->
                     look_ok kept U (b :: seen) qh qi mon' moved (model_look s' qh qi) = true).
  Proof.
    intros HI HE [HM Hln Hseen] Hb HW.
    destruct (fin_w s Fin S b mon s' evA evI evS Fnew S' HI HM Hb HW) as (mon' & Hfin & HM').
    pose proof (ext_step U r0 cfg U_id U_uniq U_up L_id L_num L_up L_decl _ _ _ _ _ _ _ _ _ _ HI HE Hb HW) as HE'.
    destruct (kept_step U r0 cfg U_id U_uniq U_up L_id L_num L_up L_decl _ _ _ _ _ _ _ _ _ _ HW) as [HK HKb].
    pose proof (stepw_bounded _ _ _ _ _ _ _ _ _ _ HW) as Hbd.
    destruct HW as (Happ & HI' & _ & _ & HsI & HsS & _ & Hmono & _ & _ & _ & _ & _ & Hlast & Hcases).
    pose proof (head_is_top U r0 cfg U_id U_uniq U_up s' _ S' HI' HE') as Hls'.
    (* the last New *)
    assert (Hnew' : last_new lastnew (evA ++ evI ++ evS) = top_id S').
    { rewrite last_new_app, (last_new_inert _ (evI ++ evS)).
      2:{ apply Forall_app. split; (eapply Forall_impl; [|eassumption]); cbn beta; auto. }
      destruct Hlast as [->|(pre & e & -> & He & Heb)].
      - cbn in Happ. injection Happ as <-. exact Hln.
      - rewrite (last_new_snoc _ _ _ He), Heb.
        assert (Hlsb : last_sent s' = Some b).
        { destruct Hcases as [(_ & Hnil & _)|[(_ & _ & _ & _ & Hnil & _)|[(_ & _ & _ & _ & H & _)|(_ & _ & H & _)]]];
            [destruct pre; discriminate | destruct pre; discriminate | exact H | exact H]. }
        rewrite Hlsb in Hls'. destruct S' as [|top S'']; [discriminate|]. injection Hls' as ->. reflexivity. }
    assert (Hseen' : seen_ok s' (b :: seen)).
    { intros x [<-|Hx].
      - split; [exact Hb|]. destruct (dropped s b) eqn:Hd.
        + right. unfold dropped in Hd. apply andb_true_iff in Hd as [Hd _]. apply N.ltb_lt in Hd. lia.
        + destruct (HKb Hb eq_refl) as [H|H]; [left; exact H | right; lia].
      - destruct (Hseen x Hx) as [HxU [Hst|Hlt]]; (split; [exact HxU|]).
        + destruct (HK x HxU (or_introl Hst)) as [H|H]; [left; exact H | right; lia].
        + right. lia. }
    exists mon'. split; [exact Hfin|]. split; [exact HI'|]. split; [exact HE'|].
    split; [constructor; assumption|]. split.
    - rewrite Hnew'. unfold head_id, head_info. rewrite Hls'. destruct S'; reflexivity.
    - intros moved Hmv. apply (look_ok_model s' _ S' mon' (b :: seen) moved HI' HE' HM' Hseen').
      intros Hm. apply Hbd. intros E. apply (Hmv Hm).
      destruct HM as [_ _ Hml _ _ _]. destruct HM' as [_ _ Hml' _ _ _]. congruence.
  Qed.

  (* ---------------------------------------------------------------- whole observations, any handler oracle *)

  Variable cfgF : config.
  Hypothesis HcfgF : nofail cfgF = cfg.

  Lemma step_or_fail s b sN evsN : before_fail cfgF s -> fk_step cfg s b = (sN, evsN, ROk) ->
    (fk_step cfgF s b = (sN, evsN, ROk) /\ before_fail cfgF sN) \/
    (exists se e1 e2, evsN = e1 ++ e2 /\ fk_step cfgF s b = (se, e1, RHandlerErr)).
  Proof.
    unfold before_fail. rewrite <- HcfgF. destruct (c_fail_at cfgF) as [k|] eqn:Hf; intros Hk Hstep.
    - pose proof (step_fail cfgF k Hf s b) as R. rewrite Hstep in R. cbn [step_rel'] in R.
      destruct R as (_ & evs0 & Hev & Hn & Hrel). cbn [app] in Hev. subst evs0.
      destruct (Hrel Hk) as [HA HB].
      destruct (N.le_gt_cases (ncalls s + N.of_nat (length evsN)) k) as [Hle|Hgt].
      + left. split; [apply HA; exact Hle | lia].
      + right. destruct (HB Hgt) as (se & e1 & e2 & He & _ & Hres). exists se, e1, e2. auto.
    - left. rewrite (nofail_same cfgF Hf) in Hstep. auto.
  Qed.

  Lemma follow_run : forall hh s Fin S mon lastnew seen os,
    Inv s Fin S -> Ext s Fin S -> FInv s Fin S mon lastnew seen -> (forall b, In b hh -> In b U) ->
    before_fail cfgF s -> model_matches cfgF s hh os qh qi = true ->
    c18_follow false kept (ri r0) r0 U qh qi mon lastnew seen hh os = true.
  Proof.
    induction hh as [|b rest IH]; intros s Fin S mon lastnew seen os HI HE HF Hh Hbf Hmm.
    - destruct os; reflexivity.
    - destruct os as [|o os']; [reflexivity|].
      assert (Hb : In b U) by (apply Hh; left; reflexivity).
      destruct (step_w U r0 cfg Hnofail Hnew Hundo U_id U_uniq U_up L_id L_num L_up L_decl s Fin S b HI Hb)
        as (sN & evA & evI & evS & Fnew & S1 & HstepN & HW).
      destruct (step_follow s Fin S mon lastnew seen b sN evA evI evS Fnew S1 HI HE HF Hb HW)
        as (mon' & Hfin & HI1 & HE1 & HF1 & Hhead & Hlook).
      cbn [model_matches] in Hmm. cbn [c18_follow].
      destruct (step_or_fail s b sN _ Hbf HstepN) as [[HstepF Hbf1] | (se & e1 & e2 & Hev & HstepF)].
      + rewrite HstepF in Hmm.
        apply andb_true_iff in Hmm as [Hmm H6]. apply andb_true_iff in Hmm as [Hmm H5].
        apply andb_true_iff in Hmm as [Hmm H4]. apply andb_true_iff in Hmm as [Hmm H3].
        apply andb_true_iff in Hmm as [H1 H2].
        apply (list_eqb_eq _ event_eqb_iff) in H1. apply result_eqb_iff in H2. apply head_eqb_id in H3.
        rewrite <- H1, Hfin, <- H2. cbv beta iota zeta. cbn [result_eqb negb orb andb].
        apply andb_true_iff. split; [apply andb_true_iff; split|].
        * fold (head_id (o_head o)). rewrite <- H3, Hhead. apply N.eqb_refl.
        * destruct (o_look o) as [l|]; [|reflexivity]. apply look_eqb_eq in H5. subst l.
          apply Hlook. intros Hm. apply andb_true_iff in Hm as [Hm _]. apply andb_true_iff in Hm as [_ Hm].
          apply negb_true_iff in Hm. intros E. rewrite E, (proj2 (ref_eqb_iff _ _) eq_refl) in Hm. discriminate.
        * apply (IH sN _ S1 mon' _ (b :: seen) os' HI1 HE1 HF1); [|exact Hbf1 | exact H6].
          intros x Hx. apply Hh. right. exact Hx.
      + rewrite HstepF in Hmm.
        apply andb_true_iff in Hmm as [Hmm H6]. apply andb_true_iff in Hmm as [Hmm H5].
        apply andb_true_iff in Hmm as [Hmm H4]. apply andb_true_iff in Hmm as [Hmm H3].
        apply andb_true_iff in Hmm as [H1 H2].
        apply (list_eqb_eq _ event_eqb_iff) in H1. apply result_eqb_iff in H2.
        rewrite Hev in Hfin. destruct (fin_events_split _ _ _ _ _ _ _ Hfin) as (m1 & H0 & _).
        rewrite <- H1, H0, <- H2. cbv beta iota zeta. cbn [result_eqb negb orb andb].
        destruct os' as [|o2 os2]; [|discriminate].
        destruct (o_look o); destruct rest; reflexivity.
  Qed.
End Follow.

(* ================================================================ the monitor accepts *)

Theorem c18_moving_lib_proof : C18_moving_lib.
Proof.
  intros k Hsc Hcor. unfold c18_prop. apply orb_true_iff. right.
  unfold c18_moving_thm_scope in Hsc. unfold fk_corresponds in Hcor.
  assert (Hgen : forall r0, rooted_mode r0 (k_mode k) ->
            filt_nu k && filt_irr k && moving_scope2_b r0 (k_hist k) &&
            forallb (fun b => memN (bid b) (k_qi k) && memN (bnum b) (k_qh k)) (k_hist k) = true ->
            c18_follow false (c_kept (k_cfg k)) (ri r0) r0 (k_hist k) (k_qh k) (k_qi k)
                       (mkFM [] 0 r0 false [] []) 0 [] (k_hist k) (k_obs k) = true).
  { intros r0 Hm H. apply andb_true_iff in H as [H Hqs]. apply andb_true_iff in H as [H Hscope].
    apply andb_true_iff in H as [Hnu Hirr]. unfold filt_nu in Hnu. apply andb_true_iff in Hnu as [Hnew Hundo].
    unfold filt_irr in Hirr. rewrite forallb_forall in Hqs.
    destruct (scope2_parts r0 (k_hist k) Hscope) as (_ & _ & Hr0 & _).
    apply (follow_run (k_hist k) r0 (nofail (k_cfg k)) eq_refl Hnew Hundo Hirr
             (bridge_id _ (m2_wf r0 _ Hscope)) (bridge_uniq _ (m2_wf r0 _ Hscope)) (bridge_up _ (m2_wf r0 _ Hscope))
             Hr0 (fun y Hy => proj2 (mb2_parts r0 _ Hscope y Hy)) (fun x Hx => proj1 (mb2_parts r0 _ Hscope x Hx))
             (bridge2_decl r0 _ Hscope) (k_qh k) (k_qi k)) with (cfgF := k_cfg k) (s := fs_init (k_mode k)) (Fin := []) (S := []).
    - intros x Hx. specialize (Hqs x Hx). apply andb_true_iff in Hqs as [H1 H2]. apply memN_In in H1, H2. auto.
    - reflexivity.
    - apply inv_init; [exact Hr0 | exact (fun y Hy => proj2 (mb2_parts r0 _ Hscope y Hy))
                       | exact (fun x Hx => proj1 (mb2_parts r0 _ Hscope x Hx)) | exact Hm].
    - apply ext_init. exact Hm.
    - constructor.
      + constructor; cbn; auto; try (intros id []). destruct Hm as [-> | ->]; reflexivity.
      + reflexivity.
      + intros x [].
    - intros b Hb. exact Hb.
    - apply before_fail_init.
    - exact Hcor. }
  destruct (k_mode k) as [r0|r0|] eqn:Em; [| |discriminate].
  - cbn [root_ref]. apply (Hgen r0); [left; reflexivity | exact Hsc].
  - cbn [root_ref]. apply (Hgen r0); [right; reflexivity | exact Hsc].
Qed.

(* the model's own run corresponds to itself *)
Lemma look_eqb_refl l : look_eqb l l = true.
Proof.
  destruct l as [a1 a2 a3 a4 a5]. unfold look_eqb, optN_eqb. cbn [l_ids l_lowest l_canon l_allat l_byhash].
  repeat (apply andb_true_iff; split).
  - apply eqb_list_refl.
  - apply (opt_eqb_iff N.eqb N.eqb_eq). reflexivity.
  - apply eqb_list_refl.
  - apply (list_eqb_eq _ (opt_eqb_iff eqb_list eqb_list_eq)). reflexivity.
  - apply (list_eqb_eq _ Bool.eqb_true_iff). reflexivity.
Qed.

Lemma head_eqb_refl x : head_eqb x x = true.
Proof. destruct x as [[r n]|]; cbn; [|reflexivity]. rewrite (proj2 (ref_eqb_iff r r) eq_refl), N.eqb_refl. reflexivity. Qed.

Lemma model_obs_matches cfg qh qi : forall h s, model_matches cfg s h (model_obs cfg s h qh qi) qh qi = true.
Proof.
  induction h as [|b rest IH]; intros s; [reflexivity|]. cbn [model_obs model_matches].
  destruct (fk_step cfg s b) as [[s' evs] r] eqn:Hstep. cbn [o_events o_result o_head o_headnum o_look].
  rewrite (proj2 (list_eqb_eq _ event_eqb_iff evs evs) eq_refl), (proj2 (result_eqb_iff r r) eq_refl),
    head_eqb_refl, N.eqb_refl, look_eqb_refl. cbn [andb].
  destruct r; try reflexivity. apply IH.
Qed.

Theorem c18_moving_own_run_proof : C18_moving_own_run.
Proof.
  intros cfg m h qh qi Hsc.
  assert (Hcor : fk_corresponds (model_case cfg m h qh qi) = true) by apply model_obs_matches.
  split; [exact Hcor | apply c18_moving_lib_proof; assumption].
Qed.

(* the theorem-scope filter written with the names visible from the check's imports (driver/thm_C18.json carries this
   text as "thm_scope") *)
Definition c18_moving_thm_scope_inline : fk_case -> bool :=
  (fun k => match k_mode k with
            | LExcl r0 | LIncl r0 =>
                filt_nu k && filt_irr k &&
                (BV.Spec.Universe.wf_b (k_hist k) && BV.Spec.Universe.lib_ok_b (LExcl r0) (k_hist k) && negb (ri r0 =? 0) &&
                 forallb (fun b => (if bparent b =? ri r0 then rn r0 <? bnum b else true) &&
                                   (if bid b =? ri r0 then bnum b =? rn r0 else true)) (k_hist k)) &&
                forallb (fun b => memN (bid b) (k_qi k) && memN (bnum b) (k_qh k)) (k_hist k)
            | LNone => false
            end).

Lemma c18_moving_thm_scope_inline_eq k : c18_moving_thm_scope_inline k = c18_moving_thm_scope k.
Proof. reflexivity. Qed.
